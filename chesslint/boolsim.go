package main

// Path-sensitive boolean abstract interpretation of (almost) loop-free
// functions. Branch conditions are mapped to named atoms by a classifier;
// the simulator walks every CFG path, forking on atoms that are not yet
// decided on the path and on conditions it does not understand, evaluating
// negation and bool phis (short-circuit && / ||, `x := a && b`) exactly with
// respect to the edge taken. Rules ask "under which atom assignments can this
// instruction execute?" instead of matching one syntactic arrangement of the
// conditions, so De Morgan rewrites, early returns, merged or split ifs and
// named boolean locals do not change the verdict.

import (
	"go/token"
	"go/types"

	"golang.org/x/tools/go/ssa"
)

// atomClassifier maps a bool-typed value to an atom name; neg means the value is the atom's negation.
type atomClassifier func(v ssa.Value) (name string, neg bool, ok bool)

type simState struct {
	asg map[string]bool // atoms decided on this path
}

func (s simState) clone() simState {
	m := make(map[string]bool, len(s.asg)+1)
	for k, v := range s.asg {
		m[k] = v
	}
	return simState{m}
}

type simulator struct {
	fn       *ssa.Function
	classify atomClassifier
	feasible func(asg map[string]bool) bool // optional pruning of contradictory assignments
	interest func(in ssa.Instruction) bool
	visit    func(in ssa.Instruction, asg map[string]bool)
	atExit   func(ret *ssa.Return, asg map[string]bool)
	maxVisit int // how often a block may repeat on one path (bounded loops)
	budget   int
	steps    int
	aborted  bool
	count    map[int]int
}

// evalBool evaluates v on the current path; results: value, known. When the
// value is an undecided atom the caller forks.
func (sm *simulator) evalBool(v ssa.Value, prev *ssa.BasicBlock, cur *ssa.BasicBlock, st simState) (val bool, atom string, neg bool, kind int) {
	// kind: 0 = known constant value, 1 = undecided atom (fork on it), 2 = unknown (fork, no recording)
	switch x := v.(type) {
	case *ssa.Const:
		k, _ := constOf(x)
		return k != 0, "", false, 0
	case *ssa.UnOp:
		if x.Op == token.NOT {
			b, a, n, k := sm.evalBool(x.X, prev, cur, st)
			return !b, a, !n, k
		}
	case *ssa.Phi:
		// bool phis are resolved against the incoming edge when their block is entered
		if pv, ok := st.phi(x); ok {
			return pv, "", false, 0
		}
		return false, "", false, 2
	}
	if name, n, ok := sm.classify(v); ok {
		if b, decided := st.asg[name]; decided {
			return b != n, "", false, 0
		}
		return false, name, n, 1
	}
	return false, "", false, 2
}

// phi values resolved when their block was entered are remembered under a synthetic atom name.
func (s simState) phi(p *ssa.Phi) (bool, bool) {
	v, ok := s.asg["φ"+p.Name()]
	return v, ok
}

func isBoolType(v ssa.Value) bool {
	bt, ok := v.Type().Underlying().(*types.Basic)
	return ok && bt.Info()&types.IsBoolean != 0
}

func (sm *simulator) run() {
	if sm.maxVisit == 0 {
		sm.maxVisit = 1
	}
	if sm.budget == 0 {
		sm.budget = 400000
	}
	sm.count = map[int]int{}
	sm.enter(sm.fn.Blocks[0], nil, simState{map[string]bool{}})
}

// enter processes block b reached from prev.
func (sm *simulator) enter(b, prev *ssa.BasicBlock, st simState) {
	if sm.aborted {
		return
	}
	sm.steps++
	if sm.steps > sm.budget {
		sm.aborted = true
		return
	}
	if sm.count[b.Index] >= sm.maxVisit {
		return
	}
	sm.count[b.Index]++
	defer func() { sm.count[b.Index]-- }()
	sm.phis(b, prev, st, 0)
}

// phis resolves the bool phis of b (from index i on) with respect to the incoming edge, forking where a phi equals an undecided atom.
func (sm *simulator) phis(b, prev *ssa.BasicBlock, st simState, i int) {
	for ; i < len(b.Instrs); i++ {
		ph, ok := b.Instrs[i].(*ssa.Phi)
		if !ok {
			break
		}
		if prev == nil || !isBoolType(ph) {
			continue
		}
		for k, p := range b.Preds {
			if p != prev {
				continue
			}
			val, atom, neg, kind := sm.evalBool(ph.Edges[k], nil, nil, st)
			switch kind {
			case 0:
				st = st.clone()
				st.asg["φ"+ph.Name()] = val
			case 1:
				for _, choice := range []bool{true, false} {
					s2 := st.clone()
					s2.asg[atom] = choice
					if sm.feasible != nil && !sm.feasible(s2.asg) {
						continue
					}
					s2.asg["φ"+ph.Name()] = choice != neg
					sm.phis(b, prev, s2, i+1)
				}
				return
			default:
				st = st.clone()
				delete(st.asg, "φ"+ph.Name())
			}
			break
		}
	}
	sm.body(b, st, i)
}

// body executes the non-phi instructions of b from index i and follows the terminator.
func (sm *simulator) body(b *ssa.BasicBlock, st simState, i int) {
	for ; i < len(b.Instrs); i++ {
		in := b.Instrs[i]
		if sm.interest != nil && sm.interest(in) && sm.visit != nil {
			sm.visit(in, st.asg)
		}
		switch x := in.(type) {
		case *ssa.Return:
			if sm.atExit != nil {
				sm.atExit(x, st.asg)
			}
			return
		case *ssa.Panic:
			return
		case *ssa.Jump:
			sm.enter(b.Succs[0], b, st)
			return
		case *ssa.If:
			val, atom, neg, kind := sm.evalBool(x.Cond, nil, b, st)
			switch kind {
			case 0:
				if val {
					sm.enter(b.Succs[0], b, st)
				} else {
					sm.enter(b.Succs[1], b, st)
				}
			case 1:
				for _, choice := range []bool{true, false} {
					s2 := st.clone()
					s2.asg[atom] = choice
					if sm.feasible != nil && !sm.feasible(s2.asg) {
						continue
					}
					if choice != neg {
						sm.enter(b.Succs[0], b, s2)
					} else {
						sm.enter(b.Succs[1], b, s2)
					}
				}
			default:
				sm.enter(b.Succs[0], b, st)
				sm.enter(b.Succs[1], b, st)
			}
			return
		}
	}
}

// canExecuteUnder reports whether instruction target can execute on a path whose
// decided atoms are consistent with `want` (atoms in want that the path never tested
// count as free, i.e. consistent).
func canExecuteUnder(fn *ssa.Function, classify atomClassifier, feasible func(map[string]bool) bool, target func(ssa.Instruction) bool, want map[string]bool, maxVisit int) (bool, bool) {
	found := false
	sm := &simulator{fn: fn, classify: classify, feasible: feasible, interest: target, maxVisit: maxVisit}
	sm.visit = func(in ssa.Instruction, asg map[string]bool) {
		for k, v := range want {
			if got, ok := asg[k]; ok && got != v {
				return
			}
		}
		found = true
	}
	sm.run()
	return found, !sm.aborted
}
