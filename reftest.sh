#!/bin/bash
# usage: reftest.sh <patch.diff>...   — behaviour-preserving edits: every check must stay silent
cd /repo || exit 2
for P in "$@"; do
  if ! git diff --quiet; then echo "/repo not clean"; exit 2; fi
  git apply "$P" 2>/dev/null || { echo "SKIP $P (does not apply)"; continue; }
  bad=""
  res=$(for id in $(/verif/bin/chesslint list); do echo $id; done | xargs -P 10 -I{} sh -c 'out=$(/verif/bin/chesslint check {} 2>&1); rc=$?; if [ $rc -ne 0 ]; then echo "ALARM {}"; echo "$out" | grep -v "^VIOLATION" | grep -v "^KNOWN" | head -4 | cut -c1-330; fi')
  git checkout -q -- .
  if [ -z "$res" ]; then echo "SILENT $P"; else echo "FALSE-ALARM $P"; echo "$res"; fi
done
cd /verif && git checkout -q evidence 2>/dev/null
