package main

import (
	"fmt"
	"go/ast"
	"go/constant"
	"go/token"
	"go/types"
	"math/bits"
	"sort"
	"strings"

	"golang.org/x/tools/go/ssa"
)

func init() {
	register(&Property{
		ID: "C03",
		Explain: "Static necessary conditions for 'undoing a move restores the position exactly'. " +
			"R1: every Board field stored (directly or through addPiece/removePiece) by MakeMove / MakeNullMove is also stored by the matching undo. " +
			"R2: the Reverse token's four bit-fields are pairwise disjoint, contiguous at their own shift, wide enough for the value range of what they hold, and every accessor uses the mask and shift of one and the same field. " +
			"R3: the values saved into the token are read before the corresponding board field is overwritten (save-before-clobber) and each undo restores the field from the getter of the same token field in the matching form (old value -> assign, delta -> xor). " +
			"R4: MakeMove/MakeNullMove append to the hash history exactly once on every path, the undos truncate it by exactly one, nobody else changes it except ResetHash. " +
			"R5: UndoMove's castling cases mirror MakeMove's with rook squares swapped; the capture square is evaluated only after en-passant state and the mover are restored; promotions are undone to a pawn. " +
			"R6: consumers nest make/undo properly (PAIR engine). Not decided: value equality of positions.",
		Assume: []string{"go/ssa models the program faithfully", "Reverse setters are called with values within their declared type's used range (checked for widths, not per call)"},
		Run:    runC03,
	})
}

func runC03(c *Ctx) {
	p := c.need("default")
	if p == nil {
		return
	}
	c03R1(c, p)
	c03R2(c, p)
	c03R3(c, p)
	c03R4(c, p, "C03.R4")
	c03R5(c, p)
	rulePairs(c, p, "C03.R6")
	boardCopyRule(c, p, "C03.R7")
	c03R8(c, p)
	c03R9(c, p)
	epNullRule(c, p, "C03.R10")
}

// boardWrites: Board fields stored by fn and its callees inside package board.
func boardWrites(p *Prog, fn *ssa.Function) map[string]site {
	fns := p.closure([]*ssa.Function{fn}, func(f *ssa.Function) bool { return relPkg(fnPkgPath(f)) != "board" })
	out := map[string]site{}
	for _, f := range fns {
		if relPkg(fnPkgPath(f)) != "board" {
			continue
		}
		e := directEffects(f)
		for k, ss := range e.FieldWrites {
			if strings.HasPrefix(k, "board.Board.") {
				if _, ok := out[k]; !ok {
					out[k] = ss[0]
				}
			}
		}
	}
	return out
}

func c03R1(c *Ctx, p *Prog) {
	const rule = "C03.R1"
	pairs := [][2]string{{"board.(*Board).MakeMove", "board.(*Board).UndoMove"}, {"board.(*Board).MakeNullMove", "board.(*Board).UndoNullMove"}}
	floors := []int{9, 3}
	for i, pr := range pairs {
		mk, un := p.Func(pr[0]), p.Func(pr[1])
		if mk == nil {
			c.Anchor(rule, pr[0])
			continue
		}
		if un == nil {
			c.Anchor(rule, pr[1])
			continue
		}
		mw, uw := boardWrites(p, mk), boardWrites(p, un)
		for _, f := range sortedKeys(mw) {
			if _, ok := uw[f]; ok {
				c.Ok(rule, pr[0]+"#"+f, mw[f].Pos, "%s is stored by %s and restored by %s", f, pr[0], pr[1])
			} else {
				c.Fail(rule, pr[0]+"#"+f, mw[f].Pos, "%s is changed by %s (in %s) but never stored by %s: make followed by undo leaves it different", f, pr[0], fnName(mw[f].Fn), pr[1])
			}
		}
		c.Floor(rule+"."+[]string{"move", "null"}[i], len(mw), floors[i], "Board fields written by "+pr[0])
	}
}

// ---- R2: token layout ----

type tokenField struct {
	Mask      uint64
	Shift     int
	Width     int
	MaskName  string
	ShiftName string
}

// reverseFields reads the mask/shift constants of type Reverse in package board.
func reverseFields(c *Ctx, p *Prog, rule string) []tokenField {
	pk := p.Pkg("board")
	if pk == nil {
		c.Anchor(rule, "package board")
		return nil
	}
	revT, _ := pk.Types.Scope().Lookup("Reverse").(*types.TypeName)
	if revT == nil {
		c.Anchor(rule, "board.Reverse")
		return nil
	}
	var out []tokenField
	sc := pk.Types.Scope()
	for _, n := range sc.Names() {
		k, ok := sc.Lookup(n).(*types.Const)
		if !ok || !types.Identical(k.Type(), revT.Type()) {
			continue
		}
		u, ok := constant.Uint64Val(constant.ToInt(k.Val()))
		if !ok || u == 0 {
			continue
		}
		out = append(out, tokenField{Mask: u, Shift: bits.TrailingZeros64(u), Width: bits.OnesCount64(u), MaskName: n})
	}
	sort.Slice(out, func(i, j int) bool { return out[i].Shift < out[j].Shift })
	return out
}

func c03R2(c *Ctx, p *Prog) {
	const rule = "C03.R2"
	fields := reverseFields(c, p, rule)
	if fields == nil {
		return
	}
	pk := p.Pkg("board")
	pos := pk.Types.Scope().Lookup("Reverse").Pos()
	// disjoint + contiguous
	for i, f := range fields {
		contiguous := f.Mask == ((uint64(1)<<uint(f.Width))-1)<<uint(f.Shift)
		c.Check(contiguous, rule, "mask:"+f.MaskName+"#contiguous", pk.Types.Scope().Lookup(f.MaskName).Pos(), "mask %#x is a contiguous run of %d bits at shift %d", f.Mask, f.Width, f.Shift)
		for j := i + 1; j < len(fields); j++ {
			g := fields[j]
			c.Check(f.Mask&g.Mask == 0, rule, "mask:"+f.MaskName+"&"+g.MaskName+"#disjoint", pos, "token fields %s and %s do not overlap", f.MaskName, g.MaskName)
		}
	}
	c.Floor(rule+".fields", len(fields), 4, "Reverse mask constants")
	// accessors: every method on Reverse references exactly one mask constant and shifts by that mask's shift
	revNamed := pk.Types.Scope().Lookup("Reverse").Type().(*types.Named)
	info := pk.TypesInfo
	byMask := map[string]tokenField{}
	for _, f := range fields {
		byMask[f.MaskName] = f
	}
	nAcc := 0
	accessorField := map[string]string{} // method name -> mask name
	for i := 0; i < revNamed.NumMethods(); i++ {
		m := revNamed.Method(i)
		fd := p.DeclOf(m)
		if fd == nil || fd.Body == nil {
			continue
		}
		var masks []string
		var shiftVals []int64
		delegateClears := false
		ast.Inspect(fd.Body, func(n ast.Node) bool {
			switch x := n.(type) {
			case *ast.CallExpr:
				// delegation to a generic field helper: r.field(mask, shift) / r.setField(mask, shift, v)
				sel, ok := ast.Unparen(x.Fun).(*ast.SelectorExpr)
				if !ok {
					break
				}
				callee, _ := info.Uses[sel.Sel].(*types.Func)
				if callee == nil || callee.Pkg() != pk.Types {
					break
				}
				maskPos := -1
				for ai, a := range x.Args {
					if id, ok := ast.Unparen(a).(*ast.Ident); ok {
						if k, ok := info.Uses[id].(*types.Const); ok && k.Pkg() == pk.Types {
							if _, isMask := byMask[k.Name()]; isMask {
								maskPos = ai
							}
						}
					}
				}
				if maskPos < 0 {
					break
				}
				for ai, a := range x.Args {
					if ai == maskPos {
						continue
					}
					if v, ok := constInt(info, a); ok {
						shiftVals = append(shiftVals, v)
					}
				}
				// does the helper clear the field given by its mask parameter?
				if cd := p.DeclOf(callee); cd != nil && cd.Body != nil && cd.Type.Params != nil {
					var pnames []string
					for _, fl := range cd.Type.Params.List {
						for _, nm := range fl.Names {
							pnames = append(pnames, nm.Name)
						}
					}
					if maskPos < len(pnames) {
						mp := pnames[maskPos]
						ast.Inspect(cd.Body, func(n2 ast.Node) bool {
							switch y := n2.(type) {
							case *ast.UnaryExpr:
								if id, ok := ast.Unparen(y.X).(*ast.Ident); ok && y.Op == token.XOR && id.Name == mp {
									delegateClears = true
								}
							case *ast.BinaryExpr:
								if id, ok := ast.Unparen(y.Y).(*ast.Ident); ok && y.Op == token.AND_NOT && id.Name == mp {
									delegateClears = true
								}
							}
							return true
						})
					}
				}
			case *ast.Ident:
				if k, ok := info.Uses[x].(*types.Const); ok && k.Pkg() == pk.Types {
					if _, isMask := byMask[k.Name()]; isMask {
						masks = append(masks, k.Name())
					}
				}
			case *ast.BinaryExpr:
				if x.Op == token.SHL || x.Op == token.SHR {
					if v, ok := constInt(info, x.Y); ok {
						shiftVals = append(shiftVals, v)
					} else {
						shiftVals = append(shiftVals, -1)
					}
				}
			}
			return true
		})
		name := "board.(Reverse)." + m.Name()
		uniq := map[string]bool{}
		for _, mm := range masks {
			uniq[mm] = true
		}
		if len(uniq) == 0 {
			continue // not a field accessor
		}
		nAcc++
		if len(uniq) != 1 {
			c.Fail(rule, name+"#one-field", fd.Pos(), "accessor touches %d different token fields %v", len(uniq), sortedKeys(uniq))
			continue
		}
		mn := masks[0]
		f := byMask[mn]
		accessorField[m.Name()] = mn
		okShift := len(shiftVals) == 1 && shiftVals[0] == int64(f.Shift)
		c.Check(okShift, rule, name+"#shift", fd.Pos(), "accessor of field %s shifts by %d, the position of its own mask (shifts seen: %v)", mn, f.Shift, shiftVals)
		// setter clears the field before or-ing: contains ^mask (or &^ mask)
		sig := m.Type().(*types.Signature)
		if _, isPtr := sig.Recv().Type().(*types.Pointer); isPtr {
			clears := false
			ast.Inspect(fd.Body, func(n ast.Node) bool {
				switch x := n.(type) {
				case *ast.UnaryExpr:
					if x.Op == token.XOR {
						if id, ok := ast.Unparen(x.X).(*ast.Ident); ok && id.Name == mn {
							clears = true
						}
					}
				case *ast.BinaryExpr:
					if x.Op == token.AND_NOT {
						if id, ok := ast.Unparen(x.Y).(*ast.Ident); ok && id.Name == mn {
							clears = true
						}
					}
				}
				return true
			})
			c.Check(clears || delegateClears, rule, name+"#clears", fd.Pos(), "setter clears field %s (& ^mask) before or-ing the new value", mn)
		}
	}
	c.Floor(rule+".accessors", nAcc, 8, "Reverse accessors")
	// widths hold the type ranges of what MakeMove stores: derive from setter parameter types
	need := func(t types.Type) (int, string) {
		n, _ := types.Unalias(t).(*types.Named)
		if n == nil {
			return -1, ""
		}
		switch n.Obj().Name() {
		case "Depth":
			// whole underlying type
			if b, ok := n.Underlying().(*types.Basic); ok {
				return int(p.sizeofBasic(b)) * 8, "full width of " + b.Name()
			}
		case "Castles":
			if v, ok := p.pkgConstInt("chess.LongBlack"); ok {
				mx := v
				for _, nm := range []string{"chess.ShortWhite", "chess.LongWhite", "chess.ShortBlack"} {
					if w, ok := p.pkgConstInt(nm); ok && w > mx {
						mx = w
					}
				}
				return bits.Len64(uint64(mx)), "highest castling-right bit"
			}
		case "Square":
			if v, ok := p.pkgConstInt("chess.Squares"); ok {
				return bits.Len64(uint64(v - 1)), "squares 0..Squares-1 (and xor of two of them)"
			}
		case "Piece":
			if v, ok := p.pkgConstInt("chess.King"); ok {
				return bits.Len64(uint64(v)), "pieces NoPiece..King"
			}
		}
		return -1, ""
	}
	for i := 0; i < revNamed.NumMethods(); i++ {
		m := revNamed.Method(i)
		mn, ok := accessorField[m.Name()]
		if !ok {
			continue
		}
		sig := m.Type().(*types.Signature)
		if sig.Params().Len() != 1 {
			continue
		}
		w, why := need(sig.Params().At(0).Type())
		f := byMask[mn]
		name := "board.(*Reverse)." + m.Name() + "#width"
		if w < 0 {
			c.Undec(rule, name, m.Pos(), "cannot derive the value range of parameter type %s", sig.Params().At(0).Type())
			continue
		}
		c.Check(f.Width >= w, rule, name, m.Pos(), "field %s is %d bits wide; values of %s need %d bits (%s)", mn, f.Width, sig.Params().At(0).Type(), w, why)
	}
}

func (p *Prog) sizeofBasic(b *types.Basic) int64 {
	return types.SizesFor("gc", "amd64").Sizeof(b)
}

// ---- R3: save-before-clobber and getter/setter pairing ----

// accessorMask returns the mask constant name referenced by a Reverse accessor.
func accessorMask(p *Prog, f *types.Func) string {
	fd := p.DeclOf(f)
	pk := p.Pkg("board")
	if fd == nil || pk == nil || fd.Body == nil {
		return ""
	}
	revT := pk.Types.Scope().Lookup("Reverse")
	if revT == nil {
		return ""
	}
	found := ""
	ast.Inspect(fd.Body, func(n ast.Node) bool {
		if id, ok := n.(*ast.Ident); ok {
			if k, ok := pk.TypesInfo.Uses[id].(*types.Const); ok && types.Identical(k.Type(), revT.Type()) {
				found = k.Name()
			}
		}
		return true
	})
	return found
}

type savedField struct {
	Field  string // "Board.FiftyCnt"
	Form   string // old | delta
	Mask   string
	Setter string
	Pos    token.Pos
}

func c03R3(c *Ctx, p *Prog) {
	const rule = "C03.R3"
	pk := p.Pkg("board")
	if pk == nil {
		return
	}
	revNamed, _ := pk.Types.Scope().Lookup("Reverse").Type().(*types.Named)
	if revNamed == nil {
		c.Anchor(rule, "board.Reverse")
		return
	}
	isRevMethod := func(f *types.Func) bool {
		if f == nil {
			return false
		}
		sig, _ := f.Type().(*types.Signature)
		if sig == nil || sig.Recv() == nil {
			return false
		}
		t := sig.Recv().Type()
		if pt, ok := t.(*types.Pointer); ok {
			t = pt.Elem()
		}
		return types.Identical(t, revNamed)
	}
	total := 0
	for _, pr := range [][2]string{{"board.(*Board).MakeMove", "board.(*Board).UndoMove"}, {"board.(*Board).MakeNullMove", "board.(*Board).UndoNullMove"}} {
		mk, un := p.Func(pr[0]), p.Func(pr[1])
		if mk == nil || un == nil {
			c.Anchor(rule, pr[0]+"/"+pr[1])
			continue
		}
		// --- make side: setter calls
		saved := map[string]savedField{} // by mask
		allInstrs(mk, func(in ssa.Instruction) {
			call, ok := in.(*ssa.Call)
			if !ok {
				return
			}
			f := calleeObj(call)
			if !isRevMethod(f) || len(call.Call.Args) != 2 {
				return
			}
			mask := accessorMask(p, f)
			if mask == "" {
				return
			}
			arg := stripConv(call.Call.Args[1])
			key := pr[0] + "#" + f.Name()
			sf := savedField{Mask: mask, Setter: f.Name(), Pos: call.Pos()}
			// what board field does the saved value come from?
			loads := fieldLoadsIn(arg)
			if bo, ok := arg.(*ssa.BinOp); ok && bo.Op == token.XOR {
				// delta form: old ^ new
				sf.Form = "delta"
				for _, side := range []ssa.Value{bo.X, bo.Y} {
					if fl, ok := directFieldLoad(stripConv(side)); ok {
						sf.Field = fl
						loads = []*ssa.UnOp{stripConv(side).(*ssa.UnOp)}
					}
				}
			} else if fl, ok := directFieldLoad(arg); ok {
				sf.Form = "old"
				sf.Field = fl
				loads = []*ssa.UnOp{arg.(*ssa.UnOp)}
			} else if pc := pieceAtCaptureSq(arg); pc != nil {
				sf.Form = "old"
				sf.Field = "Board.SquaresToPiece"
				loads = []*ssa.UnOp{pc}
			}
			if sf.Field == "" {
				c.Undec(rule, key+"#source", call.Pos(), "cannot identify the board field whose old value is saved by %s", f.Name())
				return
			}
			// save-before-clobber: no store to that field (or placement change) can reach the load
			for _, ld := range loads {
				clobbered := ""
				allInstrs(mk, func(w ssa.Instruction) {
					if clobbered != "" {
						return
					}
					writes := false
					if st, ok := w.(*ssa.Store); ok {
						if fr, ok := asFieldAddr(st.Addr); ok && fr.Name() == sf.Field {
							writes = true
						}
					}
					if sf.Field == "Board.SquaresToPiece" && (isCallTo(w, "board.(*Board).addPiece") || isCallTo(w, "board.(*Board).removePiece")) {
						writes = true
					}
					if writes {
						if r, _ := reachAvoiding(w, ld, nil); r {
							clobbered = p.Rel(w.Pos())
						}
					}
				})
				if clobbered != "" {
					c.Fail(rule, key+"#before-clobber", call.Pos(), "%s saves %s after it has already been overwritten (write at %s reaches the read): the undo restores the new value, not the old one", f.Name(), sf.Field, clobbered)
				} else {
					c.Ok(rule, key+"#before-clobber", call.Pos(), "%s saves %s (%s form) read before any overwrite", f.Name(), sf.Field, sf.Form)
				}
			}
			// delta form: the other operand must be what is stored to the field (or NewCastles)
			if sf.Form == "delta" {
				bo := arg.(*ssa.BinOp)
				other := bo.X
				if s, ok := directFieldLoad(stripConv(bo.X)); ok && s == sf.Field {
					other = bo.Y
				}
				okDelta := false
				for _, st := range fieldStores(mk, sf.Field) {
					if sameValue(st.Val, other, 0) {
						okDelta = true
					}
					// Castles ^= delta form: stored = load ^ delta where delta == arg
					if sb, ok := st.Val.(*ssa.BinOp); ok && sb.Op == token.XOR && (sb.X == call.Call.Args[1] || sb.Y == call.Call.Args[1] || stripConv(sb.X) == arg || stripConv(sb.Y) == arg) {
						okDelta = true
					}
				}
				c.Check(okDelta, rule, key+"#delta", call.Pos(), "saved delta of %s is (old value) xor (the value MakeMove stores)", sf.Field)
			}
			saved[mask] = sf
			total++
		})
		// --- undo side: for each saved field a restore from the getter of the same mask in the matching form
		for _, mask := range sortedKeys(saved) {
			sf := saved[mask]
			key := pr[1] + "#" + sf.Field
			var getter *ssa.Call
			allInstrs(un, func(in ssa.Instruction) {
				if call, ok := in.(*ssa.Call); ok {
					if f := calleeObj(call); isRevMethod(f) && len(call.Call.Args) == 1 && accessorMask(p, f) == mask {
						getter = call
					}
				}
			})
			if getter == nil {
				c.Fail(rule, key+"#getter", un.Pos(), "%s saves %s in token field %s but %s never reads that field back", pr[0], sf.Field, mask, pr[1])
				continue
			}
			if sf.Field == "Board.SquaresToPiece" {
				// captured piece: must flow into an addPiece call as the piece argument, colour = STM.Flip()
				okCap, colKnown, sawAdd := false, false, false
				if getter.Referrers() != nil {
					for _, r := range *getter.Referrers() {
						if rc, ok := r.(*ssa.Call); ok && isCallTo(rc, "board.(*Board).addPiece") && len(rc.Call.Args) == 4 && rc.Call.Args[2] == ssa.Value(getter) {
							sawAdd = true
							// the colour: the opponent of the mover = the side to move while the move is still made, or
							// the flipped side to move once it has been flipped back
							if ld, flipped, ok := stmOperand(rc.Call.Args[1], 0); ok {
								ph := fieldPhase(p, un, "Board.STM", ld, true)
								if ph == "orig" || ph == "made" {
									colKnown = true
									if (ph == "orig") == flipped {
										okCap = isCallValueTo(rc.Call.Args[3], "board.(*Board).CaptureSq")
									}
								}
							}
						}
					}
				}
				if sawAdd && !colKnown {
					c.Undec(rule, key+"#restore", getter.Pos(), "the colour with which the captured piece is put back is not a recognised form of the side to move")
					continue
				}
				c.Check(okCap, rule, key+"#restore", getter.Pos(), "captured piece from token field %s is put back with addPiece(opponent, piece, CaptureSq(m))", mask)
				continue
			}
			form := ""
			for _, st := range fieldStores(un, sf.Field) {
				v := stripConv(st.Val)
				if v == ssa.Value(getter) {
					form = "assign"
				} else if bo, ok := v.(*ssa.BinOp); ok && bo.Op == token.XOR {
					for _, prr := range [][2]ssa.Value{{bo.X, bo.Y}, {bo.Y, bo.X}} {
						if s, ok := directFieldLoad(stripConv(prr[0])); ok && s == sf.Field && stripConv(prr[1]) == ssa.Value(getter) {
							form = "xor"
						}
					}
				}
			}
			allZero := true
			for _, st := range fieldStores(mk, sf.Field) {
				if v, ok := constOf(st.Val); !ok || v != 0 {
					allZero = false
				}
			}
			okForm := (sf.Form == "old" && form == "assign") || (sf.Form == "delta" && form == "xor") || (form != "" && allZero)
			if form == "" {
				c.Fail(rule, key+"#restore", getter.Pos(), "%s reads token field %s but does not store it back into %s", pr[1], mask, sf.Field)
			} else {
				c.Check(okForm, rule, key+"#restore", getter.Pos(), "%s restores %s by %s from token field %s; %s saved it in %s form", pr[1], sf.Field, form, mask, pr[0], sf.Form)
			}
		}
	}
	c.Floor(rule, total, 5, "token fields saved by MakeMove+MakeNullMove")
}

func directFieldLoad(v ssa.Value) (string, bool) {
	u, ok := v.(*ssa.UnOp)
	if !ok || u.Op != token.MUL {
		return "", false
	}
	fa, ok := u.X.(*ssa.FieldAddr)
	if !ok {
		return "", false
	}
	fr, ok := asFieldAddr(fa)
	if !ok || fr.Struct == nil || fr.Struct.Obj().Name() != "Board" {
		return "", false
	}
	return fr.Name(), true
}

func fieldLoadsIn(v ssa.Value) []*ssa.UnOp {
	var out []*ssa.UnOp
	for x := range backSlice(v, sliceOpts{}) {
		if u, ok := x.(*ssa.UnOp); ok {
			if _, ok := directFieldLoad(u); ok {
				out = append(out, u)
			}
		}
	}
	return out
}

// pieceAtCaptureSq: v is a load of SquaresToPiece[CaptureSq(m)] — returns the load.
func pieceAtCaptureSq(v ssa.Value) *ssa.UnOp {
	u, ok := v.(*ssa.UnOp)
	if !ok || u.Op != token.MUL {
		return nil
	}
	ia, ok := u.X.(*ssa.IndexAddr)
	if !ok {
		return nil
	}
	fr, ok := asFieldAddr(ia.X)
	if !ok || fr.Name() != "Board.SquaresToPiece" {
		return nil
	}
	if !isCallValueTo(stripConv(ia.Index), "board.(*Board).CaptureSq") {
		return nil
	}
	return u
}

// ---- R4: hash-history stack ----

func c03R4(c *Ctx, p *Prog, rule string) {
	allowed := map[string]string{
		"board.(*Board).MakeMove": "push", "board.(*Board).MakeNullMove": "push",
		"board.(*Board).UndoMove": "pop", "board.(*Board).UndoNullMove": "pop",
		"board.(*Board).ResetHash": "reset", "board.ParseFEN": "whole-struct reset",
	}
	ws := p.writersOf("board.Board.hashes")
	// helpers private to the make (undo) functions that hold the push (pop): analysed like the function they serve
	helperKind := map[*ssa.Function]string{}
	var specs []string
	for _, w := range sortedKeys(ws) {
		if _, ok := allowed[w]; ok {
			continue
		}
		var hf *ssa.Function
		for _, f := range p.OwnFuncs() {
			if fnName(f) == w {
				hf = f
			}
		}
		kind, private := "", hf != nil
		if hf != nil {
			ncall := 0
			for _, caller := range p.OwnFuncs() {
				if len(callsInFn(caller, hf)) == 0 {
					continue
				}
				ncall++
				k := allowed[fnName(caller)]
				if hk, isH := helperKind[caller]; isH {
					k = hk
				}
				if (k != "push" && k != "pop") || (kind != "" && kind != k) {
					private = false
				}
				kind = k
			}
			if ncall == 0 {
				private = false
			}
		}
		if !private {
			c.Fail(rule, "writer:"+w, ws[w][0].Pos, "%s changes the hash history outside make/undo/ResetHash: repetition detection sees a history that is not the game's", w)
			continue
		}
		helperKind[hf] = kind
		allowed[w] = kind
		specs = append(specs, w)
	}
	n := 0
	helperShape := map[*ssa.Function]bool{}
	// helpers first (their verdict feeds the functions that call them)
	order := append(specs, sortedKeys(allowed)...)
	doneSpec := map[string]bool{}
	for _, spec := range order {
		if doneSpec[spec] {
			continue
		}
		doneSpec[spec] = true
		kind := allowed[spec]
		if kind != "push" && kind != "pop" {
			continue
		}
		fn := p.Func(spec)
		if fn == nil {
			for _, f := range p.OwnFuncs() {
				if fnName(f) == spec {
					fn = f
				}
			}
		}
		if fn == nil {
			c.Anchor(rule, spec)
			continue
		}
		_, isHelper := helperKind[fn]
		direct := fieldStores(fn, "Board.hashes")
		var sts []ssa.Instruction
		for _, st := range direct {
			sts = append(sts, st)
		}
		helperCalls, helperOK := 0, true
		allInstrs(fn, func(in ssa.Instruction) {
			if ci, ok := in.(ssa.CallInstruction); ok {
				if h := ci.Common().StaticCallee(); h != nil && helperKind[h] == kind && h != fn {
					sts = append(sts, in)
					helperCalls++
					if !helperShape[h] {
						helperOK = false
					}
				}
			}
		})
		if len(sts) == 0 {
			c.Fail(rule, spec+"#once", fn.Pos(), "no store to the hash history; exactly one %s per call is required", kind)
			continue
		}
		shapeOf := func(st *ssa.Store) bool {
			switch kind {
			case "push":
				if call, ok := st.Val.(*ssa.Call); ok {
					if bi, ok := call.Call.Value.(*ssa.Builtin); ok && bi.Name() == "append" && len(call.Call.Args) == 2 && isFieldLoad(call.Call.Args[0], "Board.hashes") {
						// exactly one element appended
						if sl, ok := call.Call.Args[1].(*ssa.Slice); ok {
							if al, ok := sl.X.(*ssa.Alloc); ok {
								if at, ok := al.Type().(*types.Pointer).Elem().Underlying().(*types.Array); ok && at.Len() == 1 {
									return true
								}
							}
						}
					}
				}
			case "pop":
				if sl, ok := st.Val.(*ssa.Slice); ok && sl.Low == nil && sl.High != nil && isFieldLoad(sl.X, "Board.hashes") {
					if bo, ok := sl.High.(*ssa.BinOp); ok && bo.Op == token.SUB {
						if one, ok := constOf(bo.Y); ok && one == 1 {
							if lc, ok := bo.X.(*ssa.Call); ok {
								if bi, ok := lc.Call.Value.(*ssa.Builtin); ok && bi.Name() == "len" && isFieldLoad(lc.Call.Args[0], "Board.hashes") {
									return true
								}
							}
						}
					}
				}
			}
			return false
		}
		shape := helperOK
		for _, st := range direct {
			if !shapeOf(st) {
				shape = false
			}
		}
		isStore := func(x ssa.Instruction) bool {
			for _, st := range sts {
				if x == st {
					return true
				}
			}
			return false
		}
		// exactly one on every path: no return reachable from the entry without a store, no store reachable from a store
		every, twice := true, false
		allInstrs(fn, func(in ssa.Instruction) {
			if ret, ok := in.(*ssa.Return); ok && ret.Block() != fn.Recover {
				if r, _ := reachAvoidingTo(fn.Blocks[0].Instrs[0], ret, isStore); r {
					every = false
				}
			}
		})
		for _, a := range sts {
			for _, b2 := range sts {
				if r, _ := reachAvoiding(a, b2, nil); r {
					twice = true
				}
			}
		}
		if twice {
			c.Fail(rule, spec+"#once", sts[0].Pos(), "a path through %s stores to the hash history twice; exactly one %s per call is required", spec, kind)
			continue
		}
		okOnce := c.Check(every && shape, rule, spec+"#"+kind, sts[0].Pos(), "hash history %s by exactly one element on every path (on every path: %v, shape recognised: %v)", kind, every, shape)
		if isHelper {
			helperShape[fn] = okOnce
		} else {
			n++
		}
	}
	c.Floor(rule, n, 4, "push/pop functions")
}

// ---- R5: piece restoration mirror ----

type rookOp struct {
	From, To int64 // king move
	Op       string
	Sq       int64
	Pos      token.Pos
}

// arrayLitElems: v is a load of a local array whose elements were stored once each at constant indices.
func arrayLitElems(v ssa.Value) []ssa.Value {
	l, ok := stripConv(v).(*ssa.UnOp)
	if !ok || l.Op != token.MUL {
		return nil
	}
	al, ok := l.X.(*ssa.Alloc)
	if !ok || al.Referrers() == nil {
		return nil
	}
	at, ok := al.Type().Underlying().(*types.Pointer).Elem().Underlying().(*types.Array)
	if !ok || at.Len() > 8 {
		return nil
	}
	out := make([]ssa.Value, at.Len())
	for _, r := range *al.Referrers() {
		ia, ok := r.(*ssa.IndexAddr)
		if !ok || ia.Referrers() == nil {
			continue
		}
		k, isc := constOf(ia.Index)
		if !isc || k < 0 || k >= at.Len() {
			return nil
		}
		for _, rr := range *ia.Referrers() {
			if st, ok := rr.(*ssa.Store); ok && st.Addr == ssa.Value(ia) {
				if out[k] != nil {
					return nil
				}
				out[k] = st.Val
			}
		}
	}
	for _, e := range out {
		if e == nil {
			return nil
		}
	}
	return out
}

// fromToOfConds reads (from, to) constants out of the conditions that govern a block:
// `m.From() == c1`, `m.To() == c2`, or the array form `[2]Square{from, to} == [2]Square{c1, c2}`.
func fromToOfConds(b *ssa.BasicBlock) (from, to int64) {
	from, to = -1, -1
	isFrom := func(v ssa.Value) bool { return isCallValueTo(stripConv(v), "move.(Move).From") }
	isTo := func(v ssa.Value) bool { return isCallValueTo(stripConv(v), "move.(Move).To") }
	for _, ce := range controllingConds(b) {
		bo, ok := ce.Cond.(*ssa.BinOp)
		if !ok || !ce.True || bo.Op != token.EQL {
			continue
		}
		if v, isc := constOf(bo.Y); isc {
			if isFrom(bo.X) {
				from = v
			}
			if isTo(bo.X) {
				to = v
			}
			continue
		}
		for _, pr := range [][2]ssa.Value{{bo.X, bo.Y}, {bo.Y, bo.X}} {
			vars, consts := arrayLitElems(pr[0]), arrayLitElems(pr[1])
			if len(vars) != 2 || len(consts) != 2 {
				continue
			}
			for i := range vars {
				k, isc := constOf(consts[i])
				if !isc {
					continue
				}
				if isFrom(vars[i]) {
					from = k
				}
				if isTo(vars[i]) {
					to = k
				}
			}
		}
	}
	return
}

// helperRows: for a helper H(m) returning constant squares under (from,to) conditions,
// the table of its returns: row = (from, to, constant results by index; -1 where not constant).
type helperRow struct {
	From, To int64
	Vals     []int64
}

func helperRows(h *ssa.Function) []helperRow {
	var rows []helperRow
	allInstrs(h, func(in ssa.Instruction) {
		ret, ok := in.(*ssa.Return)
		if !ok {
			return
		}
		f, t := fromToOfConds(ret.Block())
		if f < 0 || t < 0 {
			return
		}
		row := helperRow{From: f, To: t}
		for i := range ret.Results {
			k, isc := constOf(returnedValue(ret, i))
			if !isc {
				k = -1
			}
			row.Vals = append(row.Vals, k)
		}
		rows = append(rows, row)
	})
	return rows
}

// rookOps extracts the rook relocations of a make/undo function: add/removePiece(.., Rook, sq)
// where sq is a constant under (from,to) conditions, or a result of a helper whose returns are
// constant under (from,to) conditions (the helper's table is expanded).
func rookOps(p *Prog, fn *ssa.Function, rookConst int64) []rookOp {
	var out []rookOp
	for _, spec := range []string{"board.(*Board).addPiece", "board.(*Board).removePiece"} {
		for _, ci := range callsIn(fn, spec) {
			args := ci.Common().Args
			if len(args) != 4 {
				continue
			}
			pc, ok1 := constOf(args[2])
			if !ok1 || pc != rookConst {
				continue
			}
			opName := "add"
			if strings.HasSuffix(spec, "removePiece") {
				opName = "remove"
			}
			if sq, ok2 := constOf(args[3]); ok2 {
				f, t := fromToOfConds(ci.Block())
				out = append(out, rookOp{From: f, To: t, Op: opName, Sq: sq, Pos: ci.Pos()})
				continue
			}
			// result of a helper
			if ex, ok := stripConv(args[3]).(*ssa.Extract); ok {
				if call, ok := ex.Tuple.(*ssa.Call); ok {
					if h := call.Call.StaticCallee(); h != nil && isOwn(h) && h.Blocks != nil {
						rows := helperRows(h)
						for _, r := range rows {
							if ex.Index < len(r.Vals) && r.Vals[ex.Index] >= 0 {
								out = append(out, rookOp{From: r.From, To: r.To, Op: opName, Sq: r.Vals[ex.Index], Pos: ci.Pos()})
							}
						}
						if len(rows) > 0 {
							continue
						}
						// the helper returns fields of the matching row of a table of castling cases
						if trows, fa, fb, ok := structTableRows(p, h, -1); ok {
							fidx := -1
							allInstrs(h, func(in ssa.Instruction) {
								if ret, isRet := in.(*ssa.Return); isRet && ex.Index < len(ret.Results) {
									if fi, base := structFieldOf(returnedValue(ret, ex.Index)); fi >= 0 && traceToGlobal(base, 0) != nil {
										fidx = fi
									}
								}
							})
							if fidx >= 0 {
								for _, r := range trows {
									out = append(out, rookOp{From: r[fa], To: r[fb], Op: opName, Sq: r[fidx], Pos: ci.Pos()})
								}
								continue
							}
						}
					}
				}
			}
			// field of a struct found by a lookup helper in a package-level table of castling cases
			if fidx, base := structFieldOf(args[3]); fidx >= 0 {
				if ex, ok := base.(*ssa.Extract); ok {
					if call, ok := ex.Tuple.(*ssa.Call); ok {
						if h := call.Call.StaticCallee(); h != nil && isOwn(h) && h.Blocks != nil {
							if rows, fa, fb, ok := structTableRows(p, h, ex.Index); ok {
								for _, r := range rows {
									out = append(out, rookOp{From: r[fa], To: r[fb], Op: opName, Sq: r[fidx], Pos: ci.Pos()})
								}
								continue
							}
						}
					}
				}
			}
			out = append(out, rookOp{From: -1, To: -1, Op: opName, Sq: -1, Pos: ci.Pos()})
		}
	}
	return out
}

// structFieldOf: v selects field f of a struct value — directly, or through the local the struct was spilled into.
func structFieldOf(v ssa.Value) (int, ssa.Value) {
	v = stripConv(v)
	switch x := v.(type) {
	case *ssa.Field:
		return x.Field, x.X
	case *ssa.UnOp:
		if fa, ok := x.X.(*ssa.FieldAddr); ok && x.Op == token.MUL {
			if al, ok := fa.X.(*ssa.Alloc); ok && al.Referrers() != nil {
				var val ssa.Value
				n := 0
				for _, r := range *al.Referrers() {
					if st, ok := r.(*ssa.Store); ok && st.Addr == ssa.Value(al) {
						n++
						val = st.Val
					}
				}
				if n == 1 {
					return fa.Field, val
				}
			}
		}
	}
	return -1, nil
}

// traceToGlobal follows loads, range-variable copies and element addressing back to a package-level array.
func traceToGlobal(v ssa.Value, depth int) *ssa.Global {
	if depth > 8 || v == nil {
		return nil
	}
	switch x := v.(type) {
	case *ssa.Global:
		return x
	case *ssa.UnOp:
		if x.Op == token.MUL {
			return traceToGlobal(x.X, depth+1)
		}
	case *ssa.IndexAddr:
		return traceToGlobal(x.X, depth+1)
	case *ssa.Index:
		return traceToGlobal(x.X, depth+1)
	case *ssa.FieldAddr:
		return traceToGlobal(x.X, depth+1)
	case *ssa.Field:
		return traceToGlobal(x.X, depth+1)
	case *ssa.Alloc:
		var g *ssa.Global
		n := 0
		if x.Referrers() != nil {
			for _, r := range *x.Referrers() {
				if st, ok := r.(*ssa.Store); ok && st.Addr == ssa.Value(x) {
					n++
					g = traceToGlobal(st.Val, depth+1)
				}
			}
		}
		if n == 1 {
			return g
		}
	case *ssa.Phi:
		var g *ssa.Global
		for _, e := range x.Edges {
			if k, isc := e.(*ssa.Const); isc && k.Value == nil {
				continue
			}
			if gg := traceToGlobal(e, depth+1); gg != nil {
				g = gg
			}
		}
		return g
	}
	return nil
}

// structTableRows: h looks a move up in a package-level array of structs by comparing two fields
// with m.From() and m.To() and returns the matching element as result resIdx. Returns the table's
// rows (field index -> constant) and the indexes of the two key fields.
func structTableRows(p *Prog, h *ssa.Function, resIdx int) (rows []map[int]int64, fFrom, fTo int, ok bool) {
	fFrom, fTo = -1, -1
	var g *ssa.Global
	isFrom := func(v ssa.Value) bool { return isCallValueTo(stripConv(v), "move.(Move).From") }
	isTo := func(v ssa.Value) bool { return isCallValueTo(stripConv(v), "move.(Move).To") }
	fieldIdx := func(v ssa.Value) (int, *ssa.Global) {
		v = stripConv(v)
		switch x := v.(type) {
		case *ssa.Field:
			return x.Field, traceToGlobal(x.X, 0)
		case *ssa.UnOp:
			if fa, ok := x.X.(*ssa.FieldAddr); ok && x.Op == token.MUL {
				return fa.Field, traceToGlobal(fa.X, 0)
			}
		}
		return -1, nil
	}
	allInstrs(h, func(in ssa.Instruction) {
		bo, isb := in.(*ssa.BinOp)
		if !isb || bo.Op != token.EQL {
			return
		}
		for _, pr := range [][2]ssa.Value{{bo.X, bo.Y}, {bo.Y, bo.X}} {
			fi, gg := fieldIdx(pr[0])
			if fi < 0 || gg == nil {
				continue
			}
			if isFrom(pr[1]) {
				fFrom, g = fi, gg
			}
			if isTo(pr[1]) {
				fTo, g = fi, gg
			}
		}
	})
	if g == nil || fFrom < 0 || fTo < 0 {
		return nil, -1, -1, false
	}
	// some return hands out an element of that table as result resIdx (resIdx < 0: not required)
	hands := resIdx < 0
	allInstrs(h, func(in ssa.Instruction) {
		if ret, isRet := in.(*ssa.Return); isRet && resIdx >= 0 && resIdx < len(ret.Results) {
			if traceToGlobal(returnedValue(ret, resIdx), 0) == g {
				hands = true
			}
		}
	})
	if !hands {
		return nil, -1, -1, false
	}
	init, pk := p.pkgVarInit(relPkg(g.Pkg.Pkg.Path()) + "." + g.Name())
	if init == nil || pk == nil {
		return nil, -1, -1, false
	}
	cl, isCl := ast.Unparen(init).(*ast.CompositeLit)
	if !isCl {
		return nil, -1, -1, false
	}
	// element struct type
	var st *types.Struct
	if t := pk.TypesInfo.TypeOf(init); t != nil {
		switch u := t.Underlying().(type) {
		case *types.Array:
			st, _ = u.Elem().Underlying().(*types.Struct)
		case *types.Slice:
			st, _ = u.Elem().Underlying().(*types.Struct)
		}
	}
	if st == nil {
		return nil, -1, -1, false
	}
	for _, el := range cl.Elts {
		if kv, isKV := el.(*ast.KeyValueExpr); isKV {
			el = kv.Value
		}
		ecl, isE := ast.Unparen(el).(*ast.CompositeLit)
		if !isE {
			return nil, -1, -1, false
		}
		row := map[int]int64{}
		for i := 0; i < st.NumFields(); i++ {
			row[i] = 0
		}
		for i, fe := range ecl.Elts {
			idx, val := i, fe
			if kv, isKV := fe.(*ast.KeyValueExpr); isKV {
				id, isId := kv.Key.(*ast.Ident)
				if !isId {
					return nil, -1, -1, false
				}
				idx = -1
				for j := 0; j < st.NumFields(); j++ {
					if st.Field(j).Name() == id.Name {
						idx = j
					}
				}
				val = kv.Value
			}
			k, isc := constInt(pk.TypesInfo, val)
			if idx < 0 || !isc {
				return nil, -1, -1, false
			}
			row[idx] = k
		}
		rows = append(rows, row)
	}
	return rows, fFrom, fTo, len(rows) > 0
}

func c03R5(c *Ctx, p *Prog) {
	const rule = "C03.R5"
	mk, un := p.Func("board.(*Board).MakeMove"), p.Func("board.(*Board).UndoMove")
	if mk == nil || un == nil {
		c.Anchor(rule, "MakeMove/UndoMove")
		return
	}
	rook, ok := p.pkgConstInt("chess.Rook")
	if !ok {
		c.Anchor(rule, "chess.Rook")
		return
	}
	mops, uops := rookOps(p, mk, rook), rookOps(p, un, rook)
	sqName := func(s int64) string {
		if s < 0 || s > 63 {
			return fmt.Sprint(s)
		}
		return fmt.Sprintf("%c%c", 'a'+byte(s%8), '1'+byte(s/8))
	}
	uset := map[string]rookOp{}
	for _, u := range uops {
		uset[fmt.Sprintf("%d-%d-%s-%d", u.From, u.To, u.Op, u.Sq)] = u
	}
	for _, m := range mops {
		swap := map[string]string{"add": "remove", "remove": "add"}[m.Op]
		key := fmt.Sprintf("%d-%d-%s-%d", m.From, m.To, swap, m.Sq)
		name := fmt.Sprintf("castle:%s%s#%s-rook-%s", sqName(m.From), sqName(m.To), m.Op, sqName(m.Sq))
		if m.From < 0 || m.To < 0 {
			c.Undec(rule, name, m.Pos, "rook relocation in MakeMove is not guarded by constant From()/To() tests")
			continue
		}
		if u, ok := uset[key]; ok {
			c.Ok(rule, name, u.Pos, "MakeMove %ss a rook on %s for king move %s%s; UndoMove %ss it there for the same king move", m.Op, sqName(m.Sq), sqName(m.From), sqName(m.To), swap)
			delete(uset, key)
		} else {
			c.Fail(rule, name, m.Pos, "MakeMove %ss a rook on %s for king move %s%s but UndoMove has no matching %s on that square under the same (from,to) case: castling is not undone exactly", m.Op, sqName(m.Sq), sqName(m.From), sqName(m.To), swap)
		}
	}
	for k, u := range uset {
		if u.From < 0 || u.To < 0 {
			c.Undec(rule, "castle-undo#unrecognised", u.Pos, "a rook relocation in UndoMove is not guarded by constant From()/To() tests nor taken from a recognised table of castling cases")
			continue
		}
		c.Fail(rule, "castle-undo-extra:"+k, u.Pos, "UndoMove %ss a rook on %s (king move %s%s) that MakeMove never moved", u.Op, sqName(u.Sq), sqName(u.From), sqName(u.To))
	}
	c.Floor(rule+".castle", len(mops), 8, "rook relocations in MakeMove")

	// capture square evaluated after EnPassant restored and mover back on From
	caps := callsIn(un, "board.(*Board).CaptureSq")
	if len(caps) == 0 {
		c.Undec(rule, "UndoMove#capture-square", un.Pos(), "UndoMove does not call CaptureSq")
	}
	for _, cs := range caps {
		csI := cs.(ssa.Instruction)
		epOK := false
		for _, st := range fieldStores(un, "Board.EnPassant") {
			if instrDominates(st, csI) {
				epOK = true
			}
		}
		moverOK := false
		for _, ci := range callsIn(un, "board.(*Board).addPiece") {
			a := ci.Common().Args
			if len(a) == 4 && isCallValueTo(stripConv(a[3]), "move.(Move).From") && instrDominates(ci.(ssa.Instruction), csI) {
				moverOK = true
			}
		}
		c.Check(epOK, rule, "UndoMove#capture-square-after-ep", cs.Pos(), "CaptureSq(m) is evaluated after EnPassant has been restored (IsEnPassant reads it)")
		c.Check(moverOK, rule, "UndoMove#capture-square-after-mover", cs.Pos(), "CaptureSq(m) is evaluated after the mover is back on From() (IsEnPassant reads SquaresToPiece[From])")
	}
	// promotion undone to a pawn
	pawn, _ := p.pkgConstInt("chess.Pawn")
	okPromo := false
	var ppos token.Pos = un.Pos()
	for _, ci := range callsIn(un, "board.(*Board).addPiece") {
		a := ci.Common().Args
		if len(a) != 4 || !isCallValueTo(stripConv(a[3]), "move.(Move).From") {
			continue
		}
		ppos = ci.Pos()
		if ph, ok := a[2].(*ssa.Phi); ok {
			for i, e := range ph.Edges {
				if v, isc := constOf(e); isc && v == pawn {
					pred := ph.Block().Preds[i]
					for _, ce := range append(controllingConds(pred), edgeCond(pred, ph.Block())...) {
						if bo, ok := ce.Cond.(*ssa.BinOp); ok && isCallValueTo(stripConv(bo.X), "move.(Move).Promo") {
							if z, isc := constOf(bo.Y); isc && z == 0 && ((bo.Op == token.NEQ && ce.True) || (bo.Op == token.EQL && !ce.True)) {
								okPromo = true
							}
						}
					}
				}
			}
		}
	}
	c.Check(okPromo, rule, "UndoMove#unpromote", ppos, "the piece put back on From() is a Pawn exactly when the move carries a promotion")
}

// edgeCond: if pred ends in an If, the condition edge taken towards succ.
func edgeCond(pred, succ *ssa.BasicBlock) []condEdge {
	if len(pred.Instrs) == 0 {
		return nil
	}
	iff, ok := pred.Instrs[len(pred.Instrs)-1].(*ssa.If)
	if !ok {
		return nil
	}
	if pred.Succs[0] == succ && pred.Succs[1] != succ {
		return []condEdge{{iff.Cond, true, iff}}
	}
	if pred.Succs[1] == succ && pred.Succs[0] != succ {
		return []condEdge{{iff.Cond, false, iff}}
	}
	return nil
}

func init() {
	addMutants(
		Mutant{Name: "C03.R1-fifty-not-restored", Prop: "C03", File: "board/board.go", Quick: true,
			Old: "\tb.FiftyCnt = r.fiftyCnt()\n", New: "\t_ = r.fiftyCnt()\n",
			Expect: "C03.R1/board.(*Board).MakeMove#board.Board.FiftyCnt"},
		Mutant{Name: "C03.R1-fullmoves-not-restored", Prop: "C03", File: "board/board.go", Quick: true,
			Old: "\tb.fullMoves -= int(b.STM)\n", New: "",
			Expect: "C03.R1/board.(*Board).MakeMove#board.Board.fullMoves"},
		Mutant{Name: "C03.R1-nullmove-ep-not-restored", Prop: "C03", File: "board/board.go",
			Old: "\tb.EnPassant = r.enPassantChange()\n", New: "\t_ = r\n",
			Expect: "C03.R1/board.(*Board).MakeNullMove#board.Board.EnPassant"},
		Mutant{Name: "C03.R8-castling-field-written-before-the-clock", Prop: "C03", File: "board/board.go", Quick: true,
			Old: "\tr.setFiftyCnt(b.FiftyCnt)\n", New: "\tr.setCastlingChange(castlingChange)\n\tr.setFiftyCnt(b.FiftyCnt)\n",
			Old2: "\tb.Castles ^= castlingChange\n\tr.setCastlingChange(castlingChange)\n", New2: "\tb.Castles ^= castlingChange\n", File2: "board/board.go",
			Expect: "C03.R8/board.(*Board).MakeMove#setFiftyCnt-before-setCastlingChange"},
		Mutant{Name: "C03.R2-capture-field-too-narrow", Prop: "C03", File: "board/board.go", Quick: true,
			Old: "captureMask         = Reverse(0x00000000001c0000)", New: "captureMask         = Reverse(0x00000000000c0000)",
			Expect: "C03.R2/board.(*Reverse).setCapture#width"},
		Mutant{Name: "C03.R2-ep-shift-off-by-one", Prop: "C03", File: "board/board.go",
			Old: "epChangeShift       = 12", New: "epChangeShift       = 11",
			Expect: "C03.R2/board.(Reverse)."},
		Mutant{Name: "C03.R2-overlapping-masks", Prop: "C03", File: "board/board.go",
			Old: "castlingChangeMask  = Reverse(0x0000000000000f00)", New: "castlingChangeMask  = Reverse(0x0000000000001f00)",
			Expect: "C03.R2/mask:castlingChangeMask&epChangeMask#disjoint"},
		Mutant{Name: "C03.R2-getter-uses-sibling-mask", Prop: "C03", File: "board/board.go",
			Old: "func (r Reverse) capture() Piece { return Piece((r & captureMask) >> captureShift) }", New: "func (r Reverse) capture() Piece { return Piece((r & epChangeMask) >> captureShift) }",
			Expect: "C03.R2/board.(Reverse).capture#shift"},
		Mutant{Name: "C03.R3-fifty-saved-after-update", Prop: "C03", File: "board/board.go", Quick: true,
			Old: "\tr.setFiftyCnt(b.FiftyCnt)\n\tif piece == Pawn || capture != NoPiece {\n\t\tb.FiftyCnt = 0\n\t} else {\n\t\tb.FiftyCnt++\n\t}\n", New: "\tif piece == Pawn || capture != NoPiece {\n\t\tb.FiftyCnt = 0\n\t} else {\n\t\tb.FiftyCnt++\n\t}\n\tr.setFiftyCnt(b.FiftyCnt)\n",
			Expect: "C03.R3/board.(*Board).MakeMove#setFiftyCnt#before-clobber"},
		Mutant{Name: "C03.R3-ep-delta-restored-by-assign", Prop: "C03", File: "board/board.go",
			Old: "\tb.EnPassant ^= r.enPassantChange()\n", New: "\tb.EnPassant = r.enPassantChange()\n",
			Expect: "C03.R3/board.(*Board).UndoMove#Board.EnPassant#restore"},
		Mutant{Name: "C03.R3-castles-restored-from-wrong-field", Prop: "C03", File: "board/board.go",
			Old: "\tb.Castles ^= r.castlingChange()\n", New: "\tb.Castles ^= Castles(r.capture())\n",
			Expect: "C03.R3/board.(*Board).UndoMove#Board.Castles"},
		Mutant{Name: "C03.R4-nullmove-conditional-push", Prop: "C03", File: "board/board.go",
			Old: "\tb.hashes = append(b.hashes, hash)\n\t// b.consistencyCheck()\n\treturn r\n", New: "\tif r != 0 {\n\t\tb.hashes = append(b.hashes, hash)\n\t}\n\t// b.consistencyCheck()\n\treturn r\n",
			Expect: "C03.R4/board.(*Board).MakeNullMove#push"},
		Mutant{Name: "C03.R4-undo-pops-two", Prop: "C03", File: "board/board.go",
			Old: "func (b *Board) UndoNullMove(r Reverse) {\n\tb.STM = b.STM.Flip()\n\tb.EnPassant = r.enPassantChange()\n\tb.hashes = b.hashes[:len(b.hashes)-1]", New: "func (b *Board) UndoNullMove(r Reverse) {\n\tb.STM = b.STM.Flip()\n\tb.EnPassant = r.enPassantChange()\n\tb.hashes = b.hashes[:len(b.hashes)-2]",
			Expect: "C03.R4/board.(*Board).UndoNullMove#pop"},
		Mutant{Name: "C03.R4-foreign-history-writer", Prop: "C03", File: "board/board.go",
			Old: "// ResetFifty resets the fifty move counter.", New: "func (b *Board) ForgetHistory() { b.hashes = b.hashes[len(b.hashes)-1:] }\n\n// ResetFifty resets the fifty move counter.",
			Expect: "C03.R4/writer:board.(*Board).ForgetHistory"},
		Mutant{Name: "C03.R5-uncastle-wrong-corner", Prop: "C03", File: "board/board.go", Quick: true,
			Old: "\t\t\tb.removePiece(b.STM, Rook, F8)\n\t\t\tb.addPiece(b.STM, Rook, H8)\n", New: "\t\t\tb.removePiece(b.STM, Rook, F8)\n\t\t\tb.addPiece(b.STM, Rook, A8)\n",
			Expect: "C03.R5/castle:e8g8#remove-rook-h8"},
		Mutant{Name: "C03.R5-capture-square-before-ep-restore", Prop: "C03", File: "board/board.go",
			Old: "\tb.EnPassant ^= r.enPassantChange()\n\n\tb.removePiece(b.STM, rmPiece, m.To())\n\tb.addPiece(b.STM, piece, m.From())\n\tb.addPiece(b.STM.Flip(), r.capture(), b.CaptureSq(m))\n", New: "\tb.removePiece(b.STM, rmPiece, m.To())\n\tb.addPiece(b.STM, piece, m.From())\n\tb.addPiece(b.STM.Flip(), r.capture(), b.CaptureSq(m))\n\n\tb.EnPassant ^= r.enPassantChange()\n",
			Expect: "C03.R5/UndoMove#capture-square-after-ep"},
		Mutant{Name: "C03.R5-promotion-not-undone", Prop: "C03", File: "board/board.go",
			Old: "\tpiece := rmPiece\n\tif m.Promo() != NoPiece {\n\t\tpiece = Pawn\n\t}\n", New: "\tpiece := rmPiece\n",
			Expect: "C03.R5/UndoMove#unpromote"},
	)
}

// c03R8: a token setter that stores a value of a SIGNED type writes `Reverse(v) << shift` without
// masking: for a negative v the conversion sign-extends and sets every bit above its field. The
// halfmove clock is such a value (int8, and it does go negative: known finding F-2). That is harmless
// only while the fields above are written afterwards (each setter clears its own field first). So in
// every function that fills a token, no setter of a higher field may be followed by a spilling setter
// of a lower one.
func c03R8(c *Ctx, p *Prog) {
	const rule = "C03.R8"
	type setter struct {
		fn     *ssa.Function
		shift  int64
		signed bool
		masked bool
	}
	var setters []setter
	for _, fn := range p.OwnFuncs() {
		if relPkg(fnPkgPath(fn)) != "board" || fn.Signature.Recv() == nil || len(fn.Params) != 2 {
			continue
		}
		pt, ok := fn.Params[0].Type().Underlying().(*types.Pointer)
		if !ok {
			continue
		}
		if n, ok := types.Unalias(pt.Elem()).(*types.Named); !ok || n.Obj().Name() != "Reverse" {
			continue
		}
		val := fn.Params[1]
		bt, ok := val.Type().Underlying().(*types.Basic)
		if !ok || bt.Info()&types.IsInteger == 0 {
			continue
		}
		s := setter{fn: fn, signed: bt.Info()&types.IsUnsigned == 0}
		found := false
		allInstrs(fn, func(in ssa.Instruction) {
			sh, ok := in.(*ssa.BinOp)
			if !ok || sh.Op != token.SHL {
				return
			}
			k, isc := constOf(sh.Y)
			if !isc {
				return
			}
			// the shifted operand: conversion of the parameter, possibly masked
			x := sh.X
			if cv, ok := x.(*ssa.Convert); ok && cv.X == ssa.Value(val) {
				s.shift, found = k, true
				return
			}
			if and, ok := x.(*ssa.BinOp); ok && and.Op == token.AND {
				for _, o := range []ssa.Value{and.X, and.Y} {
					if cv, ok := o.(*ssa.Convert); ok && cv.X == ssa.Value(val) {
						s.shift, s.masked, found = k, true, true
					}
				}
			}
		})
		// also: mask applied after the shift
		if found && !s.masked {
			allInstrs(fn, func(in ssa.Instruction) {
				if and, ok := in.(*ssa.BinOp); ok && and.Op == token.AND {
					for _, o := range []ssa.Value{and.X, and.Y} {
						if sh, ok := o.(*ssa.BinOp); ok && sh.Op == token.SHL {
							if _, isc := constOf(sh.Y); isc {
								if cv, ok := sh.X.(*ssa.Convert); ok && cv.X == ssa.Value(val) {
									// `(Reverse(v) << shift) & fieldMask`
									if _, isK := stripConv(and.X).(*ssa.Const); isK {
										s.masked = true
									}
									if _, isK := stripConv(and.Y).(*ssa.Const); isK {
										s.masked = true
									}
								}
							}
						}
					}
				}
			})
		}
		if found {
			setters = append(setters, s)
		}
	}
	if len(setters) == 0 {
		// setters written through a generic helper: the spill analysis does not follow them (no claim made)
		c.OkTrivial(rule, "no-spilling-setter", 0, "no token setter of the recognised direct form `*r = (*r &^ mask) | Reverse(v)<<shift`")
		return
	}
	n := 0
	for _, sp := range setters {
		if !sp.signed || sp.masked {
			continue
		}
		// sp spills into every field above its shift when its value is negative
		for _, caller := range p.OwnFuncs() {
			var spCalls []ssa.CallInstruction
			for _, sc := range callsIn(caller, fnName(sp.fn)) {
				// only values that can actually be negative: the halfmove clock, an int8 incremented without bound (F-2)
				args := sc.Common().Args
				if len(args) == 2 && isFieldLoad(stripConv(args[1]), "Board.FiftyCnt") {
					spCalls = append(spCalls, sc)
				}
			}
			if len(spCalls) == 0 {
				continue
			}
			for _, hi := range setters {
				if hi.fn == sp.fn || hi.shift <= sp.shift {
					continue
				}
				for _, hc := range callsIn(caller, fnName(hi.fn)) {
					for _, sc := range spCalls {
						n++
						key := fmt.Sprintf("%s#%s-before-%s", fnName(caller), sp.fn.Name(), hi.fn.Name())
						if r, _ := reachAvoiding(hc.(ssa.Instruction), sc.(ssa.Instruction), nil); r {
							c.Fail(rule, key, sc.Pos(), "%s stores a signed value without masking (a negative value sign-extends over the higher token fields) and can run AFTER %s has filled its field: the field is overwritten with ones and the undo restores garbage (castling rights, en-passant square or captured piece)", sp.fn.Name(), hi.fn.Name())
						} else {
							c.Ok(rule, key, sc.Pos(), "the unmasked signed store of %s runs before %s fills its (higher) field", sp.fn.Name(), hi.fn.Name())
						}
					}
				}
			}
		}
	}
	if n == 0 {
		c.OkTrivial(rule, "no-spilling-setter", 0, "no token setter stores an unmasked signed value next to higher fields")
	}
}
