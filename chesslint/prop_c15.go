package main

// C15 — transposition table returns only what was stored for that key.
// Structural necessary conditions over transp/transp.go (constants, types.Sizes
// for amd64, SSA shape of LookUp/Insert/Value/bucketIx/match64/Resize) and the
// consumers of LookUp's pointer in every loaded package.

import (
	"fmt"
	"go/token"
	"go/types"
	"math"
	"sort"
	"strings"

	"golang.org/x/tools/go/ssa"
)

func init() {
	register(&Property{
		ID: "C15",
		Explain: "Static necessary conditions for 'the transposition table returns only what was stored for that key'. " +
			"R1: layout arithmetic from the constants and types.Sizes(gc/amd64): signature lanes fit the key word, match64's three constants are the lane-replicated 1 / lane sign bits for partialKeyBits and its lane index divides by the lane width, bound types fit the bits left of the packed depth and Insert packs with the shift packed.Depth unpacks, Sizeof(bucket)=bucketSize, bucket is pointer-free, re-based mate scores fit Score. " +
			"R2: LookUp and Insert compute bucket and signature by the same expressions of their hash argument; LookUp returns the entry of the lane match64 reported, of the bucket whose keys it matched; bucketIx is a multiply-high whose result is < len(data). " +
			"R3: as piecewise functions of (score, ply) — derived from the SSA, thresholds and strictness compared with each other, not with fixed numbers — Insert moves scores beyond two thresholds away from zero by ply and entry.Value moves scores beyond the same thresholds back by ply; all other scores unchanged. " +
			"R4: in Insert the lane compared, the entry overwritten, the lane cleared and the lane set are the same lane; a signature match replaces that lane; the early return is reachable only under signature match, non-exact bound, stored depth > d+2 and same generation; a kept move comes only from the signature-matching entry and only when the new move is null; Clear zeroes the signature word of every bucket. " +
			"R5: bucket/entry/Table fields have no writer besides Insert, Clear, Resize (in any loaded package) and the pointer returned by LookUp is only read. R6: Resize's allocation, alignment mask and slice length keep the bucket slice inside the raw allocation and non-empty. " +
			"Not decided: the replacement policy (quality), HashFull, behaviour over operation sequences, values for concrete keys.",
		Assume: []string{"types.SizesFor(gc, amd64) is the layout of the shipped binary", "go/ssa models the program faithfully", "plies and depths are 0..MaxPlies-1 as the property states"},
		Run:    runC15,
	})
}

type c15Env struct {
	c     *Ctx
	p     *Prog
	sizes types.Sizes
	k     map[string]int64 // constants
	named map[string]*types.Named
	fn    map[string]*ssa.Function
	ins   *c15Ins
}

func runC15(c *Ctx) {
	p := c.need("default")
	if p == nil {
		return
	}
	e := &c15Env{c: c, p: p, sizes: types.SizesFor("gc", "amd64"), k: map[string]int64{}, named: map[string]*types.Named{}, fn: map[string]*ssa.Function{}}
	ok := true
	for _, n := range []string{"transp.bucketEntryCnt", "transp.partialKeyBits", "transp.bucketSize", "transp.Exact", "chess.MaxPlies", "chess.Inf", "chess.Inv"} {
		v, found := p.pkgConstInt(n)
		if !found {
			c.Anchor("C15", n)
			ok = false
		}
		e.k[n[strings.Index(n, ".")+1:]] = v
	}
	for _, n := range []string{"transp.bucket", "transp.entry", "transp.Table", "transp.partialKey", "transp.packed", "transp.Type", "transp.Gen", "chess.Score", "chess.Depth", "board.Hash", "move.Move"} {
		i := strings.Index(n, ".")
		var t *types.Named
		if pk := p.Pkg(n[:i]); pk != nil && pk.Types != nil {
			if tn, isT := pk.Types.Scope().Lookup(n[i+1:]).(*types.TypeName); isT {
				t, _ = tn.Type().(*types.Named)
			}
		}
		if t == nil {
			c.Anchor("C15", n)
			ok = false
		}
		e.named[n[i+1:]] = t
	}
	for _, n := range []string{"transp.(*Table).Insert", "transp.(*Table).LookUp", "transp.(*entry).Value", "transp.(*Table).bucketIx", "transp.match64", "transp.(*Table).Resize", "transp.validateSize", "transp.(packed).Depth", "transp.(packed).Type", "transp.(*Table).Clear", "transp.New"} {
		f := p.Func(n)
		if f == nil || f.Blocks == nil {
			c.Anchor("C15", n)
			ok = false
		}
		e.fn[n[strings.LastIndex(n, ".")+1:]] = f
	}
	if !ok {
		return
	}
	for _, f := range []struct{ t, f string }{{"bucket", "pKeys"}, {"bucket", "entries"}, {"entry", "Move"}, {"entry", "value"}, {"entry", "packed"}, {"entry", "gen"}, {"Table", "data"}, {"Table", "raw"}} {
		if e.field(f.t, f.f) == nil {
			c.Anchor("C15", "transp."+f.t+"."+f.f)
			ok = false
		}
	}
	if !ok {
		return
	}
	e.ins = e.anatomy()
	c15R1(e)
	c15R2(e)
	c15R3(e)
	c15R4(e)
	c15Clear(e)
	c15R5(e)
	c15R6(e)
}

// ---------- small helpers ----------

func (e *c15Env) field(typ, name string) *types.Var {
	if s, ok := e.named[typ].Underlying().(*types.Struct); ok {
		for i := 0; i < s.NumFields(); i++ {
			if s.Field(i).Name() == name {
				return s.Field(i)
			}
		}
	}
	return nil
}

func (e *c15Env) bits(t types.Type) int64 { return 8 * e.sizes.Sizeof(t) }

// intMax is the largest value of the integer type t.
func (e *c15Env) intMax(t types.Type) int64 {
	b, _ := t.Underlying().(*types.Basic)
	n := e.bits(t)
	if b == nil || b.Info()&types.IsInteger == 0 || n > 63 {
		return math.MaxInt64
	}
	if b.Info()&types.IsUnsigned != 0 {
		return 1<<n - 1
	}
	return 1<<(n-1) - 1
}

func (e *c15Env) isT(t types.Type, name string) bool { return types.Identical(t, e.named[name]) }

func c15Load(v ssa.Value) (ssa.Value, bool) {
	if u, ok := v.(*ssa.UnOp); ok && u.Op == token.MUL {
		return u.X, true
	}
	return nil, false
}

// fa: v is &base.<field> of the transp struct typ; returns base.
func (e *c15Env) fa(v ssa.Value, typ, field string) (ssa.Value, bool) {
	x, ok := v.(*ssa.FieldAddr)
	if !ok {
		return nil, false
	}
	n, s := structOf(x.X.Type())
	if n == nil || s == nil || n.Obj() != e.named[typ].Obj() || s.Field(x.Field).Name() != field {
		return nil, false
	}
	return x.X, true
}

// loadOf: v is a load of base.<field>.
func (e *c15Env) loadOf(v ssa.Value, typ, field string) (ssa.Value, bool) {
	if a, ok := c15Load(v); ok {
		return e.fa(a, typ, field)
	}
	return nil, false
}

// c15KBin: v is `x op k` with k constant (either side for commutative ops).
func c15KBin(v ssa.Value, op token.Token) (ssa.Value, int64, bool) {
	b, ok := v.(*ssa.BinOp)
	if !ok || b.Op != op {
		return nil, 0, false
	}
	if k, isk := constOf(b.Y); isk {
		return b.X, k, true
	}
	if k, isk := constOf(b.X); isk && commutative[op] {
		return b.Y, k, true
	}
	return nil, 0, false
}

// c15EdgeConds: branch conditions known to hold when control passes pred -> succ.
func c15EdgeConds(pred, succ *ssa.BasicBlock) []condEdge {
	out := controllingConds(pred)
	if n := len(pred.Instrs); n > 0 {
		if iff, ok := pred.Instrs[n-1].(*ssa.If); ok && pred.Succs[0] != pred.Succs[1] {
			out = append(out, condEdge{iff.Cond, pred.Succs[0] == succ, iff})
		}
	}
	return out
}

var c15Flip = map[token.Token]token.Token{token.LSS: token.GTR, token.GTR: token.LSS, token.LEQ: token.GEQ, token.GEQ: token.LEQ, token.EQL: token.EQL, token.NEQ: token.NEQ}
var c15Neg = map[token.Token]token.Token{token.LSS: token.GEQ, token.GEQ: token.LSS, token.GTR: token.LEQ, token.LEQ: token.GTR, token.EQL: token.NEQ, token.NEQ: token.EQL}

// c15Rel normalises a branch condition with its polarity to `x op y`.
func c15Rel(ce condEdge) (x, y ssa.Value, op token.Token, ok bool) {
	cond, pos := ce.Cond, ce.True
	for {
		u, isNot := cond.(*ssa.UnOp)
		if !isNot || u.Op != token.NOT {
			break
		}
		cond, pos = u.X, !pos
	}
	b, isb := cond.(*ssa.BinOp)
	if !isb {
		return
	}
	op = b.Op
	if _, known := c15Neg[op]; !known {
		return
	}
	if !pos {
		op = c15Neg[op]
	}
	return b.X, b.Y, op, true
}

// c15RelK: condition as `x op k` with k constant.
func c15RelK(ce condEdge) (ssa.Value, token.Token, int64, bool) {
	x, y, op, ok := c15Rel(ce)
	if !ok {
		return nil, 0, 0, false
	}
	if k, isk := constOf(y); isk {
		return x, op, k, true
	}
	if k, isk := constOf(x); isk {
		return y, c15Flip[op], k, true
	}
	return nil, 0, 0, false
}

// c15Expr renders an SSA value as an expression over its function's parameters
// (named by type, so that siblings with differently named/ordered parameters compare equal).
func c15Expr(v ssa.Value, d int) string {
	if d > 14 {
		return "?deep"
	}
	switch x := v.(type) {
	case *ssa.Parameter:
		k, n := 0, 0
		for _, q := range x.Parent().Params {
			if types.Identical(q.Type(), x.Type()) {
				if q == x {
					k = n
				}
				n++
			}
		}
		if n > 1 {
			return fmt.Sprintf("param<%s#%d>", x.Type(), k)
		}
		return "param<" + x.Type().String() + ">"
	case *ssa.Const:
		if x.Value == nil {
			return "zero"
		}
		return x.Value.ExactString()
	case *ssa.BinOp:
		a, b := c15Expr(x.X, d+1), c15Expr(x.Y, d+1)
		if commutative[x.Op] && a > b {
			a, b = b, a
		}
		return "(" + a + " " + x.Op.String() + " " + b + ")"
	case *ssa.UnOp:
		return x.Op.String() + "(" + c15Expr(x.X, d+1) + ")"
	case *ssa.Convert:
		return "conv<" + x.Type().String() + ">(" + c15Expr(x.X, d+1) + ")"
	case *ssa.ChangeType:
		return "conv<" + x.Type().String() + ">(" + c15Expr(x.X, d+1) + ")"
	case *ssa.FieldAddr:
		_, s := structOf(x.X.Type())
		return c15Expr(x.X, d+1) + "." + s.Field(x.Field).Name()
	case *ssa.IndexAddr:
		return c15Expr(x.X, d+1) + "[" + c15Expr(x.Index, d+1) + "]"
	case *ssa.Extract:
		return fmt.Sprintf("%s#%d", c15Expr(x.Tuple, d+1), x.Index)
	case *ssa.Call:
		name := "?dyn"
		if b, ok := x.Call.Value.(*ssa.Builtin); ok {
			name = b.Name()
		} else if f := calleeObj(x); f != nil {
			name = objName(f)
		}
		var as []string
		for _, a := range x.Call.Args {
			as = append(as, c15Expr(a, d+1))
		}
		return name + "(" + strings.Join(as, ",") + ")"
	}
	return "?" + v.Name()
}

// c15Forward resolves a load to the value of the closest preceding store to the
// same address in the same block (no intervening call); nil when there is none.
func c15Forward(load *ssa.UnOp) ssa.Value {
	blk := load.Block().Instrs
	for i := instrIndex(load) - 1; i >= 0; i-- {
		switch x := blk[i].(type) {
		case *ssa.Store:
			if sameValue(x.Addr, load.X, 0) {
				return x.Val
			}
		case *ssa.Call:
			if _, builtin := x.Call.Value.(*ssa.Builtin); !builtin {
				return nil
			}
		}
	}
	return nil
}

func c15Flatten(v ssa.Value, op token.Token, out *[]ssa.Value) {
	if b, ok := v.(*ssa.BinOp); ok && b.Op == op {
		c15Flatten(b.X, op, out)
		c15Flatten(b.Y, op, out)
		return
	}
	*out = append(*out, v)
}

// c15Under: v is target, possibly under conversions.
func c15Under(v, target ssa.Value) bool {
	for v != target {
		switch x := v.(type) {
		case *ssa.Convert:
			v = x.X
		case *ssa.ChangeType:
			v = x.X
		default:
			return false
		}
	}
	return true
}

func c15Edges(ph *ssa.Phi) []ssa.Value {
	if ph == nil {
		return nil
	}
	return ph.Edges
}

func c15Pow2(x int64) bool { return x > 0 && x&(x-1) == 0 }

func c15Returns(fn *ssa.Function) []*ssa.Return {
	var out []*ssa.Return
	allInstrs(fn, func(in ssa.Instruction) {
		if r, ok := in.(*ssa.Return); ok {
			out = append(out, r)
		}
	})
	return out
}

// ---------- addressing (shared by R2 and the Insert anatomy) ----------

type c15Addr struct {
	hash   *ssa.Parameter
	bucket *ssa.IndexAddr // &t.data[ix]
	sig    ssa.Value      // partialKey(f(hash))
	err    string
}

// addressing finds, in LookUp/Insert, the one index into t.data and the one
// conversion of a hash-derived value to partialKey.
func (e *c15Env) addressing(fn *ssa.Function) c15Addr {
	var a c15Addr
	for _, q := range fn.Params[1:] {
		if e.isT(q.Type(), "Hash") {
			if a.hash != nil {
				a.err = "more than one board.Hash parameter"
				return a
			}
			a.hash = q
		}
	}
	if a.hash == nil {
		a.err = "no board.Hash parameter"
		return a
	}
	nIx, nSig := 0, 0
	allInstrs(fn, func(in ssa.Instruction) {
		switch x := in.(type) {
		case *ssa.IndexAddr:
			if base, ok := e.loadOf(x.X, "Table", "data"); ok && base == fn.Params[0] {
				a.bucket = x
				nIx++
			}
		case *ssa.Convert:
			if e.isT(x.Type(), "partialKey") && backSlice(x.X, sliceOpts{})[a.hash] {
				a.sig = x
				nSig++
			}
		}
	})
	if nIx != 1 || nSig != 1 {
		a.err = fmt.Sprintf("expected exactly one index into t.data and one hash->partialKey conversion, found %d and %d", nIx, nSig)
	}
	return a
}

// ---------- Insert anatomy (shared by R1, R3, R4) ----------

type c15Ins struct {
	fn                        *ssa.Function
	hash, gen, sm, value, typ *ssa.Parameter
	depths                    []*ssa.Parameter
	bucket                    *ssa.IndexAddr
	sig                       ssa.Value
	entStore                  *ssa.Store
	repl                      ssa.Value            // index of the overwritten entry
	stored                    map[string]ssa.Value // entry field -> value stored
	packedDepth               *ssa.Parameter       // the Depth parameter packed into the entry
	packShift                 int64
}

func (e *c15Env) anatomy() *c15Ins {
	fn := e.fn["Insert"]
	bad := func(f string, a ...any) *c15Ins {
		e.c.Undec("C15.R4", "transp.(*Table).Insert#shape", fn.Pos(), "Insert no longer has the analysed shape: "+f, a...)
		return nil
	}
	in := &c15Ins{fn: fn, stored: map[string]ssa.Value{}}
	for _, q := range fn.Params[1:] {
		switch {
		case e.isT(q.Type(), "Hash"):
			in.hash = q
		case e.isT(q.Type(), "Gen"):
			in.gen = q
		case e.isT(q.Type(), "Move"):
			in.sm = q
		case e.isT(q.Type(), "Score"):
			in.value = q
		case e.isT(q.Type(), "Type"):
			in.typ = q
		case e.isT(q.Type(), "Depth"):
			in.depths = append(in.depths, q)
		}
	}
	if in.hash == nil || in.gen == nil || in.sm == nil || in.value == nil || in.typ == nil || len(in.depths) != 2 || len(fn.Params) != 8 {
		return bad("parameters are not (hash, gen, depth, ply, move, score, bound type), one of each type and two Depths")
	}
	a := e.addressing(fn)
	if a.err != "" {
		return bad("%s", a.err)
	}
	in.bucket, in.sig = a.bucket, a.sig
	// the one store to bucket.entries[R]
	n := 0
	allInstrs(fn, func(i ssa.Instruction) {
		if st, ok := i.(*ssa.Store); ok {
			if ia, ok := st.Addr.(*ssa.IndexAddr); ok {
				if b, ok := e.fa(ia.X, "bucket", "entries"); ok && b == in.bucket {
					in.entStore, in.repl = st, ia.Index
					n++
				}
			}
		}
	})
	var lit ssa.Value // address whose fields are assigned: the literal's temporary, or &bucket.entries[R] itself
	switch n {
	case 1:
		l, ok := c15Load(in.entStore.Val)
		if _, isAlloc := l.(*ssa.Alloc); !ok || !isAlloc {
			return bad("the stored entry is not a composite literal")
		}
		lit = l
	case 0: // field-wise assignment through &bucket.entries[R]
		allInstrs(fn, func(i ssa.Instruction) {
			if st, ok := i.(*ssa.Store); ok {
				if fa, ok := st.Addr.(*ssa.FieldAddr); ok {
					if ia, ok := fa.X.(*ssa.IndexAddr); ok {
						if b, ok := e.fa(ia.X, "bucket", "entries"); ok && b == in.bucket && (lit == nil || lit == ia) {
							lit, in.entStore, in.repl = ia, st, ia.Index
						}
					}
				}
			}
		})
	}
	if lit == nil || lit.Referrers() == nil {
		return bad("expected exactly one store to bucket.entries[...], found %d", n)
	}
	for _, r := range *lit.Referrers() {
		fa, ok := r.(*ssa.FieldAddr)
		if !ok || fa.Referrers() == nil {
			continue
		}
		_, s := structOf(fa.X.Type())
		for _, rr := range *fa.Referrers() {
			if st, ok := rr.(*ssa.Store); ok && st.Addr == fa {
				if _, dup := in.stored[s.Field(fa.Field).Name()]; dup || st.Block() != in.entStore.Block() {
					return bad("entry field %s assigned twice or away from the other fields", s.Field(fa.Field).Name())
				}
				in.stored[s.Field(fa.Field).Name()] = st.Val
			}
		}
	}
	for _, f := range []string{"Move", "value", "packed", "gen"} {
		if in.stored[f] == nil {
			return bad("the stored entry literal does not set field %s", f)
		}
	}
	// packed = depth<<k | type
	var ops []ssa.Value
	c15Flatten(in.stored["packed"], token.OR, &ops)
	for _, o := range ops {
		if x, k, ok := c15KBin(o, token.SHL); ok {
			if q, isP := stripConv(x).(*ssa.Parameter); isP && e.isT(q.Type(), "Depth") {
				in.packedDepth, in.packShift = q, k
			}
		}
	}
	if len(ops) != 2 || in.packedDepth == nil || (stripConv(ops[0]) != in.typ && stripConv(ops[1]) != in.typ) {
		return bad("packed field is not `depth<<k | type` of the parameters")
	}
	return in
}

// ---------- R1 layout arithmetic ----------

func c15PointerFree(t types.Type) bool {
	switch u := t.Underlying().(type) {
	case *types.Basic:
		return u.Kind() != types.UnsafePointer && u.Info()&types.IsString == 0
	case *types.Array:
		return c15PointerFree(u.Elem())
	case *types.Struct:
		for i := 0; i < u.NumFields(); i++ {
			if !c15PointerFree(u.Field(i).Type()) {
				return false
			}
		}
		return true
	}
	return false
}

func c15R1(e *c15Env) {
	const rule = "C15.R1"
	c, n := e.c, 0
	fact := func(cond bool, construct string, pos token.Pos, f string, a ...any) {
		c.Check(cond, rule, construct, pos, f, a...)
		n++
	}
	cnt, kb, bsz, maxPl := e.k["bucketEntryCnt"], e.k["partialKeyBits"], e.k["bucketSize"], e.k["MaxPlies"]
	pk, ents := e.field("bucket", "pKeys"), e.field("bucket", "entries")
	fact(cnt > 0 && kb > 0 && cnt*kb <= e.bits(pk.Type()), "lanes-fit-word", pk.Pos(),
		"bucketEntryCnt(%d) x partialKeyBits(%d) = %d signature bits must fit the %d bits of bucket.pKeys, else the top lane's signature is shifted out and a stored key is never found", cnt, kb, cnt*kb, e.bits(pk.Type()))
	arr, _ := ents.Type().Underlying().(*types.Array)
	if arr == nil {
		c.Undec(rule, "entries-array", ents.Pos(), "bucket.entries is not an array")
		return
	}
	fact(arr.Len() >= cnt, "entries-array", ents.Pos(), "bucket.entries has %d elements for bucketEntryCnt = %d signature lanes (a lane without entry makes Insert index out of range)", arr.Len(), cnt)
	fact(e.bits(e.named["partialKey"]) <= kb, "partialKey-width", e.named["partialKey"].Obj().Pos(),
		"partialKey is %d bits wide for %d-bit lanes: a wider signature would spill into the neighbouring lane when or-ed into pKeys and never compare equal to a truncated lane", e.bits(e.named["partialKey"]), kb)

	// match64: mask = (x - REP) & ^x & HI; index = TrailingZeros64(mask) / W
	if m, why := c15Match64(e); why != "" {
		c.Undec(rule, "match64#shape", e.fn["match64"].Pos(), "match64 is not the analysed zero-lane detector `(x-rep) & ^x & hi` / TrailingZeros: %s", why)
	} else {
		var rep uint64
		for i := int64(0); i < cnt && i*kb < 64; i++ {
			rep |= 1 << uint(i*kb)
		}
		pos := e.fn["match64"].Pos()
		fact(m.mul == rep && m.sub == rep, "match64#replicate", pos, "key is replicated by %#x and the borrow constant is %#x; both must be %#x (a 1 in each of %d lanes of %d bits)", m.mul, m.sub, rep, cnt, kb)
		fact(m.and == rep<<uint(kb-1), "match64#high-bits", pos, "lane test mask is %#x, must be the top bit of every lane %#x", m.and, rep<<uint(kb-1))
		fact(m.div == kb, "match64#lane-index", pos, "bit position is divided by %d to obtain the lane, lane width is %d", m.div, kb)
		fact(m.guard, "match64#nonzero-guard", pos, "the hit result is returned only under mask != 0 (TrailingZeros64(0)/%d would index past the bucket)", kb)
	}
	// packed byte
	kD, okD := c15AccessorConst(e.fn["Depth"], token.SHR)
	mT, okT := c15AccessorConst(e.fn["Type"], token.AND)
	if !okD || !okT || e.ins == nil {
		c.Undec(rule, "packed#shape", e.fn["Depth"].Pos(), "packed.Depth is not `p >> k`, packed.Type is not `p & m`, or Insert's packing was not recognised")
	} else {
		fact(kD == e.ins.packShift, "packed#shift-agree", e.ins.stored["packed"].Pos(), "Insert packs depth with << %d, packed.Depth unpacks with >> %d", e.ins.packShift, kD)
		nT, maxT := 0, int64(0)
		sc := e.named["Type"].Obj().Pkg().Scope()
		for _, name := range sc.Names() {
			if k, ok := sc.Lookup(name).(*types.Const); ok && types.Identical(k.Type(), e.named["Type"]) {
				v, _ := e.p.pkgConstInt("transp." + name)
				maxT = max(maxT, v)
				nT++
			}
		}
		fact(mT == 1<<uint(kD)-1 && maxT <= mT && nT >= 3, "packed#type-mask", e.fn["Type"].Pos(), "packed.Type masks with %#x; must be the %d bits below the depth, and all %d bound-type constants (max %d) must fit, else a bound type bleeds into the stored depth", mT, kD, nT, maxT)
		maxP := e.intMax(e.named["packed"])
		fact((maxPl-1)<<uint(kD) <= maxP && maxP>>uint(kD) <= e.intMax(e.named["Depth"]), "packed#depth-fits", e.named["packed"].Obj().Pos(),
			"depth MaxPlies-1 = %d shifted by %d must fit packed (max %d) and every unpacked depth must fit Depth (max %d)", maxPl-1, kD, maxP, e.intMax(e.named["Depth"]))
	}
	// bucket size, no pointers
	bt := e.named["bucket"]
	fact(e.sizes.Sizeof(bt) == bsz, "bucket#sizeof", bt.Obj().Pos(), "unsafe.Sizeof(bucket) on amd64 is %d, bucketSize is %d: Resize carves size/bucketSize buckets out of size bytes", e.sizes.Sizeof(bt), bsz)
	fact(c15PointerFree(bt), "bucket#pointer-free", bt.Obj().Pos(), "bucket must not contain pointers: it is overlaid on a []byte allocation the garbage collector does not scan")
	// scores
	maxS := e.intMax(e.named["Score"])
	inv := e.k["Inv"]
	if inv < 0 {
		inv = -inv
	}
	fact(max(e.k["Inf"], inv)+maxPl-1 <= maxS && maxPl-1 <= e.intMax(e.named["Depth"]), "score#range", e.named["Score"].Obj().Pos(),
		"the largest score magnitude max(Inf=%d, |Inv|=%d) re-based by up to MaxPlies-1 = %d must fit Score (max %d)", e.k["Inf"], inv, maxPl-1, maxS)
	c.Floor(rule, n, 13, "layout facts")
}

type c15M64 struct {
	mul, sub, and uint64
	div           int64
	guard         bool
}

func c15Match64(e *c15Env) (m c15M64, why string) {
	fn := e.fn["match64"]
	if len(fn.Params) != 2 {
		return m, "parameters"
	}
	hits := 0
	for _, r := range c15Returns(fn) {
		if len(r.Results) != 2 {
			return m, "results"
		}
		if k, isk := constOf(r.Results[1]); isk && k == 0 {
			continue // miss
		}
		hits++
		tz, div, ok := c15KBin(r.Results[0], token.QUO)
		if !ok {
			if x, sh, ok2 := c15KBin(r.Results[0], token.SHR); ok2 {
				tz, div, ok = x, 1<<uint(sh), true
			}
		}
		if !ok || !isCallValueTo(tz, "math/bits.TrailingZeros64") {
			return m, "hit index is not TrailingZeros64(mask)/k"
		}
		m.div = div
		mask := tz.(*ssa.Call).Call.Args[0]
		var pos, neg []ssa.Value // mask = AND(pos...) & ^neg...
		var fl func(v ssa.Value)
		fl = func(v ssa.Value) {
			b, isB := v.(*ssa.BinOp)
			u, isU := v.(*ssa.UnOp)
			switch {
			case isB && b.Op == token.AND:
				fl(b.X)
				fl(b.Y)
			case isB && b.Op == token.AND_NOT:
				fl(b.X)
				neg = append(neg, b.Y)
			case isU && u.Op == token.XOR:
				neg = append(neg, u.X)
			default:
				pos = append(pos, v)
			}
		}
		fl(mask)
		var x ssa.Value
		nk, ns := 0, 0
		for _, o := range pos {
			if k, isk := constOf(o); isk {
				m.and, nk = uint64(k), nk+1
			} else if y, k, ok := c15KBin(o, token.SUB); ok {
				x, m.sub, ns = y, uint64(k), ns+1
			}
		}
		if len(pos) != 2 || len(neg) != 1 || nk != 1 || ns != 1 || neg[0] != x {
			return m, "mask is not the conjunction of (x-k), ^x and a constant"
		}
		xb, ok := x.(*ssa.BinOp)
		if !ok || xb.Op != token.XOR {
			return m, "x is not word ^ replicated key"
		}
		w, rk := xb.X, xb.Y
		if w != fn.Params[0] {
			w, rk = rk, w
		}
		kv, mul, ok := c15KBin(rk, token.MUL)
		if w != fn.Params[0] || !ok || stripConv(kv) != fn.Params[1] {
			return m, "x is not word ^ key*k"
		}
		m.mul = uint64(mul)
		for _, ce := range controllingConds(r.Block()) {
			if cx, op, k, ok := c15RelK(ce); ok && cx == mask && k == 0 && op == token.NEQ {
				m.guard = true
			}
		}
	}
	if hits != 1 {
		return m, fmt.Sprintf("%d hit returns", hits)
	}
	return m, ""
}

// c15AccessorConst: fn is `return T(recv op k)`; returns k.
func c15AccessorConst(fn *ssa.Function, op token.Token) (int64, bool) {
	rs := c15Returns(fn)
	if len(rs) != 1 || len(rs[0].Results) != 1 || len(fn.Params) != 1 {
		return 0, false
	}
	x, k, ok := c15KBin(stripConv(rs[0].Results[0]), op)
	return k, ok && stripConv(x) == fn.Params[0]
}

// ---------- R2 probe and store address identically ----------

func c15R2(e *c15Env) {
	const rule = "C15.R2"
	c, n := e.c, 0
	lk, ins := e.fn["LookUp"], e.fn["Insert"]
	al, ai := e.addressing(lk), e.addressing(ins)
	if al.err != "" || ai.err != "" {
		c.Undec(rule, "sibling#shape", lk.Pos(), "LookUp: %q Insert: %q", al.err, ai.err)
		return
	}
	bl, bi := c15Expr(al.bucket.Index, 0), c15Expr(ai.bucket.Index, 0)
	viaIx := func(a c15Addr, fn *ssa.Function) bool {
		call, ok := a.bucket.Index.(*ssa.Call)
		return ok && call.Call.StaticCallee() == e.fn["bucketIx"] && len(call.Call.Args) == 2 && call.Call.Args[0] == fn.Params[0] && call.Call.Args[1] == a.hash
	}
	if strings.Contains(bl+bi, "?") {
		c.Undec(rule, "sibling#bucket-index", al.bucket.Pos(), "bucket index expressions not comparable: %s / %s", bl, bi)
	} else if bl == bi && !(viaIx(al, lk) && viaIx(ai, ins)) {
		c.Undec(rule, "sibling#bucket-index", al.bucket.Pos(), "both index t.data with %s, which is not a call of bucketIx(t, hash): the range argument of bucketIx#range does not cover it", bl)
	} else {
		c.Check(bl == bi, rule, "sibling#bucket-index", ai.bucket.Pos(), "LookUp indexes t.data with %s, Insert with %s; both must be bucketIx(t, hash) of the probed/stored hash, else a key is stored in one bucket and probed in another", bl, bi)
		n++
	}
	sl, si := c15Expr(al.sig, 0), c15Expr(ai.sig, 0)
	if strings.Contains(sl+si, "?") {
		c.Undec(rule, "sibling#signature", al.sig.Pos(), "signature expressions not comparable: %s / %s", sl, si)
	} else {
		c.Check(sl == si, rule, "sibling#signature", ai.sig.Pos(), "LookUp derives the signature as %s, Insert as %s; they must be the same function of the hash", sl, si)
		n++
	}
	// LookUp: lane reported by match64 on this bucket's keys selects the entry of this bucket
	calls := callsIn(lk, "transp.match64")
	if len(calls) != 1 {
		c.Undec(rule, "LookUp#lane-entry", lk.Pos(), "expected one call of match64 in LookUp, found %d", len(calls))
	} else {
		call := calls[0].(*ssa.Call)
		kb, okK := e.loadOf(call.Call.Args[0], "bucket", "pKeys")
		good, shape := okK && kb == al.bucket && call.Call.Args[1] == al.sig, true
		hits := 0
		for _, r := range c15Returns(lk) {
			if k, isk := constOf(r.Results[1]); isk && k == 0 {
				continue
			}
			hits++
			ia, ok := r.Results[0].(*ssa.IndexAddr)
			if !ok {
				shape = false
				continue
			}
			b, okB := e.fa(ia.X, "bucket", "entries")
			ex, okE := ia.Index.(*ssa.Extract)
			good = good && okB && b == al.bucket && okE && ex.Tuple == call && ex.Index == 0
			guarded := false
			for _, ce := range controllingConds(r.Block()) {
				if fx, ok := ce.Cond.(*ssa.Extract); ok && fx.Tuple == call && fx.Index == 1 && ce.True {
					guarded = true
				}
			}
			good = good && guarded
		}
		if !shape || hits == 0 {
			c.Undec(rule, "LookUp#lane-entry", call.Pos(), "LookUp's hit result is not a pointer &bucket.entries[ix]")
			return
		}
		c.Check(good, rule, "LookUp#lane-entry", call.Pos(), "a hit returns &bucket.entries[ix] where (ix, ok=true) is match64(bucket.pKeys, signature) of the same bucket (%d hit returns)", hits)
		n++
	}
	// bucketIx = (uintN(hash) * len(t.data)) >> S with N <= S: result < len(t.data)
	bx := e.fn["bucketIx"]
	rs := c15Returns(bx)
	good, detail := false, "not a single `return int(uintN(hash) * uint64(len(t.data)) >> S)`"
	if len(rs) == 1 && len(rs[0].Results) == 1 && len(bx.Params) == 2 {
		if prod, s, ok := c15KBin(stripConv(rs[0].Results[0]), token.SHR); ok {
			if m, ok := prod.(*ssa.BinOp); ok && m.Op == token.MUL && e.bits(m.Type()) == 64 {
				for _, o := range [][2]ssa.Value{{m.X, m.Y}, {m.Y, m.X}} {
					nb := c15NarrowBits(e, o[0], bx.Params[1])
					ln, isCall := stripConv(o[1]).(*ssa.Call)
					if nb == 0 || !isCall || len(ln.Call.Args) != 1 {
						continue
					}
					if b, isB := ln.Call.Value.(*ssa.Builtin); !isB || b.Name() != "len" {
						continue
					}
					if base, ok := e.loadOf(ln.Call.Args[0], "Table", "data"); ok && base == bx.Params[0] {
						good = nb <= s && s < 64
						detail = fmt.Sprintf("hash narrowed to %d bits, times len(t.data), shifted right by %d: result < len(t.data) iff %d <= %d", nb, s, nb, s)
					}
				}
			}
		}
	}
	if strings.HasPrefix(detail, "not ") {
		c.Undec(rule, "bucketIx#range", bx.Pos(), "bucketIx is %s", detail)
	} else {
		c.Check(good, rule, "bucketIx#range", bx.Pos(), "%s", detail)
		n++
	}
	c.Floor(rule, n, 4, "addressing obligations")
}

// c15NarrowBits: v is a chain of unsigned conversions of root; returns the
// narrowest width on the chain (0 if not of that shape).
func c15NarrowBits(e *c15Env, v, root ssa.Value) int64 {
	w := int64(64)
	for v != root {
		var x ssa.Value
		switch cv := v.(type) {
		case *ssa.Convert:
			x = cv.X
		case *ssa.ChangeType:
			x = cv.X
		default:
			return 0
		}
		b, _ := v.Type().Underlying().(*types.Basic)
		if b == nil || b.Info()&types.IsUnsigned == 0 {
			return 0
		}
		w = min(w, e.bits(v.Type()))
		v = x
	}
	return w
}

// ---------- R3 mate re-basing is a mirror ----------

type c15Raw struct {
	conds []condEdge
	delta int
}

type c15Piece struct {
	lo, hi int64
	delta  int
}

type c15Eval struct {
	isRoot, isPly func(ssa.Value) bool
}

// eval expresses v as root + delta*ply under branch conditions.
func (ev *c15Eval) eval(v ssa.Value, d int) ([]c15Raw, string) {
	if ev.isRoot(v) {
		return []c15Raw{{}}, ""
	}
	if d > 8 {
		return nil, "expression too deep"
	}
	switch x := v.(type) {
	case *ssa.BinOp:
		var base ssa.Value
		sign := 1
		switch {
		case x.Op == token.ADD && ev.isPly(x.Y):
			base = x.X
		case x.Op == token.ADD && ev.isPly(x.X):
			base = x.Y
		case x.Op == token.SUB && ev.isPly(x.Y):
			base, sign = x.X, -1
		default:
			return nil, fmt.Sprintf("score is combined by %s with something other than the ply parameter", x.Op)
		}
		ps, why := ev.eval(base, d+1)
		for i := range ps {
			ps[i].delta += sign
		}
		return ps, why
	case *ssa.Phi:
		var out []c15Raw
		for i, ed := range x.Edges {
			ps, why := ev.eval(ed, d+1)
			if why != "" {
				return nil, why
			}
			ec := c15EdgeConds(x.Block().Preds[i], x.Block())
			for _, p := range ps {
				out = append(out, c15Raw{append(append([]condEdge{}, p.conds...), ec...), p.delta})
			}
		}
		return out, ""
	}
	return nil, fmt.Sprintf("score flows through %T", v)
}

// pieces turns raw pieces into a partition of the score axis.
func (ev *c15Eval) pieces(raw []c15Raw) ([]c15Piece, string) {
	type key struct {
		c ssa.Value
		t bool
	}
	foreign := map[key]int{}
	var out []c15Piece
	for _, r := range raw {
		lo, hi := int64(math.MinInt64), int64(math.MaxInt64)
		seenF := map[key]bool{}
		for _, ce := range r.conds {
			x, op, k, ok := c15RelK(ce)
			if ok {
				if _, why := ev.eval(x, 0); why != "" {
					ok = false
				}
			}
			if !ok {
				if !seenF[key{ce.Cond, ce.True}] {
					seenF[key{ce.Cond, ce.True}] = true
					foreign[key{ce.Cond, ce.True}]++
				}
				continue
			}
			switch op {
			case token.LSS:
				hi = min(hi, k-1)
			case token.LEQ:
				hi = min(hi, k)
			case token.GTR:
				lo = max(lo, k+1)
			case token.GEQ:
				lo = max(lo, k)
			case token.EQL:
				lo, hi = max(lo, k), min(hi, k)
			default:
				return nil, "score is tested with != against a constant"
			}
		}
		if lo <= hi {
			out = append(out, c15Piece{lo, hi, r.delta})
		} else {
			for k := range seenF {
				foreign[k]-- // infeasible piece: does not count
			}
		}
	}
	for k, n := range foreign {
		if n != len(out) {
			return nil, fmt.Sprintf("the adjustment depends on a condition that is not a comparison of the score with a constant (%s)", k.c.Name())
		}
	}
	sort.Slice(out, func(i, j int) bool { return out[i].lo < out[j].lo })
	var merged []c15Piece
	for i, p := range out {
		if i == 0 {
			if p.lo != math.MinInt64 {
				return nil, "score ranges do not cover the axis"
			}
			merged = append(merged, p)
			continue
		}
		last := &merged[len(merged)-1]
		switch {
		case p.lo == last.lo && p.hi == last.hi && p.delta == last.delta: // duplicate path
		case p.lo != last.hi+1:
			return nil, fmt.Sprintf("score ranges overlap or leave a gap at %d", p.lo)
		case p.delta == last.delta:
			last.hi = p.hi
		default:
			merged = append(merged, p)
		}
	}
	if len(merged) == 0 || merged[len(merged)-1].hi != math.MaxInt64 {
		return nil, "score ranges do not cover the axis"
	}
	return merged, ""
}

func c15PieceString(ps []c15Piece) string {
	var s []string
	for _, p := range ps {
		lo, hi := fmt.Sprint(p.lo), fmt.Sprint(p.hi)
		if p.lo == math.MinInt64 {
			lo = "-inf"
		}
		if p.hi == math.MaxInt64 {
			hi = "+inf"
		}
		s = append(s, fmt.Sprintf("[%s,%s]:%+d*ply", lo, hi, p.delta))
	}
	return strings.Join(s, " ")
}

func c15R3(e *c15Env) {
	const rule = "C15.R3"
	c := e.c
	if e.ins == nil {
		c.Undec(rule, "Insert#rebase", e.fn["Insert"].Pos(), "Insert's shape was not recognised (see C15.R4 Insert#shape)")
		return
	}
	in := e.ins
	// Insert side
	var ply *ssa.Parameter
	foreignPly := false
	evI := &c15Eval{isRoot: func(v ssa.Value) bool { return v == in.value }}
	evI.isPly = func(v ssa.Value) bool {
		q, ok := stripConv(v).(*ssa.Parameter)
		if !ok || !e.isT(q.Type(), "Depth") {
			return false
		}
		if ply != nil && ply != q {
			foreignPly = true
		}
		ply = q
		return true
	}
	rawI, why := evI.eval(in.stored["value"], 0)
	var pi []c15Piece
	if why == "" {
		pi, why = evI.pieces(rawI)
	}
	if why != "" {
		c.Undec(rule, "Insert#rebase", in.stored["value"].Pos(), "stored score is not a piecewise `score ± ply` of the score parameter: %s", why)
		return
	}
	// Value side
	vf := e.fn["Value"]
	evV := &c15Eval{
		isRoot: func(v ssa.Value) bool { b, ok := e.loadOf(v, "entry", "value"); return ok && b == vf.Params[0] },
		isPly:  func(v ssa.Value) bool { return len(vf.Params) == 2 && stripConv(v) == vf.Params[1] },
	}
	var rawV []c15Raw
	allInstrs(vf, func(i ssa.Instruction) {
		if _, ok := i.(*ssa.Store); ok {
			why = "entry.Value contains a store"
		}
	})
	for _, r := range c15Returns(vf) {
		ps, w := evV.eval(r.Results[0], 0)
		if w != "" {
			why = w
		}
		cc := controllingConds(r.Block())
		for _, p := range ps {
			rawV = append(rawV, c15Raw{append(append([]condEdge{}, p.conds...), cc...), p.delta})
		}
	}
	var pv []c15Piece
	if why == "" {
		pv, why = evV.pieces(rawV)
	}
	if why != "" {
		c.Undec(rule, "Value#rebase", vf.Pos(), "entry.Value is not a piecewise `stored ± ply` of e.value: %s", why)
		return
	}
	si, sv := c15PieceString(pi), c15PieceString(pv)
	// Insert: away from zero, by the ply parameter (not the depth that is packed)
	away, nz := len(pi) >= 2, 0
	for _, p := range pi {
		switch {
		case p.delta == 0:
			away = away && p.lo <= 0 && p.hi >= 0
		case p.delta == -1:
			away = away && p.hi < 0
			nz++
		case p.delta == 1:
			away = away && p.lo > 0
			nz++
		default:
			away = false
		}
	}
	c.Check(away && nz == 2, rule, "Insert#away-from-zero", in.stored["value"].Pos(), "Insert stores score -> %s; required: one range below zero moved down by ply, one above zero moved up by ply, the range containing 0 unchanged (so that a re-based score stays on its side of the threshold it was tested against)", si)
	c.Check(ply != nil && !foreignPly && ply != in.packedDepth, rule, "Insert#ply-parameter", in.stored["value"].Pos(), "Insert re-bases by one Depth parameter that is not the depth packed into the entry (re-basing by the search depth instead of the ply corrupts every mate score)")
	// mirror
	mirror := len(pi) == len(pv)
	for i := 0; mirror && i < len(pi); i++ {
		mirror = pi[i].lo == pv[i].lo && pi[i].hi == pv[i].hi && pi[i].delta == -pv[i].delta
	}
	c.Check(mirror, rule, "mirror#Insert-Value", vf.Pos(), "Insert: %s; entry.Value: %s — the ranges must coincide (same thresholds, same strictness) with opposite ply sign, otherwise a mate score stored at ply p is not read back as the same mate at ply p", si, sv)
	// thresholds further apart than any ply: a score moved toward zero cannot reach the other range
	sep := len(pi) == 3 && pi[1].hi-pi[1].lo > e.intMax(e.named["Depth"])
	c.Check(sep, rule, "thresholds#separated", vf.Pos(), "the unchanged range %s is wider than the largest Depth (%d), so sequential tests on an already adjusted score see the range of the original score", c15PieceString(pi[min(1, len(pi)-1):min(2, len(pi))]), e.intMax(e.named["Depth"]))
	nzv := 0
	for _, p := range pv {
		if p.delta != 0 {
			nzv++
		}
	}
	c.Floor(rule, nz+nzv, 4, "re-basing branches (2 in Insert, 2 in entry.Value)")
}

// ---------- R4 lane bookkeeping in Insert ----------

func c15R4(e *c15Env) {
	const rule = "C15.R4"
	c, in := e.c, e.ins
	if in == nil {
		return // Insert#shape already reported
	}
	fnn := "transp.(*Table).Insert#"
	kb := e.k["partialKeyBits"]
	n := 0
	// signature comparison: partialKey(keys) == sig, keys a loop phi
	var sigCond *ssa.BinOp
	var keys *ssa.Phi
	allInstrs(in.fn, func(i ssa.Instruction) {
		b, ok := i.(*ssa.BinOp)
		if !ok || b.Op != token.EQL {
			return
		}
		for _, o := range [][2]ssa.Value{{b.X, b.Y}, {b.Y, b.X}} {
			if o[0] == in.sig && e.isT(o[1].Type(), "partialKey") {
				if ph, ok := stripConv(o[1]).(*ssa.Phi); ok && sigCond == nil {
					sigCond, keys = b, ph
				} else {
					keys = nil
				}
			}
		}
	})
	if sigCond == nil || keys == nil {
		c.Undec(rule, fnn+"match-lane", in.fn.Pos(), "no unique comparison `partialKey(laneWord) == signature` with laneWord a loop variable")
		return
	}
	// lane walk: keys = pKeys, keys >>= partialKeyBits; i = 0, i++ in the same loop header
	var iPhi *ssa.Phi
	for _, instr := range keys.Block().Instrs {
		ph, ok := instr.(*ssa.Phi)
		if !ok {
			break
		}
		zero, step := 0, 0
		for _, ed := range ph.Edges {
			if k, isk := constOf(ed); isk && k == 0 {
				zero++
			} else if x, k, ok := c15KBin(ed, token.ADD); ok && x == ph && k == 1 {
				step++
			}
		}
		if zero >= 1 && step >= 1 && zero+step == len(ph.Edges) {
			iPhi = ph
		}
	}
	walk := iPhi != nil
	shifts := 0
	for j, ed := range keys.Edges {
		first := false // edge entering the loop: i = 0
		if iPhi != nil {
			_, first = constOf(iPhi.Edges[j])
		}
		if b, ok := e.loadOf(ed, "bucket", "pKeys"); ok && b == in.bucket && first {
			continue
		}
		if x, k, ok := c15KBin(ed, token.SHR); ok && x == keys && k == kb && !first {
			shifts++
			continue
		}
		walk = false
	}
	bound := int64(-1)
	if iPhi != nil {
		allInstrs(in.fn, func(i ssa.Instruction) {
			v, isV := i.(ssa.Value)
			if !isV {
				return
			}
			if x, k, ok := c15KBin(v, token.LSS); ok {
				if x == iPhi {
					bound = k
				} else if y, one, ok := c15KBin(x, token.ADD); ok && y == iPhi && one == 1 {
					bound = k
				}
			}
		})
	}
	c.Check(walk && shifts >= 1 && bound == e.k["bucketEntryCnt"], rule, fnn+"lane-walk", keys.Pos(),
		"the lane word starts as bucket.pKeys and is shifted right by partialKeyBits (%d) exactly when the entry index, starting at 0, is incremented; the loop bound (%d) is bucketEntryCnt (%d): lane i is compared while entry i is examined", kb, bound, e.k["bucketEntryCnt"])
	n++
	if iPhi == nil {
		return
	}
	isTarget := func(v ssa.Value) bool { // &bucket.entries[i]
		ia, ok := v.(*ssa.IndexAddr)
		if !ok || ia.Index != iPhi {
			return false
		}
		b, ok := e.fa(ia.X, "bucket", "entries")
		return ok && b == in.bucket
	}
	has := func(conds []condEdge, pred func(condEdge) bool) bool {
		for _, ce := range conds {
			if pred(ce) {
				return true
			}
		}
		return false
	}
	sigTrue := func(ce condEdge) bool { return ce.Cond == sigCond && ce.True }

	// replace: on a signature match the matching lane is the one overwritten
	rp, isPhi := in.repl.(*ssa.Phi)
	if !isPhi {
		c.Undec(rule, fnn+"replace-on-match", in.entStore.Pos(), "index of the overwritten entry is not a join of the loop's outcomes")
	} else {
		onMatch, good, detail, unk := 0, true, "", ""
		for i, ed := range rp.Edges {
			if has(c15EdgeConds(rp.Block().Preds[i], rp.Block()), sigTrue) {
				onMatch++
				if ed != iPhi {
					good, detail = false, "after a signature match at lane i the entry overwritten is not entry i: the bucket then holds the signature twice and LookUp may return the stale one"
				}
				continue
			}
			for v := range backSlice(ed, sliceOpts{Stop: func(v ssa.Value) bool { return v == iPhi }}) {
				switch x := v.(type) {
				case *ssa.Phi:
				case *ssa.Const:
					if k, _ := constOf(x); k < 0 || k >= e.k["bucketEntryCnt"] {
						good, detail = false, fmt.Sprintf("victim index constant %d outside the bucket", k)
					}
				default:
					unk = "the victim index on the no-match path is computed, not one of the examined lane indices"
				}
			}
		}
		if onMatch == 0 {
			good, detail = false, "no path on which a signature match selects the entry to overwrite"
		}
		if good && unk != "" {
			c.Undec(rule, fnn+"replace-on-match", in.entStore.Pos(), "%s", unk)
		} else {
			n++
		}
		c.Check(good || unk != "", rule, fnn+"replace-on-match", in.entStore.Pos(), "entry overwritten: lane i on a signature match at lane i (%d such paths), otherwise one of the examined lanes. %s", onMatch, detail)

	}

	// pKeys update: clear and set the lane of the overwritten entry
	var last *ssa.Store
	sameBlock := true
	allInstrs(in.fn, func(i ssa.Instruction) {
		if st, ok := i.(*ssa.Store); ok {
			if b, ok := e.fa(st.Addr, "bucket", "pKeys"); ok && b == in.bucket {
				last = st
				sameBlock = sameBlock && st.Block() == in.entStore.Block()
			}
		}
	})
	if last == nil || !sameBlock {
		c.Undec(rule, fnn+"pKeys-update", in.entStore.Pos(), "bucket.pKeys is not updated in the block that overwrites the entry")
	} else {
		var orig ssa.Value
		var resolve func(v ssa.Value) ssa.Value
		resolve = func(v ssa.Value) ssa.Value {
			if u, ok := v.(*ssa.UnOp); ok && u.Op == token.MUL {
				if b, ok := e.fa(u.X, "bucket", "pKeys"); ok && b == in.bucket {
					if f := c15Forward(u); f != nil {
						return resolve(f)
					}
					orig = v
				}
			}
			return v
		}
		laneOf := func(sh ssa.Value) (ssa.Value, int64) { // sh = R * stride
			if r, k, ok := c15KBin(stripConv(sh), token.MUL); ok {
				return stripConv(r), k
			}
			if r, k, ok := c15KBin(stripConv(sh), token.SHL); ok {
				return stripConv(r), 1 << uint(k)
			}
			return nil, 0
		}
		var setLane, clrLane ssa.Value
		var setStride, clrStride int64
		setSig, maskOK, shape := false, false, false
		if top, ok := resolve(last.Val).(*ssa.BinOp); ok && top.Op == token.OR {
			for _, o := range [][2]ssa.Value{{top.X, top.Y}, {top.Y, top.X}} {
				set, okS := resolve(o[1]).(*ssa.BinOp)
				clr, okC := resolve(o[0]).(*ssa.BinOp)
				if !okS || !okC || set.Op != token.SHL {
					continue
				}
				var keep, mask ssa.Value
				switch clr.Op {
				case token.AND_NOT:
					keep, mask = resolve(clr.X), clr.Y
				case token.AND:
					for _, q := range [][2]ssa.Value{{clr.X, clr.Y}, {clr.Y, clr.X}} {
						if u, ok := q[1].(*ssa.UnOp); ok && u.Op == token.XOR {
							keep, mask = resolve(q[0]), u.X
						}
					}
				}
				mk, okM := mask.(*ssa.BinOp)
				if keep == nil || keep != orig || !okM || mk.Op != token.SHL {
					continue
				}
				shape = true
				if k, isk := constOf(mk.X); isk && k == 1<<uint(kb)-1 {
					maskOK = true
				}
				clrLane, clrStride = laneOf(mk.Y)
				setLane, setStride = laneOf(set.Y)
				setSig = c15Under(set.X, in.sig)
			}
		}
		if !shape || clrLane == nil || setLane == nil {
			c.Undec(rule, fnn+"pKeys-update", last.Pos(), "final bucket.pKeys is not `old &^ (laneMask << r*k) | uint64(signature) << r*k`")
		} else {
			r := stripConv(in.repl)
			clrOK, setOK := clrLane == r && clrStride == kb, setLane == r && setStride == kb
			c.Check(maskOK && setSig && clrOK && setOK, rule, fnn+"pKeys-update", last.Pos(),
				"final pKeys = old with one lane cleared and the signature or-ed in: lane mask is 2^partialKeyBits-1: %v; value set is the compared signature: %v; lane cleared is replace*partialKeyBits: %v; lane set is replace*partialKeyBits: %v (replace = index of the overwritten entry). A mismatch leaves the signature of one key on the entry of another", maskOK, setSig, clrOK, setOK)
			n++
		}
	}

	// early return (keep deeper): only under match ∧ typ != Exact ∧ depth > d+2 ∧ same generation.
	// Each test: 1 = present and right, 0 = present but wrong, -1 = not recognised on this path.
	typeVals := map[int64]bool{}
	sc := e.named["Type"].Obj().Pkg().Scope()
	for _, name := range sc.Names() {
		if k, ok := sc.Lookup(name).(*types.Const); ok && types.Identical(k.Type(), e.named["Type"]) {
			v, _ := e.p.pkgConstInt("transp." + name)
			typeVals[v] = true
		}
	}
	early := 0
	for _, r := range c15Returns(in.fn) {
		if r.Block() == in.entStore.Block() || in.entStore.Block().Dominates(r.Block()) {
			continue
		}
		early++
		conds := controllingConds(r.Block())
		sig, bound, deeper, sameGen := -1, -1, -1, -1
		allowed := map[int64]bool{}
		for v := range typeVals {
			allowed[v] = true
		}
		for _, ce := range conds {
			if sigTrue(ce) {
				sig = 1
			}
			if x, op, k, ok := c15RelK(ce); ok && x == in.typ {
				bound = 0
				for v := range allowed {
					holds := map[token.Token]bool{token.EQL: v == k, token.NEQ: v != k, token.LSS: v < k, token.LEQ: v <= k, token.GTR: v > k, token.GEQ: v >= k}[op]
					if !holds {
						delete(allowed, v)
					}
				}
			}
			x, y, op, ok := c15Rel(ce)
			if !ok {
				continue
			}
			if op == token.LSS || op == token.LEQ {
				x, y, op = y, x, c15Flip[op]
			}
			if call, isCall := x.(*ssa.Call); isCall && call.Call.StaticCallee() == e.fn["Depth"] && (op == token.GTR || op == token.GEQ) {
				if t, okT := e.loadOf(call.Call.Args[0], "entry", "packed"); okT && isTarget(t) {
					if dp, m, okY := c15KBin(y, token.ADD); okY && dp == in.packedDepth {
						if op == token.GEQ {
							m--
						}
						deeper = map[bool]int{true: 1, false: 0}[m == 2]
					}
				}
			}
			if op == token.EQL {
				for _, o := range [][2]ssa.Value{{x, y}, {y, x}} {
					if t, okT := e.loadOf(o[0], "entry", "gen"); okT && isTarget(t) && o[1] == in.gen {
						sameGen = map[bool]int{true: 1, false: 0}[in.stored["gen"] == in.gen]
					}
				}
			}
		}
		if bound == 0 && len(allowed) == len(typeVals)-1 && !allowed[e.k["Exact"]] {
			bound = 1
		}
		for _, nd := range []struct {
			name string
			st   int
			par  ssa.Value
			why  string
		}{
			{"signature-match", sig, nil, "a store of a key that is not in the bucket would be dropped"},
			{"bound-only", bound, in.typ, "exactly the non-Exact bound types may be kept out; an exact score always replaces the entry"},
			{"deeper-by-more-than-2", deeper, in.packedDepth, "a bound must displace a same-key entry that is at most two plies deeper than the depth being stored"},
			{"same-generation", sameGen, in.gen, "an entry of an earlier search must be displaced; the generation compared is the one Insert stores"},
		} {
			key := fmt.Sprintf("%skeep-deeper@%d:%s", fnn, early, nd.name)
			related := false // is the parameter tested in some other way somewhere in Insert?
			allInstrs(in.fn, func(i ssa.Instruction) {
				if iff, ok := i.(*ssa.If); ok && nd.par != nil && nd.st < 0 && backSlice(iff.Cond, sliceOpts{})[nd.par] {
					related = true
				}
			})
			if related {
				c.Undec(rule, key, r.Pos(), "the return that skips the store tests %s in a form the rule does not understand", nd.par.Name())
				continue
			}
			c.Check(nd.st == 1, rule, key, r.Pos(), "every path to the return that skips the store passes the test `%s` on the signature-matching entry (%s)", nd.name, nd.why)
			n++
		}
	}
	c.Floor(rule+".keep-deeper", early, 1, "returns of Insert that skip the store")

	// kept move: only from the signature-matching entry, only when the new move is null
	kept := 0
	var leaves func(v ssa.Value, conds []condEdge, seen map[ssa.Value]bool)
	leaves = func(v ssa.Value, conds []condEdge, seen map[ssa.Value]bool) {
		if ph, ok := v.(*ssa.Phi); ok {
			if seen[v] {
				return
			}
			seen[v] = true
			for i, ed := range ph.Edges {
				leaves(ed, append(append([]condEdge{}, conds...), c15EdgeConds(ph.Block().Preds[i], ph.Block())...), seen)
			}
			return
		}
		if v == in.sm {
			return
		}
		kept++
		key := fmt.Sprintf("%skept-move@%d", fnn, kept)
		t, okT := e.loadOf(v, "entry", "Move")
		if !okT {
			c.Undec(rule, key, v.Pos(), "the move stored is neither the parameter nor a load of an entry's move")
			return
		}
		fromMatch := isTarget(t) && has(controllingConds(v.(ssa.Instruction).Block()), sigTrue)
		smNull := has(conds, func(ce condEdge) bool {
			x, op, k, ok := c15RelK(ce)
			return ok && x == in.sm && op == token.EQL && k == 0
		})
		c.Check(fromMatch && smNull, rule, key, v.Pos(),
			"a move other than the one passed in is stored only if it is read from entry i under a signature match at lane i (%v) and only when the new move is null (%v); a victim's move belongs to a different key", fromMatch, smNull)
		n++
	}
	leaves(in.stored["Move"], nil, map[ssa.Value]bool{})
	c.Floor(rule+".kept-move", kept, 1, "paths keeping the old hash move")
	c.Floor(rule, n, 8, "lane bookkeeping obligations (walk, replace, pKeys, 4 keep-deeper conditions, kept move)")
}

// c15Clear: Clear stores 0 into pKeys of every bucket t.data[0..len) unconditionally
// (signature 0 = empty lane; stale entries without signature are unreachable).
func c15Clear(e *c15Env) {
	const rule, key = "C15.R4", "transp.(*Table).Clear#keys-zeroed"
	fn := e.fn["Clear"]
	found, good := 0, false
	allInstrs(fn, func(i ssa.Instruction) {
		st, ok := i.(*ssa.Store)
		if !ok {
			return
		}
		b, ok := e.fa(st.Addr, "bucket", "pKeys")
		ia, isIx := b.(*ssa.IndexAddr)
		if !ok || !isIx {
			return
		}
		found++
		if base, ok := e.loadOf(ia.X, "Table", "data"); !ok || base != fn.Params[0] {
			return
		}
		// index runs from 0: phi{0, +1} or phi{-1, +1}+1
		idx, start := ia.Index, int64(0)
		if x, k, ok := c15KBin(idx, token.ADD); ok && k == 1 {
			idx, start = x, -1
		}
		ph, isPhi := idx.(*ssa.Phi)
		from0 := isPhi
		for _, ed := range append([]ssa.Value{}, c15Edges(ph)...) {
			k, isk := constOf(ed)
			x, one, isStep := c15KBin(ed, token.ADD)
			from0 = from0 && (isk && k == start || isStep && one == 1 && (x == ph || start == -1 && ed == ia.Index))
		}
		// the only condition on the store: index < len(t.data)
		conds := controllingConds(st.Block())
		bounded := len(conds) == 1
		for _, ce := range conds {
			x, y, op, ok := c15Rel(ce)
			ln, isCall := y.(*ssa.Call)
			bounded = bounded && ok && op == token.LSS && x == ia.Index && isCall && len(ln.Call.Args) == 1
			if bounded {
				bi, isB := ln.Call.Value.(*ssa.Builtin)
				base, okL := e.loadOf(ln.Call.Args[0], "Table", "data")
				bounded = isB && bi.Name() == "len" && okL && base == fn.Params[0]
			}
		}
		k, isk := constOf(st.Val)
		good = good || from0 && bounded && isk && k == 0
	})
	if found == 0 {
		e.c.Undec(rule, key, fn.Pos(), "Clear has no store to bucket.pKeys through t.data[i] (cleared some other way?)")
		return
	}
	e.c.Check(good, rule, key, fn.Pos(), "Clear stores 0 to t.data[i].pKeys for every i in [0, len(t.data)) with no other condition: a signature surviving Clear makes a later probe hit on data stored before the Clear")
}

// ---------- R5 single writer, read-only consumers ----------

func c15R5(e *c15Env) {
	const rule = "C15.R5"
	c, p := e.c, e.p
	ins, clr, rsz := "transp.(*Table).Insert", "transp.(*Table).Clear", "transp.(*Table).Resize"
	allowed := map[string][]string{
		"transp.bucket.pKeys": {ins, clr}, "transp.bucket.entries": {ins, clr},
		"transp.entry.Move": {ins}, "transp.entry.value": {ins}, "transp.entry.packed": {ins}, "transp.entry.gen": {ins},
		"transp.Table.data": {rsz}, "transp.Table.raw": {rsz},
	}
	n := 0
	for _, f := range sortedKeys(allowed) {
		ws := p.writersOf(f)
		for _, w := range sortedKeys(ws) {
			s := ws[w][0]
			okW := false
			selfStore := strings.HasSuffix(w, "#escape") // a re-slice of the field stored back into the same field by an allowed writer
			for _, st := range ws[w] {
				x, isStore := st.In.(*ssa.Store)
				fr, isField := fieldRef{}, false
				if isStore {
					fr, isField = asFieldAddr(x.Addr)
				}
				selfStore = selfStore && isField && fr.QName() == f
			}
			for _, a := range allowed[f] {
				okW = okW || a == w || selfStore && a+"#escape" == w
			}
			if okW {
				c.Ok(rule, "writer:"+f+"@"+w, s.Pos, "%s stores %s (%d sites)", w, f, len(ws[w]))
				n++
			} else if strings.HasSuffix(w, "#escape") {
				c.Fail(rule, "writer:"+f+"@"+w, s.Pos, "address of %s escapes in %s (%s): a party other than %v may write table state", f, strings.TrimSuffix(w, "#escape"), s.What, allowed[f])
			} else {
				c.Fail(rule, "writer:"+f+"@"+w, s.Pos, "%s stores %s; only %v may: a probe would return data that no Insert stored for the key", w, f, allowed[f])
			}
		}
	}
	c.Floor(rule+".writers", n, 10, "allowed (field, writer) pairs")
	// consumers of LookUp's pointer
	sites := 0
	for _, fn := range p.OwnFuncs() {
		for _, ci := range callsIn(fn, "transp.(*Table).LookUp") {
			call, ok := ci.(*ssa.Call)
			if !ok || call.Referrers() == nil {
				c.Undec(rule, "consumer:"+fnName(fn), ci.Pos(), "LookUp called by go/defer")
				continue
			}
			sites++
			bad, unk := "", ""
			seen := map[ssa.Value]bool{}
			var uses func(v ssa.Value, ptr bool)
			uses = func(v ssa.Value, ptr bool) {
				if seen[v] || v.Referrers() == nil {
					return
				}
				seen[v] = true
				for _, r := range *v.Referrers() {
					switch x := r.(type) {
					case *ssa.DebugRef, *ssa.If, *ssa.UnOp, *ssa.BinOp:
					case *ssa.Extract:
						uses(x, x.Index == 0)
					case *ssa.FieldAddr, *ssa.IndexAddr, *ssa.Phi:
						if ptr {
							uses(x.(ssa.Value), true)
						}
					case *ssa.Store:
						if ptr && x.Addr == v {
							bad = "stores through the pointer"
						} else if ptr {
							unk = "retains the pointer"
						}
					case ssa.CallInstruction:
						if !ptr {
							continue
						}
						callee := x.Common().StaticCallee()
						recvOnly := callee != nil && callee.Signature.Recv() != nil && fnPkgPath(callee) == e.named["entry"].Obj().Pkg().Path() && x.Common().Args[0] == v
						for _, a := range x.Common().Args[1:] {
							recvOnly = recvOnly && a != v
						}
						if !recvOnly {
							unk = "passes the pointer to " + x.Common().String()
						}
					default:
						if ptr {
							unk = fmt.Sprintf("uses the pointer in a %T", r)
						}
					}
				}
			}
			uses(call, false)
			switch {
			case bad != "":
				c.Fail(rule, "consumer:"+fnName(fn), call.Pos(), "%s %s of the *entry returned by LookUp: table contents change without an Insert", fnName(fn), bad)
			case unk != "":
				c.Undec(rule, "consumer:"+fnName(fn), call.Pos(), "%s %s; whether the *entry returned by LookUp is only read can no longer be followed", fnName(fn), unk)
			default:
				c.Ok(rule, "consumer:"+fnName(fn), call.Pos(), "the *entry returned by LookUp is only read in %s (field loads and transp's own methods, none of which is a writer)", fnName(fn))
			}
		}
	}
	c.Floor(rule+".consumers", sites, 2, "LookUp call sites")
}

// ---------- R6 resize bounds ----------

func c15R6(e *c15Env) {
	const rule = "C15.R6"
	c := e.c
	fn, vs := e.fn["Resize"], e.fn["validateSize"]
	fnn := "transp.(*Table).Resize#"
	if len(fn.Params) != 2 || len(vs.Params) != 1 {
		c.Undec(rule, fnn+"shape", fn.Pos(), "Resize(size)/validateSize(size) parameters changed")
		return
	}
	recv, size := fn.Params[0], fn.Params[1]
	szB, alB := e.sizes.Sizeof(e.named["bucket"]), e.sizes.Alignof(e.named["bucket"])
	n := 0
	// validateSize returns only for size >= K
	minSize := int64(math.MaxInt64)
	for _, r := range c15Returns(vs) {
		k := int64(math.MinInt64)
		for _, ce := range controllingConds(r.Block()) {
			if x, op, v, ok := c15RelK(ce); ok && x == vs.Params[0] {
				switch op {
				case token.GEQ:
					k = max(k, v)
				case token.GTR:
					k = max(k, v+1)
				}
			}
		}
		minSize = min(minSize, k)
	}
	var div int64 = -1
	var lens []ssa.Value
	stores := 0
	allInstrs(fn, func(i ssa.Instruction) {
		st, ok := i.(*ssa.Store)
		if !ok {
			return
		}
		if b, ok := e.fa(st.Addr, "Table", "data"); !ok || b != recv {
			return
		}
		stores++
		validated := false
		for _, vc := range callsIn(fn, "transp.validateSize") {
			validated = validated || (vc.Common().Args[0] == size && instrDominates(vc.(ssa.Instruction), st))
		}
		c.Check(validated, rule, fmt.Sprintf("%svalidated@%d", fnn, stores), st.Pos(), "validateSize(size) is executed before t.data is replaced")
		n++
		switch v := st.Val.(type) {
		case *ssa.Slice:
			if b, ok := e.loadOf(v.X, "Table", "data"); ok && b == recv && v.Low == nil && v.High != nil {
				lens = append(lens, v.High)
			}
		case *ssa.Call:
			if b, ok := v.Call.Value.(*ssa.Builtin); ok && b.Name() == "Slice" && len(v.Call.Args) == 2 {
				lens = append(lens, v.Call.Args[1])
				c15Grow(e, rule, fnn, v, size, szB, alB)
				n++
			}
		}
	})
	okLen := len(lens) == stores && stores > 0
	for _, l := range lens {
		x, d, ok := c15KBin(stripConv(l), token.QUO)
		okLen = okLen && ok && stripConv(x) == size && (div < 0 || div == d)
		div = d
	}
	panics := false
	allInstrs(vs, func(i ssa.Instruction) {
		if _, ok := i.(*ssa.Panic); ok {
			panics = true
		}
	})
	if !okLen || !panics {
		c.Undec(rule, fnn+"length", fn.Pos(), "every new t.data is not a slice of length size/k (%d stores, %d recognised), or validateSize no longer rejects by panicking", stores, len(lens))
	} else {
		c.Check(div >= szB && minSize >= div, rule, fnn+"length", fn.Pos(), "t.data gets size/%d buckets of %d bytes (must not exceed size bytes) and validateSize guarantees size >= %s (must give at least one bucket: bucketIx of an empty table indexes out of range)", div, szB, strings.Replace(fmt.Sprint(minSize), fmt.Sprint(int64(math.MinInt64)), "nothing", 1))
		n++
	}
	c.Floor(rule, n, 4, "resize obligations (2 stores validated, length, allocation)")
}

// c15Grow checks data = unsafe.Slice((*bucket)((&raw[0] + m1) &^ m2), n) against raw = make([]byte, size + c).
func c15Grow(e *c15Env, rule, fnn string, sl *ssa.Call, size ssa.Value, szB, alB int64) {
	c := e.c
	construct := fnn + "allocation"
	al, ok := stripConv(sl.Call.Args[0]).(*ssa.BinOp)
	bad := func(what string) {
		c.Undec(rule, construct, sl.Pos(), "aligned allocation not recognised: %s", what)
	}
	if !ok {
		bad("pointer is not an aligned address")
		return
	}
	var m2 int64
	sum, k, okA := c15KBin(al, token.AND_NOT)
	if okA {
		m2 = k
	} else if sum, k, okA = c15KBin(al, token.AND); okA {
		m2 = ^k
	} else {
		bad("no alignment mask")
		return
	}
	base, m1, okS := c15KBin(sum, token.ADD)
	if !okS {
		base, m1 = sum, 0
	}
	ia, okI := stripConv(base).(*ssa.IndexAddr)
	if !okI {
		bad("base address is not &raw[0]")
		return
	}
	if k, isk := constOf(ia.Index); !isk || k != 0 {
		bad("base address is not element 0")
		return
	}
	raw := ia.X
	if u, ok := raw.(*ssa.UnOp); ok && u.Op == token.MUL {
		if _, isRaw := e.fa(u.X, "Table", "raw"); isRaw {
			raw = c15Forward(u)
		}
	}
	mk, okM := raw.(*ssa.MakeSlice)
	if !okM {
		bad("base is not an element of the slice just made")
		return
	}
	// len = size + extra
	extra, v := int64(0), mk.Len
	for v != size {
		if x, k, ok := c15KBin(v, token.ADD); ok {
			extra, v = extra+k, x
		} else if b, isB := v.(*ssa.BinOp); isB && b.Op == token.SUB {
			k, isk := constOf(b.Y)
			if !isk {
				bad("allocation length is not size + constant")
				return
			}
			extra, v = extra-k, b.X
		} else {
			bad("allocation length is not size + constant")
			return
		}
	}
	c.Check(m1 >= m2 && extra >= m1 && c15Pow2(m2+1) && (m2+1)%alB == 0, rule, construct, sl.Pos(),
		"raw = make([]byte, size+%d); data starts at (&raw[0] + %d) &^ %d. Required: round-up %d >= mask %d (never below &raw[0]), slack %d >= round-up (size bytes remain after the aligned start), mask+1 = %d a power of two and a multiple of bucket's alignment %d",
		extra, m1, m2, m1, m2, extra, m2+1, alB)
}

// ---------- mutants ----------

func init() {
	const T = "transp/transp.go"
	addMutants(
		// R1
		Mutant{Name: "C15.R1-hi16-lane-dropped", Prop: "C15", File: T, Old: "hi16  = 0x8000_8000_8000_8000", New: "hi16  = 0x8000_8000_8000_0000", Expect: "C15.R1/match64#high-bits"},
		Mutant{Name: "C15.R1-lane-index-divisor", Prop: "C15", File: T, Old: "bits.TrailingZeros64(mask) / 16, true", New: "bits.TrailingZeros64(mask) / 8, true", Expect: "C15.R1/match64#lane-index"},
		Mutant{Name: "C15.R1-fifth-bound-type", Prop: "C15", File: T, Old: "\tExact                  // Entry score is exact.\n", New: "\tExact                  // Entry score is exact.\n\tQuiet\n\tStatic\n", Expect: "C15.R1/packed#type-mask"},
		Mutant{Name: "C15.R1-pack-shift-3", Prop: "C15", File: T, Old: "packed(d)<<2 | packed(typ)", New: "packed(d)<<3 | packed(typ)", Expect: "C15.R1/packed#shift-agree"},
		Mutant{Name: "C15.R1-key-bits-12", Prop: "C15", File: T, Old: "partialKeyBits = 16", New: "partialKeyBits = 12", Expect: "C15.R1/partialKey-width"},
		Mutant{Name: "C15.R1-entry-grows", Prop: "C15", File: T, Old: "\tgen       Gen   // (1 byte)\n", New: "\tgen       Gen   // (1 byte)\n\tage       uint16\n", Expect: "C15.R1/bucket#sizeof"},
		// R2
		Mutant{Name: "C15.R2-insert-signature-other-bits", Prop: "C15", File: T, Quick: true, Old: "\thashKey := partialKey(hash >> (64 - partialKeyBits))\n\tbucketKeys := bucket.pKeys\n", New: "\thashKey := partialKey(hash >> 32)\n\tbucketKeys := bucket.pKeys\n", Expect: "C15.R2/sibling#signature"},
		Mutant{Name: "C15.R2-bucketIx-full-hash", Prop: "C15", File: T, Old: "h := uint32(hash)", New: "h := uint64(hash)", Expect: "C15.R2/bucketIx#range"},
		Mutant{Name: "C15.R2-insert-bucket-of-shifted-hash", Prop: "C15", File: T, Old: "\tbucket := &t.data[t.bucketIx(hash)]\n\n\thashKey", New: "\tbucket := &t.data[t.bucketIx(hash>>16)]\n\n\thashKey", Expect: "C15.R2/sibling#bucket-index"},
		Mutant{Name: "C15.R2-lookup-first-entry", Prop: "C15", File: T, Old: "return &bucket.entries[ix], true", New: "return &bucket.entries[ix&1], true", Expect: "C15.R2/LookUp#lane-entry"},
		// R3
		Mutant{Name: "C15.R3-rebase-same-sign", Prop: "C15", File: T, Quick: true, Old: "return e.value - Score(ply)", New: "return e.value + Score(ply)", Expect: "C15.R3/mirror"},
		Mutant{Name: "C15.R3-value-inclusive-threshold", Prop: "C15", File: T, Old: "if e.value > Inf-MaxPlies {", New: "if e.value >= Inf-MaxPlies {", Expect: "C15.R3/mirror"},
		Mutant{Name: "C15.R3-insert-rebase-by-depth", Prop: "C15", File: T, Old: "value -= Score(ply)", New: "value -= Score(d)", Expect: "C15.R3/Insert#ply-parameter"},
		Mutant{Name: "C15.R3-insert-wider-window", Prop: "C15", File: T, Old: "if value > Inf-MaxPlies {", New: "if value > Inf-2*MaxPlies {", Expect: "C15.R3/mirror"},
		Mutant{Name: "C15.R3-insert-toward-zero", Prop: "C15", File: T, Old: "value += Score(ply)", New: "value -= Score(ply)", File2: T, Old2: "return e.value - Score(ply)", New2: "return e.value + Score(ply)", Expect: "C15.R3/Insert#away-from-zero"},
		// R4
		Mutant{Name: "C15.R4-set-lane-wrong-stride", Prop: "C15", File: T, Quick: true, Old: "bucket.pKeys |= uint64(hashKey) << (replace * partialKeyBits)", New: "bucket.pKeys |= uint64(hashKey) << (replace * bucketEntryCnt)", Expect: "C15.R4/transp.(*Table).Insert#pKeys-update"},
		Mutant{Name: "C15.R4-match-does-not-select-lane", Prop: "C15", File: T, Old: "\t\t\treplace = i\n\t\t\tbreak", New: "\t\t\tbreak", Expect: "C15.R4/transp.(*Table).Insert#replace-on-match"},
		Mutant{Name: "C15.R4-kept-move-from-victim", Prop: "C15", File: T, Old: "\t\t\tif sm == 0 {\n\t\t\t\tsm = target.Move\n\t\t\t}\n\n", New: "", File2: T, Old2: "\tif value < -Inf+MaxPlies {\n\t\tvalue -= Score(ply)", New2: "\tif sm == 0 {\n\t\tsm = bucket.entries[replace].Move\n\t}\n\tif value < -Inf+MaxPlies {\n\t\tvalue -= Score(ply)", Expect: "C15.R4/transp.(*Table).Insert#kept-move"},
		Mutant{Name: "C15.R4-keep-deeper-any-generation", Prop: "C15", File: T, Old: "target.Depth() > d+2 && target.gen == gen", New: "target.Depth() > d+2", Expect: "C15.R4/transp.(*Table).Insert#keep-deeper@1:same-generation"},
		Mutant{Name: "C15.R4-keep-deeper-margin", Prop: "C15", File: T, Old: "target.Depth() > d+2", New: "target.Depth() >= d+2", Expect: "C15.R4/transp.(*Table).Insert#keep-deeper@1:deeper"},
		Mutant{Name: "C15.R4-keep-deeper-exact-too", Prop: "C15", File: T, Old: "if typ != Exact && target.Depth()", New: "if target.Depth()", Expect: "C15.R4/transp.(*Table).Insert#keep-deeper@1:bound-only"},
		Mutant{Name: "C15.R4-lane-walk-half-stride", Prop: "C15", File: T, Old: "bucketKeys >>= partialKeyBits", New: "bucketKeys >>= partialKeyBits / 2", Expect: "C15.R4/transp.(*Table).Insert#lane-walk"},
		Mutant{Name: "C15.R4-clear-keeps-signatures", Prop: "C15", File: T, Old: "\t\tt.data[i].pKeys = 0\n", New: "", Expect: "C15.R4/transp.(*Table).Clear#keys-zeroed"},
		Mutant{Name: "C15.R4-clear-skips-first-bucket", Prop: "C15", File: T, Old: "\tfor i, bucket := range t.data {\n\t\tt.data[i].pKeys = 0\n", New: "\tfor i, bucket := range t.data[1:] {\n\t\tt.data[i+1].pKeys = 0\n", Expect: "C15.R4/transp.(*Table).Clear#keys-zeroed"},
		// R5
		Mutant{Name: "C15.R5-search-writes-through-probe", Prop: "C15", File: "search/search.go", Quick: true, Old: "\t\thashMove = transpE.Move\n", New: "\t\thashMove = transpE.Move\n\t\ttranspE.Move = 0\n", Expect: "C15.R5/"},
		Mutant{Name: "C15.R5-value-rebases-in-place", Prop: "C15", File: T, Old: "\t\treturn e.value + Score(ply)\n", New: "\t\te.value += Score(ply)\n\t\treturn e.value\n", Expect: "C15.R5/writer:transp.entry.value"},
		Mutant{Name: "C15.R5-probe-pointer-retained", Prop: "C15", File: "search/search.go", Old: "\t\thashMove = transpE.Move\n", New: "\t\thashMove = transpE.Move\n\t\tdefer func() { _ = transpE.Value(ply) }()\n", Expect: "C15.R5/consumer:search.(*Search).alphaBeta"},
		// R6
		Mutant{Name: "C15.R6-no-slack", Prop: "C15", File: T, Old: "make([]byte, size+bucketSize-1)", New: "make([]byte, size)", Expect: "C15.R6/transp.(*Table).Resize#allocation"},
		Mutant{Name: "C15.R6-round-down", Prop: "C15", File: T, Old: "aligned := (base + uintptr(bucketSize-1)) &^ uintptr(bucketSize-1)", New: "aligned := base &^ uintptr(bucketSize-1)", Expect: "C15.R6/transp.(*Table).Resize#allocation"},
		Mutant{Name: "C15.R6-empty-table-accepted", Prop: "C15", File: T, Old: "if size < bucketSize || size%bucketSize != 0 {", New: "if size%bucketSize != 0 {", Expect: "C15.R6/transp.(*Table).Resize#length"},
	)
}
