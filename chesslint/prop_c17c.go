package main

// C17.R7: nothing but symmetric accumulation is carried from the White
// iteration of a per-colour loop of the evaluation into the Black one. A local
// that keeps the value computed for White when Black's branch does not assign
// it (a variable hoisted out of the loop, a `found` flag that is never reset)
// makes Black's term depend on White's pieces but not the other way round, so
// the position and its mirror image are scored differently.

import (
	"go/token"
	"go/types"

	"golang.org/x/tools/go/ssa"
)

func isColourType(t types.Type) bool {
	n, ok := types.Unalias(t).(*types.Named)
	return ok && n.Obj().Name() == "Color" && n.Obj().Pkg() != nil && relPkg(n.Obj().Pkg().Path()) == "chess"
}

// colourLoopHeaders: blocks holding the induction phi of a loop over the two colours.
func colourLoopHeaders(fn *ssa.Function) map[*ssa.BasicBlock]*ssa.Phi {
	out := map[*ssa.BasicBlock]*ssa.Phi{}
	for _, b := range fn.Blocks {
		for _, in := range b.Instrs {
			ph, ok := in.(*ssa.Phi)
			if !ok {
				break
			}
			if !isColourType(ph.Type()) {
				continue
			}
			// induction: one edge is phi+1 (or phi.Flip(), phi^1) coming from inside the loop
			for i, e := range ph.Edges {
				if !blockDomOrSame(b, b.Preds[i]) {
					continue
				}
				if bo, ok := stripConv(e).(*ssa.BinOp); ok && (bo.Op == token.ADD || bo.Op == token.XOR) && stripConv(bo.X) == ssa.Value(ph) {
					if k, isc := constOf(bo.Y); isc && k == 1 {
						out[b] = ph
					}
				}
			}
		}
	}
	return out
}

func c17R7(c *Ctx, p *Prog) {
	const rule = "C17.R7"
	var inst []*ssa.Function
	for _, r := range p.instancesOf("eval.Eval") {
		if len(r.TypeArgs()) > 0 {
			inst = append(inst, r)
		}
	}
	if len(inst) == 0 {
		c.Anchor(rule, "eval.Eval")
		return
	}
	loops := 0
	seenKey := map[string]bool{}
	for _, fn := range p.closure(inst, nil) {
		if !isOwn(fn) || len(fn.Blocks) == 0 {
			continue
		}
		for hdr, idx := range colourLoopHeaders(fn) {
			name := fnName(fn)
			if o := fn.Origin(); o != nil {
				name = fnName(o)
			}
			key := name + "#colour-loop@" + p.Rel(idx.Pos())
			if seenKey[key] {
				continue
			}
			seenKey[key] = true
			loops++
			inLoop := func(b *ssa.BasicBlock) bool {
				if !blockDomOrSame(hdr, b) {
					return false
				}
				// b reaches hdr again
				if len(b.Instrs) == 0 {
					return false
				}
				r, _ := reachAvoiding(b.Instrs[0], hdr.Instrs[0], nil)
				return r || b == hdr
			}
			verdict, why, pos := "ok", "", idx.Pos()
			carried := 0
			for _, in := range hdr.Instrs {
				ph, ok := in.(*ssa.Phi)
				if !ok {
					break
				}
				if ph == idx {
					continue
				}
				// the values arriving over back edges, with merges inside the loop flattened
				var leaves []ssa.Value
				seen := map[ssa.Value]bool{}
				accNodes := map[*ssa.BinOp]bool{}
				var flat func(v ssa.Value)
				flat = func(v ssa.Value) {
					if seen[v] {
						return
					}
					seen[v] = true
					if q, ok := v.(*ssa.Phi); ok && q != ph && inLoop(q.Block()) && q.Block() != hdr {
						for _, e := range q.Edges {
							flat(e)
						}
						return
					}
					// an accumulation step `carried op x` (x independent of the carried value) passes the carried value on
					if bo, ok := stripConv(v).(*ssa.BinOp); ok && bo.Block() != nil && inLoop(bo.Block()) {
						switch bo.Op {
						case token.ADD, token.OR, token.XOR, token.AND, token.MUL, token.SUB:
							dx, dy := dependsOn(bo.X, ph), dependsOn(bo.Y, ph)
							if dx && !dy {
								accNodes[bo] = true
								flat(bo.X)
								return
							}
							if dy && !dx && bo.Op != token.SUB {
								accNodes[bo] = true
								flat(bo.Y)
								return
							}
						}
					}
					leaves = append(leaves, v)
				}
				for i, e := range ph.Edges {
					if inLoop(hdr.Preds[i]) {
						flat(e)
					}
				}
				kept, fresh, freshConst, accum, other := 0, 0, 0, 0, 0
				var freshVals []ssa.Value
				for _, v := range leaves {
					switch {
					case v == ssa.Value(ph):
						kept++
					case dependsOn(v, ph):
						other++
					default:
						fresh++
						freshVals = append(freshVals, v)
						if _, isc := v.(*ssa.Const); isc {
							freshConst++
						}
					}
				}
				accum = len(accNodes)
				if kept+fresh+accum+other == 0 || (fresh == 0 && accum == 0 && other == 0) {
					continue // invariant across the loop
				}
				carried++
				nm := ph.Comment
				if nm == "" {
					nm = ph.Name()
				}
				// how is the carried value used inside the loop? merged (not a use), compared with the value that
				// replaces it (the max/min idiom), or consumed (stored, passed on, computed with)
				web := map[ssa.Value]bool{ph: true}
				for v := range seen {
					if q, ok := v.(*ssa.Phi); ok && q != ph && inLoop(q.Block()) && q.Block() != hdr {
						web[q] = true
					}
				}
				consumed, comparedOther := false, false
				for w := range web {
					refs := w.Referrers()
					if refs == nil {
						continue
					}
					for _, r := range *refs {
						if _, isDbg := r.(*ssa.DebugRef); isDbg || r.Block() == nil || !inLoop(r.Block()) {
							continue
						}
						if rv, ok := r.(ssa.Value); ok && web[rv] {
							continue
						}
						if bo, ok := r.(*ssa.BinOp); ok {
							switch bo.Op {
							case token.EQL, token.NEQ, token.LSS, token.LEQ, token.GTR, token.GEQ:
								otherSide := bo.X
								if web[stripConv(bo.X)] {
									otherSide = bo.Y
								}
								isFresh := false
								for _, fv := range freshVals {
									if sameValue(stripConv(otherSide), stripConv(fv), 0) {
										isFresh = true
									}
								}
								if !isFresh {
									comparedOther = true
								}
								continue
							}
							if accNodes[bo] {
								continue
							}
						}
						consumed = true
					}
				}
				setv := func(v, w string) {
					if verdict == "fail" || (verdict == "undec" && v == "undec") {
						return
					}
					verdict, why, pos = v, w, ph.Pos()
				}
				switch {
				case other > 0:
					setv("undec", "the value "+nm+" is carried between the two colours' iterations in a form that is not plain accumulation")
				case fresh == 0:
					// pure accumulation
					if consumed {
						setv("undec", "the running total "+nm+" is read inside the colour loop: Black's iteration sees White's contribution")
					}
				case accum > 0:
					setv("undec", "the local "+nm+" is both accumulated and overwritten across the colours' iterations")
				case consumed && kept > 0:
					setv("fail", "the local "+nm+" keeps the value computed in the White iteration whenever the Black iteration does not assign it, and that value is used inside the loop: Black's term then depends on White's pieces (never the other way round), so a position and its mirror image are scored differently")
				case consumed:
					setv("fail", "the value "+nm+" computed in the White iteration is used in the Black iteration before being recomputed: Black's term depends on White's pieces, never the other way round")
				case kept > 0 && fresh == freshConst && !comparedOther:
					// a flag that is only ever set: the outcome is the OR over both colours
				case kept > 0 && !comparedOther:
					// replaced under a comparison with its replacement only (running maximum / minimum) or last writer wins
					setv("undec", "the local "+nm+" is overwritten in some iterations and kept in others; whether the outcome is independent of the order of the colours is not decided")
				default:
					setv("undec", "the local "+nm+" is carried across the colours' iterations in a form that is not decided")
				}
			}
			if !pos.IsValid() {
				pos = fn.Pos()
			}
			switch verdict {
			case "ok":
				c.Ok(rule, key, pos, "the loop over the colours carries nothing from White's iteration into Black's but symmetric accumulation (%d accumulated values)", carried)
			case "undec":
				c.Undec(rule, key, pos, "%s", why)
			default:
				c.Fail(rule, key, pos, "%s", why)
			}
		}
	}
	c.Floor(rule, loops, 3, "per-colour loops in the evaluation")
}

// accumulates: v = ph op x with a commutative-associative op (or ph - x), x not depending on ph.
func accumulates(v ssa.Value, ph *ssa.Phi) bool {
	bo, ok := stripConv(v).(*ssa.BinOp)
	if !ok {
		return false
	}
	switch bo.Op {
	case token.ADD, token.OR, token.XOR, token.AND, token.MUL:
		for _, pr := range [][2]ssa.Value{{bo.X, bo.Y}, {bo.Y, bo.X}} {
			if (stripConv(pr[0]) == ssa.Value(ph) || accumulates(pr[0], ph)) && !dependsOn(pr[1], ph) {
				return true
			}
		}
	case token.SUB:
		if (stripConv(bo.X) == ssa.Value(ph) || accumulates(bo.X, ph)) && !dependsOn(bo.Y, ph) {
			return true
		}
	}
	return false
}

func dependsOn(v ssa.Value, ph *ssa.Phi) bool {
	for x := range backSlice(v, sliceOpts{}) {
		if x == ssa.Value(ph) {
			return true
		}
	}
	return v == ssa.Value(ph)
}

// usedInLoop: ph has a use inside the loop other than being merged back into itself.
func usedInLoop(ph *ssa.Phi, inLoop func(*ssa.BasicBlock) bool) bool {
	if ph.Referrers() == nil {
		return false
	}
	for _, r := range *ph.Referrers() {
		if _, isDbg := r.(*ssa.DebugRef); isDbg {
			continue
		}
		if q, ok := r.(*ssa.Phi); ok && q.Block() != ph.Block() {
			// merged with a fresh value further down: not a read
			continue
		}
		if r.Block() != nil && inLoop(r.Block()) {
			return true
		}
	}
	return false
}

func init() {
	addMutants(
		Mutant{Name: "C17.R7-king-distance-hoisted-out-of-colour-loop", Prop: "C17", File: "eval/eval.go", Quick: true,
			Old:    "func (sp *scorePair[T]) addPassers(b *board.Board, pw pieceWise, c *CoeffSet[T]) {\n\tfor color := White; color <= Black; color++ {\n",
			New:    "func (sp *scorePair[T]) addPassers(b *board.Board, pw pieceWise, c *CoeffSet[T]) {\n\tkingDist := 0\n\tfor color := White; color <= Black; color++ {\n",
			File2:  "eval/eval.go",
			Old2:   "\t\t\t\tkingDist := Chebishev(qSq, pw.kingSq[color.Flip()]) - Chebishev(qSq, pw.kingSq[color])\n\n\t\t\t\tsp.mg[color] += c.PasserKingDist[0] * T(kingDist)\n\t\t\t\tsp.eg[color] += c.PasserKingDist[1] * T(kingDist)\n\t\t\t}\n\t\t}\n",
			New2:   "\t\t\t\tkingDist = Chebishev(qSq, pw.kingSq[color.Flip()]) - Chebishev(qSq, pw.kingSq[color])\n\t\t\t}\n\t\t}\n\t\tsp.mg[color] += c.PasserKingDist[0] * T(kingDist)\n\t\tsp.eg[color] += c.PasserKingDist[1] * T(kingDist)\n",
			Expect: "C17.R7/eval.(*scorePair).addPassers#colour-loop"},
	)
}
