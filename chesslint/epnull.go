package main

// EP.null: Board.EnPassant == 0 means "no en-passant target"; 0 is also the
// square a1. Every use of the field as a square (compared with another
// square, its file or rank taken, used as a shift count or index) must
// therefore run only where the field is known to be non-zero; otherwise the
// "no target" state is read as a target on a1 (a black pawn promoting on a1
// is taken for an en-passant capture, the a-file key is mixed into the hash).
// Saving the value (token, delta xor), storing it and testing it against 0
// are not uses as a square.

import (
	"fmt"
	"go/token"
	"go/types"

	"golang.org/x/tools/go/ssa"
)

func epNullRule(c *Ctx, p *Prog, rule string) {
	isEPLoad := func(v ssa.Value) bool {
		s, ok := directFieldLoad(stripConv(v))
		return ok && s == "Board.EnPassant"
	}
	n := 0
	ords := map[*ssa.Function]int{}
	doneParam := map[ssa.Value]bool{}
	var analyse func(fn *ssa.Function, ld ssa.Value, isRoot func(ssa.Value) bool, depth int)
	analyse = func(fn *ssa.Function, ld ssa.Value, isRoot func(ssa.Value) bool, depth int) {
		if _, isPar := ld.(*ssa.Parameter); isPar {
			if doneParam[ld] {
				return
			}
			doneParam[ld] = true
		}
		{
			ord := ords[fn]
			defer func() { ords[fn] = ord }()
			// uses, through conversions and phis
			type use struct {
				in   ssa.Instruction
				kind string
			}
			var uses []use
			seen := map[ssa.Value]bool{}
			var walk func(v ssa.Value)
			walk = func(v ssa.Value) {
				if seen[v] || v.Referrers() == nil {
					return
				}
				seen[v] = true
				for _, r := range *v.Referrers() {
					switch x := r.(type) {
					case *ssa.DebugRef:
					case *ssa.Convert:
						walk(x)
					case *ssa.ChangeType:
						walk(x)
					case *ssa.Phi:
						walk(x)
					case *ssa.Store:
						// saved or copied
					case *ssa.Return, *ssa.MakeInterface:
					case *ssa.BinOp:
						other := x.Y
						if stripConv(x.Y) == stripConv(v) || x.Y == v {
							other = x.X
						}
						switch x.Op {
						case token.EQL, token.NEQ:
							if k, isc := constOf(other); isc && k == 0 {
								continue
							}
							uses = append(uses, use{x, "compared with a square"})
						case token.XOR:
							// delta form (old ^ new)
						case token.SHL, token.SHR:
							if x.Y == v {
								uses = append(uses, use{x, "used as a shift count"})
							} else {
								uses = append(uses, use{x, "shifted"})
							}
						default:
							uses = append(uses, use{x, "used in arithmetic (" + x.Op.String() + ")"})
						}
					case *ssa.Call:
						f := calleeObj(x)
						// handed to a function of the program: the parameter is examined there in the same way
						isRev := false
						if f != nil {
							if sig, _ := f.Type().(*types.Signature); sig != nil && sig.Recv() != nil {
								t := sig.Recv().Type()
								if pt, ok := t.(*types.Pointer); ok {
									t = pt.Elem()
								}
								if nmd, ok := types.Unalias(t).(*types.Named); ok && nmd.Obj().Name() == "Reverse" {
									isRev = true
								}
							}
						}
						if h := x.Call.StaticCallee(); !isRev && h != nil && isOwn(h) && h.Blocks != nil && depth < 2 && (relPkg(fnPkgPath(h)) == "board" || relPkg(fnPkgPath(h)) == "movegen") {
							followed := false
							for ai, a := range x.Call.Args {
								if a == v && ai < len(h.Params) {
									par := h.Params[ai]
									analyse(h, par, func(w ssa.Value) bool { return stripConv(w) == ssa.Value(par) }, depth+1)
									followed = true
								}
							}
							if followed {
								continue
							}
						}
						if f != nil {
							if sig, _ := f.Type().(*types.Signature); sig != nil && sig.Recv() != nil {
								t := sig.Recv().Type()
								if pt, ok := t.(*types.Pointer); ok {
									t = pt.Elem()
								}
								if nmd, ok := types.Unalias(t).(*types.Named); ok && nmd.Obj().Name() == "Reverse" {
									continue // saved in the token
								}
							}
						}
						uses = append(uses, use{x, "passed to " + objName(f)})
					case *ssa.IndexAddr, *ssa.Index, *ssa.Lookup:
						uses = append(uses, use{r, "used as an index"})
					default:
						uses = append(uses, use{r, fmt.Sprintf("used by %T", r)})
					}
				}
			}
			walk(ld)
			for _, u := range uses {
				ord++
				n++
				key := fmt.Sprintf("%s#ep-as-square@%d", fnName(fn), ord)
				guarded := false
				for _, ce := range controllingConds(u.in.Block()) {
					v, truth := ce.Cond, ce.True
					for {
						if un, ok := v.(*ssa.UnOp); ok && un.Op == token.NOT {
							v, truth = un.X, !truth
							continue
						}
						break
					}
					bo, ok := v.(*ssa.BinOp)
					if !ok || (bo.Op != token.EQL && bo.Op != token.NEQ) {
						continue
					}
					for _, pr := range [][2]ssa.Value{{bo.X, bo.Y}, {bo.Y, bo.X}} {
						if k, isc := constOf(pr[1]); isc && k == 0 && isRoot(pr[0]) {
							if (bo.Op == token.NEQ) == truth {
								guarded = true
							}
						}
					}
				}
				// the test may sit in the callers: every call of this function is made where the field is known non-zero
				if !guarded && depth == 0 {
					calls, all := 0, true
					for _, caller := range p.OwnFuncs() {
						for _, cs := range callsInFn(caller, fn) {
							calls++
							okSite := false
							for _, ce := range controllingConds(cs.Block()) {
								v, truth := ce.Cond, ce.True
								for {
									if un, ok := v.(*ssa.UnOp); ok && un.Op == token.NOT {
										v, truth = un.X, !truth
										continue
									}
									break
								}
								bo, ok := v.(*ssa.BinOp)
								if !ok || (bo.Op != token.EQL && bo.Op != token.NEQ) {
									continue
								}
								for _, pr := range [][2]ssa.Value{{bo.X, bo.Y}, {bo.Y, bo.X}} {
									if k, isc := constOf(pr[1]); isc && k == 0 && isEPLoad(pr[0]) && (bo.Op == token.NEQ) == truth {
										okSite = true
									}
								}
							}
							if !okSite {
								all = false
							}
						}
					}
					if calls > 0 && all {
						guarded = true
					}
				}
				// a value fed only into a guarded computation further down is not decided here
				switch {
				case guarded:
					c.Ok(rule, key, u.in.Pos(), "EnPassant is %s only where it is known to be non-zero", u.kind)
				case u.kind == "compared with a square" || u.kind == "used as an index" || u.kind == "used as a shift count" || u.kind == "passed to chess.(Square).File" || u.kind == "passed to chess.(Square).Rank":
					c.Fail(rule, key, u.in.Pos(), "Board.EnPassant is %s without a test that it is non-zero: 0 means `no en-passant target` but is also the square a1, so the empty state is read as a target on a1 (a move to a1 is taken for an en-passant capture / the a-file key is hashed)", u.kind)
				default:
					c.Undec(rule, key, u.in.Pos(), "Board.EnPassant is %s without a dominating test that it is non-zero; whether the empty state (0 = a1) can be misread here is not decided", u.kind)
				}
			}
		}
	}
	for _, fn := range p.OwnFuncs() {
		switch relPkg(fnPkgPath(fn)) {
		case "board", "movegen", "uci", "search", "heur", "eval":
		default:
			continue
		}
		fn := fn
		allInstrs(fn, func(in ssa.Instruction) {
			ld, ok := in.(*ssa.UnOp)
			if !ok || !isEPLoad(ld) {
				return
			}
			analyse(fn, ld, isEPLoad, 0)
		})
	}
	c.Floor(rule, n, 4, "uses of Board.EnPassant as a square")
}

func init() {
	addMutants(
		Mutant{Name: "C03.R10-ep-null-guard-dropped", Prop: "C03", File: "board/board.go", Quick: true,
			Old: "return b.EnPassant != 0 && b.EnPassant == sm.To() &&", New: "return b.EnPassant == sm.To() &&",
			Expect: "C03.R10/board.(*Board).IsEnPassant#ep-as-square"},
	)
}
