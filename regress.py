#!/usr/bin/env python3
"""Regression of the checker over the two corpora, on scratch copies of /repo (never patches /repo itself).

  regress.py seeds [ids...]      every seeded change must be reported by its own property's quick check
  regress.py refactors [ids...]  every behaviour-preserving patch must leave the rules of all 20 properties silent
                                 (one load per patch, `chesslint checkall`: rules without the mutant controls)
  regress.py refactors-full [ids...]  the same through the 20 registered quick checks (controls included; slow)

Scratch copies live under /tmp/rg-<n> and are removed at the end."""
import os, subprocess, sys, glob, shutil, json, queue
from concurrent.futures import ThreadPoolExecutor
mode = sys.argv[1]
want = set(sys.argv[2:])
N = int(os.environ.get('REGRESS_JOBS', '6'))
ENV = dict(os.environ, GOFLAGS='-mod=mod', GOPROXY='off', GOTOOLCHAIN='local', GOWORK='off'); ENV.pop('GOSUMDB', None)
for l in open('/verif/env.sh'):
    l = l.strip()
    if l.startswith('export '):
        for kv in l[7:].split():
            if '=' in kv:
                k, v = kv.split('=', 1)
                ENV[k] = os.path.expandvars(v.strip('"'))
ENV['PATH'] = '/opt/veriftools/go1.26.8/bin:' + ENV['PATH']
IDS = ['C%02d' % i for i in range(1, 21)]
def fresh(d):
    shutil.rmtree(d, ignore_errors=True)
    os.makedirs(d + '/repo'); os.makedirs(d + '/verif/evidence'); os.makedirs(d + '/verif/findings')
    subprocess.run('git -C /repo archive HEAD | tar -x -C %s/repo' % d, shell=True, check=True)
    shutil.copy('/verif/known_findings.json', d + '/verif/')
q = queue.Queue()
for i in range(N):
    d = '/tmp/rg-%d-%d' % (os.getpid(), i); fresh(d); q.put(d)
def check(d, pid):
    e = dict(ENV, CHESSLINT_REPO=d + '/repo', CHESSLINT_VERIF=d + '/verif')
    r = subprocess.run(['/verif/bin/chesslint', 'check', pid], capture_output=True, text=True, env=e)
    lines = [l for l in r.stdout.splitlines() if ('(violation)' in l or '(undecided)' in l)]
    return r.returncode, lines
def one(item):
    d = q.get()
    try:
        name = os.path.basename(item)
        patch = item + '/patch.diff'
        if os.path.exists(item + '/patch.ported.diff'): patch = item + '/patch.ported.diff'
        r = subprocess.run(['git', 'apply', patch], cwd=d + '/repo', capture_output=True, text=True)
        if r.returncode != 0:
            return '%s SKIP does not apply: %s' % (name, r.stderr.strip()[:120])
        try:
            if mode == 'seeds':
                rc, lines = check(d, name[:3])
                kind = 'MISSED'
                if rc != 0:
                    kind = 'violation' if any('(violation)' in l for l in lines) else 'undecided'
                return '%s %s %s' % (name, kind, (lines[0][:200] if lines else ''))
            bad = []
            if mode == 'refactors':
                # rules only, all properties on one load (chesslint checkall)
                e = dict(ENV, CHESSLINT_REPO=d + '/repo', CHESSLINT_VERIF=d + '/verif')
                r = subprocess.run(['/verif/bin/chesslint', 'checkall'], capture_output=True, text=True, env=e)
                bad = [l[:300] for l in r.stdout.splitlines() if ('(violation)' in l or '(undecided)' in l) and not l.startswith('KNOWN')]
                if r.returncode != 0 and not bad: bad = ['rc=%d %s' % (r.returncode, r.stderr[-200:])]
            else:
              for pid in IDS:
                rc, lines = check(d, pid)
                if rc != 0:
                    bad.append(pid + ': ' + (lines[0][:260] if lines else 'rc=%d' % rc))
            return '%s %s' % (name, 'SILENT' if not bad else 'FALSE-ALARM\n    ' + '\n    '.join(bad))
        finally:
            shutil.rmtree(d + '/repo', ignore_errors=True); os.makedirs(d + '/repo')
            subprocess.run('git -C /repo archive HEAD | tar -x -C %s/repo' % d, shell=True)
    finally:
        q.put(d)
items = sorted(glob.glob('/verif/seeded/C??-*' if mode == 'seeds' else '/verif/refactors/C??-*'), key=lambda s: (s.split('/')[-1][:3], int(s.rsplit('-', 1)[1])))
items = [i for i in items if os.path.isdir(i) and (not want or os.path.basename(i) in want or os.path.basename(i)[:3] in want)]
with ThreadPoolExecutor(N) as ex:
    for line in ex.map(one, items):
        print(line, flush=True)
for i in range(N):
    shutil.rmtree('/tmp/rg-%d-%d' % (os.getpid(), i), ignore_errors=True)
