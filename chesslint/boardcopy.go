package main

// Shared rules added after the seeded-change experiments:
//
//   - boardCopyRule: board.Board holds the hash history in a slice; a struct
//     copy of a Board shares that backing array with the original, so two
//     "independent" boards would push/pop into each other's history (and the
//     current hash, which is its last element). No Board value copy may outlive
//     the expression that makes it.
//   - parseFENResetRule: ParseFEN is documented for re-use of one *Board; every
//     Board field must either be reset before the field parsers run or be
//     assigned by a field parser on every accepting path.

import (
	"fmt"
	"go/token"
	"go/types"
	"strings"

	"golang.org/x/tools/go/ssa"
)

func isBoardValue(t types.Type) bool {
	n, ok := types.Unalias(t).(*types.Named)
	if !ok || n.Obj().Pkg() == nil {
		return false
	}
	_, isStruct := n.Underlying().(*types.Struct)
	return isStruct && n.Obj().Name() == "Board" && relPkg(n.Obj().Pkg().Path()) == "board"
}

func boardCopyRule(c *Ctx, p *Prog, rule string) {
	n := 0
	for _, fn := range p.OwnFuncs() {
		ord := 0
		allInstrs(fn, func(in ssa.Instruction) {
			ld, ok := in.(*ssa.UnOp)
			if !ok || ld.Op != token.MUL || !isBoardValue(ld.Type()) {
				return
			}
			// a load from a function's own local copy (value receiver body) is not a new copy of somebody's board
			if al, ok := ld.X.(*ssa.Alloc); ok && !al.Heap {
				_ = al
			}
			n++
			ord++
			key := fmt.Sprintf("%s#board-copy@%d", fnName(fn), ord)
			bad := ""
			if ld.Referrers() != nil {
				for _, r := range *ld.Referrers() {
					switch x := r.(type) {
					case *ssa.Field, *ssa.DebugRef:
					case ssa.CallInstruction:
						callee := x.Common().StaticCallee()
						if callee == nil || !isOwn(callee) {
							bad = "is passed to a function outside chess-3 / a dynamic call"
						}
					case *ssa.Store:
						al, isLocal := x.Addr.(*ssa.Alloc)
						switch {
						case x.Val != ssa.Value(ld):
						case !isLocal:
							// `*dst = *src`: overwriting another board with a copy (shares the history)
							bad = "is stored into another Board through a pointer"
						case al.Heap:
							bad = "is stored into a variable that escapes (its address is returned, captured or stored)"
						}
					case *ssa.Return:
						bad = "is returned by value"
					case *ssa.MakeInterface:
						bad = "is converted to an interface"
					default:
						bad = fmt.Sprintf("is used by %T", r)
					}
				}
			}
			if bad == "" {
				c.Ok(rule, key, ld.Pos(), "Board value copy is consumed on the spot (field selection / value-receiver call / non-escaping local)")
			} else {
				c.Fail(rule, key, ld.Pos(), "a copy of a Board value %s: the copy shares the hash-history backing array with the original, so makes/undos on one board overwrite the history and current hash of the other", bad)
			}
		})
	}
	c.Floor(rule, n, 3, "Board value copies (value-receiver calls)")
}

// parseFENResetRule: see file comment.
func parseFENResetRule(c *Ctx, p *Prog, rule string) {
	fn := p.Func("board.ParseFEN")
	if fn == nil {
		c.Anchor(rule, "board.ParseFEN")
		return
	}
	pk := p.Pkg("board")
	bt, _ := pk.Types.Scope().Lookup("Board").(*types.TypeName)
	if bt == nil {
		c.Anchor(rule, "board.Board")
		return
	}
	st := bt.Type().Underlying().(*types.Struct)
	bparam := fn.Params[0]
	// the call that runs the field parsers: the last own call in ParseFEN (seq); resets must dominate it
	var seqCall ssa.Instruction
	allInstrs(fn, func(in ssa.Instruction) {
		if call, ok := in.(*ssa.Call); ok {
			if callee := call.Call.StaticCallee(); callee != nil && isOwn(callee) {
				seqCall = call
			}
		}
	})
	if seqCall == nil {
		c.Undec(rule, "ParseFEN#parsers", fn.Pos(), "no call that runs the field parsers found")
		return
	}
	reset := map[string]bool{}
	whole := false
	allInstrs(fn, func(in ssa.Instruction) {
		s, ok := in.(*ssa.Store)
		if !ok || !instrDominates(s, seqCall) {
			return
		}
		if s.Addr == ssa.Value(bparam) {
			whole = true
			return
		}
		if fa, ok := s.Addr.(*ssa.FieldAddr); ok && fa.X == ssa.Value(bparam) {
			reset[st.Field(fa.Field).Name()] = true
		}
	})
	// field parsers: functions in the closure with stores to Board fields
	closure := p.closure([]*ssa.Function{fn}, func(f *ssa.Function) bool { return relPkg(fnPkgPath(f)) != "board" })
	for i := 0; i < st.NumFields(); i++ {
		name := st.Field(i).Name()
		key := "ParseFEN#reset:" + name
		if whole || reset[name] {
			c.Ok(rule, key, fn.Pos(), "Board.%s is reset before the field parsers run", name)
			continue
		}
		if name == "hashes" {
			// not part of what ParseFEN defines (documented: the caller runs ResetHash)
			c.OkTrivial(rule, key, fn.Pos(), "hash history is the caller's (ResetHash) by contract")
			continue
		}
		// assigned on every accepting path of some parser?
		definite := false
		for _, f := range closure {
			if f == fn || relPkg(fnPkgPath(f)) != "board" {
				continue
			}
			stores := fieldStores(f, "Board."+name)
			if len(stores) == 0 {
				continue
			}
			escapes := false
			allInstrs(f, func(in ssa.Instruction) {
				ret, ok := in.(*ssa.Return)
				if !ok || len(ret.Results) == 0 {
					return
				}
				if k, isC := ret.Results[len(ret.Results)-1].(*ssa.Const); !isC || k.Value != nil {
					return // error return
				}
				// is there a path entry -> this return avoiding every store to the field?
				if r, _ := reachAvoidingTo(f.Blocks[0].Instrs[0], ret, func(x ssa.Instruction) bool {
					for _, s := range stores {
						if x == ssa.Instruction(s) {
							return true
						}
					}
					return false
				}); r {
					escapes = true
				}
			})
			if !escapes {
				definite = true
			}
		}
		if definite {
			c.Ok(rule, key, fn.Pos(), "Board.%s is not reset but a field parser assigns it on every accepting path", name)
		} else {
			c.Fail(rule, key, fn.Pos(), "Board.%s is neither reset by ParseFEN nor assigned on every accepting path of its field parser: parsing into a re-used board keeps the previous position's %s (e.g. a stale en-passant square after a FEN whose field is `-`)", name, name)
		}
	}
}

// reachAvoidingTo: like reachAvoiding but `from` itself is the first instruction considered.
func reachAvoidingTo(first ssa.Instruction, to ssa.Instruction, stop func(ssa.Instruction) bool) (bool, []int) {
	if first == to {
		return true, nil
	}
	if stop != nil && stop(first) {
		return false, nil
	}
	return reachAvoiding(first, to, stop)
}

var _ = strings.HasPrefix

func init() {
	addMutants(
		Mutant{Name: "C03.R7-startpos-cached-copy", Prop: "C03", File: "board/board.go",
			Old: "func StartPos() *Board {\n\treturn Must(FromFEN(StartPosFEN))\n}", New: "var startPos = Must(FromFEN(StartPosFEN))\n\nfunc StartPos() *Board {\n\tb := *startPos\n\treturn &b\n}",
			Expect: "C03.R7/board.StartPos#board-copy"},
		Mutant{Name: "C08.R4-startpos-cached-copy", Prop: "C08", File: "board/board.go",
			Old: "func StartPos() *Board {\n\treturn Must(FromFEN(StartPosFEN))\n}", New: "var startPos = Must(FromFEN(StartPosFEN))\n\nfunc StartPos() *Board {\n\tb := *startPos\n\treturn &b\n}",
			Expect: "C08.R4/board.StartPos#board-copy"},
		Mutant{Name: "C11.R5-partial-reset-keeps-en-passant", Prop: "C11", File: "board/fen.go", Quick: true,
			Old: "\t*b = Board{}\n", New: "\tb.SquaresToPiece = [64]Piece{}\n\tb.Pieces = [7]BitBoard{}\n\tb.Colors = [2]BitBoard{}\n\tb.Castles = 0\n",
			Expect: "C11.R5/ParseFEN#reset:EnPassant"},
	)
}
