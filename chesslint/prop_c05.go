package main

import (
	"fmt"
	"go/ast"
	"go/constant"
	"go/token"
	"go/types"
	"math/bits"
	"sort"
	"strings"

	"golang.org/x/tools/go/ssa"
)

func init() {
	register(&Property{
		ID: "C05",
		Explain: "Static necessary conditions for 'the pseudo-legality test accepts exactly the moves the generator emits'. The acceptor (Board.IsPseudoLegal) and the generator (package movegen) are cross-checked on everything both state as constants or guards. " +
			"R1: on every accepting path of IsPseudoLegal (all paths enumerated; the function is loop-free) the promotion bits are constrained exactly as the generator emits them: non-pawn => none; pawn not on its seventh rank => none; pawn on its seventh rank => Knight..Queen. " +
			"R2: the four castling cases agree with shortCastle/longCastle on rights bit, must-be-empty set, must-be-unattacked set, king squares, and are guarded by the side to move. " +
			"R3: piece-attack pairing inside IsPseudoLegal (switch form) and IsAttacked. " +
			"R4: pawn clauses on every accepting pawn path: direction by side to move, push needs an empty target, double push needs the second rank and both squares empty, capture needs file and rank distance 1 and an enemy piece or the en-passant square. " +
			"R5: the move word's three bit-fields are disjoint, contiguous, wide enough, used consistently by constructors and accessors. " +
			"R6: the transposition-table move and GUI moves reach the board only through the IsPseudoLegal gate; every MakeMove argument originates from a generator frame, a gate or the search's own result. " +
			"Not decided: acceptance/emission equality for concrete positions beyond these shared constants and guards.",
		Assume: []string{"go/ssa models the program faithfully", "IsPseudoLegal is loop-free (checked: otherwise undecided)"},
		Run:    runC05,
	})
}

func runC05(c *Ctx) {
	p := c.need("default")
	if p == nil {
		return
	}
	c05R1R4(c, p)
	c05R2(c, p)
	n3 := pa3(c, p, "C05.R3.PA3", "board.(*Board).IsPseudoLegal")
	c.Floor("C05.R3.PA3", n3, 6, "attack-pattern calls under a piece case in IsPseudoLegal")
	n1 := pa1(c, p, "C05.R3.PA1", inFuncs("board.(*Board).IsAttacked"))
	c.Floor("C05.R3.PA1", n1, 4, "attack-pattern ∩ piece-set sites in IsAttacked")
	c05R5(c, p)
	c05R6(c, p)
	c05R7(c, p)
	c05R8(c, p)
}

// ---------- path enumeration ----------

type pathFact struct {
	Cond ssa.Value
	True bool
}

// enumPaths enumerates all entry→return paths of a loop-free function.
// Returns false if a cycle is met or the budget is exceeded.
func enumPaths(fn *ssa.Function, budget int, visit func(facts []pathFact, ret *ssa.Return)) (int, bool) {
	count := 0
	ok := true
	onPath := map[int]bool{}
	var facts []pathFact
	var dfs func(b *ssa.BasicBlock)
	dfs = func(b *ssa.BasicBlock) {
		if !ok {
			return
		}
		if onPath[b.Index] {
			ok = false
			return
		}
		onPath[b.Index] = true
		defer func() { onPath[b.Index] = false }()
		last := b.Instrs[len(b.Instrs)-1]
		switch x := last.(type) {
		case *ssa.Return:
			count++
			if count > budget {
				ok = false
				return
			}
			visit(facts, x)
		case *ssa.If:
			facts = append(facts, pathFact{x.Cond, true})
			dfs(b.Succs[0])
			facts[len(facts)-1].True = false
			dfs(b.Succs[1])
			facts = facts[:len(facts)-1]
		case *ssa.Jump:
			dfs(b.Succs[0])
		case *ssa.Panic:
		default:
			ok = false
		}
	}
	dfs(fn.Blocks[0])
	return count, ok
}

// ---------- atoms of IsPseudoLegal ----------

type plAtom struct {
	Kind string // promo, moved, fromOnRank, filediff, rankdiff, toOcc, toOrMidOcc, toEnemyOrEP, fromLtTo, fromGtTo, stm
	Op   token.Token
	Arg  int64
}

func isMoveAcc(v ssa.Value, acc string) bool {
	return isCallValueTo(stripConv(v), "move.(Move)."+acc)
}

// oneShl: v == BitBoard(1) << x  -> x
func oneShlOf(v ssa.Value) (ssa.Value, bool) {
	bo, ok := stripConv(v).(*ssa.BinOp)
	if !ok || bo.Op != token.SHL {
		return nil, false
	}
	if k, isc := constOf(bo.X); !isc || k != 1 {
		return nil, false
	}
	return stripConv(bo.Y), true
}

func isFromBB(v ssa.Value) bool { x, ok := oneShlOf(v); return ok && isMoveAcc(x, "From") }
func isToBB(v ssa.Value) bool   { x, ok := oneShlOf(v); return ok && isMoveAcc(x, "To") }

func isOccBoth(v ssa.Value) bool {
	bo, ok := stripConv(v).(*ssa.BinOp)
	if !ok || bo.Op != token.OR {
		return false
	}
	a, ok1 := coloursLoad(bo.X)
	b, ok2 := coloursLoad(bo.Y)
	return ok1 && ok2 && a.Base != b.Base && strings.HasPrefix(a.Base, "const") && strings.HasPrefix(b.Base, "const")
}

// rankOfPerspective: v == RankBB(rank.FromPerspectiveOf(STM)) -> rank const
func rankOfPerspective(v ssa.Value) (int64, bool) {
	call, ok := stripConv(v).(*ssa.Call)
	if !ok || objName(calleeObj(call)) != "chess.RankBB" {
		return 0, false
	}
	inner, ok := stripConv(call.Call.Args[0]).(*ssa.Call)
	if !ok || objName(calleeObj(inner)) != "chess.(Coord).FromPerspectiveOf" {
		return 0, false
	}
	r, isc := constOf(inner.Call.Args[0])
	if !isc || !isFieldLoad(stripConv(inner.Call.Args[1]), "Board.STM") {
		return 0, false
	}
	return r, true
}

func absDiffOf(v ssa.Value, acc string) bool {
	call, ok := stripConv(v).(*ssa.Call)
	if !ok || objName(calleeObj(call)) != "chess.Abs" {
		return false
	}
	bo, ok := stripConv(call.Call.Args[0]).(*ssa.BinOp)
	if !ok || bo.Op != token.SUB {
		return false
	}
	isAcc := func(x ssa.Value, sq string) bool {
		cl, ok := stripConv(x).(*ssa.Call)
		return ok && objName(calleeObj(cl)) == "chess.(Square)."+acc && isMoveAcc(cl.Call.Args[0], sq)
	}
	return (isAcc(bo.X, "From") && isAcc(bo.Y, "To")) || (isAcc(bo.X, "To") && isAcc(bo.Y, "From"))
}

// classifyPL maps a branch condition of IsPseudoLegal to an atom.
func classifyPL(v ssa.Value) (plAtom, bool) {
	bo, ok := stripConv(v).(*ssa.BinOp)
	if !ok {
		return plAtom{}, false
	}
	x, y := stripConv(bo.X), stripConv(bo.Y)
	k, isc := constOf(y)
	switch {
	case isc && isMoveAcc(x, "Promo"):
		return plAtom{"promo", bo.Op, k}, true
	case isc && isPieceAt(x, "move.(Move).From") && (bo.Op == token.EQL || bo.Op == token.NEQ):
		return plAtom{"moved", bo.Op, k}, true
	case isc && isFieldLoad(x, "Board.STM") && (bo.Op == token.EQL || bo.Op == token.NEQ):
		return plAtom{"stm", bo.Op, k}, true
	case isc && absDiffOf(x, "File") && (bo.Op == token.EQL || bo.Op == token.NEQ):
		return plAtom{"filediff", bo.Op, k}, true
	case isc && absDiffOf(x, "Rank") && (bo.Op == token.EQL || bo.Op == token.NEQ):
		return plAtom{"rankdiff", bo.Op, k}, true
	case !isc && isMoveAcc(x, "From") && isMoveAcc(y, "To") && bo.Op == token.LSS:
		return plAtom{"fromLtTo", token.NEQ, 0}, true // "true" when cond true
	case !isc && isMoveAcc(x, "From") && isMoveAcc(y, "To") && bo.Op == token.GTR:
		return plAtom{"fromGtTo", token.NEQ, 0}, true
	}
	if isc && k == 0 && (bo.Op == token.EQL || bo.Op == token.NEQ) {
		if and, ok := x.(*ssa.BinOp); ok && and.Op == token.AND {
			for _, pr := range [][2]ssa.Value{{and.X, and.Y}, {and.Y, and.X}} {
				a, b := stripConv(pr[0]), stripConv(pr[1])
				if r, ok := rankOfPerspective(a); ok && isFromBB(b) {
					return plAtom{"fromOnRank", bo.Op, r}, true // Op NEQ: true branch means "on rank"
				}
				if isOccBoth(a) && isToBB(b) {
					return plAtom{"toOcc", bo.Op, 0}, true
				}
				if isOccBoth(a) {
					// occ & (toBB | 1<<((from+to)/2))
					if or, ok := b.(*ssa.BinOp); ok && or.Op == token.OR {
						for _, q := range [][2]ssa.Value{{or.X, or.Y}, {or.Y, or.X}} {
							if isToBB(q[0]) {
								if m, ok := oneShlOf(q[1]); ok && isMidSquare(m) {
									return plAtom{"toOrMidOcc", bo.Op, 0}, true
								}
							}
						}
					}
				}
				// (Colors[STM.Flip()] | enPassant) & toBB
				if isToBB(b) {
					if or, ok := a.(*ssa.BinOp); ok && or.Op == token.OR {
						for _, q := range [][2]ssa.Value{{or.X, or.Y}, {or.Y, or.X}} {
							if ce, ok := coloursLoad(q[0]); ok && ce == (colourExpr{"STM", true}) && isEPBitboard(q[1]) {
								return plAtom{"toEnemyOrEP", bo.Op, 0}, true
							}
						}
					}
				}
			}
		}
	}
	return plAtom{}, false
}

func isMidSquare(v ssa.Value) bool {
	d, ok := stripConv(v).(*ssa.BinOp)
	if !ok {
		return false
	}
	if k, isc := constOf(d.Y); !isc || !((d.Op == token.QUO && k == 2) || (d.Op == token.SHR && k == 1)) {
		return false
	}
	s, ok := stripConv(d.X).(*ssa.BinOp)
	return ok && s.Op == token.ADD && ((isMoveAcc(s.X, "From") && isMoveAcc(s.Y, "To")) || (isMoveAcc(s.Y, "From") && isMoveAcc(s.X, "To")))
}

// isEPBitboard: phi[0, 1<<load EnPassant] guarded by EnPassant != 0, or 1<<EnPassant directly.
func isEPBitboard(v ssa.Value) bool {
	v = stripConv(v)
	if ph, ok := v.(*ssa.Phi); ok {
		okAny := false
		for _, e := range ph.Edges {
			if k, isc := constOf(e); isc && k == 0 {
				continue
			}
			if x, ok := oneShlOf(e); ok && isFieldLoad(x, "Board.EnPassant") {
				okAny = true
			} else {
				return false
			}
		}
		return okAny
	}
	x, ok := oneShlOf(v)
	return ok && isFieldLoad(x, "Board.EnPassant")
}

// holds evaluates atom a under branch polarity pol into a normalised (kind,arg)->bool fact,
// or an interval constraint for promo.
type plFacts struct {
	promoLo, promoHi int64
	promoNot         map[int64]bool
	b                map[string]bool  // "moved=3" -> true/false etc.
	exclusive        map[string]int64 // kind -> the one value established true (moved, stm, filediff, rankdiff)
	infeasible       bool
}

func newPLFacts() *plFacts {
	return &plFacts{0, 7, map[int64]bool{}, map[string]bool{}, map[string]int64{}, false}
}

func (f *plFacts) add(a plAtom, pol bool) {
	switch a.Kind {
	case "promo":
		op := a.Op
		if !pol {
			op = map[token.Token]token.Token{token.EQL: token.NEQ, token.NEQ: token.EQL, token.LSS: token.GEQ, token.GEQ: token.LSS, token.GTR: token.LEQ, token.LEQ: token.GTR}[op]
		}
		switch op {
		case token.EQL:
			if a.Arg > f.promoLo {
				f.promoLo = a.Arg
			}
			if a.Arg < f.promoHi {
				f.promoHi = a.Arg
			}
		case token.NEQ:
			f.promoNot[a.Arg] = true
		case token.LSS:
			if a.Arg-1 < f.promoHi {
				f.promoHi = a.Arg - 1
			}
		case token.LEQ:
			if a.Arg < f.promoHi {
				f.promoHi = a.Arg
			}
		case token.GTR:
			if a.Arg+1 > f.promoLo {
				f.promoLo = a.Arg + 1
			}
		case token.GEQ:
			if a.Arg > f.promoLo {
				f.promoLo = a.Arg
			}
		}
		for f.promoLo <= f.promoHi && f.promoNot[f.promoLo] {
			f.promoLo++
		}
		for f.promoHi >= f.promoLo && f.promoNot[f.promoHi] {
			f.promoHi--
		}
	default:
		truth := pol
		if a.Op == token.EQL && (a.Kind == "fromOnRank" || a.Kind == "toOcc" || a.Kind == "toOrMidOcc" || a.Kind == "toEnemyOrEP") {
			truth = !pol // `x & y == 0` true means NOT on rank / NOT occupied
		} else if a.Op == token.NEQ && (a.Kind == "moved" || a.Kind == "stm" || a.Kind == "filediff" || a.Kind == "rankdiff") {
			truth = !pol
		}
		key := fmt.Sprintf("%s=%d", a.Kind, a.Arg)
		if old, ok := f.b[key]; ok && old != truth {
			f.infeasible = true
		}
		f.b[key] = truth
		switch a.Kind {
		case "moved", "stm", "filediff", "rankdiff":
			// one value at a time
			if truth {
				if v, ok := f.exclusive[a.Kind]; ok && v != a.Arg {
					f.infeasible = true
				}
				f.exclusive[a.Kind] = a.Arg
			} else if v, ok := f.exclusive[a.Kind]; ok && v == a.Arg {
				f.infeasible = true
			}
		}
	}
	if f.promoLo > f.promoHi {
		f.infeasible = true
	}
}

func (f *plFacts) is(kind string, arg int64) (val, known bool) {
	if v, ok := f.exclusive[kind]; ok {
		return v == arg, true
	}
	v, ok := f.b[fmt.Sprintf("%s=%d", kind, arg)]
	return v, ok
}

func c05R1R4(c *Ctx, p *Prog) {
	const r1, r4 = "C05.R1", "C05.R4"
	fn := p.Func("board.(*Board).IsPseudoLegal")
	if fn == nil {
		c.Anchor(r1, "board.(*Board).IsPseudoLegal")
		return
	}
	pawn, _ := p.pkgConstInt("chess.Pawn")
	knight, _ := p.pkgConstInt("chess.Knight")
	queen, _ := p.pkgConstInt("chess.Queen")
	seventh, _ := p.pkgConstInt("chess.SeventhRank")
	second, _ := p.pkgConstInt("chess.SecondRank")
	type viol struct {
		n    int
		pos  token.Pos
		desc string
	}
	vs := map[string]*viol{}
	note := func(key string, pos token.Pos, desc string) {
		if v, ok := vs[key]; ok {
			v.n++
		} else {
			vs[key] = &viol{1, pos, desc}
		}
	}
	accepting, pawnPaths, infeasible := 0, 0, 0
	atomsSeen := map[string]bool{}
	total, ok := enumPaths(fn, 2_000_000, func(facts []pathFact, ret *ssa.Return) {
		if len(ret.Results) != 1 {
			return
		}
		if k, isc := constOf(ret.Results[0]); !isc || k != 1 {
			return
		}
		f := newPLFacts()
		for _, pf := range facts {
			if a, ok := classifyPL(pf.Cond); ok {
				f.add(a, pf.True)
				atomsSeen[a.Kind] = true
			}
		}
		if f.infeasible {
			infeasible++
			return // contradictory branch outcomes: not an execution
		}
		accepting++
		isPawn, known := f.is("moved", pawn)
		// ----- R1
		if !(known && isPawn) {
			// not established to be a pawn: promotion bits must be none
			if !(f.promoLo == 0 && f.promoHi == 0) {
				note("non-pawn-promo", ret.Pos(), fmt.Sprintf("a move of a piece not known to be a pawn is accepted with promotion bits in [%d,%d]", f.promoLo, f.promoHi))
			}
			return
		}
		pawnPaths++
		on7, k7 := f.is("fromOnRank", seventh)
		switch {
		case k7 && on7:
			if f.promoLo < knight || f.promoHi > queen {
				note("seventh-rank-promo-range", ret.Pos(), fmt.Sprintf("a pawn move from the seventh rank is accepted with promotion bits in [%d,%d]; the generator only emits Knight..Queen (%d..%d) — e.g. promotion to Pawn, King or the unused code 7", f.promoLo, f.promoHi, knight, queen))
			}
		case k7 && !on7:
			if !(f.promoLo == 0 && f.promoHi == 0) {
				note("non-seventh-rank-promo", ret.Pos(), fmt.Sprintf("a pawn move NOT from the seventh rank is accepted with promotion bits in [%d,%d]; the generator emits none there (e.g. e2e4 with promotion bits set)", f.promoLo, f.promoHi))
			}
		default:
			note("seventh-rank-untested", ret.Pos(), "a pawn move is accepted without the from-square having been tested against the mover's seventh rank")
		}
		// ----- R4
		ltTo, k1 := f.is("fromLtTo", 0)
		gtTo, k2 := f.is("fromGtTo", 0)
		stmB, kb := f.is("stm", 1)
		stmW, kw := f.is("stm", 0)
		// direction: ¬(from<to ∧ Black) ∧ ¬(from>to ∧ White)
		blackUp := (k1 && !ltTo) || (kb && !stmB) || (kw && stmW)
		whiteDown := (k2 && !gtTo) || (kw && !stmW) || (kb && stmB)
		if !blackUp {
			note("R4:direction-black", ret.Pos(), "a black pawn move towards higher squares (from < to) can be accepted")
		}
		if !whiteDown {
			note("R4:direction-white", ret.Pos(), "a white pawn move towards lower squares (from > to) can be accepted")
		}
		fd0, kf0 := f.is("filediff", 0)
		fd1, kf1 := f.is("filediff", 1)
		rd1, kr1 := f.is("rankdiff", 1)
		rd2, kr2 := f.is("rankdiff", 2)
		switch {
		case kf0 && fd0:
			switch {
			case kr1 && rd1:
				if occ, k := f.is("toOcc", 0); !(k && !occ) {
					note("R4:push-needs-empty-target", ret.Pos(), "a single pawn push is accepted without the target square being tested empty")
				}
			case kr2 && rd2:
				if on2, k := f.is("fromOnRank", second); !(k && on2) {
					note("R4:double-push-second-rank", ret.Pos(), "a double pawn push is accepted from a rank other than the mover's second")
				}
				if occ, k := f.is("toOrMidOcc", 0); !(k && !occ) {
					note("R4:double-push-both-empty", ret.Pos(), "a double pawn push is accepted without both the skipped and the target square being tested empty")
				}
			default:
				note("R4:push-distance", ret.Pos(), "a straight pawn move is accepted with a rank distance other than 1 or 2")
			}
		case kf1 && fd1:
			if !(kr1 && rd1) {
				note("R4:capture-rank-distance", ret.Pos(), "a diagonal pawn move is accepted without rank distance 1")
			}
			if e, k := f.is("toEnemyOrEP", 0); !(k && e) {
				note("R4:capture-needs-target", ret.Pos(), "a diagonal pawn move is accepted without an enemy piece or the en-passant square on the target")
			}
		default:
			note("R4:file-distance", ret.Pos(), "a pawn move is accepted with a file distance other than 0 or 1")
		}
	})
	if !ok {
		c.Undec(r1, "IsPseudoLegal#paths", fn.Pos(), "IsPseudoLegal is not loop-free or has more than 2,000,000 paths (%d enumerated)", total)
		return
	}
	c.Note("C05.R1/R4: %d paths of IsPseudoLegal enumerated, %d feasible accepting (%d accepting paths discarded as contradictory), %d accepting pawn paths; atom kinds recognised: %v", total, accepting, infeasible, pawnPaths, sortedKeys(atomsSeen))
	c.Floor(r1+".paths", accepting, 10, "accepting paths of IsPseudoLegal")
	c.Floor(r1+".pawn-paths", pawnPaths, 3, "accepting pawn paths of IsPseudoLegal")
	for _, need := range []string{"promo", "moved", "fromOnRank", "filediff", "rankdiff", "toOcc", "toOrMidOcc", "toEnemyOrEP", "fromLtTo", "fromGtTo", "stm"} {
		if !atomsSeen[need] {
			c.Undec(r4, "IsPseudoLegal#atom:"+need, fn.Pos(), "no branch condition of kind %q recognised in IsPseudoLegal; the rule's vocabulary no longer matches the code", need)
		}
	}
	r1keys := map[string]string{
		"non-pawn-promo":           "IsPseudoLegal#non-pawn=>no-promotion",
		"seventh-rank-promo-range": "IsPseudoLegal#pawn-on-seventh=>promotion-in-Knight..Queen",
		"non-seventh-rank-promo":   "IsPseudoLegal#pawn-not-on-seventh=>no-promotion",
		"seventh-rank-untested":    "IsPseudoLegal#pawn=>seventh-rank-tested",
	}
	for k, name := range r1keys {
		if v, bad := vs[k]; bad {
			c.Fail(r1, name, v.pos, "%s (%d accepting paths)", v.desc, v.n)
		} else {
			c.Ok(r1, name, fn.Pos(), "holds on all %d accepting paths", accepting)
		}
	}
	r4keys := []string{"R4:direction-black", "R4:direction-white", "R4:push-needs-empty-target", "R4:double-push-second-rank", "R4:double-push-both-empty", "R4:push-distance", "R4:capture-rank-distance", "R4:capture-needs-target", "R4:file-distance"}
	for _, k := range r4keys {
		name := "IsPseudoLegal#" + strings.TrimPrefix(k, "R4:")
		if v, bad := vs[k]; bad {
			c.Fail(r4, name, v.pos, "%s (%d accepting paths)", v.desc, v.n)
		} else {
			c.Ok(r4, name, fn.Pos(), "holds on all %d accepting pawn paths", pawnPaths)
		}
	}
}

// ---------- R2 castling agreement ----------

func c05R2(c *Ctx, p *Prog) {
	const rule = "C05.R2"
	fn := p.Func("board.(*Board).IsPseudoLegal")
	if fn == nil {
		c.Anchor(rule, "board.(*Board).IsPseudoLegal")
		return
	}
	gens := castleMethods(&Ctx{Progs: c.Progs, cur: c.cur}, p, rule) // silent extraction; C01.R4 reports on it
	bySide := map[int64]castleFacts{}
	for _, g := range gens {
		bySide[g.Side] = g
	}
	short, _ := p.pkgConstInt("chess.Short")
	long, _ := p.pkgConstInt("chess.Long")
	// castling cases: blocks where from == f and to == f±2 (f on the e-file of a back rank) are known
	type caseKey struct{ from, to int64 }
	entry := map[caseKey]*ssa.BasicBlock{}
	for _, b := range fn.Blocks {
		as := mustHold(b)
		var f, t int64 = -1, -1
		for _, a := range as {
			if a.Kind == "from==" && a.Pol {
				f = a.Arg
			}
			if a.Kind == "to==" && a.Pol {
				t = a.Arg
			}
		}
		if f < 0 || t < 0 || (t-f != 2 && f-t != 2) {
			continue
		}
		k := caseKey{f, t}
		if e, ok := entry[k]; !ok || b.Dominates(e) {
			entry[k] = b
		}
	}
	var keys []caseKey
	for k := range entry {
		keys = append(keys, k)
	}
	sort.Slice(keys, func(i, j int) bool { return keys[i].from*64+keys[i].to < keys[j].from*64+keys[j].to })
	for _, k := range keys {
		eb := entry[k]
		name := fmt.Sprintf("IsPseudoLegal#castle:%s%s", sqName(k.from), sqName(k.to))
		wantCol := int64(0)
		if k.from/8 == 7 {
			wantCol = 1
		}
		colName := map[int64]string{0: "White", 1: "Black"}[wantCol]
		// the castling tests proper start where the side to move is known as well
		var sb *ssa.BasicBlock
		for _, b := range fn.Blocks {
			if (b == eb || eb.Dominates(b)) && hasAtom(mustHold(b), "stm==", wantCol, true) {
				if sb == nil || b.Dominates(sb) {
					sb = b
				}
			}
		}
		stmOK := sb != nil
		if stmOK {
			// every castling test of this case lies in the STM-guarded region
			probe := castleCaseFacts(fn, eb, k.from, k.to)
			inner := castleCaseFacts(fn, sb, k.from, k.to)
			stmOK = probe.rightsSeen == inner.rightsSeen && probe.emptySeen == inner.emptySeen && probe.attSeen == inner.attSeen
			eb = sb
		}
		c.Check(stmOK, rule, name+"#side-to-move", eb.Instrs[0].Pos(), "castling case is guarded by STM == %s: otherwise the opponent's king move e1g1/e8g8 could be accepted as castling with the wrong rights", colName)
		side := short
		if k.to < k.from {
			side = long
		}
		g, ok := bySide[side]
		if !ok || g.EmptyExpr == "" || len(g.Mask) != 2 {
			c.Undec(rule, name+"#generator", eb.Instrs[0].Pos(), "the generator's castling facts for side %d were not recognised (see C01.R4)", side)
			continue
		}
		facts := castleCaseFacts(fn, eb, k.from, k.to)
		wantRights := int64(1) << uint(2*wantCol+side)
		pos := eb.Instrs[0].Pos()
		switch {
		case facts.rightsSeen && facts.rightsOK:
			c.Check(facts.rights == wantRights, rule, name+"#rights", pos, "acceptor tests rights bit %#x; generator tests Castle(%s, side %d) = %#x", facts.rights, colName, side, wantRights)
		case facts.rightsSeen:
			c.Undec(rule, name+"#rights", pos, "the rights bit tested by the acceptor is not a constant the rule can evaluate")
		default:
			c.Fail(rule, name+"#rights", pos, "the acceptor does not test a castling right in this case; generator tests Castle(%s, side %d)", colName, side)
		}
		gm := g.Mask[colName]
		var gEmpty uint64
		home := uint(4 + 56*wantCol)
		switch g.EmptyExpr {
		case "mask-minus-king":
			gEmpty = gm &^ (1 << home)
		case "mask>>1":
			gEmpty = gm >> 1
		}
		switch {
		case facts.emptySeen && facts.emptyOK:
			c.Check(facts.empty == gEmpty, rule, name+"#empty", pos, "acceptor requires %#x empty; generator requires %#x", facts.empty, gEmpty)
		case facts.emptySeen:
			c.Undec(rule, name+"#empty", pos, "the acceptor's must-be-empty set is not a closed bitboard expression the rule can evaluate")
		default:
			c.Fail(rule, name+"#empty", pos, "the acceptor has no emptiness test against the occupancy; generator requires %#x empty", gEmpty)
		}
		switch {
		case facts.attSeen && facts.attOK:
			c.Check(facts.unatt == gm, rule, name+"#unattacked", pos, "acceptor requires %#x unattacked; generator requires %#x", facts.unatt, gm)
			c.Check(facts.byOpp, rule, name+"#attacked-by-opponent", pos, "the king's path is tested against attacks by STM.Flip()")
		case facts.attSeen:
			c.Undec(rule, name+"#unattacked", pos, "the acceptor's must-be-unattacked set is not a closed bitboard expression the rule can evaluate")
		default:
			c.Fail(rule, name+"#unattacked", pos, "the acceptor has no IsAttacked test; generator requires %#x unattacked", gm)
		}
		c.Check(uint(k.from) == home && k.to-k.from == g.Delta, rule, name+"#squares", pos, "acceptor's king move %s%s equals the generator's home%+d", sqName(k.from), sqName(k.to), g.Delta)
	}
	c.Floor(rule, len(keys), 4, "castling cases in IsPseudoLegal")
}

type castleCase struct {
	rights                int64
	rightsSeen, rightsOK  bool
	empty, unatt          uint64
	emptySeen, emptyOK    bool
	attSeen, attOK, byOpp bool
}

// castleCaseFacts reads the rights bit, must-be-empty and must-be-unattacked sets tested in the
// region of fn dominated by entry, following static calls to helpers of package board (their
// parameters bound to the arguments).
func castleCaseFacts(fn *ssa.Function, entry *ssa.BasicBlock, from, to int64) castleCase {
	var cc castleCase
	var scan func(f *ssa.Function, region func(*ssa.BasicBlock) bool, bind map[ssa.Value]ssa.Value, depth int)
	var evalBB func(v ssa.Value, bind map[ssa.Value]ssa.Value, d int) (uint64, bool)
	resolve := func(v ssa.Value, bind map[ssa.Value]ssa.Value) ssa.Value {
		v = stripConv(v)
		for i := 0; i < 4; i++ {
			if r, ok := bind[v]; ok {
				v = stripConv(r)
			} else {
				break
			}
		}
		return v
	}
	evalBB = func(v ssa.Value, bind map[ssa.Value]ssa.Value, d int) (uint64, bool) {
		if d > 8 {
			return 0, false
		}
		v = resolve(v, bind)
		if k, ok := v.(*ssa.Const); ok && k.Value != nil {
			return k.Uint64(), true
		}
		if m, ok := bbFromSquaresConst(v); ok {
			return m, true
		}
		if bo, ok := v.(*ssa.BinOp); ok {
			if bo.Op == token.SHL {
				if one, isc := constOf(bo.X); isc && one == 1 {
					y := resolve(bo.Y, bind)
					if isCallValueTo(y, "move.(Move).From") {
						return 1 << uint(from), true
					}
					if isCallValueTo(y, "move.(Move).To") {
						return 1 << uint(to), true
					}
				}
				return 0, false
			}
			a, ok1 := evalBB(bo.X, bind, d+1)
			b, ok2 := evalBB(bo.Y, bind, d+1)
			if !ok1 || !ok2 {
				return 0, false
			}
			switch bo.Op {
			case token.OR:
				return a | b, true
			case token.AND:
				return a & b, true
			case token.AND_NOT:
				return a &^ b, true
			case token.XOR:
				return a ^ b, true
			}
		}
		return 0, false
	}
	isOcc := func(v ssa.Value, bind map[ssa.Value]ssa.Value) bool { return isOccBoth(resolve(v, bind)) }
	scan = func(f *ssa.Function, region func(*ssa.BasicBlock) bool, bind map[ssa.Value]ssa.Value, depth int) {
		for _, b := range f.Blocks {
			if !region(b) {
				continue
			}
			for _, in := range b.Instrs {
				switch x := in.(type) {
				case *ssa.BinOp:
					if x.Op != token.AND {
						continue
					}
					for _, pr := range [][2]ssa.Value{{x.X, x.Y}, {x.Y, x.X}} {
						if isFieldLoad(stripConv(pr[0]), "Board.Castles") {
							cc.rightsSeen = true
							if k, isc := constOf(resolve(pr[1], bind)); isc {
								cc.rights, cc.rightsOK = k, true
							}
						}
						if isOcc(pr[1], bind) {
							cc.emptySeen = true
							if m, ok := evalBB(pr[0], bind, 0); ok {
								cc.empty, cc.emptyOK = m, true
							}
						}
					}
				case *ssa.Call:
					switch objName(calleeObj(x)) {
					case "board.(*Board).IsAttacked":
						cc.attSeen = true
						if m, ok := evalBB(x.Call.Args[3], bind, 0); ok {
							cc.unatt, cc.attOK = m, true
						}
						if ce, ok := normColour(resolve(x.Call.Args[1], bind)); ok && ce == (colourExpr{"STM", true}) {
							cc.byOpp = true
						}
					default:
						callee := x.Call.StaticCallee()
						if callee != nil && isOwn(callee) && callee.Blocks != nil && depth < 2 && relPkg(fnPkgPath(callee)) == "board" && callee != fn {
							nb := map[ssa.Value]ssa.Value{}
							for i, pa := range callee.Params {
								if i < len(x.Call.Args) {
									nb[pa] = resolve(x.Call.Args[i], bind)
								}
							}
							scan(callee, func(*ssa.BasicBlock) bool { return true }, nb, depth+1)
						}
					}
				}
			}
		}
	}
	scan(fn, func(b *ssa.BasicBlock) bool { return b == entry || entry.Dominates(b) }, map[ssa.Value]ssa.Value{}, 0)
	return cc
}

// ---------- R5 move word layout ----------

func c05R5(c *Ctx, p *Prog) {
	const rule = "C05.R5"
	pk := p.Pkg("move")
	if pk == nil {
		c.Anchor(rule, "package move")
		return
	}
	mt, _ := pk.Types.Scope().Lookup("Move").(*types.TypeName)
	if mt == nil {
		c.Anchor(rule, "move.Move")
		return
	}
	info := pk.TypesInfo
	type fld struct {
		name  string
		mask  uint64
		shift int
		width int
	}
	var fields []fld
	sc := pk.Types.Scope()
	for _, n := range sc.Names() {
		k, ok := sc.Lookup(n).(*types.Const)
		if !ok || !types.Identical(k.Type(), mt.Type()) {
			continue
		}
		u, ok := constant.Uint64Val(constant.ToInt(k.Val()))
		if !ok || u == 0 {
			continue
		}
		fields = append(fields, fld{n, u, bits.TrailingZeros64(u), bits.OnesCount64(u)})
	}
	sort.Slice(fields, func(i, j int) bool { return fields[i].shift < fields[j].shift })
	c.Floor(rule+".fields", len(fields), 3, "Move mask constants")
	var all uint64
	byName := map[string]fld{}
	for i, f := range fields {
		byName[f.name] = f
		all |= f.mask
		c.Check(f.mask == ((uint64(1)<<uint(f.width))-1)<<uint(f.shift), rule, "mask:"+f.name+"#contiguous", sc.Lookup(f.name).Pos(), "%s = %#x is contiguous (%d bits at %d)", f.name, f.mask, f.width, f.shift)
		for _, g := range fields[i+1:] {
			c.Check(f.mask&g.mask == 0, rule, "mask:"+f.name+"&"+g.name+"#disjoint", mt.Pos(), "%s and %s do not overlap", f.name, g.name)
		}
	}
	mbits := uint(types.SizesFor("gc", "amd64").Sizeof(mt.Type().Underlying())) * 8
	c.Check(all < uint64(1)<<mbits, rule, "word#fits", mt.Pos(), "all fields fit the %d-bit move word (used bits %#x)", mbits, all)
	// constructors (package funcs returning Move) and accessors (methods on Move): one mask, own shift, width covers param/result type
	need := func(t types.Type) int {
		n, _ := types.Unalias(t).(*types.Named)
		if n == nil {
			return -1
		}
		switch n.Obj().Name() {
		case "Square":
			if v, ok := p.pkgConstInt("chess.Squares"); ok {
				return bits.Len64(uint64(v - 1))
			}
		case "Piece":
			if v, ok := p.pkgConstInt("chess.King"); ok {
				return bits.Len64(uint64(v))
			}
		}
		return -1
	}
	nAcc := 0
	roleMask := map[string][]string{} // "Square"/"Piece" param type -> masks used, to pair ctor/accessor
	for _, f := range pk.Syntax {
		for _, d := range f.Decls {
			fd, ok := d.(*ast.FuncDecl)
			if !ok || fd.Body == nil {
				continue
			}
			var masks []string
			var shifts []int64
			ast.Inspect(fd.Body, func(n ast.Node) bool {
				switch x := n.(type) {
				case *ast.Ident:
					if k, ok := info.Uses[x].(*types.Const); ok {
						if _, is := byName[k.Name()]; is && k.Pkg() == pk.Types {
							masks = append(masks, k.Name())
						}
					}
				case *ast.BinaryExpr:
					if x.Op == token.SHL || x.Op == token.SHR {
						if v, ok := constInt(info, x.Y); ok {
							shifts = append(shifts, v)
						}
					}
				}
				return true
			})
			if len(masks) == 0 {
				continue
			}
			obj := info.Defs[fd.Name].(*types.Func)
			name := objName(obj)
			nAcc++
			uniq := map[string]bool{}
			for _, m := range masks {
				uniq[m] = true
			}
			if len(uniq) != 1 {
				c.Fail(rule, name+"#one-field", fd.Pos(), "touches several move fields %v", sortedKeys(uniq))
				continue
			}
			fl := byName[masks[0]]
			c.Check(len(shifts) == 1 && shifts[0] == int64(fl.shift), rule, name+"#shift", fd.Pos(), "uses mask %s with its own shift %d (shifts seen %v)", fl.name, fl.shift, shifts)
			sig := obj.Type().(*types.Signature)
			var vt types.Type
			if sig.Recv() == nil && sig.Params().Len() == 1 {
				vt = sig.Params().At(0).Type()
			} else if sig.Recv() != nil && sig.Results().Len() == 1 {
				vt = sig.Results().At(0).Type()
			}
			if vt != nil {
				if w := need(vt); w > 0 {
					c.Check(fl.width >= w, rule, name+"#width", fd.Pos(), "field %s (%d bits) holds every %s (%d bits needed)", fl.name, fl.width, types.TypeString(vt, nil), w)
					tn := types.Unalias(vt).(*types.Named).Obj().Name() + ":" + fd.Name.Name
					roleMask[tn] = append(roleMask[tn], fl.name)
					// an accessor is the plain extraction of its field: a decoder that folds several bit patterns into one
					// value hides stray bits from IsPseudoLegal, which reads the word only through the accessors
					if sig.Recv() != nil {
						if sf := p.Func(name); sf != nil && sf.Blocks != nil {
							c.Check(len(sf.Blocks) == 1, rule, name+"#plain-extraction", fd.Pos(), "the accessor returns its field unchanged ((m & mask) >> shift, no remapping of values): every bit pattern of the field is visible to the acceptor")
						}
					}
				}
			}
		}
	}
	// constructor X and accessor X (same name, e.g. move.To / Move.To) use the same mask
	for k, ms := range roleMask {
		if len(ms) == 2 {
			c.Check(ms[0] == ms[1], rule, "pair:"+k, mt.Pos(), "constructor and accessor %s use the same field (%v)", k, ms)
		}
	}
	c.Floor(rule+".accessors", nAcc, 6, "move field constructors/accessors")
}

// ---------- R6 gates ----------

func c05R6(c *Ctx, p *Prog) {
	const rule = "C05.R6"
	// picker gate
	next := p.Func("picker.(*Picker).Next")
	if next == nil {
		c.Anchor(rule, "picker.(*Picker).Next")
	} else {
		n := 0
		for _, ci := range callsIn(next, "move.(*Store).Alloc") {
			arg := stripConv(ci.Common().Args[1])
			if !isFieldLoad(arg, "Picker.hashMove") {
				continue
			}
			n++
			gated := false
			for _, ce := range controllingConds(ci.Block()) {
				if call, ok := ce.Cond.(*ssa.Call); ok && ce.True && objName(calleeObj(call)) == "board.(*Board).IsPseudoLegal" && isFieldLoad(stripConv(call.Call.Args[1]), "Picker.hashMove") && isFieldLoad(stripConv(call.Call.Args[0]), "Picker.board") {
					gated = true
				}
			}
			c.Check(gated, rule, "picker.(*Picker).Next#hash-move-gate", ci.Pos(), "the transposition-table move enters the move list only on the true edge of board.IsPseudoLegal(hashMove) for the picker's own board")
		}
		c.Floor(rule+".picker", n, 1, "hash-move allocations in picker.Next")
		// no other yield path for the raw hash move: every `return true` in the pickHash stage is after the Alloc (covered by C16)
	}
	// GUI gate (same rule as C02.R5)
	c02R5(c, p, rule+".uci")
	// every MakeMove argument originates from a generator frame, a gate, or the search's result
	sources := []string{"picker.(*Picker).Move", "search.getNextMove", "move.(*Store).Frame", "uci.parseUCIMove", "search.(*Search).Go"}
	n := 0
	for _, fn := range p.OwnFuncs() {
		for i, ci := range callsIn(fn, "board.(*Board).MakeMove") {
			n++
			key := fmt.Sprintf("%s#MakeMove@%d#origin", fnName(fn), i+1)
			bad := moveOrigin(ci.Common().Args[1], sources, map[ssa.Value]bool{}, 0)
			if bad == nil {
				c.Ok(rule, key, ci.Pos(), "every value that can reach this MakeMove originates from a generator frame, the parseUCIMove gate or Search.Go")
			} else {
				c.Fail(rule, key, ci.Pos(), "the move given to MakeMove can originate from %s (%s), which is neither a generator frame (picker.Move / getNextMove / Store.Frame), the parseUCIMove gate nor Search.Go: an unvalidated encoding can reach the board", bad.Name(), p.Rel(bad.Pos()))
			}
		}
	}
	c.Floor(rule+".origins", n, 5, "MakeMove sites")
}

func init() {
	addMutants(
		Mutant{Name: "C05.R8-en-passant-legality-prefilter", Prop: "C05", File: "movegen/movegen.go", Quick: true,
			Old: "\t\tms.Alloc(move.From(from) | move.To(b.EnPassant))\n", New: "\t\tif b.IsAttacked(b.STM.Flip(), g.occ&^(pawns&-pawns), g.self&b.Pieces[King]) {\n\t\t\tcontinue\n\t\t}\n\t\tms.Alloc(move.From(from) | move.To(b.EnPassant))\n",
			Expect: "C05.R8/movegen.(generator).enPassant#emit"},
		Mutant{Name: "C05.R5-promo-decoder-hides-stray-bits", Prop: "C05", File: "move/move.go",
			Old: "func (s Move) Promo() Piece { return Piece((s & promoMsk) >> promoShift) }", New: "func (s Move) Promo() Piece {\n\tp := Piece((s & promoMsk) >> promoShift)\n\tif p < Knight || p > Queen {\n\t\treturn NoPiece\n\t}\n\treturn p\n}",
			Expect: "C05.R5/move.(Move).Promo#plain-extraction"},
		// the two hunks of the fix for F-1, reverted (kept as mutants: the violation must be reported again if it returns)
		Mutant{Name: "C05.R1-F1-reverted-promo-off-seventh", Prop: "C05", File: "board/board.go", Quick: true,
			Old: "\t\t} else if m.Promo() != NoPiece {\n\t\t\t// promotion piece on a pawn move that does not promote\n\t\t\treturn false\n\t\t}\n", New: "\t\t}\n",
			Expect: "C05.R1/IsPseudoLegal#pawn-not-on-seventh=>no-promotion"},
		Mutant{Name: "C05.R1-F1-reverted-promo-range", Prop: "C05", File: "board/board.go", Quick: true,
			Old: "if m.Promo() < Knight || m.Promo() > Queen {", New: "if m.Promo() == NoPiece {",
			Expect: "C05.R1/IsPseudoLegal#pawn-on-seventh=>promotion-in-Knight..Queen"},
		Mutant{Name: "C05.R1-king-promotion-accepted", Prop: "C05", File: "board/board.go",
			Old: "if m.Promo() < Knight || m.Promo() > Queen {", New: "if m.Promo() < Knight {",
			Expect: "C05.R1/IsPseudoLegal#pawn-on-seventh=>promotion-in-Knight..Queen"},
		Mutant{Name: "C05.R1-non-pawn-promo-check-dropped", Prop: "C05", File: "board/board.go",
			Old: "\tif m.Promo() != NoPiece && piece != Pawn {\n\t\treturn false\n\t}\n", New: "",
			Expect: "C05.R1/IsPseudoLegal#non-pawn=>no-promotion"},
		Mutant{Name: "C05.R2-long-castle-b1-not-required-empty", Prop: "C05", File: "board/board.go", Quick: true,
			Old: "if b.Castles&LongWhite == 0 || BitBoardFromSquares(D1, C1, B1)&occ != 0 ||", New: "if b.Castles&LongWhite == 0 || BitBoardFromSquares(D1, C1)&occ != 0 ||",
			Expect: "C05.R2/IsPseudoLegal#castle:e1c1#empty"},
		Mutant{Name: "C05.R2-castle-case-without-side-to-move", Prop: "C05", File: "board/board.go",
			Old: "case from == E8 && to == G8 && b.STM == Black:", New: "case from == E8 && to == G8:",
			Expect: "C05.R2/IsPseudoLegal#castle:e8g8#side-to-move"},
		Mutant{Name: "C05.R2-wrong-rights-bit", Prop: "C05", File: "board/board.go",
			Old: "if b.Castles&ShortBlack == 0 ||", New: "if b.Castles&LongBlack == 0 ||",
			Expect: "C05.R2/IsPseudoLegal#castle:e8g8#rights"},
		Mutant{Name: "C05.R2-destination-not-checked-for-attack", Prop: "C05", File: "board/board.go",
			Old: "b.IsAttacked(b.STM.Flip(), occ, BitBoardFromSquares(E1, F1, G1)) {", New: "b.IsAttacked(b.STM.Flip(), occ, BitBoardFromSquares(E1, F1)) {",
			Expect: "C05.R2/IsPseudoLegal#castle:e1g1#unattacked"},
		Mutant{Name: "C05.R3-queen-case-only-rook-rays", Prop: "C05", File: "board/board.go",
			Old: "if (attacks.RookMoves(from, occ)|attacks.BishopMoves(from, occ))&toBB == 0 {", New: "if attacks.RookMoves(from, occ)&toBB == 0 {",
			Expect: "C05.R3.PA3/board.(*Board).IsPseudoLegal#queen-both-sliders"},
		Mutant{Name: "C05.R3-bishop-case-rook-rays", Prop: "C05", File: "board/board.go",
			Old: "\tcase Bishop:\n\t\tif attacks.BishopMoves(from, occ)&toBB == 0 {", New: "\tcase Bishop:\n\t\tif attacks.RookMoves(from, occ)&toBB == 0 {",
			Expect: "C05.R3.PA3/board.(*Board).IsPseudoLegal#RookMoves"},
		Mutant{Name: "C05.R4-double-push-jumps-over-piece", Prop: "C05", File: "board/board.go", Quick: true,
			Old: "if occ&(toBB|(BitBoard(1)<<((from+to)/2))) != 0 {", New: "if occ&toBB != 0 {",
			Expect: "C05.R4/IsPseudoLegal#double-push-both-empty"},
		Mutant{Name: "C05.R4-double-push-from-any-rank", Prop: "C05", File: "board/board.go",
			Old: "\t\t\t\tif fromBB&RankBB(SecondRank.FromPerspectiveOf(b.STM)) == 0 {\n\t\t\t\t\treturn false\n\t\t\t\t}\n", New: "",
			Expect: "C05.R4/IsPseudoLegal#double-push-second-rank"},
		Mutant{Name: "C05.R4-capture-any-rank-distance", Prop: "C05", File: "board/board.go",
			Old: "\t\t\tif Abs(from.Rank()-to.Rank()) != 1 {\n\t\t\t\treturn false\n\t\t\t}\n\n\t\t\tenPassant := BitBoard(0)", New: "\t\t\tenPassant := BitBoard(0)",
			Expect: "C05.R4/IsPseudoLegal#capture-rank-distance"},
		Mutant{Name: "C05.R4-direction-test-one-colour", Prop: "C05", File: "board/board.go",
			Old: "if (from < to && b.STM == Black) || (from > to && b.STM == White) {", New: "if from < to && b.STM == Black {",
			Expect: "C05.R4/IsPseudoLegal#direction-white"},
		Mutant{Name: "C05.R4-capture-onto-own-ep-shadow", Prop: "C05", File: "board/board.go",
			Old: "if (b.Colors[b.STM.Flip()]|enPassant)&toBB == 0 {", New: "if (occ|enPassant)&toBB == 0 {",
			Expect: "C05.R4/IsPseudoLegal#capture-needs-target"},
		Mutant{Name: "C05.R5-promo-mask-widened", Prop: "C05", File: "move/move.go", Quick: true,
			Old: "promoMsk   = Move((1<<3 - 1) << 12)", New: "promoMsk   = Move((1<<4 - 1) << 11)",
			Expect: "C05.R5/"},
		Mutant{Name: "C05.R5-from-accessor-wrong-shift", Prop: "C05", File: "move/move.go",
			Old: "func (s Move) From() Square { return Square((s & fromMsk) >> fromShift) }", New: "func (s Move) From() Square { return Square((s & fromMsk) >> promoShift) }",
			Expect: "C05.R5/move.(Move).From#shift"},
		Mutant{Name: "C05.R6-picker-gate-removed", Prop: "C05", File: "picker/picker.go", Quick: true,
			Old: "if p.board.IsPseudoLegal(p.hashMove) {", New: "if p.hashMove != 0 {",
			Expect: "C05.R6/picker.(*Picker).Next#hash-move-gate"},
		Mutant{Name: "C05.R6-hash-move-played-directly", Prop: "C05", File: "search/search.go",
			Old: "\tfor pck.Next() {\n\t\tw := pck.Move()\n\t\tm := w.Move\n", New: "\tfor pck.Next() {\n\t\tw := pck.Move()\n\t\tm := w.Move\n\t\tif moveCnt == 0 && hashMove != 0 {\n\t\t\tm = hashMove\n\t\t}\n",
			Expect: "C05.R6/search.(*Search).alphaBeta#MakeMove@1#origin"},
	)
}

// moveOrigin follows a move value back to its origins; returns nil if every
// origin is a call to one of the source functions, else an offending leaf.
func moveOrigin(v ssa.Value, sources []string, seen map[ssa.Value]bool, depth int) ssa.Value {
	if v == nil || seen[v] {
		return nil
	}
	seen[v] = true
	if depth > 40 {
		return v
	}
	switch x := v.(type) {
	case *ssa.Call:
		nm := objName(calleeObj(x))
		for _, s := range sources {
			if nm == s {
				return nil
			}
		}
		return v
	case *ssa.Phi:
		for _, e := range x.Edges {
			if b := moveOrigin(e, sources, seen, depth+1); b != nil {
				return b
			}
		}
		return nil
	case *ssa.Extract:
		return moveOrigin(x.Tuple, sources, seen, depth+1)
	case *ssa.Convert:
		return moveOrigin(x.X, sources, seen, depth+1)
	case *ssa.ChangeType:
		return moveOrigin(x.X, sources, seen, depth+1)
	case *ssa.Field:
		return moveOrigin(x.X, sources, seen, depth+1)
	case *ssa.FieldAddr:
		return moveOrigin(x.X, sources, seen, depth+1)
	case *ssa.IndexAddr:
		return moveOrigin(x.X, sources, seen, depth+1)
	case *ssa.Index:
		return moveOrigin(x.X, sources, seen, depth+1)
	case *ssa.Slice:
		return moveOrigin(x.X, sources, seen, depth+1)
	case *ssa.UnOp:
		if x.Op == token.MUL {
			return moveOrigin(x.X, sources, seen, depth+1)
		}
		return v
	case *ssa.Alloc:
		// local variable: every value stored into it (or a part of it)
		var bad ssa.Value
		var stores func(addr ssa.Value, d int)
		stores = func(addr ssa.Value, d int) {
			if addr.Referrers() == nil || d > 3 || bad != nil {
				return
			}
			for _, r := range *addr.Referrers() {
				switch y := r.(type) {
				case *ssa.Store:
					if y.Addr == addr {
						if b := moveOrigin(y.Val, sources, seen, depth+1); b != nil {
							bad = b
						}
					}
				case *ssa.FieldAddr:
					stores(y, d+1)
				case *ssa.IndexAddr:
					if y.X == addr {
						stores(y, d+1)
					}
				}
			}
		}
		stores(x, 0)
		return bad
	}
	return v
}

// ---------- R7 generator target sets are exactly what the acceptor tests ----------
//
// For knights, bishops, rooks, queens and ordinary king steps IsPseudoLegal
// accepts (from holds an own piece of the kind) ∧ (to not own) ∧ (to on the
// piece's attack pattern). The generator must emit exactly that set: its target
// set is pattern & ^self & toMsk with no further restriction (the two halves'
// toMsk are complementary: C01.R2), and its source set self & Pieces[K] & fromMsk.

func andLeaves(v ssa.Value, neg bool, out *[]struct {
	V   ssa.Value
	Neg bool
}) {
	v = stripConv(v)
	if bo, ok := v.(*ssa.BinOp); ok && !neg {
		switch bo.Op {
		case token.AND:
			andLeaves(bo.X, false, out)
			andLeaves(bo.Y, false, out)
			return
		case token.AND_NOT:
			andLeaves(bo.X, false, out)
			orLeavesNeg(bo.Y, out)
			return
		}
	}
	if u, ok := v.(*ssa.UnOp); ok && u.Op == token.XOR && !neg {
		orLeavesNeg(u.X, out)
		return
	}
	*out = append(*out, struct {
		V   ssa.Value
		Neg bool
	}{v, neg})
}

// ^(a|b) == ^a & ^b
func orLeavesNeg(v ssa.Value, out *[]struct {
	V   ssa.Value
	Neg bool
}) {
	v = stripConv(v)
	if bo, ok := v.(*ssa.BinOp); ok && bo.Op == token.OR {
		orLeavesNeg(bo.X, out)
		orLeavesNeg(bo.Y, out)
		return
	}
	*out = append(*out, struct {
		V   ssa.Value
		Neg bool
	}{v, true})
}

func isGenField(v ssa.Value, field string) bool {
	v = stripConv(v)
	switch x := v.(type) {
	case *ssa.UnOp:
		if x.Op != token.MUL {
			return false
		}
		fa, ok := x.X.(*ssa.FieldAddr)
		if !ok {
			return false
		}
		fr, ok := asFieldAddr(fa)
		return ok && fr.Struct != nil && fr.Struct.Obj().Name() == "generator" && fr.Field.Name() == field
	case *ssa.Field:
		n, s := structOf(x.X.Type())
		return s != nil && n != nil && n.Obj().Name() == "generator" && s.Field(x.Field).Name() == field
	}
	return false
}

func c05R7(c *Ctx, p *Prog) {
	const rule = "C05.R7"
	pk := p.Pkg("movegen")
	if pk == nil {
		c.Anchor(rule, "package movegen")
		return
	}
	gt, _ := pk.Types.Scope().Lookup("generator").(*types.TypeName)
	if gt == nil {
		c.Anchor(rule, "movegen.generator")
		return
	}
	named := gt.Type().(*types.Named)
	n := 0
	for i := 0; i < named.NumMethods(); i++ {
		m := named.Method(i)
		sig := m.Type().(*types.Signature)
		nbb := 0
		for j := 0; j < sig.Params().Len(); j++ {
			if isBitBoardType(sig.Params().At(j).Type()) {
				nbb++
			}
		}
		if nbb < 2 {
			continue // pawn moves and castling have their own rules (R2, R4)
		}
		fn := p.Func(objName(m))
		if fn == nil {
			continue
		}
		// the target-mask parameter: last BitBoard parameter; source mask: the one before
		var bbParams []*ssa.Parameter
		for _, pr := range fn.Params {
			if isBitBoardType(pr.Type()) {
				bbParams = append(bbParams, pr)
			}
		}
		fromMsk, toMsk := bbParams[len(bbParams)-2], bbParams[len(bbParams)-1]
		var calls []*ssa.Call
		allInstrs(fn, func(in ssa.Instruction) {
			if call, ok := in.(*ssa.Call); ok {
				if _, ok := attackFns[objName(calleeObj(call))]; ok {
					calls = append(calls, call)
				}
			}
		})
		if len(calls) == 0 {
			c.Undec(rule, objName(m)+"#targets", fn.Pos(), "no attack pattern call found")
			continue
		}
		// top of the &-chain the (or-ed) pattern flows into
		var pat ssa.Value = calls[0]
		if refs := calls[0].Referrers(); refs != nil {
			for _, r := range *refs {
				if bo, ok := r.(*ssa.BinOp); ok && bo.Op == token.OR {
					pat = bo
				}
			}
		}
		_, top := andConjuncts(pat)
		var leaves []struct {
			V   ssa.Value
			Neg bool
		}
		andLeaves(top, false, &leaves)
		var sawPat, sawSelf, sawTo bool
		var extra []string
		for _, lf := range leaves {
			switch {
			case !lf.Neg && stripConv(lf.V) == stripConv(pat):
				sawPat = true
			case lf.Neg && isGenField(lf.V, "self"):
				sawSelf = true
			case !lf.Neg && stripConv(lf.V) == ssa.Value(toMsk):
				sawTo = true
			default:
				pre := ""
				if lf.Neg {
					pre = "^"
				}
				extra = append(extra, pre+lf.V.Name())
			}
		}
		n++
		key := objName(m) + "#targets"
		switch {
		case !sawPat || !sawSelf || !sawTo:
			c.Fail(rule, key, calls[0].Pos(), "generator target set is not pattern & ^self & toMsk (pattern: %v, own pieces excluded: %v, target mask applied: %v): it emits moves the acceptor rejects, or the two halves overlap", sawPat, sawSelf, sawTo)
		case len(extra) > 0:
			c.Fail(rule, key, calls[0].Pos(), "generator target set carries an extra restriction (%s) that IsPseudoLegal does not test: the acceptor accepts encodings the generator never emits (a transposition-table move of that shape is played although it is not a generated move, and the picker then suppresses nothing)", strings.Join(extra, ", "))
		default:
			c.Ok(rule, key, calls[0].Pos(), "target set is exactly attack pattern & ^self & toMsk")
		}
		// source set: phi seeded with self & Pieces[K] & fromMsk
		pcs := pieceConsts(p)
		okSrc := false
		allInstrs(fn, func(in ssa.Instruction) {
			bo, ok := in.(*ssa.BinOp)
			if !ok || bo.Op != token.AND {
				return
			}
			var ls []struct {
				V   ssa.Value
				Neg bool
			}
			andLeaves(bo, false, &ls)
			var s, pc, fm, other bool
			for _, lf := range ls {
				switch {
				case !lf.Neg && isGenField(lf.V, "self"):
					s = true
				case !lf.Neg && stripConv(lf.V) == ssa.Value(fromMsk):
					fm = true
				default:
					if _, ok := piecesLoadKind(lf.V, pcs); ok && !lf.Neg {
						pc = true
					} else {
						other = true
					}
				}
			}
			if s && pc && fm && !other {
				okSrc = true
			}
		})
		c.Check(okSrc, rule, objName(m)+"#sources", fn.Pos(), "source set is exactly self & Pieces[K] & fromMsk")
	}
	c.Floor(rule, n, 5, "piece generators with a target mask")
}

func init() {
	addMutants(
		Mutant{Name: "C05.R7-king-steps-next-to-enemy-king-not-generated", Prop: "C05", File: "movegen/movegen.go",
			Old: "\t\ttSqrs := attacks.KingMoves(from) & ^g.self & toMsk\n", New: "\t\tcontact := attacks.KingMoves((g.them & b.Pieces[King]).LowestSet())\n\n\t\ttSqrs := attacks.KingMoves(from) & ^(g.self | contact) & toMsk\n",
			Expect: "C05.R7/movegen.(generator).kingMoves#targets"},
		Mutant{Name: "C05.R7-knight-captures-own-pieces", Prop: "C05", File: "movegen/movegen.go",
			Old: "tSqrs := attacks.KnightMoves(from) & ^g.self & toMsk", New: "tSqrs := attacks.KnightMoves(from) & toMsk",
			Expect: "C05.R7/movegen.(generator).knightMoves#targets"},
	)
}

// c05R8: the generator decides WHICH moves exist by set algebra on bitboards (R7 for pieces, R4 for
// pawns, R2 for castling); once a source/target pair is in those sets the move is emitted. A
// per-move condition in front of ms.Alloc — a legality pre-filter, a "never useful" shortcut — makes
// the generator emit less than IsPseudoLegal accepts, so an encoding the acceptor lets through (a
// table move) is not a generated move and the picker's duplicate suppression no longer matches.
// Allowed in front of an emission: the loop tests of the set loops (bitboard != 0), counter loops over
// promotion pieces, tests of the side to move and of the recorded en-passant square.
func c05R8(c *Ctx, p *Prog) {
	const rule = "C05.R8"
	// castling emissions are conditional by nature (rights, empty path, safe path): R2 owns them
	castle := map[*ssa.Function]bool{}
	for _, fn := range p.OwnFuncs() {
		if relPkg(fnPkgPath(fn)) == "movegen" && len(callsIn(fn, "chess.Castle")) > 0 {
			castle[fn] = true
		}
	}
	n := 0
	for _, fn := range p.OwnFuncs() {
		if relPkg(fnPkgPath(fn)) != "movegen" || castle[fn] {
			continue
		}
		ord := 0
		for _, ci := range callsIn(fn, "move.(*Store).Alloc") {
			ord++
			n++
			key := fmt.Sprintf("%s#emit@%d", fnName(fn), ord)
			bad := ""
			for _, ce := range controllingConds(ci.Block()) {
				if c05LoopOrStateCond(ce.Cond) {
					continue
				}
				bad = p.Rel(ce.Cond.Pos())
				if bad == "" {
					bad = ce.Cond.String()
				}
			}
			// `if filter { continue }` in front of the emission: some iteration of the innermost loop gets round it
			if bad == "" {
				blk := ci.Block()
				var hdr *ssa.BasicBlock
				for d := blk; d != nil; d = d.Idom() {
					isHdr := false
					for _, pr := range d.Preds {
						if d.Dominates(pr) {
							isHdr = true
						}
					}
					if isHdr {
						hdr = d
						break
					}
				}
				if hdr != nil {
					for _, succ := range hdr.Succs {
						if !(succ == blk || succ.Dominates(blk)) || len(succ.Instrs) == 0 {
							continue
						}
						if r, _ := reachAvoidingTo(succ.Instrs[0], hdr.Instrs[0], func(x ssa.Instruction) bool { return x == ssa.Instruction(ci.(ssa.Instruction)) }); r {
							bad = "an iteration of the set loop can reach the next one without emitting (continue/skip in front of the emission)"
						}
					}
				}
			}
			if bad == "" {
				c.Ok(rule, key, ci.Pos(), "every source/target pair of the generator's sets is emitted (only loop tests, side-to-move and en-passant-square tests in front of the emission)")
			} else {
				c.Fail(rule, key, ci.Pos(), "the emission is guarded by a per-move condition (%s) that is neither a loop test nor a test of the side to move / en-passant square: the generator emits fewer moves than IsPseudoLegal accepts", bad)
			}
		}
	}
	c.Floor(rule, n, 3, "emission sites in the generator")
}

func c05LoopOrStateCond(v ssa.Value) bool {
	isBB := func(t types.Type) bool { return isBitBoardType(t) }
	switch x := v.(type) {
	case *ssa.BinOp:
		_, cx := stripConv(x.X).(*ssa.Const)
		_, cy := stripConv(x.Y).(*ssa.Const)
		other := x.X
		if cx {
			other = x.Y
		}
		if cx || cy {
			o := stripConv(other)
			// loop variable (bitboard set being stripped, counter being stepped)
			if ph, ok := o.(*ssa.Phi); ok {
				_ = ph
				return true
			}
			if bo, ok := o.(*ssa.BinOp); ok && (bo.Op == token.ADD || bo.Op == token.SUB) {
				if _, ok := stripConv(bo.X).(*ssa.Phi); ok {
					return true // rotated loop test on the stepped counter
				}
			}
			// state tests: side to move, recorded en-passant square
			if isFieldLoad(o, "Board.STM") || isFieldLoad(o, "Board.EnPassant") {
				return true
			}
			// a set computed before the loop compared with 0 (e.g. `if pushable == 0`) is set algebra, not per-move:
			// accept when the value does not depend on a loop variable
			if isBB(o.Type()) {
				dep := false
				for w := range backSlice(o, sliceOpts{ThroughCalls: true}) {
					if _, ok := w.(*ssa.Phi); ok {
						dep = true
					}
				}
				return !dep
			}
		}
	}
	return false
}
