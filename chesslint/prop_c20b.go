package main

// C20.R6: each open Chunk owns the buffer its reads refill. The client's workers hold several
// chunks of one Chunker open at once; every chunk keeps its own window (mapStart/mapEnd) over
// the buffer, so a buffer shared between chunks is refilled by one while another still slices
// lines out of it (lines delivered twice / garbage, no error). Every value stored into a Chunk
// field that is later handed to a Read/ReadAt as destination must be a slice made in the
// function that builds the Chunk.

import (
	"fmt"
	"go/token"
	"go/types"

	"golang.org/x/tools/go/ssa"
)

func c20R6(c *Ctx, p *Prog) {
	const rule = "C20.R6"
	// buffer fields: fields of Chunk passed as the destination of a read
	bufFields := map[string]bool{}
	for _, fn := range p.OwnFuncs() {
		if relPkg(fnPkgPath(fn)) != "tools/tuner/epd" {
			continue
		}
		allInstrs(fn, func(in ssa.Instruction) {
			ci, ok := in.(ssa.CallInstruction)
			if !ok {
				return
			}
			name := ""
			if f := calleeObj(ci); f != nil {
				name = f.Name()
			} else if ci.Common().IsInvoke() {
				name = ci.Common().Method.Name()
			}
			if name != "ReadAt" && name != "Read" && name != "ReadFull" {
				return
			}
			for _, a := range ci.Common().Args {
				if _, isSlice := a.Type().Underlying().(*types.Slice); !isSlice {
					continue
				}
				for v := range backSlice(a, sliceOpts{ThroughLoads: true}) {
					if fa, ok := v.(*ssa.FieldAddr); ok {
						if fr, ok := asFieldAddr(fa); ok && fr.Struct != nil && fr.Struct.Obj().Name() == "Chunk" {
							bufFields[fr.Name()] = true
						}
					}
				}
			}
		})
	}
	if len(bufFields) == 0 {
		c.Undec(rule, "Chunk#buffer", 0, "no Chunk field used as the destination of a file read found")
		return
	}
	n := 0
	for _, fn := range p.OwnFuncs() {
		if relPkg(fnPkgPath(fn)) != "tools/tuner/epd" {
			continue
		}
		ord := 0
		for name := range bufFields {
			for _, st := range fieldStores(fn, name) {
				ord++
				n++
				key := fmt.Sprintf("%s#%s-owned@%d", fnName(fn), name, ord)
				v := stripConv(st.Val)
				for {
					if sl, ok := v.(*ssa.Slice); ok {
						v = stripConv(sl.X)
						continue
					}
					break
				}
				switch x := v.(type) {
				case *ssa.MakeSlice:
					c.Ok(rule, key, st.Pos(), "the read buffer of the new chunk is allocated for it")
				case *ssa.Alloc:
					c.Ok(rule, key, st.Pos(), "the read buffer of the new chunk is a fresh array")
				default:
					shared := ""
					for w := range backSlice(v, sliceOpts{ThroughLoads: true}) {
						switch y := w.(type) {
						case *ssa.FieldAddr:
							if fr, ok := asFieldAddr(y); ok {
								shared = fr.Name()
							}
						case *ssa.Global:
							shared = y.Name()
						}
					}
					if shared != "" {
						c.Fail(rule, key, st.Pos(), "the chunk's read buffer is taken from %s, which outlives the chunk: all chunks opened from it refill and slice the same memory, so with two chunks open at once lines are delivered from the other chunk's window", shared)
					} else {
						c.Undec(rule, key, st.Pos(), "origin of the chunk's read buffer not recognised (%T)", x)
					}
				}
			}
		}
	}
	c.Floor(rule, n, 1, "stores to a chunk's read buffer")
}

func init() {
	addMutants(
		Mutant{Name: "C20.R6-chunks-share-one-buffer", Prop: "C20", File: "tools/tuner/epd/chunker.go", Quick: true,
			Old: "\tmapBytes := make([]byte, backingBytes)\n", New: "\tmapBytes := sharedBacking\n",
			Old2: "type lineAddr struct {", New2: "var sharedBacking = make([]byte, backingBytes)\n\ntype lineAddr struct {", File2: "tools/tuner/epd/chunker.go",
			Expect: "C20.R6/"},
	)
}

// C20.R7: Chunk.Read withholds a line only when the chunk is exhausted or the file read itself failed. Any other
// error return (a "short read" guard on the byte count of the refill) must not be taken when the refill delivered
// the whole line: the line's extent addr.end-addr.start already includes the '\n', so a count equal to it is a
// complete read. A guard that also fires on equality drops the last line of the file (and every line that a
// refill ends on) from the epoch.
func c20R7(c *Ctx, p *Prog) {
	const rule = "C20.R7"
	root := p.Func("tools/tuner/epd.(*Chunk).Read")
	if root == nil {
		c.Anchor(rule, "epd.(*Chunk).Read")
		return
	}
	n := 0
	done := map[*ssa.Function]bool{}
	var analyse func(fn *ssa.Function, depth int)
	analyse = func(fn *ssa.Function, depth int) {
		if done[fn] {
			return
		}
		done[fn] = true
		c20R7fn(c, p, rule, fn, root, &n, func(h *ssa.Function) {
			if depth < 3 {
				analyse(h, depth+1)
			}
		})
	}
	analyse(root, 0)
	if n == 0 {
		c.OkTrivial(rule, "Read#refusal", root.Pos(), "Read withholds a line only on exhaustion (io.EOF) or with the error of the file read itself")
	}
}

// c20R7fn: the error returns of fn (Read itself or a helper of package epd whose error Read hands on).
func c20R7fn(c *Ctx, p *Prog, rule string, fn, root *ssa.Function, n *int, follow func(*ssa.Function)) {
	// the refill: a ReadAt/Read call whose count result is used
	var cnts []ssa.Value
	var refillErr []ssa.Value
	allInstrs(fn, func(in ssa.Instruction) {
		ex, ok := in.(*ssa.Extract)
		if !ok {
			return
		}
		call, ok := ex.Tuple.(*ssa.Call)
		if !ok {
			return
		}
		name := ""
		if f := calleeObj(call); f != nil {
			name = f.Name()
		} else if call.Call.IsInvoke() {
			name = call.Call.Method.Name()
		}
		if name != "ReadAt" && name != "Read" && name != "ReadFull" {
			return
		}
		if ex.Index == 0 {
			cnts = append(cnts, ex)
		} else {
			refillErr = append(refillErr, ex)
		}
	})
	isCnt := func(v ssa.Value) bool {
		v = stripConv(v)
		for _, k := range cnts {
			if v == k {
				return true
			}
		}
		return false
	}
	// extent: addr.end - addr.start (fields `end` and `start` of one lineAddr value)
	isExtent := func(v ssa.Value) bool {
		bo, ok := stripConv(v).(*ssa.BinOp)
		if !ok || bo.Op != token.SUB {
			return false
		}
		fe, be := structFieldOf(bo.X)
		fs, bs := structFieldOf(bo.Y)
		if fe < 0 || fs < 0 || be == nil || bs == nil {
			return false
		}
		st, ok := be.Type().Underlying().(*types.Struct)
		if !ok || fe >= st.NumFields() || fs >= st.NumFields() {
			return false
		}
		return st.Field(fe).Name() == "end" && st.Field(fs).Name() == "start" && sameValue(be, bs, 0)
	}
	errIx := fn.Signature.Results().Len() - 1
	allInstrs(fn, func(in ssa.Instruction) {
		ret, ok := in.(*ssa.Return)
		if !ok || errIx < 0 || len(ret.Results) != errIx+1 {
			return
		}
		ev := returnedValue(ret, errIx)
		if k, isc := ev.(*ssa.Const); isc && k.Value == nil {
			return
		}
		// the error of a helper of this package, handed on: the helper's own refusals are examined in its body
		handed := false
		for x := range backSlice(ev, sliceOpts{}) {
			var call *ssa.Call
			switch y := x.(type) {
			case *ssa.Call:
				call = y
			case *ssa.Extract:
				call, _ = y.Tuple.(*ssa.Call)
			}
			if call == nil {
				continue
			}
			if h := call.Call.StaticCallee(); h != nil && isOwn(h) && h.Blocks != nil && relPkg(fnPkgPath(h)) == relPkg(fnPkgPath(root)) {
				follow(h)
				handed = true
			}
		}
		if handed {
			return
		}
		if ld, ok := stripConv(ev).(*ssa.UnOp); ok && ld.Op == token.MUL {
			if g, ok := ld.X.(*ssa.Global); ok && g.Pkg != nil && g.Pkg.Pkg.Path() == "io" && g.Name() == "EOF" {
				return // exhaustion (decided by C20.R5)
			}
		}
		for x := range backSlice(ev, sliceOpts{}) {
			for _, re := range refillErr {
				if x == re {
					return // the file's own error, handed on
				}
			}
			if g, ok := x.(*ssa.Global); ok && g.Pkg != nil && g.Pkg.Pkg.Path() == "io" && g.Name() == "EOF" {
				return // exhaustion (decided by C20.R5)
			}
		}
		*n++
		key := fmt.Sprintf("Read#refusal@%d", *n)
		// which tests of the refill's byte count lead here?
		verdict, why := "undec", "the condition under which Read refuses the line is not a recognised test of the refill's byte count against the line's extent"
		for _, ce := range controllingConds(ret.Block()) {
			v, truth := ce.Cond, ce.True
			for {
				if u, ok := v.(*ssa.UnOp); ok && u.Op == token.NOT {
					v, truth = u.X, !truth
					continue
				}
				break
			}
			bo, ok := v.(*ssa.BinOp)
			if !ok {
				continue
			}
			op := bo.Op
			switch {
			case isCnt(bo.X) && isExtent(bo.Y):
			case isCnt(bo.Y) && isExtent(bo.X):
				op = swapCmp(op)
			default:
				continue
			}
			if !truth {
				op = negCmp(op)
			}
			// op relates cnt to extent on the way to the refusal; is it satisfied by cnt == extent?
			switch op {
			case token.LSS, token.NEQ, token.GTR:
				if op == token.LSS {
					verdict, why = "ok", "the line is refused only when the refill delivered fewer bytes than the line's extent"
				}
			case token.LEQ, token.EQL, token.GEQ:
				verdict, why = "fail", "Read refuses the line when the refill delivered exactly addr.end-addr.start bytes; that extent already includes the newline, so the read is complete: the file's last line (and any line a refill ends on) is never delivered"
			}
		}
		switch verdict {
		case "ok":
			c.Ok(rule, key, ret.Pos(), "%s", why)
		case "fail":
			c.Fail(rule, key, ret.Pos(), "%s", why)
		default:
			c.Undec(rule, key, ret.Pos(), "%s", why)
		}
	})
}

func init() {
	addMutants(
		Mutant{Name: "C20.R7-short-read-guard-fires-on-exact-read", Prop: "C20", File: "tools/tuner/epd/chunker.go", Quick: true,
			Old: "\t\tc.mapStart = addr.start\n\t\tc.mapEnd = addr.start + int64(cnt)\n", New: "\t\tif int64(cnt) <= addr.end-addr.start {\n\t\t\treturn nil, ErrTruncatedRead\n\t\t}\n\t\tc.mapStart = addr.start\n\t\tc.mapEnd = addr.start + int64(cnt)\n",
			Expect: "C20.R7/Read#refusal@1"},
	)
}
