package main

import (
	"fmt"
	"go/token"
	"strings"

	"golang.org/x/tools/go/ssa"
)

func init() {
	register(&Property{
		ID: "C09",
		Explain: "Static necessary conditions for 'fast checkmate and stalemate tests agree with the absence of legal moves'. " +
			"R1: piece–attack pairing (PA.1 reverse form, PA.2 forward form, PA.4 pawn colour) over IsCheckmate, IsStalemate, Attackers, Block, IsAttacked. " +
			"R2: every 'pinned' decision in the two functions is taken from BOTH a diagonal test (bishop rays from the own king, against bishops/queens) and a lateral test (rook rays, against rooks/queens) on the SAME modified occupancy and the same opponent set; the two deliberate one-sided tests (bishop loop / rook loop) use the ray kind the piece cannot move along. " +
			"R3: IsCheckmate is called only under InCheck(STM) == true and IsStalemate only under false, on the same board with no move made in between (otherwise the attacker's square is 64 and InBetween[k][64] panics). " +
			"R4: king flight squares are tested with the king removed from the occupancy, against the opponent. " +
			"Not decided: agreement of the 250-line case analysis with move generation for concrete positions.",
		Assume: []string{"go/ssa models the program faithfully"},
		Run:    runC09,
	})
}

func runC09(c *Ctx) {
	p := c.need("default")
	if p == nil {
		return
	}
	// the two tests, the attack helpers they use, and every board-package helper reachable from them
	var scopeRoots []*ssa.Function
	for _, n := range []string{"board.(*Board).IsCheckmate", "board.(*Board).IsStalemate", "board.(*Board).Attackers", "board.(*Board).Block", "board.(*Board).IsAttacked"} {
		if fn := p.Func(n); fn != nil {
			scopeRoots = append(scopeRoots, fn)
		} else {
			c.Anchor("C09.R1.PA1", n)
		}
	}
	inScope := map[*ssa.Function]bool{}
	for _, fn := range p.closure(scopeRoots, func(f *ssa.Function) bool { return relPkg(fnPkgPath(f)) != "board" }) {
		if relPkg(fnPkgPath(fn)) == "board" {
			inScope[fn] = true
		}
	}
	scope := paScope(func(fn *ssa.Function) bool { return inScope[fn] })
	c.Floor("C09.R1.PA1", pa1(c, p, "C09.R1.PA1", scope), 12, "attack-pattern ∩ piece-set sites")
	c.Floor("C09.R1.PA2", pa2(c, p, "C09.R1.PA2", inFuncs("board.(*Board).IsStalemate")), 4, "mobility sites whose origin square comes from a piece set")
	c.Floor("C09.R1.PA4", pa4(c, p, "C09.R1.PA4", scope), 4, "pawn-capture colour sites")
	c09R2(c, p)
	c09R3(c, p)
	c09R4(c, p)
}

// pinTest is one `F(kingSq, occ') & pieces & opp != 0` condition.
type pinTest struct {
	Call  *ssa.Call
	F     string
	Other []ssa.Value // conjuncts that are neither piece sets nor exclusions
	Cond  *ssa.BinOp
}

func parsePinTest(cond ssa.Value, pcs map[int64]string) (*pinTest, bool) {
	bo, ok := cond.(*ssa.BinOp)
	if !ok || (bo.Op != token.NEQ && bo.Op != token.EQL) {
		return nil, false
	}
	if k, isc := constOf(bo.Y); !isc || k != 0 {
		return nil, false
	}
	var leaves []ssa.Value
	flattenAnd(bo.X, &leaves)
	pt := &pinTest{Cond: bo}
	for _, lf := range leaves {
		lf = stripConv(lf)
		if call, ok := lf.(*ssa.Call); ok {
			if f, ok := attackFns[objName(calleeObj(call))]; ok && (f == "Bishop" || f == "Rook") {
				pt.Call, pt.F = call, f
				continue
			}
		}
		if u, ok := lf.(*ssa.UnOp); ok && u.Op == token.XOR {
			continue // exclusion
		}
		if _, ok := pureOrOfPieces(lf, pcs); ok {
			continue // piece set (PA.1 checks it)
		}
		pt.Other = append(pt.Other, lf)
	}
	return pt, pt.Call != nil
}

// paramBindings: for a parameter of a chess-3 helper, the arguments passed at every static call site
// (transitively); for anything else the value itself.
func paramBindings(p *Prog, v ssa.Value, depth int) []ssa.Value {
	par, ok := v.(*ssa.Parameter)
	if !ok || depth > 3 {
		return []ssa.Value{v}
	}
	fn := par.Parent()
	idx := -1
	for i, q := range fn.Params {
		if q == par {
			idx = i
		}
	}
	var out []ssa.Value
	for _, caller := range p.OwnFuncs() {
		allInstrs(caller, func(in ssa.Instruction) {
			ci, ok := in.(ssa.CallInstruction)
			if !ok || ci.Common().StaticCallee() != fn || idx >= len(ci.Common().Args) {
				return
			}
			out = append(out, paramBindings(p, ci.Common().Args[idx], depth+1)...)
		})
	}
	if len(out) == 0 {
		return []ssa.Value{v}
	}
	return out
}

func kindsThroughParams(p *Prog, v ssa.Value, pcs map[int64]string) []string {
	set := map[string]bool{}
	var roots []ssa.Value
	for x := range backSlice(v, sliceOpts{ThroughCalls: true}) {
		if _, ok := x.(*ssa.Parameter); ok {
			roots = append(roots, paramBindings(p, x, 0)...)
		}
	}
	roots = append(roots, v)
	for _, r := range roots {
		for _, k := range sourceKinds(r, pcs) {
			set[k] = true
		}
	}
	return sortedKeys(set)
}

// kingRay is one slider-ray lookup from the own king's square on some occupancy, intersected with enemy sliders.
type kingRay struct {
	Fn    *ssa.Function
	Call  *ssa.Call
	F     string
	Other []ssa.Value
	Ord   int
}

// c09R2: every decision "moving this piece exposes the king" looks along BOTH ray kinds. For each
// slider-ray lookup from the king's square there is, in the same function, the lookup of the other
// kind from the same square on the same occupancy against the same enemy set — except the two
// deliberate one-sided tests that guard the mobility of a bishop (rook rays only) / rook (bishop rays only).
func c09R2(c *Ctx, p *Prog) {
	const rule = "C09.R2"
	pcs := pieceConsts(p)
	var roots []*ssa.Function
	for _, spec := range []string{"board.(*Board).IsCheckmate", "board.(*Board).IsStalemate"} {
		fn := p.Func(spec)
		if fn == nil {
			c.Anchor(rule, spec)
			continue
		}
		roots = append(roots, fn)
	}
	isRoot := func(fn *ssa.Function) bool {
		for _, r := range roots {
			if r == fn {
				return true
			}
		}
		return false
	}
	total, oneSided := 0, 0
	// the two tests and the helpers private to them (a helper with other callers is a general attack query, checked by R1)
	private := map[*ssa.Function]bool{}
	for _, fn := range p.closure(roots, func(f *ssa.Function) bool { return relPkg(fnPkgPath(f)) != "board" }) {
		if relPkg(fnPkgPath(fn)) == "board" {
			private[fn] = true
		}
	}
	for changed := true; changed; {
		changed = false
		for _, caller := range p.OwnFuncs() {
			if private[caller] {
				continue
			}
			allInstrs(caller, func(in ssa.Instruction) {
				if ci, ok := in.(ssa.CallInstruction); ok {
					if callee := ci.Common().StaticCallee(); callee != nil && private[callee] && !isRoot(callee) {
						delete(private, callee)
						changed = true
					}
				}
			})
		}
	}
	for _, fn := range p.closure(roots, func(f *ssa.Function) bool { return relPkg(fnPkgPath(f)) != "board" }) {
		if !private[fn] {
			continue
		}
		var rays []*kingRay
		ord := map[string]int{}
		allInstrs(fn, func(in ssa.Instruction) {
			call, ok := in.(*ssa.Call)
			if !ok {
				return
			}
			f, ok := attackFns[objName(calleeObj(call))]
			if !ok || (f != "Bishop" && f != "Rook") {
				return
			}
			ks := kindsThroughParams(p, call.Call.Args[0], pcs)
			if len(ks) != 1 || ks[0] != "King" {
				return
			}
			// the conjunction this lookup is part of: only lookups intersected with a piece set are pin/check tests
			conj, _ := andConjuncts(call)
			var leaves []ssa.Value
			for _, cj := range conj {
				flattenAnd(cj, &leaves)
			}
			kr := &kingRay{Fn: fn, Call: call, F: f}
			hasSet := false
			for _, lf := range leaves {
				lf = stripConv(lf)
				if lf == ssa.Value(call) {
					continue
				}
				if u, ok := lf.(*ssa.UnOp); ok && u.Op == token.XOR {
					continue
				}
				if _, ok := pureOrOfPieces(lf, pcs); ok {
					hasSet = true
					continue
				}
				kr.Other = append(kr.Other, lf)
			}
			if !hasSet {
				return
			}
			ord[f]++
			kr.Ord = ord[f]
			rays = append(rays, kr)
		})
		paired := map[*kingRay]*kingRay{}
		for _, a := range rays {
			for _, b := range rays {
				if a.F == b.F || paired[a] != nil || paired[b] != nil {
					continue
				}
				if sameValue(a.Call.Call.Args[0], b.Call.Call.Args[0], 0) && sameValue(a.Call.Call.Args[1], b.Call.Call.Args[1], 0) {
					paired[a], paired[b] = b, a
				}
			}
		}
		// one-sided tests: an unpaired king-ray test guarding the mobility lookup of a bishop / rook
		guardsSlider := map[*kingRay]bool{}
		allInstrs(fn, func(in ssa.Instruction) {
			call, ok := in.(*ssa.Call)
			if !ok {
				return
			}
			f, ok := attackFns[objName(calleeObj(call))]
			if !ok || (f != "Bishop" && f != "Rook") {
				return
			}
			sk := sourceKinds(call.Call.Args[0], pcs)
			if len(sk) != 1 || (sk[0] != "Bishop" && sk[0] != "Rook") {
				return
			}
			for _, ce := range controllingConds(call.Block()) {
				pt, ok := parsePinTest(ce.Cond, pcs)
				if !ok {
					continue
				}
				var kr *kingRay
				for _, r := range rays {
					if r.Call == pt.Call {
						kr = r
					}
				}
				if kr == nil || paired[kr] != nil {
					continue
				}
				guardsSlider[kr] = true
				oneSided++
				key := fmt.Sprintf("%s#paralysed-%s", fnName(fn), strings.ToLower(sk[0]))
				notPinnedEdge := ce.True == (pt.Cond.Op == token.EQL)
				other := map[string]string{"Bishop": "Rook", "Rook": "Bishop"}[sk[0]]
				c.Check(pt.F == other && notPinnedEdge, rule, key, call.Pos(), "a %s's mobility is consulted only when no %s-ray pin (the kind it cannot slide along) holds it; found %s-ray test, mobility on the not-pinned edge: %v", sk[0], other, pt.F, notPinnedEdge)
			}
		})
		for _, a := range rays {
			key := fmt.Sprintf("%s#pinned:%s@%d", fnName(fn), a.F, a.Ord)
			if b := paired[a]; b != nil {
				if a.F != "Bishop" {
					continue // reported once, from the diagonal side
				}
				total++
				okOpp := len(a.Other) == len(b.Other)
				if okOpp {
					for i := range a.Other {
						if !sameValue(a.Other[i], b.Other[i], 0) {
							okOpp = false
						}
					}
				}
				if okOpp && len(a.Other) == 1 {
					// the enemy set: derived from Colors[STM.Flip()] (through helper parameters)
					found := false
					for _, root := range paramBindings(p, a.Other[0], 0) {
						srcs := []ssa.Value{root}
						for x := range backSlice(root, sliceOpts{}) {
							if _, isPar := x.(*ssa.Parameter); isPar {
								srcs = append(srcs, paramBindings(p, x, 0)...)
							}
						}
						for _, s := range srcs {
							for v := range backSlice(s, sliceOpts{}) {
								if ce, ok := coloursLoad(v); ok && ce == (colourExpr{"STM", true}) {
									found = true
								}
							}
						}
					}
					if !found {
						c.Fail(rule, key, a.Call.Pos(), "the two pin tests are not restricted to a piece set derived from Colors[STM.Flip()]")
						continue
					}
				}
				if !okOpp {
					c.Fail(rule, key, a.Call.Pos(), "the diagonal and the lateral pin test are not restricted to the same opponent piece set")
					continue
				}
				c.Ok(rule, key, a.Call.Pos(), "diagonal and lateral test from the king's square on the same simulated occupancy against the same opponent set")
				continue
			}
			if guardsSlider[a] {
				continue
			}
			total++
			// why is there no partner?
			why, decided := "", true
			for _, b := range rays {
				if b.F != a.F && sameValue(a.Call.Call.Args[0], b.Call.Call.Args[0], 0) && paired[b] == nil {
					why = fmt.Sprintf("the %s-ray test of the same decision (%s) uses a different occupancy: one of them does not see the simulated move", b.F, p.Rel(b.Call.Pos()))
				}
			}
			if why == "" {
				why = fmt.Sprintf("exposure of the king is decided from %s rays only; a pin can come along a diagonal (bishop/queen) or along a rank/file (rook/queen) — both tests are needed", a.F)
				// the partner may live in another helper that receives the same occupancy
				allInstrs(fn, func(in ssa.Instruction) {
					ci, ok := in.(ssa.CallInstruction)
					if !ok || ci.Common().StaticCallee() == nil || !isOwn(ci.Common().StaticCallee()) || relPkg(fnPkgPath(ci.Common().StaticCallee())) == "attacks" {
						return
					}
					for _, arg := range ci.Common().Args {
						if sameValue(arg, a.Call.Call.Args[1], 0) {
							decided = false
						}
					}
				})
				if !isRoot(fn) {
					decided = false
				}
			}
			if decided {
				c.Fail(rule, key, a.Call.Pos(), "%s", why)
			} else {
				c.Undec(rule, key, a.Call.Pos(), "no %s-ray partner in this function; it may be computed by another helper (%s)", map[string]string{"Bishop": "Rook", "Rook": "Bishop"}[a.F], why)
			}
		}
	}
	c.Floor(rule+".pinned", total, 2, "two-sided pin decisions reachable from IsCheckmate/IsStalemate")
	c.Floor(rule+".one-sided", oneSided, 2, "one-sided paralysis tests in IsStalemate")
}

func c09R3(c *Ctx, p *Prog) {
	const rule = "C09.R3"
	n := 0
	for _, fn := range p.OwnFuncs() {
		for _, tc := range []struct {
			spec string
			want bool
		}{{"board.(*Board).IsCheckmate", true}, {"board.(*Board).IsStalemate", false}} {
			for i, ci := range callsIn(fn, tc.spec) {
				n++
				key := fmt.Sprintf("%s#%s@%d", fnName(fn), tc.spec[strings.LastIndex(tc.spec, ".")+1:], i+1)
				var ic *ssa.Call
				for _, ce := range controllingConds(ci.Block()) {
					v, pol := ce.Cond, ce.True
					if u, ok := v.(*ssa.UnOp); ok && u.Op == token.NOT {
						v, pol = u.X, !pol
					}
					call, ok := v.(*ssa.Call)
					if !ok || objName(calleeObj(call)) != "board.(*Board).InCheck" || pol != tc.want {
						continue
					}
					if sameValue(call.Call.Args[0], ci.Common().Args[0], 0) && isFieldLoad(stripConv(call.Call.Args[1]), "Board.STM") {
						ic = call
					}
				}
				if ic == nil {
					c.Fail(rule, key, ci.Pos(), "%s is called without being dominated by InCheck(STM) == %v on the same board: its precondition is not established (IsCheckmate with no checker indexes InBetween[king][64] and panics)", tc.spec, tc.want)
					continue
				}
				// no move made between the test and the call
				moved := ""
				allInstrs(fn, func(m ssa.Instruction) {
					if moved != "" {
						return
					}
					for _, s := range []string{"board.(*Board).MakeMove", "board.(*Board).UndoMove", "board.(*Board).MakeNullMove", "board.(*Board).UndoNullMove"} {
						if isCallTo(m, s) {
							a, _ := reachAvoiding(ic, m, func(x ssa.Instruction) bool { return x == ci.(ssa.Instruction) })
							b, _ := reachAvoiding(m, ci.(ssa.Instruction), func(x ssa.Instruction) bool { return x == ssa.Instruction(ic) })
							if a && b {
								moved = p.Rel(m.Pos())
							}
						}
					}
				})
				c.Check(moved == "", rule, key, ci.Pos(), "called under InCheck(STM) == %v with the position unchanged since the test %s", tc.want, moved)
			}
		}
	}
	c.Floor(rule, n, 2, "call sites of IsCheckmate/IsStalemate")
}

func c09R4(c *Ctx, p *Prog) {
	const rule = "C09.R4"
	pcs := pieceConsts(p)
	n := 0
	for _, spec := range []string{"board.(*Board).IsCheckmate", "board.(*Board).IsStalemate"} {
		fn := p.Func(spec)
		if fn == nil {
			c.Anchor(rule, spec)
			continue
		}
		for _, ci := range callsIn(fn, "board.(*Board).IsAttacked") {
			a := ci.Common().Args
			if len(a) != 4 {
				continue
			}
			// target derived from KingMoves(kingSq)
			fromKingMoves := false
			for v := range backSlice(a[3], sliceOpts{}) {
				if isCallValueTo(v, "attacks.KingMoves") {
					fromKingMoves = true
				}
			}
			if !fromKingMoves {
				continue
			}
			n++
			key := spec + "#king-flights"
			okOcc := false
			if bo, ok := stripConv(a[2]).(*ssa.BinOp); ok {
				var excl ssa.Value
				switch bo.Op {
				case token.AND_NOT:
					excl = bo.Y
				case token.AND:
					for _, s := range []ssa.Value{bo.X, bo.Y} {
						if u, ok := s.(*ssa.UnOp); ok && u.Op == token.XOR {
							excl = u.X
						}
					}
				}
				if excl != nil {
					ks := map[string]bool{}
					var cols []colourExpr
					for v := range backSlice(excl, sliceOpts{}) {
						if k, ok := piecesLoadKind(v, pcs); ok {
							ks[k] = true
						}
						if ce, ok := coloursLoad(v); ok {
							cols = append(cols, ce)
						}
					}
					okOcc = len(ks) == 1 && ks["King"] && len(cols) == 1 && cols[0] == (colourExpr{"STM", false})
				}
			}
			by, okBy := normColour(a[1])
			c.Check(okOcc, rule, key+"#king-removed", ci.Pos(), "king destinations are tested with the own king removed from the occupancy (a slider's ray continues through the square the king leaves)")
			c.Check(okBy && by == (colourExpr{"STM", true}), rule, key+"#by-opponent", ci.Pos(), "king destinations are tested against attacks by STM.Flip()")
		}
	}
	c.Floor(rule, n, 2, "king-flight attack tests")
}

func init() {
	addMutants(
		Mutant{Name: "C09.R1-attackers-king-pattern-with-knights", Prop: "C09", File: "board/attacks.go",
			Old: "sub := attacks.KingMoves(sq) & b.Pieces[King]", New: "sub := attacks.KingMoves(sq) & b.Pieces[Knight]",
			Expect: "C09.R1.PA1/board.(*Board).Attackers#KingMoves"},
		Mutant{Name: "C09.R1-block-forgets-queen-on-files", Prop: "C09", File: "board/attacks.go", Quick: true,
			Old: "\t\tsub |= attacks.RookMoves(sq, occ) & (b.Pieces[Rook] | b.Pieces[Queen])\n\n\t\tres |= sub & blockers", New: "\t\tsub |= attacks.RookMoves(sq, occ) & b.Pieces[Rook]\n\n\t\tres |= sub & blockers",
			Expect: "C09.R1.PA1/board.(*Board).Block#RookMoves"},
		Mutant{Name: "C09.R1-stalemate-ep-colour-slip", Prop: "C09", File: "board/attacks.go",
			Old: "pawns := attacks.PawnCaptureMoves(enPassantBB, b.STM.Flip()) & b.Pieces[Pawn] & me", New: "pawns := attacks.PawnCaptureMoves(enPassantBB, b.STM) & b.Pieces[Pawn] & me",
			Expect: "C09.R1.PA4/board.(*Board).IsStalemate#PawnCaptureMoves"},
		Mutant{Name: "C09.R1-stalemate-rook-mobility-with-bishop-rays", Prop: "C09", File: "board/attacks.go",
			Old: "\t\t\tif (attacks.RookMoves(sq, nocc) & ^me) != 0 {", New: "\t\t\tif (attacks.BishopMoves(sq, nocc) & ^me) != 0 {",
			Expect: "C09.R1.PA2/board.(*Board).IsStalemate#BishopMoves"},
		Mutant{Name: "C09.R2-knight-pin-forgets-lateral", Prop: "C09", File: "board/attacks.go", Quick: true,
			Old: "\t\t\tif attacks.BishopMoves(kingSq, nocc)&(b.Pieces[Bishop]|b.Pieces[Queen])&opp != 0 {\n\t\t\t\tpinned = true\n\t\t\t} else if attacks.RookMoves(kingSq, nocc)&(b.Pieces[Rook]|b.Pieces[Queen])&opp != 0 {\n\t\t\t\tpinned = true\n\t\t\t}\n\t\t}\n\n\t\tif !pinned && (attacks.KnightMoves(sq)",
			New: "\t\t\tif attacks.BishopMoves(kingSq, nocc)&(b.Pieces[Bishop]|b.Pieces[Queen])&opp != 0 {\n\t\t\t\tpinned = true\n\t\t\t}\n\t\t}\n\n\t\tif !pinned && (attacks.KnightMoves(sq)",
			Expect: "C09.R2/board.(*Board).IsStalemate#pinned"},
		Mutant{Name: "C09.R2-blocker-pin-on-stale-occupancy", Prop: "C09", File: "board/attacks.go",
			Old: "\t\t} else if attacks.RookMoves(kingSq, nocc)&(b.Pieces[Rook]|b.Pieces[Queen])&opp != 0 {\n\t\t\tpinned = true\n\t\t}\n\n\t\tif !pinned {\n\t\t\treturn false\n\t\t}\n\t}\n\n\treturn true\n}\n\n// IsStalemate", New: "\t\t} else if attacks.RookMoves(kingSq, occ)&(b.Pieces[Rook]|b.Pieces[Queen])&opp != 0 {\n\t\t\tpinned = true\n\t\t}\n\n\t\tif !pinned {\n\t\t\treturn false\n\t\t}\n\t}\n\n\treturn true\n}\n\n// IsStalemate",
			Expect: "C09.R2/board.(*Board).IsCheckmate#pinned"},
		Mutant{Name: "C09.R2-bishop-paralysis-tested-on-diagonals", Prop: "C09", File: "board/attacks.go",
			Old: "\t\tif (attacks.RookMoves(kingSq, nocc) & (b.Pieces[Rook] | b.Pieces[Queen]) & opp) == 0 {\n\t\t\tif (attacks.BishopMoves(sq, nocc) & ^me) != 0 {", New: "\t\tif (attacks.BishopMoves(kingSq, nocc) & (b.Pieces[Bishop] | b.Pieces[Queen]) & opp) == 0 {\n\t\t\tif (attacks.BishopMoves(sq, nocc) & ^me) != 0 {",
			Expect: "C09.R2/board.(*Board).IsStalemate#paralysed-bishop"},
		Mutant{Name: "C09.R3-stalemate-test-also-in-check", Prop: "C09", File: "search/search.go", Quick: true,
			Old: "\tif inCheck {\n\t\tif b.IsCheckmate() {\n\t\t\treturn -Inf + Score(ply)\n\t\t}\n\t} else {\n\t\tif b.IsStalemate() {\n\t\t\treturn 0\n\t\t}\n\t}\n", New: "\tif inCheck {\n\t\tif b.IsCheckmate() {\n\t\t\treturn -Inf + Score(ply)\n\t\t}\n\t}\n\tif b.IsStalemate() {\n\t\treturn 0\n\t}\n",
			Expect: "C09.R3/search.(*Search).quiescence#IsStalemate"},
		Mutant{Name: "C09.R3-checkmate-test-unguarded", Prop: "C09", File: "search/search.go",
			Old: "\tif inCheck {\n\t\tif b.IsCheckmate() {", New: "\tif inCheck || standPatEarly(b) {\n\t\tif b.IsCheckmate() {",
			File2: "search/search.go", Old2: "func getNextMove(", New2: "func standPatEarly(b *board.Board) bool { return b.FiftyCnt > 90 }\n\nfunc getNextMove(",
			Expect: "C09.R3/search.(*Search).quiescence#IsCheckmate"},
		Mutant{Name: "C09.R4-flights-with-king-shielding", Prop: "C09", File: "board/attacks.go", Quick: true,
			Old: "\t\tif !b.IsAttacked(b.STM.Flip(), occ&^king, to) {", New: "\t\tif !b.IsAttacked(b.STM.Flip(), occ, to) {",
			Expect: "C09.R4/board.(*Board).IsCheckmate#king-flights#king-removed"},
		Mutant{Name: "C09.R4-stalemate-flights-own-colour", Prop: "C09", File: "board/attacks.go",
			Old: "\t\tif !b.IsAttacked(b.STM.Flip(), occ&^king, kMove) {", New: "\t\tif !b.IsAttacked(b.STM, occ&^king, kMove) {",
			Expect: "C09.R4/board.(*Board).IsStalemate#king-flights#by-opponent"},
	)
}
