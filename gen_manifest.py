#!/usr/bin/env python3
"""Generates MANIFEST.json from the table below (kept next to the checker so the
two cannot drift silently: `chesslint list` must equal the claimed ids)."""
import json, subprocess, sys, os

HERE = os.path.dirname(os.path.abspath(__file__))

# id -> (technique, level text, level note, design ref)
CLAIMS = {
 "C06": ("typestate dataflow over SSA CFGs (make/undo, frame, stack pairing on every path), dominance (state cleared before search), origin dataflow of the returned move, taint from strconv to narrowing conversions, constant-table checks of the spsa build",
         "Structural necessary conditions decided exhaustively over all CFG paths: every MakeMove/MakeNullMove/frame push/history push in search, perft and the abort fallback is closed on every path with the matching token; sticky search state is cleared before iterating; the returned move comes only from the PV or from the legality-filtered fallback over both generator halves; numbers parsed from UCI text are range-checked before narrowing (found and fixed: F-3, `go depth 200` -> bestmove 0000); spsa tunables agree with the constants and keep divisors and shift counts valid. A violation implies an input/abort point on which the board is left changed, a later search starts aborted, or a null/illegal move is returned. Legality of the returned move for concrete positions is not decided.",
         "Trusts go/types+go/ssa (x/tools v0.50.0); panicking exits ignored; does not decide behaviour for concrete positions or abort points.",
         "DESIGN.md §3 C06"),
 "C04": ("effect/ownership sets over SSA (single writer of the three board encodings, immutable Zobrist tables) + def-use slices of the appended hash (no dropped delta, paired toggles, index/bit agreement) + sibling comparison of from-scratch vs incremental hash terms",
         "Structural necessary conditions decided from the SSA of package board and the whole-program writer sets: only addPiece/removePiece/FEN parser store the three placement encodings and they do so in lock-step; every placement delta, side-to-move flip, castling-right change and en-passant change is mirrored by the matching Zobrist xor with agreeing indices; calculateHash includes exactly the same components under the same conventions. A violation implies a move sequence after which Hash() differs from recomputation or the encodings disagree. Value equality for concrete sequences is not decided.",
         "Trusts go/ssa; field effects are attributed by declared struct type; xor algebra (order independence) is not mechanised.",
         "DESIGN.md §3 C04"),
 "C17": ("transitive effect analysis (reads/writes/globals/nondeterminism) over the VTA call-graph closure of every eval.Eval instance; AST mirror-sibling comparison; def-use analysis of table indexes (flip on one colour only) and of bit scans (order independence)",
         "The independence sentence of the property is decided completely: the closure of Eval reads only Pieces, Colors, SquaresToPiece, STM, FiftyCnt of the board, stores to no board field, coefficient or package variable, reads only init-time-immutable tables and reaches no nondeterminism source. Colour symmetry is decided where the two colours are spelled out side by side (sibling mirror rule), for perspective flips (every coefficient-table index computed from a square or rank is flipped for exactly one colour) for bit-scan order (LowestSet only in strip-until-empty loops or on single-bit sets) and for loops over the two colours (nothing but symmetric accumulation is carried from White's iteration into Black's, R7); symmetry of the remaining shared helper arithmetic is not decided.",
         "Trusts go/ssa + VTA (over-approximate dynamic calls); no reflect/unsafe in the closure (checked).",
         "DESIGN.md §3 C17"),
 "C03": ("effect sets (make/undo write-set mirror, single writer of the hash history) + constant evaluation of the Reverse token layout + reaching-store analysis (save-before-clobber) + getter/setter sibling pairing + post-dominance (one push/pop per call) + PAIR typestate at consumers",
         "Structural necessary conditions decided over all paths of MakeMove/UndoMove/MakeNullMove/UndoNullMove and their consumers: every field changed by a make is restored by its undo, from a token field that cannot overlap another, that was filled before the field was overwritten and is read back in the matching form; the hash history is pushed/popped exactly once per call; castling and promotion are mirrored; a field the undo restores relative to its current value (side to move, fullmove counter) is updated by the make with the inverse operation exactly once on every path, both sides reading the operand in the same state (R9); the en-passant field is used as a square only where it is known to be non-zero (R10: 0 means no target, not a1). A violation implies a move whose make+undo does not return the identical position. Snapshot equality for concrete positions is not decided.",
         "Trusts go/ssa and go/types constant evaluation; token setters are assumed to be called with values inside the declared range (widths are checked against the type ranges).",
         "DESIGN.md §3 C03"),
 "C02": ("condition-atom analysis over SSA (which From/To/moved/captured tests guard each state update), reaching-store ordering, constant geometry of castling squares, dominance of the UCI gate, narrow-counter bound check",
         "Structural necessary conditions decided over all paths of MakeMove/NewCastles/applyMoves/parseUCIMove: each castling right is cleared under both From and To tests of its geometric corner; the en-passant square is recorded only under pawn ∧ double step ∧ CanEnPassant evaluated pre-move; the halfmove clock is reset exactly on pawn moves and captures (captured piece read before any piece moves); fullmove uses the pre-flip colour; captured piece, promotion piece and castling rook go to the geometrically right squares; UCI move lists pass the pseudo-legality gate on the persistent board. A violation implies a position/move whose successor differs from the rules. One genuine defect is recorded as a known finding (int8 halfmove clock wraps after 128 reversible plies).",
         "Trusts go/ssa; does not decide CanEnPassant's pin logic or equality with the FIDE successor for concrete positions.",
         "DESIGN.md §3 C02, §4 F-2"),
 "C01": ("dominance/reachability over SSA (legality filter after every make), call-site census of the generator (exhaustive and disjoint wiring), piece-attack pairing by def-use slices, constant evaluation of castling geometry, abstract interpretation of the promotion loops",
         "Structural necessary conditions: every generated move that is played is filtered by InCheck(mover) before any descent; the two generator halves call every generator method exactly as often as needed with complementary target masks; every attack pattern is paired with the piece kinds geometry dictates; castling masks/emptiness/destination/rights are geometrically consistent; promotions enumerate exactly N,B,R,Q; the acceptor through which table and GUI moves enter agrees with the generator (C05.R1/R2/R4 re-evaluated), and the empty en-passant state is never read as the square a1. A violation implies a position in which an illegal move is playable or a legal move is missing/duplicated. Equality of the generated set with FIDE move generation is not decided (perft tests + C12 remain the guard for the emitted squares).",
         "Trusts go/ssa; BitBoardFromSquares/Castle helper semantics; does not decide that each generator emits the right squares.",
         "DESIGN.md §3 C01, §3.0"),
 "C05": ("exhaustive path enumeration of the loop-free acceptor with interval/atom abstraction of its branch conditions, AST constant extraction and sibling comparison against the generator's castling data, bit-field layout evaluation, dominance of the two gates, all-origins dataflow of MakeMove arguments",
         "Structural necessary conditions: on every feasible accepting path of IsPseudoLegal the promotion bits, pawn direction, push/capture geometry and emptiness tests are constrained the way the generator emits moves; the four castling cases agree with shortCastle/longCastle on rights, empty set, unattacked set and squares; the move word's fields do not overlap; table moves and GUI moves reach the board only through the gate. A violation implies an encoding accepted but not generated (or vice versa). Found and fixed: F-1 (promotion bits accepted off the seventh rank / out of range). Slider and leaper acceptance beyond the pairing and occupancy arguments is not decided.",
         "Trusts go/ssa; path feasibility is decided only for contradictions among the recognised atoms (over-approximation of feasible paths otherwise).",
         "DESIGN.md §3 C05, §4 F-1"),
 "C12": ("constant evaluation of the literal attack tables with exhaustive enumeration of every mask subset against the checker's reference geometry; SSA shape recognition of lookup and fill; effect analysis for immutability; def-use check of the InBetween consumer",
         "Data clauses decided exhaustively from the source literals: magics are collision-free (up to equal attack sets) for every subset of every mask and indices stay in range; leaper tables equal geometry on all 64 squares; fill and lookup index agree (replayed on the literals); tables are immutable after initialisation; the InBetween consumer masks both ends. the between-squares table is filled by the recognised coordinate walk over all aligned pairs (R7: decided for that form, undecided for any other); one-file shifts in the pawn patterns mask the edge file. The ray walkers themselves are code and are not decided.",
         "Trusts go/ssa and go/constant; the checker's own 40-line reference ray walker and leaper offsets; R4 assumes calc*Attacks compute the ray walk.",
         "DESIGN.md §3 C12"),
 "C14": ("rule-based inequality prover over all symbolic paths of the loop-free limit functions (callees and min/max inlined from SSA), dependence analysis (own clock only), dominance/wiring checks of timer and soft-limit consumers, token-field-colour sibling agreement",
         "The arithmetic clauses are decided over ALL paths of hardLimit/softLimit under the property's stated domain: result >= 1, result <= remaining, remaining > margin => result <= remaining - margin, movetime => hard = soft = movetime, no int64 overflow; the limits read only the mover's own clock fields; every timer is armed with hardLimit(stm)*Millisecond for stm = board.STM under a guard true on the whole timed domain, and firing releases the search; the UCI tokens fill the fields the limits read. Wall-clock behaviour is not decided.",
         "Mathematical-integer arithmetic under |field| <= 10^12 (assumption listed in evidence); prover is incomplete by design: unprovable => undecided, never silently passed; violations only with a concrete in-domain counterexample.",
         "DESIGN.md §3 C14, §2 H"),
 "C20": ("SSA shape recognition with derived roles: tiling range iterators, Feistel round invertibility by def-use independence and width arithmetic, cycle-walking guard analysis, byte-accounting path analysis between reader and manifest builder, writer/reader sibling agreement on offsets",
         "Structural necessary (and for the Feistel/cycle-walk part also sufficient) conditions: Batches/Chunks tile their range; every Feistel round is (L,R)<-(R, L xor g(R)) with complementary half widths and an even round count; shuffleIndex cycle-walks within the next power of two and returns only values < n; every byte the line reader consumes is accounted in the manifest offsets; Chunk.Read slices exactly what NewChunker recorded, reads into a buffer owned by its chunk and withholds a line only on exhaustion or the file's own error (a short-read guard must not fire on an exact read). Found and fixed: F-4 (blank lines shifted all later offsets). I/O behaviour and shuffle quality are not decided.",
         "Trusts go/ssa; the tuner's server/client glue does not type-check offline and is not analysed.",
         "DESIGN.md §3 C20, §4 F-4"),
 "C15": ("constant/layout evaluation (types.Sizes, lane constants recognised from SSA), sibling comparison of probe vs store addressing, symbolic partition of the score axis for the mate re-basing mirror, def-use analysis of lane bookkeeping in Insert, single-writer effect sets, resize bound arithmetic",
         "Structural necessary conditions: bucket layout arithmetic is consistent; LookUp and Insert address bucket and signature identically and the hit returns the matching lane's entry; Insert's and Value's mate re-basing are exact mirrors with the same thresholds and strictness; the lane cleared, the lane set and the entry overwritten are the same lane; keep-deeper and keep-move fire only under signature match with their stated conditions; only Insert/Clear/Resize write table state and callers only read the probed entry; Resize never produces an empty or misaligned table. Replacement-policy effects over operation sequences are not decided.",
         "Trusts go/ssa and types.SizesFor(gc, amd64); zero-signature keys excluded (as the property does).",
         "DESIGN.md §3 C15"),
 "C10": ("loop-shape recognition over SSA (start offset and stride of the history scan as linear forms in len), per-path analysis of one scan iteration (increment exactly on equal-hash paths, stop only when the count is known >= 3, continue only when known < 3), plus re-evaluation of the history/hash rules the count rests on",
         "Only the scan-coverage clause is decided: the repetition scan visits every history offset at which the position can recur (5,7,9,... from the end) and never the current entry, runs to index 0, starts counting at 1 and returns at 3; and the history it scans is pushed/popped once per make/undo, emptied only together with loading a position (R4), hashed consistently (C03.R4, C04.R1-R4, C02.R2, C02.R5, C02.R7 re-evaluated). The count for concrete histories and hash collisions are not decided.",
         "Equal hashes are taken to mean equal positions; trusts go/ssa.",
         "DESIGN.md §3 C10"),
 "C09": ("piece-attack pairing by def-use slices, pairing of diagonal/lateral king-ray lookups on the same occupancy (helpers followed with parameters bound to call sites), exclusion-set analysis for simulated captures, mask analysis of two-step pawn pushes, dominance of call-site preconditions, occupancy-argument analysis of king-flight tests",
         "Structural necessary conditions: every attack pattern in IsCheckmate/IsStalemate/Attackers/Block/IsAttacked is paired with the piece kinds and pawn colour geometry dictates; every king-exposure decision is taken from a diagonal AND a lateral test on the same simulated occupancy from the king's square against the opponent; where the simulated move is a capture the captured piece is excluded from the pin test; a double pawn step is tested over the full occupancy; IsCheckmate/IsStalemate are called only with their in-check precondition established; king flights are tested with the king removed from the occupancy. Agreement of the case analysis with move generation for concrete positions is not decided.",
         "Trusts go/ssa.",
         "DESIGN.md §3 C09, §3.0"),
 "C07": ("dominance and reachability over SSA (entry clear, splice after undo inside the window), path enumeration from the root search call with phis and branch conditions resolved per path (what move/ponder hold, known line length and window relation at adoption and report), shape check of pv.insert, loop-structure check of the report",
         "Structural necessary conditions: each node clears its PV slot first; a child's line is spliced only behind the move that was just searched and undone, only when its value is strictly inside the window; insert copies the child's line with its length; the triangular rows of the buffer do not overlap (row index tabulated); the adopted move, the ponder move and the printed variation come from the same buffer with no search in between, only after the aspiration loop succeeded; ponder is cleared for lines shorter than two; one report per depth, depths increasing. Legality of the PV moves themselves (run-time table contents) is not decided.",
         "Trusts go/ssa; bufIx arithmetic is not decided.",
         "DESIGN.md §3 C07"),
 "C08": ("transitive nondeterminism/effect audit over the VTA closure of Search.Go with forward taint of wall-clock values (data and control dependence), guard analysis of the node counter, reader census of the soft limits",
         "Structural necessary conditions: the only nondeterminism sources reachable from Search.Go are the wall clock (whose values reach only the info line, Counters.Time and the soft-limit test), the two channel polls and the output hand-off; no package-level state is written; the node counter is only incremented, under Nodes == -1 or Counters.Nodes < Nodes; soft limits are consulted only between iterations and a limit that is not set (<= 0) can never end the search. what Go returns is decided by completed iterations only (a kept move keeps its ponder move), and a soft stop is taken only with a move in hand, as the hard-budget replay's fallback presumes; an output line is not handed back to the buffer pool while it (or a slice aliasing it) is still being written (R7). Equality of two runs is not decided.",
         "VTA over-approximates dynamic calls; std callees outside time/rand/runtime/os are taken to be deterministic.",
         "DESIGN.md §3 C08"),
 "C18": ("SSA loop model of the swap algorithm (tests, back edges, phis), piece-attack pairing, must-dataflow for least-valuable-attacker order with fixpoint meaning of the start markers, parity/balance evaluators for the early exits, occupancy dataflow for x-ray refreshes and entry bookkeeping",
         "Structural necessary conditions of the exchange evaluation: every attack pattern is paired with the right piece kinds and pawn colour; attackers are tried in non-decreasing value order with the king last and only when no enemy attacker remains; each branch books the tested kind's value, removes exactly one attacker bit and exits by the same parity rule; diagonals are re-scanned after pawn/bishop/queen captures and lines after rook/queen captures with the updated occupancy; mover and en-passant victim leave the occupancy at the right squares; promotion value is added to gain and risk; consumers pass a threshold <= 0 and prune only losing captures. Equality with the capture-sequence minimax for concrete positions and monotonicity in the threshold are not decided.",
         "Trusts go/ssa; PieceValues literal must be immutable (checked).",
         "DESIGN.md §3 C18, §3.0"),
 "C13": ("ownership/effect analysis of the output sink, channel typestate (one make, at most one close, sends ordered before the close), goroutine join pairing on every path, dominance of the bestmove/readyok ordering, path analysis of the interrupt goroutine, captured-variable race analysis over closure bindings, shutdown-order dominance",
         "Safety skeleton only (liveness under all interleavings is not a static property and is not claimed): one writer of the real sink and one Write per complete line; each channel is made once, closed at most once after all senders, stop/searchFin never sent on, ponderHit sent at most once on a buffered channel; every goroutine is joined on every path; Search.Go -> close(searchFin) -> Wait -> exactly one bestmove on every path; the interrupt goroutine always closes stop, can always leave through searchFin, and returns on closed input; no variable is written by a goroutine and touched by its spawner before Wait; pipeline channels are closed in order; a pooled line buffer is not touched after it was handed back (R10). A violation implies a command timing with a torn/missing/duplicate answer, a panic on a channel, a leaked goroutine or a data race.",
         "Trusts go/ssa and the Go memory model facts about WaitGroup.Wait and channel close; deadlock-freedom under all schedules is not decided.",
         "DESIGN.md §3 C13"),
 "C16": ("interval evaluation over SSA of the weight formulas (bands cannot overlap, also with spsa ranges), signed-term decomposition of the history gravity updates, path-by-path model of the stage machine, recognition of ranking and selection loops, one-step-per-yield dataflow",
         "Structural necessary conditions: the value ranges of good captures, quiets, bad captures, the duplicate sentinel and the hash weight are strictly ordered against the yield thresholds and fit int16; each history table saturates at MaxHistory (same constant in clamp and divisor, product formed wide enough); each generator runs at most once and the hash move comes first behind the IsPseudoLegal gate; both ranking loops rank exactly the newly generated tail and give the hash move's second copy the sentinel; every yield steps the cursor exactly once after a swap; exhaustion is reported only after both generators ran. Multiset equality of picker output for concrete history states is not decided.",
         "Trusts go/ssa; interval evaluator is sound but incomplete (unbounded => undecided).",
         "DESIGN.md §3 C16"),
 "C19": ("generic-instance identity and type-test census over the Eval closure, SSA tree comparison of the integer and float branches (with rational-function probe for algebraic rewrites), constant check of the sigmoid table against the float branch's own closed form, SSA shape analysis of the reflection traversals, name/type resolution of tuned fields, AST path check of the gradient loop",
         "Structural necessary conditions: tuner and engine run instances of one generic Eval whose only type-dependent code is two type tests whose branches agree (tapering same expression tree; sigmoid table equals round of the float closed form on all 100 entries with clamping within rounding); ToVector/SetVector/TunedParams/convert traverse the same fields in the same order, one element per leaf, counter incremented once after the yield; all target names resolve to coefficient fields of the right type; the finite-difference loop indexes gradients by the iteration key and restores the perturbed coefficient on every path; the tuner negates for Black only. The 2.25 cp numeric envelope over positions is not decided.",
         "Trusts go/ssa; reflection is analysed structurally, never evaluated; tuner client is analysed with the packages that type-check offline.",
         "DESIGN.md §3 C19"),
 "C11": ("forward must-dataflow of cursor-bound facts over the SSA CFG of the FEN parser closure (every index, shift, dereference and extern call enumerated and discharged), object invariants by effect analysis, dominance of the install gate, concrete-token walk of parser and printer for alphabet agreement",
         "Crash-freedom of ParseFEN is decided completely at the API (every potentially panicking instruction in its closure is discharged by a guard fact, a range fact or an invariant); the new board is installed only after parse success and the piece-count gate; parser and printer agree on piece letters, castling letters and order, side letters, field order, en-passant square text and counter ranges; tools reach FEN parsing only through ParseFEN with their errors checked. Value round-trip of placement runs and counters for all positions is not decided.",
         "Trusts go/ssa; nil *Board argument excluded; errors.New/fmt.Errorf allow-listed as non-panicking.",
         "DESIGN.md §3 C11"),
}

NOT_YET = "no static rule of DESIGN.md §3 for this property is built in this revision yet; not claimed"

def main():
    props = [json.loads(l) for l in open(os.path.join(HERE, "properties.jsonl"))]
    checks, na = [], []
    for p in props:
        pid = p["id"]
        if pid in CLAIMS:
            tech, text, note, ref = CLAIMS[pid]
            checks.append({
                "property_id": pid,
                "quick_cmd": f"./check.sh {pid} quick",
                "thorough_cmd": f"./check.sh {pid} thorough",
                "evidence_file": f"/verif/evidence/{pid}.json",
                "replay_cmd_template": "./bin/chesslint explain {path}",
                "engine": "chesslint",
                "level_claimed": {"category": "other", "text": text, "design_ref": ref},
                "level_note": note,
                "technique": "static analysis: " + tech,
            })
        else:
            na.append({"property_id": pid, "reason": NA.get(pid, NOT_YET)})
    m = {
        "version": 1,
        "setup_cmd": "./build.sh",
        "hooks": {
            "guard": "verif",
            "enable": "none needed: static analysis reads /repo's source; no instrumentation is compiled in (go build -tags verif is a no-op)",
            "baseline_off_cmd": "cd /repo && PATH=/opt/veriftools/go1.26.8/bin:$PATH GOTOOLCHAIN=local GOFLAGS=-mod=mod GOPROXY=off go test -vet=off -count=1 -timeout 25m ./...",
            "source_commits": [],
            "add_only": True,
        },
        "engines": [{
            "name": "chesslint",
            "path": "chesslint/",
            "serves_properties": sorted(CLAIMS),
            "kind_free_text": "repository-specific static analyser (go/packages + go/types + go/ssa + go/cfg, x/tools v0.50.0): typestate pairing, effect/ownership sets, dominance, constant-table evaluation, sibling comparison, guardedness; mutant self-validation through go/packages overlays",
        }],
        "checks": checks,
        "not_applicable": na,
        "notes": "All checks decide structural necessary conditions from /repo's current source; nothing executes chess-3 code. Known findings: known_findings.json. See DESIGN.md.",
    }
    json.dump(m, open(os.path.join(HERE, "MANIFEST.json"), "w"), indent=1)
    print(f"{len(checks)} checks, {len(na)} not applicable")

NA = {}

if __name__ == "__main__":
    main()
