#!/bin/sh
# builds the checker from files on disk only (offline)
set -e
cd "$(dirname "$0")"
. ./env.sh
mkdir -p bin evidence findings
cd chesslint
go build -o ../bin/chesslint .
