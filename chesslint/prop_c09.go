package main

import (
	"fmt"
	"go/token"
	"go/types"
	"strings"

	"golang.org/x/tools/go/ssa"
)

func init() {
	register(&Property{
		ID: "C09",
		Explain: "Static necessary conditions for 'fast checkmate and stalemate tests agree with the absence of legal moves'. " +
			"R1: piece–attack pairing (PA.1 reverse form, PA.2 forward form, PA.4 pawn colour) over IsCheckmate, IsStalemate, Attackers, Block, IsAttacked. " +
			"R2: every 'pinned' decision in the two functions is taken from BOTH a diagonal test (bishop rays from the own king, against bishops/queens) and a lateral test (rook rays, against rooks/queens) on the SAME modified occupancy and the same opponent set; the two deliberate one-sided tests (bishop loop / rook loop) use the ray kind the piece cannot move along. " +
			"R3: IsCheckmate is called only under InCheck(STM) == true and IsStalemate only under false, on the same board with no move made in between (otherwise the attacker's square is 64 and InBetween[k][64] panics). " +
			"R4: king flight squares are tested with the king removed from the occupancy, against the opponent. " +
			"Not decided: agreement of the 250-line case analysis with move generation for concrete positions.",
		Assume: []string{"go/ssa models the program faithfully"},
		Run:    runC09,
	})
}

func runC09(c *Ctx) {
	p := c.need("default")
	if p == nil {
		return
	}
	scope := inFuncs("board.(*Board).IsCheckmate", "board.(*Board).IsStalemate", "board.(*Board).Attackers", "board.(*Board).Block", "board.(*Board).IsAttacked")
	c.Floor("C09.R1.PA1", pa1(c, p, "C09.R1.PA1", scope), 24, "attack-pattern ∩ piece-set sites")
	c.Floor("C09.R1.PA2", pa2(c, p, "C09.R1.PA2", inFuncs("board.(*Board).IsStalemate")), 4, "mobility sites whose origin square comes from a piece set")
	c.Floor("C09.R1.PA4", pa4(c, p, "C09.R1.PA4", scope), 4, "pawn-capture colour sites")
	c09R2(c, p)
	c09R3(c, p)
	c09R4(c, p)
}

// pinTest is one `F(kingSq, occ') & pieces & opp != 0` condition.
type pinTest struct {
	Call  *ssa.Call
	F     string
	Other []ssa.Value // conjuncts that are neither piece sets nor exclusions
	Cond  *ssa.BinOp
}

func parsePinTest(cond ssa.Value, pcs map[int64]string) (*pinTest, bool) {
	bo, ok := cond.(*ssa.BinOp)
	if !ok || (bo.Op != token.NEQ && bo.Op != token.EQL) {
		return nil, false
	}
	if k, isc := constOf(bo.Y); !isc || k != 0 {
		return nil, false
	}
	var leaves []ssa.Value
	flattenAnd(bo.X, &leaves)
	pt := &pinTest{Cond: bo}
	for _, lf := range leaves {
		lf = stripConv(lf)
		if call, ok := lf.(*ssa.Call); ok {
			if f, ok := attackFns[objName(calleeObj(call))]; ok && (f == "Bishop" || f == "Rook") {
				pt.Call, pt.F = call, f
				continue
			}
		}
		if u, ok := lf.(*ssa.UnOp); ok && u.Op == token.XOR {
			continue // exclusion
		}
		if _, ok := pureOrOfPieces(lf, pcs); ok {
			continue // piece set (PA.1 checks it)
		}
		pt.Other = append(pt.Other, lf)
	}
	return pt, pt.Call != nil
}

func c09R2(c *Ctx, p *Prog) {
	const rule = "C09.R2"
	pcs := pieceConsts(p)
	total := 0
	oneSided := 0
	for _, spec := range []string{"board.(*Board).IsCheckmate", "board.(*Board).IsStalemate"} {
		fn := p.Func(spec)
		if fn == nil {
			c.Anchor(rule, spec)
			continue
		}
		inPinned := map[*ssa.Call]bool{}
		nphi := 0
		allInstrs(fn, func(in ssa.Instruction) {
			ph, ok := in.(*ssa.Phi)
			if !ok {
				return
			}
			if b, ok := ph.Type().Underlying().(*types.Basic); !ok || b.Kind() != types.Bool {
				return
			}
			var tests []*pinTest
			allConst := true
			for i, e := range ph.Edges {
				k, isc := constOf(e)
				if !isc {
					allConst = false
					break
				}
				if k == 0 {
					continue
				}
				// the branch that set it to true
				pred := ph.Block().Preds[i]
				var ce []condEdge
				if len(pred.Preds) == 1 {
					ce = edgeCond(pred.Preds[0], pred)
				}
				if len(ce) == 0 {
					ce = edgeCond(pred, ph.Block())
				}
				if len(ce) != 1 {
					allConst = false
					break
				}
				pt, ok := parsePinTest(ce[0].Cond, pcs)
				if !ok || ce[0].True != (pt.Cond.Op == token.NEQ) {
					allConst = false
					break
				}
				tests = append(tests, pt)
			}
			if !allConst || len(tests) == 0 {
				return
			}
			nphi++
			total++
			key := fmt.Sprintf("%s#pinned@%d", spec, nphi)
			for _, t := range tests {
				inPinned[t.Call] = true
			}
			kinds := map[string]*pinTest{}
			for _, t := range tests {
				kinds[t.F] = t
			}
			if len(tests) != 2 || kinds["Bishop"] == nil || kinds["Rook"] == nil {
				have := sortedKeys(kinds)
				c.Fail(rule, key, ph.Pos(), "a piece is declared pinned from %v rays only; a pin can come along a diagonal (bishop/queen) or along a rank/file (rook/queen) — both tests are needed", have)
				return
			}
			b, r := kinds["Bishop"], kinds["Rook"]
			okSq := sameValue(b.Call.Call.Args[0], r.Call.Call.Args[0], 0)
			sk := sourceKinds(b.Call.Call.Args[0], pcs)
			okKing := len(sk) == 1 && sk[0] == "King"
			okOcc := sameValue(b.Call.Call.Args[1], r.Call.Call.Args[1], 0)
			okOpp := len(b.Other) == 1 && len(r.Other) == 1 && sameValue(b.Other[0], r.Other[0], 0)
			if okOpp {
				okOpp = false
				for v := range backSlice(b.Other[0], sliceOpts{}) {
					if ce, ok := coloursLoad(v); ok && ce == (colourExpr{"STM", true}) {
						okOpp = true
					}
				}
			}
			switch {
			case !okSq || !okKing:
				c.Fail(rule, key, ph.Pos(), "the two pin tests do not both look from the own king's square")
			case !okOcc:
				c.Fail(rule, key, ph.Pos(), "the diagonal and the lateral pin test use different occupancies: one of them does not see the simulated move")
			case !okOpp:
				c.Fail(rule, key, ph.Pos(), "the two pin tests are not both restricted to the same opponent piece set derived from Colors[STM.Flip()]")
			default:
				c.Ok(rule, key, ph.Pos(), "pinned = diagonal test ∨ lateral test, both from the king's square on the same simulated occupancy against the opponent")
			}
		})
		// one-sided tests: king-ray test guarding a slider's mobility test
		allInstrs(fn, func(in ssa.Instruction) {
			call, ok := in.(*ssa.Call)
			if !ok {
				return
			}
			f, ok := attackFns[objName(calleeObj(call))]
			if !ok || (f != "Bishop" && f != "Rook") {
				return
			}
			sk := sourceKinds(call.Call.Args[0], pcs)
			if len(sk) != 1 || (sk[0] != "Bishop" && sk[0] != "Rook") {
				return
			}
			// controlling king-ray condition
			for _, ce := range controllingConds(call.Block()) {
				pt, ok := parsePinTest(ce.Cond, pcs)
				if !ok || inPinned[pt.Call] {
					continue
				}
				ks := sourceKinds(pt.Call.Call.Args[0], pcs)
				if len(ks) != 1 || ks[0] != "King" {
					continue
				}
				oneSided++
				key := fmt.Sprintf("%s#paralysed-%s", spec, strings.ToLower(sk[0]))
				notPinnedEdge := ce.True == (pt.Cond.Op == token.EQL)
				other := map[string]string{"Bishop": "Rook", "Rook": "Bishop"}[sk[0]]
				c.Check(pt.F == other && notPinnedEdge, rule, key, call.Pos(), "a %s's mobility is consulted only when no %s-ray pin (the kind it cannot slide along) holds it; found %s-ray test, mobility on the not-pinned edge: %v", sk[0], other, pt.F, notPinnedEdge)
			}
		})
	}
	c.Floor(rule+".pinned", total, 6, "pinned decisions in IsCheckmate/IsStalemate")
	c.Floor(rule+".one-sided", oneSided, 2, "one-sided paralysis tests in IsStalemate")
}

func c09R3(c *Ctx, p *Prog) {
	const rule = "C09.R3"
	n := 0
	for _, fn := range p.OwnFuncs() {
		for _, tc := range []struct {
			spec string
			want bool
		}{{"board.(*Board).IsCheckmate", true}, {"board.(*Board).IsStalemate", false}} {
			for i, ci := range callsIn(fn, tc.spec) {
				n++
				key := fmt.Sprintf("%s#%s@%d", fnName(fn), tc.spec[strings.LastIndex(tc.spec, ".")+1:], i+1)
				var ic *ssa.Call
				for _, ce := range controllingConds(ci.Block()) {
					v, pol := ce.Cond, ce.True
					if u, ok := v.(*ssa.UnOp); ok && u.Op == token.NOT {
						v, pol = u.X, !pol
					}
					call, ok := v.(*ssa.Call)
					if !ok || objName(calleeObj(call)) != "board.(*Board).InCheck" || pol != tc.want {
						continue
					}
					if sameValue(call.Call.Args[0], ci.Common().Args[0], 0) && isFieldLoad(stripConv(call.Call.Args[1]), "Board.STM") {
						ic = call
					}
				}
				if ic == nil {
					c.Fail(rule, key, ci.Pos(), "%s is called without being dominated by InCheck(STM) == %v on the same board: its precondition is not established (IsCheckmate with no checker indexes InBetween[king][64] and panics)", tc.spec, tc.want)
					continue
				}
				// no move made between the test and the call
				moved := ""
				allInstrs(fn, func(m ssa.Instruction) {
					if moved != "" {
						return
					}
					for _, s := range []string{"board.(*Board).MakeMove", "board.(*Board).UndoMove", "board.(*Board).MakeNullMove", "board.(*Board).UndoNullMove"} {
						if isCallTo(m, s) {
							a, _ := reachAvoiding(ic, m, func(x ssa.Instruction) bool { return x == ci.(ssa.Instruction) })
							b, _ := reachAvoiding(m, ci.(ssa.Instruction), func(x ssa.Instruction) bool { return x == ssa.Instruction(ic) })
							if a && b {
								moved = p.Rel(m.Pos())
							}
						}
					}
				})
				c.Check(moved == "", rule, key, ci.Pos(), "called under InCheck(STM) == %v with the position unchanged since the test %s", tc.want, moved)
			}
		}
	}
	c.Floor(rule, n, 2, "call sites of IsCheckmate/IsStalemate")
}

func c09R4(c *Ctx, p *Prog) {
	const rule = "C09.R4"
	pcs := pieceConsts(p)
	n := 0
	for _, spec := range []string{"board.(*Board).IsCheckmate", "board.(*Board).IsStalemate"} {
		fn := p.Func(spec)
		if fn == nil {
			c.Anchor(rule, spec)
			continue
		}
		for _, ci := range callsIn(fn, "board.(*Board).IsAttacked") {
			a := ci.Common().Args
			if len(a) != 4 {
				continue
			}
			// target derived from KingMoves(kingSq)
			fromKingMoves := false
			for v := range backSlice(a[3], sliceOpts{}) {
				if isCallValueTo(v, "attacks.KingMoves") {
					fromKingMoves = true
				}
			}
			if !fromKingMoves {
				continue
			}
			n++
			key := spec + "#king-flights"
			okOcc := false
			if bo, ok := stripConv(a[2]).(*ssa.BinOp); ok {
				var excl ssa.Value
				switch bo.Op {
				case token.AND_NOT:
					excl = bo.Y
				case token.AND:
					for _, s := range []ssa.Value{bo.X, bo.Y} {
						if u, ok := s.(*ssa.UnOp); ok && u.Op == token.XOR {
							excl = u.X
						}
					}
				}
				if excl != nil {
					ks := map[string]bool{}
					var cols []colourExpr
					for v := range backSlice(excl, sliceOpts{}) {
						if k, ok := piecesLoadKind(v, pcs); ok {
							ks[k] = true
						}
						if ce, ok := coloursLoad(v); ok {
							cols = append(cols, ce)
						}
					}
					okOcc = len(ks) == 1 && ks["King"] && len(cols) == 1 && cols[0] == (colourExpr{"STM", false})
				}
			}
			by, okBy := normColour(a[1])
			c.Check(okOcc, rule, key+"#king-removed", ci.Pos(), "king destinations are tested with the own king removed from the occupancy (a slider's ray continues through the square the king leaves)")
			c.Check(okBy && by == (colourExpr{"STM", true}), rule, key+"#by-opponent", ci.Pos(), "king destinations are tested against attacks by STM.Flip()")
		}
	}
	c.Floor(rule, n, 2, "king-flight attack tests")
}

func init() {
	addMutants(
		Mutant{Name: "C09.R1-attackers-king-pattern-with-knights", Prop: "C09", File: "board/attacks.go",
			Old: "sub := attacks.KingMoves(sq) & b.Pieces[King]", New: "sub := attacks.KingMoves(sq) & b.Pieces[Knight]",
			Expect: "C09.R1.PA1/board.(*Board).Attackers#KingMoves"},
		Mutant{Name: "C09.R1-block-forgets-queen-on-files", Prop: "C09", File: "board/attacks.go", Quick: true,
			Old: "\t\tsub |= attacks.RookMoves(sq, occ) & (b.Pieces[Rook] | b.Pieces[Queen])\n\n\t\tres |= sub & blockers", New: "\t\tsub |= attacks.RookMoves(sq, occ) & b.Pieces[Rook]\n\n\t\tres |= sub & blockers",
			Expect: "C09.R1.PA1/board.(*Board).Block#RookMoves"},
		Mutant{Name: "C09.R1-stalemate-ep-colour-slip", Prop: "C09", File: "board/attacks.go",
			Old: "pawns := attacks.PawnCaptureMoves(enPassantBB, b.STM.Flip()) & b.Pieces[Pawn] & me", New: "pawns := attacks.PawnCaptureMoves(enPassantBB, b.STM) & b.Pieces[Pawn] & me",
			Expect: "C09.R1.PA4/board.(*Board).IsStalemate#PawnCaptureMoves"},
		Mutant{Name: "C09.R1-stalemate-rook-mobility-with-bishop-rays", Prop: "C09", File: "board/attacks.go",
			Old: "\t\t\tif (attacks.RookMoves(sq, nocc) & ^me) != 0 {", New: "\t\t\tif (attacks.BishopMoves(sq, nocc) & ^me) != 0 {",
			Expect: "C09.R1.PA2/board.(*Board).IsStalemate#BishopMoves"},
		Mutant{Name: "C09.R2-knight-pin-forgets-lateral", Prop: "C09", File: "board/attacks.go", Quick: true,
			Old: "\t\t\tif attacks.BishopMoves(kingSq, nocc)&(b.Pieces[Bishop]|b.Pieces[Queen])&opp != 0 {\n\t\t\t\tpinned = true\n\t\t\t} else if attacks.RookMoves(kingSq, nocc)&(b.Pieces[Rook]|b.Pieces[Queen])&opp != 0 {\n\t\t\t\tpinned = true\n\t\t\t}\n\t\t}\n\n\t\tif !pinned && (attacks.KnightMoves(sq)",
			New: "\t\t\tif attacks.BishopMoves(kingSq, nocc)&(b.Pieces[Bishop]|b.Pieces[Queen])&opp != 0 {\n\t\t\t\tpinned = true\n\t\t\t}\n\t\t}\n\n\t\tif !pinned && (attacks.KnightMoves(sq)",
			Expect: "C09.R2/board.(*Board).IsStalemate#pinned"},
		Mutant{Name: "C09.R2-blocker-pin-on-stale-occupancy", Prop: "C09", File: "board/attacks.go",
			Old: "\t\t} else if attacks.RookMoves(kingSq, nocc)&(b.Pieces[Rook]|b.Pieces[Queen])&opp != 0 {\n\t\t\tpinned = true\n\t\t}\n\n\t\tif !pinned {\n\t\t\treturn false\n\t\t}\n\t}\n\n\treturn true\n}\n\n// IsStalemate", New: "\t\t} else if attacks.RookMoves(kingSq, occ)&(b.Pieces[Rook]|b.Pieces[Queen])&opp != 0 {\n\t\t\tpinned = true\n\t\t}\n\n\t\tif !pinned {\n\t\t\treturn false\n\t\t}\n\t}\n\n\treturn true\n}\n\n// IsStalemate",
			Expect: "C09.R2/board.(*Board).IsCheckmate#pinned"},
		Mutant{Name: "C09.R2-bishop-paralysis-tested-on-diagonals", Prop: "C09", File: "board/attacks.go",
			Old: "\t\tif (attacks.RookMoves(kingSq, nocc) & (b.Pieces[Rook] | b.Pieces[Queen]) & opp) == 0 {\n\t\t\tif (attacks.BishopMoves(sq, nocc) & ^me) != 0 {", New: "\t\tif (attacks.BishopMoves(kingSq, nocc) & (b.Pieces[Bishop] | b.Pieces[Queen]) & opp) == 0 {\n\t\t\tif (attacks.BishopMoves(sq, nocc) & ^me) != 0 {",
			Expect: "C09.R2/board.(*Board).IsStalemate#paralysed-bishop"},
		Mutant{Name: "C09.R3-stalemate-test-also-in-check", Prop: "C09", File: "search/search.go", Quick: true,
			Old: "\tif inCheck {\n\t\tif b.IsCheckmate() {\n\t\t\treturn -Inf + Score(ply)\n\t\t}\n\t} else {\n\t\tif b.IsStalemate() {\n\t\t\treturn 0\n\t\t}\n\t}\n", New: "\tif inCheck {\n\t\tif b.IsCheckmate() {\n\t\t\treturn -Inf + Score(ply)\n\t\t}\n\t}\n\tif b.IsStalemate() {\n\t\treturn 0\n\t}\n",
			Expect: "C09.R3/search.(*Search).quiescence#IsStalemate"},
		Mutant{Name: "C09.R3-checkmate-test-unguarded", Prop: "C09", File: "search/search.go",
			Old: "\tif inCheck {\n\t\tif b.IsCheckmate() {", New: "\tif inCheck || standPatEarly(b) {\n\t\tif b.IsCheckmate() {",
			File2: "search/search.go", Old2: "func getNextMove(", New2: "func standPatEarly(b *board.Board) bool { return b.FiftyCnt > 90 }\n\nfunc getNextMove(",
			Expect: "C09.R3/search.(*Search).quiescence#IsCheckmate"},
		Mutant{Name: "C09.R4-flights-with-king-shielding", Prop: "C09", File: "board/attacks.go", Quick: true,
			Old: "\t\tif !b.IsAttacked(b.STM.Flip(), occ&^king, to) {", New: "\t\tif !b.IsAttacked(b.STM.Flip(), occ, to) {",
			Expect: "C09.R4/board.(*Board).IsCheckmate#king-flights#king-removed"},
		Mutant{Name: "C09.R4-stalemate-flights-own-colour", Prop: "C09", File: "board/attacks.go",
			Old: "\t\tif !b.IsAttacked(b.STM.Flip(), occ&^king, kMove) {", New: "\t\tif !b.IsAttacked(b.STM, occ&^king, kMove) {",
			Expect: "C09.R4/board.(*Board).IsStalemate#king-flights#by-opponent"},
	)
}
