package main

// POOL: a buffer handed back to a sync.Pool belongs to whoever Gets it next.
// After pool.Put(x) the same function must not touch x or anything that
// aliases it (a slice header copied out of *x, an element address) until x is
// bound to a new value: the next producer may already be overwriting the
// memory, so a line that is still being written out is replaced, duplicated
// or spliced with the following one, depending on scheduling.

import (
	"fmt"
	"go/token"
	"go/types"

	"golang.org/x/tools/go/ssa"
)

func aliasingType(t types.Type) bool {
	switch t.Underlying().(type) {
	case *types.Pointer, *types.Slice, *types.Interface, *types.Map:
		return true
	}
	return false
}

func poolUseAfterPut(c *Ctx, p *Prog, rule string, pkgs map[string]bool) {
	n := 0
	for _, fn := range p.OwnFuncs() {
		if !pkgs[relPkg(fnPkgPath(fn))] {
			continue
		}
		ord := 0
		allInstrs(fn, func(in ssa.Instruction) {
			call, ok := in.(*ssa.Call)
			if !ok {
				return
			}
			f := calleeObj(call)
			if f == nil || f.Pkg() == nil || f.Pkg().Path() != "sync" || f.Name() != "Put" || len(call.Call.Args) != 2 {
				return
			}
			ord++
			n++
			key := fmt.Sprintf("%s#pool-put@%d", fnName(fn), ord)
			var pv ssa.Value = call.Call.Args[1]
			if mi, ok := pv.(*ssa.MakeInterface); ok {
				pv = mi.X
			}
			def, _ := pv.(ssa.Instruction)
			// everything that aliases the buffer
			alias := map[ssa.Value]bool{pv: true}
			work := []ssa.Value{pv}
			for len(work) > 0 {
				v := work[len(work)-1]
				work = work[:len(work)-1]
				if v.Referrers() == nil {
					continue
				}
				for _, r := range *v.Referrers() {
					var nv ssa.Value
					switch x := r.(type) {
					case *ssa.UnOp:
						if x.Op == token.MUL {
							nv = x
						}
					case *ssa.Slice:
						nv = x
					case *ssa.IndexAddr:
						nv = x
					case *ssa.FieldAddr:
						nv = x
					case *ssa.Convert:
						nv = x
					case *ssa.ChangeType:
						nv = x
					case *ssa.Phi:
						nv = x
					}
					if nv != nil && aliasingType(nv.Type()) && !alias[nv] {
						alias[nv] = true
						work = append(work, nv)
					}
				}
			}
			bad := token.NoPos
			what := ""
			allInstrs(fn, func(u ssa.Instruction) {
				if bad.IsValid() || u == ssa.Instruction(call) {
					return
				}
				switch u.(type) {
				case *ssa.DebugRef, *ssa.Phi:
					return
				}
				uses := false
				for _, op := range u.Operands(nil) {
					if op != nil && *op != nil && alias[*op] {
						uses = true
					}
				}
				if !uses {
					return
				}
				// the definition of an alias itself (taken before the Put) is not a use after it, unless it is reachable too
				if r, _ := reachAvoiding(call, u, func(x ssa.Instruction) bool { return def != nil && x == def }); r {
					bad = u.Pos()
					if !bad.IsValid() {
						bad = call.Pos()
					}
					what = fmt.Sprintf("%T", u)
					if cc, ok := u.(ssa.CallInstruction); ok {
						if g := calleeObj(cc); g != nil {
							what = "call of " + g.Name()
						} else if cc.Common().IsInvoke() {
							what = "call of " + cc.Common().Method.Name()
						}
					}
				}
			})
			if bad.IsValid() {
				c.Fail(rule, key, bad, "the buffer handed back to the pool at %s (or a slice aliasing it) is still used afterwards (%s): the next producer can overwrite it while it is being written out, so reported lines are replaced, duplicated or spliced depending on scheduling", p.Rel(call.Pos()), what)
			} else {
				c.Ok(rule, key, call.Pos(), "nothing aliasing the buffer is touched between handing it back to the pool and rebinding it")
			}
		})
	}
	if n == 0 {
		c.OkTrivial(rule, "pool-put", 0, "no sync.Pool in the output path")
	}
}

func init() {
	addMutants(
		Mutant{Name: "C13.R10-line-buffer-recycled-before-written", Prop: "C13", File: "uci/uci.go", Quick: true,
			Old: "\t\tfor cnt := 0; cnt < len(*line); {\n\t\t\tcurr, err := d.output.writer.Write((*line)[cnt:])", New: "\t\tbuf := *line\n\t\td.output.pool.Put(line)\n\t\tfor cnt := 0; cnt < len(buf); {\n\t\t\tcurr, err := d.output.writer.Write(buf[cnt:])",
			Expect: "C13.R10/uci.(*Driver).writeOutput#pool-put"},
	)
}
