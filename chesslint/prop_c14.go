package main

// C14 — "time budget granted to a search never exceeds the clock".
//
// Engine H (BOUND): a symbolic path enumerator for loop-free integer functions
// (callees and builtin min/max inlined from SSA) plus a rule-based inequality
// prover. Every inference rule is stated next to its implementation. It is not
// a solver: unprovable goals are "undecided"; a goal is reported as VIOLATED
// only when evaluating the derived term on a boundary grid of in-domain inputs
// produces a concrete counterexample.

import (
	"fmt"
	"go/constant"
	"go/token"
	"go/types"
	"sort"
	"strings"

	"golang.org/x/tools/go/ssa"
)

const c14Dom = int64(1_000_000_000_000) // assumed |field| ≤ 10^12 ms (superset of the property's stated domain)
const c14Safe = int64(1) << 62          // every intermediate must stay below this in magnitude

// ---------- terms over the mathematical integers ----------

// c14T: 'k' constant k; 'v' variable (k = struct field index, -1 = side to move);
// '+' a+b; '-' a-b; '*' k·a; '/' a/k (k>0, truncated like Go); 'n' min(a,b); 'x' max(a,b).
type c14T struct {
	op   byte
	k    int64
	a, b *c14T
}

func c14K(k int64) *c14T { return &c14T{op: 'k', k: k} }
func c14Var(i int) *c14T { return &c14T{op: 'v', k: int64(i)} }

func c14AddOK(a, b int64) (int64, bool) {
	s := a + b
	if (a >= 0) == (b >= 0) && (s >= 0) != (a >= 0) {
		return 0, false
	}
	return s, true
}

func c14MulOK(a, b int64) (int64, bool) {
	const minI = -1 << 63
	if a == 0 || b == 0 {
		return 0, true
	}
	if a == minI || b == minI {
		return 0, false
	}
	p := a * b
	if p/b != a {
		return 0, false
	}
	return p, true
}

// c14Apply evaluates one operator on concrete integers (checked: ok=false on int64 overflow).
func c14Apply(op byte, k, a, b int64) (int64, bool) {
	switch op {
	case '+':
		return c14AddOK(a, b)
	case '-':
		if b == -b && b != 0 {
			return 0, false
		}
		return c14AddOK(a, -b)
	case '*':
		return c14MulOK(k, a)
	case '/':
		return a / k, k > 0
	case 'n':
		return min(a, b), true
	case 'x':
		return max(a, b), true
	}
	return 0, false
}

// c14Bin builds a binary term, folding constants (no other algebraic rewriting).
func c14Bin(op byte, k int64, a, b *c14T) *c14T {
	if op == '*' && k == 1 {
		return a
	}
	if a.op == 'k' && (b == nil || b.op == 'k') {
		bv := int64(0)
		if b != nil {
			bv = b.k
		}
		if v, ok := c14Apply(op, k, a.k, bv); ok {
			return c14K(v)
		}
	}
	return &c14T{op: op, k: k, a: a, b: b}
}

// c14Coef splits t = k·core by collecting nested constant factors: k1·(k2·a) = (k1·k2)·a over ℤ.
func c14Coef(t *c14T) (int64, *c14T) {
	k := int64(1)
	for t.op == '*' {
		kk, ok := c14MulOK(k, t.k)
		if !ok {
			break
		}
		k, t = kk, t.a
	}
	return k, t
}

func c14Eq(a, b *c14T) bool {
	if a == nil || b == nil {
		return a == b
	}
	return a.op == b.op && a.k == b.k && c14Eq(a.a, b.a) && c14Eq(a.b, b.b)
}

func (t *c14T) vars(set map[int]bool) {
	if t == nil {
		return
	}
	if t.op == 'v' {
		set[int(t.k)] = true
	}
	t.a.vars(set)
	t.b.vars(set)
}

func (t *c14T) subterms(f func(*c14T)) {
	if t != nil {
		f(t)
		t.a.subterms(f)
		t.b.subterms(f)
	}
}

var c14Names []string // display names of the struct fields (evidence text only, never used for decisions)

func (t *c14T) String() string {
	switch t.op {
	case 'k':
		return fmt.Sprint(t.k)
	case 'v':
		if t.k < 0 {
			return "stm"
		}
		if int(t.k) < len(c14Names) {
			return c14Names[t.k]
		}
		return fmt.Sprintf("f%d", t.k)
	case '*':
		return fmt.Sprintf("%d*%s", t.k, t.a)
	case '/':
		return fmt.Sprintf("%s/%d", t.a, t.k)
	case 'n':
		return fmt.Sprintf("min(%s,%s)", t.a, t.b)
	case 'x':
		return fmt.Sprintf("max(%s,%s)", t.a, t.b)
	}
	return fmt.Sprintf("(%s%c%s)", t.a, t.op, t.b)
}

// eval computes the term on a concrete assignment (ok=false on overflow).
func (t *c14T) eval(env map[int]int64) (int64, bool) {
	switch t.op {
	case 'k':
		return t.k, true
	case 'v':
		v, ok := env[int(t.k)]
		return v, ok
	}
	a, ok := t.a.eval(env)
	if !ok {
		return 0, false
	}
	b := int64(0)
	if t.b != nil {
		if b, ok = t.b.eval(env); !ok {
			return 0, false
		}
	}
	return c14Apply(t.op, t.k, a, b)
}

// ---------- facts ----------

// c14F is the atomic fact "a op b", op ∈ {<, <=, >, >=, ==, !=}.
type c14F struct {
	op   token.Token
	a, b *c14T
}

var c14NegOp = map[token.Token]token.Token{token.LSS: token.GEQ, token.GEQ: token.LSS, token.GTR: token.LEQ, token.LEQ: token.GTR, token.EQL: token.NEQ, token.NEQ: token.EQL}
var c14FlipOp = map[token.Token]token.Token{token.LSS: token.GTR, token.GTR: token.LSS, token.LEQ: token.GEQ, token.GEQ: token.LEQ, token.EQL: token.EQL, token.NEQ: token.NEQ}

func (f c14F) neg() c14F                            { return c14F{c14NegOp[f.op], f.a, f.b} }
func (f c14F) eq(g c14F) bool                       { return f.op == g.op && c14Eq(f.a, g.a) && c14Eq(f.b, g.b) }
func (f c14F) String() string                       { return fmt.Sprintf("%s %s %s", f.a, f.op, f.b) }
func c14Fact(a *c14T, op token.Token, b *c14T) c14F { return c14F{op, a, b} }

func c14Cmp(op token.Token, a, b int64) bool {
	switch op {
	case token.LSS:
		return a < b
	case token.LEQ:
		return a <= b
	case token.GTR:
		return a > b
	case token.GEQ:
		return a >= b
	case token.EQL:
		return a == b
	}
	return a != b
}

type c14Facts []c14F

func (fs c14Facts) String() string {
	var s []string
	for _, f := range fs {
		if !strings.Contains(" "+strings.Join(s, " , ")+" ", " "+f.String()+" ") {
			s = append(s, f.String())
		}
	}
	return "{" + strings.Join(s, ", ") + "}"
}

func (fs c14Facts) with(more ...c14F) c14Facts {
	return append(append(c14Facts{}, fs...), more...)
}

// c14Shift: is a the term t shifted by a constant, a = t - c?  (a ≡ t: c = 0; a = t-d: c = d; a = t+d: c = -d)
func c14Shift(a, t *c14T) (int64, bool) {
	switch {
	case c14Eq(a, t):
		return 0, true
	case a.op == '-' && a.b.op == 'k' && c14Eq(a.a, t):
		return a.b.k, true
	case a.op == '+' && a.b.op == 'k' && c14Eq(a.a, t) && a.b.k != -a.b.k:
		return -a.b.k, true
	case a.op == '+' && a.a.op == 'k' && c14Eq(a.b, t) && a.a.k != -a.a.k:
		return -a.a.k, true
	}
	return 0, false
}

// factBound. Rule F (integers): a fact "(t - c) op b" (or mirrored "b op (t - c)"), where the
// left side is structurally the term t shifted by a constant c (c may be 0) and b has the
// constant bound B by rule B (one fact hop less), gives
//
//	t-c ≤ b ⇒ t ≤ B+c      t-c < b ⇒ t ≤ B+c-1      t-c ≥ b ⇒ t ≥ B+c      t-c > b ⇒ t ≥ B+c+1      t-c == b ⇒ both
//
// Facts of any other shape are never used to derive a bound (sound: fewer premises).
func (fs c14Facts) factBound(t *c14T, up bool, depth int) (int64, bool) {
	best, have := int64(0), false
	if depth <= 0 || t.op == 'k' {
		return 0, false
	}
	for _, f := range fs {
		for _, o := range [2]struct {
			op   token.Token
			a, b *c14T
		}{{f.op, f.a, f.b}, {c14FlipOp[f.op], f.b, f.a}} {
			c, ok := c14Shift(o.a, t)
			if !ok {
				continue
			}
			adj := int64(0)
			switch {
			case o.op == token.EQL, up && o.op == token.LEQ, !up && o.op == token.GEQ:
			case up && o.op == token.LSS:
				adj = -1
			case !up && o.op == token.GTR:
				adj = 1
			default:
				continue
			}
			B, ok := fs.boundD(o.b, up, depth-1)
			if !ok {
				continue
			}
			if B, ok = c14AddOK(B, c); ok {
				if B, ok = c14AddOK(B, adj); ok && (!have || (up && B < best) || (!up && B > best)) {
					best, have = B, true
				}
			}
		}
	}
	return best, have
}

// varBound: constant bound of a variable (rule F with the full hop budget).
func (fs c14Facts) varBound(x int64, up bool) (int64, bool) {
	return fs.factBound(&c14T{op: 'v', k: x}, up, 2)
}

// bound derives a constant L with facts ⊢ t ≥ L (up=false) or U with t ≤ U (up=true).
//
//	B-const  k ≤ k ≤ k
//	B-fact   rule F: every term (not only variables) may also be bounded through a fact about it; the
//	         better of the structural and the fact bound is used (at most two fact hops)
//	B-add    lo(a+b)=lo a+lo b            hi(a+b)=hi a+hi b
//	B-sub    lo(a-b)=lo a-hi b            hi(a-b)=hi a-lo b
//	B-mul    k≥0: lo(k·a)=k·lo a, hi(k·a)=k·hi a;  k<0: lo(k·a)=k·hi a, hi(k·a)=k·lo a
//	B-div    k>0: lo(a/k)=(lo a)/k, hi(a/k)=(hi a)/k   (truncated division by a positive
//	         constant is monotone non-decreasing)
//	B-min    lo min(a,b)=min(lo a,lo b) [both needed]; hi min(a,b)=any available of hi a, hi b (the smaller)
//	B-max    dual of B-min
//
// Any overflow of the checker's own arithmetic makes the bound unavailable.
func (fs c14Facts) bound(t *c14T, up bool) (int64, bool) { return fs.boundD(t, up, 2) }

func (fs c14Facts) boundD(t *c14T, up bool, depth int) (int64, bool) {
	s, ok1 := fs.sbound(t, up, depth)
	f, ok2 := fs.factBound(t, up, depth)
	switch {
	case ok1 && ok2 && up:
		return min(s, f), true
	case ok1 && ok2:
		return max(s, f), true
	case ok1:
		return s, true
	}
	return f, ok2
}

// sbound: the structural rules B-const … B-max.
func (fs c14Facts) sbound(t *c14T, up bool, depth int) (int64, bool) {
	switch t.op {
	case 'k':
		return t.k, true
	case '+':
		a, ok1 := fs.boundD(t.a, up, depth)
		b, ok2 := fs.boundD(t.b, up, depth)
		if ok1 && ok2 {
			return c14AddOK(a, b)
		}
	case '-':
		a, ok1 := fs.boundD(t.a, up, depth)
		b, ok2 := fs.boundD(t.b, !up, depth)
		if ok1 && ok2 {
			return c14Apply('-', 0, a, b)
		}
	case '*':
		if a, ok := fs.boundD(t.a, up == (t.k >= 0), depth); ok {
			return c14MulOK(t.k, a)
		}
	case '/':
		if a, ok := fs.boundD(t.a, up, depth); ok && t.k > 0 {
			return a / t.k, true
		}
	case 'n', 'x':
		a, ok1 := fs.boundD(t.a, up, depth)
		b, ok2 := fs.boundD(t.b, up, depth)
		either := (t.op == 'n') == up // hi of min / lo of max: one side suffices
		switch {
		case ok1 && ok2:
			if t.op == 'n' {
				return min(a, b), true
			}
			return max(a, b), true
		case either && ok1:
			return a, true
		case either && ok2:
			return b, true
		}
	}
	return 0, false
}

// contradictory. Rule C: the fact set is inconsistent when for some fact "a op b"
// the constant bounds exclude it: a≤b needs lo a ≤ hi b; a<b needs lo a < hi b; (≥,> mirrored);
// a==b needs the intervals to meet; a!=b is excluded when both sides are pinned to one value.
// Only "definitely inconsistent" is ever concluded.
func (fs c14Facts) contradictory() bool {
	for _, f := range fs {
		la, okla := fs.bound(f.a, false)
		ha, okha := fs.bound(f.a, true)
		lb, oklb := fs.bound(f.b, false)
		hb, okhb := fs.bound(f.b, true)
		switch f.op {
		case token.LEQ:
			if okla && okhb && la > hb {
				return true
			}
		case token.LSS:
			if okla && okhb && la >= hb {
				return true
			}
		case token.GEQ:
			if okha && oklb && ha < lb {
				return true
			}
		case token.GTR:
			if okha && oklb && ha <= lb {
				return true
			}
		case token.EQL:
			if (okla && okhb && la > hb) || (okha && oklb && ha < lb) {
				return true
			}
		case token.NEQ:
			if okla && okha && oklb && okhb && la == ha && lb == hb && la == lb {
				return true
			}
		}
	}
	return false
}

// implies. Rule I: facts ⊢ φ when facts ∧ ¬φ is contradictory (rule C).
func (fs c14Facts) implies(f c14F) bool { return fs.with(f.neg()).contradictory() }

// le proves t ≤ c·x + k for a variable x and a constant coefficient c ≥ 1:
//
//	L-refl   x ≤ c·x+k          if k ≥ 0 and (c = 1 or lo x ≥ 0)
//	L-sub    a-d ≤ c·x+k        if a ≤ c·x+(k+d)    (d constant)
//	L-add    a+d ≤ c·x+k        if a ≤ c·x+(k-d)    (d constant, either operand)
//	L-mul    j·a ≤ c·x+k        if j > 0, g = gcd(j,c) and (j/g)·a ≤ (c/g)·x + ⌊k/g⌋
//	                            (then j·a ≤ c·x + g⌊k/g⌋ ≤ c·x + k)
//	L-min    min(a,b) ≤ u       if a ≤ u or b ≤ u
//	L-max    max(a,b) ≤ u       if a ≤ u and b ≤ u
//	L-fact   t ≤ c·x+k          if a fact says t ≤ u (or t == u) and u ≤ c·x+k; t < u and u ≤ c·x+k+1
//	                            (t structurally the fact's side; at most three fact hops)
//	L-const  t ≤ c·x+k          if hi t ≤ c·lo x + k   (rule B bounds)
func (fs c14Facts) le(t *c14T, c, x, k int64) bool { return fs.leD(t, c, x, k, 3) }

func c14Gcd(a, b int64) int64 {
	for b != 0 {
		a, b = b, a%b
	}
	return a
}

func (fs c14Facts) leD(t *c14T, c, x, k int64, depth int) bool {
	if c < 1 {
		return false
	}
	lox, haveLo := fs.varBound(x, false)
	switch t.op {
	case 'v':
		if t.k == x && k >= 0 && (c == 1 || (haveLo && lox >= 0)) {
			return true
		}
	case '-':
		if t.b.op == 'k' {
			if k2, ok := c14AddOK(k, t.b.k); ok && fs.leD(t.a, c, x, k2, depth) {
				return true
			}
		}
	case '+':
		for _, p := range [][2]*c14T{{t.a, t.b}, {t.b, t.a}} {
			if p[1].op == 'k' {
				if k2, ok := c14Apply('-', 0, k, p[1].k); ok && fs.leD(p[0], c, x, k2, depth) {
					return true
				}
			}
		}
	case '*':
		if j := t.k; j > 0 {
			if g := c14Gcd(j, c); g > 1 {
				q := k / g
				if k%g != 0 && k < 0 {
					q-- // floor division
				}
				if fs.leD(c14Bin('*', j/g, t.a, nil), c/g, x, q, depth) {
					return true
				}
			}
		}
	case 'n':
		if fs.leD(t.a, c, x, k, depth) || fs.leD(t.b, c, x, k, depth) {
			return true
		}
	case 'x':
		if fs.leD(t.a, c, x, k, depth) && fs.leD(t.b, c, x, k, depth) {
			return true
		}
	}
	if depth > 0 && t.op != 'k' {
		for _, f := range fs {
			for _, o := range [2]struct {
				op   token.Token
				a, b *c14T
			}{{f.op, f.a, f.b}, {c14FlipOp[f.op], f.b, f.a}} {
				if !c14Eq(o.a, t) || c14Eq(o.b, t) {
					continue
				}
				k2, ok := k, o.op == token.LEQ || o.op == token.EQL
				if o.op == token.LSS {
					k2, ok = c14AddOK(k, 1)
				}
				if ok && fs.leD(o.b, c, x, k2, depth-1) {
					return true
				}
			}
		}
	}
	if hi, ok := fs.bound(t, true); ok && haveLo {
		if cl, ok := c14MulOK(c, lox); ok {
			if sum, ok := c14AddOK(cl, k); ok && hi <= sum {
				return true
			}
		}
	}
	return false
}

// ---------- symbolic path enumeration over SSA ----------

// c14V is a symbolic value: 'i' integer term, 'b' boolean (atom==nil ⇒ constant bval),
// 's' struct (fs), 'p' pointer to cell/slot (idx -1 = whole cell), 0 = unknown.
type c14V struct {
	kind      byte
	t         *c14T
	atom      *c14F
	bval      bool
	fs        []c14V
	cell, idx int
}

func c14Int(t *c14T) c14V { return c14V{kind: 'i', t: t} }
func c14Bool(b bool) c14V { return c14V{kind: 'b', bval: b} }

type c14Frame struct {
	fn        *ssa.Function
	env       map[ssa.Value]c14V
	blk, prev *ssa.BasicBlock
	pc        int
	ret       *ssa.Call
	seen      map[*ssa.BasicBlock]bool
}

type c14State struct {
	stack []*c14Frame
	cells [][]c14V
	facts c14Facts
}

func (s *c14State) clone() *c14State {
	n := &c14State{facts: s.facts.with()}
	for _, f := range s.stack {
		g := *f
		g.env = make(map[ssa.Value]c14V, len(f.env))
		for k, v := range f.env {
			g.env[k] = v
		}
		g.seen = make(map[*ssa.BasicBlock]bool, len(f.seen))
		for k, v := range f.seen {
			g.seen[k] = v
		}
		n.stack = append(n.stack, &g)
	}
	for _, c := range s.cells {
		n.cells = append(n.cells, append([]c14V{}, c...))
	}
	return n
}

type c14Path struct {
	facts c14Facts // branch facts of this path (the precondition is kept separately)
	res   c14V
}

type c14Exec struct {
	pre      c14Facts
	paths    []c14Path
	err      string
	budget   int
	probeAt  ssa.Instruction // when set: collect the value of probeVal where probeAt executes in the root frame
	probeVal ssa.Value
	missed   int
}

// c14Wide: arithmetic is modelled only for 64-bit signed integers (int64, int and named
// types over them); other widths would wrap differently from ℤ and are left unknown.
func c14Wide(t types.Type) bool {
	b, ok := t.Underlying().(*types.Basic)
	return ok && (b.Kind() == types.Int64 || b.Kind() == types.Int)
}

func c14IsInt(t types.Type) bool {
	b, ok := t.Underlying().(*types.Basic)
	return ok && b.Info()&types.IsInteger != 0
}

func (x *c14Exec) zero(t types.Type) c14V {
	switch u := t.Underlying().(type) {
	case *types.Struct:
		v := c14V{kind: 's'}
		for i := 0; i < u.NumFields(); i++ {
			v.fs = append(v.fs, x.zero(u.Field(i).Type()))
		}
		return v
	case *types.Basic:
		if u.Info()&types.IsInteger != 0 {
			return c14Int(c14K(0))
		}
		if u.Info()&types.IsBoolean != 0 {
			return c14Bool(false)
		}
	}
	return c14V{}
}

func (x *c14Exec) val(fr *c14Frame, v ssa.Value) c14V {
	if k, ok := v.(*ssa.Const); ok {
		if k.Value == nil {
			return x.zero(k.Type())
		}
		switch k.Value.Kind() {
		case constant.Bool:
			return c14Bool(constant.BoolVal(k.Value))
		case constant.Int:
			if i, ok := constant.Int64Val(k.Value); ok && c14IsInt(k.Type()) {
				return c14Int(c14K(i))
			}
		}
		return c14V{}
	}
	return fr.env[v]
}

func (x *c14Exec) enter(fr *c14Frame, b *ssa.BasicBlock) {
	if fr.seen[b] {
		x.err = fmt.Sprintf("%s is not loop-free (block %d revisited)", fnName(fr.fn), b.Index)
	}
	fr.seen[b] = true
	fr.prev, fr.blk, fr.pc = fr.blk, b, 0
}

func c14NewFrame(fn *ssa.Function) *c14Frame {
	return &c14Frame{fn: fn, env: map[ssa.Value]c14V{}, blk: fn.Blocks[0], seen: map[*ssa.BasicBlock]bool{fn.Blocks[0]: true}}
}

func (x *c14Exec) binop(in *ssa.BinOp, a, b c14V) c14V {
	if a.kind != 'i' || b.kind != 'i' {
		return c14V{}
	}
	switch in.Op {
	case token.EQL, token.NEQ, token.LSS, token.LEQ, token.GTR, token.GEQ:
		if a.t.op == 'k' && b.t.op == 'k' {
			return c14Bool(c14Cmp(in.Op, a.t.k, b.t.k))
		}
		return c14V{kind: 'b', atom: &c14F{in.Op, a.t, b.t}}
	}
	if !c14Wide(in.Type()) {
		return c14V{}
	}
	switch in.Op {
	case token.ADD:
		return c14Int(c14Bin('+', 0, a.t, b.t))
	case token.SUB:
		return c14Int(c14Bin('-', 0, a.t, b.t))
	case token.MUL:
		if a.t.op == 'k' {
			return c14Int(c14Bin('*', a.t.k, b.t, nil))
		}
		if b.t.op == 'k' {
			return c14Int(c14Bin('*', b.t.k, a.t, nil))
		}
	case token.QUO:
		if b.t.op == 'k' && b.t.k > 0 {
			return c14Int(c14Bin('/', b.t.k, a.t, nil))
		}
	}
	return c14V{}
}

func (x *c14Exec) run(st *c14State) {
	for x.err == "" {
		if x.budget--; x.budget < 0 {
			x.err = "path budget exhausted"
			return
		}
		fr := st.stack[len(st.stack)-1]
		instr := fr.blk.Instrs[fr.pc]
		fr.pc++
		if x.probeAt != nil && instr == x.probeAt && len(st.stack) == 1 {
			// probe mode: the path ends where the consumer is called; its argument is the result
			x.paths = append(x.paths, c14Path{st.facts.with(), x.val(fr, x.probeVal)})
			return
		}
		switch in := instr.(type) {
		case *ssa.DebugRef:
		case *ssa.Alloc:
			st.cells = append(st.cells, nil)
			id := len(st.cells) - 1
			z := x.zero(in.Type().Underlying().(*types.Pointer).Elem())
			if z.kind == 's' {
				st.cells[id] = append([]c14V{}, z.fs...)
			} else {
				st.cells[id] = []c14V{z}
			}
			fr.env[in] = c14V{kind: 'p', cell: id, idx: -1}
		case *ssa.Store:
			p, v := x.val(fr, in.Addr), x.val(fr, in.Val)
			switch {
			case p.kind != 'p':
				x.err = fmt.Sprintf("store through an address the prover does not track in %s", fnName(fr.fn))
			case p.idx >= 0:
				st.cells[p.cell][p.idx] = v
			case v.kind == 's' && len(v.fs) == len(st.cells[p.cell]):
				st.cells[p.cell] = append([]c14V{}, v.fs...)
			case len(st.cells[p.cell]) == 1:
				st.cells[p.cell][0] = v
			default:
				x.err = "whole-struct store of an unknown value"
			}
		case *ssa.FieldAddr:
			if p := x.val(fr, in.X); p.kind == 'p' && p.idx == -1 && in.Field < len(st.cells[p.cell]) {
				fr.env[in] = c14V{kind: 'p', cell: p.cell, idx: in.Field}
			}
		case *ssa.Field:
			if s := x.val(fr, in.X); s.kind == 's' && in.Field < len(s.fs) {
				fr.env[in] = s.fs[in.Field]
			}
		case *ssa.UnOp:
			a := x.val(fr, in.X)
			switch {
			case in.Op == token.MUL && a.kind == 'p' && a.idx >= 0:
				fr.env[in] = st.cells[a.cell][a.idx]
			case in.Op == token.MUL && a.kind == 'p':
				if _, isStruct := in.Type().Underlying().(*types.Struct); isStruct {
					fr.env[in] = c14V{kind: 's', fs: append([]c14V{}, st.cells[a.cell]...)}
				} else {
					fr.env[in] = st.cells[a.cell][0]
				}
			case in.Op == token.SUB && a.kind == 'i' && c14Wide(in.Type()):
				fr.env[in] = c14Int(c14Bin('*', -1, a.t, nil))
			case in.Op == token.NOT && a.kind == 'b' && a.atom == nil:
				fr.env[in] = c14Bool(!a.bval)
			case in.Op == token.NOT && a.kind == 'b':
				n := a.atom.neg()
				fr.env[in] = c14V{kind: 'b', atom: &n}
			}
		case *ssa.BinOp:
			fr.env[in] = x.binop(in, x.val(fr, in.X), x.val(fr, in.Y))
		case *ssa.ChangeType:
			fr.env[in] = x.val(fr, in.X)
		case *ssa.Convert:
			if c14Wide(in.Type()) && c14Wide(in.X.Type()) {
				fr.env[in] = x.val(fr, in.X)
			}
		case *ssa.Phi:
			for i, p := range fr.blk.Preds {
				if p == fr.prev {
					fr.env[in] = x.val(fr, in.Edges[i])
				}
			}
		case *ssa.Call:
			if b, ok := in.Call.Value.(*ssa.Builtin); ok && (b.Name() == "min" || b.Name() == "max") && c14Wide(in.Type()) {
				op := map[string]byte{"min": 'n', "max": 'x'}[b.Name()]
				acc := x.val(fr, in.Call.Args[0])
				for _, a := range in.Call.Args[1:] {
					if v := x.val(fr, a); acc.kind == 'i' && v.kind == 'i' {
						acc = c14Int(c14Bin(op, 0, acc.t, v.t))
					} else {
						acc = c14V{}
					}
				}
				fr.env[in] = acc
				continue
			}
			callee := in.Call.StaticCallee()
			inline := callee != nil && isOwn(callee) && callee.Blocks != nil && len(callee.FreeVars) == 0 && len(st.stack) < 6 && len(callee.Params) == len(in.Call.Args)
			for _, f := range st.stack {
				inline = inline && f.fn != callee
			}
			if !inline {
				for _, a := range in.Call.Args {
					if x.val(fr, a).kind == 'p' {
						x.err = fmt.Sprintf("%s passes a tracked address to a call that cannot be inlined (%s)", fnName(fr.fn), in.Call.Value.Name())
					}
				}
				continue // result unknown
			}
			nf := c14NewFrame(callee)
			for i, p := range callee.Params {
				nf.env[p] = x.val(fr, in.Call.Args[i])
			}
			nf.ret = in
			st.stack = append(st.stack, nf)
		case *ssa.Extract:
			if tu := x.val(fr, in.Tuple); tu.kind == 't' && in.Index < len(tu.fs) {
				fr.env[in] = tu.fs[in.Index]
			}
		case *ssa.Jump:
			x.enter(fr, fr.blk.Succs[0])
		case *ssa.If:
			cv := x.val(fr, in.Cond)
			if cv.kind != 'b' {
				x.err = fmt.Sprintf("%s branches on a condition the prover cannot express", fnName(fr.fn))
				return
			}
			if cv.atom == nil {
				x.enter(fr, fr.blk.Succs[map[bool]int{true: 0, false: 1}[cv.bval]])
				continue
			}
			for i, f := range []c14F{*cv.atom, cv.atom.neg()} {
				s2 := st.clone()
				s2.facts = append(s2.facts, f)
				if append(x.pre.with(), s2.facts...).contradictory() {
					continue // infeasible branch (rule C)
				}
				x.enter(s2.stack[len(s2.stack)-1], fr.blk.Succs[i])
				x.run(s2)
			}
			return
		case *ssa.Return:
			rv := c14V{kind: 't'} // several results: a tuple, taken apart by Extract
			for _, r := range in.Results {
				rv.fs = append(rv.fs, x.val(fr, r))
			}
			if len(in.Results) == 1 {
				rv = rv.fs[0]
			}
			if len(st.stack) == 1 {
				if x.probeAt != nil {
					x.missed++ // returned without reaching the probed consumer
				} else {
					x.paths = append(x.paths, c14Path{st.facts.with(), rv})
				}
				return
			}
			st.stack = st.stack[:len(st.stack)-1]
			st.stack[len(st.stack)-1].env[fr.ret] = rv
		default:
			x.err = fmt.Sprintf("%s contains %T, outside the loop-free integer fragment", fnName(fr.fn), instr)
		}
	}
}

// c14Root describes a call f(args...) whose arguments are the time-control struct
// (by value "tc" / by pointer "tcptr") and the side to move ("stm").
type c14Root struct {
	fn    *ssa.Function
	roles []string
	// probe: instead of fn's result, the value handed to a consumer (time.NewTimer, WithSoftTime)
	// that fn itself calls — a helper like newHardTimer(tc, stm) wrapping the timer creation.
	probeAt  ssa.Instruction
	probeVal ssa.Value
}

func (r c14Root) key() string {
	k := fnName(r.fn) + "(" + strings.Join(r.roles, ",") + ")"
	if r.probeAt != nil {
		k += fmt.Sprintf("@consumer%d", r.probeAt.Pos())
	}
	return k
}

// c14Enumerate returns every feasible path of root under the precondition pre.
func c14Enumerate(root c14Root, st *types.Struct, pre c14Facts) ([]c14Path, string) {
	x := &c14Exec{pre: pre, budget: 200000, probeAt: root.probeAt, probeVal: root.probeVal}
	s := &c14State{}
	fr := c14NewFrame(root.fn)
	var fields []c14V
	for i := 0; i < st.NumFields(); i++ {
		if c14Wide(st.Field(i).Type()) {
			fields = append(fields, c14Int(c14Var(i)))
		} else {
			fields = append(fields, c14V{})
		}
	}
	for i, p := range root.fn.Params {
		switch root.roles[i] {
		case "tc":
			fr.env[p] = c14V{kind: 's', fs: fields}
		case "tcptr":
			s.cells = append(s.cells, append([]c14V{}, fields...))
			fr.env[p] = c14V{kind: 'p', cell: len(s.cells) - 1, idx: -1}
		case "stm":
			fr.env[p] = c14Int(c14Var(-1))
		}
	}
	s.stack = []*c14Frame{fr}
	x.run(s)
	if x.err == "" && x.missed > 0 {
		x.err = fmt.Sprintf("%s returns on %d path(s) without reaching the consumer it wraps", fnName(root.fn), x.missed)
	}
	return x.paths, x.err
}

// c14Simplify removes branch facts that carry no information and merges sibling paths, so
// that "fields mentioned" is insensitive to the order in which conditions are tested:
//
//	S-drop   a fact implied by the precondition and the remaining facts of its path is dropped (rule I)
//	S-merge  (A ∧ φ ⇒ r) and (A ∧ ¬φ ⇒ r) with the same result term r merge into (A ⇒ r)
func c14Simplify(pre c14Facts, in []c14Path) []c14Path {
	ps := append([]c14Path{}, in...)
	for changed := true; changed; {
		changed = false
		for pi := range ps {
			for i := 0; i < len(ps[pi].facts); i++ {
				rest := append(ps[pi].facts[:i:i].with(), ps[pi].facts[i+1:]...)
				if append(pre.with(), rest...).implies(ps[pi].facts[i]) {
					ps[pi].facts, changed = rest, true
					i--
				}
			}
		}
	merge:
		for i := range ps {
			for j := i + 1; j < len(ps); j++ {
				if common, ok := c14Mergeable(ps[i], ps[j]); ok {
					ps[i].facts = common
					ps = append(ps[:j], ps[j+1:]...)
					changed = true
					break merge
				}
			}
		}
	}
	return ps
}

func c14Mergeable(p, q c14Path) (c14Facts, bool) {
	if p.res.kind != 'i' || q.res.kind != 'i' || !c14Eq(p.res.t, q.res.t) || len(p.facts) != len(q.facts) {
		return nil, false
	}
	var common c14Facts
	var odd []c14F
	used := make([]bool, len(q.facts))
	for _, f := range p.facts {
		hit := false
		for j, g := range q.facts {
			if !used[j] && f.eq(g) {
				used[j], hit = true, true
				break
			}
		}
		if hit {
			common = append(common, f)
		} else {
			odd = append(odd, f)
		}
	}
	if len(odd) != 1 {
		return nil, false
	}
	for j, g := range q.facts {
		if !used[j] && odd[0].neg().eq(g) {
			return common, true
		}
	}
	return nil, false
}

// ---------- caller-side resolution (handleGo and its closures) ----------

type c14Fam struct {
	fns  []*ssa.Function
	bind map[*ssa.FreeVar]ssa.Value
}

func c14Family(root *ssa.Function) *c14Fam {
	f := &c14Fam{fns: withClosures(root), bind: map[*ssa.FreeVar]ssa.Value{}}
	for _, fn := range f.fns {
		allInstrs(fn, func(in ssa.Instruction) {
			if mc, ok := in.(*ssa.MakeClosure); ok {
				if cl, ok := mc.Fn.(*ssa.Function); ok {
					for i, fv := range cl.FreeVars {
						if i < len(mc.Bindings) {
							f.bind[fv] = mc.Bindings[i]
						}
					}
				}
			}
		})
	}
	return f
}

// origin maps a captured variable to the parent's storage.
func (f *c14Fam) origin(v ssa.Value) ssa.Value {
	for {
		fv, ok := v.(*ssa.FreeVar)
		if !ok || f.bind[fv] == nil {
			return v
		}
		v = f.bind[fv]
	}
}

func (f *c14Fam) stores(a ssa.Value) []*ssa.Store {
	var out []*ssa.Store
	for _, fn := range f.fns {
		allInstrs(fn, func(in ssa.Instruction) {
			if st, ok := in.(*ssa.Store); ok && f.origin(st.Addr) == a {
				out = append(out, st)
			}
		})
	}
	return out
}

// resolve follows loads of local variables that have exactly one store in the family.
func (f *c14Fam) resolve(v ssa.Value) ssa.Value {
	for i := 0; i < 8; i++ {
		u, ok := v.(*ssa.UnOp)
		if !ok || u.Op != token.MUL {
			return v
		}
		a, ok := f.origin(u.X).(*ssa.Alloc)
		if !ok {
			return v
		}
		if _, isStruct := a.Type().Underlying().(*types.Pointer).Elem().Underlying().(*types.Struct); isStruct {
			return v
		}
		st := f.stores(a)
		if len(st) != 1 {
			return v
		}
		v = st[0].Val
	}
	return v
}

// loadOfStructAlloc: v is a load of (or the address of) a local struct variable.
func (f *c14Fam) structAlloc(v ssa.Value) (*ssa.Alloc, string) {
	role := "tcptr"
	if u, ok := v.(*ssa.UnOp); ok && u.Op == token.MUL {
		v, role = u.X, "tc"
	}
	a, ok := f.origin(v).(*ssa.Alloc)
	if !ok {
		return nil, ""
	}
	if _, isStruct := a.Type().Underlying().(*types.Pointer).Elem().Underlying().(*types.Struct); !isStruct {
		return nil, ""
	}
	return a, role
}

// c14W is the wiring context shared by the rules.
type c14W struct {
	c      *Ctx
	p      *Prog
	fam    *c14Fam
	goFn   *ssa.Function
	tc     *ssa.Alloc    // the time-control struct filled by this command
	st     *types.Struct // its type
	stmSrc ssa.Value     // resolved source of the side-to-move argument
	// roles filled from the UCI token switch (R4): field indices
	clock   [2]int
	inc     [2]int
	mt      int
	colour  [2]int64 // values of chess.White, chess.Black
	margin  int64
	rolesOK bool
	ms      int64 // time.Millisecond in time.Duration units
}

// site: a value k·f(tc, stm) found at a consumer (timer / soft-time option).
type c14Site struct {
	at   ssa.CallInstruction
	name string
	unit int64     // constant factor applied at the call site
	tv   ssa.Value // the value (in handleGo's family) that carries the created timer, nil if unknown
	S    int64     // units per millisecond the consumer expects
	root c14Root
	err  string
}

// scale strips conversions and constant factors: v = unit · core.
func (w *c14W) scale(v ssa.Value) (int64, ssa.Value, bool) {
	unit := int64(1)
	for i := 0; i < 16; i++ {
		v = w.fam.resolve(v)
		switch x := v.(type) {
		case *ssa.ChangeType:
			v = x.X
			continue
		case *ssa.Convert:
			if c14Wide(x.Type()) && c14Wide(x.X.Type()) {
				v = x.X
				continue
			}
		case *ssa.BinOp:
			if x.Op == token.MUL && c14Wide(x.Type()) {
				kx, okx := x.X.(*ssa.Const)
				ky, oky := x.Y.(*ssa.Const)
				var k int64
				var ok bool
				if okx {
					k, ok = constOf(kx)
					v = x.Y
				} else if oky {
					k, ok = constOf(ky)
					v = x.X
				}
				if ok {
					if unit, ok = c14MulOK(unit, k); ok {
						continue
					}
				}
				return 0, nil, false
			}
		}
		return unit, v, true
	}
	return 0, nil, false
}

// classify turns a call f(args) into a root, checking that every argument is the
// time-control struct or the side to move. touches=false when no argument is.
func (w *c14W) classify(v ssa.Value) (root c14Root, touches bool, err string) {
	call, ok := v.(*ssa.Call)
	if !ok {
		return root, false, "not a call"
	}
	fn := call.Call.StaticCallee()
	var roles []string
	for _, a := range call.Call.Args {
		if al, role := w.fam.structAlloc(a); al != nil {
			if w.tc == nil {
				w.tc = al
				w.st = al.Type().Underlying().(*types.Pointer).Elem().Underlying().(*types.Struct)
			}
			if al != w.tc {
				return root, true, "argument is a different struct variable than the one the other sites use"
			}
			roles = append(roles, role)
			touches = true
			continue
		}
		r := w.fam.resolve(a)
		if c14IsInt(r.Type()) && !c14Wide(r.Type()) {
			if w.stmSrc == nil {
				w.stmSrc = r
			}
			if r != w.stmSrc {
				return root, true, "side-to-move argument does not come from the same source as at the other sites"
			}
			roles = append(roles, "stm")
			touches = true
			continue
		}
		roles = append(roles, "?")
	}
	if !touches {
		return root, false, ""
	}
	if fn == nil || !isOwn(fn) || fn.Blocks == nil || len(fn.Params) != len(roles) {
		return root, true, "callee is not a statically known chess-3 function"
	}
	for _, r := range roles {
		if r == "?" {
			return root, true, "call mixes time-control arguments with values the rule does not understand"
		}
	}
	return c14Root{fn: fn, roles: roles}, true, ""
}

// touchesTC: does v depend on the time-control struct or the side-to-move source?
func (w *c14W) touchesTC(v ssa.Value) bool {
	sl := backSlice(v, sliceOpts{ThroughCalls: true, ThroughLoads: true})
	for x := range sl {
		o := w.fam.origin(x)
		if (w.tc != nil && o == w.tc) || (w.stmSrc != nil && x == w.stmSrc) {
			return true
		}
		if u, ok := x.(*ssa.UnOp); ok && u.Op == token.MUL {
			if a, ok := w.fam.origin(u.X).(*ssa.Alloc); ok {
				for _, st := range w.fam.stores(a) {
					if st.Val == w.stmSrc && w.stmSrc != nil {
						return true
					}
				}
			}
		}
	}
	return false
}

// pre builds the precondition of a domain: 0/1 = clock-decided for colour index d
// (stm == colour, own clock ≥ 1, move time absent = 0); 2 = fixed move time (mt ≥ 1).
// Every field additionally ranges over [-10^12, 10^12] (assumption, see Assume).
func (w *c14W) pre(d int) c14Facts {
	var fs c14Facts
	for i := 0; i < w.st.NumFields(); i++ {
		fs = append(fs, c14Fact(c14Var(i), token.GEQ, c14K(-c14Dom)), c14Fact(c14Var(i), token.LEQ, c14K(c14Dom)))
	}
	if d == 2 {
		return append(fs, c14Fact(c14Var(w.mt), token.GEQ, c14K(1)))
	}
	return append(fs, c14Fact(c14Var(-1), token.EQL, c14K(w.colour[d])), c14Fact(c14Var(w.clock[d]), token.GEQ, c14K(1)),
		c14Fact(c14Var(w.mt), token.EQL, c14K(0)))
}

var c14DomName = [3]string{"White", "Black", "movetime"}

// grid of in-domain boundary values for counterexample search.
func (w *c14W) grid(d int, v int) []int64 {
	m := w.margin
	if v < 0 {
		return w.colour[:]
	}
	g := []int64{0, 1, 2, m - 1, m, m + 1, 2*m - 1, 2 * m, 2*m + 1, 4 * m, 30 * m, 31 * m, 1_000_000, 1_000_000_000}
	if v == w.clock[0] || v == w.clock[1] || v == w.mt {
		g = append(g, c14Dom)
	}
	var out []int64
	for _, x := range g {
		if x >= 0 {
			out = append(out, x)
		}
	}
	return out
}

// witness searches the grid for an in-domain input that satisfies all facts and violates goal.
func (w *c14W) witness(d int, fs c14Facts, res *c14T, goal func(env map[int]int64, r int64) bool) string {
	fs = fs[2*w.st.NumFields():] // the grid is inside the domain bounds by construction
	set := map[int]bool{}
	res.vars(set)
	for _, f := range fs {
		f.a.vars(set)
		f.b.vars(set)
	}
	var vars []int
	for v := range set {
		vars = append(vars, v)
	}
	sort.Ints(vars)
	if len(vars) > 5 {
		return ""
	}
	env := map[int]int64{}
	var rec func(i int) string
	rec = func(i int) string {
		if i < len(vars) {
			for _, x := range w.grid(d, vars[i]) {
				env[vars[i]] = x
				if s := rec(i + 1); s != "" {
					return s
				}
			}
			return ""
		}
		for _, f := range fs {
			a, ok1 := f.a.eval(env)
			b, ok2 := f.b.eval(env)
			if !ok1 || !ok2 || !c14Cmp(f.op, a, b) {
				return ""
			}
		}
		r, ok := res.eval(env)
		if !ok || goal(env, r) {
			return ""
		}
		var parts []string
		for _, v := range vars {
			parts = append(parts, fmt.Sprintf("%s=%d", c14Var(v), env[v]))
		}
		return fmt.Sprintf("%s gives %d", strings.Join(parts, " "), r)
	}
	return rec(0)
}

// ---------- rules ----------

func init() {
	register(&Property{
		ID: "C14",
		Explain: "Static conditions for 'the hard deadline is positive, never later than the mover's remaining time, keeps the safety margin, equals movetime when given, and depends only on the mover's own clock'. " +
			"The functions analysed are whatever handleGo wires into time.NewTimer (hard deadline) and search.WithSoftTime (soft target); the meaning of the struct fields is taken from the UCI token switch (R4), not from names. " +
			"R1: all paths of the deadline function (callees and Clamp's min/max inlined from SSA) are enumerated under each domain precondition (White to move / Black to move with own clock ≥ 1 and no movetime; movetime ≥ 1), strengthened by the tc/stm conditions guarding the call site, and a fixed set of monotonicity rules proves result ≥ 1, result ≤ remaining, remaining > margin ⇒ result ≤ remaining − margin, result = movetime, and absence of int64 overflow incl. the conversion to nanoseconds; an unprovable goal is 'undecided' unless a boundary-grid evaluation of the derived term yields a concrete counterexample (then 'violation'). " +
			"R2: after merging paths that differ only in irrelevant tests, no field carried by an opponent's UCI token is mentioned on a colour's paths; a mention is a violation only with two grid inputs that differ in that field alone and give different deadlines, otherwise undecided. " +
			"A chess-3 helper h(tc, stm) that creates the timer or the option itself is followed: the value its consumer receives is probed on every path of h. Branch facts about arbitrary sub-terms (explicit bounds checks instead of Clamp) are used by the prover (rules F, L-fact). " +
			"The value checked is the one the consumer receives, in the consumer's unit (time.Millisecond per ms for a timer, 1 for WithSoftTime), so a unit conversion may sit at the call site or inside a helper. " +
			"R3: every timer in handleGo is time.NewTimer(k · f(tc, stm)) with stm loaded once from d.board.STM (directly or through an accessor), the conditions on tc/stm guarding it are proved to hold on the whole domain (the timer is really armed; otherwise undecided, with a grid input on which the guard is false), its channel is a select case whose body leaves the goroutine, whose deferred close releases the stop channel given to the search; WithSoftTime receives soft(tc, stm) under a guard that holds for movetime. " +
			"R4: each of wtime/btime/winc/binc/movetime stores a value derived from args into its own distinct field of tc, and nothing else stores to tc. " +
			"Not decided: wall-clock behaviour, scheduling latency, what the search does with the soft target.",
		Assume: []string{
			"every timeControl field is within [-10^12, 10^12] ms (superset of the stated domain: clocks 1..10^12, increments 0..10^9); absence of int64 overflow is proved, not assumed, under this bound",
			"'movetime absent' means the field keeps its zero value (tc is a fresh local, stored only by the token cases: checked by R4)",
			"go/ssa models the program faithfully; int is 64 bits wide",
			"UCI: wtime/winc are White's remaining time/increment, btime/binc Black's, all in milliseconds; time.Duration counts nanoseconds",
		},
		Run: runC14,
	})
}

func runC14(c *Ctx) {
	p := c.need("default")
	if p == nil {
		return
	}
	goFn := p.Func("uci.(*Driver).handleGo")
	if goFn == nil {
		c.Anchor("C14.R3", "uci.(*Driver).handleGo")
		return
	}
	w := &c14W{c: c, p: p, fam: c14Family(goFn), goFn: goFn}
	hard, soft := w.sites()
	if tp := p.All["time"]; tp != nil && tp.Types != nil {
		if k, ok := tp.Types.Scope().Lookup("Millisecond").(*types.Const); ok {
			w.ms, _ = constant.Int64Val(constant.ToInt(k.Val()))
		}
	}
	for _, s := range hard {
		s.S = w.ms
	}
	for _, s := range soft {
		s.S = 1
	}
	if w.tc == nil || w.stmSrc == nil {
		c.Undec("C14.R3", "wiring", goFn.Pos(), "no consumer of a deadline computed from a local time-control struct and a side to move was found in handleGo: shape not understood")
		return
	}
	c14Names = nil
	for i := 0; i < w.st.NumFields(); i++ {
		c14Names = append(c14Names, w.st.Field(i).Name())
	}
	w.r4()
	wv, ok1 := p.pkgConstInt("chess.White")
	bv, ok2 := p.pkgConstInt("chess.Black")
	m, ok3 := p.pkgConstInt("uci.TimeSafetyMargin")
	switch {
	case !ok1 || !ok2:
		c.Anchor("C14.R1", "chess.White / chess.Black")
	case !ok3 || m < 1:
		c.Anchor("C14.R1", "uci.TimeSafetyMargin (positive constant)")
	case w.ms <= 0:
		c.Anchor("C14.R1", "time.Millisecond")
	case w.rolesOK:
		w.colour, w.margin = [2]int64{wv, bv}, m
		w.r1r2(hard, soft)
		w.r3guards(hard, soft)
	}
	w.r3(hard, soft)
}

// readOnly: no function reachable from fn stores to (or leaks the address of) a field of tc's struct type.
func (w *c14W) readOnly(fn *ssa.Function) bool {
	n, _ := types.Unalias(w.tc.Type().Underlying().(*types.Pointer).Elem()).(*types.Named)
	if n == nil || n.Obj().Pkg() == nil {
		return false
	}
	prefix := relPkg(n.Obj().Pkg().Path()) + "." + n.Obj().Name() + "."
	eff := unionEffects(w.p.closure([]*ssa.Function{fn}, nil))
	for _, m := range []map[string][]site{eff.FieldWrites, eff.Escapes} {
		for k := range m {
			if strings.HasPrefix(k, prefix) {
				return false
			}
		}
	}
	return len(eff.Unresolved) == 0
}

// builder: v is (a result of) a call to a chess-3 function that returns, on every return, the current value
// of one and the same local struct variable; gives that function's family, the local, and the callee
// parameter that receives the caller's argument list `args`.
func (w *c14W) builder(fam *c14Fam, v ssa.Value, args ssa.Value) (*c14Fam, *ssa.Alloc, ssa.Value, bool) {
	idx := 0
	if ex, ok := v.(*ssa.Extract); ok {
		idx, v = ex.Index, ex.Tuple
	}
	call, ok := v.(*ssa.Call)
	if !ok {
		return nil, nil, nil, false
	}
	callee := call.Call.StaticCallee()
	if callee == nil || !isOwn(callee) || callee.Blocks == nil || len(callee.Params) != len(call.Call.Args) {
		return nil, nil, nil, false
	}
	var local *ssa.Alloc
	nRet := 0
	for _, b := range callee.Blocks {
		if b == callee.Recover || len(b.Instrs) == 0 {
			continue
		}
		ret, ok := b.Instrs[len(b.Instrs)-1].(*ssa.Return)
		if !ok {
			continue
		}
		if idx >= len(ret.Results) {
			return nil, nil, nil, false
		}
		u, ok := returnedValue(ret, idx).(*ssa.UnOp)
		if !ok || u.Op != token.MUL {
			return nil, nil, nil, false
		}
		a, ok := u.X.(*ssa.Alloc)
		if !ok || (local != nil && a != local) || !types.Identical(a.Type(), w.tc.Type()) {
			return nil, nil, nil, false
		}
		local = a
		nRet++
	}
	if nRet == 0 {
		return nil, nil, nil, false
	}
	var hargs ssa.Value
	for j, a := range call.Call.Args {
		if args != nil && (a == args || fam.resolve(a) == args) {
			hargs = callee.Params[j]
		}
	}
	return c14Family(callee), local, hargs, true
}

// r4: token ↔ field map of the UCI switch.
func (w *c14W) r4() {
	const rule = "C14.R4"
	c := w.c
	tokens := []string{"wtime", "btime", "winc", "binc", "movetime"}
	fields := map[string]map[int]*ssa.Store{}
	bad := 0
	argsOK := map[string]bool{}
	builders := 0
	var zeroStores, tokStores []*ssa.Store
	// scan attributes the stores to the struct variable tc of one function family to UCI token tests.
	// A whole-struct store of a value built by a chess-3 helper (tc, … := d.parseGoArgs(args)) is followed
	// into the helper: the struct it returns must be one local of the helper on every return, and that
	// local's field stores are attributed in the helper in the same way.
	var scan func(fam *c14Fam, tc *ssa.Alloc, args ssa.Value, depth int)
	scan = func(fam *c14Fam, tc *ssa.Alloc, args ssa.Value, depth int) {
		for _, fn := range fam.fns {
			// the struct must not escape: only field addressing, loads, stores and capture are allowed
			for _, b := range fn.Blocks {
				for _, in := range b.Instrs {
					for _, op := range in.Operands(nil) {
						if *op == nil || fam.origin(*op) != tc {
							continue
						}
						switch x := in.(type) {
						case *ssa.FieldAddr:
							for _, r := range *x.Referrers() {
								st, isStore := r.(*ssa.Store)
								u, isLoad := r.(*ssa.UnOp)
								if _, dbg := r.(*ssa.DebugRef); !dbg && !(isStore && st.Addr == x) && !(isLoad && u.Op == token.MUL) {
									c.Undec(rule, "tc-escapes", r.Pos(), "the address of field %s of the time-control struct is used by %T: stores to it are not all visible", w.st.Field(x.Field).Name(), r)
									bad++
								}
							}
						case *ssa.MakeClosure, *ssa.DebugRef:
						case *ssa.UnOp:
						case *ssa.Store:
							if k, isConst := x.Val.(*ssa.Const); x.Addr == *op && (!isConst || k.Value != nil) {
								if u, ok := x.Val.(*ssa.UnOp); ok && u.Op == token.MUL && fam.origin(u.X) == tc {
									continue // tc = tc: go/ssa's copy of a named result onto itself at a return
								}
								if hf, ha, hargs, ok := w.builder(fam, x.Val, args); ok && depth < 2 && len(tokStores) == 0 {
									builders++
									scan(hf, ha, hargs, depth+1)
									continue
								}
								c.Undec(rule, "tc-whole-store", x.Pos(), "the time-control struct is overwritten as a whole with a value that is neither zero nor the struct built by a chess-3 helper the rule can follow: fields can no longer be attributed to UCI tokens")
								bad++
							}
						case *ssa.Call:
							// pointer receivers / helpers taking &tc: fine when the callee (transitively) never
							// writes a field of this struct type nor lets such an address escape
							if callee := x.Call.StaticCallee(); callee != nil && isOwn(callee) && callee.Blocks != nil && w.readOnly(callee) {
								continue
							}
							c.Undec(rule, "tc-escapes", in.Pos(), "the time-control struct's address is passed to %s, which may store to it: stores are not all visible", x.Call.Value.Name())
							bad++
						default:
							c.Undec(rule, "tc-escapes", in.Pos(), "the time-control struct's address is used by %T in %s: stores to it are not all visible", in, fnName(fn))
							bad++
						}
					}
					st, ok := in.(*ssa.Store)
					if !ok {
						continue
					}
					fa, ok := st.Addr.(*ssa.FieldAddr)
					if !ok || fam.origin(fa.X) != tc {
						continue
					}
					var toks []string
					for _, ce := range controllingConds(b) {
						if bo, ok := ce.Cond.(*ssa.BinOp); ok && ce.True && bo.Op == token.EQL {
							for _, side := range []ssa.Value{bo.X, bo.Y} {
								if k, ok := side.(*ssa.Const); ok && k.Value != nil && k.Value.Kind() == constant.String {
									toks = append(toks, constant.StringVal(k.Value))
								}
							}
						}
					}
					if k, isZero := constOf(st.Val); len(toks) == 0 && isZero && k == 0 {
						zeroStores = append(zeroStores, st) // field-wise zeroing; must precede every token store (checked below)
						continue
					}
					if len(toks) != 1 || !strings.Contains(" "+strings.Join(tokens, " ")+" ", " "+toks[0]+" ") {
						c.Undec(rule, "store:"+w.st.Field(fa.Field).Name(), st.Pos(), "field %s of the time-control struct is stored outside the case of exactly one of the UCI tokens %v (controlling tokens: %v): its meaning cannot be established", w.st.Field(fa.Field).Name(), tokens, toks)
						bad++
						continue
					}
					if fields[toks[0]] == nil {
						fields[toks[0]] = map[int]*ssa.Store{}
					}
					fields[toks[0]][fa.Field] = st
					tokStores = append(tokStores, st)
					sl := backSlice(st.Val, sliceOpts{ThroughCalls: true, ThroughLoads: true})
					argsOK[toks[0]] = args != nil && sl[args]
				}
			}
		}
	}
	var goArgs ssa.Value
	if len(w.goFn.Params) > 1 {
		goArgs = w.goFn.Params[1]
	}
	scan(w.fam, w.tc, goArgs, 0)
	if builders > 1 {
		c.Undec(rule, "tc-whole-store", w.goFn.Pos(), "the time-control struct is assigned from %d helper results: which one the limit functions see is not established", builders)
		bad++
	}
	for _, z := range zeroStores {
		for _, t := range tokStores {
			if hit, _, _ := c14Reaches(t.Block(), z.Block()); hit || t.Block() == z.Block() || t.Parent() != z.Parent() {
				c.Undec(rule, "store:"+w.st.Field(z.Addr.(*ssa.FieldAddr).Field).Name(), z.Pos(), "a field of the time-control struct is reset to 0 where a value parsed from a UCI token may already have been stored: what the limit functions see is not established")
				bad++
				break
			}
		}
	}
	n := 0
	slot := map[string]int{}
	owner := map[int]string{}
	for _, t := range tokens {
		fs := fields[t]
		if len(fs) != 1 {
			c.Undec(rule, "token:"+t, w.goFn.Pos(), "UCI token %q stores %d different fields of the time-control struct (exactly one expected)", t, len(fs))
			bad++
			continue
		}
		for f, st := range fs {
			slot[t] = f
			switch {
			case owner[f] != "":
				c.Fail(rule, "token:"+t, st.Pos(), "tokens %q and %q are both stored into field %s: e.g. 'go %s 1000 %s 600000' makes the later value overwrite the earlier, so one side's limit is computed from the other token's number", owner[f], t, w.st.Field(f).Name(), owner[f], t)
				bad++
			case !argsOK[t]:
				c.Undec(rule, "token:"+t, st.Pos(), "value stored for token %q does not derive from handleGo's argument list", t)
				bad++
			default:
				c.Ok(rule, "token:"+t, st.Pos(), "token %q → field %s (value derived from args; stored only under this case)", t, w.st.Field(f).Name())
				n++
			}
			owner[f] = t
		}
	}
	c.Floor(rule, n, 5, "UCI time tokens mapped to distinct fields")
	if bad == 0 && n == 5 {
		w.clock = [2]int{slot["wtime"], slot["btime"]}
		w.inc = [2]int{slot["winc"], slot["binc"]}
		w.mt = slot["movetime"]
		w.rolesOK = true
	}
}

// sites finds the consumers: timers (package time) and search.WithSoftTime, in handleGo and its closures.
func (w *c14W) sites() (hard, soft []*c14Site) {
	consumer := func(ci ssa.CallInstruction) (isTimer, isSoft bool, name string) {
		obj := calleeObj(ci)
		if obj == nil || obj.Pkg() == nil || len(ci.Common().Args) == 0 {
			return
		}
		isTimer = obj.Pkg().Path() == "time" && map[string]bool{"NewTimer": true, "After": true, "AfterFunc": true, "Tick": true, "NewTicker": true, "Reset": true}[obj.Name()]
		return isTimer, objName(obj) == "search.WithSoftTime", obj.Name()
	}
	add := func(s *c14Site, isSoft bool) {
		if isSoft {
			s.name = fmt.Sprintf("soft#%d", len(soft))
			soft = append(soft, s)
		} else {
			s.name = fmt.Sprintf("timer#%d", len(hard))
			hard = append(hard, s)
		}
	}
	const notNewTimer = " is not understood by the rule (only time.NewTimer is)"
	// pass 1: consumers called in handleGo or its closures
	for _, fn := range w.fam.fns {
		allInstrs(fn, func(in ssa.Instruction) {
			ci, ok := in.(ssa.CallInstruction)
			if !ok {
				return
			}
			isTimer, isSoft, name := consumer(ci)
			if !isTimer && !isSoft {
				return
			}
			s := &c14Site{at: ci}
			s.tv, _ = in.(ssa.Value)
			if isTimer && name != "NewTimer" {
				s.err = "timer source time." + name + notNewTimer
			} else if unit, core, ok := w.scale(ci.Common().Args[0]); !ok {
				s.err = "argument is not (constant ·) a call"
			} else {
				s.unit = unit
				var touches bool
				s.root, touches, s.err = w.classify(core)
				if !touches && s.err == "" {
					s.err = "argument is not computed from the time-control struct and the side to move"
				}
			}
			add(s, isSoft)
		})
	}
	// pass 2: helpers h(tc, stm) of chess-3 that create the timer / the option themselves; the value
	// the consumer receives inside h is probed on every path of h
	for _, fn := range w.fam.fns {
		allInstrs(fn, func(in ssa.Instruction) {
			call, ok := in.(*ssa.Call)
			if !ok {
				return
			}
			callee := call.Call.StaticCallee()
			if callee == nil || !isOwn(callee) || callee.Blocks == nil {
				return
			}
			hasTC := false
			for _, a := range call.Call.Args {
				if al, _ := w.fam.structAlloc(a); al != nil && (w.tc == nil || al == w.tc) {
					hasTC = true
				}
			}
			if !hasTC {
				return
			}
			var inner []ssa.CallInstruction
			allInstrs(callee, func(x ssa.Instruction) {
				if ci, ok := x.(ssa.CallInstruction); ok {
					if t, so, _ := consumer(ci); t || so {
						inner = append(inner, ci)
					}
				}
			})
			if len(inner) == 0 {
				return
			}
			root, touches, err := w.classify(call)
			for _, ci := range inner {
				isTimer, isSoft, name := consumer(ci)
				s := &c14Site{at: call, unit: 1, err: err}
				if s.err == "" && !touches {
					s.err = "helper wrapping the consumer is not called with the time-control struct and the side to move"
				}
				if s.err == "" && isTimer && name != "NewTimer" {
					s.err = "timer source time." + name + notNewTimer
				}
				root.probeAt, root.probeVal = ci, ci.Common().Args[0]
				s.root = root
				if iv, ok := ci.(ssa.Value); ok { // does the helper hand the timer back to its caller?
					allInstrs(callee, func(x ssa.Instruction) {
						if ret, ok := x.(*ssa.Return); ok && len(ret.Results) > 0 && backSlice(ret.Results[0], sliceOpts{ThroughLoads: true})[iv] {
							s.tv = call
						}
					})
				}
				add(s, isSoft)
			}
		})
	}
	return
}

type c14Goal struct {
	name  string
	prove func(fs c14Facts, t *c14T) bool
	holds func(env map[int]int64, r int64) bool // nil: no counterexample search
	why   string
}

// goals for the value handed to the consumer, which counts S units per millisecond
// (S = time.Millisecond for a timer, 1 for search.WithSoftTime).
func (w *c14W) goals(d int, S int64) []c14Goal {
	noOverflow := c14Goal{"no-overflow", func(fs c14Facts, t *c14T) bool {
		ok := true
		chk := func(s *c14T) {
			if s.op == 'k' || s.op == 'v' {
				return // leaves: fields are bounded by the domain assumption, stm is a byte
			}
			lo, ok1 := fs.bound(s, false)
			hi, ok2 := fs.bound(s, true)
			ok = ok && ok1 && ok2 && lo > -c14Safe && hi < c14Safe
		}
		t.subterms(chk)
		for _, f := range fs {
			f.a.subterms(chk)
			f.b.subterms(chk)
		}
		hi, ok1 := fs.bound(t, true)
		lo, ok2 := fs.bound(t, false)
		return ok && ok1 && ok2 && lo > -c14Safe && hi < c14Safe
	}, nil, "an intermediate value (or the conversion to time.Duration) may leave int64 inside the stated domain: the integer reasoning of the other goals does not transfer to the machine"}
	if d == 2 {
		mt := w.mt
		return []c14Goal{{"equals-movetime", func(fs c14Facts, t *c14T) bool { k, core := c14Coef(t); return k == S && c14Eq(core, c14Var(mt)) },
			func(env map[int]int64, r int64) bool { return r == S*env[mt] }, "with a fixed move time the limit must equal it (in the consumer's unit)"}, noOverflow}
	}
	r, m := w.clock[d], w.margin
	return []c14Goal{
		{"positive", func(fs c14Facts, t *c14T) bool { lo, ok := fs.bound(t, false); return ok && lo >= 1 },
			func(env map[int]int64, v int64) bool { return v >= 1 }, "a non-positive duration fires the timer at once: the search is aborted before it has a move"},
		{"le-remaining", func(fs c14Facts, t *c14T) bool { return fs.le(t, S, int64(r), 0) },
			func(env map[int]int64, v int64) bool { return v <= S*env[r] }, "the deadline is later than the remaining time: loss on time"},
		{"keeps-margin", func(fs c14Facts, t *c14T) bool {
			fs2 := fs.with(c14Fact(c14Var(r), token.GTR, c14K(m)))
			return fs2.contradictory() || fs2.le(t, S, int64(r), -S*m)
		}, func(env map[int]int64, v int64) bool { return env[r] <= m || v <= S*(env[r]-m) }, "more than the safety margin remains but the deadline eats into it"},
		noOverflow,
	}
}

// c14Guard is a condition on (tc, stm) that controls a consumer: root(tc, stm) == want.
type c14Guard struct {
	root c14Root
	want bool
	pos  token.Pos
	err  string // non-empty: depends on tc/stm but is not a call the rule can evaluate
}

// guardsOf lists the time-control dependent conditions controlling site s; conditions that do
// not depend on tc/stm (ponder mode, command words) are not C14's business and are skipped.
func (w *c14W) guardsOf(s *c14Site) []c14Guard {
	var out []c14Guard
	for _, ce := range controllingConds(s.at.Block()) {
		v, want := w.fam.resolve(ce.Cond), ce.True
		for {
			u, ok := v.(*ssa.UnOp)
			if !ok || u.Op != token.NOT {
				break
			}
			v, want = w.fam.resolve(u.X), !want
		}
		root, touches, err := w.classify(v)
		if touches && err == "" {
			out = append(out, c14Guard{root: root, want: want, pos: v.Pos()})
		} else if w.touchesTC(v) {
			out = append(out, c14Guard{pos: v.Pos(), err: "a condition depending on the time-control struct is not a call f(tc, stm) the rule can evaluate: " + err})
		}
	}
	return out
}

// guardPaths splits the paths of g under pre into those on which g == want is possible
// (returned as strengthened preconditions pre ∧ path ∧ [atom]) and those on which it is refuted or unknown.
func (w *c14W) guardPaths(g c14Guard, pre c14Facts) (sat []c14Facts, unsat []c14Facts, err string) {
	paths, err := c14Enumerate(g.root, w.st, pre)
	if err != "" {
		return nil, nil, err
	}
	for _, pa := range paths {
		fs := append(pre.with(), pa.facts...)
		switch {
		case pa.res.kind != 'b':
			return nil, nil, "guard returns a value the prover cannot express"
		case pa.res.atom == nil && pa.res.bval == g.want:
			sat = append(sat, fs)
		case pa.res.atom == nil:
			unsat = append(unsat, fs)
		default:
			yes, no := *pa.res.atom, pa.res.atom.neg()
			if !g.want {
				yes, no = no, yes
			}
			if f := fs.with(yes); !f.contradictory() {
				sat = append(sat, f)
			}
			if f := fs.with(no); !f.contradictory() {
				unsat = append(unsat, f)
			}
		}
	}
	return
}

// pres: the domain precondition of d strengthened by the guards of the site (the limit
// function only has to behave where the site actually calls it).
func (w *c14W) pres(s *c14Site, d int) ([]c14Facts, string) {
	pres := []c14Facts{w.pre(d)}
	for _, g := range w.guardsOf(s) {
		if g.err != "" {
			continue // reported by r3guards; the unrefined precondition is the stronger obligation
		}
		var next []c14Facts
		for _, p := range pres {
			sat, _, err := w.guardPaths(g, p)
			if err != "" {
				return nil, err
			}
			next = append(next, sat...)
		}
		pres = next
	}
	return pres, ""
}

// prove runs the goals of domain d over all paths of the site's root; returns the paths grouped by precondition.
func (w *c14W) prove(rule string, s *c14Site, d int, only string) (groups [][]c14Path, pres []c14Facts, n int) {
	c, root, nd := w.c, s.root, 2*w.st.NumFields()
	// construct keys name the role, not the function: extracting/renaming helpers must not move obligations
	name := map[bool]string{true: "soft-target", false: "deadline"}[s.S == 1] + "@" + c14DomName[d]
	pres, err := w.pres(s, d)
	type tagged struct {
		pre c14Facts
		c14Path
	}
	var all []tagged
	for _, pre := range pres {
		paths, e := c14Enumerate(root, w.st, pre)
		if e != "" {
			err = e
		}
		for i := range paths { // the consumer receives unit · f(tc, stm); a factor applied inside f is already in the term
			if paths[i].res.kind == 'i' && s.unit != 1 {
				paths[i].res.t = c14Bin('*', s.unit, paths[i].res.t, nil)
			}
		}
		groups = append(groups, paths)
		for _, pa := range paths {
			all = append(all, tagged{pre, pa})
			if only == "" {
				c.Note("%s: %s ⇒ %v", name, append(pre[nd:].with(), pa.facts...), pa.res.t)
			}
		}
	}
	if err == "" && len(all) == 0 {
		err = "no feasible path: the site's guards exclude the whole domain (see R3 guards)"
	}
	if err != "" {
		c.Undec(rule, name, root.fn.Pos(), "cannot enumerate the paths of %s for domain %s: %s", fnName(root.fn), c14DomName[d], err)
		return nil, nil, 0
	}
	for _, g := range w.goals(d, s.S) {
		if only != "" && g.name != only {
			continue
		}
		failed := false
		for _, pa := range all {
			fs := append(pa.pre.with(), pa.facts...)
			if pa.res.kind == 'i' && g.prove(fs, pa.res.t) {
				continue
			}
			failed = true
			shown := fmt.Sprintf("on path %s of %s %s receives %v (expected unit: %d per ms)", fs[nd:], fnName(root.fn), s.name, pa.res.t, s.S)
			wit := ""
			if pa.res.kind == 'i' && g.holds != nil {
				wit = w.witness(d, fs, pa.res.t, g.holds)
			}
			switch {
			case pa.res.kind != 'i':
				c.Undec(rule, name+"#"+g.name, root.fn.Pos(), "path %s returns a value the prover cannot express as an integer term", fs[nd:])
			case wit != "":
				c.Fail(rule, name+"#"+g.name, root.fn.Pos(), "%s; goal %s fails for the in-domain input %s — %s", shown, g.name, wit, g.why)
			default:
				c.Undec(rule, name+"#"+g.name, root.fn.Pos(), "%s; goal %s is not derivable with the prover's rules and no grid counterexample was found — %s", shown, g.name, g.why)
			}
			break
		}
		if !failed {
			c.Ok(rule, name+"#"+g.name, root.fn.Pos(), "%s proved on all %d feasible paths of %s (callees inlined) under %s and the site's guards", g.name, len(all), fnName(root.fn), w.pre(d)[nd:])
			n++
		}
	}
	return groups, pres, n
}

// depends searches the grid for two in-domain inputs that differ only in field f and give different deadlines.
func (w *c14W) depends(d int, groups [][]c14Path, pres []c14Facts, f int) string {
	nd := 2 * w.st.NumFields()
	all := map[int]bool{}
	for gi, paths := range groups {
		for _, ft := range pres[gi][nd:] {
			ft.a.vars(all)
			ft.b.vars(all)
		}
		for _, pa := range paths {
			if pa.res.kind == 'i' {
				pa.res.t.vars(all)
			}
			for _, ft := range pa.facts {
				ft.a.vars(all)
				ft.b.vars(all)
			}
		}
	}
	var vars []int
	size := len(w.grid(d, f))
	for v := range all {
		if v != f {
			vars = append(vars, v)
			size *= len(w.grid(d, v))
		}
	}
	sort.Ints(vars)
	if size > 4_000_000 {
		return ""
	}
	env := map[int]int64{}
	evalFn := func() (int64, bool) {
		for gi, paths := range groups {
			for _, pa := range paths {
				if pa.res.kind != 'i' {
					continue
				}
				for _, ft := range append(pres[gi][nd:].with(), pa.facts...) {
					a, ok1 := ft.a.eval(env)
					b, ok2 := ft.b.eval(env)
					if !ok1 || !ok2 || !c14Cmp(ft.op, a, b) {
						goto next
					}
				}
				return pa.res.t.eval(env)
			next:
			}
		}
		return 0, false
	}
	var rec func(i int) string
	rec = func(i int) string {
		if i < len(vars) {
			for _, x := range w.grid(d, vars[i]) {
				env[vars[i]] = x
				if s := rec(i + 1); s != "" {
					return s
				}
			}
			return ""
		}
		first, have, at := int64(0), false, int64(0)
		for _, x := range w.grid(d, f) {
			env[f] = x
			r, ok := evalFn()
			switch {
			case !ok:
			case !have:
				first, have, at = r, true, x
			case r != first:
				var parts []string
				for _, v := range vars {
					parts = append(parts, fmt.Sprintf("%s=%d", c14Var(v), env[v]))
				}
				return fmt.Sprintf("for %s the result is %d with %s=%d but %d with %s=%d", strings.Join(parts, " "), first, c14Var(f), at, r, c14Var(f), x)
			}
		}
		return ""
	}
	return rec(0)
}

func (w *c14W) r1r2(hard, soft []*c14Site) {
	c := w.c
	n1, n2 := 0, 0
	done := map[string]bool{}
	siteKey := func(s *c14Site) string {
		k := fmt.Sprintf("%d*%s", s.unit, s.root.key())
		for _, g := range w.guardsOf(s) {
			k += fmt.Sprintf("|%s=%v%s", g.root.key(), g.want, g.err)
		}
		return k
	}
	for _, s := range hard {
		if s.err != "" || done[siteKey(s)] {
			continue
		}
		done[siteKey(s)] = true
		for d := 0; d < 3; d++ {
			groups, pres, n := w.prove("C14.R1", s, d, "")
			n1 += n
			if d == 2 || groups == nil {
				continue
			}
			// R2: fields mentioned (facts and result) after S-drop/S-merge
			ment := map[int]bool{}
			simp := make([][]c14Path, len(groups))
			for gi, paths := range groups {
				simp[gi] = c14Simplify(pres[gi], paths)
				for _, pa := range simp[gi] {
					if pa.res.kind == 'i' {
						pa.res.t.vars(ment)
					}
					for _, f := range pa.facts {
						f.a.vars(ment)
						f.b.vars(ment)
					}
				}
			}
			for f := 0; f < w.st.NumFields(); f++ {
				if !ment[f] {
					continue
				}
				key := fmt.Sprintf("deadline@%s:%s", c14DomName[d], w.st.Field(f).Name())
				if f == w.clock[1-d] || f == w.inc[1-d] {
					what := map[bool]string{true: "clock", false: "increment"}[f == w.clock[1-d]]
					if wit := w.depends(d, simp, pres, f); wit != "" {
						c.Fail("C14.R2", key, s.root.fn.Pos(), "with %s to move the deadline depends on field %s, which carries the opponent's UCI token (%s): %s", c14DomName[d], w.st.Field(f).Name(), what, wit)
					} else {
						c.Undec("C14.R2", key, s.root.fn.Pos(), "with %s to move the deadline mentions field %s, which carries the opponent's UCI token (%s), but no pair of grid inputs differing only in that field changes the result: dependence not established", c14DomName[d], w.st.Field(f).Name(), what)
					}
				} else {
					c.Ok("C14.R2", key, s.root.fn.Pos(), "field %s mentioned with %s to move is not carried by an opponent's token", w.st.Field(f).Name(), c14DomName[d])
					n2++
				}
			}
		}
	}
	for _, s := range soft {
		if s.err == "" && !done["soft:"+siteKey(s)] {
			done["soft:"+siteKey(s)] = true
			_, _, n := w.prove("C14.R1", s, 2, "equals-movetime")
			n1 += n
		}
	}
	c.Floor("C14.R1", n1, 11, "bound goals proved (2 colours × 4 + movetime × 2 for the deadline, movetime × 1 for the soft target)")
	c.Floor("C14.R2", n2, 2, "(colour, mentioned field) pairs (each colour must at least mention its own clock)")
}

// r3guards: every condition on tc/stm that controls a consumer must hold on the whole domain,
// otherwise this site installs no deadline for some clock state. (Undecided rather than violated:
// another site may cover the remaining inputs.)
func (w *c14W) r3guards(hard, soft []*c14Site) {
	const rule = "C14.R3"
	c, n := w.c, 0
	check := func(s *c14Site, doms []int) {
		for gi, g := range w.guardsOf(s) {
			if g.err != "" {
				c.Undec(rule, fmt.Sprintf("%s:guard#%d", s.name, gi), g.pos, "%s", g.err)
				continue
			}
			key, ok := s.name+":guard:"+fnName(g.root.fn), true
			for _, d := range doms {
				_, unsat, err := w.guardPaths(g, w.pre(d))
				if err != "" {
					c.Undec(rule, key, g.pos, "cannot evaluate guard %s under domain %s: %s", fnName(g.root.fn), c14DomName[d], err)
					ok = false
				} else if len(unsat) > 0 {
					wit := strings.TrimSuffix(w.witness(d, unsat[0], c14K(0), func(map[int]int64, int64) bool { return false }), " gives 0")
					c.Undec(rule, key, g.pos, "%s is reached only when %s is %v, which cannot be shown on domain %s: path %s (grid input: %q). Unless another timer covers such inputs no deadline / soft target is installed although the clock is running", s.name, fnName(g.root.fn), g.want, c14DomName[d], unsat[0][2*w.st.NumFields():], wit)
					ok = false
				}
				if !ok {
					break
				}
			}
			if ok {
				c.Ok(rule, key, g.pos, "guard %s(%s) = %v holds on every path under the domains %v: %s is installed whenever a clock is given", fnName(g.root.fn), strings.Join(g.root.roles, ","), g.want, doms, s.name)
				n++
			}
		}
	}
	for _, s := range hard {
		if s.err == "" {
			check(s, []int{0, 1, 2})
		}
	}
	for _, s := range soft {
		if s.err == "" {
			check(s, []int{2})
		}
	}
	c.Floor(rule+".guards", n, 1, "time-control guards proved to hold on the domain")
}

func c14Reaches(from, target *ssa.BasicBlock) (hitsTarget, hitsReturn, closes bool) {
	seen := map[*ssa.BasicBlock]bool{}
	var dfs func(b *ssa.BasicBlock)
	dfs = func(b *ssa.BasicBlock) {
		if b == target {
			hitsTarget = true
			return
		}
		if seen[b] {
			return
		}
		seen[b] = true
		for _, in := range b.Instrs {
			if ci, ok := in.(ssa.CallInstruction); ok {
				if bi, ok := ci.Common().Value.(*ssa.Builtin); ok && bi.Name() == "close" {
					closes = true
				}
			}
			if _, ok := in.(*ssa.Return); ok {
				hitsReturn = true
			}
		}
		for _, s := range b.Succs {
			dfs(s)
		}
	}
	dfs(from)
	return
}

// flowsFrom: may v carry (part of) the value target? Follows SSA operands, loads, and —
// for loads of locals of the handleGo family (incl. captured ones) — every value stored to them.
func (w *c14W) flowsFrom(v, target ssa.Value, seen map[ssa.Value]bool) bool {
	for x := range backSlice(v, sliceOpts{ThroughLoads: true}) {
		if x == target {
			return true
		}
		if u, ok := x.(*ssa.UnOp); ok && u.Op == token.MUL && !seen[x] {
			seen[x] = true
			if a, ok := w.fam.origin(u.X).(*ssa.Alloc); ok {
				for _, st := range w.fam.stores(a) {
					if w.flowsFrom(st.Val, target, seen) {
						return true
					}
				}
			}
		}
	}
	return false
}

// r3: units, side-to-move source, and what happens when the timer fires.
func (w *c14W) r3(hard, soft []*c14Site) {
	const rule = "C14.R3"
	c := w.c
	nT, nS := 0, 0
	for _, s := range append(append([]*c14Site{}, hard...), soft...) {
		if s.err != "" {
			c.Undec(rule, s.name+":argument", s.at.Pos(), "%s", s.err)
			continue
		}
		c.Ok(rule, s.name+":argument", s.at.Pos(), "%s receives %d × %s(%s) with tc the struct filled by the token switch and stm the value loaded once in handleGo (unit and bounds of this value: R1)", s.name, s.unit, fnName(s.root.fn), strings.Join(s.root.roles, ","))
		if s.S == 1 {
			nS++
		} else {
			nT++
		}
	}
	c.Floor(rule+".sites", min(nT, nS), 1, "of each: time.NewTimer and search.WithSoftTime consumers wired to tc/stm")

	// side to move: loaded in handleGo itself (before the search goroutine exists) from d.board.STM
	okSrc := false
	src, where := w.stmSrc, ssa.Instruction(nil)
	if in, ok := src.(ssa.Instruction); ok {
		where = in
	}
	var base ssa.Value
	if call, ok := src.(*ssa.Call); ok { // accessor method returning its receiver's STM field
		if fn := call.Call.StaticCallee(); fn != nil && isOwn(fn) && len(fn.Blocks) == 1 && len(fn.Params) >= 1 && len(call.Call.Args) >= 1 {
			if ret, ok := fn.Blocks[0].Instrs[len(fn.Blocks[0].Instrs)-1].(*ssa.Return); ok && len(ret.Results) == 1 {
				if u, ok := ret.Results[0].(*ssa.UnOp); ok && u.Op == token.MUL {
					if fr, ok := asFieldAddr(u.X); ok && fr.QName() == "board.Board.STM" && fr.Base == ssa.Value(fn.Params[0]) {
						base = call.Call.Args[0]
					}
				}
			}
		}
	} else if u, ok := src.(*ssa.UnOp); ok && u.Op == token.MUL {
		if fr, ok := asFieldAddr(u.X); ok && fr.QName() == "board.Board.STM" {
			base = fr.Base
		}
	}
	if base != nil && where != nil && where.Parent() == w.goFn {
		if bu, ok := w.fam.resolve(base).(*ssa.UnOp); ok && bu.Op == token.MUL {
			if br, ok := asFieldAddr(bu.X); ok && br.QName() == "uci.Driver.board" {
				okSrc = true
			}
		}
	}
	if okSrc {
		c.Ok(rule, "stm-source", w.stmSrc.Pos(), "the side to move used by every site is one load of d.board.STM in handleGo (not re-read while the search mutates the board)")
	} else {
		c.Undec(rule, "stm-source", w.stmSrc.Pos(), "the colour handed to the limit functions is not a plain load of d.board.STM made in handleGo: it cannot be established that the deadline is computed for the side whose clock is running (and not from a board the search is mutating)")
	}

	// timer fires ⇒ goroutine returns ⇒ deferred close releases the stop channel of the search
	nFire := 0
	var stopAlloc ssa.Value
	for _, fn := range w.fam.fns {
		for _, ci := range callsIn(fn, "search.WithStop") {
			if u, ok := stripConv(ci.Common().Args[0]).(*ssa.UnOp); ok && u.Op == token.MUL {
				stopAlloc = w.fam.origin(u.X)
			}
		}
	}
	for _, s := range hard {
		if s.err != "" {
			continue
		}
		tv := s.tv
		fn := s.at.Parent()
		var sel *ssa.Select
		idx := -1
		for _, f := range w.fam.fns { // the select may live in an enclosing closure; the channel may travel through captured locals
			allInstrs(f, func(in ssa.Instruction) {
				if se, ok := in.(*ssa.Select); ok {
					for i, st := range se.States {
						if st.Dir == types.RecvOnly && tv != nil && w.flowsFrom(st.Chan, tv, map[ssa.Value]bool{}) {
							sel, idx, fn = se, i, f
						}
					}
				}
			})
		}
		key := s.name + ":fires"
		if sel == nil {
			c.Undec(rule, key, s.at.Pos(), "the channel of this timer is not a receive case of a select in %s: how the deadline interrupts the search is not understood", fnName(fn))
			continue
		}
		var body *ssa.BasicBlock
		allInstrs(fn, func(in ssa.Instruction) {
			iff, ok := in.(*ssa.If)
			if !ok {
				return
			}
			if bo, ok := iff.Cond.(*ssa.BinOp); ok && bo.Op == token.EQL {
				if ex, ok := bo.X.(*ssa.Extract); ok && ex.Tuple == sel && ex.Index == 0 {
					if k, ok := constOf(bo.Y); ok && int(k) == idx {
						body = iff.Block().Succs[0]
					}
				}
			}
		})
		if body == nil {
			c.Undec(rule, key, sel.Pos(), "cannot locate the body of the timer's select case")
			continue
		}
		// Path reasoning (bpath.go): walk every block-simple path from the case body with phis resolved by the
		// edge taken, so a loop flag set to false in the body makes the loop test fail and the path leave the loop.
		// certainAgain: a path comes back to the select without passing any undecided test, store or call —
		// the goroutine definitely keeps waiting. maybeAgain: a path comes back, but only past tests/effects
		// the walk cannot evaluate (e.g. a flag kept in memory).
		certainAgain, maybeAgain, returns, odd := false, false, 0, ""
		if !enumBlockPaths(body, func(from, to *ssa.BasicBlock) bool { return to == sel.Block() }, 20000, func(bp *bpath) {
			switch {
			case bp.End == "return":
				returns++
			case bp.End == "panic":
			case bp.Arrive == sel.Block():
				clean := len(bp.Conds) == 0
				bp.instrsOnPath(nil, func(in ssa.Instruction, at int) {
					switch in.(type) {
					case *ssa.Store, ssa.CallInstruction, *ssa.Send, *ssa.MapUpdate:
						clean = false
					}
				})
				if clean {
					certainAgain = true
				} else {
					maybeAgain = true
				}
			default:
				odd = "a cycle that does not pass through the select"
			}
		}) {
			odd = "path budget exhausted"
		}
		closes := false
		allInstrs(fn, func(in ssa.Instruction) {
			if df, ok := in.(*ssa.Defer); ok && df.Block().Dominates(sel.Block()) {
				if b, ok := df.Call.Value.(*ssa.Builtin); ok && b.Name() == "close" {
					if u, ok := stripConv(df.Call.Args[0]).(*ssa.UnOp); ok && u.Op == token.MUL && stopAlloc != nil && w.fam.origin(u.X) == stopAlloc {
						closes = true
					}
				}
			}
		})
		switch {
		case certainAgain:
			c.Fail(rule, key, sel.Pos(), "after the hard timer fires the interrupt goroutine can wait in the select again instead of returning: the stop channel is not closed and the search runs past the deadline")
		case maybeAgain || odd != "" || returns == 0:
			c.Undec(rule, key, sel.Pos(), "after the hard timer fires it cannot be established that the goroutine leaves its loop (%s; %d returning paths): how the search is stopped is not understood", map[bool]string{true: "a path may reach the select again past tests or effects the walk cannot evaluate", false: odd}[maybeAgain], returns)
		case !closes:
			c.Undec(rule, key, sel.Pos(), "the goroutine returns when the timer fires but no 'defer close(stop)' on the channel given to search.WithStop dominates the select: how the search is stopped is not understood")
		default:
			c.Ok(rule, key, sel.Pos(), "timer channel is select case %d; every path from its body leaves %s (loop flags resolved per path) and the deferred close releases the channel given to search.WithStop", idx, fnName(fn))
			nFire++
		}
	}
	c.Floor(rule+".fires", nFire, 1, "timers whose firing stops the search")
}

func init() {
	const hl = "return Clamp(4*tc.softLimit(stm), TimeSafetyMargin, timeLeft-TimeSafetyMargin)"
	addMutants(
		Mutant{Name: "C14.R1-clamp-upper-without-margin", Prop: "C14", File: "uci/uci.go", Quick: true,
			Old: hl, New: "return Clamp(4*tc.softLimit(stm), TimeSafetyMargin, timeLeft)",
			Expect: "C14.R1/deadline@White#keeps-margin"},
		Mutant{Name: "C14.R1-margin-test-off-by-one", Prop: "C14", File: "uci/uci.go", Quick: true,
			Old: "if timeLeft <= TimeSafetyMargin {", New: "if timeLeft < TimeSafetyMargin {",
			Expect: "C14.R1/deadline@White#positive"},
		Mutant{Name: "C14.R1-clamp-bounds-swapped", Prop: "C14", File: "uci/uci.go",
			Old: hl, New: "return Clamp(4*tc.softLimit(stm), timeLeft-TimeSafetyMargin, TimeSafetyMargin)",
			Expect: "C14.R1/deadline@Black#keeps-margin"},
		Mutant{Name: "C14.R1-margin-added-not-subtracted", Prop: "C14", File: "uci/uci.go",
			Old: hl, New: "return Clamp(4*tc.softLimit(stm), TimeSafetyMargin, timeLeft+TimeSafetyMargin)",
			Expect: "C14.R1/deadline@White#le-remaining"},
		Mutant{Name: "C14.R1-clamp-rewritten-max-of-min", Prop: "C14", File: "chess/math.go",
			Old: "return min(b, max(x, a))", New: "return max(a, min(x, b))",
			Expect: "C14.R1/deadline@White#keeps-margin"},
		Mutant{Name: "C14.R1-soft-movetime-halved", Prop: "C14", File: "uci/uci.go",
			Old: "func (tc timeControl) softLimit(stm Color) int64 {\n\tif tc.mtime > 0 {\n\t\treturn tc.mtime\n", New: "func (tc timeControl) softLimit(stm Color) int64 {\n\tif tc.mtime > 0 {\n\t\treturn tc.mtime / 2\n",
			Expect: "C14.R1/soft-target@movetime#equals-movetime"},
		Mutant{Name: "C14.R1-rearm-with-soft-limit", Prop: "C14", File: "uci/uci.go",
			Old: "if ponder && tc.timedMode(stm) {\n\t\t\t\t\t\thardTimer = time.NewTimer(time.Duration(tc.hardLimit(stm)) * time.Millisecond)", New: "if ponder && tc.timedMode(stm) {\n\t\t\t\t\t\thardTimer = time.NewTimer(time.Duration(tc.softLimit(stm)) * time.Millisecond)",
			Expect: "C14.R1/deadline@White#le-remaining"},
		Mutant{Name: "C14.R1-wtime-btime-tokens-swapped", Prop: "C14", File: "uci/uci.go",
			Old: "case \"wtime\":\n\t\t\ttc.wtime = parseInt64(args[i+1])\n\t\tcase \"btime\":\n\t\t\ttc.btime = parseInt64(args[i+1])", New: "case \"wtime\":\n\t\t\ttc.btime = parseInt64(args[i+1])\n\t\tcase \"btime\":\n\t\t\ttc.wtime = parseInt64(args[i+1])",
			Expect: "C14.R1/deadline@White#le-remaining"},
		Mutant{Name: "C14.R2-white-soft-peeks-at-black-increment", Prop: "C14", File: "uci/uci.go", Quick: true,
			Old: "return tc.wtime/PredictedMoves + tc.winc/2", New: "return tc.wtime/PredictedMoves + tc.binc/2",
			Expect: "C14.R2/deadline@White:binc"},
		Mutant{Name: "C14.R2-winc-binc-tokens-swapped", Prop: "C14", File: "uci/uci.go",
			Old: "case \"winc\":\n\t\t\ttc.winc = parseInt64(args[i+1])\n\t\tcase \"binc\":\n\t\t\ttc.binc = parseInt64(args[i+1])", New: "case \"winc\":\n\t\t\ttc.binc = parseInt64(args[i+1])\n\t\tcase \"binc\":\n\t\t\ttc.winc = parseInt64(args[i+1])",
			Expect: "C14.R2/deadline@"},
		Mutant{Name: "C14.R2-hard-limit-caps-by-opponent-clock", Prop: "C14", File: "uci/uci.go",
			Old: "\tif stm == White && tc.wtime > 0 {\n\t\ttimeLeft = tc.wtime\n\t}", New: "\tif stm == White && tc.wtime > 0 {\n\t\ttimeLeft = min(tc.wtime, max(tc.btime, 1))\n\t}",
			Expect: "C14.R2/deadline@White:btime"},
		Mutant{Name: "C14.R1-timer-in-seconds", Prop: "C14", File: "uci/uci.go", Quick: true,
			Old: "if !ponder && tc.timedMode(stm) {\n\t\t\thardTimer = time.NewTimer(time.Duration(tc.hardLimit(stm)) * time.Millisecond)", New: "if !ponder && tc.timedMode(stm) {\n\t\t\thardTimer = time.NewTimer(time.Duration(tc.hardLimit(stm)) * time.Second)",
			Expect: "C14.R1/deadline@White#le-remaining"},
		Mutant{Name: "C14.R3-timer-case-keeps-waiting", Prop: "C14", File: "uci/uci.go",
			Old: "case <-hardC:\n\t\t\t\treturn", New: "case <-hardC:\n\t\t\t\thardC = nil",
			Expect: "C14.R3/timer#0:fires"},
		Mutant{Name: "C14.R3-guard-needs-more-than-margin", Prop: "C14", File: "uci/uci.go",
			Old: "return (stm == White && tc.wtime > 0) ||", New: "return (stm == White && tc.wtime > TimeSafetyMargin) ||",
			Expect: "C14.R3/timer#0:guard"},
		Mutant{Name: "C14.R3-stm-flipped", Prop: "C14", File: "uci/uci.go",
			Old: "stm := d.board.STM\n\tif tc.timedMode(stm)", New: "stm := d.board.STM.Flip()\n\tif tc.timedMode(stm)",
			Expect: "C14.R3/stm-source"},
		Mutant{Name: "C14.R4-winc-stored-into-wtime", Prop: "C14", File: "uci/uci.go",
			Old: "case \"winc\":\n\t\t\ttc.winc = parseInt64(args[i+1])", New: "case \"winc\":\n\t\t\ttc.wtime = parseInt64(args[i+1])",
			Expect: "C14.R4/token:winc"},
		Mutant{Name: "C14.R4-nodes-also-sets-movetime", Prop: "C14", File: "uci/uci.go",
			Old: "nodes := parseInt(args[i+1])\n", New: "nodes := parseInt(args[i+1])\n\t\t\ttc.mtime = int64(nodes) / 1000\n",
			Expect: "C14.R4/store:mtime"},
	)
}
