package main

// Loading of /repo's current working tree into a type-checked program with
// SSA form and (lazily) a VTA call graph. Nothing here executes chess-3 code.

import (
	"fmt"
	"go/ast"
	"go/token"
	"go/types"
	"os"
	"path/filepath"
	"sort"
	"strings"
	"sync"

	"golang.org/x/tools/go/callgraph"
	"golang.org/x/tools/go/callgraph/cha"
	"golang.org/x/tools/go/callgraph/vta"
	"golang.org/x/tools/go/packages"
	"golang.org/x/tools/go/ssa"
	"golang.org/x/tools/go/ssa/ssautil"
)

// Mod is the import path of the analysed module.
const Mod = "github.com/paulsonkoly/chess-3"

// goBin is the pre-installed toolchain able to load /repo (go.mod says go 1.25.4).
const goBin = "/opt/veriftools/go1.26.8/bin"

// TunerMod is the import path of the tuner tool module.
const TunerMod = Mod + "/tools/tuner"

// RepoDir returns the directory analysed; /repo unless CHESSLINT_REPO is set
// (used by the mutant corpus, which analyses scratch copies).
func RepoDir() string {
	if d := os.Getenv("CHESSLINT_REPO"); d != "" {
		return d
	}
	return "/repo"
}

// Prog is one loaded configuration.
type Prog struct {
	Name  string
	Dir   string
	Fset  *token.FileSet
	Pkgs  []*packages.Package // root packages (the module's own)
	All   map[string]*packages.Package
	SSA   *ssa.Program
	Notes []string // load notes (e.g. packages with type errors that are tolerated)

	cgOnce sync.Once
	cg     *callgraph.Graph

	declOnce sync.Once
	decls    map[*types.Func]*ast.FuncDecl
	declFile map[*ast.FuncDecl]*ast.File
}

// LoadError is returned when a configuration cannot be analysed.
type LoadError struct{ Msg string }

func (e *LoadError) Error() string { return e.Msg }

func loadEnv() []string {
	env := os.Environ()
	out := env[:0:0]
	for _, kv := range env {
		k, _, _ := strings.Cut(kv, "=")
		switch k {
		case "GOFLAGS", "GOPROXY", "GOWORK", "GOTOOLCHAIN", "GOSUMDB", "PATH":
			continue
		}
		out = append(out, kv)
	}
	path := os.Getenv("PATH")
	if _, err := os.Stat(goBin + "/go"); err == nil {
		path = goBin + ":" + path
	}
	out = append(out, "PATH="+path)
	out = append(out, "GOFLAGS=-mod=mod", "GOPROXY=off", "GOWORK=off", "GOTOOLCHAIN=local")
	return out
}

// Load loads patterns in dir. tolerate lists package path suffixes whose type
// errors are tolerated (they are analysed at AST level with partial types).
func Load(name, dir string, tags string, patterns []string, minPkgs int, tolerate []string, withSSA bool, overlay map[string][]byte) (*Prog, error) {
	fset := token.NewFileSet()
	cfg := &packages.Config{
		Mode:    packages.LoadAllSyntax,
		Dir:     dir,
		Fset:    fset,
		Env:     loadEnv(),
		Tests:   false,
		Overlay: overlay,
	}
	if tags != "" {
		cfg.BuildFlags = []string{"-tags=" + tags}
	}
	pkgs, err := packages.Load(cfg, patterns...)
	if err != nil {
		return nil, &LoadError{fmt.Sprintf("config %s: packages.Load: %v", name, err)}
	}
	p := &Prog{Name: name, Dir: dir, Fset: fset, All: map[string]*packages.Package{}}
	var errs []string
	packages.Visit(pkgs, nil, func(pk *packages.Package) {
		p.All[pk.PkgPath] = pk
		own := strings.HasPrefix(pk.PkgPath, Mod)
		if !own {
			return
		}
		tol := false
		for _, t := range tolerate {
			if strings.HasSuffix(pk.PkgPath, t) {
				tol = true
			}
		}
		for _, e := range pk.Errors {
			if tol {
				continue
			}
			errs = append(errs, fmt.Sprintf("%s: %s", pk.PkgPath, e.Error()))
		}
		if tol && len(pk.Errors) > 0 {
			p.Notes = append(p.Notes, fmt.Sprintf("%s: %d type errors tolerated (AST-level analysis only)", pk.PkgPath, len(pk.Errors)))
		}
	})
	if len(errs) > 0 {
		sort.Strings(errs)
		if len(errs) > 8 {
			errs = append(errs[:8], fmt.Sprintf("... and %d more", len(errs)-8))
		}
		return nil, &LoadError{fmt.Sprintf("config %s: type/load errors in chess-3 packages:\n  %s", name, strings.Join(errs, "\n  "))}
	}
	for _, pk := range pkgs {
		if strings.HasPrefix(pk.PkgPath, Mod) {
			p.Pkgs = append(p.Pkgs, pk)
		}
	}
	sort.Slice(p.Pkgs, func(i, j int) bool { return p.Pkgs[i].PkgPath < p.Pkgs[j].PkgPath })
	if len(p.Pkgs) < minPkgs {
		return nil, &LoadError{fmt.Sprintf("config %s: only %d packages loaded, expected at least %d", name, len(p.Pkgs), minPkgs)}
	}
	if withSSA {
		prog, _ := ssautil.AllPackages(pkgs, ssa.InstantiateGenerics|ssa.BareInits)
		prog.Build()
		p.SSA = prog
	}
	return p, nil
}

// Pkg returns the package with the given import path suffix relative to Mod
// ("board", "tools/tuner/epd") or nil.
func (p *Prog) Pkg(rel string) *packages.Package {
	if pk, ok := p.All[Mod+"/"+rel]; ok {
		return pk
	}
	if rel == "" || rel == "main" {
		return p.All[Mod]
	}
	return nil
}

// Rel returns the path of a token.Pos relative to the analysed dir, with line.
func (p *Prog) Rel(pos token.Pos) string {
	if !pos.IsValid() {
		return "-"
	}
	ps := p.Fset.Position(pos)
	f := ps.Filename
	if r, err := filepath.Rel(p.Dir, f); err == nil && !strings.HasPrefix(r, "..") {
		f = r
	} else if r, err := filepath.Rel(RepoDir(), f); err == nil && !strings.HasPrefix(r, "..") {
		f = r
	}
	return fmt.Sprintf("%s:%d", f, ps.Line)
}

// CallGraph returns the VTA call graph (built once).
func (p *Prog) CallGraph() *callgraph.Graph {
	p.cgOnce.Do(func() {
		fns := ssautil.AllFunctions(p.SSA)
		p.cg = vta.CallGraph(fns, cha.CallGraph(p.SSA))
	})
	return p.cg
}

// SSAPkg returns the ssa package for rel path.
func (p *Prog) SSAPkg(rel string) *ssa.Package {
	pk := p.Pkg(rel)
	if pk == nil || p.SSA == nil {
		return nil
	}
	return p.SSA.Package(pk.Types)
}

// Func resolves "pkg.Name", "pkg.(*T).Name" or "pkg.(T).Name" to an SSA function.
// pkg is the path relative to Mod.
func (p *Prog) Func(spec string) *ssa.Function {
	obj := p.FuncObj(spec)
	if obj == nil || p.SSA == nil {
		return nil
	}
	return p.SSA.FuncValue(obj)
}

// FuncObj resolves a spec (see Func) to its types.Func.
func (p *Prog) FuncObj(spec string) *types.Func {
	i := strings.LastIndex(spec, ".")
	if i < 0 {
		return nil
	}
	name := spec[i+1:]
	left := spec[:i]
	var recv string
	if j := strings.Index(left, ".("); j >= 0 {
		recv = strings.Trim(left[j+2:], "*)")
		left = left[:j]
	}
	pk := p.Pkg(left)
	if pk == nil || pk.Types == nil {
		return nil
	}
	if recv == "" {
		f, _ := pk.Types.Scope().Lookup(name).(*types.Func)
		return f
	}
	tn, _ := pk.Types.Scope().Lookup(recv).(*types.TypeName)
	if tn == nil {
		return nil
	}
	named, _ := tn.Type().(*types.Named)
	if named == nil {
		return nil
	}
	for i := 0; i < named.NumMethods(); i++ {
		if m := named.Method(i); m.Name() == name {
			return m
		}
	}
	return nil
}

func (p *Prog) indexDecls() {
	p.declOnce.Do(func() {
		p.decls = map[*types.Func]*ast.FuncDecl{}
		p.declFile = map[*ast.FuncDecl]*ast.File{}
		for _, pk := range p.All {
			if !strings.HasPrefix(pk.PkgPath, Mod) || pk.TypesInfo == nil {
				continue
			}
			for _, f := range pk.Syntax {
				for _, d := range f.Decls {
					if fd, ok := d.(*ast.FuncDecl); ok {
						if obj, ok := pk.TypesInfo.Defs[fd.Name].(*types.Func); ok {
							p.decls[obj] = fd
							p.declFile[fd] = f
						}
					}
				}
			}
		}
	})
}

// Decl returns the syntax of a function spec.
func (p *Prog) Decl(spec string) *ast.FuncDecl {
	obj := p.FuncObj(spec)
	if obj == nil {
		return nil
	}
	return p.DeclOf(obj)
}

// DeclOf returns the syntax of a function object.
func (p *Prog) DeclOf(obj *types.Func) *ast.FuncDecl {
	p.indexDecls()
	return p.decls[obj.Origin()]
}

// InfoFor returns the types.Info of the package that declares obj.
func (p *Prog) InfoFor(obj types.Object) *types.Info {
	if obj == nil || obj.Pkg() == nil {
		return nil
	}
	if pk := p.All[obj.Pkg().Path()]; pk != nil {
		return pk.TypesInfo
	}
	return nil
}

// OwnFuncs returns every SSA function (incl. anonymous and instantiated ones)
// whose package belongs to chess-3, sorted by name.
func (p *Prog) OwnFuncs() []*ssa.Function {
	var out []*ssa.Function
	for fn := range ssautil.AllFunctions(p.SSA) {
		if isOwn(fn) && fn.Blocks != nil {
			out = append(out, fn)
		}
	}
	sort.Slice(out, func(i, j int) bool {
		if out[i].String() != out[j].String() {
			return out[i].String() < out[j].String()
		}
		return out[i].Pos() < out[j].Pos()
	})
	return out
}

func fnPkgPath(fn *ssa.Function) string {
	if fn == nil {
		return ""
	}
	if fn.Pkg != nil {
		return fn.Pkg.Pkg.Path()
	}
	if o := fn.Origin(); o != nil && o.Pkg != nil {
		return o.Pkg.Pkg.Path()
	}
	if fn.Parent() != nil {
		return fnPkgPath(fn.Parent())
	}
	if obj := fn.Object(); obj != nil && obj.Pkg() != nil {
		return obj.Pkg().Path()
	}
	return ""
}

func isOwn(fn *ssa.Function) bool { return strings.HasPrefix(fnPkgPath(fn), Mod) }

// relPkg strips the module prefix.
func relPkg(path string) string {
	if path == Mod {
		return "main"
	}
	return strings.TrimPrefix(path, Mod+"/")
}

// fnName gives a stable symbolic name "pkg.(*T).Name" / "pkg.Name" / "pkg.Name$1".
func fnName(fn *ssa.Function) string {
	if fn == nil {
		return "<nil>"
	}
	if fn.Parent() != nil {
		// anonymous function: parent name + suffix
		suffix := fn.Name()
		if i := strings.LastIndex(suffix, "$"); i >= 0 {
			suffix = suffix[i:]
		}
		return fnName(fn.Parent()) + suffix
	}
	if obj := fnObj(fn); obj != nil {
		return objName(obj)
	}
	s := fn.String()
	s = strings.ReplaceAll(s, Mod+"/", "")
	s = strings.ReplaceAll(s, Mod, "main")
	return s
}
