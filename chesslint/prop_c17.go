package main

import (
	"fmt"
	"sort"
	"strings"

	"golang.org/x/tools/go/ssa"
	"golang.org/x/tools/go/ssa/ssautil"
)

// instancesOf returns the generic origin and all instantiations of spec.
func (p *Prog) instancesOf(spec string) []*ssa.Function {
	obj := p.FuncObj(spec)
	if obj == nil {
		return nil
	}
	var out []*ssa.Function
	for fn := range ssautil.AllFunctions(p.SSA) {
		if fnObj(fn) == obj && fn.Blocks != nil && fn.Parent() == nil {
			out = append(out, fn)
		}
	}
	sort.Slice(out, func(i, j int) bool { return out[i].String() < out[j].String() })
	return out
}

func init() {
	register(&Property{
		ID: "C17",
		Explain: "Static conditions for 'evaluation is colour-symmetric and depends only on the position'. " +
			"R1 (complete for the independence sentence): in the call-graph closure of every instance of eval.Eval the only board.Board fields read are Pieces, Colors, SquaresToPiece, STM, FiftyCnt; nothing in the closure stores to a Board field, to the coefficient set or to any package-level variable; every package-level variable read has no writer outside package initialisation; no nondeterminism source, unsafe or reflect is reachable. " +
			"R2/R3: wherever the source spells the two colours out side by side, the Black expression is the mirror image of the White one. R4: final combination is mover minus opponent. " +
			"Not decided: symmetry of terms whose colours flow through shared helper code with data-dependent behaviour.",
		Assume: []string{"VTA call graph over-approximates dynamic calls", "field effects are attributed by declared struct type (over-approximation across instances)"},
		Run:    runC17,
	})
}

var evalMayRead = map[string]string{
	"board.Board.Pieces":         "piece placement",
	"board.Board.Colors":         "piece placement",
	"board.Board.SquaresToPiece": "piece placement",
	"board.Board.STM":            "side to move",
	"board.Board.FiftyCnt":       "halfmove clock",
}

func runC17(c *Ctx) {
	p := c.need("default")
	if p == nil {
		return
	}
	c17R1(c, p, "default")
	c17R2(c, p)
	c17R3(c, p)
	c17R4(c, p)
	c17R5(c, p)
	c17R6(c, p)
	c17R7(c, p)
	if c.Tier == "thorough" {
		if t := c.need("tuner"); t != nil {
			c17R1(c, t, "tuner")
		}
		c.Use(p)
	}
}

func c17R1(c *Ctx, p *Prog, cfg string) {
	const rule = "C17.R1"
	roots := p.instancesOf("eval.Eval")
	var inst []*ssa.Function
	for _, r := range roots {
		if len(r.TypeArgs()) > 0 {
			inst = append(inst, r)
		}
	}
	if len(inst) == 0 {
		c.Anchor(rule, "eval.Eval (no instantiation found in config "+cfg+")")
		return
	}
	fns := p.closure(inst, nil)
	eff := unionEffects(fns)
	c.Note("C17.R1[%s]: closure of %d Eval instance(s) has %d functions", cfg, len(inst), len(fns))
	// (a) Board fields read
	for _, k := range sortedKeys(eff.FieldReads) {
		if !strings.HasPrefix(k, "board.Board.") {
			continue
		}
		s := eff.FieldReads[k][0]
		if k == "board.Board.*" {
			// whole-struct copies (value receivers): the copy's own field reads are
			// tracked by type in the callee; the copy must not leave chess-3 code.
			for _, st := range eff.FieldReads[k] {
				if esc := wholeCopyEscapes(st.In); esc != "" {
					c.Fail(rule, "read:"+k+"@"+fnName(st.Fn), st.Pos, "evaluation copies the whole Board in %s and %s: every field may be read", fnName(st.Fn), esc)
				} else {
					c.Ok(rule, "read:"+k+"@"+fnName(st.Fn), st.Pos, "whole-Board copy in %s flows only into field selections / chess-3 callees (whose reads are tracked)", fnName(st.Fn))
				}
			}
			continue
		}
		if why, ok := evalMayRead[k]; ok {
			c.Ok(rule, "read:"+k, s.Pos, "Eval closure reads %s (%s) — %d sites, first in %s", k, why, len(eff.FieldReads[k]), fnName(s.Fn))
		} else {
			c.Fail(rule, "read:"+k, s.Pos, "evaluation reads %s in %s: the score would depend on state other than placement, side to move and halfmove clock", k, fnName(s.Fn))
		}
	}
	// (b) no stores to Board / CoeffSet / globals; escapes of their addresses
	bad := 0
	for _, k := range sortedKeys(eff.FieldWrites) {
		if strings.HasPrefix(k, "board.Board.") || strings.HasPrefix(k, "eval.CoeffSet.") {
			s := eff.FieldWrites[k][0]
			c.Fail(rule, "write:"+k, s.Pos, "evaluation stores to %s in %s", k, fnName(s.Fn))
			bad++
		}
	}
	for _, k := range sortedKeys(eff.Escapes) {
		if strings.HasPrefix(k, "board.Board.") || strings.HasPrefix(k, "eval.CoeffSet.") {
			s := eff.Escapes[k][0]
			c.Fail(rule, "escape:"+k, s.Pos, "address of %s escapes in %s (%s): an unknown party may write it", k, fnName(s.Fn), s.What)
			bad++
		}
	}
	for _, k := range sortedKeys(eff.GlobalWrites) {
		s := eff.GlobalWrites[k][0]
		c.Fail(rule, "gwrite:"+k, s.Pos, "evaluation stores to package-level variable %s in %s: a previous evaluation can influence a later one", k, fnName(s.Fn))
		bad++
	}
	if bad == 0 {
		c.Ok(rule, "no-stores", inst[0].Pos(), "no store to board.Board.*, eval.CoeffSet.* or any package-level variable in %d functions", len(fns))
	}
	// (c) globals read are init-only
	for _, g := range sortedKeys(eff.GlobalReads) {
		outside := p.nonInitGlobalWriters(g)
		s := eff.GlobalReads[g][0]
		if len(outside) == 0 {
			c.Ok(rule, "gread:"+g, s.Pos, "package-level %s read by evaluation has no writer outside initialisation", g)
		} else {
			c.Fail(rule, "gread:"+g, s.Pos, "package-level %s read by evaluation is written/escapes outside initialisation: %v", g, outside)
		}
	}
	// (d) nondeterminism, unsafe, reflect
	if len(eff.Nondet) == 0 {
		c.Ok(rule, "no-nondeterminism", inst[0].Pos(), "no time/rand/runtime call, channel operation, select, go statement, map iteration or pointer-to-integer conversion in the closure")
	}
	for i, s := range eff.Nondet {
		c.Fail(rule, fmt.Sprintf("nondet:%s#%d", fnName(s.Fn), i), s.Pos, "nondeterminism source in evaluation: %s in %s", s.What, fnName(s.Fn))
	}
	for _, k := range sortedKeys(eff.Extern) {
		pkg := k[:strings.LastIndex(k, ".")]
		if strings.HasPrefix(k, "unsafe.") || strings.HasPrefix(k, "reflect.") || strings.HasPrefix(pkg, "reflect") {
			s := eff.Extern[k][0]
			c.Fail(rule, "extern:"+k, s.Pos, "evaluation calls %s in %s", k, fnName(s.Fn))
		}
	}
	c.Note("C17.R1[%s]: external callees: %s", cfg, strings.Join(sortedKeys(eff.Extern), ", "))
	c.Floor(rule, len(fns), 20, "functions in the Eval closure ("+cfg+")")
}

func isInitName(fn string) bool {
	// "pkg.init", "pkg.init#1", "pkg.init$1" ...
	i := strings.LastIndex(fn, ".")
	if i < 0 {
		return false
	}
	n := fn[i+1:]
	return n == "init" || strings.HasPrefix(n, "init#") || strings.HasPrefix(n, "init$")
}

// wholeCopyEscapes: does the struct value loaded by in flow anywhere but field
// selections and calls of chess-3 functions? Returns a description or "".
func wholeCopyEscapes(in ssa.Instruction) string {
	v, ok := in.(ssa.Value)
	if !ok || v.Referrers() == nil {
		return ""
	}
	for _, r := range *v.Referrers() {
		switch x := r.(type) {
		case *ssa.Field, *ssa.DebugRef:
		case ssa.CallInstruction:
			if callee := x.Common().StaticCallee(); callee == nil || !isOwn(callee) {
				return "passes it to a function outside chess-3 or a dynamic call"
			}
		case *ssa.Store:
			if x.Val == v {
				if _, ok := x.Addr.(*ssa.Alloc); !ok {
					return "stores the copy"
				}
			}
		default:
			return fmt.Sprintf("uses the copy in a %T", r)
		}
	}
	return ""
}

func init() {
	addMutants(
		Mutant{Name: "C17.R1-tempo-reads-castles", Prop: "C17", File: "eval/eval.go", Quick: true,
			Old: "sp.mg[b.STM] += c.TempoBonus[0]", New: "sp.mg[b.STM] += c.TempoBonus[0] + T(b.Castles&1)",
			Expect: "C17.R1/read:board.Board.Castles"},
		Mutant{Name: "C17.R1-passers-read-enpassant", Prop: "C17", File: "eval/eval.go", Quick: true,
			Old: "if passer&pw.attacks[color][0] != 0 { // Pawn - Pawn", New: "if passer&pw.attacks[color][0] != 0 && b.EnPassant == 0 { // Pawn - Pawn",
			Expect: "C17.R1/read:board.Board.EnPassant"},
		Mutant{Name: "C17.R1-eval-cache-keyed-on-hash", Prop: "C17", File: "eval/eval.go",
			Old: "func Eval[T ScoreType](b *board.Board, c *CoeffSet[T]) T {\n", New: "var lastHash board.Hash\n\nfunc Eval[T ScoreType](b *board.Board, c *CoeffSet[T]) T {\n\tif lastHash == b.Hash() {\n\t\treturn 0\n\t}\n\tlastHash = b.Hash()\n",
			Expect: "C17.R1/gwrite:eval.lastHash"},
		Mutant{Name: "C17.R1-phase-table-mutated", Prop: "C17", File: "eval/eval.go",
			Old: "func (pw *pieceWise) calcOccupancy(b *board.Board) {\n", New: "func SetPhase(i, v int) { Phase[i] = v }\n\nfunc (pw *pieceWise) calcOccupancy(b *board.Board) {\n",
			Expect: "C17.R1/gread:eval.Phase"},
		Mutant{Name: "C17.R1-eval-writes-board", Prop: "C17", File: "eval/eval.go",
			Old: "\tfifty := b.FiftyCnt\n", New: "\tfifty := b.FiftyCnt\n\tif fifty > 100 {\n\t\tb.FiftyCnt = 100\n\t}\n",
			Expect: "C17.R1/write:board.Board.FiftyCnt"},
	)
}
