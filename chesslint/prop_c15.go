package main

// C15 — transposition table returns only what was stored for that key.
// Structural necessary conditions over transp/transp.go (constants, types.Sizes
// for amd64, SSA shape of LookUp/Insert/Value/bucketIx/match64/Resize) and the
// consumers of LookUp's pointer in every loaded package.

import (
	"fmt"
	"go/token"
	"go/types"
	"math"
	"sort"
	"strings"

	"golang.org/x/tools/go/ssa"
)

func init() {
	register(&Property{
		ID: "C15",
		Explain: "Static necessary conditions for 'the transposition table returns only what was stored for that key'. " +
			"R1: layout arithmetic from the constants and types.Sizes(gc/amd64): signature lanes fit the key word, match64's three constants are the lane-replicated 1 / lane sign bits for partialKeyBits and its lane index divides by the lane width, bound types fit the bits left of the packed depth and Insert packs with the shift packed.Depth unpacks and that shift acts on a value-preserving conversion of the byte, Sizeof(bucket)=bucketSize, bucket is pointer-free, re-based mate scores fit Score. " +
			"R2: LookUp and Insert compute bucket and signature by the same expressions of their hash argument; LookUp returns the entry of the lane match64 reported, of the bucket whose keys it matched; bucketIx is a multiply-high whose result is < len(data). " +
			"R3: as piecewise functions of (score, ply) — computed from the SSA as sets of scores per adjustment (branch conditions, boolean joins and called chess-3 helpers such as Score.IsMate evaluated over all scores at once; thresholds and strictness compared with each other, not with fixed numbers) — Insert moves scores beyond two thresholds away from zero by ply and entry.Value moves scores beyond the same thresholds back by ply; all other scores unchanged. " +
			"R4: in Insert the lane compared, the entry overwritten, the lane cleared and the lane set are the same lane; a signature match replaces that lane; the early return can execute only under signature match, non-exact bound, stored depth > d+2 and same generation (path-sensitive simulation over these atoms, independent of how the tests are arranged); a kept move comes only from the signature-matching entry and only when the new move is null; Clear zeroes the signature word of every bucket. " +
			"R5: every store to a bucket, an entry or the Table (classified by the type of the storage written, in any loaded package) happens in Insert, Clear, Resize or helpers only they call, and the pointer returned by LookUp is only read. R6: Resize's allocation, alignment mask and slice length keep the bucket slice inside the raw allocation and non-empty. " +
			"Not decided: the replacement policy (quality), HashFull, behaviour over operation sequences, values for concrete keys.",
		Assume: []string{"types.SizesFor(gc, amd64) is the layout of the shipped binary", "go/ssa models the program faithfully", "plies and depths are 0..MaxPlies-1 as the property states"},
		Run:    runC15,
	})
}

type c15Env struct {
	c     *Ctx
	p     *Prog
	sizes types.Sizes
	k     map[string]int64 // constants
	named map[string]*types.Named
	fn    map[string]*ssa.Function
	ins   *c15Ins
}

func runC15(c *Ctx) {
	p := c.need("default")
	if p == nil {
		return
	}
	e := &c15Env{c: c, p: p, sizes: types.SizesFor("gc", "amd64"), k: map[string]int64{}, named: map[string]*types.Named{}, fn: map[string]*ssa.Function{}}
	ok := true
	for _, n := range []string{"transp.bucketEntryCnt", "transp.partialKeyBits", "transp.bucketSize", "transp.Exact", "chess.MaxPlies", "chess.Inf", "chess.Inv"} {
		v, found := p.pkgConstInt(n)
		if !found {
			c.Anchor("C15", n)
			ok = false
		}
		e.k[n[strings.Index(n, ".")+1:]] = v
	}
	for _, n := range []string{"transp.bucket", "transp.entry", "transp.Table", "transp.partialKey", "transp.packed", "transp.Type", "transp.Gen", "chess.Score", "chess.Depth", "board.Hash", "move.Move"} {
		i := strings.Index(n, ".")
		var t *types.Named
		if pk := p.Pkg(n[:i]); pk != nil && pk.Types != nil {
			if tn, isT := pk.Types.Scope().Lookup(n[i+1:]).(*types.TypeName); isT {
				t, _ = tn.Type().(*types.Named)
			}
		}
		if t == nil {
			c.Anchor("C15", n)
			ok = false
		}
		e.named[n[i+1:]] = t
	}
	for _, n := range []string{"transp.(*Table).Insert", "transp.(*Table).LookUp", "transp.(*entry).Value", "transp.(*Table).bucketIx", "transp.match64", "transp.(*Table).Resize", "transp.(packed).Depth", "transp.(packed).Type", "transp.(*Table).Clear"} {
		f := p.Func(n)
		if f == nil || f.Blocks == nil {
			c.Anchor("C15", n)
			ok = false
		}
		e.fn[n[strings.LastIndex(n, ".")+1:]] = f
	}
	if !ok {
		return
	}
	for _, f := range []struct{ t, f string }{{"bucket", "pKeys"}, {"bucket", "entries"}, {"entry", "Move"}, {"entry", "value"}, {"entry", "packed"}, {"entry", "gen"}, {"Table", "data"}, {"Table", "raw"}} {
		if e.field(f.t, f.f) == nil {
			c.Anchor("C15", "transp."+f.t+"."+f.f)
			ok = false
		}
	}
	if !ok {
		return
	}
	e.ins = e.anatomy()
	c15R1(e)
	c15R2(e)
	c15R3(e)
	c15R4(e)
	c15Clear(e)
	c15R5(e)
	c15R6(e)
}

// ---------- small helpers ----------

func (e *c15Env) field(typ, name string) *types.Var {
	if s, ok := e.named[typ].Underlying().(*types.Struct); ok {
		for i := 0; i < s.NumFields(); i++ {
			if s.Field(i).Name() == name {
				return s.Field(i)
			}
		}
	}
	return nil
}

func (e *c15Env) bits(t types.Type) int64 { return 8 * e.sizes.Sizeof(t) }

// intMax is the largest value of the integer type t.
func (e *c15Env) intMax(t types.Type) int64 {
	b, _ := t.Underlying().(*types.Basic)
	n := e.bits(t)
	if b == nil || b.Info()&types.IsInteger == 0 || n > 63 {
		return math.MaxInt64
	}
	if b.Info()&types.IsUnsigned != 0 {
		return 1<<n - 1
	}
	return 1<<(n-1) - 1
}

func (e *c15Env) isT(t types.Type, name string) bool { return types.Identical(t, e.named[name]) }

func c15Load(v ssa.Value) (ssa.Value, bool) {
	if u, ok := v.(*ssa.UnOp); ok && u.Op == token.MUL {
		return u.X, true
	}
	return nil, false
}

// fa: v is &base.<field> of the transp struct typ; returns base.
func (e *c15Env) fa(v ssa.Value, typ, field string) (ssa.Value, bool) {
	x, ok := v.(*ssa.FieldAddr)
	if !ok {
		return nil, false
	}
	n, s := structOf(x.X.Type())
	if n == nil || s == nil || n.Obj() != e.named[typ].Obj() || s.Field(x.Field).Name() != field {
		return nil, false
	}
	return x.X, true
}

// loadOf: v is a load of base.<field>.
func (e *c15Env) loadOf(v ssa.Value, typ, field string) (ssa.Value, bool) {
	if a, ok := c15Load(v); ok {
		return e.fa(a, typ, field)
	}
	return nil, false
}

// c15KBin: v is `x op k` with k constant (either side for commutative ops).
func c15KBin(v ssa.Value, op token.Token) (ssa.Value, int64, bool) {
	b, ok := v.(*ssa.BinOp)
	if !ok || b.Op != op {
		return nil, 0, false
	}
	if k, isk := constOf(b.Y); isk {
		return b.X, k, true
	}
	if k, isk := constOf(b.X); isk && commutative[op] {
		return b.Y, k, true
	}
	return nil, 0, false
}

var c15Flip = map[token.Token]token.Token{token.LSS: token.GTR, token.GTR: token.LSS, token.LEQ: token.GEQ, token.GEQ: token.LEQ, token.EQL: token.EQL, token.NEQ: token.NEQ}
var c15Neg = map[token.Token]token.Token{token.LSS: token.GEQ, token.GEQ: token.LSS, token.GTR: token.LEQ, token.LEQ: token.GTR, token.EQL: token.NEQ, token.NEQ: token.EQL}

// c15Rel normalises a branch condition with its polarity to `x op y`.
func c15Rel(ce condEdge) (x, y ssa.Value, op token.Token, ok bool) {
	cond, pos := ce.Cond, ce.True
	for {
		u, isNot := cond.(*ssa.UnOp)
		if !isNot || u.Op != token.NOT {
			break
		}
		cond, pos = u.X, !pos
	}
	b, isb := cond.(*ssa.BinOp)
	if !isb {
		return
	}
	op = b.Op
	if _, known := c15Neg[op]; !known {
		return
	}
	if !pos {
		op = c15Neg[op]
	}
	return b.X, b.Y, op, true
}

// c15RelK: condition as `x op k` with k constant.
func c15RelK(ce condEdge) (ssa.Value, token.Token, int64, bool) {
	x, y, op, ok := c15Rel(ce)
	if !ok {
		return nil, 0, 0, false
	}
	if k, isk := constOf(y); isk {
		return x, op, k, true
	}
	if k, isk := constOf(x); isk {
		return y, c15Flip[op], k, true
	}
	return nil, 0, 0, false
}

// c15Expr renders an SSA value as an expression over its function's parameters
// (named by type, so that siblings with differently named/ordered parameters compare
// equal). Calls of chess-3 functions with a single return are inlined (parameters
// bound to the rendered arguments), so a computation moved into a helper renders
// like the computation itself.
func c15Expr(v ssa.Value, bind map[*ssa.Parameter]string, keep *ssa.Function, d int) string {
	if d > 14 {
		return "?deep"
	}
	sub := func(x ssa.Value) string { return c15Expr(x, bind, keep, d+1) }
	switch x := v.(type) {
	case *ssa.Parameter:
		if s, ok := bind[x]; ok {
			return s
		}
		k, n := 0, 0
		for _, q := range x.Parent().Params {
			if types.Identical(q.Type(), x.Type()) {
				if q == x {
					k = n
				}
				n++
			}
		}
		if n > 1 {
			return fmt.Sprintf("param<%s#%d>", x.Type(), k)
		}
		return "param<" + x.Type().String() + ">"
	case *ssa.Const:
		if x.Value == nil {
			return "zero"
		}
		return x.Value.ExactString()
	case *ssa.BinOp:
		a, b := sub(x.X), sub(x.Y)
		if commutative[x.Op] && a > b {
			a, b = b, a
		}
		return "(" + a + " " + x.Op.String() + " " + b + ")"
	case *ssa.UnOp:
		return x.Op.String() + "(" + sub(x.X) + ")"
	case *ssa.Convert:
		return "conv<" + x.Type().String() + ">(" + sub(x.X) + ")"
	case *ssa.ChangeType:
		return "conv<" + x.Type().String() + ">(" + sub(x.X) + ")"
	case *ssa.FieldAddr:
		_, s := structOf(x.X.Type())
		return sub(x.X) + "." + s.Field(x.Field).Name()
	case *ssa.IndexAddr:
		return sub(x.X) + "[" + sub(x.Index) + "]"
	case *ssa.Extract:
		return fmt.Sprintf("%s#%d", sub(x.Tuple), x.Index)
	case *ssa.Call:
		var as []string
		for _, a := range x.Call.Args {
			as = append(as, sub(a))
		}
		if callee := x.Call.StaticCallee(); callee != nil && callee != keep && isOwn(callee) && callee.Blocks != nil {
			if rs := c15Returns(callee); len(rs) == 1 && len(rs[0].Results) == 1 && len(callee.Params) == len(as) {
				inner := map[*ssa.Parameter]string{}
				for i, q := range callee.Params {
					inner[q] = as[i]
				}
				return c15Expr(returnedValue(rs[0], 0), inner, keep, d+1)
			}
		}
		name := "?dyn"
		if b, ok := x.Call.Value.(*ssa.Builtin); ok {
			name = b.Name()
		} else if f := calleeObj(x); f != nil {
			name = objName(f)
		}
		return name + "(" + strings.Join(as, ",") + ")"
	}
	return "?" + v.Name()
}

// c15Forward resolves a load to the value of the closest preceding store to the
// same address in the same block (no intervening call); nil when there is none.
func c15Forward(load *ssa.UnOp) ssa.Value {
	blk := load.Block().Instrs
	for i := instrIndex(load) - 1; i >= 0; i-- {
		switch x := blk[i].(type) {
		case *ssa.Store:
			if sameValue(x.Addr, load.X, 0) {
				return x.Val
			}
		case *ssa.Call:
			if _, builtin := x.Call.Value.(*ssa.Builtin); !builtin {
				return nil
			}
		}
	}
	return nil
}

func c15Flatten(v ssa.Value, op token.Token, out *[]ssa.Value) {
	if b, ok := v.(*ssa.BinOp); ok && b.Op == op {
		c15Flatten(b.X, op, out)
		c15Flatten(b.Y, op, out)
		return
	}
	*out = append(*out, v)
}

// c15Under: v is target, possibly under conversions.
func c15Under(v, target ssa.Value) bool {
	for v != target {
		switch x := v.(type) {
		case *ssa.Convert:
			v = x.X
		case *ssa.ChangeType:
			v = x.X
		default:
			return false
		}
	}
	return true
}

func c15Edges(ph *ssa.Phi) []ssa.Value {
	if ph == nil {
		return nil
	}
	return ph.Edges
}

// c15Counter: ph is a loop counter phi{0, self+1}.
func c15Counter(ph *ssa.Phi) bool {
	zero, step := 0, 0
	for _, ed := range c15Edges(ph) {
		if k, isk := constOf(ed); isk && k == 0 {
			zero++
		} else if x, k, ok := c15KBin(ed, token.ADD); ok && x == ssa.Value(ph) && k == 1 {
			step++
		}
	}
	return ph != nil && zero >= 1 && step >= 1 && zero+step == len(ph.Edges)
}

// c15Bind maps parameters of helpers that were opened to the arguments passed.
type c15Bind map[*ssa.Parameter]ssa.Value

func (b c15Bind) at(v ssa.Value) ssa.Value {
	for i := 0; i < 16; i++ {
		p, ok := v.(*ssa.Parameter)
		if !ok {
			break
		}
		a, ok := b[p]
		if !ok {
			break
		}
		v = a
	}
	return v
}

// open strips conversions, replaces bound parameters by their arguments and steps into
// single-return chess-3 helpers (binding their parameters) until none of these applies.
func (b c15Bind) open(v ssa.Value) ssa.Value {
	for i := 0; i < 16; i++ {
		w := stripConv(b.at(v))
		if call, ok := w.(*ssa.Call); ok {
			if callee := call.Call.StaticCallee(); callee != nil && isOwn(callee) && callee.Blocks != nil && len(callee.Params) == len(call.Call.Args) {
				if rs := c15Returns(callee); len(rs) == 1 && len(rs[0].Results) == 1 {
					for j, q := range callee.Params {
						b[q] = call.Call.Args[j]
					}
					w = returnedValue(rs[0], 0)
				}
			}
		}
		if w == v {
			break
		}
		v = w
	}
	return v
}

// c15ResolveOn follows phis entered on path p (as seen from path position use) to the value
// selected by the edge taken; loop counters stay symbolic.
func c15ResolveOn(p *bpath, v ssa.Value, use int) ssa.Value {
	for i := 0; i < 256; i++ {
		ph, ok := v.(*ssa.Phi)
		if !ok || c15Counter(ph) {
			return v
		}
		at, on := p.pos[ph.Block()]
		if !on || at == 0 || at > use {
			return v
		}
		use = at - 1
		found := false
		for k, pr := range ph.Block().Preds {
			if pr == p.Blocks[at-1] {
				v, found = ph.Edges[k], true
				break
			}
		}
		if !found {
			return v
		}
	}
	return v
}

// c15Decide evaluates `x op y` when both are constants, or one is a loop counter (>= 0)
// and the other a constant that settles the comparison.
func c15Decide(op token.Token, x, y ssa.Value) (holds, decided bool) {
	kx, cx := constOf(x)
	ky, cy := constOf(y)
	_, isCx := x.(*ssa.Const)
	_, isCy := y.(*ssa.Const)
	cx, cy = cx && isCx, cy && isCy
	cmp := func(a, b int64) bool {
		return map[token.Token]bool{token.EQL: a == b, token.NEQ: a != b, token.LSS: a < b, token.LEQ: a <= b, token.GTR: a > b, token.GEQ: a >= b}[op]
	}
	if _, known := c15Neg[op]; !known {
		return false, false
	}
	if cx && cy {
		return cmp(kx, ky), true
	}
	px, _ := x.(*ssa.Phi)
	py, _ := y.(*ssa.Phi)
	if cx && c15Counter(py) { // k op counter  ==  counter flip(op) k
		op, ky, cy, px = c15Flip[op], kx, true, py
	}
	if cy && c15Counter(px) && ky < 0 { // counter >= 0 > ky
		return cmp(0, ky), true
	}
	return false, false
}

func c15Pow2(x int64) bool { return x > 0 && x&(x-1) == 0 }

func c15Returns(fn *ssa.Function) []*ssa.Return {
	var out []*ssa.Return
	allInstrs(fn, func(in ssa.Instruction) {
		if r, ok := in.(*ssa.Return); ok {
			out = append(out, r)
		}
	})
	return out
}

// ---------- addressing (shared by R2 and the Insert anatomy) ----------

type c15Addr struct {
	hash   *ssa.Parameter
	bucket ssa.Value // &t.data[ix], possibly obtained through a helper
	sig    ssa.Value // partialKey(f(hash))
	err    string
}

// addressing finds, in LookUp/Insert, the one index into t.data and the one
// conversion of a hash-derived value to partialKey.
func (e *c15Env) addressing(fn *ssa.Function) c15Addr {
	var a c15Addr
	for _, q := range fn.Params[1:] {
		if e.isT(q.Type(), "Hash") {
			if a.hash != nil {
				a.err = "more than one board.Hash parameter"
				return a
			}
			a.hash = q
		}
	}
	if a.hash == nil {
		a.err = "no board.Hash parameter"
		return a
	}
	nIx, nSig := 0, 0
	allInstrs(fn, func(in ssa.Instruction) {
		switch x := in.(type) {
		case *ssa.IndexAddr:
			if base, ok := e.loadOf(x.X, "Table", "data"); ok && base == fn.Params[0] {
				a.bucket = x
				nIx++
			}
		case *ssa.Convert:
			if e.isT(x.Type(), "partialKey") && backSlice(x.X, sliceOpts{})[a.hash] {
				a.sig = x
				nSig++
			}
		case *ssa.Call: // signature / bucket pointer computed by a helper of the hash
			callee := x.Call.StaticCallee()
			if callee == nil || !isOwn(callee) || !backSlice(x, sliceOpts{ThroughCalls: true})[a.hash] {
				break
			}
			viaBucket := func(v ssa.Value) bool { // the bucket address depends on the hash too: a lane read through it is no signature
				pt, ok := v.Type().Underlying().(*types.Pointer)
				return ok && e.isT(pt.Elem(), "bucket")
			}
			if e.isT(x.Type(), "partialKey") {
				if backSlice(x, sliceOpts{ThroughCalls: true, Stop: viaBucket})[a.hash] {
					a.sig = x
					nSig++
				}
			} else if pt, ok := x.Type().Underlying().(*types.Pointer); ok && e.isT(pt.Elem(), "bucket") {
				a.bucket = x
				nIx++
			}
		}
	})
	if nIx != 1 || nSig != 1 {
		a.err = fmt.Sprintf("expected exactly one index into t.data and one hash->partialKey conversion, found %d and %d", nIx, nSig)
	}
	return a
}

// ---------- Insert anatomy (shared by R1, R3, R4) ----------

type c15Ins struct {
	fn                        *ssa.Function
	hash, gen, sm, value, typ *ssa.Parameter
	depths                    []*ssa.Parameter
	bucket                    ssa.Value
	sig                       ssa.Value
	entStore                  *ssa.Store
	repl                      ssa.Value            // index of the overwritten entry
	stored                    map[string]ssa.Value // entry field -> value stored
	packedDepth               *ssa.Parameter       // the Depth parameter packed into the entry
	packShift                 int64
}

func (e *c15Env) anatomy() *c15Ins {
	fn := e.fn["Insert"]
	bad := func(f string, a ...any) *c15Ins {
		e.c.Undec("C15.R4", "transp.(*Table).Insert#shape", fn.Pos(), "Insert no longer has the analysed shape: "+f, a...)
		return nil
	}
	in := &c15Ins{fn: fn, stored: map[string]ssa.Value{}}
	for _, q := range fn.Params[1:] {
		switch {
		case e.isT(q.Type(), "Hash"):
			in.hash = q
		case e.isT(q.Type(), "Gen"):
			in.gen = q
		case e.isT(q.Type(), "Move"):
			in.sm = q
		case e.isT(q.Type(), "Score"):
			in.value = q
		case e.isT(q.Type(), "Type"):
			in.typ = q
		case e.isT(q.Type(), "Depth"):
			in.depths = append(in.depths, q)
		}
	}
	if in.hash == nil || in.gen == nil || in.sm == nil || in.value == nil || in.typ == nil || len(in.depths) != 2 || len(fn.Params) != 8 {
		return bad("parameters are not (hash, gen, depth, ply, move, score, bound type), one of each type and two Depths")
	}
	a := e.addressing(fn)
	if a.err != "" {
		return bad("%s", a.err)
	}
	in.bucket, in.sig = a.bucket, a.sig
	// the one store to bucket.entries[R]
	n := 0
	allInstrs(fn, func(i ssa.Instruction) {
		if st, ok := i.(*ssa.Store); ok {
			if ia, ok := st.Addr.(*ssa.IndexAddr); ok {
				if b, ok := e.fa(ia.X, "bucket", "entries"); ok && b == in.bucket {
					in.entStore, in.repl = st, ia.Index
					n++
				}
			}
		}
	})
	var lit ssa.Value // address whose fields are assigned: the literal's temporary, or &bucket.entries[R] itself
	switch n {
	case 1:
		l, ok := c15Load(in.entStore.Val)
		if _, isAlloc := l.(*ssa.Alloc); !ok || !isAlloc {
			return bad("the stored entry is not a composite literal")
		}
		lit = l
	case 0: // field-wise assignment through &bucket.entries[R]
		allInstrs(fn, func(i ssa.Instruction) {
			if st, ok := i.(*ssa.Store); ok {
				if fa, ok := st.Addr.(*ssa.FieldAddr); ok {
					if ia, ok := fa.X.(*ssa.IndexAddr); ok {
						if b, ok := e.fa(ia.X, "bucket", "entries"); ok && b == in.bucket && (lit == nil || lit == ia) {
							lit, in.entStore, in.repl = ia, st, ia.Index
						}
					}
				}
			}
		})
	}
	if lit == nil || lit.Referrers() == nil {
		return bad("expected exactly one store to bucket.entries[...], found %d", n)
	}
	for _, r := range *lit.Referrers() {
		fa, ok := r.(*ssa.FieldAddr)
		if !ok || fa.Referrers() == nil {
			continue
		}
		_, s := structOf(fa.X.Type())
		for _, rr := range *fa.Referrers() {
			if st, ok := rr.(*ssa.Store); ok && st.Addr == fa {
				if _, dup := in.stored[s.Field(fa.Field).Name()]; dup || st.Block() != in.entStore.Block() {
					return bad("entry field %s assigned twice or away from the other fields", s.Field(fa.Field).Name())
				}
				in.stored[s.Field(fa.Field).Name()] = st.Val
			}
		}
	}
	for _, f := range []string{"Move", "value", "packed", "gen"} {
		if in.stored[f] == nil {
			return bad("the stored entry literal does not set field %s", f)
		}
	}
	// packed = depth<<k | type
	var ops []ssa.Value
	c15Flatten(in.stored["packed"], token.OR, &ops)
	for _, o := range ops {
		if x, k, ok := c15KBin(o, token.SHL); ok {
			if q, isP := stripConv(x).(*ssa.Parameter); isP && e.isT(q.Type(), "Depth") {
				in.packedDepth, in.packShift = q, k
			}
		}
	}
	if len(ops) != 2 || in.packedDepth == nil || (stripConv(ops[0]) != in.typ && stripConv(ops[1]) != in.typ) {
		return bad("packed field is not `depth<<k | type` of the parameters")
	}
	return in
}

// ---------- R1 layout arithmetic ----------

func c15PointerFree(t types.Type) bool {
	switch u := t.Underlying().(type) {
	case *types.Basic:
		return u.Kind() != types.UnsafePointer && u.Info()&types.IsString == 0
	case *types.Array:
		return c15PointerFree(u.Elem())
	case *types.Struct:
		for i := 0; i < u.NumFields(); i++ {
			if !c15PointerFree(u.Field(i).Type()) {
				return false
			}
		}
		return true
	}
	return false
}

func c15R1(e *c15Env) {
	const rule = "C15.R1"
	c, n := e.c, 0
	fact := func(cond bool, construct string, pos token.Pos, f string, a ...any) {
		c.Check(cond, rule, construct, pos, f, a...)
		n++
	}
	cnt, kb, bsz, maxPl := e.k["bucketEntryCnt"], e.k["partialKeyBits"], e.k["bucketSize"], e.k["MaxPlies"]
	pk, ents := e.field("bucket", "pKeys"), e.field("bucket", "entries")
	fact(cnt > 0 && kb > 0 && cnt*kb <= e.bits(pk.Type()), "lanes-fit-word", pk.Pos(),
		"bucketEntryCnt(%d) x partialKeyBits(%d) = %d signature bits must fit the %d bits of bucket.pKeys, else the top lane's signature is shifted out and a stored key is never found", cnt, kb, cnt*kb, e.bits(pk.Type()))
	arr, _ := ents.Type().Underlying().(*types.Array)
	if arr == nil {
		c.Undec(rule, "entries-array", ents.Pos(), "bucket.entries is not an array")
		return
	}
	fact(arr.Len() >= cnt, "entries-array", ents.Pos(), "bucket.entries has %d elements for bucketEntryCnt = %d signature lanes (a lane without entry makes Insert index out of range)", arr.Len(), cnt)
	fact(e.bits(e.named["partialKey"]) <= kb, "partialKey-width", e.named["partialKey"].Obj().Pos(),
		"partialKey is %d bits wide for %d-bit lanes: a wider signature would spill into the neighbouring lane when or-ed into pKeys and never compare equal to a truncated lane", e.bits(e.named["partialKey"]), kb)

	// match64: mask = (x - REP) & ^x & HI; index = TrailingZeros64(mask) / W
	if m, why := c15Match64(e); why != "" {
		c.Undec(rule, "match64#shape", e.fn["match64"].Pos(), "match64 is not the analysed zero-lane detector `(x-rep) & ^x & hi` / TrailingZeros: %s", why)
	} else {
		var rep uint64
		for i := int64(0); i < cnt && i*kb < 64; i++ {
			rep |= 1 << uint(i*kb)
		}
		pos := e.fn["match64"].Pos()
		fact(m.mul == rep && m.sub == rep, "match64#replicate", pos, "key is replicated by %#x and the borrow constant is %#x; both must be %#x (a 1 in each of %d lanes of %d bits)", m.mul, m.sub, rep, cnt, kb)
		fact(m.and == rep<<uint(kb-1), "match64#high-bits", pos, "lane test mask is %#x, must be the top bit of every lane %#x", m.and, rep<<uint(kb-1))
		fact(m.div == kb, "match64#lane-index", pos, "bit position is divided by %d to obtain the lane, lane width is %d", m.div, kb)
		fact(m.guard, "match64#nonzero-guard", pos, "the hit result is returned only under mask != 0 (TrailingZeros64(0)/%d would index past the bucket)", kb)
	}
	// packed byte
	kD, okD := c15AccessorConst(e.fn["Depth"], token.SHR)
	mT, okT := c15AccessorConst(e.fn["Type"], token.AND)
	if !okD || !okT || e.ins == nil {
		c.Undec(rule, "packed#shape", e.fn["Depth"].Pos(), "packed.Depth is not `p >> k`, packed.Type is not `p & m`, or Insert's packing was not recognised")
	} else {
		fact(kD == e.ins.packShift, "packed#shift-agree", e.ins.stored["packed"].Pos(), "Insert packs depth with << %d, packed.Depth unpacks with >> %d", e.ins.packShift, kD)
		nT, maxT := 0, int64(0)
		sc := e.named["Type"].Obj().Pkg().Scope()
		for _, name := range sc.Names() {
			if k, ok := sc.Lookup(name).(*types.Const); ok && types.Identical(k.Type(), e.named["Type"]) {
				v, _ := e.p.pkgConstInt("transp." + name)
				maxT = max(maxT, v)
				nT++
			}
		}
		fact(mT == 1<<uint(kD)-1 && maxT <= mT && nT >= 3, "packed#type-mask", e.fn["Type"].Pos(), "packed.Type masks with %#x; must be the %d bits below the depth, and all %d bound-type constants (max %d) must fit, else a bound type bleeds into the stored depth", mT, kD, nT, maxT)
		maxP := e.intMax(e.named["packed"])
		// the shift must act on the byte as stored: every conversion between the parameter and the shifted
		// operand has to preserve all values of packed, else depths in the upper half are sign-extended
		// (`Depth(p) >> 2` with a signed Depth reads 32..63 back as d-64)
		if rs := c15Returns(e.fn["Depth"]); len(rs) == 1 && len(rs[0].Results) == 1 {
			if x, _, okX := c15KBin(stripConv(rs[0].Results[0]), token.SHR); okX {
				lossy := ""
				for v := x; ; {
					if ct, isCT := v.(*ssa.ChangeType); isCT {
						v = ct.X
						continue
					}
					cv, isC := v.(*ssa.Convert)
					if !isC {
						break
					}
					if e.intMax(cv.Type()) < maxP {
						lossy = cv.Type().String()
					}
					v = cv.X
				}
				fact(lossy == "", "packed#shift-operand", e.fn["Depth"].Pos(), "packed.Depth shifts the byte after converting it to %s, which cannot hold every packed value (max %d): stored depths whose top bit is set are sign-extended before the shift and read back wrong", lossy, maxP)
			}
		}
		fact((maxPl-1)<<uint(kD) <= maxP && maxP>>uint(kD) <= e.intMax(e.named["Depth"]), "packed#depth-fits", e.named["packed"].Obj().Pos(),
			"depth MaxPlies-1 = %d shifted by %d must fit packed (max %d) and every unpacked depth must fit Depth (max %d)", maxPl-1, kD, maxP, e.intMax(e.named["Depth"]))
	}
	// bucket size, no pointers
	bt := e.named["bucket"]
	fact(e.sizes.Sizeof(bt) == bsz, "bucket#sizeof", bt.Obj().Pos(), "unsafe.Sizeof(bucket) on amd64 is %d, bucketSize is %d: Resize carves size/bucketSize buckets out of size bytes", e.sizes.Sizeof(bt), bsz)
	fact(c15PointerFree(bt), "bucket#pointer-free", bt.Obj().Pos(), "bucket must not contain pointers: it is overlaid on a []byte allocation the garbage collector does not scan")
	// scores
	maxS := e.intMax(e.named["Score"])
	inv := e.k["Inv"]
	if inv < 0 {
		inv = -inv
	}
	fact(max(e.k["Inf"], inv)+maxPl-1 <= maxS && maxPl-1 <= e.intMax(e.named["Depth"]), "score#range", e.named["Score"].Obj().Pos(),
		"the largest score magnitude max(Inf=%d, |Inv|=%d) re-based by up to MaxPlies-1 = %d must fit Score (max %d)", e.k["Inf"], inv, maxPl-1, maxS)
	c.Floor(rule, n, 9, "layout facts")
}

type c15M64 struct {
	mul, sub, and uint64
	div           int64
	guard         bool
}

func c15Match64(e *c15Env) (m c15M64, why string) {
	fn := e.fn["match64"]
	if len(fn.Params) != 2 {
		return m, "parameters"
	}
	hits := 0
	for _, r := range c15Returns(fn) {
		if len(r.Results) != 2 {
			return m, "results"
		}
		if k, isk := constOf(r.Results[1]); isk && k == 0 {
			continue // miss
		}
		hits++
		tz, div, ok := c15KBin(r.Results[0], token.QUO)
		if !ok {
			if x, sh, ok2 := c15KBin(r.Results[0], token.SHR); ok2 {
				tz, div, ok = x, 1<<uint(sh), true
			}
		}
		if !ok || !isCallValueTo(tz, "math/bits.TrailingZeros64") {
			return m, "hit index is not TrailingZeros64(mask)/k"
		}
		m.div = div
		mask := tz.(*ssa.Call).Call.Args[0]
		var pos, neg []ssa.Value // mask = AND(pos...) & ^neg...
		var fl func(v ssa.Value)
		fl = func(v ssa.Value) {
			b, isB := v.(*ssa.BinOp)
			u, isU := v.(*ssa.UnOp)
			switch {
			case isB && b.Op == token.AND:
				fl(b.X)
				fl(b.Y)
			case isB && b.Op == token.AND_NOT:
				fl(b.X)
				neg = append(neg, b.Y)
			case isU && u.Op == token.XOR:
				neg = append(neg, u.X)
			default:
				pos = append(pos, v)
			}
		}
		fl(mask)
		var x ssa.Value
		nk, ns := 0, 0
		for _, o := range pos {
			if k, isk := constOf(o); isk {
				m.and, nk = uint64(k), nk+1
			} else if y, k, ok := c15KBin(o, token.SUB); ok {
				x, m.sub, ns = y, uint64(k), ns+1
			}
		}
		if len(pos) != 2 || len(neg) != 1 || nk != 1 || ns != 1 || neg[0] != x {
			return m, "mask is not the conjunction of (x-k), ^x and a constant"
		}
		xb, ok := x.(*ssa.BinOp)
		if !ok || xb.Op != token.XOR {
			return m, "x is not word ^ replicated key"
		}
		w, rk := xb.X, xb.Y
		if w != fn.Params[0] {
			w, rk = rk, w
		}
		kv, mul, ok := c15KBin(rk, token.MUL)
		if w != fn.Params[0] || !ok || stripConv(kv) != fn.Params[1] {
			return m, "x is not word ^ key*k"
		}
		m.mul = uint64(mul)
		for _, ce := range controllingConds(r.Block()) {
			if cx, op, k, ok := c15RelK(ce); ok && cx == mask && k == 0 && op == token.NEQ {
				m.guard = true
			}
		}
	}
	if hits != 1 {
		return m, fmt.Sprintf("%d hit returns", hits)
	}
	return m, ""
}

// c15AccessorConst: fn is `return T(recv op k)`; returns k.
func c15AccessorConst(fn *ssa.Function, op token.Token) (int64, bool) {
	rs := c15Returns(fn)
	if len(rs) != 1 || len(rs[0].Results) != 1 || len(fn.Params) != 1 {
		return 0, false
	}
	x, k, ok := c15KBin(stripConv(rs[0].Results[0]), op)
	return k, ok && stripConv(x) == fn.Params[0]
}

// ---------- R2 probe and store address identically ----------

func c15R2(e *c15Env) {
	const rule = "C15.R2"
	c, n := e.c, 0
	lk, ins := e.fn["LookUp"], e.fn["Insert"]
	al, ai := e.addressing(lk), e.addressing(ins)
	if al.err != "" || ai.err != "" {
		c.Undec(rule, "sibling#shape", lk.Pos(), "LookUp: %q Insert: %q", al.err, ai.err)
		return
	}
	bx0 := e.fn["bucketIx"]
	bl, bi := c15Expr(al.bucket, nil, bx0, 0), c15Expr(ai.bucket, nil, bx0, 0)
	viaIx := func(a c15Addr, fn *ssa.Function, got string) bool { // &t.data[bucketIx(t, hash)] of the function's own receiver and hash
		recv, hash := c15Expr(fn.Params[0], nil, nil, 0), c15Expr(a.hash, nil, nil, 0)
		return got == "*("+recv+".data)["+objName(fnObj(bx0))+"("+recv+","+hash+")]"
	}
	if strings.Contains(bl+bi, "?") {
		c.Undec(rule, "sibling#bucket-index", al.bucket.Pos(), "bucket address expressions not comparable: %s / %s", bl, bi)
	} else if bl == bi && !(viaIx(al, lk, bl) && viaIx(ai, ins, bi)) {
		c.Undec(rule, "sibling#bucket-index", al.bucket.Pos(), "both address the bucket as %s, which is not &t.data[bucketIx(t, hash)]: the range argument of bucketIx#range does not cover it", bl)
	} else {
		c.Check(bl == bi, rule, "sibling#bucket-index", ai.bucket.Pos(), "LookUp addresses its bucket as %s, Insert as %s; both must be &t.data[bucketIx(t, hash)] of the probed/stored hash, else a key is stored in one bucket and probed in another", bl, bi)
		n++
	}
	sl, si := c15Expr(al.sig, nil, nil, 0), c15Expr(ai.sig, nil, nil, 0)
	if strings.Contains(sl+si, "?") {
		c.Undec(rule, "sibling#signature", al.sig.Pos(), "signature expressions not comparable: %s / %s", sl, si)
	} else {
		c.Check(sl == si, rule, "sibling#signature", ai.sig.Pos(), "LookUp derives the signature as %s, Insert as %s; they must be the same function of the hash", sl, si)
		n++
	}
	// LookUp: lane reported by match64 on this bucket's keys selects the entry of this bucket
	calls := callsIn(lk, "transp.match64")
	if len(calls) != 1 {
		c.Undec(rule, "LookUp#lane-entry", lk.Pos(), "expected one call of match64 in LookUp, found %d", len(calls))
	} else {
		call := calls[0].(*ssa.Call)
		kb, okK := e.loadOf(call.Call.Args[0], "bucket", "pKeys")
		good, shape := okK && kb == al.bucket && call.Call.Args[1] == al.sig, true
		hits := 0
		for _, r := range c15Returns(lk) {
			if k, isk := constOf(r.Results[1]); isk && k == 0 {
				continue
			}
			hits++
			ia, ok := r.Results[0].(*ssa.IndexAddr)
			if !ok {
				shape = false
				continue
			}
			b, okB := e.fa(ia.X, "bucket", "entries")
			ex, okE := ia.Index.(*ssa.Extract)
			good = good && okB && b == al.bucket && okE && ex.Tuple == call && ex.Index == 0
			guarded := false
			for _, ce := range controllingConds(r.Block()) {
				if fx, ok := ce.Cond.(*ssa.Extract); ok && fx.Tuple == call && fx.Index == 1 && ce.True {
					guarded = true
				}
			}
			good = good && guarded
		}
		if !shape || hits == 0 {
			c.Undec(rule, "LookUp#lane-entry", call.Pos(), "LookUp's hit result is not a pointer &bucket.entries[ix]")
			return
		}
		c.Check(good, rule, "LookUp#lane-entry", call.Pos(), "a hit returns &bucket.entries[ix] where (ix, ok=true) is match64(bucket.pKeys, signature) of the same bucket (%d hit returns)", hits)
		n++
	}
	// bucketIx = (uintN(hash) * len(t.data)) >> S with N <= S: result < len(t.data)
	bx := e.fn["bucketIx"]
	rs := c15Returns(bx)
	good, detail := false, "not a single `return int(uintN(hash) * uint64(len(t.data)) >> S)`"
	if len(rs) == 1 && len(rs[0].Results) == 1 && len(bx.Params) == 2 {
		if prod, s, ok := c15KBin(stripConv(rs[0].Results[0]), token.SHR); ok {
			if m, ok := prod.(*ssa.BinOp); ok && m.Op == token.MUL && e.bits(m.Type()) == 64 {
				for _, o := range [][2]ssa.Value{{m.X, m.Y}, {m.Y, m.X}} {
					nb := c15NarrowBits(e, o[0], bx.Params[1])
					ln, isCall := stripConv(o[1]).(*ssa.Call)
					if nb == 0 || !isCall || len(ln.Call.Args) != 1 {
						continue
					}
					if b, isB := ln.Call.Value.(*ssa.Builtin); !isB || b.Name() != "len" {
						continue
					}
					if base, ok := e.loadOf(ln.Call.Args[0], "Table", "data"); ok && base == bx.Params[0] {
						good = nb <= s && s < 64
						detail = fmt.Sprintf("hash narrowed to %d bits, times len(t.data), shifted right by %d: result < len(t.data) iff %d <= %d", nb, s, nb, s)
					}
				}
			}
		}
	}
	if strings.HasPrefix(detail, "not ") {
		c.Undec(rule, "bucketIx#range", bx.Pos(), "bucketIx is %s", detail)
	} else {
		c.Check(good, rule, "bucketIx#range", bx.Pos(), "%s", detail)
		n++
	}
	c.Floor(rule, n, 3, "addressing obligations")
}

// c15NarrowBits: v is a chain of unsigned conversions of root; returns the
// narrowest width on the chain (0 if not of that shape).
func c15NarrowBits(e *c15Env, v, root ssa.Value) int64 {
	w := int64(64)
	for v != root {
		var x ssa.Value
		switch cv := v.(type) {
		case *ssa.Convert:
			x = cv.X
		case *ssa.ChangeType:
			x = cv.X
		default:
			return 0
		}
		b, _ := v.Type().Underlying().(*types.Basic)
		if b == nil || b.Info()&types.IsUnsigned == 0 {
			return 0
		}
		w = min(w, e.bits(v.Type()))
		v = x
	}
	return w
}

// ---------- R3 mate re-basing is a mirror ----------

// c15Set is a set of scores: sorted, disjoint, non-adjacent closed intervals.
type c15Set [][2]int64

const c15Min, c15Max = math.MinInt64, math.MaxInt64

var c15Full = c15Set{{c15Min, c15Max}}

func (a c15Set) not() c15Set {
	var out c15Set
	lo, open := int64(c15Min), true
	for _, iv := range a {
		if iv[0] > lo {
			out = append(out, [2]int64{lo, iv[0] - 1})
		}
		if iv[1] == c15Max {
			open = false
			break
		}
		lo = iv[1] + 1
	}
	if open {
		out = append(out, [2]int64{lo, c15Max})
	}
	return out
}

func (a c15Set) and(b c15Set) c15Set {
	var out c15Set
	for _, x := range a {
		for _, y := range b {
			if lo, hi := max(x[0], y[0]), min(x[1], y[1]); lo <= hi {
				out = append(out, [2]int64{lo, hi})
			}
		}
	}
	return out.norm()
}

func (a c15Set) or(b c15Set) c15Set { return append(append(c15Set{}, a...), b...).norm() }

func (a c15Set) norm() c15Set {
	sort.Slice(a, func(i, j int) bool { return a[i][0] < a[j][0] })
	var out c15Set
	for _, iv := range a {
		if n := len(out); n > 0 && (out[n-1][1] == c15Max || iv[0] <= out[n-1][1]+1) {
			out[n-1][1] = max(out[n-1][1], iv[1])
			continue
		}
		out = append(out, iv)
	}
	return out
}

func (a c15Set) eq(b c15Set) bool { return fmt.Sprint(a) == fmt.Sprint(b) }

func (a c15Set) String() string {
	if len(a) == 0 {
		return "{}"
	}
	var s []string
	for _, iv := range a {
		lo, hi := fmt.Sprint(iv[0]), fmt.Sprint(iv[1])
		if iv[0] == c15Min {
			lo = "-inf"
		}
		if iv[1] == c15Max {
			hi = "+inf"
		}
		s = append(s, "["+lo+","+hi+"]")
	}
	return strings.Join(s, "u")
}

// c15Alt: on the scores in set the value is score + delta*ply.
type c15Alt struct {
	set   c15Set
	delta int
}

// c15Ev evaluates, over all scores at once, which score sets reach a block /
// make a condition true, and expresses values as score + delta*ply. Conditions
// that are not about the score count as "may go either way" (over-approximation);
// the caller's partition test (pairwise disjoint, covering) then proves exactness
// or leaves the rule undecided. Static calls to chess-3 functions are followed
// with parameters bound to score / ply arguments.
type c15Ev struct {
	isRoot, isPly func(ssa.Value) bool
	alias         map[ssa.Value]int // callee parameters bound to 1 = score, 2 = ply
	reach         map[*ssa.BasicBlock]c15Set
	busy          map[*ssa.BasicBlock]bool
	adjusted      bool        // a comparison tested an already adjusted score
	unknown       []ssa.Value // conditions that could not be expressed as score sets
	why           string
	depth         int
}

func c15NewEv(isRoot, isPly func(ssa.Value) bool) *c15Ev {
	return &c15Ev{isRoot: isRoot, isPly: isPly, alias: map[ssa.Value]int{}, reach: map[*ssa.BasicBlock]c15Set{}, busy: map[*ssa.BasicBlock]bool{}}
}

func (ev *c15Ev) root(v ssa.Value) bool { return ev.alias[v] == 1 || ev.isRoot(v) }
func (ev *c15Ev) ply(v ssa.Value) bool {
	return ev.alias[stripConv(v)] == 2 || ev.alias[v] == 2 || ev.isPly(v)
}

// bind prepares following call: callee parameters that receive the score or the ply become aliases.
func (ev *c15Ev) bind(call *ssa.Call) *ssa.Function {
	callee := call.Call.StaticCallee()
	if callee == nil || !isOwn(callee) || callee.Blocks == nil || len(callee.Params) != len(call.Call.Args) || ev.depth > 4 {
		return nil
	}
	for i, a := range call.Call.Args {
		switch {
		case ev.root(a):
			ev.alias[callee.Params[i]] = 1
		case ev.ply(a):
			ev.alias[callee.Params[i]] = 2
		}
	}
	return callee
}

// truth: the scores for which bool v is true; exact=false means over-approximated (v unknown).
func (ev *c15Ev) truth(v ssa.Value) (c15Set, bool) {
	switch x := v.(type) {
	case *ssa.Const:
		if k, _ := constOf(x); k != 0 {
			return c15Full, true
		}
		return nil, true
	case *ssa.UnOp:
		if x.Op == token.NOT {
			if t, exact := ev.truth(x.X); exact {
				return t.not(), true
			}
		}
	case *ssa.BinOp:
		sx, op, k, ok := c15RelK(condEdge{Cond: x, True: true})
		if !ok {
			break
		}
		alts, ok := ev.alts(sx)
		if !ok {
			break
		}
		var iv c15Set
		switch op {
		case token.LSS:
			iv = c15Set{{c15Min, k - 1}}
		case token.LEQ:
			iv = c15Set{{c15Min, k}}
		case token.GTR:
			iv = c15Set{{k + 1, c15Max}}
		case token.GEQ:
			iv = c15Set{{k, c15Max}}
		case token.EQL:
			iv = c15Set{{k, k}}
		case token.NEQ:
			iv = c15Set{{k, k}}.not()
		}
		var out c15Set
		for _, a := range alts {
			if a.delta != 0 {
				ev.adjusted = true // justified by the thresholds#separated obligation
			}
			out = out.or(a.set.and(iv))
		}
		return out, true
	case *ssa.Phi:
		var out c15Set
		exact := true
		for i, ed := range x.Edges {
			t, ex := ev.truth(ed)
			out, exact = out.or(t.and(ev.edge(x.Block().Preds[i], x.Block()))), exact && ex
		}
		return out, exact
	case *ssa.Call:
		if callee := ev.bind(x); callee != nil {
			ev.depth++
			defer func() { ev.depth-- }()
			var out c15Set
			exact := true
			for _, r := range c15Returns(callee) {
				if len(r.Results) != 1 {
					return c15Full, false
				}
				t, ex := ev.truth(returnedValue(r, 0))
				out, exact = out.or(t.and(ev.reachOf(r.Block()))), exact && ex
			}
			return out, exact
		}
	}
	ev.unknown = append(ev.unknown, v)
	return c15Full, false
}

// edge: scores with which control can pass pred -> succ.
func (ev *c15Ev) edge(pred, succ *ssa.BasicBlock) c15Set {
	r := ev.reachOf(pred)
	if n := len(pred.Instrs); n > 0 {
		if iff, ok := pred.Instrs[n-1].(*ssa.If); ok && pred.Succs[0] != pred.Succs[1] {
			t, exact := ev.truth(iff.Cond)
			switch {
			case !exact:
			case pred.Succs[0] == succ:
				r = r.and(t)
			default:
				r = r.and(t.not())
			}
		}
	}
	return r
}

// reachOf: scores with which b can be reached (exact in acyclic code; inside
// cycles the dominating branch conditions are used instead).
func (ev *c15Ev) reachOf(b *ssa.BasicBlock) c15Set {
	if r, ok := ev.reach[b]; ok {
		return r
	}
	if b.Index == 0 {
		return c15Full
	}
	if ev.busy[b] {
		r := c15Full
		for _, ce := range controllingConds(b) {
			if t, exact := ev.truth(ce.Cond); exact && ce.True {
				r = r.and(t)
			} else if exact {
				r = r.and(t.not())
			}
		}
		return r
	}
	ev.busy[b] = true
	var r c15Set
	for _, p := range b.Preds {
		r = r.or(ev.edge(p, b))
	}
	delete(ev.busy, b)
	ev.reach[b] = r
	return r
}

// alts expresses v as score + delta*ply, per score set.
func (ev *c15Ev) alts(v ssa.Value) ([]c15Alt, bool) {
	if ev.root(v) {
		return []c15Alt{{c15Full, 0}}, true
	}
	restrict := func(as []c15Alt, s c15Set) []c15Alt {
		var out []c15Alt
		for _, a := range as {
			if t := a.set.and(s); len(t) > 0 {
				out = append(out, c15Alt{t, a.delta})
			}
		}
		return out
	}
	switch x := v.(type) {
	case *ssa.BinOp:
		base, sign := ssa.Value(nil), 1
		switch {
		case x.Op == token.ADD && ev.ply(x.Y):
			base = x.X
		case x.Op == token.ADD && ev.ply(x.X):
			base = x.Y
		case x.Op == token.SUB && ev.ply(x.Y):
			base, sign = x.X, -1
		default:
			ev.why = fmt.Sprintf("the score is combined by %s with something other than the ply", x.Op)
			return nil, false
		}
		as, ok := ev.alts(base)
		for i := range as {
			as[i].delta += sign
		}
		return as, ok
	case *ssa.Phi:
		var out []c15Alt
		for i, ed := range x.Edges {
			as, ok := ev.alts(ed)
			if !ok {
				return nil, false
			}
			out = append(out, restrict(as, ev.edge(x.Block().Preds[i], x.Block()))...)
		}
		return out, true
	case *ssa.Call:
		if callee := ev.bind(x); callee != nil {
			ev.depth++
			defer func() { ev.depth-- }()
			var out []c15Alt
			for _, r := range c15Returns(callee) {
				if len(r.Results) != 1 {
					return nil, false
				}
				as, ok := ev.alts(returnedValue(r, 0))
				if !ok {
					return nil, false
				}
				out = append(out, restrict(as, ev.reachOf(r.Block()))...)
			}
			return out, true
		}
	}
	if ev.why == "" {
		ev.why = fmt.Sprintf("the score flows through a %T", v)
	}
	return nil, false
}

// c15Partition groups alternatives by delta and demands a partition of the score axis.
func c15Partition(as []c15Alt) (map[int]c15Set, string) {
	by := map[int]c15Set{}
	all := c15Set{}
	for _, a := range as {
		by[a.delta] = by[a.delta].or(a.set)
	}
	for d, s := range by {
		if len(all.and(s)) > 0 {
			return nil, fmt.Sprintf("for scores %s the adjustment is not determined by the score alone (delta %+d overlaps another)", all.and(s), d)
		}
		all = all.or(s)
	}
	if !all.eq(c15Full) {
		return nil, fmt.Sprintf("scores %s are not accounted for", all.not())
	}
	return by, ""
}

func c15ByString(by map[int]c15Set) string {
	var s []string
	for _, d := range []int{-1, 0, 1} {
		if len(by[d]) > 0 {
			s = append(s, fmt.Sprintf("%s:%+d*ply", by[d], d))
		}
	}
	for d, set := range by {
		if d < -1 || d > 1 {
			s = append(s, fmt.Sprintf("%s:%+d*ply", set, d))
		}
	}
	return strings.Join(s, " ")
}

func c15R3(e *c15Env) {
	const rule = "C15.R3"
	c := e.c
	if e.ins == nil {
		c.Undec(rule, "Insert#rebase", e.fn["Insert"].Pos(), "Insert's shape was not recognised (see C15.R4 Insert#shape)")
		return
	}
	in := e.ins
	// Insert side: the value stored into entry.value as a function of the score parameter
	var ply *ssa.Parameter
	foreignPly := false
	evI := c15NewEv(func(v ssa.Value) bool { return v == in.value }, nil)
	evI.isPly = func(v ssa.Value) bool {
		q, ok := stripConv(v).(*ssa.Parameter)
		if !ok || q.Parent() != in.fn || !e.isT(q.Type(), "Depth") {
			return false
		}
		if ply != nil && ply != q {
			foreignPly = true
		}
		ply = q
		return true
	}
	var bi map[int]c15Set
	asI, ok := evI.alts(in.stored["value"])
	why := evI.why
	if ok {
		bi, why = c15Partition(asI)
	}
	if why != "" {
		c.Undec(rule, "Insert#rebase", in.stored["value"].Pos(), "stored score is not a piecewise `score ± ply` of the score parameter: %s", why)
		return
	}
	// Value side: every returned value as a function of e.value
	vf := e.fn["Value"]
	isRecv := func(b ssa.Value) bool { // the receiver, or the local copy of a value receiver
		if al, ok := b.(*ssa.Alloc); ok && al.Referrers() != nil {
			for _, r := range *al.Referrers() {
				if st, ok := r.(*ssa.Store); ok && st.Addr == ssa.Value(al) && st.Val == ssa.Value(vf.Params[0]) {
					return true
				}
			}
		}
		return b == ssa.Value(vf.Params[0])
	}
	evV := c15NewEv(
		func(v ssa.Value) bool {
			if f, ok := v.(*ssa.Field); ok && f.X == ssa.Value(vf.Params[0]) {
				_, st := structOf(f.X.Type())
				return st != nil && st.Field(f.Field) == e.field("entry", "value")
			}
			b, ok := e.loadOf(v, "entry", "value")
			return ok && isRecv(b)
		},
		func(v ssa.Value) bool { return len(vf.Params) == 2 && stripConv(v) == vf.Params[1] })
	var asV []c15Alt
	why = ""
	allInstrs(vf, func(i ssa.Instruction) {
		if st, ok := i.(*ssa.Store); ok && e.group(st.Addr) != "" {
			why = "entry.Value stores to the table"
		}
	})
	for _, r := range c15Returns(vf) {
		as, ok := evV.alts(returnedValue(r, 0))
		if !ok && why == "" {
			why = evV.why
		}
		for _, a := range as {
			if t := a.set.and(evV.reachOf(r.Block())); len(t) > 0 {
				asV = append(asV, c15Alt{t, a.delta})
			}
		}
	}
	var bv map[int]c15Set
	if why == "" {
		bv, why = c15Partition(asV)
	}
	if why != "" {
		c.Undec(rule, "Value#rebase", vf.Pos(), "entry.Value is not a piecewise `stored ± ply` of e.value: %s", why)
		return
	}
	si, sv := c15ByString(bi), c15ByString(bv)
	// Insert: away from zero, by the ply parameter (not the depth that is packed)
	dn, mid, up := bi[-1], bi[0], bi[1]
	away := len(bi) == 3 && len(dn) == 1 && len(mid) == 1 && len(up) == 1 && dn[0][1] < 0 && up[0][0] > 0 && mid[0][0] <= 0 && mid[0][1] >= 0
	c.Check(away, rule, "Insert#away-from-zero", in.stored["value"].Pos(), "Insert stores score -> %s; required: one range below zero moved down by ply, one above zero moved up by ply, the range containing 0 unchanged (so that a re-based score stays on its side of the threshold it was tested against)", si)
	c.Check(ply != nil && !foreignPly && ply != in.packedDepth, rule, "Insert#ply-parameter", in.stored["value"].Pos(), "Insert re-bases by one Depth parameter that is not the depth packed into the entry (re-basing by the search depth instead of the ply corrupts every mate score)")
	// mirror
	mirror := len(bi) == len(bv)
	for d, set := range bi {
		mirror = mirror && set.eq(bv[-d])
	}
	c.Check(mirror, rule, "mirror#Insert-Value", vf.Pos(), "Insert: %s; entry.Value: %s — the ranges must coincide (same thresholds, same strictness) with opposite ply sign, otherwise a score stored at ply p is not read back as the same score (mate distance) at ply p", si, sv)
	// thresholds further apart than any ply: a score moved toward zero cannot reach the other range
	sep := len(mid) == 1 && mid[0][0] != c15Min && mid[0][1] != c15Max && mid[0][1]-mid[0][0] > e.intMax(e.named["Depth"])
	c.Check(sep, rule, "thresholds#separated", vf.Pos(), "the unchanged range %s is wider than the largest Depth (%d), so sequential tests on an already adjusted score see the range of the original score (needed: %v)", mid, e.intMax(e.named["Depth"]), evI.adjusted || evV.adjusted)
	nz := 0
	for _, by := range []map[int]c15Set{bi, bv} {
		for d, set := range by {
			if d != 0 && len(set) > 0 {
				nz++
			}
		}
	}
	c.Floor(rule, nz, 4, "re-basing branches (2 in Insert, 2 in entry.Value)")
}

// ---------- R4 lane bookkeeping in Insert ----------

func c15R4(e *c15Env) {
	const rule = "C15.R4"
	c, in := e.c, e.ins
	if in == nil {
		return // Insert#shape already reported
	}
	fnn := "transp.(*Table).Insert#"
	kb := e.k["partialKeyBits"]
	n := 0
	// signature comparison: partialKey(laneWord) ==/!= sig
	var sigCond *ssa.BinOp
	var lane0 ssa.Value
	nCmp := 0
	allInstrs(in.fn, func(i ssa.Instruction) {
		b, ok := i.(*ssa.BinOp)
		if !ok || b.Op != token.EQL && b.Op != token.NEQ {
			return
		}
		for _, o := range [][2]ssa.Value{{b.X, b.Y}, {b.Y, b.X}} {
			if o[0] == in.sig && e.isT(o[1].Type(), "partialKey") {
				sigCond, lane0 = b, o[1]
				nCmp++
			}
		}
	})
	// matchIdx: the lane index at which "the signature matches" is decided; sigVal/sigPos: the bool value deciding it
	var matchIdx, sigVal ssa.Value
	sigPos := true
	if calls := callsIn(in.fn, "transp.match64"); nCmp == 0 && len(calls) == 1 {
		// Insert asks match64 (whose lane arithmetic is C15.R1's) instead of comparing lane by lane
		call, _ := calls[0].(*ssa.Call)
		if call != nil && call.Referrers() != nil {
			for _, r := range *call.Referrers() {
				if ex, ok := r.(*ssa.Extract); ok && ex.Index == 0 {
					matchIdx = ex
				} else if ok && ex.Index == 1 {
					sigVal = ex
				}
			}
		}
		if matchIdx == nil || sigVal == nil {
			c.Undec(rule, fnn+"match-lane", in.fn.Pos(), "result of match64 in Insert is not used as (lane, ok)")
			return
		}
		b, okK := e.loadOf(call.Call.Args[0], "bucket", "pKeys")
		c.Check(okK && b == in.bucket && call.Call.Args[1] == in.sig, rule, fnn+"lane-walk", call.Pos(), "the matching lane is match64(bucket.pKeys, signature) of the bucket being stored into and the signature being stored")
		n++
	} else if sigCond == nil || nCmp != 1 {
		c.Undec(rule, fnn+"match-lane", in.fn.Pos(), "no unique comparison of the signature with `partialKey(lane word)` (%d comparisons), and no single match64 call", nCmp)
		return
	} else {
		// the lane word compared while entry i is examined must be lane i: either a running copy of
		// pKeys shifted by partialKeyBits on every i++, or pKeys >> i*partialKeyBits read directly
		// (possibly through a helper: parameters are bound to the arguments)
		bind := c15Bind{}
		lane := bind.open(lane0)
		if x, k, ok := c15KBin(lane, token.AND); ok && k == 1<<uint(kb)-1 { // explicit lane mask before the truncating conversion
			lane = bind.open(x)
		}
		var iPhi *ssa.Phi
		walk, known := false, false
		if keys, ok := lane.(*ssa.Phi); ok && keys.Parent() == in.fn {
			for _, instr := range keys.Block().Instrs { // the counter stepping with the running copy
				if ph, isPhi := instr.(*ssa.Phi); isPhi && c15Counter(ph) && len(ph.Edges) == len(keys.Edges) {
					iPhi = ph
				}
			}
			if iPhi != nil {
				walk, known = true, true
				shifts := 0
				for j, ed := range keys.Edges {
					_, first := constOf(iPhi.Edges[j]) // edge entering the loop: i = 0
					if b, ok := e.loadOf(ed, "bucket", "pKeys"); ok && b == in.bucket && first {
						continue
					}
					if x, k, ok := c15KBin(ed, token.SHR); ok && x == ssa.Value(keys) && k == kb && !first {
						shifts++
						continue
					}
					walk = false
				}
				walk = walk && shifts >= 1
			}
		} else if sh, ok := lane.(*ssa.BinOp); ok && sh.Op == token.SHR {
			if a, okL := c15Load(bind.open(sh.X)); okL {
				if fa, isFA := a.(*ssa.FieldAddr); isFA {
					if _, isKeys := e.fa(fa, "bucket", "pKeys"); isKeys && bind.at(fa.X) == in.bucket {
						cnt := bind.open(sh.Y)
						r, stride, okM := c15KBin(cnt, token.MUL)
						if !okM {
							if r2, k, okS := c15KBin(cnt, token.SHL); okS {
								r, stride, okM = r2, 1<<uint(k), true
							}
						}
						if ph, isPhi := bind.open(r).(*ssa.Phi); okM && isPhi && ph.Parent() == in.fn && c15Counter(ph) {
							iPhi, walk, known = ph, stride == kb, true
						}
					}
				}
			}
		}
		bound := int64(-1)
		allInstrs(in.fn, func(i ssa.Instruction) {
			v, isV := i.(ssa.Value)
			if !isV || iPhi == nil {
				return
			}
			if x, k, ok := c15KBin(v, token.LSS); ok {
				if x == ssa.Value(iPhi) {
					bound = k
				} else if y, one, ok := c15KBin(x, token.ADD); ok && y == ssa.Value(iPhi) && one == 1 {
					bound = k
				}
			}
		})
		if !known || bound < 0 {
			c.Undec(rule, fnn+"lane-walk", sigCond.Pos(), "the lane word compared with the signature is neither a copy of bucket.pKeys shifted once per iteration of a counting loop nor bucket.pKeys >> i*k of a loop counter i, or the loop bound is not a constant")
			return
		}
		c.Check(walk && bound == e.k["bucketEntryCnt"], rule, fnn+"lane-walk", sigCond.Pos(),
			"while entry i is examined the signature is compared with lane i of bucket.pKeys (stride partialKeyBits = %d, starting at lane 0 with i = 0); the loop bound (%d) is bucketEntryCnt (%d)", kb, bound, e.k["bucketEntryCnt"])
		n++
		matchIdx, sigVal, sigPos = iPhi, sigCond, sigCond.Op == token.EQL
	}
	isTarget := func(v ssa.Value) bool { // &bucket.entries[i]
		ia, ok := v.(*ssa.IndexAddr)
		if !ok || ia.Index != matchIdx {
			return false
		}
		b, ok := e.fa(ia.X, "bucket", "entries")
		return ok && b == in.bucket
	}

	// Every block-simple path from the entry of Insert to the store of the entry, with phis and
	// conditions resolved along the path (loop counters stay symbolic, 0 <= i):
	//  - a path on which the signature matched at lane i overwrites entry i,
	//    any other path overwrites a lane index of the bucket (constant in range / a loop counter);
	//  - a move other than the parameter is stored only on a matched path with a null move
	//    passed in, and is the move of entry i.
	type arrival struct {
		matched, smNull bool
		repl, move      ssa.Value
	}
	var arrivals []arrival
	storeBlk := in.entStore.Block()
	done := enumBlockPaths(in.fn.Blocks[0], func(_, to *ssa.BasicBlock) bool { return to == storeBlk }, 200000, func(p *bpath) {
		if p.End != "arrive" || p.Arrive != storeBlk {
			return
		}
		ar := arrival{}
		for _, pc := range p.Conds {
			if pc.V == sigVal {
				ar.matched = pc.True == sigPos
			}
			b, ok := pc.V.(*ssa.BinOp)
			if !ok {
				continue
			}
			x, y := c15ResolveOn(p, b.X, pc.At), c15ResolveOn(p, b.Y, pc.At)
			if holds, decided := c15Decide(b.Op, x, y); decided && holds != pc.True {
				return // contradictory path
			}
			if px, op, k, ok := c15RelK(condEdge{Cond: b, True: pc.True}); ok && op == token.EQL && k == 0 && c15ResolveOn(p, px, pc.At) == ssa.Value(in.sm) {
				ar.smNull = true
			}
		}
		last := len(p.Blocks) - 1
		at := func(v ssa.Value) ssa.Value {
			if ph, ok := v.(*ssa.Phi); ok && ph.Block() == storeBlk {
				for k, pr := range storeBlk.Preds {
					if pr == p.Blocks[last] {
						return c15ResolveOn(p, ph.Edges[k], last)
					}
				}
				return v
			}
			return c15ResolveOn(p, v, last)
		}
		ar.repl, ar.move = at(in.repl), at(in.stored["Move"])
		arrivals = append(arrivals, ar)
	})
	if !done || len(arrivals) == 0 {
		c.Undec(rule, fnn+"replace-on-match", in.entStore.Pos(), "the paths from the entry of Insert to the store of the entry could not be enumerated (%d found)", len(arrivals))
		return
	}
	{
		onMatch, good, detail, unk := 0, true, "", ""
		for _, ar := range arrivals {
			if ar.matched {
				onMatch++
				if ar.repl != matchIdx {
					good, detail = false, "after a signature match at lane i the entry overwritten is not entry i: the bucket then holds the signature twice and LookUp may return the stale one"
				}
				continue
			}
			if k, isk := constOf(ar.repl); isk {
				if _, isC := ar.repl.(*ssa.Const); isC && (k < 0 || k >= e.k["bucketEntryCnt"]) {
					good, detail = false, fmt.Sprintf("without a signature match entry %d is overwritten, which is outside the bucket", k)
				}
			} else if ph, isPhi := ar.repl.(*ssa.Phi); !isPhi || !c15Counter(ph) {
				unk = "the victim index on a no-match path is computed, not one of the examined lane indices"
			}
		}
		if onMatch == 0 {
			good, detail = false, "no path on which a signature match selects the entry to overwrite"
		}
		if good && unk != "" {
			c.Undec(rule, fnn+"replace-on-match", in.entStore.Pos(), "%s", unk)
		} else {
			c.Check(good, rule, fnn+"replace-on-match", in.entStore.Pos(), "entry overwritten: lane i on every path with a signature match at lane i (%d of %d paths to the store), otherwise a lane index of the bucket. %s", onMatch, len(arrivals), detail)
			n++
		}
	}

	// pKeys update: clear and set the lane of the overwritten entry
	// (in Insert itself, or in a helper it calls next to the entry store with bucket, lane and signature as arguments)
	ufn, bucketV, sigV, replV, wantBlk := in.fn, ssa.Value(in.bucket), in.sig, stripConv(in.repl), in.entStore.Block()
	var last *ssa.Store
	sameBlock := true
	scan := func() {
		last, sameBlock = nil, true
		allInstrs(ufn, func(i ssa.Instruction) {
			if st, ok := i.(*ssa.Store); ok {
				if b, ok := e.fa(st.Addr, "bucket", "pKeys"); ok && b == bucketV {
					last = st
					sameBlock = sameBlock && st.Block() == wantBlk
				}
			}
		})
	}
	if scan(); last == nil {
		for _, i := range in.entStore.Block().Instrs {
			call, ok := i.(*ssa.Call)
			if !ok {
				continue
			}
			callee := call.Call.StaticCallee()
			if callee == nil || !isOwn(callee) || callee.Blocks == nil || len(callee.Params) != len(call.Call.Args) {
				continue
			}
			var pb, ps, pr ssa.Value
			for j, a := range call.Call.Args {
				switch {
				case a == ssa.Value(in.bucket):
					pb = callee.Params[j]
				case c15Under(a, in.sig):
					ps = callee.Params[j]
				case stripConv(a) == stripConv(in.repl):
					pr = callee.Params[j]
				}
			}
			if pb != nil && ps != nil && pr != nil {
				ufn, bucketV, sigV, replV, wantBlk = callee, pb, ps, pr, callee.Blocks[0]
				if scan(); last != nil {
					break
				}
			}
		}
	}
	if last == nil || !sameBlock {
		c.Undec(rule, fnn+"pKeys-update", in.entStore.Pos(), "bucket.pKeys is not updated in the block that overwrites the entry")
	} else {
		var orig ssa.Value
		var resolve func(v ssa.Value) ssa.Value
		resolve = func(v ssa.Value) ssa.Value {
			if u, ok := v.(*ssa.UnOp); ok && u.Op == token.MUL {
				if b, ok := e.fa(u.X, "bucket", "pKeys"); ok && b == bucketV {
					if f := c15Forward(u); f != nil {
						return resolve(f)
					}
					orig = v
				}
			}
			return v
		}
		laneOf := func(sh ssa.Value) (ssa.Value, int64) { // sh = R * stride
			if r, k, ok := c15KBin(stripConv(sh), token.MUL); ok {
				return stripConv(r), k
			}
			if r, k, ok := c15KBin(stripConv(sh), token.SHL); ok {
				return stripConv(r), 1 << uint(k)
			}
			return nil, 0
		}
		var setLane, clrLane ssa.Value
		var setStride, clrStride int64
		setSig, maskOK, shape := false, false, false
		if top, ok := resolve(last.Val).(*ssa.BinOp); ok && top.Op == token.OR {
			for _, o := range [][2]ssa.Value{{top.X, top.Y}, {top.Y, top.X}} {
				set, okS := resolve(o[1]).(*ssa.BinOp)
				clr, okC := resolve(o[0]).(*ssa.BinOp)
				if !okS || !okC || set.Op != token.SHL {
					continue
				}
				var keep, mask ssa.Value
				switch clr.Op {
				case token.AND_NOT:
					keep, mask = resolve(clr.X), clr.Y
				case token.AND:
					for _, q := range [][2]ssa.Value{{clr.X, clr.Y}, {clr.Y, clr.X}} {
						if u, ok := q[1].(*ssa.UnOp); ok && u.Op == token.XOR {
							keep, mask = resolve(q[0]), u.X
						}
					}
				}
				mk, okM := mask.(*ssa.BinOp)
				if keep == nil || keep != orig || !okM || mk.Op != token.SHL {
					continue
				}
				shape = true
				if k, isk := constOf(mk.X); isk && k == 1<<uint(kb)-1 {
					maskOK = true
				}
				clrLane, clrStride = laneOf(mk.Y)
				setLane, setStride = laneOf(set.Y)
				setSig = c15Under(set.X, sigV)
			}
		}
		if !shape || clrLane == nil || setLane == nil {
			c.Undec(rule, fnn+"pKeys-update", last.Pos(), "final bucket.pKeys is not `old &^ (laneMask << r*k) | uint64(signature) << r*k`")
		} else {
			r := replV
			clrOK, setOK := clrLane == r && clrStride == kb, setLane == r && setStride == kb
			c.Check(maskOK && setSig && clrOK && setOK, rule, fnn+"pKeys-update", last.Pos(),
				"final pKeys = old with one lane cleared and the signature or-ed in: lane mask is 2^partialKeyBits-1: %v; value set is the compared signature: %v; lane cleared is replace*partialKeyBits: %v; lane set is replace*partialKeyBits: %v (replace = index of the overwritten entry). A mismatch leaves the signature of one key on the entry of another", maskOK, setSig, clrOK, setOK)
			n++
		}
	}

	// early return (keep deeper): can execute only with match ∧ typ != Exact ∧ depth > d+2 ∧ same generation.
	// Decided by path-sensitive simulation over named atoms, so the arrangement of the tests
	// (&&, nested ifs, ||, named boolean locals, De Morgan, swapped operands) does not matter.
	typeVals := map[int64]bool{}
	sc := e.named["Type"].Obj().Pkg().Scope()
	for _, name := range sc.Names() {
		if k, ok := sc.Lookup(name).(*types.Const); ok && types.Identical(k.Type(), e.named["Type"]) {
			v, _ := e.p.pkgConstInt("transp." + name)
			typeVals[v] = true
		}
	}
	classify := func(v ssa.Value) (string, bool, bool) {
		if v == sigVal {
			return "sig", !sigPos, true
		}
		b, ok := v.(*ssa.BinOp)
		if !ok {
			return "", false, false
		}
		if x, op, k, ok := c15RelK(condEdge{Cond: b, True: true}); ok && x == ssa.Value(in.typ) {
			switch op {
			case token.EQL, token.NEQ:
				return fmt.Sprintf("typ==%d", k), op == token.NEQ, true
			case token.LSS, token.GEQ:
				return fmt.Sprintf("typ<%d", k), op == token.GEQ, true
			case token.LEQ, token.GTR:
				return fmt.Sprintf("typ<%d", k+1), op == token.GTR, true
			}
		}
		x, y, op := b.X, b.Y, b.Op
		if _, isCall := y.(*ssa.Call); isCall {
			x, y, op = y, x, c15Flip[op]
		}
		if call, isCall := x.(*ssa.Call); isCall && call.Call.StaticCallee() == e.fn["Depth"] {
			if t, okT := e.loadOf(call.Call.Args[0], "entry", "packed"); okT && isTarget(t) {
				if dp, m, okY := c15KBin(y, token.ADD); okY && dp == ssa.Value(in.packedDepth) {
					switch op { // as `depth > d+m`, possibly negated
					case token.GTR:
						return fmt.Sprintf("deeper>%d", m), false, true
					case token.GEQ:
						return fmt.Sprintf("deeper>%d", m-1), false, true
					case token.LEQ:
						return fmt.Sprintf("deeper>%d", m), true, true
					case token.LSS:
						return fmt.Sprintf("deeper>%d", m-1), true, true
					}
				}
			}
		}
		if b.Op == token.EQL || b.Op == token.NEQ {
			for _, o := range [][2]ssa.Value{{b.X, b.Y}, {b.Y, b.X}} {
				if t, okT := e.loadOf(o[0], "entry", "gen"); okT && isTarget(t) && o[1] == ssa.Value(in.gen) {
					return "gen", b.Op == token.NEQ, true
				}
			}
		}
		return "", false, false
	}
	early := 0
	for _, r := range c15Returns(in.fn) {
		if r.Block() == in.entStore.Block() || in.entStore.Block().Dominates(r.Block()) {
			continue
		}
		early++
		// per requirement: 1 = holds on every path to the return, 0 = a recognised test is wrong, -1 = some path lacks the test
		sig, bound, deeper, sameGen := 1, 1, 1, 1
		kept := map[int64]bool{} // bound types with which the return is reachable
		paths := 0
		sm := &simulator{fn: in.fn, classify: classify, maxVisit: 1, interest: func(i ssa.Instruction) bool { return i == ssa.Instruction(r) }}
		sm.visit = func(_ ssa.Instruction, asg map[string]bool) {
			paths++
			if !asg["sig"] {
				sig = -1
			}
			if !asg["gen"] {
				sameGen = -1
			} else if in.stored["gen"] != ssa.Value(in.gen) {
				sameGen = 0
			}
			okDeep, otherDeep := false, false
			typed := false
			for v := range typeVals {
				holds := true
				for atom, val := range asg {
					var k int64
					if _, err := fmt.Sscanf(atom, "typ==%d", &k); err == nil {
						typed, holds = true, holds && (v == k) == val
					} else if _, err := fmt.Sscanf(atom, "typ<%d", &k); err == nil {
						typed, holds = true, holds && (v < k) == val
					}
				}
				if holds {
					kept[v] = true
				}
			}
			for atom, val := range asg {
				var m int64
				if _, err := fmt.Sscanf(atom, "deeper>%d", &m); err == nil && val {
					okDeep, otherDeep = okDeep || m == 2, otherDeep || m != 2
				}
			}
			if !typed {
				bound = -1
			}
			if !okDeep && otherDeep && deeper == 1 {
				deeper = 0
			} else if !okDeep && !otherDeep {
				deeper = -1
			}
		}
		sm.run()
		if sm.aborted || paths == 0 {
			c.Undec(rule, fmt.Sprintf("%skeep-deeper@%d", fnn, early), r.Pos(), "the paths to the return that skips the store could not be enumerated")
			continue
		}
		if bound == 1 && (kept[e.k["Exact"]] || len(kept) != len(typeVals)-1) {
			bound = 0
		}
		for _, nd := range []struct {
			name string
			st   int
			par  ssa.Value
			why  string
		}{
			{"signature-match", sig, nil, "a store of a key that is not in the bucket would be dropped"},
			{"bound-only", bound, in.typ, "exactly the non-Exact bound types may be kept out; an exact score always replaces the entry"},
			{"deeper-by-more-than-2", deeper, in.packedDepth, "a bound must displace a same-key entry that is at most two plies deeper than the depth being stored"},
			{"same-generation", sameGen, in.gen, "an entry of an earlier search must be displaced; the generation compared is the one Insert stores"},
		} {
			key := fmt.Sprintf("%skeep-deeper@%d:%s", fnn, early, nd.name)
			related := false // is the parameter tested in some other way somewhere in Insert?
			allInstrs(in.fn, func(i ssa.Instruction) {
				if iff, ok := i.(*ssa.If); ok && nd.par != nil && nd.st < 0 && backSlice(iff.Cond, sliceOpts{})[nd.par] {
					related = true
				}
			})
			if related {
				c.Undec(rule, key, r.Pos(), "the return that skips the store tests %s in a form the rule does not understand", nd.par.Name())
				continue
			}
			c.Check(nd.st == 1, rule, key, r.Pos(), "the return that skips the store can execute only when `%s` holds for the signature-matching entry (%s)", nd.name, nd.why)
			n++
		}
	}
	c.Floor(rule+".keep-deeper", early, 1, "returns of Insert that skip the store")

	// kept move: only from the signature-matching entry, only when the new move is null
	kept := 0
	{
		good, unk := true, ""
		var pos token.Pos = in.stored["Move"].Pos()
		for _, ar := range arrivals {
			if ar.move == ssa.Value(in.sm) {
				continue
			}
			kept++
			t, okT := e.loadOf(ar.move, "entry", "Move")
			if !okT {
				unk = "the move stored is neither the parameter nor a load of an entry's move"
				continue
			}
			pos = ar.move.Pos()
			good = good && isTarget(t) && ar.matched && ar.smNull
		}
		key := fnn + "kept-move"
		switch {
		case unk != "":
			c.Undec(rule, key, pos, "%s", unk)
		case kept > 0:
			c.Check(good, rule, key, pos, "a move other than the one passed in is stored only on paths where the signature matched at lane i and the new move is null, and it is the move of entry i (%d such paths); a victim's move belongs to a different key", kept)
			n++
		}
	}
	c.Floor(rule+".kept-move", kept, 1, "paths keeping the old hash move")
	c.Floor(rule, n, 5, "lane bookkeeping obligations (walk, replace, pKeys, keep-deeper conditions, kept move)")
}

// c15Clear: Clear zeroes the signature word of every bucket t.data[0..len) unconditionally
// — by storing 0 to pKeys, a zero bucket to t.data[i], or clear(t.data) — (signature 0 =
// empty lane; stale entries without signature are unreachable).
func c15Clear(e *c15Env) {
	const rule, key = "C15.R4", "transp.(*Table).Clear#keys-zeroed"
	fn := e.fn["Clear"]
	found, good, nonZero, calls := 0, false, false, 0
	isData := func(v ssa.Value) bool {
		base, ok := e.loadOf(v, "Table", "data")
		return ok && base == fn.Params[0]
	}
	allInstrs(fn, func(i ssa.Instruction) {
		if call, ok := i.(*ssa.Call); ok {
			if bi, isB := call.Call.Value.(*ssa.Builtin); isB && bi.Name() == "clear" && len(call.Call.Args) == 1 && isData(call.Call.Args[0]) {
				found++
				good = good || len(controllingConds(call.Block())) == 0
			} else if callee := call.Call.StaticCallee(); callee != nil && isOwn(callee) {
				calls++
			}
			return
		}
		st, ok := i.(*ssa.Store)
		if !ok {
			return
		}
		ia, isIx := st.Addr.(*ssa.IndexAddr) // t.data[i] = bucket{}
		if b, isKeys := e.fa(st.Addr, "bucket", "pKeys"); isKeys {
			ia, isIx = b.(*ssa.IndexAddr) // t.data[i].pKeys = 0
		}
		if !isIx || !isData(ia.X) {
			return
		}
		found++
		// index runs from 0: phi{0, +1} or phi{-1, +1}+1
		idx, start := ia.Index, int64(0)
		if x, k, ok := c15KBin(idx, token.ADD); ok && k == 1 {
			idx, start = x, -1
		}
		ph, isPhi := idx.(*ssa.Phi)
		from0 := isPhi
		for _, ed := range c15Edges(ph) {
			k, isk := constOf(ed)
			x, one, isStep := c15KBin(ed, token.ADD)
			from0 = from0 && (isk && k == start || isStep && one == 1 && (x == ph || start == -1 && ed == ia.Index))
		}
		// the only condition on the store: index < len(t.data)
		conds := controllingConds(st.Block())
		bounded := len(conds) == 1
		for _, ce := range conds {
			x, y, op, ok := c15Rel(ce)
			if ok && (op == token.GTR) {
				x, y, op = y, x, token.LSS
			}
			ln, isCall := y.(*ssa.Call)
			bounded = bounded && ok && op == token.LSS && x == ia.Index && isCall && len(ln.Call.Args) == 1
			if bounded {
				bi, isB := ln.Call.Value.(*ssa.Builtin)
				bounded = isB && bi.Name() == "len" && isData(ln.Call.Args[0])
			}
		}
		k, isk := constOf(st.Val)
		nonZero = nonZero || isk && k != 0
		good = good || from0 && bounded && isk && k == 0
	})
	switch {
	case good:
		e.c.Ok(rule, key, fn.Pos(), "Clear zeroes the signature word of t.data[i] for every i in [0, len(t.data)) with no other condition: a signature surviving Clear would make a later probe hit on data stored before the Clear")
	case found == 0 && calls == 0:
		e.c.Fail(rule, key, fn.Pos(), "Clear neither stores to t.data[i].pKeys / t.data[i] nor calls anything that could: signatures survive Clear and a later probe hits on data stored before it")
	case nonZero:
		e.c.Fail(rule, key, fn.Pos(), "Clear stores a non-zero constant into the signature word")
	default:
		e.c.Undec(rule, key, fn.Pos(), "Clear's way of emptying the buckets is not one the rule understands (%d candidate stores, %d calls): expected an unconditional loop over all of t.data storing zero", found, calls)
	}
}

// ---------- R5 single writer, read-only consumers ----------

// c15Group classifies the storage behind a store address: "contents" (a bucket, an
// entry or a field of one), "table" (Table or a field of it), "" otherwise or
// when the storage is a local temporary.
func (e *c15Env) group(addr ssa.Value) string {
	for a := addr; ; { // local temporaries (composite literal under construction, value receiver copy) are nobody's state
		switch x := a.(type) {
		case *ssa.FieldAddr:
			a = x.X
			continue
		case *ssa.IndexAddr:
			a = x.X
			continue
		case *ssa.Alloc:
			return ""
		}
		break
	}
	owner := func(t types.Type) string {
		if p, ok := t.Underlying().(*types.Pointer); ok {
			t = p.Elem()
		}
		for _, g := range [][2]string{{"bucket", "contents"}, {"entry", "contents"}, {"Table", "table"}} {
			if types.Identical(t, e.named[g[0]]) {
				return g[1]
			}
		}
		if arr, ok := t.Underlying().(*types.Array); ok && types.Identical(arr.Elem(), e.named["entry"]) {
			return "contents"
		}
		return ""
	}
	if g := owner(addr.Type()); g != "" { // whole bucket / entry / Table
		return g
	}
	if fa, ok := addr.(*ssa.FieldAddr); ok { // one field
		return owner(fa.X.Type())
	}
	return ""
}

// c15OnlyFrom: fn is one of roots, or every call-graph caller of fn (transitively) is.
func (e *c15Env) onlyFrom(fn *ssa.Function, roots map[*ssa.Function]bool, busy map[*ssa.Function]bool) bool {
	if fn == nil {
		return false
	}
	if fn.Parent() != nil {
		return e.onlyFrom(fn.Parent(), roots, busy)
	}
	if roots[fn] {
		return true
	}
	if busy[fn] {
		return true
	}
	busy[fn] = true
	defer delete(busy, fn)
	n := e.p.CallGraph().Nodes[fn]
	if n == nil || len(n.In) == 0 {
		return false
	}
	for _, in := range n.In {
		if !e.onlyFrom(in.Caller.Func, roots, busy) {
			return false
		}
	}
	return true
}

func c15R5(e *c15Env) {
	const rule = "C15.R5"
	c, p := e.c, e.p
	roots := map[string]map[*ssa.Function]bool{
		"contents": {e.fn["Insert"]: true, e.fn["Clear"]: true},
		"table":    {e.fn["Resize"]: true},
	}
	what := map[string]string{"contents": "bucket signatures / entries", "table": "Table.data / Table.raw"}
	who := map[string]string{"contents": "Insert and Clear (and helpers only they call)", "table": "Resize (and helpers only it calls)"}
	n := 0
	for _, fn := range p.OwnFuncs() {
		sites := map[string][]ssa.Instruction{}
		allInstrs(fn, func(i ssa.Instruction) {
			switch x := i.(type) {
			case *ssa.Store:
				if g := e.group(x.Addr); g != "" {
					sites[g] = append(sites[g], i)
				}
			case *ssa.Call:
				if bi, ok := x.Call.Value.(*ssa.Builtin); ok && (bi.Name() == "clear" || bi.Name() == "copy") && len(x.Call.Args) > 0 {
					if sl, ok := x.Call.Args[0].Type().Underlying().(*types.Slice); ok {
						if g := e.group(ssa.Value(x.Call.Args[0])); g == "" && (types.Identical(sl.Elem(), e.named["bucket"]) || types.Identical(sl.Elem(), e.named["entry"])) {
							sites["contents"] = append(sites["contents"], i)
						}
					}
				}
			}
		})
		for _, g := range sortedKeys(sites) {
			key := "writer:" + g + "@" + fnName(fn)
			if e.onlyFrom(fn, roots[g], map[*ssa.Function]bool{}) {
				c.Ok(rule, key, sites[g][0].Pos(), "%s stores %s (%d sites) and runs only as part of %s", fnName(fn), what[g], len(sites[g]), who[g])
				n++
			} else {
				c.Fail(rule, key, sites[g][0].Pos(), "%s stores %s; only %s may: a probe would return data that no Insert stored for the key", fnName(fn), what[g], who[g])
			}
		}
		// addresses of table state handed to code that is not part of the writers
		eff := directEffects(fn)
		for _, k := range sortedKeys(eff.Escapes) {
			if (strings.HasPrefix(k, "transp.bucket.") || strings.HasPrefix(k, "transp.entry.") || strings.HasPrefix(k, "transp.Table.")) && !e.onlyFrom(fn, roots["contents"], map[*ssa.Function]bool{}) && !e.onlyFrom(fn, roots["table"], map[*ssa.Function]bool{}) {
				s := eff.Escapes[k][0]
				c.Undec(rule, "escape:"+k+"@"+fnName(fn), s.Pos, "address of %s leaves %s (%s); who writes through it is not followed", k, fnName(fn), s.What)
			}
		}
	}
	c.Floor(rule+".writers", n, 2, "(state, writer) pairs: at least one writer of bucket contents and one of Table.data")
	// consumers of LookUp's pointer
	sites := 0
	for _, fn := range p.OwnFuncs() {
		for _, ci := range callsIn(fn, "transp.(*Table).LookUp") {
			call, ok := ci.(*ssa.Call)
			if !ok || call.Referrers() == nil {
				c.Undec(rule, "consumer:"+fnName(fn), ci.Pos(), "LookUp called by go/defer")
				continue
			}
			sites++
			bad, unk := "", ""
			seen := map[ssa.Value]bool{}
			var uses func(v ssa.Value, ptr bool)
			uses = func(v ssa.Value, ptr bool) {
				if seen[v] || v.Referrers() == nil {
					return
				}
				seen[v] = true
				for _, r := range *v.Referrers() {
					switch x := r.(type) {
					case *ssa.DebugRef, *ssa.If, *ssa.UnOp, *ssa.BinOp:
					case *ssa.Extract:
						uses(x, x.Index == 0)
					case *ssa.FieldAddr, *ssa.IndexAddr, *ssa.Phi:
						if ptr {
							uses(x.(ssa.Value), true)
						}
					case *ssa.Store:
						if ptr && x.Addr == v {
							bad = "stores through the pointer"
						} else if ptr {
							unk = "retains the pointer"
						}
					case ssa.CallInstruction:
						if !ptr {
							continue
						}
						callee := x.Common().StaticCallee()
						recvOnly := callee != nil && callee.Signature.Recv() != nil && fnPkgPath(callee) == e.named["entry"].Obj().Pkg().Path() && x.Common().Args[0] == v
						for _, a := range x.Common().Args[1:] {
							recvOnly = recvOnly && a != v
						}
						if !recvOnly {
							unk = "passes the pointer to " + x.Common().String()
						}
					default:
						if ptr {
							unk = fmt.Sprintf("uses the pointer in a %T", r)
						}
					}
				}
			}
			uses(call, false)
			switch {
			case bad != "":
				c.Fail(rule, "consumer:"+fnName(fn), call.Pos(), "%s %s of the *entry returned by LookUp: table contents change without an Insert", fnName(fn), bad)
			case unk != "":
				c.Undec(rule, "consumer:"+fnName(fn), call.Pos(), "%s %s; whether the *entry returned by LookUp is only read can no longer be followed", fnName(fn), unk)
			default:
				c.Ok(rule, "consumer:"+fnName(fn), call.Pos(), "the *entry returned by LookUp is only read in %s (field loads and transp's own methods, none of which is a writer)", fnName(fn))
			}
		}
	}
	c.Floor(rule+".consumers", sites, 2, "LookUp call sites")
}

// ---------- R6 resize bounds ----------

func c15R6(e *c15Env) {
	const rule = "C15.R6"
	c := e.c
	fn := e.fn["Resize"]
	fnn := "transp.(*Table).Resize#"
	if len(fn.Params) != 2 {
		c.Undec(rule, fnn+"shape", fn.Pos(), "Resize(size) parameters changed")
		return
	}
	recv, size := fn.Params[0], fn.Params[1]
	szB, alB := e.sizes.Sizeof(e.named["bucket"]), e.sizes.Alignof(e.named["bucket"])
	n := 0
	// sizes with which a store to t.data can execute: branch conditions in Resize on the way
	// to it, and for every chess-3 function called with size before it, the sizes it returns for
	ev := c15NewEv(func(v ssa.Value) bool { return v == ssa.Value(size) }, func(ssa.Value) bool { return false })
	sizesAt := func(st *ssa.Store) c15Set {
		g := ev.reachOf(st.Block())
		allInstrs(fn, func(i ssa.Instruction) {
			call, ok := i.(*ssa.Call)
			if !ok || !instrDominates(call, st) {
				return
			}
			passes := false
			for _, a := range call.Call.Args {
				passes = passes || a == ssa.Value(size)
			}
			if callee := ev.bind(call); callee != nil && passes {
				var ret c15Set
				for _, r := range c15Returns(callee) {
					ret = ret.or(ev.reachOf(r.Block()))
				}
				g = g.and(ret)
			}
		})
		return g
	}
	var div int64 = -1
	var lens []ssa.Value
	var allowed c15Set
	stores := 0
	allInstrs(fn, func(i ssa.Instruction) {
		st, ok := i.(*ssa.Store)
		if !ok {
			return
		}
		if b, ok := e.fa(st.Addr, "Table", "data"); !ok || b != recv {
			return
		}
		stores++
		allowed = allowed.or(sizesAt(st))
		switch v := st.Val.(type) {
		case *ssa.Slice:
			if b, ok := e.loadOf(v.X, "Table", "data"); ok && b == recv && v.Low == nil && v.High != nil {
				lens = append(lens, v.High)
			}
		case *ssa.Call:
			if b, ok := v.Call.Value.(*ssa.Builtin); ok && b.Name() == "Slice" && len(v.Call.Args) == 2 {
				lens = append(lens, v.Call.Args[1])
				c15Grow(e, rule, fnn, v, size, szB, alB)
				n++
			}
		}
	})
	okLen := len(lens) == stores && stores > 0
	for _, l := range lens {
		x, d, ok := c15KBin(stripConv(l), token.QUO)
		okLen = okLen && ok && stripConv(x) == size && (div < 0 || div == d)
		div = d
	}
	for _, l := range lens { // size >> k
		if x, k, ok := c15KBin(stripConv(l), token.SHR); ok && stripConv(x) == ssa.Value(size) && !okLen && len(lens) == stores {
			div, okLen = 1<<uint(k), true
		}
	}
	allowed = allowed.and(c15Set{{0, c15Max}}) // a negative size panics in make / in the re-slice
	benign := true                             // the only conditions not understood are divisibility tests of size
	for _, u := range ev.unknown {
		b, ok := u.(*ssa.BinOp)
		isMod := false
		if ok {
			for _, o := range []ssa.Value{b.X, b.Y} {
				if r, _, okR := c15KBin(o, token.REM); okR && ev.root(r) {
					isMod = true
				}
			}
		}
		guard := !ok // does the condition decide between continuing and panicking?
		if ok && b.Referrers() != nil {
			for _, r := range *b.Referrers() {
				iff, isIf := r.(*ssa.If)
				if !isIf {
					guard = true // feeds a compound condition: assume it may
					continue
				}
				for _, sb := range iff.Block().Succs {
					if _, p := sb.Instrs[len(sb.Instrs)-1].(*ssa.Panic); p {
						guard = true
					}
				}
			}
		}
		benign = benign && (isMod || !guard)
		if !(isMod || !guard) {
			c.Note("C15.R6: size condition not understood: %s = %s in %s", u.Name(), u.String(), u.Parent().Name())
		}
	}
	switch {
	case !okLen:
		c.Undec(rule, fnn+"length", fn.Pos(), "every new t.data is not a slice of length size/k (%d stores, %d recognised)", stores, len(lens))
	case len(allowed) > 0 && allowed[0][0] < div && !benign:
		c.Undec(rule, fnn+"length", fn.Pos(), "whether sizes below %d are rejected before t.data is replaced depends on conditions the rule does not understand", div)
	default:
		lo := "nothing"
		if len(allowed) > 0 && allowed[0][0] != c15Min {
			lo = fmt.Sprint(allowed[0][0])
		}
		c.Check(div >= szB && len(allowed) > 0 && allowed[0][0] >= div, rule, fnn+"length", fn.Pos(), "t.data gets size/%d buckets of %d bytes (must not exceed size bytes); it is replaced only for size >= %s, guaranteed by the checks in Resize and the functions it passes size to (must give at least one bucket: bucketIx of an empty table indexes out of range)", div, szB, lo)
		n++
	}
	c.Floor(rule, n, 2, "resize obligations (length, allocation)")
}

// c15Grow checks data = unsafe.Slice((*bucket)((&raw[0] + m1) &^ m2), n) against raw = make([]byte, size + c).
func c15Grow(e *c15Env, rule, fnn string, sl *ssa.Call, size ssa.Value, szB, alB int64) {
	c := e.c
	construct := fnn + "allocation"
	al, ok := stripConv(sl.Call.Args[0]).(*ssa.BinOp)
	bad := func(what string) {
		c.Undec(rule, construct, sl.Pos(), "aligned allocation not recognised: %s", what)
	}
	if !ok {
		bad("pointer is not an aligned address")
		return
	}
	var m2 int64
	sum, k, okA := c15KBin(al, token.AND_NOT)
	if okA {
		m2 = k
	} else if sum, k, okA = c15KBin(al, token.AND); okA {
		m2 = ^k
	} else {
		bad("no alignment mask")
		return
	}
	base, m1, okS := c15KBin(sum, token.ADD)
	if !okS {
		base, m1 = sum, 0
	}
	ia, okI := stripConv(base).(*ssa.IndexAddr)
	if !okI {
		bad("base address is not &raw[0]")
		return
	}
	if k, isk := constOf(ia.Index); !isk || k != 0 {
		bad("base address is not element 0")
		return
	}
	raw := ia.X
	if u, ok := raw.(*ssa.UnOp); ok && u.Op == token.MUL {
		if _, isRaw := e.fa(u.X, "Table", "raw"); isRaw {
			raw = c15Forward(u)
		}
	}
	mk, okM := raw.(*ssa.MakeSlice)
	if !okM {
		bad("base is not an element of the slice just made")
		return
	}
	// len = size + extra
	extra, v := int64(0), mk.Len
	for v != size {
		if x, k, ok := c15KBin(v, token.ADD); ok {
			extra, v = extra+k, x
		} else if b, isB := v.(*ssa.BinOp); isB && b.Op == token.SUB {
			k, isk := constOf(b.Y)
			if !isk {
				bad("allocation length is not size + constant")
				return
			}
			extra, v = extra-k, b.X
		} else {
			bad("allocation length is not size + constant")
			return
		}
	}
	c.Check(m1 >= m2 && extra >= m1 && c15Pow2(m2+1) && (m2+1)%alB == 0, rule, construct, sl.Pos(),
		"raw = make([]byte, size+%d); data starts at (&raw[0] + %d) &^ %d. Required: round-up %d >= mask %d (never below &raw[0]), slack %d >= round-up (size bytes remain after the aligned start), mask+1 = %d a power of two and a multiple of bucket's alignment %d",
		extra, m1, m2, m1, m2, extra, m2+1, alB)
}

// ---------- mutants ----------

func init() {
	const T = "transp/transp.go"
	addMutants(
		// R1
		Mutant{Name: "C15.R1-hi16-lane-dropped", Prop: "C15", File: T, Old: "hi16  = 0x8000_8000_8000_8000", New: "hi16  = 0x8000_8000_8000_0000", Expect: "C15.R1/match64#high-bits"},
		Mutant{Name: "C15.R1-lane-index-divisor", Prop: "C15", File: T, Old: "bits.TrailingZeros64(mask) / 16, true", New: "bits.TrailingZeros64(mask) / 8, true", Expect: "C15.R1/match64#lane-index"},
		Mutant{Name: "C15.R1-fifth-bound-type", Prop: "C15", File: T, Old: "\tExact                  // Entry score is exact.\n", New: "\tExact                  // Entry score is exact.\n\tQuiet\n\tStatic\n", Expect: "C15.R1/packed#type-mask"},
		Mutant{Name: "C15.R1-shift-after-signed-conversion", Prop: "C15", File: T, Old: "return Depth(p >> 2)", New: "return Depth(p) >> 2", Expect: "C15.R1/packed#shift-operand"},
		Mutant{Name: "C15.R1-pack-shift-3", Prop: "C15", File: T, Old: "packed(d)<<2 | packed(typ)", New: "packed(d)<<3 | packed(typ)", Expect: "C15.R1/packed#shift-agree"},
		Mutant{Name: "C15.R1-key-bits-12", Prop: "C15", File: T, Old: "partialKeyBits = 16", New: "partialKeyBits = 12", Expect: "C15.R1/partialKey-width"},
		Mutant{Name: "C15.R1-entry-grows", Prop: "C15", File: T, Old: "\tgen       Gen   // (1 byte)\n", New: "\tgen       Gen   // (1 byte)\n\tage       uint16\n", Expect: "C15.R1/bucket#sizeof"},
		// R2
		Mutant{Name: "C15.R2-insert-signature-other-bits", Prop: "C15", File: T, Quick: true, Old: "\thashKey := partialKey(hash >> (64 - partialKeyBits))\n\tbucketKeys := bucket.pKeys\n", New: "\thashKey := partialKey(hash >> 32)\n\tbucketKeys := bucket.pKeys\n", Expect: "C15.R2/sibling#signature"},
		Mutant{Name: "C15.R2-bucketIx-full-hash", Prop: "C15", File: T, Old: "h := uint32(hash)", New: "h := uint64(hash)", Expect: "C15.R2/bucketIx#range"},
		Mutant{Name: "C15.R2-insert-bucket-of-shifted-hash", Prop: "C15", File: T, Old: "\tbucket := &t.data[t.bucketIx(hash)]\n\n\thashKey", New: "\tbucket := &t.data[t.bucketIx(hash>>16)]\n\n\thashKey", Expect: "C15.R2/sibling#bucket-index"},
		Mutant{Name: "C15.R2-lookup-first-entry", Prop: "C15", File: T, Old: "return &bucket.entries[ix], true", New: "return &bucket.entries[ix&1], true", Expect: "C15.R2/LookUp#lane-entry"},
		// R3
		Mutant{Name: "C15.R3-rebase-same-sign", Prop: "C15", File: T, Quick: true, Old: "return e.value - Score(ply)", New: "return e.value + Score(ply)", Expect: "C15.R3/mirror"},
		Mutant{Name: "C15.R3-value-inclusive-threshold", Prop: "C15", File: T, Old: "if e.value > Inf-MaxPlies {", New: "if e.value >= Inf-MaxPlies {", Expect: "C15.R3/mirror"},
		Mutant{Name: "C15.R3-insert-rebase-by-depth", Prop: "C15", File: T, Old: "value -= Score(ply)", New: "value -= Score(d)", Expect: "C15.R3/Insert#ply-parameter"},
		Mutant{Name: "C15.R3-insert-wider-window", Prop: "C15", File: T, Old: "if value > Inf-MaxPlies {", New: "if value > Inf-2*MaxPlies {", Expect: "C15.R3/mirror"},
		Mutant{Name: "C15.R3-insert-toward-zero", Prop: "C15", File: T, Old: "value += Score(ply)", New: "value -= Score(ply)", File2: T, Old2: "return e.value - Score(ply)", New2: "return e.value + Score(ply)", Expect: "C15.R3/Insert#away-from-zero"},
		// R4
		Mutant{Name: "C15.R4-set-lane-wrong-stride", Prop: "C15", File: T, Quick: true, Old: "bucket.pKeys |= uint64(hashKey) << (replace * partialKeyBits)", New: "bucket.pKeys |= uint64(hashKey) << (replace * bucketEntryCnt)", Expect: "C15.R4/transp.(*Table).Insert#pKeys-update"},
		Mutant{Name: "C15.R4-match-does-not-select-lane", Prop: "C15", File: T, Old: "\t\t\treplace = i\n\t\t\tbreak", New: "\t\t\tbreak", Expect: "C15.R4/transp.(*Table).Insert#replace-on-match"},
		Mutant{Name: "C15.R4-kept-move-from-victim", Prop: "C15", File: T, Old: "\t\t\tif sm == 0 {\n\t\t\t\tsm = target.Move\n\t\t\t}\n\n", New: "", File2: T, Old2: "\tif value < -Inf+MaxPlies {\n\t\tvalue -= Score(ply)", New2: "\tif sm == 0 {\n\t\tsm = bucket.entries[replace].Move\n\t}\n\tif value < -Inf+MaxPlies {\n\t\tvalue -= Score(ply)", Expect: "C15.R4/transp.(*Table).Insert#kept-move"},
		Mutant{Name: "C15.R4-keep-deeper-any-generation", Prop: "C15", File: T, Old: "target.Depth() > d+2 && target.gen == gen", New: "target.Depth() > d+2", Expect: "C15.R4/transp.(*Table).Insert#keep-deeper@1:same-generation"},
		Mutant{Name: "C15.R4-keep-deeper-margin", Prop: "C15", File: T, Old: "target.Depth() > d+2", New: "target.Depth() >= d+2", Expect: "C15.R4/transp.(*Table).Insert#keep-deeper@1:deeper"},
		Mutant{Name: "C15.R4-keep-deeper-exact-too", Prop: "C15", File: T, Old: "if typ != Exact && target.Depth()", New: "if target.Depth()", Expect: "C15.R4/transp.(*Table).Insert#keep-deeper@1:bound-only"},
		Mutant{Name: "C15.R4-lane-walk-half-stride", Prop: "C15", File: T, Old: "bucketKeys >>= partialKeyBits", New: "bucketKeys >>= partialKeyBits / 2", Expect: "C15.R4/transp.(*Table).Insert#lane-walk"},
		Mutant{Name: "C15.R4-clear-keeps-signatures", Prop: "C15", File: T, Old: "\t\tt.data[i].pKeys = 0\n", New: "", Expect: "C15.R4/transp.(*Table).Clear#keys-zeroed"},
		Mutant{Name: "C15.R4-clear-skips-first-bucket", Prop: "C15", File: T, Old: "\tfor i, bucket := range t.data {\n\t\tt.data[i].pKeys = 0\n", New: "\tfor i, bucket := range t.data[1:] {\n\t\tt.data[i+1].pKeys = 0\n", Expect: "C15.R4/transp.(*Table).Clear#keys-zeroed"},
		// R5
		Mutant{Name: "C15.R5-search-writes-through-probe", Prop: "C15", File: "search/search.go", Quick: true, Old: "\t\thashMove = transpE.Move\n", New: "\t\thashMove = transpE.Move\n\t\ttranspE.Move = 0\n", Expect: "C15.R5/"},
		Mutant{Name: "C15.R5-value-rebases-in-place", Prop: "C15", File: T, Old: "\t\treturn e.value + Score(ply)\n", New: "\t\te.value += Score(ply)\n\t\treturn e.value\n", Expect: "C15.R5/writer:contents@transp.(*entry).Value"},
		Mutant{Name: "C15.R5-probe-pointer-retained", Prop: "C15", File: "search/search.go", Old: "\t\thashMove = transpE.Move\n", New: "\t\thashMove = transpE.Move\n\t\tdefer func() { _ = transpE.Value(ply) }()\n", Expect: "C15.R5/consumer:search.(*Search).alphaBeta"},
		// R6
		Mutant{Name: "C15.R6-no-slack", Prop: "C15", File: T, Old: "make([]byte, size+bucketSize-1)", New: "make([]byte, size)", Expect: "C15.R6/transp.(*Table).Resize#allocation"},
		Mutant{Name: "C15.R6-round-down", Prop: "C15", File: T, Old: "aligned := (base + uintptr(bucketSize-1)) &^ uintptr(bucketSize-1)", New: "aligned := base &^ uintptr(bucketSize-1)", Expect: "C15.R6/transp.(*Table).Resize#allocation"},
		Mutant{Name: "C15.R6-empty-table-accepted", Prop: "C15", File: T, Old: "if size < bucketSize || size%bucketSize != 0 {", New: "if size%bucketSize != 0 {", Expect: "C15.R6/transp.(*Table).Resize#length"},
	)
}
