package main

// C03.R9: fields that the undo restores *relative to their current value*
// (side to move flipped back, full-move counter decremented) instead of from
// the token. Such a restore is exact only if the make applied the inverse
// update, exactly once, on every path — a make that updates under a condition
// while the undo reverts unconditionally (or the other way round) leaves the
// field different after make+undo for the inputs on the other branch.

import (
	"fmt"
	"go/token"
	"go/types"

	"golang.org/x/tools/go/ssa"
)

type selfUpd struct {
	site   ssa.Instruction // instruction in the make/undo function (the store, or the call of the helper holding it)
	st     *ssa.Store
	op     string // flip | add | addfield | other
	k      int64  // add: signed constant; addfield: +1 / -1
	g      string // addfield: the other board field
	gload  ssa.Instruction
	inHelp bool
	cond   bool // conditional inside its helper
	gflip  bool // addfield: the operand is the flipped colour (STM only)
}

func (u selfUpd) String() string {
	switch u.op {
	case "flip":
		return "flip"
	case "add":
		return fmt.Sprintf("%+d", u.k)
	case "addfield":
		if u.k > 0 {
			return "+= " + u.g
		}
		return "-= " + u.g
	}
	return u.op
}

// classifySelfUpdate: is st (a store to board field `field`) an update relative to the field's current value?
func classifySelfUpdate(st *ssa.Store, field string) (selfUpd, bool) {
	u := selfUpd{st: st}
	v := stripConv(st.Val)
	isF := func(x ssa.Value) bool {
		s, ok := directFieldLoad(stripConv(x))
		return ok && s == field
	}
	if call, ok := v.(*ssa.Call); ok && objName(calleeObj(call)) == "chess.(Color).Flip" && len(call.Call.Args) == 1 && isF(call.Call.Args[0]) {
		u.op = "flip"
		return u, true
	}
	if bo, ok := v.(*ssa.BinOp); ok && (bo.Op == token.ADD || bo.Op == token.SUB || bo.Op == token.XOR) {
		sign := int64(1)
		if bo.Op == token.SUB {
			sign = -1
		}
		x, y := bo.X, bo.Y
		if !isF(x) && bo.Op != token.SUB && isF(y) {
			x, y = y, x
		}
		if isF(x) {
			if bo.Op == token.XOR {
				if k, isc := constOf(y); isc && k == 1 {
					u.op = "flip"
					return u, true
				}
			} else if k, isc := constOf(y); isc {
				u.op, u.k = "add", sign*k
				return u, true
			} else if g, ok := directFieldLoad(stripConv(y)); ok {
				u.op, u.k, u.g = "addfield", sign, g
				u.gload = stripConv(y).(*ssa.UnOp)
				return u, true
			} else if ld, fl, ok := stmOperand(y, 0); ok {
				u.op, u.k, u.g, u.gflip = "addfield", sign, "Board.STM", fl
				u.gload = ld
				return u, true
			}
		}
	}
	self := false
	for x := range backSlice(v, sliceOpts{}) {
		if isF(x) {
			self = true
		}
		if call, ok := x.(*ssa.Call); ok {
			// restored from the token (delta form `F ^= r.change()`): C03.R3 decides those
			if f := calleeObj(call); f != nil {
				if sig, _ := f.Type().(*types.Signature); sig != nil && sig.Recv() != nil {
					t := sig.Recv().Type()
					if pt, ok := t.(*types.Pointer); ok {
						t = pt.Elem()
					}
					if n, ok := types.Unalias(t).(*types.Named); ok && n.Obj().Name() == "Reverse" {
						return u, false
					}
				}
			}
		}
	}
	if self {
		u.op = "other"
		return u, true
	}
	return u, false
}

// selfUpdates: the relative updates of `field` performed by fn, directly or in a helper of package board called from fn.
func selfUpdates(p *Prog, fn *ssa.Function, field string) (upd []selfUpd, plain int) {
	for _, st := range fieldStores(fn, field) {
		if u, ok := classifySelfUpdate(st, field); ok {
			u.site = st
			upd = append(upd, u)
		} else {
			plain++
		}
	}
	allInstrs(fn, func(in ssa.Instruction) {
		call, ok := in.(*ssa.Call)
		if !ok {
			return
		}
		h := call.Call.StaticCallee()
		if h == nil || h == fn || !isOwn(h) || relPkg(fnPkgPath(h)) != "board" || len(h.Blocks) == 0 {
			return
		}
		for _, hs := range helperStores(h, field, 0, map[*ssa.Function]bool{fn: true}) {
			u, ok := classifySelfUpdate(hs.st, field)
			if !ok {
				plain++
				continue
			}
			u.site, u.inHelp = call, true
			u.cond = hs.cond
			if u.gload != nil {
				u.gload = call
			}
			upd = append(upd, u)
		}
	})
	return
}

// onEveryPathOnce: instruction `in` of fn runs exactly once on every path from entry to a return.
func onEveryPathOnce(fn *ssa.Function, in ssa.Instruction) bool {
	if r, _ := reachAvoiding(in, in, nil); r {
		return false // in a loop
	}
	ok := true
	allInstrs(fn, func(x ssa.Instruction) {
		if ret, isRet := x.(*ssa.Return); isRet {
			if !blockDomOrSame(in.Block(), ret.Block()) {
				ok = false
			}
		}
	})
	return ok
}

// fieldPhase: in which state does fn read board field g at `load`: "orig" = the value before the move was made,
// "made" = the value after it, "same" = fn never changes g, "?" = not decided. In a make, a read that no store of g
// reaches sees the original; in an undo, a read that every store of g dominates sees the (restored) original.
func fieldPhase(p *Prog, fn *ssa.Function, g string, load ssa.Instruction, isUndo bool) string {
	gs, _ := selfUpdates(p, fn, g)
	var sites []ssa.Instruction
	for _, x := range gs {
		sites = append(sites, x.site)
	}
	for _, s := range fieldStores(fn, g) {
		sites = append(sites, s)
	}
	if len(sites) == 0 {
		return "same"
	}
	after, before := true, true
	for _, s := range sites {
		if !instrDominates(s, load) {
			after = false
		}
		if r, _ := reachAvoiding(s, load, nil); r {
			before = false
		}
	}
	switch {
	case before && !after:
		if isUndo {
			return "made"
		}
		return "orig"
	case after && !before:
		if isUndo {
			return "orig"
		}
		return "made"
	}
	return "?"
}

// updGuard: the relative update at `site` runs under exactly one condition, a test of a board field against a
// constant, and that test itself is evaluated exactly once on every path. Returns field, constant, sense, the load.
func updGuard(fn *ssa.Function, u selfUpd) (g string, k int64, eq bool, load ssa.Instruction, ok bool) {
	if u.inHelp || u.cond {
		return
	}
	conds := controllingConds(u.site.Block())
	if len(conds) != 1 {
		return
	}
	ce := conds[0]
	bo, isb := ce.Cond.(*ssa.BinOp)
	if !isb || (bo.Op != token.EQL && bo.Op != token.NEQ) {
		return
	}
	for _, pr := range [][2]ssa.Value{{bo.X, bo.Y}, {bo.Y, bo.X}} {
		kk, isc := constOf(pr[1])
		ld, isl := stripConv(pr[0]).(*ssa.UnOp)
		if !isc || !isl {
			continue
		}
		f, isf := directFieldLoad(ld)
		if !isf {
			continue
		}
		if r, _ := reachAvoiding(u.site, u.site, nil); r {
			return
		}
		if !onEveryPathOnce(fn, ce.If) {
			return
		}
		return f, kk, (bo.Op == token.EQL) == ce.True, ld, true
	}
	return
}

func c03R9(c *Ctx, p *Prog) {
	const rule = "C03.R9"
	pk := p.Pkg("board")
	if pk == nil {
		c.Anchor(rule, "package board")
		return
	}
	bt, _ := pk.Types.Scope().Lookup("Board").(*types.TypeName)
	if bt == nil {
		c.Anchor(rule, "board.Board")
		return
	}
	st, _ := bt.Type().Underlying().(*types.Struct)
	n := 0
	for _, pr := range [][2]string{{"board.(*Board).MakeMove", "board.(*Board).UndoMove"}, {"board.(*Board).MakeNullMove", "board.(*Board).UndoNullMove"}} {
		mk, un := p.Func(pr[0]), p.Func(pr[1])
		if mk == nil || un == nil {
			c.Anchor(rule, pr[0]+"/"+pr[1])
			continue
		}
		for i := 0; i < st.NumFields(); i++ {
			if _, isBasic := st.Field(i).Type().Underlying().(*types.Basic); !isBasic {
				continue
			}
			field := "Board." + st.Field(i).Name()
			uu, _ := selfUpdates(p, un, field)
			if len(uu) == 0 {
				continue // restored from the token (R3) or not touched
			}
			mu, mplain := selfUpdates(p, mk, field)
			n++
			key := pr[1] + "#" + field + "#relative-restore"
			pos := uu[0].site.Pos()
			if len(uu) > 1 || len(mu) > 1 {
				c.Undec(rule, key, pos, "%s is updated relative to itself at %d sites in %s and %d in %s; only the one-update-each form is decided", field, len(mu), pr[0], len(uu), pr[1])
				continue
			}
			u := uu[0]
			if len(mu) == 0 {
				if _, writes := boardWrites(p, mk)["board."+field]; mplain > 0 || writes {
					c.Undec(rule, key, pos, "%s restores %s relative to its current value (%s) but %s assigns it absolutely", pr[1], field, u, pr[0])
				} else {
					c.Fail(rule, key, pos, "%s changes %s relative to its current value (%s) but %s never updates it: make followed by undo leaves it different", pr[1], field, u, pr[0])
				}
				continue
			}
			m := mu[0]
			if u.op == "other" || m.op == "other" {
				c.Undec(rule, key, pos, "relative update of %s in an unrecognised form", field)
				continue
			}
			inverse := false
			switch {
			case u.op == "flip" && m.op == "flip":
				inverse = true
			case u.op == "add" && m.op == "add":
				inverse = u.k == -m.k
			case u.op == "addfield" && m.op == "addfield":
				inverse = u.k == -m.k && u.g == m.g
			}
			if !inverse {
				c.Fail(rule, key, pos, "%s updates %s by (%s) and %s reverts it by (%s): these are not inverse to each other", pr[0], field, m, pr[1], u)
				continue
			}
			mOnce := !m.cond && onEveryPathOnce(mk, m.site)
			uOnce := !u.cond && onEveryPathOnce(un, u.site)
			switch {
			case mOnce && uOnce:
			case !mOnce && !uOnce:
				// both under the same test of a board field read in the same state (`if b.STM == Black { b.fullMoves++ }`)
				gm, km, em, lm, okm := updGuard(mk, m)
				gu, ku, eu, lu, oku := updGuard(un, u)
				if okm && oku && gm == gu && km == ku && em == eu {
					pm, pu := fieldPhase(p, mk, gm, lm, false), fieldPhase(p, un, gu, lu, true)
					if pm != "?" && pu != "?" && (pm == "same" || pu == "same" || pm == pu) {
						c.Ok(rule, key, pos, "%s reverts %s by (%s) under the same test of %s, read in the same state, under which %s applies (%s)", pr[1], field, u, gm, pr[0], m)
						continue
					}
					if pm != "?" && pu != "?" {
						c.Fail(rule, key, pos, "%s updates %s under a test of the %s value of %s, %s reverts it under the same test of its %s value: the two differ, so make followed by undo leaves %s different", pr[0], field, map[string]string{"orig": "pre-move", "made": "post-move"}[pm], gm, pr[1], map[string]string{"orig": "pre-move", "made": "post-move"}[pu], field)
						continue
					}
				}
				c.Undec(rule, key, pos, "both %s and %s update %s only on some paths; agreement of the two conditions is not decided", pr[0], pr[1], field)
				continue
			case !mOnce:
				c.Fail(rule, key, m.site.Pos(), "%s updates %s (%s) only on some paths, but %s reverts it (%s) unconditionally: for inputs on the other paths make followed by undo leaves %s different", pr[0], field, m, pr[1], u, field)
				continue
			default:
				c.Fail(rule, key, pos, "%s reverts %s (%s) only on some paths, but %s updates it (%s) unconditionally: for inputs on the other paths make followed by undo leaves %s different", pr[1], field, u, pr[0], m, field)
				continue
			}
			if u.op == "addfield" {
				// the operand field must denote the same value on both sides: read before it is changed in the make and
				// after it is restored in the undo (or the other way round on both)
				pm, pu := fieldPhase(p, mk, u.g, m.gload, false), fieldPhase(p, un, u.g, u.gload, true)
				// the flipped colour of the post-move side is the pre-move side (STM only ever flips)
				flipPhase := func(ph string, fl bool) string {
					if !fl {
						return ph
					}
					switch ph {
					case "orig":
						return "made"
					case "made":
						return "orig"
					}
					return "?"
				}
				pm, pu = flipPhase(pm, m.gflip), flipPhase(pu, u.gflip)
				if pm == "?" || pu == "?" {
					c.Undec(rule, key, pos, "%s is updated by the value of %s; whether both sides read it in the same state is not decided", field, u.g)
					continue
				}
				if pm != "same" && pu != "same" && pm != pu {
					c.Fail(rule, key, pos, "%s adds %s to %s reading its %s value, but %s subtracts its %s value: the two differ, so make followed by undo leaves %s different", pr[0], u.g, field, map[string]string{"orig": "pre-move", "made": "post-move"}[pm], pr[1], map[string]string{"orig": "pre-move", "made": "post-move"}[pu], field)
					continue
				}
			}
			c.Ok(rule, key, pos, "%s reverts %s by (%s), the inverse of the update (%s) that %s applies exactly once on every path", pr[1], field, u, m, pr[0])
		}
	}
	c.Floor(rule, n, 3, "fields restored relative to their current value (STM twice, fullMoves)")
}

func init() {
	addMutants(
		Mutant{Name: "C03.R9-null-move-clock-capped", Prop: "C03", File: "board/board.go", Quick: true,
			Old: "\tb.STM = b.STM.Flip()\n\thash ^= stmRand\n\n\tb.hashes = append(b.hashes, hash)\n\t// b.consistencyCheck()\n\treturn r\n}", New: "\tif b.FiftyCnt < 99 {\n\t\tb.FiftyCnt++\n\t}\n\tb.STM = b.STM.Flip()\n\thash ^= stmRand\n\n\tb.hashes = append(b.hashes, hash)\n\t// b.consistencyCheck()\n\treturn r\n}",
			File2: "board/board.go", Old2: "\tb.STM = b.STM.Flip()\n\tb.EnPassant = r.enPassantChange()\n\tb.hashes = b.hashes[:len(b.hashes)-1]\n", New2: "\tb.STM = b.STM.Flip()\n\tb.FiftyCnt--\n\tb.EnPassant = r.enPassantChange()\n\tb.hashes = b.hashes[:len(b.hashes)-1]\n",
			Expect: "C03.R9/board.(*Board).UndoNullMove#Board.FiftyCnt#relative-restore"},
		Mutant{Name: "C03.R9-fullmoves-read-after-flip", Prop: "C03", File: "board/board.go",
			Old: "\tb.FiftyCnt = r.fiftyCnt()\n\tb.fullMoves -= int(b.STM)\n", New: "\tb.FiftyCnt = r.fiftyCnt()\n",
			File2: "board/board.go", Old2: "func (b *Board) UndoMove(m move.Move, r Reverse) {\n", New2: "func (b *Board) UndoMove(m move.Move, r Reverse) {\n\tb.fullMoves -= int(b.STM)\n",
			Expect: "C03.R9/board.(*Board).UndoMove#Board.fullMoves#relative-restore"},
	)
}

// stmOperand: v is the side to move as a number — conv(load STM), possibly flipped (Flip() / ^1), possibly through a
// one-block helper of the program that only converts (and flips) its parameter. Returns the load and whether the
// value is the flipped colour.
func stmOperand(v ssa.Value, depth int) (load *ssa.UnOp, flipped bool, ok bool) {
	v = stripConv(v)
	for i := 0; i < 8; i++ {
		if call, isCall := v.(*ssa.Call); isCall {
			if objName(calleeObj(call)) == "chess.(Color).Flip" && len(call.Call.Args) == 1 {
				v, flipped = stripConv(call.Call.Args[0]), !flipped
				continue
			}
			h := call.Call.StaticCallee()
			if h != nil && isOwn(h) && len(h.Blocks) == 1 && depth < 3 {
				// pure pass-through helper: return conv/flip of one parameter
				as := resultAssignments(h, 0)
				if len(as) == 1 && h.Signature.Results().Len() == 1 {
					inner := stripConv(as[0].Val)
					fl := false
					for j := 0; j < 4; j++ {
						if c2, isC := inner.(*ssa.Call); isC && objName(calleeObj(c2)) == "chess.(Color).Flip" && len(c2.Call.Args) == 1 {
							inner, fl = stripConv(c2.Call.Args[0]), !fl
							continue
						}
						if bo, isB := inner.(*ssa.BinOp); isB && bo.Op == token.XOR {
							if k, isc := constOf(bo.Y); isc && k == 1 {
								inner, fl = stripConv(bo.X), !fl
								continue
							}
						}
						break
					}
					if par, isPar := inner.(*ssa.Parameter); isPar {
						for pi, q := range h.Params {
							if q == par && pi < len(call.Call.Args) {
								l2, f2, ok2 := stmOperand(call.Call.Args[pi], depth+1)
								return l2, f2 != (fl != flipped), ok2
							}
						}
					}
				}
			}
			return nil, false, false
		}
		if bo, isB := v.(*ssa.BinOp); isB && bo.Op == token.XOR {
			if k, isc := constOf(bo.Y); isc && k == 1 {
				v, flipped = stripConv(bo.X), !flipped
				continue
			}
		}
		break
	}
	if ld, isL := v.(*ssa.UnOp); isL && ld.Op == token.MUL {
		if f, isF := directFieldLoad(ld); isF && f == "Board.STM" {
			return ld, flipped, true
		}
	}
	return nil, false, false
}

type helperStore struct {
	st   *ssa.Store
	cond bool // not executed exactly once per call of the outermost helper
}

// helperStores: the stores to `field` made by h and the helpers of package board it calls (three levels).
func helperStores(h *ssa.Function, field string, depth int, seen map[*ssa.Function]bool) []helperStore {
	if depth > 3 || seen[h] {
		return nil
	}
	seen[h] = true
	defer delete(seen, h)
	var out []helperStore
	for _, st := range fieldStores(h, field) {
		out = append(out, helperStore{st, !onEveryPathOnce(h, st)})
	}
	allInstrs(h, func(in ssa.Instruction) {
		call, ok := in.(*ssa.Call)
		if !ok {
			return
		}
		h2 := call.Call.StaticCallee()
		if h2 == nil || !isOwn(h2) || relPkg(fnPkgPath(h2)) != "board" || len(h2.Blocks) == 0 {
			return
		}
		once := onEveryPathOnce(h, call)
		for _, hs := range helperStores(h2, field, depth+1, seen) {
			out = append(out, helperStore{hs.st, hs.cond || !once})
		}
	})
	return out
}
