package main

// C18 — exchange evaluation (heur.SEE) matches the capture-sequence minimax it
// approximates. The swap loop of SEE is modelled from its SSA form: the loop
// header's phi nodes (occupancy, attacker set, running balance, parity flag),
// the chain of `stmAttackers & Pieces[K] != 0` tests, the per-side `start`
// markers, and what every capture branch sends round the back edge.

import (
	"fmt"
	"go/token"
	"sort"
	"strings"

	"golang.org/x/tools/go/ssa"
)

func init() {
	register(&Property{
		ID: "C18",
		Explain: "Static necessary conditions for 'heur.SEE(b, m, t) answers whether the minimax over least-valuable-attacker capture sequences on the target square is >= t', decided on a model of the swap loop built from SSA (loop-header phis, test chain, back edges), never from text. " +
			"R1: every attack pattern in SEE is intersected with exactly the piece kinds that move that way, pawn attackers use the opposite colour's capture pattern, and the initial attacker set covers both pawn colours, knight, both slider kinds and king. " +
			"R2: a must-dataflow over one loop iteration shows that a kind is tested only when every strictly cheaper kind (PieceValues read from the literal) is exhausted for the side to move, either by a failed test in this iteration or by a `start` marker value that is stored only where that exhaustion holds and only encodes kinds whose attacker set cannot grow by x-ray; Pawn..Queen are all tested; the king is decided last through `attackers & occ &^ Colors[stm]`; a back edge without capture is dead. " +
			"R3: each capture branch subtracts a value equal to PieceValues of the tested kind from the running balance, removes exactly the lowest bit of the tested set from the occupancy, leaves early iff balance < parity (0 for the defender's turn, 1 for the attacker's) returning the parity's verdict; parity flips once per capture. " +
			"R4: after a Pawn/Bishop/Queen capture diagonal sliders, after a Rook/Queen capture orthogonal sliders are re-read from the target square with the updated occupancy and or-ed to the carried set; every selection and the king test mask the attacker set with the current occupancy. " +
			"R5: the mover leaves the occupancy before the first attacker computation, an en-passant victim leaves it at CaptureSq, gain = PieceValues[piece on CaptureSq] + promoVal - threshold, risk = PieceValues[mover] + promoVal - gain with promoVal = PieceValues[promo]-PieceValues[Pawn] only for promotions; the first reply is by the opponent and sides alternate. " +
			"R6: RankNoisy's SEE threshold is provably <= 0 (constant or min(0, …)) and every test in quiescence that drops a move on its Weight alone splits at a bound <= heur.Captures, so no capture SEE judged good is pruned by rank. " +
			"A departure is reported as a violation only when every part of the loop it depends on was understood; otherwise (helper extraction, other marker representation, unknown branch in the chain) the verdict is 'undecided'. " +
			"Not decided: equality with the minimax for concrete positions, pins, promotions inside the exchange, monotonicity in the threshold, the sign bands of RankNoisy's return (C16).",
		Assume: []string{"go/ssa models SEE faithfully", "Board.CaptureSq/IsEnPassant/Color.Flip and the Move accessors mean what their names say (C01/C02)", "nothing reachable from SEE stores to the Board (checked with the effect engine; otherwise undecided)"},
		Run:    runC18,
	})
}

func runC18(c *Ctx) {
	p := c.need("default")
	if p == nil {
		return
	}
	n1 := pa1(c, p, "C18.R1.PA1", inFuncs("heur.SEE"))
	c.Floor("C18.R1.PA1", n1, 11, "attack-pattern ∩ piece-set sites in SEE (6 initial, 5 x-ray refreshes)")
	n4 := pa4(c, p, "C18.R1.PA4", inFuncs("heur.SEE"))
	c.Floor("C18.R1.PA4", n4, 2, "reverse pawn-capture lookups in SEE")
	if m := c18Build(c, p); m != nil {
		m.r1init(c)
		m.r2(c)
		m.r3(c)
		m.r4(c)
		m.r5(c)
	}
	c18R6(c, p)
}

// ---------- model ----------

type c18Test struct {
	kind       int64
	name       string
	T          ssa.Value // tested set: stmAttackers & Pieces[kind]
	rest       string    // canonical key of the other conjuncts
	restV      []ssa.Value
	iff        *ssa.If
	taken, els *ssa.BasicBlock
	backs      []int // indices into H.Preds of back edges dominated by taken
}

type c18Model struct {
	p            *Prog
	fn           *ssa.Function
	pB, pM, pThr *ssa.Parameter
	pcs          map[int64]string
	val          map[int64]int64 // piece kind -> PieceValues[kind]
	H            *ssa.BasicBlock
	entryIx      int
	backIx       []int
	stmV         ssa.Value // colour whose attackers are selected in this iteration
	att, occ     *ssa.Phi
	swap, res    *ssa.Phi
	resNew       ssa.Value
	resEntry     int64
	tests        []*c18Test
	oddTests     []*c18Test // tests whose non-piece conjuncts differ from the majority
	promoNote    string
}

// c18Pos: a source position for an If (the SSA If itself carries none).
func c18Pos(iff *ssa.If) token.Pos {
	if p := iff.Cond.Pos(); p.IsValid() {
		return p
	}
	return c18BlockPos(iff.Block())
}

func c18BlockPos(b *ssa.BasicBlock) token.Pos {
	for i := len(b.Instrs) - 1; i >= 0; i-- {
		if p := b.Instrs[i].Pos(); p.IsValid() {
			return p
		}
	}
	for _, pr := range b.Preds {
		if iff, ok := c18Last(pr).(*ssa.If); ok && iff.Cond.Pos().IsValid() {
			return iff.Cond.Pos()
		}
	}
	return b.Parent().Pos()
}

func c18Last(b *ssa.BasicBlock) ssa.Instruction {
	if len(b.Instrs) == 0 {
		return nil
	}
	return b.Instrs[len(b.Instrs)-1]
}

// c18AndLeaves flattens an &-tree (including &^ and & ^x) into positive and negated leaves.
func c18AndLeaves(v ssa.Value, pos, neg *[]ssa.Value) {
	v = stripConv(v)
	if bo, ok := v.(*ssa.BinOp); ok {
		switch bo.Op {
		case token.AND:
			c18AndLeaves(bo.X, pos, neg)
			c18AndLeaves(bo.Y, pos, neg)
			return
		case token.AND_NOT:
			c18AndLeaves(bo.X, pos, neg)
			*neg = append(*neg, stripConv(bo.Y))
			return
		}
	}
	if u, ok := v.(*ssa.UnOp); ok && u.Op == token.XOR {
		*neg = append(*neg, stripConv(u.X))
		return
	}
	*pos = append(*pos, v)
}

func c18OrLeaves(v ssa.Value, out *[]ssa.Value) {
	v = stripConv(v)
	if bo, ok := v.(*ssa.BinOp); ok && bo.Op == token.OR {
		c18OrLeaves(bo.X, out)
		c18OrLeaves(bo.Y, out)
		return
	}
	*out = append(*out, v)
}

// c18ColorsIdx: v is a load of Board.Colors[idx] -> idx.
func c18ColorsIdx(v ssa.Value) (ssa.Value, bool) {
	u, ok := stripConv(v).(*ssa.UnOp)
	if !ok || u.Op != token.MUL {
		return nil, false
	}
	ia, ok := u.X.(*ssa.IndexAddr)
	if !ok {
		return nil, false
	}
	fr, ok := asFieldAddr(ia.X)
	if !ok || fr.Name() != "Board.Colors" {
		return nil, false
	}
	return ia.Index, true
}

// c18ZeroTest: the If compares X with 0; returns X and the successors taken when X != 0 / X == 0.
func c18ZeroTest(iff *ssa.If) (x ssa.Value, nz, z *ssa.BasicBlock, ok bool) {
	bo, isb := iff.Cond.(*ssa.BinOp)
	if !isb || (bo.Op != token.NEQ && bo.Op != token.EQL) {
		return nil, nil, nil, false
	}
	var other ssa.Value
	if k, isc := constOf(bo.Y); isc && k == 0 {
		other = bo.X
	} else if k, isc := constOf(bo.X); isc && k == 0 {
		other = bo.Y
	} else {
		return nil, nil, nil, false
	}
	b := iff.Block()
	if bo.Op == token.NEQ {
		return stripConv(other), b.Succs[0], b.Succs[1], true
	}
	return stripConv(other), b.Succs[1], b.Succs[0], true
}

// c18Key: canonical name of a conjunct set (board loads by what they load, other values by SSA identity).
func c18Key(vs []ssa.Value) string {
	var s []string
	for _, v := range vs {
		s = append(s, c18Canon(v))
	}
	sort.Strings(s)
	return strings.Join(s, ",")
}

func c18Canon(v ssa.Value) string {
	v = stripConv(v)
	if ix, ok := c18ColorsIdx(v); ok {
		return "Colors[" + c18Canon(ix) + "]"
	}
	if u, ok := v.(*ssa.UnOp); ok && u.Op == token.MUL {
		if ia, ok := u.X.(*ssa.IndexAddr); ok {
			if fr, ok := asFieldAddr(ia.X); ok && fr.Name() == "Board.Pieces" {
				if k, isc := constOf(ia.Index); isc {
					return fmt.Sprintf("Pieces[%d]", k)
				}
			}
		}
	}
	if k, ok := constOf(v); ok {
		return fmt.Sprintf("#%d", k)
	}
	return v.Name()
}

// c18SetKey: canonical key of an &-tree.
func c18SetKey(v ssa.Value) string {
	var pos, neg []ssa.Value
	c18AndLeaves(v, &pos, &neg)
	return c18Key(pos) + "|^" + c18Key(neg)
}

type c18Guard struct {
	cond  ssa.Value
	truth bool
}

// c18EdgeGuards: branch conditions known to hold when control flows along P -> B.
func c18EdgeGuards(P, B *ssa.BasicBlock) []c18Guard {
	var gs []c18Guard
	for _, ce := range controllingConds(P) {
		gs = append(gs, c18Guard{ce.Cond, ce.True})
	}
	if iff, ok := c18Last(P).(*ssa.If); ok && P.Succs[0] != P.Succs[1] {
		if P.Succs[0] == B {
			gs = append(gs, c18Guard{iff.Cond, true})
		} else if P.Succs[1] == B {
			gs = append(gs, c18Guard{iff.Cond, false})
		}
	}
	return gs
}

func c18Build(c *Ctx, p *Prog) *c18Model {
	const rule = "C18.model"
	m := &c18Model{p: p, pcs: pieceConsts(p), val: map[int64]int64{}}
	m.fn = p.Func("heur.SEE")
	if m.fn == nil {
		c.Anchor(rule, "heur.SEE")
		return nil
	}
	if len(m.fn.Params) != 3 {
		c.Undec(rule, "heur.SEE#signature", m.fn.Pos(), "expected SEE(board, move, threshold)")
		return nil
	}
	m.pB, m.pM, m.pThr = m.fn.Params[0], m.fn.Params[1], m.fn.Params[2]
	// the model treats Board loads as loop-invariant: nothing reachable from SEE may store to the board
	eff := unionEffects(p.closure([]*ssa.Function{m.fn}, nil))
	for _, k := range sortedKeys(eff.FieldWrites) {
		if strings.HasPrefix(k, "board.Board.") {
			c.Undec(rule, "heur.SEE#writes:"+k, eff.FieldWrites[k][0].Pos, "SEE (transitively) stores to %s: the swap-loop model assumes an unchanged board", k)
			return nil
		}
	}
	// piece values from the literal; the literal is the run-time value only if nobody writes the array later
	expr, pk := p.pkgVarInit("heur.PieceValues")
	if expr == nil || pk == nil {
		c.Anchor(rule, "heur.PieceValues (initialiser)")
		return nil
	}
	vals, shape, err := literalInts(pk.TypesInfo, expr)
	if err != nil || len(shape) != 1 || len(vals) < 7 {
		c.Undec(rule, "heur.PieceValues#literal", expr.Pos(), "PieceValues is not a flat literal of >= 7 integer constants (%v)", err)
		return nil
	}
	if w := p.nonInitGlobalWriters("heur.PieceValues"); len(w) > 0 {
		c.Undec(rule, "heur.PieceValues#writers", expr.Pos(), "PieceValues is written or escapes after initialisation (%v): the literal is not the value SEE reads", w)
		return nil
	}
	for k := range m.pcs {
		if k >= 0 && int(k) < len(vals) {
			m.val[k] = int64(vals[k])
		}
	}
	if len(m.pcs) != 7 {
		c.Anchor(rule, "chess piece constants NoPiece..King")
		return nil
	}
	// capture tests
	byRest := map[string][]*c18Test{}
	restLeaves := map[string][]ssa.Value{}
	for _, b := range m.fn.Blocks {
		iff, ok := c18Last(b).(*ssa.If)
		if !ok {
			continue
		}
		x, nz, z, ok := c18ZeroTest(iff)
		if !ok || nz == z {
			continue
		}
		var pos, neg, rest []ssa.Value
		c18AndLeaves(x, &pos, &neg)
		kind, nk := int64(-1), 0
		for _, lf := range pos {
			if n, ok := piecesLoadKind(lf, m.pcs); ok {
				for k, nm := range m.pcs {
					if nm == n {
						kind = k
					}
				}
				nk++
			} else {
				rest = append(rest, lf)
			}
		}
		if nk != 1 || len(neg) != 0 || len(rest) == 0 {
			continue
		}
		t := &c18Test{kind: kind, name: m.pcs[kind], T: x, rest: c18Key(rest), restV: rest, iff: iff, taken: nz, els: z}
		byRest[t.rest] = append(byRest[t.rest], t)
		restLeaves[t.rest] = rest
	}
	best := ""
	for k, ts := range byRest {
		if len(ts) > len(byRest[best]) || (len(ts) == len(byRest[best]) && k < best) {
			best = k
		}
	}
	if best == "" {
		c.Undec(rule, "heur.SEE#tests", m.fn.Pos(), "no `set & Pieces[K] != 0` test found in SEE: capture loop not recognisable")
		return nil
	}
	m.tests = byRest[best]
	for k, ts := range byRest {
		if k != best {
			m.oddTests = append(m.oddTests, ts...)
		}
	}
	// the selected set: attackers & occ & Colors[stm] with attackers, occ phis of one loop header
	var phis []*ssa.Phi
	var col []ssa.Value
	for _, lf := range restLeaves[best] {
		if ph, ok := lf.(*ssa.Phi); ok {
			phis = append(phis, ph)
		} else if ix, ok := c18ColorsIdx(lf); ok {
			col = append(col, ix)
		}
	}
	at := c18Pos(m.tests[0].iff)
	if len(restLeaves[best]) != 3 || len(phis) != 2 || len(col) != 1 || phis[0].Block() != phis[1].Block() {
		c.Undec(rule, "heur.SEE#selection", at, "the tested attacker set is not `attackers(phi) & occ(phi) & Colors[stm]` (%d conjuncts, %d loop-carried, %d colour sets): `attackers &= occ` before the selection cannot be established", len(restLeaves[best]), len(phis), len(col))
		return nil
	}
	m.stmV = col[0]
	m.H = phis[0].Block()
	m.entryIx = -1
	for i, pr := range m.H.Preds {
		if m.H.Dominates(pr) {
			m.backIx = append(m.backIx, i)
		} else if m.entryIx >= 0 {
			m.entryIx = -2
		} else {
			m.entryIx = i
		}
	}
	if m.entryIx < 0 || len(m.backIx) == 0 {
		c.Undec(rule, "heur.SEE#loop", at, "the block carrying the attacker/occupancy phis is not a loop header with a single entry")
		return nil
	}
	for _, t := range append(append([]*c18Test{}, m.tests...), m.oddTests...) {
		if !m.H.Dominates(t.iff.Block()) {
			c.Undec(rule, "heur.SEE#tests", c18Pos(t.iff), "a piece-kind test lies outside the capture loop")
			return nil
		}
		for _, i := range m.backIx {
			if t.taken.Dominates(m.H.Preds[i]) {
				t.backs = append(t.backs, i)
			}
		}
	}
	// which phi is the occupancy: its entry value evaluates to "all pieces minus squares"
	_, ok0 := m.occEval(phis[0].Edges[m.entryIx], 0)
	_, ok1 := m.occEval(phis[1].Edges[m.entryIx], 0)
	switch {
	case ok0 && !ok1:
		m.occ, m.att = phis[0], phis[1]
	case ok1 && !ok0:
		m.occ, m.att = phis[1], phis[0]
	default:
		c.Undec(rule, "heur.SEE#occ", at, "cannot tell occupancy from attacker set: neither/both loop-carried conjuncts start as Colors[0]|Colors[1] minus square bits")
		return nil
	}
	// running balance and parity phis
	for _, in := range m.H.Instrs {
		ph, ok := in.(*ssa.Phi)
		if !ok || ph == m.occ || ph == m.att {
			continue
		}
		for _, i := range m.backIx {
			if bo, ok := ph.Edges[i].(*ssa.BinOp); ok && bo.Op == token.SUB && bo.Y == ssa.Value(ph) && m.swap == nil {
				m.swap = ph
			}
		}
		if e, ok := constOf(ph.Edges[m.entryIx]); ok && m.res == nil {
			same := true
			for _, i := range m.backIx {
				if ph.Edges[i] != ph.Edges[m.backIx[0]] {
					same = false
				}
			}
			nv := ph.Edges[m.backIx[0]]
			if same && nv != ssa.Value(ph) {
				m.res, m.resNew, m.resEntry = ph, nv, e
				v0, k0 := m.parEval(nv, 0)
				v1, k1 := m.parEval(nv, 1)
				if !k0 || !k1 || v0 != 1 || v1 != 0 || (e != 0 && e != 1) {
					m.res = nil
				}
			}
		}
	}
	return m
}

// ---------- symbolic helpers ----------

func (m *c18Model) sqRole(v ssa.Value) string {
	call, ok := stripConv(v).(*ssa.Call)
	if !ok {
		return ""
	}
	a := call.Call.Args
	switch objName(calleeObj(call)) {
	case "move.(Move).From":
		if len(a) == 1 && a[0] == ssa.Value(m.pM) {
			return "from"
		}
	case "move.(Move).To":
		if len(a) == 1 && a[0] == ssa.Value(m.pM) {
			return "to"
		}
	case "board.(*Board).CaptureSq":
		if len(a) == 2 && a[0] == ssa.Value(m.pB) && a[1] == ssa.Value(m.pM) {
			return "capture"
		}
	}
	return ""
}

// bitRoles: v is 1<<sq or an |-combination of such -> roles of the squares.
func (m *c18Model) bitRoles(v ssa.Value) ([]string, bool) {
	var ls []ssa.Value
	c18OrLeaves(v, &ls)
	var out []string
	for _, l := range ls {
		bo, ok := l.(*ssa.BinOp)
		if !ok || bo.Op != token.SHL {
			return nil, false
		}
		if one, isc := constOf(bo.X); !isc || one != 1 {
			return nil, false
		}
		r := m.sqRole(bo.Y)
		if r == "" {
			return nil, false
		}
		out = append(out, r)
	}
	return out, true
}

type c18OccAlt struct {
	removed map[string]bool
	guards  []c18Guard
}

// occEval: v = (Colors[0]|Colors[1]) with square bits removed, possibly merged by phis.
func (m *c18Model) occEval(v ssa.Value, depth int) ([]c18OccAlt, bool) {
	v = stripConv(v)
	if depth > 8 {
		return nil, false
	}
	remove := func(x, bits ssa.Value) ([]c18OccAlt, bool) {
		rs, ok := m.bitRoles(bits)
		if !ok {
			return nil, false
		}
		alts, ok := m.occEval(x, depth+1)
		if !ok {
			return nil, false
		}
		for i := range alts {
			nr := map[string]bool{}
			for k := range alts[i].removed {
				nr[k] = true
			}
			for _, r := range rs {
				nr[r] = true
			}
			alts[i].removed = nr
		}
		return alts, true
	}
	switch x := v.(type) {
	case *ssa.BinOp:
		switch x.Op {
		case token.OR:
			ia, oka := c18ColorsIdx(x.X)
			ib, okb := c18ColorsIdx(x.Y)
			if oka && okb {
				ka, ca := constOf(ia)
				kb, cb := constOf(ib)
				if ca && cb && ka+kb == 1 && ka*kb == 0 {
					return []c18OccAlt{{removed: map[string]bool{}}}, true
				}
			}
		case token.XOR:
			if a, ok := remove(x.X, x.Y); ok {
				return a, true
			}
			return remove(x.Y, x.X)
		case token.AND_NOT:
			return remove(x.X, x.Y)
		case token.AND:
			if u, ok := stripConv(x.Y).(*ssa.UnOp); ok && u.Op == token.XOR {
				return remove(x.X, u.X)
			}
			if u, ok := stripConv(x.X).(*ssa.UnOp); ok && u.Op == token.XOR {
				return remove(x.Y, u.X)
			}
		}
	case *ssa.Phi:
		var out []c18OccAlt
		for i, e := range x.Edges {
			alts, ok := m.occEval(e, depth+1)
			if !ok {
				return nil, false
			}
			g := c18EdgeGuards(x.Block().Preds[i], x.Block())
			for _, a := range alts {
				a.guards = append(append([]c18Guard{}, a.guards...), g...)
				out = append(out, a)
			}
		}
		return out, true
	}
	return nil, false
}

func (m *c18Model) isEPCall(v ssa.Value) bool {
	call, ok := stripConv(v).(*ssa.Call)
	return ok && objName(calleeObj(call)) == "board.(*Board).IsEnPassant" && len(call.Call.Args) == 2 && call.Call.Args[0] == ssa.Value(m.pB) && call.Call.Args[1] == ssa.Value(m.pM)
}

// pvIndex: v is a load of heur.PieceValues[idx].
func (m *c18Model) pvIndex(v ssa.Value) (ssa.Value, bool) {
	u, ok := stripConv(v).(*ssa.UnOp)
	if !ok || u.Op != token.MUL {
		return nil, false
	}
	ia, ok := u.X.(*ssa.IndexAddr)
	if !ok {
		return nil, false
	}
	g, ok := ia.X.(*ssa.Global)
	if !ok || globalName(g) != "heur.PieceValues" {
		return nil, false
	}
	return ia.Index, true
}

func (m *c18Model) isPromoCall(v ssa.Value) bool {
	call, ok := stripConv(v).(*ssa.Call)
	return ok && objName(calleeObj(call)) == "move.(Move).Promo" && len(call.Call.Args) == 1 && call.Call.Args[0] == ssa.Value(m.pM)
}

// lin adds sign*v to the linear form out (atoms: PV@role, PV[Kind], thr, promoVal, "1").
func (m *c18Model) lin(v ssa.Value, sign int, out map[string]int, depth int) {
	v = stripConv(v)
	if depth > 12 {
		out["?deep"] += sign
		return
	}
	if k, ok := constOf(v); ok {
		out["1"] += sign * int(k)
		return
	}
	if idx, ok := m.pvIndex(v); ok {
		idx = stripConv(idx)
		if k, isc := constOf(idx); isc {
			out["PV["+m.pcs[k]+"]"] += sign
		} else if m.isPromoCall(idx) {
			out["PV@promo"] += sign
		} else if u, ok := idx.(*ssa.UnOp); ok && u.Op == token.MUL {
			role := ""
			if ia, ok := u.X.(*ssa.IndexAddr); ok {
				if fr, ok := asFieldAddr(ia.X); ok && fr.Name() == "Board.SquaresToPiece" {
					role = m.sqRole(ia.Index)
				}
			}
			if role == "" {
				role = "?" + v.Name()
			}
			out["PV@"+role] += sign
		} else {
			out["PV@?"+v.Name()] += sign
		}
		return
	}
	switch x := v.(type) {
	case *ssa.Parameter:
		if x == m.pThr {
			out["thr"] += sign
			return
		}
	case *ssa.BinOp:
		switch x.Op {
		case token.ADD:
			m.lin(x.X, sign, out, depth+1)
			m.lin(x.Y, sign, out, depth+1)
			return
		case token.SUB:
			m.lin(x.X, sign, out, depth+1)
			m.lin(x.Y, -sign, out, depth+1)
			return
		}
	case *ssa.UnOp:
		if x.Op == token.SUB {
			m.lin(x.X, -sign, out, depth+1)
			return
		}
	case *ssa.Phi:
		if ok, note := m.promoPhi(x); ok {
			if note != "" {
				m.promoNote = note
			}
			out["promoVal"] += sign
			return
		}
	}
	out["?"+v.Name()] += sign
}

func c18LinStr(f map[string]int) string {
	var ks []string
	for k, n := range f {
		if n != 0 {
			ks = append(ks, k)
		}
	}
	sort.Strings(ks)
	var s []string
	for _, k := range ks {
		s = append(s, fmt.Sprintf("%+d*%s", f[k], k))
	}
	return strings.Join(s, " ")
}

// promoPhi: x merges 0 (not a promotion) with PieceValues[promo]-PieceValues[Pawn] (promotion).
// Returns whether x is such a merge at all, and a note describing what is wrong with it.
func (m *c18Model) promoPhi(x *ssa.Phi) (bool, string) {
	if len(x.Edges) != 2 {
		return false, ""
	}
	zi := -1
	for i, e := range x.Edges {
		if k, ok := constOf(e); ok && k == 0 {
			zi = i
		}
	}
	if zi < 0 {
		return false, ""
	}
	f := map[string]int{}
	m.lin(x.Edges[1-zi], 1, f, 1)
	if f["PV@promo"] == 0 {
		return false, ""
	}
	if got := c18LinStr(f); got != "+1*PV@promo -1*PV[Pawn]" {
		return true, "promotion bonus is " + got + ", expected +1*PV@promo -1*PV[Pawn]"
	}
	// the zero edge must be exactly the not-a-promotion edge
	promoTest := func(g c18Guard) (isPromo, known bool) {
		bo, ok := g.cond.(*ssa.BinOp)
		if !ok || (bo.Op != token.NEQ && bo.Op != token.EQL) {
			return false, false
		}
		k, isc := constOf(bo.Y)
		if !isc || k != 0 || !m.isPromoCall(bo.X) {
			return false, false
		}
		return (bo.Op == token.NEQ) == g.truth, true
	}
	zeroOK, bonusOK := false, false
	for _, g := range c18EdgeGuards(x.Block().Preds[zi], x.Block()) {
		if is, known := promoTest(g); known && !is {
			zeroOK = true
		}
	}
	for _, g := range c18EdgeGuards(x.Block().Preds[1-zi], x.Block()) {
		if is, known := promoTest(g); known && is {
			bonusOK = true
		}
	}
	if !zeroOK || !bonusOK {
		return true, "the promotion bonus is not selected exactly by `m.Promo() != NoPiece`"
	}
	return true, ""
}

// parEval evaluates an integer/boolean expression over the parity phi for res == r.
func (m *c18Model) parEval(v ssa.Value, r int64) (int64, bool) {
	v = stripConv(v)
	if m.res != nil && v == ssa.Value(m.res) {
		return r, true
	}
	if k, ok := constOf(v); ok {
		return k, true
	}
	b2i := func(b bool) int64 {
		if b {
			return 1
		}
		return 0
	}
	switch x := v.(type) {
	case *ssa.BinOp:
		a, ok1 := m.parEval(x.X, r)
		b, ok2 := m.parEval(x.Y, r)
		if !ok1 || !ok2 {
			return 0, false
		}
		switch x.Op {
		case token.XOR:
			return a ^ b, true
		case token.ADD:
			return a + b, true
		case token.SUB:
			return a - b, true
		case token.EQL:
			return b2i(a == b), true
		case token.NEQ:
			return b2i(a != b), true
		}
	case *ssa.UnOp:
		if a, ok := m.parEval(x.X, r); ok {
			switch x.Op {
			case token.NOT:
				return 1 - a, true
			case token.SUB:
				return -a, true
			}
		}
	}
	return 0, false
}

// retTable: block b returns a bool that depends only on the parity; value after an
// even / odd number of completed captures.
func (m *c18Model) retTable(b *ssa.BasicBlock) (even, odd bool, ok bool) {
	ret, isr := c18Last(b).(*ssa.Return)
	if !isr || len(ret.Results) != 1 || m.res == nil {
		return false, false, false
	}
	e, ok1 := m.parEval(ret.Results[0], m.resEntry)
	o, ok2 := m.parEval(ret.Results[0], m.resEntry^1)
	return e != 0, o != 0, ok1 && ok2
}

func (m *c18Model) kindsBelow(k int64) uint {
	var need uint
	for q := int64(1); q <= 5; q++ {
		if m.val[q] < m.val[k] {
			need |= 1 << uint(q)
		}
	}
	return need
}

func (m *c18Model) kindSet(bits uint) string {
	var s []string
	for q := int64(1); q <= 6; q++ {
		if bits&(1<<uint(q)) != 0 {
			s = append(s, m.pcs[q])
		}
	}
	return "{" + strings.Join(s, ",") + "}"
}

// ---------- R1.init ----------

func (m *c18Model) r1init(c *Ctx) {
	const rule = "C18.R1.init"
	var leaves []ssa.Value
	c18OrLeaves(m.att.Edges[m.entryIx], &leaves)
	found := map[string]bool{}
	opaque := 0
	for _, lf := range leaves {
		var pos, neg []ssa.Value
		c18AndLeaves(lf, &pos, &neg)
		understood := false
		for _, q := range pos {
			call, ok := q.(*ssa.Call)
			if !ok {
				continue
			}
			F, ok := attackFns[objName(calleeObj(call))]
			if !ok {
				continue
			}
			understood = true
			a := call.Call.Args
			if F == "PawnCapture" {
				rs, ok := m.bitRoles(a[0])
				col, isc := constOf(a[1])
				if ok && len(rs) == 1 && rs[0] == "to" && isc {
					found[fmt.Sprintf("PawnCapture(colour %d)", col)] = true
				}
			} else if m.sqRole(a[0]) == "to" {
				found[F] = true
			}
		}
		if !understood {
			opaque++
		}
	}
	n := 0
	for _, want := range []string{"PawnCapture(colour 0)", "PawnCapture(colour 1)", "Knight", "Bishop", "Rook", "King"} {
		if found[want] {
			n++
			c.Ok(rule, want, m.att.Pos(), "initial attacker set includes the %s pattern from the target square", want)
		} else if opaque > 0 {
			c.Undec(rule, want, m.att.Pos(), "no %s pattern from the move's To() square visible in the initial attacker set, but %d of its parts are not attack-pattern intersections this rule can read", want, opaque)
		} else {
			c.Fail(rule, want, m.att.Pos(), "the attacker set entering the capture loop has no %s pattern taken from the move's To() square: pieces attacking that way never take part in the exchange", want)
		}
	}
	c.Floor(rule, n, 6, "attack patterns in the initial attacker set")
}

// ---------- R2: order of tests, markers, king ----------

type c18MStore struct {
	c   int64
	b   *ssa.BasicBlock // nil: initial value stored before the loop
	pos token.Pos
}

type c18Marker struct {
	alloc    *ssa.Alloc
	caseTrue map[*ssa.BasicBlock]int64
	stores   []c18MStore
	problem  string
	probPos  token.Pos
	fail     bool
}

func (m *c18Model) findMarker() *c18Marker {
	mk := &c18Marker{caseTrue: map[*ssa.BasicBlock]int64{}}
	bad := func(fail bool, pos token.Pos, f string, a ...any) {
		if mk.problem == "" {
			mk.problem, mk.probPos, mk.fail = fmt.Sprintf(f, a...), pos, fail
		}
	}
	for _, b := range m.fn.Blocks {
		iff, ok := c18Last(b).(*ssa.If)
		if !ok || !m.H.Dominates(b) {
			continue
		}
		bo, ok := iff.Cond.(*ssa.BinOp)
		if !ok || bo.Op != token.EQL {
			continue
		}
		k, isc := constOf(bo.Y)
		u, isl := stripConv(bo.X).(*ssa.UnOp)
		if !isc || !isl || u.Op != token.MUL {
			continue
		}
		ia, ok := u.X.(*ssa.IndexAddr)
		if !ok {
			continue
		}
		al, ok := ia.X.(*ssa.Alloc)
		if !ok {
			continue
		}
		if mk.alloc != nil && mk.alloc != al {
			bad(false, c18Pos(iff), "two different local arrays steer the capture loop")
			continue
		}
		mk.alloc = al
		mk.caseTrue[b] = k
		if !sameValue(ia.Index, m.stmV, 0) {
			bad(true, c18Pos(iff), "the marker is read for a colour other than the one whose attackers are selected")
		}
	}
	if mk.alloc == nil {
		return nil
	}
	initFrom := func(src *ssa.Alloc, pos token.Pos) {
		n := 0
		for _, r := range *src.Referrers() {
			if ia, ok := r.(*ssa.IndexAddr); ok {
				for _, r2 := range *ia.Referrers() {
					if st, ok := r2.(*ssa.Store); ok && st.Addr == ssa.Value(ia) {
						if k, isc := constOf(st.Val); isc {
							mk.stores = append(mk.stores, c18MStore{c: k, pos: st.Pos()})
							n++
						} else {
							bad(false, st.Pos(), "non-constant initial marker value")
						}
					}
				}
			}
		}
		if n == 0 {
			bad(false, pos, "initial marker values not found")
		}
	}
	for _, r := range *mk.alloc.Referrers() {
		switch x := r.(type) {
		case *ssa.DebugRef:
		case *ssa.Store:
			src, ok := x.Val.(*ssa.UnOp)
			var sa *ssa.Alloc
			if ok && src.Op == token.MUL {
				sa, _ = src.X.(*ssa.Alloc)
			}
			if x.Addr != ssa.Value(mk.alloc) || sa == nil || m.H.Dominates(x.Block()) {
				bad(false, x.Pos(), "whole-array store to the marker that is not its initialisation from a literal")
				continue
			}
			initFrom(sa, x.Pos())
		case *ssa.IndexAddr:
			for _, r2 := range *x.Referrers() {
				switch y := r2.(type) {
				case *ssa.UnOp:
				case *ssa.DebugRef:
				case *ssa.Store:
					k, isc := constOf(y.Val)
					if y.Addr != ssa.Value(x) || !isc {
						bad(false, y.Pos(), "marker element receives a non-constant value")
						continue
					}
					if m.H.Dominates(y.Block()) {
						if !sameValue(x.Index, m.stmV, 0) {
							bad(true, y.Pos(), "marker value %s is stored for a colour other than the one whose attackers were just examined: the other side's pieces of a cheaper kind are skipped although they were never looked at", m.pcs[k])
						}
						mk.stores = append(mk.stores, c18MStore{c: k, b: y.Block(), pos: y.Pos()})
					} else {
						mk.stores = append(mk.stores, c18MStore{c: k, pos: y.Pos()})
					}
				default:
					bad(false, x.Pos(), "marker element address used in a %T", r2)
				}
			}
		default:
			bad(false, r.Pos(), "marker array used in a %T", r)
		}
	}
	return mk
}

// flow: must-facts "kinds exhausted for the side to move" at entry of every loop-body block.
func (m *c18Model) flow(mk *c18Marker, exh map[int64]uint) map[*ssa.BasicBlock]uint {
	const top = ^uint(0)
	in := map[*ssa.BasicBlock]uint{}
	for _, b := range m.fn.Blocks {
		if m.H.Dominates(b) {
			in[b] = top
		}
	}
	in[m.H] = 0
	testOf := map[*ssa.BasicBlock]*c18Test{}
	for _, t := range m.tests {
		testOf[t.iff.Block()] = t
	}
	for changed := true; changed; {
		changed = false
		for _, b := range m.fn.Blocks {
			if _, ok := in[b]; !ok || b == m.H {
				continue
			}
			acc := top
			for _, pr := range b.Preds {
				pin, ok := in[pr]
				if !ok {
					acc = 0
					continue
				}
				if pin == top {
					continue
				}
				out := pin
				if t := testOf[pr]; t != nil && b == t.els && b != t.taken {
					out |= 1 << uint(t.kind)
				}
				if mk != nil {
					if k, ok := mk.caseTrue[pr]; ok && pr.Succs[0] == b && pr.Succs[1] != b {
						out |= exh[k]
					}
				}
				acc &= out
			}
			if acc != in[b] {
				in[b] = acc
				changed = true
			}
		}
	}
	return in
}

func (m *c18Model) r2(c *Ctx) {
	const rule = "C18.R2"
	mk := m.findMarker()
	if mk == nil {
		mk = &c18Marker{caseTrue: map[*ssa.BasicBlock]int64{}}
	}
	// kinds whose attacker set cannot grow while pieces leave the board (never refreshed by x-ray)
	nonGrowing := uint(0)
	for k, n := range m.pcs {
		if n == "Pawn" || n == "Knight" {
			nonGrowing |= 1 << uint(k)
		}
	}
	// greatest fixpoint: marker value c stands for the kinds exhausted at every store of c
	exh := map[int64]uint{}
	for _, s := range mk.stores {
		exh[s.c] = nonGrowing
	}
	var in map[*ssa.BasicBlock]uint
	for iter := 0; iter < 16; iter++ {
		in = m.flow(mk, exh)
		nw := map[int64]uint{}
		same := true
		for _, s := range mk.stores {
			v := uint(0)
			if s.b != nil {
				v = in[s.b] & nonGrowing
			}
			if old, ok := nw[s.c]; ok {
				v &= old
			}
			nw[s.c] = v
		}
		for k, v := range nw {
			same = same && exh[k] == v
		}
		if exh = nw; same {
			break
		}
	}
	// king tests: X &^ Colors[stm] != 0
	type kingTest struct {
		iff   *ssa.If
		pos   []ssa.Value
		nz, z *ssa.BasicBlock
	}
	var kings []kingTest
	understood := map[*ssa.BasicBlock]bool{m.H: true}
	for _, t := range m.tests {
		understood[t.iff.Block()] = true
	}
	for b := range mk.caseTrue {
		understood[b] = true
	}
	for _, b := range m.fn.Blocks {
		iff, ok := c18Last(b).(*ssa.If)
		if !ok || !m.H.Dominates(b) {
			continue
		}
		if x, nz, z, ok := c18ZeroTest(iff); ok {
			var pos, neg []ssa.Value
			c18AndLeaves(x, &pos, &neg)
			for _, q := range neg {
				if ix, ok := c18ColorsIdx(q); ok && sameValue(ix, m.stmV, 0) && !understood[b] {
					kings = append(kings, kingTest{iff, pos, nz, z})
					understood[b] = true
				}
			}
		}
	}
	// branches of the chain this rule cannot read turn a would-be violation into "undecided"
	opaque := 0
	for _, b := range m.fn.Blocks {
		if _, ok := c18Last(b).(*ssa.If); !ok || !m.H.Dominates(b) || understood[b] {
			continue
		}
		inBranch := false
		for _, t := range m.tests {
			inBranch = inBranch || t.taken.Dominates(b)
		}
		if !inBranch {
			opaque++
		}
	}
	viol := func(key string, pos token.Pos, f string, a ...any) {
		if opaque > 0 || (mk.problem != "" && !mk.fail) {
			c.Undec(rule, key, pos, "%s [not certain: the capture chain contains %d branch(es) / marker uses this rule cannot read]", fmt.Sprintf(f, a...), opaque)
		} else {
			c.Fail(rule, key, pos, f, a...)
		}
	}
	// (a) every kind is tried only after all strictly cheaper kinds are exhausted
	tested, all := uint(0), uint(0b111110)
	for _, t := range m.tests {
		tested |= 1 << uint(t.kind)
		need, have := m.kindsBelow(t.kind), in[t.iff.Block()]
		if t.kind < 1 || t.kind > 5 {
			c.Undec(rule, "order:"+t.name, c18Pos(t.iff), "a %s test inside the capture chain is not part of the understood shape (the king is expected to be decided by the no-enemy-attacker test)", t.name)
		} else if need&^have == 0 {
			c.Ok(rule, "order:"+t.name, c18Pos(t.iff), "%s (value %d) is tried only where %s are exhausted for the side to move (cheaper kinds: %s)", t.name, m.val[t.kind], m.kindSet(have), m.kindSet(need))
		} else {
			viol("order:"+t.name, c18Pos(t.iff), "%s (value %d) can be chosen as capturer although %s (cheaper) may still attack for the side to move — excluded neither by a failed test in this iteration nor by a `start` marker that is stored only where that kind is exhausted for good: the exchange is not played least-valuable-attacker first", t.name, m.val[t.kind], m.kindSet(need&^have))
		}
	}
	c.Floor(rule+".order", len(m.tests), 5, "piece-kind tests in the capture chain")
	if tested&all == all {
		c.Ok(rule, "covers", c18Pos(m.tests[0].iff), "capture chain tests Pawn, Knight, Bishop, Rook and Queen")
	} else {
		viol("covers", c18Pos(m.tests[0].iff), "capture chain never tests %s: such attackers are treated as the king", m.kindSet(all&^tested))
	}
	// (b) king last, masked, verdict
	for _, k := range kings {
		pos := c18Pos(k.iff)
		if have := in[k.iff.Block()]; all&^have == 0 {
			c.Ok(rule, "king-last", pos, "the enemy-attackers-remain test is reached only when Pawn..Queen are exhausted for the side to move")
		} else {
			viol("king-last", pos, "the king decision is reachable while %s of the side to move may still attack", m.kindSet(all&^have))
		}
		hasA, hasO := false, false
		for _, q := range k.pos {
			hasA = hasA || q == ssa.Value(m.att)
			hasO = hasO || q == ssa.Value(m.occ)
		}
		switch {
		case hasA && hasO:
			c.Ok("C18.R4", "mask:king", pos, "remaining enemy attackers are counted after masking with the current occupancy")
		case hasA && len(k.pos) == 1:
			c.Fail("C18.R4", "mask:king", pos, "the king test counts enemy attackers without masking the attacker set with the current occupancy: enemy pieces already traded off forbid the king's capture")
		default:
			c.Undec("C18.R4", "mask:king", pos, "the king test is not `attackers & occ &^ Colors[stm]` over the loop-carried sets")
		}
		ez, oz, okz := m.retTable(k.z)
		en, on, okn := m.retTable(k.nz)
		switch {
		case !okz || !okn:
			c.Undec(rule, "king-verdict", pos, "both outcomes of the king test must return a function of the parity flag")
		case !ez && oz && en && !on:
			c.Ok(rule, "king-verdict", pos, "no enemy attacker left: the king captures and the side to move keeps the square; otherwise the capture is illegal and it loses it")
		default:
			c.Fail(rule, "king-verdict", pos, "king test returns (enemy left: %v/%v, none left: %v/%v) on the defender's/attacker's turn; the king may capture only when no enemy attacker is left, expected (true/false, false/true)", en, on, ez, oz)
		}
	}
	if len(kings) == 0 {
		c.Undec(rule, "king-last", m.H.Instrs[0].Pos(), "no `attackers &^ Colors[stm] != 0` test in the loop: how the king takes part is not recognisable")
	}
	// (c) markers
	switch {
	case mk.alloc == nil:
		c.OkTrivial(rule, "marker-side", m.H.Instrs[0].Pos(), "no per-side marker in the loop: every iteration runs the full chain")
	case mk.problem != "" && mk.fail:
		c.Fail(rule, "marker-side", mk.probPos, "%s", mk.problem)
	case mk.problem != "":
		c.Undec(rule, "marker-side", mk.probPos, "%s", mk.problem)
	default:
		c.Ok(rule, "marker-side", mk.alloc.Pos(), "the per-side marker is read and stored for the colour whose attackers are selected, with constants only")
	}
	cases, seen := map[int64]bool{}, map[int64]bool{}
	for _, k := range mk.caseTrue {
		cases[k] = true
	}
	for _, s := range mk.stores {
		if seen[s.c] {
			continue
		}
		seen[s.c] = true
		if cases[s.c] {
			c.Ok(rule, "marker:"+m.pcs[s.c], s.pos, "marker value %s has a case in the dispatch and stands for exhaustion of %s", m.pcs[s.c], m.kindSet(exh[s.c]))
		} else {
			viol("marker:"+m.pcs[s.c], s.pos, "marker value %s is stored but the dispatch has no case for it: the iteration flips sides and parity without any capture", m.pcs[s.c])
		}
	}
	// (d) a back edge without a capture must be dead (needs a marker value that is never stored)
	for _, i := range m.backIx {
		owned := false
		for _, t := range m.tests {
			for _, j := range t.backs {
				owned = owned || i == j
			}
		}
		if owned {
			continue
		}
		excl := map[int64]bool{}
		for _, g := range c18EdgeGuards(m.H.Preds[i], m.H) {
			for b, k := range mk.caseTrue {
				if c18Last(b).(*ssa.If).Cond == g.cond && !g.truth {
					excl[k] = true
				}
			}
		}
		dead := len(seen) > 0
		for k := range seen {
			dead = dead && excl[k]
		}
		if pos := c18BlockPos(m.H.Preds[i]); dead {
			c.Ok(rule, "no-capture-backedge", pos, "the only way round the loop without a capture requires a marker value that is never stored")
		} else {
			viol("no-capture-backedge", pos, "the loop can continue with sides and parity flipped although no capture was made")
		}
	}
}

// ---------- R3 / R4: per-branch agreement, x-rays ----------

func (m *c18Model) r3(c *Ctx) {
	const rule = "C18.R3"
	for _, t := range m.oddTests {
		have := map[string]bool{}
		for _, q := range t.restV {
			have[c18Canon(q)] = true
		}
		var missing []string
		for _, q := range m.tests[0].restV {
			if !have[c18Canon(q)] {
				missing = append(missing, c18Canon(q))
			}
		}
		if len(missing) > 0 && len(t.restV) < len(m.tests[0].restV) {
			c.Fail(rule, "set:"+t.name, c18Pos(t.iff), "the %s test selects from a wider set than the other branches (attackers & occ & Colors[stm]); missing conjunct(s) %v: pieces of the wrong side or already traded pieces capture", t.name, missing)
		} else {
			c.Undec(rule, "set:"+t.name, c18Pos(t.iff), "the %s test selects from a set built differently from the other branches", t.name)
		}
	}
	if m.swap == nil || m.res == nil {
		c.Undec(rule, "loop-state", m.H.Instrs[0].Pos(), "running balance (phi with `value - balance` on a back edge) or parity flag (phi from a constant, flipped identically on every back edge) not recognised")
		return
	}
	// parity: loop exit when the side to move has no attacker
	if iff, ok := c18Last(m.H).(*ssa.If); ok {
		if x, _, z, ok := c18ZeroTest(iff); ok {
			var pos, neg []ssa.Value
			c18AndLeaves(x, &pos, &neg)
			if c18Key(pos) == m.tests[0].rest && len(neg) == 0 {
				e, o, okr := m.retTable(z)
				if !okr {
					c.Undec(rule, "parity:no-attacker", c18Pos(iff), "the exit taken when the side to move has no attacker does not return a function of the parity flag")
				} else {
					c.Check(e && !o, rule, "parity:no-attacker", c18Pos(iff), "when the side to move cannot recapture the verdict must be true on the defender's turn and false on the attacker's; found %v/%v", e, o)
				}
			}
		}
	}
	n := 0
	for _, t := range m.tests {
		if len(t.backs) == 0 {
			c.Undec(rule, "value:"+t.name, c18Pos(t.iff), "the %s branch never returns to the loop header", t.name)
			continue
		}
		n++
		for _, i := range t.backs {
			pr := m.H.Preds[i]
			// value subtracted
			nsw := m.swap.Edges[i]
			bo, ok := nsw.(*ssa.BinOp)
			var idx ssa.Value
			if ok && bo.Op == token.SUB && bo.Y == ssa.Value(m.swap) {
				idx, ok = m.pvIndex(bo.X)
			} else {
				ok = false
			}
			if !ok {
				c.Undec(rule, "value:"+t.name, c18Pos(t.iff), "new balance of the %s branch is not `PieceValues[K'] - balance`", t.name)
			} else if k, isc := constOf(idx); !isc {
				c.Undec(rule, "value:"+t.name, bo.Pos(), "PieceValues index in the %s branch is not a constant", t.name)
			} else if m.val[k] == m.val[t.kind] {
				c.Ok(rule, "value:"+t.name, bo.Pos(), "%s branch puts PieceValues[%s] = %d at risk", t.name, m.pcs[k], m.val[k])
			} else {
				c.Fail(rule, "value:"+t.name, bo.Pos(), "the branch that captures with a %s (value %d) books PieceValues[%s] = %d as the piece at risk", t.name, m.val[t.kind], m.pcs[k], m.val[k])
			}
			// one bit of the tested set leaves the occupancy
			m.oneBit(c, rule, t, i)
			// early exit
			m.earlyExit(c, rule, t, pr, nsw)
			// parity flips
			if m.swap.Edges[i] == ssa.Value(m.swap) {
				c.Fail(rule, "value:"+t.name, c18Pos(t.iff), "balance unchanged by a capture")
			}
		}
	}
	c.Floor(rule, n, 5, "capture branches with a back edge")
}

func (m *c18Model) oneBit(c *Ctx, rule string, t *c18Test, i int) {
	key := "one-bit:" + t.name
	nocc := stripConv(m.occ.Edges[i])
	pos := c18Pos(t.iff)
	if nocc == ssa.Value(m.occ) {
		c.Fail(rule, key, pos, "the capturing %s stays in the occupancy: it captures again and x-rays behind it never open", t.name)
		return
	}
	var removed ssa.Value
	if bo, ok := nocc.(*ssa.BinOp); ok {
		pos = bo.Pos()
		x, y := stripConv(bo.X), stripConv(bo.Y)
		switch bo.Op {
		case token.AND_NOT:
			if x == ssa.Value(m.occ) {
				removed = y
			}
		case token.XOR:
			if x == ssa.Value(m.occ) {
				removed = y
			} else if y == ssa.Value(m.occ) {
				removed = x
			}
		case token.AND:
			if u, ok := y.(*ssa.UnOp); ok && u.Op == token.XOR && x == ssa.Value(m.occ) {
				removed = stripConv(u.X)
			} else if u, ok := x.(*ssa.UnOp); ok && u.Op == token.XOR && y == ssa.Value(m.occ) {
				removed = stripConv(u.X)
			}
		}
	}
	if removed == nil {
		c.Undec(rule, key, pos, "new occupancy of the %s branch is not `occ` minus a bit set", t.name)
		return
	}
	if removed == t.T || c18SetKey(removed) == c18SetKey(t.T) {
		c.Fail(rule, key, pos, "all attacking %ss of the side to move leave the occupancy at once; exactly one (x & -x) makes the capture, a second one must still be able to recapture", t.name)
		return
	}
	// removed == X & -X
	var src ssa.Value
	if bo, ok := removed.(*ssa.BinOp); ok && bo.Op == token.AND {
		x, y := stripConv(bo.X), stripConv(bo.Y)
		if u, ok := y.(*ssa.UnOp); ok && u.Op == token.SUB && stripConv(u.X) == x {
			src = x
		} else if u, ok := x.(*ssa.UnOp); ok && u.Op == token.SUB && stripConv(u.X) == y {
			src = y
		}
	}
	switch {
	case src == nil:
		c.Undec(rule, key, pos, "bits removed in the %s branch are not of the form x & -x", t.name)
	case src == t.T || c18SetKey(src) == c18SetKey(t.T):
		c.Ok(rule, key, pos, "exactly the lowest bit of the tested %s set leaves the occupancy", t.name)
	default:
		c.Fail(rule, key, pos, "the bit removed from the occupancy in the %s branch is the lowest bit of a different set than the one tested: the piece that leaves need not be a %s, value and x-ray refresh no longer match it", t.name, t.name)
	}
}

func (m *c18Model) earlyExit(c *Ctx, rule string, t *c18Test, pr *ssa.BasicBlock, nsw ssa.Value) {
	key := "exit:" + t.name
	found := 0
	for _, b := range m.fn.Blocks {
		iff, ok := c18Last(b).(*ssa.If)
		if !ok || !t.taken.Dominates(b) {
			continue
		}
		bo, ok := iff.Cond.(*ssa.BinOp)
		if !ok {
			continue
		}
		var bound ssa.Value
		left := false
		if stripConv(bo.X) == nsw {
			bound, left = bo.Y, true
		} else if stripConv(bo.Y) == nsw {
			bound = bo.X
		} else {
			continue
		}
		// normalise to: leave via `exit` iff balance < bound+adj
		op := bo.Op
		if !left {
			op = map[token.Token]token.Token{token.LSS: token.GTR, token.GTR: token.LSS, token.LEQ: token.GEQ, token.GEQ: token.LEQ}[op]
		}
		var exit *ssa.BasicBlock
		adj := int64(0)
		switch op {
		case token.LSS:
			exit = b.Succs[0]
		case token.LEQ:
			exit, adj = b.Succs[0], 1
		case token.GEQ:
			exit = b.Succs[1]
		case token.GTR:
			exit, adj = b.Succs[1], 1
		default:
			continue
		}
		found++
		be, ok1 := m.parEval(bound, m.resEntry)
		bod, ok2 := m.parEval(bound, m.resEntry^1)
		re, ro, ok3 := m.retTable(exit)
		switch {
		case !b.Dominates(pr):
			c.Fail(rule, key, c18Pos(iff), "the stand-pat test of the %s branch is not on every path to the next iteration", t.name)
		case !ok1 || !ok2 || !ok3:
			c.Undec(rule, key, c18Pos(iff), "early exit of the %s branch: bound or returned value is not a function of the parity flag", t.name)
		case be+adj == 0 && bod+adj == 1 && !re && ro:
			c.Ok(rule, key, c18Pos(iff), "%s branch stops iff balance < 0 (defender's turn) / < 1 (attacker's turn) and returns false / true, as in every sibling branch", t.name)
		default:
			c.Fail(rule, key, c18Pos(iff), "early exit of the %s branch: stops iff balance < %d on the defender's turn and < %d on the attacker's, returning %v / %v; the swap algorithm (and the sibling branches) require < 0 / < 1 returning false / true — the side to move may not decline (or is forced to decline) a capture exactly at the threshold", t.name, be+adj, bod+adj, re, ro)
		}
	}
	if found == 0 {
		c.Undec(rule, key, c18Pos(t.iff), "no comparison of the new balance with the parity flag in the %s branch: the side to move can never stand pat, or the test has a shape this rule does not understand", t.name)
	}
}

func (m *c18Model) r4(c *Ctx) {
	const rule = "C18.R4"
	c.Ok(rule, "mask:selection", c18Pos(m.tests[0].iff), "all %d tests select from attackers(phi) & occ(phi) & Colors[stm]; occ(phi) receives each branch's updated occupancy (R3 one-bit)", len(m.tests))
	n := 0
	for _, t := range m.tests {
		var need []string
		switch t.name {
		case "Pawn", "Bishop":
			need = []string{"Bishop"}
		case "Rook":
			need = []string{"Rook"}
		case "Queen":
			need = []string{"Bishop", "Rook"}
		}
		rayName := map[string]string{"Bishop": "diag", "Rook": "orth"}
		for _, i := range t.backs {
			natt := m.att.Edges[i]
			nocc := m.occ.Edges[i]
			var leaves []ssa.Value
			c18OrLeaves(natt, &leaves)
			carry, opaque := false, 0
			state := map[string]string{}
			var at token.Pos = c18Pos(t.iff)
			for _, lf := range leaves {
				var pos, neg []ssa.Value
				c18AndLeaves(lf, &pos, &neg)
				var call *ssa.Call
				pieces, leafCarry := false, false
				for _, q := range pos {
					if q == ssa.Value(m.att) {
						carry, leafCarry = true, true
					}
					if cl, ok := q.(*ssa.Call); ok {
						if _, ok := attackFns[objName(calleeObj(cl))]; ok {
							call = cl
						}
					}
					if _, ok := pureOrOfPieces(q, m.pcs); ok {
						pieces = true
					}
				}
				if call == nil {
					if !leafCarry {
						opaque++
					}
					continue
				}
				F := attackFns[objName(calleeObj(call))]
				if F != "Bishop" && F != "Rook" {
					continue
				}
				a := call.Call.Args
				st := "ok"
				switch role := m.sqRole(a[0]); {
				case role == "from" || role == "capture":
					st = "is taken from the " + role + " square, not from the move's To() square"
				case role != "to" || !pieces:
					st = "?is not `pattern(To(), occ) & piece sets` in a form this rule can read"
				case stripConv(a[1]) == ssa.Value(m.occ):
					st = "is computed with the occupancy from before this capture (the capturer still blocks the line it stood on)"
				case stripConv(a[1]) != stripConv(nocc):
					st = "?uses an occupancy value that is neither the old nor the updated loop occupancy"
				}
				if state[F] != "ok" {
					state[F] = st
					at = call.Pos()
				}
			}
			if carry {
				c.Ok(rule, "carry:"+t.name, c18Pos(t.iff), "attackers found so far are carried into the next iteration")
			} else if opaque > 0 {
				c.Undec(rule, "carry:"+t.name, c18Pos(t.iff), "new attacker set of the %s branch has %d part(s) this rule cannot read", t.name, opaque)
			} else {
				c.Fail(rule, "carry:"+t.name, c18Pos(t.iff), "after a %s capture the attacker set is replaced instead of extended: attackers found earlier are forgotten", t.name)
			}
			for _, F := range need {
				key := "xray:" + t.name + ":" + rayName[F]
				n++
				switch state[F] {
				case "ok":
					c.Ok(rule, key, at, "after a %s capture %s lines through the target are re-read with the updated occupancy", t.name, rayName[F])
				case "":
					if opaque > 0 {
						c.Undec(rule, key, c18Pos(t.iff), "no %sMoves refresh visible after a %s capture, but the new attacker set has %d part(s) this rule cannot read", F, t.name, opaque)
					} else {
						c.Fail(rule, key, c18Pos(t.iff), "after a %s capture no %sMoves refresh is or-ed into the attacker set: a slider standing behind the capturer on that line never joins the exchange", t.name, F)
					}
				default:
					if strings.HasPrefix(state[F], "?") {
						c.Undec(rule, key, at, "after a %s capture the %sMoves refresh %s", t.name, F, state[F][1:])
					} else {
						c.Fail(rule, key, at, "after a %s capture the %sMoves refresh %s", t.name, F, state[F])
					}
				}
			}
		}
	}
	c.Floor(rule, n, 5, "required x-ray refreshes (Pawn:diag, Bishop:diag, Rook:orth, Queen:diag+orth)")
}

// ---------- R5: entry bookkeeping ----------

func (m *c18Model) checkOcc(c *Ctx, rule, key string, v ssa.Value, pos token.Pos) {
	alts, ok := m.occEval(v, 0)
	if !ok {
		c.Undec(rule, key, pos, "occupancy is not `Colors[White]|Colors[Black]` minus square bits")
		return
	}
	for _, a := range alts {
		if !a.removed["from"] {
			c.Fail(rule, key, pos, "the moving piece is still in the occupancy used here: it is counted among the attackers of its own target square and blocks the x-ray behind it")
			return
		}
		if a.removed["capture"] {
			continue
		}
		notEP, other := false, 0
		for _, g := range a.guards {
			if m.isEPCall(g.cond) {
				notEP = notEP || !g.truth
			} else if bo, ok := g.cond.(*ssa.BinOp); ok && (bo.Op == token.EQL || bo.Op == token.NEQ) && m.sqRole(bo.X)+m.sqRole(bo.Y) != "" &&
				(m.sqRole(bo.X) == "capture" && m.sqRole(bo.Y) == "to" || m.sqRole(bo.X) == "to" && m.sqRole(bo.Y) == "capture") {
				notEP = notEP || (bo.Op == token.EQL) == g.truth
			} else {
				other++
			}
		}
		if !notEP && other > 0 {
			c.Undec(rule, key, pos, "a path keeps the piece on CaptureSq in the occupancy under a condition this rule cannot relate to IsEnPassant (removed there: %v)", sortedKeys(a.removed))
			return
		}
		if !notEP {
			c.Fail(rule, key, pos, "for an en-passant capture the captured pawn (on CaptureSq, not on To) stays in the occupancy (removed here: %v): it blocks rank/file x-rays through its square, e.g. rooks behind it", sortedKeys(a.removed))
			return
		}
	}
	c.Ok(rule, key, pos, "mover removed on every path; en-passant victim removed at CaptureSq whenever IsEnPassant may hold (%d path(s))", len(alts))
}

func (m *c18Model) r5(c *Ctx) {
	const rule = "C18.R5"
	n := 0
	entryOcc := m.occ.Edges[m.entryIx]
	m.checkOcc(c, rule, "occ:loop-entry", entryOcc, m.occ.Pos())
	n++
	// occupancy of the first attacker computation
	var leaves []ssa.Value
	c18OrLeaves(m.att.Edges[m.entryIx], &leaves)
	for _, lf := range leaves {
		var pos, neg []ssa.Value
		c18AndLeaves(lf, &pos, &neg)
		for _, q := range pos {
			call, ok := q.(*ssa.Call)
			if !ok {
				continue
			}
			F := attackFns[objName(calleeObj(call))]
			if F == "Bishop" || F == "Rook" {
				m.checkOcc(c, rule, "occ:first-attackers:"+F, call.Call.Args[1], call.Pos())
				n++
			}
		}
	}
	// gain and risk
	expGain := "+1*PV@capture +1*promoVal -1*thr"
	expRisk := "-1*PV@capture +1*PV@from +1*thr"
	var gainIf *ssa.If
	for _, b := range m.fn.Blocks {
		iff, ok := c18Last(b).(*ssa.If)
		if !ok || b == m.H || !b.Dominates(m.H) {
			continue
		}
		bo, ok := iff.Cond.(*ssa.BinOp)
		if !ok || (bo.Op != token.LSS && bo.Op != token.GTR) {
			continue
		}
		f := map[string]int{}
		s := 1
		if bo.Op == token.GTR {
			s = -1
		}
		m.promoNote = ""
		m.lin(bo.X, s, f, 0)
		m.lin(bo.Y, -s, f, 0)
		if f["thr"] == 0 {
			continue
		}
		gainIf = iff
		n++
		ret, isr := c18Last(b.Succs[0]).(*ssa.Return)
		rv := int64(-1)
		if isr && len(ret.Results) == 1 {
			rv, _ = constOf(ret.Results[0])
		}
		got := c18LinStr(f)
		switch {
		case strings.Contains(got, "?"):
			c.Undec(rule, "gain", c18Pos(iff), "first-capture gain has a term this rule does not understand: %s", got)
		case got != expGain:
			c.Fail(rule, "gain", c18Pos(iff), "SEE gives up when [%s] < 0; the gain of the move itself must be [%s] (piece standing on CaptureSq — differs from To() for en passant — plus the promotion bonus, minus the threshold)", got, expGain)
		case m.promoNote != "":
			c.Fail(rule, "gain", c18Pos(iff), "%s", m.promoNote)
		case rv != 0:
			c.Fail(rule, "gain", c18Pos(iff), "gain below threshold must return false")
		default:
			c.Ok(rule, "gain", c18Pos(iff), "gain test is [%s] < 0 -> false, promotion bonus = PieceValues[promo]-PieceValues[Pawn] only when Promo() != NoPiece", got)
		}
	}
	if gainIf == nil {
		c.Undec(rule, "gain", m.fn.Pos(), "no `gain - threshold < 0` exit before the loop")
	}
	if m.swap == nil {
		c.Undec(rule, "risk", m.fn.Pos(), "running balance not recognised")
	} else {
		f := map[string]int{}
		m.promoNote = ""
		m.lin(m.swap.Edges[m.entryIx], 1, f, 0)
		got := c18LinStr(f)
		n++
		switch {
		case strings.Contains(got, "?"):
			c.Undec(rule, "risk", m.swap.Pos(), "balance entering the loop has a term this rule does not understand: %s", got)
		case got != expRisk:
			c.Fail(rule, "risk", m.swap.Pos(), "balance entering the loop is [%s]; it must be value-at-risk minus gain = (PV[mover]+promoVal) - (PV[captured]+promoVal-threshold) = [%s]: a promoted pawn is at risk with the value of the new piece", got, expRisk)
		case m.promoNote != "":
			c.Fail(rule, "risk", m.swap.Pos(), "%s", m.promoNote)
		default:
			c.Ok(rule, "risk", m.swap.Pos(), "balance entering the loop is [%s] (promotion bonus cancels: it is both gained and put at risk)", got)
		}
	}
	// first reply by the opponent, sides alternate
	ok, shape := false, false
	why := "the colour whose attackers are selected is not Flip(loop-carried colour)"
	if call, isc := stripConv(m.stmV).(*ssa.Call); isc && objName(calleeObj(call)) == "chess.(Color).Flip" {
		if ph, isp := stripConv(call.Call.Args[0]).(*ssa.Phi); isp && ph.Block() == m.H {
			ok, shape = true, true
			if !isFieldLoad(stripConv(ph.Edges[m.entryIx]), "Board.STM") {
				ok, why = false, "the loop does not start from the mover's colour b.STM, so the first reply is not the opponent's"
			}
			for _, i := range m.backIx {
				if ph.Edges[i] != m.stmV {
					ok, why = false, "the side to move is not handed over after a capture"
				}
			}
		}
	}
	n++
	if ok {
		c.Ok(rule, "first-reply", m.stmV.Pos(), "iteration k selects attackers of Flip^k(b.STM): opponent replies first, sides alternate")
	} else if shape {
		c.Fail(rule, "first-reply", m.H.Instrs[0].Pos(), "%s", why)
	} else {
		c.Undec(rule, "first-reply", m.H.Instrs[0].Pos(), "%s", why)
	}
	c.Floor(rule, n, 6, "entry-bookkeeping obligations")
}

// ---------- R6: consumers ----------

// c18Sign: 1 = provably <= 0, -1 = positive for some input by construction, 0 = unknown.
func c18Sign(v ssa.Value, depth int) int {
	v = stripConv(v)
	if k, ok := constOf(v); ok {
		if k <= 0 {
			return 1
		}
		return -1
	}
	call, ok := v.(*ssa.Call)
	if !ok || depth > 4 {
		return 0
	}
	bi, ok := call.Call.Value.(*ssa.Builtin)
	if !ok || (bi.Name() != "min" && bi.Name() != "max") {
		return 0
	}
	lo, hi := 1, -1 // weakest / strongest claim among the arguments
	for _, a := range call.Call.Args {
		s := c18Sign(a, depth+1)
		lo, hi = min(lo, s), max(hi, s)
	}
	if bi.Name() == "min" { // min is <= 0 as soon as one argument is; positive only if all are
		return hi
	}
	return lo // max is <= 0 only if all arguments are; positive as soon as one is
}

func c18R6(c *Ctx, p *Prog) {
	const rule = "C18.R6"
	rn := p.Func("heur.(*MoveRanker).RankNoisy")
	if rn == nil || p.FuncObj("heur.SEE") == nil {
		c.Anchor(rule, "heur.(*MoveRanker).RankNoisy / heur.SEE")
	} else {
		calls := callsIn(rn, "heur.SEE")
		for i, ci := range calls {
			key := fmt.Sprintf("threshold@heur.(*MoveRanker).RankNoisy#%d", i+1)
			switch c18Sign(ci.Common().Args[2], 0) {
			case 1:
				c.Ok(rule, key, ci.Pos(), "threshold passed to SEE is provably <= 0: every capture with SEE >= 0 is ranked into the good band")
			case -1:
				c.Fail(rule, key, ci.Pos(), "threshold passed to SEE can be positive: captures that do not lose material are ranked into the bad-capture band, which quiescence prunes")
			default:
				c.Undec(rule, key, ci.Pos(), "cannot show that the SEE threshold is <= 0 (expected a constant <= 0 or min(0, …))")
			}
		}
		c.Floor(rule+".threshold", len(calls), 1, "SEE calls in RankNoisy")
	}
	qs := p.Func("search.(*Search).quiescence")
	capt, okc := p.pkgConstInt("heur.Captures")
	if qs == nil || !okc {
		c.Anchor(rule, "search.(*Search).quiescence / heur.Captures")
		return
	}
	n := 0
	allInstrs(qs, func(in ssa.Instruction) {
		iff, ok := in.(*ssa.If)
		if !ok {
			return
		}
		bo, ok := iff.Cond.(*ssa.BinOp)
		if !ok {
			return
		}
		isW := func(v ssa.Value) bool { return isFieldLoad(stripConv(v), "Weighted.Weight") }
		var other ssa.Value
		left := false
		if isW(bo.X) {
			other, left = bo.Y, true
		} else if isW(bo.Y) {
			other = bo.X
		} else {
			return
		}
		k, isc := constOf(other)
		op := bo.Op
		if !left {
			op = map[token.Token]token.Token{token.LSS: token.GTR, token.GTR: token.LSS, token.LEQ: token.GEQ, token.GEQ: token.LEQ}[op]
		}
		// split point s: moves with Weight < s leave through `low`, the others through the other successor
		var s int64
		var low *ssa.BasicBlock
		switch op {
		case token.LSS:
			s, low = k, iff.Block().Succs[0]
		case token.LEQ:
			s, low = k+1, iff.Block().Succs[0]
		case token.GEQ:
			s, low = k, iff.Block().Succs[1]
		case token.GTR:
			s, low = k+1, iff.Block().Succs[1]
		default:
			return // equality tests do not split the list into bands
		}
		if c18ReachesMake(low) {
			return // the low side is still searched: not a prune by weight alone
		}
		n++
		key := fmt.Sprintf("qs-prune#%d", n)
		if !isc {
			c.Undec(rule, key, c18Pos(iff), "quiescence compares Weight with a non-constant")
			return
		}
		if s <= capt {
			c.Ok(rule, key, c18Pos(iff), "quiescence splits its move list at Weight < %d <= heur.Captures (%d): no move ranked as a good capture (SEE >= threshold) falls on the pruned side", s, capt)
		} else {
			c.Fail(rule, key, c18Pos(iff), "quiescence splits its move list at Weight < %d, above heur.Captures (%d): captures that SEE judged good are cut together with the bad ones", s, capt)
		}
	})
	c.Floor(rule+".qs-prune", n, 1, "Weight tests in quiescence")
}

// c18ReachesMake: from the start of b a Board.MakeMove call is reachable before the next move is picked.
func c18ReachesMake(b *ssa.BasicBlock) bool {
	seen := map[*ssa.BasicBlock]bool{}
	var walk func(b *ssa.BasicBlock) bool
	walk = func(b *ssa.BasicBlock) bool {
		if seen[b] {
			return false
		}
		seen[b] = true
		for _, in := range b.Instrs {
			if isCallTo(in, "board.(*Board).MakeMove") {
				return true
			}
			if isCallTo(in, "search.getNextMove") {
				return false
			}
		}
		for _, s := range b.Succs {
			if walk(s) {
				return true
			}
		}
		return false
	}
	return walk(b)
}

// ---------- mutants ----------

// c18Blk renders the source text of one capture branch of SEE (three tabs deep).
func c18Blk(kind, refresh string) string {
	s := "\t\t\tfromBB = stmAttackers & b.Pieces[" + kind + "]\n\t\t\tif fromBB != 0 {\n\t\t\t\tswap = PieceValues[" + kind + "] - swap\n\t\t\t\tif swap < res {\n\t\t\t\t\treturn res == 1\n\t\t\t\t}\n\t\t\t\tocc &= ^(fromBB & -fromBB)\n"
	if refresh != "" {
		s += "\t\t\t\tattackers |= " + refresh + "\n"
	}
	return s + "\t\t\t\tbreak\n\t\t\t}\n"
}

const (
	c18Diag = "(attacks.BishopMoves(to, occ) & (b.Pieces[Bishop] | b.Pieces[Queen]))"
	c18Orth = "(attacks.RookMoves(to, occ) & (b.Pieces[Rook] | b.Pieces[Queen]))"
)

func init() {
	see := "heur/see.go"
	addMutants(
		// R1
		Mutant{Name: "C18.R1-rook-refresh-with-bishops", Prop: "C18", File: see, Quick: true,
			Old: "attackers |= (attacks.RookMoves(to, occ) & (b.Pieces[Rook] | b.Pieces[Queen]))", New: "attackers |= (attacks.RookMoves(to, occ) & (b.Pieces[Bishop] | b.Pieces[Queen]))",
			Expect: "C18.R1.PA1/heur.SEE#RookMoves@2"},
		Mutant{Name: "C18.R1-white-pawns-with-white-pattern", Prop: "C18", File: see,
			Old: "attacks.PawnCaptureMoves(toBB, Black) & b.Pieces[Pawn] & b.Colors[White]", New: "attacks.PawnCaptureMoves(toBB, White) & b.Pieces[Pawn] & b.Colors[White]",
			Expect: "C18.R1.PA4/heur.SEE#PawnCaptureMoves@1"},
		Mutant{Name: "C18.R1-initial-set-without-king", Prop: "C18", File: see,
			Old: c18Orth + " |\n\t\t\t(attacks.KingMoves(to) & b.Pieces[King])", New: c18Orth,
			Expect: "C18.R1.init/King"},
		Mutant{Name: "C18.R1-knights-from-origin-square", Prop: "C18", File: see,
			Old: "(attacks.KnightMoves(to) & b.Pieces[Knight])", New: "(attacks.KnightMoves(from) & b.Pieces[Knight])",
			Expect: "C18.R1.init/Knight"},
		// R2
		Mutant{Name: "C18.R2-rook-tested-before-bishop", Prop: "C18", File: see, Quick: true,
			Old: c18Blk("Bishop", c18Diag) + "\n" + c18Blk("Rook", c18Orth), New: c18Blk("Rook", c18Orth) + "\n" + c18Blk("Bishop", c18Diag),
			Expect: "C18.R2/order:Rook"},
		Mutant{Name: "C18.R2-marker-advanced-after-one-pawn", Prop: "C18", File: see,
			Old: "attackers |= " + c18Diag + "\n\t\t\t\tbreak\n\t\t\t}\n\t\t\tfallthrough\n\n\t\tcase Knight:", New: "attackers |= " + c18Diag + "\n\t\t\t\tstart[stm] = Knight\n\t\t\t\tbreak\n\t\t\t}\n\t\t\tfallthrough\n\n\t\tcase Knight:",
			Expect: "C18.R2/order:Knight"},
		Mutant{Name: "C18.R2-marker-past-bishop", Prop: "C18", File: see,
			Old: "\t\t\tfromBB = stmAttackers & b.Pieces[Rook]\n", New: "\t\t\tfallthrough\n\n\t\tcase Rook:\n\t\t\tstart[stm] = Rook // no more bishops for stm\n\n\t\t\tfromBB = stmAttackers & b.Pieces[Rook]\n",
			Expect: "C18.R2/order:Rook"},
		Mutant{Name: "C18.R2-marker-for-other-side", Prop: "C18", File: see,
			Old: "start[stm] = Knight // no more pawns for stm", New: "start[stm.Flip()] = Knight // no more pawns for stm",
			Expect: "C18.R2/marker-side"},
		Mutant{Name: "C18.R2-marker-without-case", Prop: "C18", File: see,
			Old: "start[stm] = Bishop\n", New: "start[stm] = Rook\n",
			Expect: "C18.R2/marker:Rook"},
		Mutant{Name: "C18.R2-king-captures-into-attack", Prop: "C18", File: see,
			Old: "if attackers & ^b.Colors[stm] != 0 {\n\t\t\t\treturn res == 0\n\t\t\t}", New: "if attackers & ^b.Colors[stm] != 0 {\n\t\t\t\treturn res == 1\n\t\t\t}",
			Expect: "C18.R2/king-verdict"},
		// R3
		Mutant{Name: "C18.R3-rook-branch-books-queen-value", Prop: "C18", File: see, Quick: true,
			Old: "swap = PieceValues[Rook] - swap", New: "swap = PieceValues[Queen] - swap",
			Expect: "C18.R3/value:Rook"},
		Mutant{Name: "C18.R3-all-knights-leave-at-once", Prop: "C18", File: see,
			Old: "occ &= ^(fromBB & -fromBB)\n\t\t\t\tbreak\n\t\t\t}\n\t\t\tfallthrough\n\n\t\tcase Bishop:", New: "occ &= ^fromBB\n\t\t\t\tbreak\n\t\t\t}\n\t\t\tfallthrough\n\n\t\tcase Bishop:",
			Expect: "C18.R3/one-bit:Knight"},
		Mutant{Name: "C18.R3-queen-exit-at-equality", Prop: "C18", File: see,
			Old: "swap = PieceValues[Queen] - swap\n\t\t\t\tif swap < res {", New: "swap = PieceValues[Queen] - swap\n\t\t\t\tif swap <= res {",
			Expect: "C18.R3/exit:Queen"},
		Mutant{Name: "C18.R3-bishop-exit-wrong-verdict", Prop: "C18", File: see,
			Old: "swap = PieceValues[Bishop] - swap\n\t\t\t\tif swap < res {\n\t\t\t\t\treturn res == 1", New: "swap = PieceValues[Bishop] - swap\n\t\t\t\tif swap < res {\n\t\t\t\t\treturn res == 0",
			Expect: "C18.R3/exit:Bishop"},
		Mutant{Name: "C18.R3-rook-bit-from-all-attackers", Prop: "C18", File: see,
			Old: "occ &= ^(fromBB & -fromBB)\n\t\t\t\tattackers |= " + c18Orth + "\n\t\t\t\tbreak", New: "occ &= ^(stmAttackers & -stmAttackers)\n\t\t\t\tattackers |= " + c18Orth + "\n\t\t\t\tbreak",
			Expect: "C18.R3/one-bit:Rook"},
		Mutant{Name: "C18.R3-pawn-test-ignores-side", Prop: "C18", File: see,
			Old: "fromBB = stmAttackers & b.Pieces[Pawn]", New: "fromBB = attackers & b.Pieces[Pawn]",
			Expect: "C18.R3/set:Pawn"},
		// R4
		Mutant{Name: "C18.R4-no-diagonal-refresh-after-pawn", Prop: "C18", File: see, Quick: true,
			Old: "occ &= ^(fromBB & -fromBB)\n\t\t\t\tattackers |= " + c18Diag + "\n\t\t\t\tbreak\n\t\t\t}\n\t\t\tfallthrough", New: "occ &= ^(fromBB & -fromBB)\n\t\t\t\tbreak\n\t\t\t}\n\t\t\tfallthrough",
			Expect: "C18.R4/xray:Pawn:diag"},
		Mutant{Name: "C18.R4-queen-refreshes-diagonals-only", Prop: "C18", File: see,
			Old: "attackers |= " + c18Diag + " |\n\t\t\t\t\t" + c18Orth, New: "attackers |= " + c18Diag,
			Expect: "C18.R4/xray:Queen:orth"},
		Mutant{Name: "C18.R4-rook-refresh-with-stale-occupancy", Prop: "C18", File: see,
			Old: "occ &= ^(fromBB & -fromBB)\n\t\t\t\tattackers |= " + c18Orth + "\n", New: "attackers |= " + c18Orth + "\n\t\t\t\tocc &= ^(fromBB & -fromBB)\n",
			Expect: "C18.R4/xray:Rook:orth"},
		Mutant{Name: "C18.R4-king-test-counts-traded-pieces", Prop: "C18", File: see,
			Old: "attackers &= occ\n\t\tstmAttackers := attackers & b.Colors[stm]", New: "stmAttackers := attackers & occ & b.Colors[stm]",
			Expect: "C18.R4/mask:king"},
		Mutant{Name: "C18.R4-bishop-refresh-replaces-set", Prop: "C18", File: see,
			Old: "swap = PieceValues[Bishop] - swap\n\t\t\t\tif swap < res {\n\t\t\t\t\treturn res == 1\n\t\t\t\t}\n\t\t\t\tocc &= ^(fromBB & -fromBB)\n\t\t\t\tattackers |= ", New: "swap = PieceValues[Bishop] - swap\n\t\t\t\tif swap < res {\n\t\t\t\t\treturn res == 1\n\t\t\t\t}\n\t\t\t\tocc &= ^(fromBB & -fromBB)\n\t\t\t\tattackers = ",
			Expect: "C18.R4/carry:Bishop"},
		// R5
		Mutant{Name: "C18.R5-en-passant-victim-removed-at-to", Prop: "C18", File: see, Quick: true,
			Old: "captureBB := BitBoard(1) << captureSq", New: "captureBB := BitBoard(1) << to",
			Expect: "C18.R5/occ:"},
		Mutant{Name: "C18.R5-en-passant-removal-never-taken", Prop: "C18", File: see,
			Old: "if b.IsEnPassant(m) {\n\t\tocc &= ^(captureBB)", New: "if b.IsEnPassant(m) && captured == NoPiece {\n\t\tocc &= ^(captureBB)",
			Expect: "C18.R5/occ:"},
		Mutant{Name: "C18.R5-mover-stays-in-occupancy", Prop: "C18", File: see,
			Old: "occ := (b.Colors[White] | b.Colors[Black]) ^ fromBB", New: "occ := (b.Colors[White] | b.Colors[Black])",
			Expect: "C18.R5/occ:"},
		Mutant{Name: "C18.R5-captured-piece-read-at-to", Prop: "C18", File: see,
			Old: "captured := b.SquaresToPiece[captureSq]", New: "captured := b.SquaresToPiece[to]",
			Expect: "C18.R5/gain"},
		Mutant{Name: "C18.R5-promoted-piece-not-at-risk", Prop: "C18", File: see,
			Old: "swap = PieceValues[b.SquaresToPiece[m.From()]] + promoVal - swap", New: "swap = PieceValues[b.SquaresToPiece[m.From()]] - swap",
			Expect: "C18.R5/risk"},
		Mutant{Name: "C18.R5-promotion-bonus-unguarded", Prop: "C18", File: see,
			Old: "var promoVal Score\n\tif m.Promo() != NoPiece {\n\t\tpromoVal = PieceValues[m.Promo()] - PieceValues[Pawn]\n\t}", New: "promoVal := PieceValues[m.Promo()] - PieceValues[Pawn]",
			Expect: "C18.R5/gain"},
		Mutant{Name: "C18.R5-promotion-bonus-full-piece", Prop: "C18", File: see,
			Old: "promoVal = PieceValues[m.Promo()] - PieceValues[Pawn]", New: "promoVal = PieceValues[m.Promo()]",
			Expect: "C18.R5/gain"},
		Mutant{Name: "C18.R5-mover-replies-first", Prop: "C18", File: see,
			Old: "stm := b.STM\n", New: "stm := b.STM.Flip()\n",
			Expect: "C18.R5/first-reply"},
		// R6
		Mutant{Name: "C18.R6-threshold-max", Prop: "C18", File: "heur/heur.go", Quick: true,
			Old: "SEE(b, m, min(0, -captHist))", New: "SEE(b, m, max(0, -captHist))",
			Expect: "C18.R6/threshold"},
		Mutant{Name: "C18.R6-threshold-raw-history", Prop: "C18", File: "heur/heur.go",
			Old: "SEE(b, m, min(0, -captHist))", New: "SEE(b, m, -captHist)",
			Expect: "C18.R6/threshold"},
		Mutant{Name: "C18.R6-quiescence-cuts-below-hash-move", Prop: "C18", File: "search/search.go",
			Old: "if m.Weight < 0 {", New: "if m.Weight < heur.HashMove {",
			Expect: "C18.R6/qs-prune"},
	)
}
