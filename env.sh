# sourced by every registered command: offline Go toolchain that can load /repo
export PATH=/opt/veriftools/go1.26.8/bin:$PATH GOTOOLCHAIN=local GOFLAGS=-mod=mod GOPROXY=off GOWORK=off
unset GOSUMDB
