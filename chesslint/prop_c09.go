package main

import (
	"fmt"
	"go/token"
	"go/types"
	"strings"

	"golang.org/x/tools/go/ssa"
)

func init() {
	register(&Property{
		ID: "C09",
		Explain: "Static necessary conditions for 'fast checkmate and stalemate tests agree with the absence of legal moves'. " +
			"R1: piece–attack pairing (PA.1 reverse form, PA.2 forward form, PA.4 pawn colour) over IsCheckmate, IsStalemate, Attackers, Block, IsAttacked. " +
			"R2: every king-exposure decision in the two functions and their private helpers is taken from BOTH a diagonal test (bishop rays from the own king, against bishops/queens) and a lateral test (rook rays, against rooks/queens) on the SAME modified occupancy and the same opponent set; the two deliberate one-sided tests (bishop loop / rook loop) use the ray kind the piece cannot move along. " +
			"R3: IsCheckmate is called only under InCheck(STM) == true and IsStalemate only under false, on the same board with no move made in between (otherwise the attacker's square is 64 and InBetween[k][64] panics). " +
			"R4: king flight squares are tested with the king removed from the occupancy, against the opponent. " +
			"R5: where the simulated move is a capture (defenders from Attackers(V,…); a pawn capturing onto PawnCaptureMoves(piece)&enemy) the captured piece is excluded from the pin test's attacker set. " +
			"R6: a two-step pawn push composition masks the first step with the full occupancy. " +
			"R7: every attack/push pattern computed by Attackers/Block flows into every set they return. R8: a simulated pawn push / en-passant capture adds the (previously empty) landing square to the occupancy. " +
			"Not decided: agreement of the 250-line case analysis with move generation for concrete positions.",
		Assume: []string{"go/ssa models the program faithfully"},
		Run:    runC09,
	})
}

func runC09(c *Ctx) {
	p := c.need("default")
	if p == nil {
		return
	}
	// the two tests, the attack helpers they use, and every board-package helper reachable from them
	var scopeRoots []*ssa.Function
	for _, n := range []string{"board.(*Board).IsCheckmate", "board.(*Board).IsStalemate", "board.(*Board).Attackers", "board.(*Board).Block", "board.(*Board).IsAttacked"} {
		if fn := p.Func(n); fn != nil {
			scopeRoots = append(scopeRoots, fn)
		} else {
			c.Anchor("C09.R1.PA1", n)
		}
	}
	inScope := map[*ssa.Function]bool{}
	for _, fn := range p.closure(scopeRoots, func(f *ssa.Function) bool { return relPkg(fnPkgPath(f)) != "board" }) {
		if relPkg(fnPkgPath(fn)) == "board" {
			inScope[fn] = true
		}
	}
	scope := paScope(func(fn *ssa.Function) bool { return inScope[fn] })
	c.Floor("C09.R1.PA1", pa1(c, p, "C09.R1.PA1", scope), 12, "attack-pattern ∩ piece-set sites")
	c.Floor("C09.R1.PA2", pa2(c, p, "C09.R1.PA2", inFuncs("board.(*Board).IsStalemate")), 4, "mobility sites whose origin square comes from a piece set")
	c.Floor("C09.R1.PA4", pa4(c, p, "C09.R1.PA4", scope), 4, "pawn-capture colour sites")
	if n := pa5(c, p, "C09.R1.WRAP", scope); n == 0 {
		c.OkTrivial("C09.R1.WRAP", "none", 0, "no one-file bitboard shift of a piece set in the two tests and their helpers")
	}
	c09R2(c, p)
	c09R3(c, p)
	c09R4(c, p)
	c09R5(c, p)
	c09R6(c, p)
	c09R7(c, p)
	c09R8(c, p)
	// IsCheckmate finds the interposition squares in attacks.InBetween: the table's fill is a premise of C09
	c.As("C12.R7", "C09.R9.between-table", func() { c12R7(c, p) })
}

// pinTest is one `F(kingSq, occ') & pieces & opp != 0` condition.
type pinTest struct {
	Call  *ssa.Call
	F     string
	Other []ssa.Value // conjuncts that are neither piece sets nor exclusions
	Cond  *ssa.BinOp
}

func parsePinTest(cond ssa.Value, pcs map[int64]string) (*pinTest, bool) {
	bo, ok := cond.(*ssa.BinOp)
	if !ok || (bo.Op != token.NEQ && bo.Op != token.EQL) {
		return nil, false
	}
	if k, isc := constOf(bo.Y); !isc || k != 0 {
		return nil, false
	}
	var leaves []ssa.Value
	flattenAnd(bo.X, &leaves)
	pt := &pinTest{Cond: bo}
	for _, lf := range leaves {
		lf = stripConv(lf)
		if call, ok := lf.(*ssa.Call); ok {
			if f, ok := attackFns[objName(calleeObj(call))]; ok && (f == "Bishop" || f == "Rook") {
				pt.Call, pt.F = call, f
				continue
			}
		}
		if u, ok := lf.(*ssa.UnOp); ok && u.Op == token.XOR {
			continue // exclusion
		}
		if _, ok := pureOrOfPieces(lf, pcs); ok {
			continue // piece set (PA.1 checks it)
		}
		pt.Other = append(pt.Other, lf)
	}
	return pt, pt.Call != nil
}

// paramBindings: for a parameter of a chess-3 helper, the arguments passed at every static call site
// (transitively); for anything else the value itself.
func paramBindings(p *Prog, v ssa.Value, depth int) []ssa.Value {
	par, ok := v.(*ssa.Parameter)
	if !ok || depth > 3 {
		return []ssa.Value{v}
	}
	fn := par.Parent()
	idx := -1
	for i, q := range fn.Params {
		if q == par {
			idx = i
		}
	}
	var out []ssa.Value
	for _, caller := range p.OwnFuncs() {
		allInstrs(caller, func(in ssa.Instruction) {
			ci, ok := in.(ssa.CallInstruction)
			if !ok || ci.Common().StaticCallee() != fn || idx >= len(ci.Common().Args) {
				return
			}
			out = append(out, paramBindings(p, ci.Common().Args[idx], depth+1)...)
		})
	}
	if len(out) == 0 {
		return []ssa.Value{v}
	}
	return out
}

func kindsThroughParams(p *Prog, v ssa.Value, pcs map[int64]string) []string {
	set := map[string]bool{}
	var roots []ssa.Value
	for x := range backSlice(v, sliceOpts{ThroughCalls: true}) {
		if _, ok := x.(*ssa.Parameter); ok {
			roots = append(roots, paramBindings(p, x, 0)...)
		}
	}
	roots = append(roots, v)
	for _, r := range roots {
		for _, k := range sourceKinds(r, pcs) {
			set[k] = true
		}
	}
	return sortedKeys(set)
}

// kingRay is one slider-ray lookup from the own king's square on some occupancy, intersected with enemy sliders.
type kingRay struct {
	Fn    *ssa.Function
	Call  *ssa.Call
	F     string
	Other []ssa.Value
	Ord   int
}

// c09R2: every decision "moving this piece exposes the king" looks along BOTH ray kinds. For each
// slider-ray lookup from the king's square there is, in the same function, the lookup of the other
// kind from the same square on the same occupancy against the same enemy set — except the two
// deliberate one-sided tests that guard the mobility of a bishop (rook rays only) / rook (bishop rays only).
func c09R2(c *Ctx, p *Prog) {
	const rule = "C09.R2"
	pcs := pieceConsts(p)
	var roots []*ssa.Function
	for _, spec := range []string{"board.(*Board).IsCheckmate", "board.(*Board).IsStalemate"} {
		fn := p.Func(spec)
		if fn == nil {
			c.Anchor(rule, spec)
			continue
		}
		roots = append(roots, fn)
	}
	isRoot := func(fn *ssa.Function) bool {
		for _, r := range roots {
			if r == fn {
				return true
			}
		}
		return false
	}
	total, oneSided := 0, 0
	// the two tests and the helpers private to them (a helper with other callers is a general attack query, checked by R1)
	private := map[*ssa.Function]bool{}
	for _, fn := range p.closure(roots, func(f *ssa.Function) bool { return relPkg(fnPkgPath(f)) != "board" }) {
		if relPkg(fnPkgPath(fn)) == "board" {
			private[fn] = true
		}
	}
	for changed := true; changed; {
		changed = false
		for _, caller := range p.OwnFuncs() {
			if private[caller] {
				continue
			}
			allInstrs(caller, func(in ssa.Instruction) {
				if ci, ok := in.(ssa.CallInstruction); ok {
					if callee := ci.Common().StaticCallee(); callee != nil && private[callee] && !isRoot(callee) {
						delete(private, callee)
						changed = true
					}
				}
			})
		}
	}
	for _, fn := range p.closure(roots, func(f *ssa.Function) bool { return relPkg(fnPkgPath(f)) != "board" }) {
		if !private[fn] {
			continue
		}
		var rays []*kingRay
		ord := map[string]int{}
		allInstrs(fn, func(in ssa.Instruction) {
			call, ok := in.(*ssa.Call)
			if !ok {
				return
			}
			f, ok := attackFns[objName(calleeObj(call))]
			if !ok || (f != "Bishop" && f != "Rook") {
				return
			}
			ks := kindsThroughParams(p, call.Call.Args[0], pcs)
			if len(ks) != 1 || ks[0] != "King" {
				return
			}
			// the conjunction this lookup is part of: only lookups intersected with a piece set are pin/check tests
			conj, _ := andConjuncts(call)
			var leaves []ssa.Value
			for _, cj := range conj {
				flattenAnd(cj, &leaves)
			}
			kr := &kingRay{Fn: fn, Call: call, F: f}
			hasSet := false
			for _, lf := range leaves {
				lf = stripConv(lf)
				if lf == ssa.Value(call) {
					continue
				}
				if u, ok := lf.(*ssa.UnOp); ok && u.Op == token.XOR {
					continue
				}
				if _, ok := pureOrOfPieces(lf, pcs); ok {
					hasSet = true
					continue
				}
				kr.Other = append(kr.Other, lf)
			}
			if !hasSet {
				return
			}
			ord[f]++
			kr.Ord = ord[f]
			rays = append(rays, kr)
		})
		paired := map[*kingRay]*kingRay{}
		for _, a := range rays {
			for _, b := range rays {
				if a.F == b.F || paired[a] != nil || paired[b] != nil {
					continue
				}
				if sameValue(a.Call.Call.Args[0], b.Call.Call.Args[0], 0) && sameValue(a.Call.Call.Args[1], b.Call.Call.Args[1], 0) {
					paired[a], paired[b] = b, a
				}
			}
		}
		// one-sided tests: an unpaired king-ray test guarding the mobility lookup of a bishop / rook
		guardsSlider := map[*kingRay]bool{}
		allInstrs(fn, func(in ssa.Instruction) {
			call, ok := in.(*ssa.Call)
			if !ok {
				return
			}
			f, ok := attackFns[objName(calleeObj(call))]
			if !ok || (f != "Bishop" && f != "Rook") {
				return
			}
			sk := sourceKinds(call.Call.Args[0], pcs)
			if len(sk) != 1 || (sk[0] != "Bishop" && sk[0] != "Rook") {
				return
			}
			for _, ce := range controllingConds(call.Block()) {
				pt, ok := parsePinTest(ce.Cond, pcs)
				if !ok {
					continue
				}
				var kr *kingRay
				for _, r := range rays {
					if r.Call == pt.Call {
						kr = r
					}
				}
				if kr == nil || paired[kr] != nil {
					continue
				}
				guardsSlider[kr] = true
				oneSided++
				key := fmt.Sprintf("%s#paralysed-%s", fnName(fn), strings.ToLower(sk[0]))
				notPinnedEdge := ce.True == (pt.Cond.Op == token.EQL)
				other := map[string]string{"Bishop": "Rook", "Rook": "Bishop"}[sk[0]]
				c.Check(pt.F == other && notPinnedEdge, rule, key, call.Pos(), "a %s's mobility is consulted only when no %s-ray pin (the kind it cannot slide along) holds it; found %s-ray test, mobility on the not-pinned edge: %v", sk[0], other, pt.F, notPinnedEdge)
			}
		})
		for _, a := range rays {
			key := fmt.Sprintf("%s#pinned:%s@%d", fnName(fn), a.F, a.Ord)
			if b := paired[a]; b != nil {
				if a.F != "Bishop" {
					continue // reported once, from the diagonal side
				}
				total++
				okOpp := len(a.Other) == len(b.Other)
				if okOpp {
					for i := range a.Other {
						if !sameValue(a.Other[i], b.Other[i], 0) {
							okOpp = false
						}
					}
				}
				if okOpp && len(a.Other) == 1 {
					// the enemy set: derived from Colors[STM.Flip()] (through helper parameters)
					found := false
					for _, root := range paramBindings(p, a.Other[0], 0) {
						srcs := []ssa.Value{root}
						for x := range backSlice(root, sliceOpts{}) {
							if _, isPar := x.(*ssa.Parameter); isPar {
								srcs = append(srcs, paramBindings(p, x, 0)...)
							}
						}
						for _, s := range srcs {
							for v := range backSlice(s, sliceOpts{}) {
								if ce, ok := coloursLoad(v); ok && ce == (colourExpr{"STM", true}) {
									found = true
								}
								// Colors[c] with c a colour parameter bound to STM.Flip() by a caller
								if u, ok := stripConv(v).(*ssa.UnOp); ok && u.Op == token.MUL {
									if ia, ok := u.X.(*ssa.IndexAddr); ok {
										if fr, ok := asFieldAddr(ia.X); ok && fr.Name() == "Board.Colors" {
											if par, ok := stripConv(ia.Index).(*ssa.Parameter); ok {
												for _, bnd := range paramBindings(p, par, 0) {
													if ce, ok := normColour(bnd); ok && ce == (colourExpr{"STM", true}) {
														found = true
													}
												}
											}
										}
									}
								}
							}
						}
					}
					if !found {
						c.Fail(rule, key, a.Call.Pos(), "the two pin tests are not restricted to a piece set derived from Colors[STM.Flip()]")
						continue
					}
				}
				if !okOpp {
					c.Fail(rule, key, a.Call.Pos(), "the diagonal and the lateral pin test are not restricted to the same opponent piece set")
					continue
				}
				c.Ok(rule, key, a.Call.Pos(), "diagonal and lateral test from the king's square on the same simulated occupancy against the same opponent set")
				continue
			}
			if guardsSlider[a] {
				continue
			}
			total++
			// why is there no partner?
			why, decided := "", true
			for _, b := range rays {
				if b.F != a.F && sameValue(a.Call.Call.Args[0], b.Call.Call.Args[0], 0) && paired[b] == nil {
					why = fmt.Sprintf("the %s-ray test of the same decision (%s) uses a different occupancy: one of them does not see the simulated move", b.F, p.Rel(b.Call.Pos()))
				}
			}
			if why == "" {
				why = fmt.Sprintf("exposure of the king is decided from %s rays only; a pin can come along a diagonal (bishop/queen) or along a rank/file (rook/queen) — both tests are needed", a.F)
				// the partner may live in another helper that receives the same occupancy
				allInstrs(fn, func(in ssa.Instruction) {
					ci, ok := in.(ssa.CallInstruction)
					if !ok || ci.Common().StaticCallee() == nil || !isOwn(ci.Common().StaticCallee()) || relPkg(fnPkgPath(ci.Common().StaticCallee())) == "attacks" {
						return
					}
					for _, arg := range ci.Common().Args {
						if sameValue(arg, a.Call.Call.Args[1], 0) {
							decided = false
						}
					}
				})
				if !isRoot(fn) {
					decided = false
				}
			}
			if decided {
				c.Fail(rule, key, a.Call.Pos(), "%s", why)
			} else {
				c.Undec(rule, key, a.Call.Pos(), "no %s-ray partner in this function; it may be computed by another helper (%s)", map[string]string{"Bishop": "Rook", "Rook": "Bishop"}[a.F], why)
			}
		}
	}
	c.Floor(rule+".pinned", total, 2, "two-sided pin decisions reachable from IsCheckmate/IsStalemate")
	c.Floor(rule+".one-sided", oneSided, 2, "one-sided paralysis tests in IsStalemate")
}

func c09R3(c *Ctx, p *Prog) {
	const rule = "C09.R3"
	n := 0
	for _, fn := range p.OwnFuncs() {
		for _, tc := range []struct {
			spec string
			want bool
		}{{"board.(*Board).IsCheckmate", true}, {"board.(*Board).IsStalemate", false}} {
			for i, ci := range callsIn(fn, tc.spec) {
				n++
				key := fmt.Sprintf("%s#%s@%d", fnName(fn), tc.spec[strings.LastIndex(tc.spec, ".")+1:], i+1)
				var ic *ssa.Call
				for _, ce := range controllingConds(ci.Block()) {
					v, pol := ce.Cond, ce.True
					if u, ok := v.(*ssa.UnOp); ok && u.Op == token.NOT {
						v, pol = u.X, !pol
					}
					call, ok := v.(*ssa.Call)
					if !ok || objName(calleeObj(call)) != "board.(*Board).InCheck" || pol != tc.want {
						continue
					}
					if sameValue(call.Call.Args[0], ci.Common().Args[0], 0) && isFieldLoad(stripConv(call.Call.Args[1]), "Board.STM") {
						ic = call
					}
				}
				// the test result may be handed to a helper as a bool parameter: every caller must pass InCheck(STM) of the same board
				if ic == nil {
					viaParam := false
					allOK := true
					for _, ce := range controllingConds(ci.Block()) {
						v, pol := ce.Cond, ce.True
						if u, ok := v.(*ssa.UnOp); ok && u.Op == token.NOT {
							v, pol = u.X, !pol
						}
						par, ok := v.(*ssa.Parameter)
						if !ok || pol != tc.want {
							continue
						}
						pix, bix := -1, -1
						for i, q := range fn.Params {
							if q == par {
								pix = i
							}
							if ssa.Value(q) == stripConv(ci.Common().Args[0]) {
								bix = i
							}
						}
						if pix < 0 || bix < 0 {
							continue
						}
						sites := 0
						for _, caller := range p.OwnFuncs() {
							allInstrs(caller, func(in ssa.Instruction) {
								cc, ok := in.(ssa.CallInstruction)
								if !ok || cc.Common().StaticCallee() != fn {
									return
								}
								sites++
								arg := stripConv(cc.Common().Args[pix])
								call, ok := arg.(*ssa.Call)
								if !ok || objName(calleeObj(call)) != "board.(*Board).InCheck" || !sameValue(call.Call.Args[0], cc.Common().Args[bix], 0) || !isFieldLoad(stripConv(call.Call.Args[1]), "Board.STM") {
									allOK = false
									return
								}
								// position unchanged between the test and the helper call
								allInstrs(caller, func(m ssa.Instruction) {
									for _, s := range []string{"board.(*Board).MakeMove", "board.(*Board).UndoMove", "board.(*Board).MakeNullMove", "board.(*Board).UndoNullMove"} {
										if isCallTo(m, s) {
											a, _ := reachAvoiding(call, m, func(x ssa.Instruction) bool { return x == in })
											b2, _ := reachAvoiding(m, in, func(x ssa.Instruction) bool { return x == ssa.Instruction(call) })
											if a && b2 {
												allOK = false
											}
										}
									}
								})
							})
						}
						if sites > 0 {
							viaParam = true
						}
					}
					if viaParam && allOK {
						c.Ok(rule, key, ci.Pos(), "called under a parameter that every caller fills with InCheck(STM) == %v of the same, unchanged position", tc.want)
						continue
					}
					if viaParam {
						c.Fail(rule, key, ci.Pos(), "%s is called under a bool parameter, but not every caller passes InCheck(STM) of the same unchanged board for it", tc.spec)
						continue
					}
				}
				if ic == nil {
					c.Fail(rule, key, ci.Pos(), "%s is called without being dominated by InCheck(STM) == %v on the same board: its precondition is not established (IsCheckmate with no checker indexes InBetween[king][64] and panics)", tc.spec, tc.want)
					continue
				}
				// no move made between the test and the call
				moved := ""
				allInstrs(fn, func(m ssa.Instruction) {
					if moved != "" {
						return
					}
					for _, s := range []string{"board.(*Board).MakeMove", "board.(*Board).UndoMove", "board.(*Board).MakeNullMove", "board.(*Board).UndoNullMove"} {
						if isCallTo(m, s) {
							a, _ := reachAvoiding(ic, m, func(x ssa.Instruction) bool { return x == ci.(ssa.Instruction) })
							b, _ := reachAvoiding(m, ci.(ssa.Instruction), func(x ssa.Instruction) bool { return x == ssa.Instruction(ic) })
							if a && b {
								moved = p.Rel(m.Pos())
							}
						}
					}
				})
				c.Check(moved == "", rule, key, ci.Pos(), "called under InCheck(STM) == %v with the position unchanged since the test %s", tc.want, moved)
			}
		}
	}
	c.Floor(rule, n, 2, "call sites of IsCheckmate/IsStalemate")
}

func c09R4(c *Ctx, p *Prog) {
	const rule = "C09.R4"
	pcs := pieceConsts(p)
	n := 0
	for _, spec := range []string{"board.(*Board).IsCheckmate", "board.(*Board).IsStalemate"} {
		fn := p.Func(spec)
		if fn == nil {
			c.Anchor(rule, spec)
			continue
		}
		for _, ci := range callsIn(fn, "board.(*Board).IsAttacked") {
			a := ci.Common().Args
			if len(a) != 4 {
				continue
			}
			// target derived from KingMoves(kingSq)
			fromKingMoves := false
			for v := range backSlice(a[3], sliceOpts{}) {
				if isCallValueTo(v, "attacks.KingMoves") {
					fromKingMoves = true
				}
			}
			if !fromKingMoves {
				continue
			}
			n++
			key := spec + "#king-flights"
			okOcc := false
			if bo, ok := stripConv(a[2]).(*ssa.BinOp); ok {
				var excl ssa.Value
				switch bo.Op {
				case token.AND_NOT:
					excl = bo.Y
				case token.AND:
					for _, s := range []ssa.Value{bo.X, bo.Y} {
						if u, ok := s.(*ssa.UnOp); ok && u.Op == token.XOR {
							excl = u.X
						}
					}
				}
				if excl != nil {
					ks := map[string]bool{}
					var cols []colourExpr
					for v := range backSlice(excl, sliceOpts{}) {
						if k, ok := piecesLoadKind(v, pcs); ok {
							ks[k] = true
						}
						if ce, ok := coloursLoad(v); ok {
							cols = append(cols, ce)
						}
					}
					okOcc = len(ks) == 1 && ks["King"] && len(cols) == 1 && cols[0] == (colourExpr{"STM", false})
				}
			}
			by, okBy := normColour(a[1])
			c.Check(okOcc, rule, key+"#king-removed", ci.Pos(), "king destinations are tested with the own king removed from the occupancy (a slider's ray continues through the square the king leaves)")
			c.Check(okBy && by == (colourExpr{"STM", true}), rule, key+"#by-opponent", ci.Pos(), "king destinations are tested against attacks by STM.Flip()")
		}
	}
	c.Floor(rule, n, 2, "king-flight attack tests")
}

func init() {
	addMutants(
		Mutant{Name: "C09.R1-attackers-king-pattern-with-knights", Prop: "C09", File: "board/attacks.go",
			Old: "sub := attacks.KingMoves(sq) & b.Pieces[King]", New: "sub := attacks.KingMoves(sq) & b.Pieces[Knight]",
			Expect: "C09.R1.PA1/board.(*Board).Attackers#KingMoves"},
		Mutant{Name: "C09.R1-block-forgets-queen-on-files", Prop: "C09", File: "board/attacks.go", Quick: true,
			Old: "\t\tsub |= attacks.RookMoves(sq, occ) & (b.Pieces[Rook] | b.Pieces[Queen])\n\n\t\tres |= sub & blockers", New: "\t\tsub |= attacks.RookMoves(sq, occ) & b.Pieces[Rook]\n\n\t\tres |= sub & blockers",
			Expect: "C09.R1.PA1/board.(*Board).Block#RookMoves"},
		Mutant{Name: "C09.R1-stalemate-ep-colour-slip", Prop: "C09", File: "board/attacks.go",
			Old: "pawns := attacks.PawnCaptureMoves(enPassantBB, b.STM.Flip()) & b.Pieces[Pawn] & me", New: "pawns := attacks.PawnCaptureMoves(enPassantBB, b.STM) & b.Pieces[Pawn] & me",
			Expect: "C09.R1.PA4/board.(*Board).IsStalemate#PawnCaptureMoves"},
		Mutant{Name: "C09.R1-stalemate-rook-mobility-with-bishop-rays", Prop: "C09", File: "board/attacks.go",
			Old: "\t\t\tif (attacks.RookMoves(sq, nocc) & ^me) != 0 {", New: "\t\t\tif (attacks.BishopMoves(sq, nocc) & ^me) != 0 {",
			Expect: "C09.R1.PA2/board.(*Board).IsStalemate#BishopMoves"},
		Mutant{Name: "C09.R2-knight-pin-forgets-lateral", Prop: "C09", File: "board/attacks.go", Quick: true,
			Old:    "\t\t\tif attacks.BishopMoves(kingSq, nocc)&(b.Pieces[Bishop]|b.Pieces[Queen])&opp != 0 {\n\t\t\t\tpinned = true\n\t\t\t} else if attacks.RookMoves(kingSq, nocc)&(b.Pieces[Rook]|b.Pieces[Queen])&opp != 0 {\n\t\t\t\tpinned = true\n\t\t\t}\n\t\t}\n\n\t\tif !pinned && (attacks.KnightMoves(sq)",
			New:    "\t\t\tif attacks.BishopMoves(kingSq, nocc)&(b.Pieces[Bishop]|b.Pieces[Queen])&opp != 0 {\n\t\t\t\tpinned = true\n\t\t\t}\n\t\t}\n\n\t\tif !pinned && (attacks.KnightMoves(sq)",
			Expect: "C09.R2/board.(*Board).IsStalemate#pinned"},
		Mutant{Name: "C09.R2-blocker-pin-on-stale-occupancy", Prop: "C09", File: "board/attacks.go",
			Old: "\t\t} else if attacks.RookMoves(kingSq, nocc)&(b.Pieces[Rook]|b.Pieces[Queen])&opp != 0 {\n\t\t\tpinned = true\n\t\t}\n\n\t\tif !pinned {\n\t\t\treturn false\n\t\t}\n\t}\n\n\treturn true\n}\n\n// IsStalemate", New: "\t\t} else if attacks.RookMoves(kingSq, occ)&(b.Pieces[Rook]|b.Pieces[Queen])&opp != 0 {\n\t\t\tpinned = true\n\t\t}\n\n\t\tif !pinned {\n\t\t\treturn false\n\t\t}\n\t}\n\n\treturn true\n}\n\n// IsStalemate",
			Expect: "C09.R2/board.(*Board).IsCheckmate#pinned"},
		Mutant{Name: "C09.R2-bishop-paralysis-tested-on-diagonals", Prop: "C09", File: "board/attacks.go",
			Old: "\t\tif (attacks.RookMoves(kingSq, nocc) & (b.Pieces[Rook] | b.Pieces[Queen]) & opp) == 0 {\n\t\t\tif (attacks.BishopMoves(sq, nocc) & ^me) != 0 {", New: "\t\tif (attacks.BishopMoves(kingSq, nocc) & (b.Pieces[Bishop] | b.Pieces[Queen]) & opp) == 0 {\n\t\t\tif (attacks.BishopMoves(sq, nocc) & ^me) != 0 {",
			Expect: "C09.R2/board.(*Board).IsStalemate#paralysed-bishop"},
		Mutant{Name: "C09.R5-captured-checker-still-pins", Prop: "C09", File: "board/attacks.go", Quick: true,
			Old: "\t\tnocc &= ^defender\n\t\topp &= ^attacker\n", New: "\t\tnocc &= ^defender\n",
			Expect: "C09.R5/board.(*Board).IsCheckmate#captured-cannot-pin"},
		Mutant{Name: "C09.R5-pawn-takes-pinner-not-excluded", Prop: "C09", File: "board/attacks.go",
			Old: "(b.Pieces[Bishop] | b.Pieces[Queen]) & ^targets & opp) != 0 {", New: "(b.Pieces[Bishop] | b.Pieces[Queen]) & opp) != 0 {",
			Expect: "C09.R5/board.(*Board).IsStalemate#captured-cannot-pin"},
		Mutant{Name: "C09.R6-double-step-over-own-pawn", Prop: "C09", File: "board/attacks.go", Quick: true,
			Old: "\tdpawn = attacks.PawnSinglePushMoves(dpawn, color.Flip()) &^ occ\n", New: "\tdpawn = attacks.PawnSinglePushMoves(dpawn, color.Flip()) &^ occNoPawn\n",
			Expect: "C09.R6/board.(*Board).Block#double-step"},
		Mutant{Name: "C09.R7-block-returns-before-pawn-pushes", Prop: "C09", File: "board/attacks.go", Quick: true,
			Old: "\t// we are making a pawn move backwards, so ignore the pawn in occupancy, as\n", New: "\tif res != 0 {\n\t\treturn res\n\t}\n\n\t// we are making a pawn move backwards, so ignore the pawn in occupancy, as\n",
			Expect: "C09.R7/board.(*Board).Block#union"},
		Mutant{Name: "C09.R8-en-passant-landing-square-forgotten", Prop: "C09", File: "board/attacks.go",
			Old: "\t\t\tnocc := (occ & ^pawn & ^remove) | enPassantBB\n", New: "\t\t\tnocc := occ & ^pawn & ^remove\n",
			Expect: "C09.R8/board.(*Board).IsStalemate#landing-square"},
		Mutant{Name: "C09.R8-push-landing-square-forgotten", Prop: "C09", File: "board/attacks.go",
			Old: "\t\ttargets := attacks.PawnSinglePushMoves(piece, b.STM) & ^occ\n\t\tnocc := (occ & ^piece) | targets\n", New: "\t\ttargets := attacks.PawnSinglePushMoves(piece, b.STM) & ^occ\n\t\tnocc := occ & ^piece\n",
			Expect: "C09.R8/board.(*Board).IsStalemate#landing-square"},
		Mutant{Name: "C09.R3-stalemate-test-also-in-check", Prop: "C09", File: "search/search.go", Quick: true,
			Old: "\tif inCheck {\n\t\tif b.IsCheckmate() {\n\t\t\treturn -Inf + Score(ply)\n\t\t}\n\t} else {\n\t\tif b.IsStalemate() {\n\t\t\treturn 0\n\t\t}\n\t}\n", New: "\tif inCheck {\n\t\tif b.IsCheckmate() {\n\t\t\treturn -Inf + Score(ply)\n\t\t}\n\t}\n\tif b.IsStalemate() {\n\t\treturn 0\n\t}\n",
			Expect: "C09.R3/search.(*Search).quiescence#IsStalemate"},
		Mutant{Name: "C09.R3-checkmate-test-unguarded", Prop: "C09", File: "search/search.go",
			Old: "\tif inCheck {\n\t\tif b.IsCheckmate() {", New: "\tif inCheck || standPatEarly(b) {\n\t\tif b.IsCheckmate() {",
			File2: "search/search.go", Old2: "func getNextMove(", New2: "func standPatEarly(b *board.Board) bool { return b.FiftyCnt > 90 }\n\nfunc getNextMove(",
			Expect: "C09.R3/search.(*Search).quiescence#IsCheckmate"},
		Mutant{Name: "C09.R4-flights-with-king-shielding", Prop: "C09", File: "board/attacks.go", Quick: true,
			Old: "\t\tif !b.IsAttacked(b.STM.Flip(), occ&^king, to) {", New: "\t\tif !b.IsAttacked(b.STM.Flip(), occ, to) {",
			Expect: "C09.R4/board.(*Board).IsCheckmate#king-flights#king-removed"},
		Mutant{Name: "C09.R4-stalemate-flights-own-colour", Prop: "C09", File: "board/attacks.go",
			Old: "\t\tif !b.IsAttacked(b.STM.Flip(), occ&^king, kMove) {", New: "\t\tif !b.IsAttacked(b.STM, occ&^king, kMove) {",
			Expect: "C09.R4/board.(*Board).IsStalemate#king-flights#by-opponent"},
	)
}

// maskLeaves decomposes a bitboard expression built from &, &^ and ^x into the sets it is
// intersected with (pos) and the sets excluded from it (neg).
func maskLeaves(v ssa.Value, pos, neg *[]ssa.Value) {
	v = stripConv(v)
	switch x := v.(type) {
	case *ssa.BinOp:
		switch x.Op {
		case token.AND:
			maskLeaves(x.X, pos, neg)
			maskLeaves(x.Y, pos, neg)
			return
		case token.AND_NOT:
			maskLeaves(x.X, pos, neg)
			*neg = append(*neg, stripConv(x.Y))
			return
		}
	case *ssa.UnOp:
		if x.Op == token.XOR {
			*neg = append(*neg, stripConv(x.X))
			return
		}
	}
	*pos = append(*pos, v)
}

// andContext walks upwards from v through the &/&^ expression it is part of and returns
// the other sets it is intersected with and the sets excluded.
func andContext(v ssa.Value) (pos, neg []ssa.Value) {
	top := v
	for {
		refs := top.Referrers()
		if refs == nil {
			return
		}
		var next ssa.Value
		for _, r := range *refs {
			bo, ok := r.(*ssa.BinOp)
			if !ok {
				continue
			}
			switch bo.Op {
			case token.AND:
				other := bo.Y
				if bo.Y == top {
					other = bo.X
				}
				maskLeaves(other, &pos, &neg)
				next = bo
			case token.AND_NOT:
				if bo.X == top {
					neg = append(neg, stripConv(bo.Y))
					next = bo
				}
			}
			if next != nil {
				break
			}
		}
		if next == nil {
			return
		}
		top = next
	}
}

func isFullOccupancy(v ssa.Value) bool {
	bo, ok := stripConv(v).(*ssa.BinOp)
	if !ok || bo.Op != token.OR {
		return false
	}
	a, ok1 := coloursLoad(bo.X)
	b, ok2 := coloursLoad(bo.Y)
	if !ok1 || !ok2 {
		return false
	}
	return (a.Base == "const0" && b.Base == "const1") || (a.Base == "const1" && b.Base == "const0") ||
		(a.Base == b.Base && a.Flipped != b.Flipped)
}

// setOrigins: the values a piece set is carved out of — through bit isolation (x & -x), the loop
// variable stripping it, and intersections/exclusions; calls are leaves (their arguments are not followed).
func setOrigins(v ssa.Value) []ssa.Value {
	var out []ssa.Value
	seen := map[ssa.Value]bool{}
	var walk func(v ssa.Value, d int)
	walk = func(v ssa.Value, d int) {
		v = stripConv(v)
		if seen[v] || d > 20 {
			return
		}
		seen[v] = true
		switch x := v.(type) {
		case *ssa.Phi:
			for _, e := range x.Edges {
				walk(e, d+1)
			}
		case *ssa.BinOp:
			switch x.Op {
			case token.AND:
				walk(x.X, d+1)
				walk(x.Y, d+1)
			case token.AND_NOT:
				walk(x.X, d+1)
			default:
				out = append(out, v)
			}
		case *ssa.UnOp:
			if x.Op == token.SUB { // -x of the isolate
				walk(x.X, d+1)
				return
			}
			out = append(out, v)
		default:
			out = append(out, v)
		}
	}
	walk(v, 0)
	return out
}

// c09R5: a simulated capture removes the captured piece. Where the case analysis asks "is the
// piece that makes this capture pinned?", the captured piece must not count as a pinner:
//   - defenders taken from Attackers(V, …) capture V: the enemy set of both ray tests excludes V;
//   - a pawn capturing onto T = PawnCaptureMoves(piece) & enemy: the diagonal test (the only line a
//     pawn-capture victim can share with the pawn) excludes T.
//
// Otherwise "capture the pinner / the checker" is judged illegal and a position with that single
// legal move is called mate or stalemate.
func c09R5(c *Ctx, p *Prog) {
	const rule = "C09.R5"
	pcs := pieceConsts(p)
	var roots []*ssa.Function
	for _, spec := range []string{"board.(*Board).IsCheckmate", "board.(*Board).IsStalemate"} {
		if fn := p.Func(spec); fn != nil {
			roots = append(roots, fn)
		} else {
			c.Anchor(rule, spec)
		}
	}
	n := 0
	type ctx struct {
		fn   *ssa.Function // function the values are resolved in
		bind map[*ssa.Parameter]ssa.Value
		site ssa.CallInstruction
	}
	for _, fn := range p.closure(roots, func(f *ssa.Function) bool { return relPkg(fnPkgPath(f)) != "board" }) {
		if relPkg(fnPkgPath(fn)) != "board" {
			continue
		}
		isRoot := fn == roots[0] || (len(roots) > 1 && fn == roots[1])
		var ctxs []ctx
		if isRoot {
			ctxs = []ctx{{fn: fn}}
		} else {
			for _, r := range roots {
				allInstrs(r, func(in ssa.Instruction) {
					ci, ok := in.(ssa.CallInstruction)
					if !ok || ci.Common().StaticCallee() != fn {
						return
					}
					b := map[*ssa.Parameter]ssa.Value{}
					for i, par := range fn.Params {
						if i < len(ci.Common().Args) {
							b[par] = ci.Common().Args[i]
						}
					}
					ctxs = append(ctxs, ctx{fn: r, bind: b, site: ci})
				})
			}
		}
		ord := 0
		allInstrs(fn, func(in ssa.Instruction) {
			call, ok := in.(*ssa.Call)
			if !ok {
				return
			}
			f, ok := attackFns[objName(calleeObj(call))]
			if !ok || (f != "Bishop" && f != "Rook") {
				return
			}
			ks := kindsThroughParams(p, call.Call.Args[0], pcs)
			if len(ks) != 1 || ks[0] != "King" {
				return
			}
			pos, neg := andContext(call)
			hasSet := false
			for _, l := range pos {
				if _, ok := pureOrOfPieces(l, pcs); ok {
					hasSet = true
				}
			}
			if !hasSet {
				return
			}
			ord++
			for ci, cx := range ctxs {
				res := func(v ssa.Value) ssa.Value {
					if par, ok := v.(*ssa.Parameter); ok && cx.bind != nil {
						if a, ok := cx.bind[par]; ok {
							return a
						}
					}
					return v
				}
				// everything excluded from the attacker set in this context
				var excl []ssa.Value
				excl = append(excl, neg...)
				for _, l := range pos {
					var pp, nn []ssa.Value
					maskLeaves(res(l), &pp, &nn)
					excl = append(excl, nn...)
				}
				// the moving piece: what the occupancy argument removes
				occArg := res(call.Call.Args[1])
				var opos, oneg []ssa.Value
				maskLeaves(occArg, &opos, &oneg)
				// `(occ &^ piece) | targets`: look inside the or
				if bo, ok := stripConv(occArg).(*ssa.BinOp); ok && bo.Op == token.OR {
					maskLeaves(bo.X, &opos, &oneg)
					maskLeaves(bo.Y, &opos, &oneg)
				}
				var victims []ssa.Value
				how := ""
				for _, mv := range oneg {
					// (i) isolated bit of a set that comes from Attackers(V, …)
					for _, w := range setOrigins(mv) {
						if ac, ok := w.(*ssa.Call); ok && objName(calleeObj(ac)) == "board.(*Board).Attackers" {
							victims = append(victims, ac.Call.Args[1])
							how = "the capturers come from Attackers(V, …)"
						}
					}
					// (ii) a pawn-capture destination set of the same moving piece whose definition dominates this test
					if f == "Bishop" {
						var here ssa.Instruction = call
						if cx.site != nil {
							here = cx.site
						}
						allInstrs(cx.fn, func(in2 ssa.Instruction) {
							pc, ok := in2.(*ssa.Call)
							if !ok || objName(calleeObj(pc)) != "attacks.PawnCaptureMoves" || !sameValue(pc.Call.Args[0], mv, 0) {
								return
							}
							if !instrDominates(pc, here) {
								return
							}
							// the destination set: the capture pattern intersected with the enemy
							ppos, _ := andContext(pc)
							enemy := false
							for _, l := range ppos {
								for w := range backSlice(l, sliceOpts{}) {
									if ce, ok := coloursLoad(w); ok && ce == (colourExpr{"STM", true}) {
										enemy = true
									}
								}
							}
							if !enemy {
								return
							}
							// T is the value of the whole conjunction
							top := ssa.Value(pc)
							for {
								var nx ssa.Value
								if top.Referrers() != nil {
									for _, r := range *top.Referrers() {
										if bo, ok := r.(*ssa.BinOp); ok && (bo.Op == token.AND || (bo.Op == token.AND_NOT && bo.X == top)) {
											nx = bo
										}
									}
								}
								if nx == nil {
									break
								}
								top = nx
							}
							victims = append(victims, top)
							how = "the pawn captures onto T = PawnCaptureMoves(piece) & enemy"
						})
					}
				}
				if len(victims) == 0 {
					continue
				}
				n++
				key := fmt.Sprintf("%s#captured-cannot-pin:%s@%d", fnName(fn), f, ord)
				if len(ctxs) > 1 {
					key += fmt.Sprintf("/site%d", ci+1)
				}
				okAll := true
				for _, v := range victims {
					found := false
					for _, e := range excl {
						if sameValue(e, v, 0) {
							found = true
						}
						// excluded through a running `opp &= ^V` (phi)
					}
					if !found {
						okAll = false
					}
				}
				if okAll {
					c.Ok(rule, key, call.Pos(), "%s: the captured piece is excluded from the %s-ray pin test", how, f)
				} else {
					c.Fail(rule, key, call.Pos(), "%s, but the %s-ray test still counts the captured piece as a possible pinner: capturing the pinner/checker is judged illegal, so a position whose only legal move is that capture is called (stale)mate", how, f)
				}
			}
		})
	}
	c.Floor(rule, n, 2, "pin tests of simulated captures")
}

// c09R6: a two-step pawn push passes over the intermediate square, which must be empty of ALL
// pieces. Wherever a PawnSinglePushMoves result is pushed again, the first step is masked
// with the full occupancy (not one with pieces taken out for the simulation).
func c09R6(c *Ctx, p *Prog) {
	const rule = "C09.R6"
	n := 0
	for _, fn := range p.OwnFuncs() {
		if relPkg(fnPkgPath(fn)) != "board" {
			continue
		}
		ord := 0
		allInstrs(fn, func(in ssa.Instruction) {
			p2, ok := in.(*ssa.Call)
			if !ok || objName(calleeObj(p2)) != "attacks.PawnSinglePushMoves" {
				return
			}
			// is the argument itself built from a push?
			var pos, neg []ssa.Value
			var collect func(v ssa.Value, depth int)
			seen := map[ssa.Value]bool{}
			var inner *ssa.Call
			collect = func(v ssa.Value, depth int) {
				v = stripConv(v)
				if seen[v] || depth > 8 {
					return
				}
				seen[v] = true
				var pp, nn []ssa.Value
				maskLeaves(v, &pp, &nn)
				neg = append(neg, nn...)
				for _, l := range pp {
					if cl, ok := l.(*ssa.Call); ok && objName(calleeObj(cl)) == "attacks.PawnSinglePushMoves" {
						inner = cl
						continue
					}
					if bo, ok := l.(*ssa.BinOp); ok && (bo.Op == token.AND || bo.Op == token.AND_NOT) {
						collect(l, depth+1)
						continue
					}
					pos = append(pos, l)
				}
			}
			collect(p2.Call.Args[0], 0)
			if inner == nil {
				return
			}
			ord++
			n++
			key := fmt.Sprintf("%s#double-step@%d", fnName(fn), ord)
			full, reduced := false, ""
			for _, e := range neg {
				if isFullOccupancy(e) {
					full = true
					continue
				}
				for w := range backSlice(e, sliceOpts{}) {
					if isFullOccupancy(w) {
						reduced = p.Rel(e.Pos())
					}
				}
			}
			switch {
			case full:
				c.Ok(rule, key, p2.Pos(), "the square passed over by the double step is tested against the full occupancy")
			case reduced != "":
				c.Fail(rule, key, p2.Pos(), "the square passed over by the double step is tested against an occupancy with pieces taken out (%s): a pawn is found able to jump over a piece of its own side", reduced)
			default:
				c.Undec(rule, key, p2.Pos(), "no emptiness test of the square passed over by the double step recognised")
			}
		})
	}
	c.Floor(rule, n, 1, "two-step pawn push compositions")
}

// c09R7: Attackers and Block answer "which pieces can reach these squares" as a union over piece
// kinds. Every attack/push pattern the function computes must flow into every value it returns
// (an early return before the pawn section silently drops pawn interpositions).
func c09R7(c *Ctx, p *Prog) {
	const rule = "C09.R7"
	n := 0
	isBB := func(t types.Type) bool {
		nm, ok := types.Unalias(t).(*types.Named)
		return ok && nm.Obj().Name() == "BitBoard"
	}
	for _, spec := range []string{"board.(*Board).Attackers", "board.(*Board).Block"} {
		fn := p.Func(spec)
		if fn == nil {
			c.Anchor(rule, spec)
			continue
		}
		if fn.Signature.Results().Len() != 1 || !isBB(fn.Signature.Results().At(0).Type()) {
			c.Undec(rule, spec+"#union", fn.Pos(), "does not return a single bitboard")
			continue
		}
		var pats []*ssa.Call
		allInstrs(fn, func(in ssa.Instruction) {
			if call, ok := in.(*ssa.Call); ok {
				nm := objName(calleeObj(call))
				if _, isAtt := attackFns[nm]; isAtt || nm == "attacks.PawnSinglePushMoves" {
					pats = append(pats, call)
				}
			}
		})
		ord := 0
		allInstrs(fn, func(in ssa.Instruction) {
			ret, ok := in.(*ssa.Return)
			if !ok || ret.Block() == fn.Recover {
				return
			}
			v := returnedValue(ret, 0)
			if _, isC := stripConv(v).(*ssa.Const); isC {
				return
			}
			ord++
			n++
			sl := backSlice(v, sliceOpts{ThroughCalls: true})
			missing := ""
			for _, pc := range pats {
				if !sl[pc] {
					missing = fmt.Sprintf("%s (%s)", calleeObj(pc).Name(), p.Rel(pc.Pos()))
				}
			}
			key := fmt.Sprintf("%s#union@%d", spec, ord)
			if missing == "" {
				c.Ok(rule, key, ret.Pos(), "all %d attack/push patterns computed by the function flow into the returned set", len(pats))
			} else {
				c.Fail(rule, key, ret.Pos(), "the set returned here does not include the pattern %s computed elsewhere in the function: pieces of that kind are silently missing from the answer on this path", missing)
			}
		})
	}
	c.Floor(rule, n, 2, "returns of Attackers/Block")
}

// c09R8: the simulated occupancy of a pawn move contains the square the pawn lands on whenever
// that square was empty before: a push onto T = PawnSinglePushMoves(piece) (the pawn stays on its
// file and keeps a file pin closed) and an en-passant capture (two pawns leave, the capturer lands
// on the empty target square).
func c09R8(c *Ctx, p *Prog) {
	const rule = "C09.R8"
	pcs := pieceConsts(p)
	n := 0
	for _, spec := range []string{"board.(*Board).IsCheckmate", "board.(*Board).IsStalemate"} {
		fn := p.Func(spec)
		if fn == nil {
			c.Anchor(rule, spec)
			continue
		}
		ord := 0
		done := map[ssa.Value]bool{}
		allInstrs(fn, func(in ssa.Instruction) {
			call, ok := in.(*ssa.Call)
			if !ok {
				return
			}
			f, ok := attackFns[objName(calleeObj(call))]
			if !ok || (f != "Bishop" && f != "Rook") {
				return
			}
			ks := sourceKinds(call.Call.Args[0], pcs)
			if len(ks) != 1 || ks[0] != "King" {
				return
			}
			occArg := stripConv(call.Call.Args[1])
			if done[occArg] {
				return
			}
			// split a top-level or into base and additions
			var adds []ssa.Value
			base := occArg
			for {
				bo, ok := base.(*ssa.BinOp)
				if !ok || bo.Op != token.OR {
					break
				}
				// the side that carries removals is the base
				var pp, nn []ssa.Value
				maskLeaves(bo.X, &pp, &nn)
				if len(nn) > 0 {
					adds = append(adds, bo.Y)
					base = stripConv(bo.X)
				} else {
					adds = append(adds, bo.X)
					base = stripConv(bo.Y)
				}
			}
			var pos, neg []ssa.Value
			maskLeaves(base, &pos, &neg)
			if len(neg) == 0 {
				return
			}
			need, why := false, ""
			// (a) en passant: one of the removed sets is the pawn behind the en-passant square
			for _, x := range neg {
				for w := range backSlice(x, sliceOpts{}) {
					if pc, ok := w.(*ssa.Call); ok && objName(calleeObj(pc)) == "attacks.PawnSinglePushMoves" && len(neg) >= 2 {
						for u := range backSlice(pc.Call.Args[0], sliceOpts{ThroughLoads: true}) {
							if isFieldLoad(u, "Board.EnPassant") {
								need, why = true, "an en-passant capture removes two pawns and lands on the empty target square"
							}
						}
					}
				}
			}
			// (b) push: a push-target set of the moving pawn was computed before this test
			var pushT *ssa.Call
			for _, x := range neg {
				for _, pc := range callsIn(fn, "attacks.PawnSinglePushMoves") {
					pcall := pc.(*ssa.Call)
					if sameValue(pcall.Call.Args[0], x, 0) && instrDominates(pcall, call) {
						// the latest such definition that is not followed by a capture-target definition of the same piece
						later := false
						for _, cc := range callsIn(fn, "attacks.PawnCaptureMoves") {
							ccall := cc.(*ssa.Call)
							if sameValue(ccall.Call.Args[0], x, 0) && instrDominates(pcall, ccall) && instrDominates(ccall, call) {
								later = true
							}
						}
						if !later {
							pushT = pcall
						}
					}
				}
			}
			if pushT != nil {
				need, why = true, "a pawn push lands on an empty square of the pawn's own file"
			}
			if !need {
				return
			}
			done[occArg] = true
			ord++
			n++
			key := fmt.Sprintf("%s#landing-square@%d", spec, ord)
			okAdd := len(adds) > 0
			if okAdd && pushT != nil {
				okAdd = false
				for _, a := range adds {
					if backSlice(a, sliceOpts{})[pushT] {
						okAdd = true
					}
				}
			}
			if okAdd {
				c.Ok(rule, key, call.Pos(), "%s: the simulated occupancy adds the landing square", why)
			} else {
				c.Fail(rule, key, call.Pos(), "%s, but the simulated occupancy only removes pieces: a line that the pawn keeps closed after the move is seen as open and the legal move is judged illegal", why)
			}
		})
	}
	c.Floor(rule, n, 2, "pawn-move simulations with an empty landing square")
}
