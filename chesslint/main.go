// chesslint decides structural necessary conditions of the chess-3 properties
// C01..C20 from /repo's current source. It never executes chess-3 code.
//
//	chesslint check <ID> [--tier quick|thorough]
//	chesslint explain <finding.json>
//	chesslint list
package main

import (
	"encoding/json"
	"fmt"
	"os"
	"runtime/debug"
	"sort"
	"strconv"
	"time"
)

// Property is the registration of one property's rules.
type Property struct {
	ID      string
	Explain string
	Assume  []string
	Run     func(c *Ctx)
}

var registry = map[string]*Property{}

func register(p *Property) { registry[p.ID] = p }

func usage() {
	fmt.Fprintln(os.Stderr, "usage: chesslint check <ID> [--tier quick|thorough] | explain <finding.json> | list | mutants [ID]")
	os.Exit(2)
}

func main() {
	// go/packages looks `go` up through this process's PATH: put the
	// pre-installed toolchain that can load /repo first.
	if _, err := os.Stat(goBin + "/go"); err == nil {
		os.Setenv("PATH", goBin+":"+os.Getenv("PATH"))
	}
	if len(os.Args) < 2 {
		usage()
	}
	switch os.Args[1] {
	case "list":
		ids := make([]string, 0, len(registry))
		for id := range registry {
			ids = append(ids, id)
		}
		sort.Strings(ids)
		for _, id := range ids {
			fmt.Println(id)
		}
	case "check":
		if len(os.Args) < 3 {
			usage()
		}
		id := os.Args[2]
		tier := os.Getenv("VERIF_TIER")
		mutant := ""
		for i := 3; i < len(os.Args); i++ {
			switch os.Args[i] {
			case "--tier":
				if i+1 < len(os.Args) {
					tier = os.Args[i+1]
					i++
				}
			case "--mutant":
				if i+1 < len(os.Args) {
					mutant = os.Args[i+1]
					i++
				}
			}
		}
		if tier != "thorough" {
			tier = "quick"
		}
		os.Exit(runCheck(id, tier, mutant))
	case "checkall":
		// developer aid (corpus regressions): all properties on one load of the program, rules only (no mutant
		// controls); one line per property plus its non-ok obligations. The registered commands use `check`.
		tier := "quick"
		if len(os.Args) > 3 && os.Args[2] == "--tier" {
			tier = os.Args[3]
		}
		ids := make([]string, 0, len(registry))
		for id := range registry {
			ids = append(ids, id)
		}
		sort.Strings(ids)
		progs := NewProgs()
		rc := 0
		for _, id := range ids {
			c := runProperty(registry[id], tier, progs)
			if c.Finish() != 0 {
				rc = 1
			}
		}
		os.Exit(rc)
	case "explain":
		if len(os.Args) < 3 {
			usage()
		}
		os.Exit(explain(os.Args[2]))
	case "selftest":
		// developer aid: run every mutant of a property (or all) and print its status
		rc := 0
		for _, m := range mutants {
			if len(os.Args) > 2 && m.Prop != os.Args[2] {
				continue
			}
			r, msg := evalMutant(registry[m.Prop], m)
			st := map[int]string{mutFired: "FIRED", mutBlind: "BLIND", mutSkipped: "SKIPPED", mutBroken: "BROKEN"}[r]
			fmt.Printf("%-8s %s: %s\n", st, m.Name, firstLine(msg))
			if r != mutFired {
				rc = 1
			}
		}
		os.Exit(rc)
	case "mutants":
		id := ""
		if len(os.Args) > 2 {
			id = os.Args[2]
		}
		os.Exit(listMutants(id))
	default:
		usage()
	}
}

func seed() int64 {
	if s := os.Getenv("VERIF_SEED"); s != "" {
		if v, err := strconv.ParseInt(s, 10, 64); err == nil {
			return v
		}
	}
	return 0
}

// runProperty runs the rules of one property against the given program set and
// returns the context (without finishing it). Panics in rules become undecided
// obligations: an analysis crash is a failed check, never a silent pass.
func runProperty(p *Property, tier string, progs *Progs) *Ctx {
	c := &Ctx{Prop: p.ID, Tier: tier, Seed: seed(), Progs: progs, Explain: p.Explain, Assume: append([]string{}, p.Assume...), start: time.Now()}
	func() {
		defer func() {
			if r := recover(); r != nil {
				c.cur = nil
				c.add("internal", "panic", 0, Undecided, false, "analysis panicked: %v\n%s", r, debug.Stack())
			}
		}()
		p.Run(c)
	}()
	return c
}

func runCheck(id, tier, mutant string) int {
	p := registry[id]
	if p == nil {
		fmt.Fprintf(os.Stderr, "unknown property %q\n", id)
		return 2
	}
	if mutant != "" {
		return runOneMutant(p, mutant)
	}
	progs := NewProgs()
	c := runProperty(p, tier, progs)
	runControls(c, p)
	return c.Finish()
}

// need loads a configuration or records the failure as an undecided obligation.
func (c *Ctx) need(cfg string) *Prog {
	p, err := c.Progs.Get(cfg)
	if err != nil {
		c.cur = nil
		c.add("load", "config:"+cfg, 0, Undecided, false, "%v", err)
		return nil
	}
	c.Use(p)
	return p
}

func explain(path string) int {
	b, err := os.ReadFile(path)
	if err != nil {
		fmt.Fprintln(os.Stderr, err)
		return 2
	}
	var f struct {
		Property   string `json:"property"`
		Obligation Ob     `json:"obligation"`
	}
	if err := json.Unmarshal(b, &f); err != nil {
		fmt.Fprintln(os.Stderr, err)
		return 2
	}
	p := registry[f.Property]
	if p == nil {
		fmt.Fprintf(os.Stderr, "unknown property %q\n", f.Property)
		return 2
	}
	fmt.Printf("recorded: [%s] %s at %s: %s (%s)\n", f.Obligation.Rule, f.Obligation.Construct, f.Obligation.Pos, f.Obligation.Detail, f.Obligation.Verdict)
	c := runProperty(p, "quick", NewProgs())
	found := false
	rc := 0
	for _, o := range c.Obs {
		if o.Key() == f.Obligation.Key() {
			found = true
			fmt.Printf("current tree: [%s] %s at %s: %s (%s)\n", o.Rule, o.Construct, o.Pos, o.Detail, o.Verdict)
			if o.Verdict != OK {
				rc = 1
			}
		}
	}
	if !found {
		fmt.Println("current tree: obligation no longer instantiated")
	}
	return rc
}
