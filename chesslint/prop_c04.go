package main

import (
	"fmt"
	"go/token"
	"go/types"
	"sort"
	"strings"

	"golang.org/x/tools/go/ssa"
)

func init() {
	register(&Property{
		ID: "C04",
		Explain: "Static necessary conditions for 'incremental hash and redundant board representations never drift'. " +
			"R1: SquaresToPiece, Pieces and Colors are stored only by addPiece, removePiece, the FEN placement parser and ParseFEN's whole-struct reset, in every loaded package; addPiece/removePiece update all three in lock-step from the same (colour, piece, square) and return the Zobrist key of that triple. " +
			"R2: in every function that appends to the hash history, the result of every addPiece/removePiece call flows by xor into the appended value. " +
			"R3: every toggle of side to move, en-passant file and castling bit in MakeMove/MakeNullMove is accompanied by the matching Zobrist xor with consistent indices. " +
			"R4: calculateHash and the incremental update read the same tables with the same index roles. R5: the Zobrist tables are written only during package initialisation. " +
			"Not decided: value equality of hashes for concrete move sequences (xor algebra is not mechanised).",
		Assume: []string{"field effects attributed by declared struct type", "no reflect/unsafe writes to Board (audited: none in package board)"},
		Run:    runC04,
	})
}

func runC04(c *Ctx) {
	p := c.need("default")
	if p == nil {
		return
	}
	c04R1(c, p, "C04.R1")
	c04R2(c, p, "C04.R2")
	c04R3(c, p, "C04.R3")
	c04R4(c, p, "C04.R4")
	c04R5(c, p, "C04.R5")
	c04R8(c, p, "C04.R8")
	epNullRule(c, p, "C04.R9.ep-null")
	// the en-passant key is part of the hash: whether the square is recorded (and hashed) is decided by CanEnPassant
	c02R2(c, p, "C04.R6.ep-recorded")
	c02R7(c, p, "C04.R6.ep-capturable")
	// Castles / EnPassant are restored from the undo token and the hash is popped: a corrupted token field
	// leaves rights on the board that the popped hash does not describe
	c.As("C03.R8", "C04.R7.undo-token", func() { c03R8(c, p) })
}

var placementWriters = map[string]string{
	"board.(*Board).addPiece":     "the one place that sets a piece in all three encodings",
	"board.(*Board).removePiece":  "the one place that clears a piece in all three encodings",
	"board.(*fenParser).position": "FEN placement parser fills an empty board",
	"board.ParseFEN":              "whole-struct reset before parsing",
	"board.FromFEN":               "zero-value construction of a fresh board",
}

// c04R1: single-writer discipline + lock-step shape of addPiece/removePiece.
func c04R1(c *Ctx, p *Prog, rule string) {
	n := 0
	for _, f := range []string{"board.Board.SquaresToPiece", "board.Board.Pieces", "board.Board.Colors"} {
		ws := p.writersOf(f)
		for _, w := range sortedKeys(ws) {
			base := strings.TrimSuffix(w, "#escape")
			s := ws[w][0]
			if why, ok := placementWriters[base]; ok && !strings.HasSuffix(w, "#escape") {
				c.Ok(rule, "writer:"+f+"@"+w, s.Pos, "%s stores %s: %s", w, f, why)
				n++
				continue
			}
			if strings.HasSuffix(w, "#escape") {
				c.Fail(rule, "writer:"+f+"@"+w, s.Pos, "address of %s escapes in %s (%s): a party other than addPiece/removePiece may write one encoding without the others", f, base, s.What)
			} else {
				c.Fail(rule, "writer:"+f+"@"+w, s.Pos, "%s stores %s outside addPiece/removePiece/FEN parser: the three board encodings (and the hash) can drift", base, f)
			}
		}
	}
	c.Floor(rule+".writers", n, 8, "allowed (field, writer) pairs")
	// lock-step shape
	for _, spec := range []string{"board.(*Board).addPiece", "board.(*Board).removePiece"} {
		fn := p.Func(spec)
		if fn == nil {
			c.Anchor(rule, spec)
			continue
		}
		lockStep(c, rule, fn, spec)
	}
}

// lockStep: fn(c,p,sq) stores Colors[c], Pieces[p], SquaresToPiece[sq] — all
// three, indexed by its own parameters, mask built from sq — on every path
// that does not return early under p == NoPiece, and returns piecesRand[c][p][sq].
func lockStep(c *Ctx, rule string, fn *ssa.Function, spec string) {
	if len(fn.Params) != 4 {
		c.Undec(rule, spec+"#shape", fn.Pos(), "expected (b, c, p, sq) parameters")
		return
	}
	pc, pp, psq := fn.Params[1], fn.Params[2], fn.Params[3]
	want := map[string]ssa.Value{"Colors": pc, "Pieces": pp, "SquaresToPiece": psq}
	got := map[string]bool{}
	set := strings.HasSuffix(spec, "addPiece")
	allInstrs(fn, func(in ssa.Instruction) {
		st, ok := in.(*ssa.Store)
		if !ok {
			return
		}
		ia, ok := st.Addr.(*ssa.IndexAddr)
		if !ok {
			return
		}
		fr, ok := asFieldAddr(ia.X)
		if !ok || fr.Struct == nil || fr.Struct.Obj().Name() != "Board" {
			return
		}
		name := fr.Field.Name()
		idx := stripConv(ia.Index)
		if w, ok := want[name]; ok {
			if idx != w {
				c.Fail(rule, spec+"#index:"+name, st.Pos(), "%s indexes %s with something other than its own parameter %s", spec, name, w.Name())
				return
			}
			// value shape
			switch name {
			case "SquaresToPiece":
				if set {
					if stripConv(st.Val) != pp {
						c.Fail(rule, spec+"#value:"+name, st.Pos(), "addPiece must store its piece parameter into SquaresToPiece[sq]")
						return
					}
				} else if v, ok := constOf(st.Val); !ok || v != 0 {
					c.Fail(rule, spec+"#value:"+name, st.Pos(), "removePiece must store NoPiece into SquaresToPiece[sq]")
					return
				}
			default:
				// old |/&^ (1<<sq): check the op and that the mask is a shift by sq
				bo, ok := st.Val.(*ssa.BinOp)
				okShape := false
				if ok {
					mask := bo.Y
					if set && bo.Op == token.OR {
						okShape = isOneShl(mask, psq)
					} else if !set && bo.Op == token.AND_NOT {
						okShape = isOneShl(mask, psq)
					} else if !set && bo.Op == token.AND {
						if u, ok := mask.(*ssa.UnOp); ok && u.Op == token.XOR {
							okShape = isOneShl(u.X, psq)
						}
					}
					// the old value must be a load of the same element
					if l, ok := bo.X.(*ssa.UnOp); !ok || l.Op != token.MUL || !sameValue(l.X, ia, 0) {
						okShape = false
					}
				}
				if !okShape {
					c.Fail(rule, spec+"#value:"+name, st.Pos(), "%s must %s bit (1<<sq) in %s[%s]", spec, map[bool]string{true: "set", false: "clear"}[set], name, want[name].Name())
					return
				}
			}
			got[name] = true
			c.Ok(rule, spec+"#store:"+name, st.Pos(), "%s[%s] updated from the function's own parameters", name, w.Name())
		}
	})
	for _, name := range []string{"Colors", "Pieces", "SquaresToPiece"} {
		if !got[name] {
			c.Fail(rule, spec+"#store:"+name, fn.Pos(), "%s does not update %s: the encodings drift", spec, name)
		}
	}
	// all three stores are in the same basic block (lock-step: no path updates a subset)
	blocks := map[int]bool{}
	allInstrs(fn, func(in ssa.Instruction) {
		if st, ok := in.(*ssa.Store); ok {
			if ia, ok := st.Addr.(*ssa.IndexAddr); ok {
				if fr, ok := asFieldAddr(ia.X); ok && want[fr.Field.Name()] != nil {
					blocks[st.Block().Index] = true
				}
			}
		}
	})
	c.Check(len(blocks) == 1, rule, spec+"#same-block", fn.Pos(), "the three stores execute together on every path (blocks: %d)", len(blocks))
	// returns: piecesRand[c][p][sq] or constant 0 under p == NoPiece
	allInstrs(fn, func(in ssa.Instruction) {
		ret, ok := in.(*ssa.Return)
		if !ok || len(ret.Results) != 1 {
			return
		}
		r := ret.Results[0]
		if v, ok := constOf(r); ok && v == 0 {
			// must be guarded by p == 0
			guarded := false
			for _, ce := range controllingConds(ret.Block()) {
				if bo, ok := ce.Cond.(*ssa.BinOp); ok && ce.True && bo.Op == token.EQL && stripConv(bo.X) == pp {
					if v, ok := constOf(bo.Y); ok && v == 0 {
						guarded = true
					}
				}
			}
			c.Check(guarded, rule, spec+"#return-zero", ret.Pos(), "zero hash delta is returned only under piece == NoPiece")
			return
		}
		okRet := false
		if l, ok := r.(*ssa.UnOp); ok && l.Op == token.MUL {
			if i3, ok := l.X.(*ssa.IndexAddr); ok && stripConv(i3.Index) == psq {
				if i2, ok := i3.X.(*ssa.IndexAddr); ok && stripConv(i2.Index) == pp {
					if i1, ok := i2.X.(*ssa.IndexAddr); ok && stripConv(i1.Index) == pc {
						if g, ok := i1.X.(*ssa.Global); ok && g.Name() == "piecesRand" {
							okRet = true
						}
					}
				}
			}
		}
		c.Check(okRet, rule, spec+"#return-key", ret.Pos(), "returns piecesRand[c][p][sq] of its own (c, p, sq)")
	})
}

func isOneShl(v ssa.Value, sq ssa.Value) bool {
	bo, ok := stripConv(v).(*ssa.BinOp)
	if !ok || bo.Op != token.SHL {
		return false
	}
	one, ok := constOf(bo.X)
	return ok && one == 1 && stripConv(bo.Y) == sq
}

// hashAppends finds `b.hashes = append(b.hashes, v)` in fn and returns v.
func hashAppends(fn *ssa.Function) []struct {
	Val ssa.Value
	In  ssa.Instruction
} {
	var out []struct {
		Val ssa.Value
		In  ssa.Instruction
	}
	allInstrs(fn, func(in ssa.Instruction) {
		call, ok := in.(*ssa.Call)
		if !ok {
			return
		}
		bi, ok := call.Call.Value.(*ssa.Builtin)
		if !ok || bi.Name() != "append" || len(call.Call.Args) != 2 {
			return
		}
		// first arg is a load of Board.hashes
		if !isFieldLoad(call.Call.Args[0], "Board.hashes") {
			return
		}
		// second arg: slice of a 1-element array alloc holding the value (varargs)
		val := appendedValue(call.Call.Args[1])
		out = append(out, struct {
			Val ssa.Value
			In  ssa.Instruction
		}{val, in})
	})
	return out
}

// appendedValue extracts v from the SSA of append(s, v): a Slice of a new [1]T
// whose element 0 was stored with v.
func appendedValue(arg ssa.Value) ssa.Value {
	sl, ok := arg.(*ssa.Slice)
	if !ok {
		return nil
	}
	al, ok := sl.X.(*ssa.Alloc)
	if !ok || al.Referrers() == nil {
		return nil
	}
	for _, r := range *al.Referrers() {
		if ia, ok := r.(*ssa.IndexAddr); ok && ia.Referrers() != nil {
			for _, rr := range *ia.Referrers() {
				if st, ok := rr.(*ssa.Store); ok && st.Addr == ia {
					return st.Val
				}
			}
		}
	}
	return nil
}

// xorTerms flattens an xor-tree (through phis) into its leaf terms.
func xorTerms(v ssa.Value, seen map[ssa.Value]bool, out *[]ssa.Value) {
	if v == nil || seen[v] {
		return
	}
	seen[v] = true
	switch x := v.(type) {
	case *ssa.BinOp:
		if x.Op == token.XOR {
			xorTerms(x.X, seen, out)
			xorTerms(x.Y, seen, out)
			return
		}
	case *ssa.Phi:
		for _, e := range x.Edges {
			xorTerms(e, seen, out)
		}
		return
	}
	*out = append(*out, v)
}

// c04R2: no dropped hash delta.
func c04R2(c *Ctx, p *Prog, rule string) {
	total := 0
	for _, spec := range []string{"board.(*Board).MakeMove", "board.(*Board).MakeNullMove"} {
		fn := p.Func(spec)
		if fn == nil {
			c.Anchor(rule, spec)
			continue
		}
		apps := hashAppends(fn)
		if len(apps) != 1 || apps[0].Val == nil {
			c.Undec(rule, spec+"#append", fn.Pos(), "expected exactly one `hashes = append(hashes, v)`; found %d", len(apps))
			continue
		}
		var terms []ssa.Value
		xorTerms(apps[0].Val, map[ssa.Value]bool{}, &terms)
		inTerms := map[ssa.Value]bool{}
		for _, t := range terms {
			inTerms[t] = true
		}
		k := 0
		for _, callee := range []string{"board.(*Board).addPiece", "board.(*Board).removePiece"} {
			for _, ci := range callsIn(fn, callee) {
				k++
				v, _ := ci.(ssa.Value)
				name := fmt.Sprintf("%s#%s@%d", spec, callee[strings.LastIndex(callee, ".")+1:], k)
				if v != nil && inTerms[v] {
					c.Ok(rule, name, ci.Pos(), "hash delta of this call is xor-ed into the value appended to the hash history")
				} else {
					c.Fail(rule, name, ci.Pos(), "result of %s is dropped: the incrementally maintained hash no longer reflects this placement change", callee)
				}
				total++
			}
		}
		// the base of the xor chain is the previous hash
		base := false
		for _, t := range terms {
			if isCallValueTo(t, "board.(*Board).Hash") {
				base = true
			}
			if l, ok := t.(*ssa.UnOp); ok && l.Op == token.MUL {
				if ia, ok := l.X.(*ssa.IndexAddr); ok && isFieldLoad(ia.X, "Board.hashes") {
					base = true
				}
			}
		}
		c.Check(base, rule, spec+"#base", apps[0].In.Pos(), "the appended hash is derived from the previous top of the hash history")
	}
	// nobody else calls addPiece/removePiece while ignoring the hash except the undo functions
	for _, fn := range p.OwnFuncs() {
		name := fnName(fn)
		if name == "board.(*Board).MakeMove" || name == "board.(*Board).MakeNullMove" {
			continue
		}
		n := len(callsIn(fn, "board.(*Board).addPiece")) + len(callsIn(fn, "board.(*Board).removePiece"))
		if n == 0 {
			continue
		}
		if name == "board.(*Board).UndoMove" {
			// the undo pops the history instead
			c.Ok(rule, name+"#pops", fn.Pos(), "%d placement changes in UndoMove are covered by popping the hash history (C03.R4)", n)
			continue
		}
		c.Fail(rule, name+"#placement-change", fn.Pos(), "%s changes the placement through addPiece/removePiece but is neither MakeMove nor UndoMove: the hash history is not updated", name)
	}
	c.Floor(rule, total, 3, "addPiece/removePiece calls feeding the hash")
}

// c04R5: Zobrist tables written only during initialisation.
func c04R5(c *Ctx, p *Prog, rule string) {
	n := 0
	for _, g := range []string{"board.piecesRand", "board.stmRand", "board.castlingRand", "board.epFileRand", "board.hashEnable"} {
		if !p.hasGlobal(g) {
			if g == "board.hashEnable" {
				continue // an implementation detail of the branch-free toggles, not a key table
			}
			c.Anchor(rule, g)
			continue
		}
		out := p.nonInitGlobalWriters(g)
		c.Check(len(out) == 0, rule, "immutable:"+g, p.globalPos(g), "%s has no writer outside package initialisation %v", g, out)
		n++
	}
	c.Floor(rule, n, 4, "Zobrist tables")
}

func (p *Prog) hasGlobal(name string) bool {
	i := strings.LastIndex(name, ".")
	pk := p.SSAPkg(name[:i])
	if pk == nil {
		return false
	}
	_, ok := pk.Members[name[i+1:]].(*ssa.Global)
	return ok
}

func (p *Prog) globalPos(name string) token.Pos {
	i := strings.LastIndex(name, ".")
	pk := p.SSAPkg(name[:i])
	if pk == nil {
		return token.NoPos
	}
	if g, ok := pk.Members[name[i+1:]].(*ssa.Global); ok {
		return g.Pos()
	}
	return token.NoPos
}

var _ = sort.Strings

func fieldStores(fn *ssa.Function, name string) []*ssa.Store {
	var out []*ssa.Store
	allInstrs(fn, func(in ssa.Instruction) {
		if st, ok := in.(*ssa.Store); ok {
			if fa, ok := st.Addr.(*ssa.FieldAddr); ok {
				if fr, ok := asFieldAddr(fa); ok && fr.Name() == name {
					out = append(out, st)
				}
			}
		}
	})
	return out
}

func blockDomOrSame(a, b *ssa.BasicBlock) bool { return a == b || a.Dominates(b) }

// c04R3: paired toggles in MakeMove / MakeNullMove.
func c04R3(c *Ctx, p *Prog, rule string) {
	for _, spec := range []string{"board.(*Board).MakeMove", "board.(*Board).MakeNullMove"} {
		fn := p.Func(spec)
		if fn == nil {
			c.Anchor(rule, spec)
			continue
		}
		apps := hashAppends(fn)
		if len(apps) != 1 || apps[0].Val == nil {
			c.Undec(rule, spec+"#append", fn.Pos(), "expected exactly one append to the hash history")
			continue
		}
		app := apps[0].In
		terms := collectXorTerms(apps[0].Val)
		byKind := map[string][]hashTerm{}
		for _, t := range terms {
			if t.Kind == "unknown" {
				if call, ok := t.Val.(*ssa.Call); ok {
					if callee := call.Call.StaticCallee(); callee != nil && isOwn(callee) && relPkg(fnPkgPath(callee)) == "board" && callee.Blocks != nil {
						t.Kind = "unknown-call"
					}
				}
			}
			byKind[t.Kind] = append(byKind[t.Kind], t)
			if t.Kind == "unknown" {
				c.Undec(rule, spec+"#term", t.Val.Pos(), "unrecognised term %s in the appended hash: not a Zobrist table entry, piece delta or the previous hash", t.Val)
			}
		}
		// --- side to move
		{
			upd, plain := selfUpdates(p, fn, "Board.STM")
			nTerm := len(byKind["stm"])
			pos := fn.Pos()
			if len(upd) > 0 {
				pos = upd[0].site.Pos()
			}
			key := spec + "#stm"
			switch {
			case plain > 0 || len(upd) > 1 || (len(upd) == 1 && upd[0].op != "flip"):
				c.Undec(rule, key, pos, "the side to move is assigned in a form that is not a single flip (flips: %d, other stores: %d)", len(upd), plain)
			case len(upd) == 0 && nTerm == 0:
				c.Fail(rule, key, pos, "the side to move is never flipped and stmRand never xor-ed")
			case len(upd) == 0:
				c.Fail(rule, key, pos, "stmRand is xor-ed into the hash but the side to move is not flipped")
			case nTerm != 1:
				c.Fail(rule, key, pos, "the side to move is flipped once but stmRand is xor-ed %d times: the hash no longer tells the side to move", nTerm)
			default:
				u := upd[0]
				t := byKind["stm"][0]
				once := !u.cond && onEveryPathOnce(fn, u.site) && blockDomOrSame(u.site.Block(), app.Block())
				termOK := t.Xor != nil && blockDomOrSame(t.Xor.Block(), app.Block()) && len(t.Idx) == 0 && t.Enable == nil
				c.Check(once && termOK, rule, key, pos, "side to move is flipped exactly once on every path and stmRand is xor-ed exactly once, unconditionally (flip unconditional: %v, key unconditional: %v)", once, termOK)
			}
		}

		// --- castling
		cast := fieldStores(fn, "Board.Castles")
		if len(cast) == 0 {
			c.Check(len(byKind["castling"]) == 0, rule, spec+"#castling", fn.Pos(), "no store to Castles and no castlingRand term")
		} else if len(cast) != 1 {
			c.Undec(rule, spec+"#castling", cast[0].Pos(), "%d stores to Castles; rule handles exactly one", len(cast))
		} else {
			st := cast[0]
			var delta ssa.Value
			if bo, ok := st.Val.(*ssa.BinOp); ok && bo.Op == token.XOR {
				if isFieldLoad(bo.X, "Board.Castles") {
					delta = bo.Y
				} else if isFieldLoad(bo.Y, "Board.Castles") {
					delta = bo.X
				}
			}
			if delta == nil {
				// direct form: b.Castles = new ; delta must be old ^ new somewhere among the bit tests
				c.Undec(rule, spec+"#castling-delta", st.Pos(), "store to Castles is not `Castles ^= delta`; cannot identify the delta")
			} else {
				// delta = old ^ NewCastles(m)
				dok := false
				if bo, ok := delta.(*ssa.BinOp); ok && bo.Op == token.XOR {
					for _, pr := range [][2]ssa.Value{{bo.X, bo.Y}, {bo.Y, bo.X}} {
						if isFieldLoad(pr[0], "Board.Castles") && isCallValueTo(pr[1], "board.(*Board).NewCastles") {
							dok = true
						}
					}
				}
				c.Check(dok, rule, spec+"#castling-delta", st.Pos(), "castling delta is (old rights) xor NewCastles(m)")
				n := arrayLenOfGlobal(p, "board.castlingRand")
				seen := map[int64]bool{}
				castlingTerms(c, p, rule, spec, byKind["castling"], delta, app, n, seen, 0)
				// helpers: a term that is a call to a board function returning the accumulated keys for a delta
				for _, t := range byKind["unknown-call"] {
					call := t.Val.(*ssa.Call)
					callee := call.Call.StaticCallee()
					var dparam ssa.Value
					for i, a := range call.Call.Args {
						if sameValue(stripConv(a), delta, 0) && i < len(callee.Params) {
							dparam = callee.Params[i]
						}
					}
					if dparam == nil {
						continue
					}
					var ret *ssa.Return
					allInstrs(callee, func(in ssa.Instruction) {
						if r, ok := in.(*ssa.Return); ok {
							ret = r
						}
					})
					if ret == nil || len(ret.Results) != 1 {
						continue
					}
					var inner []hashTerm
					okInner := true
					for _, it := range collectXorTerms(returnedValue(ret, 0)) {
						switch it.Kind {
						case "castling":
							inner = append(inner, it)
						case "base":
						default:
							okInner = false
						}
					}
					if okInner && len(inner) > 0 && (t.Xor == nil || blockDomOrSame(t.Xor.Block(), app.Block())) {
						castlingTerms(c, p, rule, spec, inner, dparam, nil, n, seen, 1)
					}
				}
				for i := 0; i < n; i++ {
					if !seen[int64(i)] {
						c.Fail(rule, fmt.Sprintf("%s#castlingRand[%d]", spec, i), st.Pos(), "no correctly gated xor of castlingRand[%d]: a change of right %d does not reach the hash", i, i)
					}
				}
			}
		}

		// --- en passant
		eps := fieldStores(fn, "Board.EnPassant")
		if len(eps) == 0 {
			c.Check(len(byKind["ep"]) == 0, rule, spec+"#ep", fn.Pos(), "no store to EnPassant and no epFileRand term")
			continue
		}
		var oldTerm, newTerm *hashTerm
		var newVal ssa.Value // non-zero value stored, if any
		var newPhi *ssa.Phi
		for _, st := range eps {
			if v, ok := constOf(st.Val); ok && v == 0 {
				continue
			}
			if ph, ok := st.Val.(*ssa.Phi); ok && len(ph.Edges) == 2 {
				for i, e := range ph.Edges {
					if v, ok := constOf(e); ok && v == 0 {
						newVal = ph.Edges[1-i]
						newPhi = ph
					}
				}
			}
			if newVal == nil {
				c.Undec(rule, spec+"#ep-new", st.Pos(), "stored en-passant value is neither 0 nor a two-way choice between 0 and a square")
			}
		}
		// uses of the en-passant key: raw table terms, and calls of a helper mapping a square to its key (self-gated on square != 0)
		type epUse struct {
			t         *hashTerm
			x         ssa.Value
			selfGated bool
		}
		var uses []epUse
		for i := range byKind["ep"] {
			t := &byKind["ep"][i]
			if len(t.Idx) != 1 {
				continue
			}
			x, isFile := fileOf(t.Idx[0])
			if !isFile {
				c.Fail(rule, spec+"#ep-index", t.Val.Pos(), "epFileRand is indexed by something other than the file of a square")
				continue
			}
			uses = append(uses, epUse{t, stripConv(x), false})
		}
		for i := range byKind["unknown-call"] {
			t := &byKind["unknown-call"][i]
			call := t.Val.(*ssa.Call)
			if pix, ok := epHelper(call.Call.StaticCallee()); ok && pix < len(call.Call.Args) {
				uses = append(uses, epUse{t, stripConv(call.Call.Args[pix]), true})
			}
		}
		oldSelf, newSelfPhi := false, false
		for _, u := range uses {
			switch {
			case isFieldLoad(u.x, "Board.EnPassant"):
				oldTerm, oldSelf = u.t, u.selfGated
			case newVal != nil && sameValue(u.x, newVal, 0):
				newTerm = u.t
			case u.selfGated && newPhi != nil && u.x == ssa.Value(newPhi):
				newTerm, newSelfPhi = u.t, true
			default:
				c.Fail(rule, spec+"#ep-index", u.t.Val.Pos(), "epFileRand term is keyed on neither the old nor the new en-passant square")
			}
		}
		// old
		if oldTerm == nil {
			c.Fail(rule, spec+"#ep-old", eps[0].Pos(), "EnPassant is overwritten but the old square's epFileRand key is never removed from the hash")
		} else {
			var ld ssa.Instruction
			for _, u := range uses {
				if u.t == oldTerm {
					ld, _ = u.x.(ssa.Instruction)
				}
			}
			okOld := ld != nil
			why := ""
			for _, st := range eps {
				if r, _ := reachAvoiding(st, ld, nil); r {
					okOld = false
					why = "the old en-passant square is read after EnPassant has been overwritten"
				}
			}
			// conditions that also govern the append itself (e.g. the exit of a preceding loop) are not restrictions
			var conds []condEdge
			common := controllingConds(app.Block())
			for _, ce := range controllingConds(oldTerm.Xor.Block()) {
				shared := false
				for _, cc := range common {
					if cc.Cond == ce.Cond && cc.True == ce.True {
						shared = true
					}
				}
				if !shared {
					conds = append(conds, ce)
				}
			}
			if oldSelf {
				if len(conds) != 0 {
					okOld = false
					why = "the removal of the old key runs only on some paths"
				}
			} else if len(conds) != 1 || !conds[0].True || !isNeqZeroOfField(conds[0].Cond, "Board.EnPassant") {
				okOld = false
				why = "the removal is not guarded by exactly `EnPassant != 0`"
			}
			if okOld {
				c.Ok(rule, spec+"#ep-old", oldTerm.Val.Pos(), "old en-passant file key removed iff EnPassant != 0, read before the overwrite")
			} else {
				c.Fail(rule, spec+"#ep-old", oldTerm.Val.Pos(), "%s", why)
			}
		}
		// new
		if newVal != nil {
			if newTerm == nil {
				c.Fail(rule, spec+"#ep-new", newVal.Pos(), "a non-zero en-passant square is stored but its epFileRand key is never added to the hash")
			} else {
				okNew := true
				if newSelfPhi {
					// the helper sees the stored value itself (0 or the square) and is applied on every path
					okNew = newTerm.Xor == nil || blockDomOrSame(newTerm.Xor.Block(), app.Block())
				}
				for i, e := range newPhi.Edges {
					if newSelfPhi {
						break
					}
					pred := newPhi.Block().Preds[i]
					dom := blockDomOrSame(newTerm.Xor.Block(), pred)
					if v, ok := constOf(e); ok && v == 0 {
						if dom {
							okNew = false
						}
					} else if !dom {
						okNew = false
					}
				}
				c.Check(okNew, rule, spec+"#ep-new", newTerm.Val.Pos(), "new en-passant file key is added exactly on the paths that store the non-zero square")
			}
		} else if len(uses) > 1 {
			c.Fail(rule, spec+"#ep-new", eps[0].Pos(), "epFileRand added although only 0 is ever stored to EnPassant")
		}
	}
}

// epHelper: h maps an en-passant square to its hash contribution: 0 for square 0, otherwise
// epFileRand[file of the square]. Returns the index of the square parameter.
func epHelper(h *ssa.Function) (int, bool) {
	if h == nil || h.Blocks == nil || h.Signature.Results().Len() != 1 {
		return -1, false
	}
	pix := -1
	for i, par := range h.Params {
		if n, ok := types.Unalias(par.Type()).(*types.Named); ok && n.Obj().Name() == "Square" {
			if pix >= 0 {
				return -1, false
			}
			pix = i
		}
	}
	if pix < 0 {
		return -1, false
	}
	par := h.Params[pix]
	nonzero := func(b *ssa.BasicBlock) (known, nz bool) {
		for _, ce := range controllingConds(b) {
			bo, ok := ce.Cond.(*ssa.BinOp)
			if !ok || stripConv(bo.X) != ssa.Value(par) {
				continue
			}
			if k, isc := constOf(bo.Y); !isc || k != 0 {
				continue
			}
			switch bo.Op {
			case token.NEQ:
				return true, ce.True
			case token.EQL:
				return true, !ce.True
			}
		}
		return false, false
	}
	sawKey, sawZero := false, false
	for _, as := range resultAssignments(h, 0) {
		known, nz := nonzero(as.Block)
		if k, isc := constOf(as.Val); isc && k == 0 {
			if !known || nz {
				return -1, false
			}
			sawZero = true
			continue
		}
		t := classifyTerm(as.Val, nil)
		if t.Kind != "ep" || len(t.Idx) != 1 || !known || !nz {
			return -1, false
		}
		x, isFile := fileOf(t.Idx[0])
		if !isFile || stripConv(x) != ssa.Value(par) {
			return -1, false
		}
		sawKey = true
	}
	return pix, sawKey && sawZero
}

// castlingHelper: h(rights) is the xor of castlingRand[i] over exactly the bits i set in its
// Castles parameter (every index, each gated by its own bit). Returns the parameter index.
func castlingHelper(c *Ctx, p *Prog, h *ssa.Function) (int, bool) {
	if h == nil || h.Blocks == nil || h.Signature.Results().Len() != 1 {
		return -1, false
	}
	pix := -1
	for i, par := range h.Params {
		if n, ok := types.Unalias(par.Type()).(*types.Named); ok && n.Obj().Name() == "Castles" {
			if pix >= 0 {
				return -1, false
			}
			pix = i
		}
	}
	if pix < 0 {
		return -1, false
	}
	var inner []hashTerm
	for _, as := range resultAssignments(h, 0) {
		for _, it := range collectXorTerms(as.Val) {
			switch it.Kind {
			case "castling":
				inner = append(inner, it)
			case "base":
			default:
				return -1, false
			}
		}
	}
	if len(inner) == 0 {
		return -1, false
	}
	n := arrayLenOfGlobal(p, "board.castlingRand")
	tmp := &Ctx{Prop: c.Prop, Tier: c.Tier, Progs: c.Progs, cur: c.cur}
	seen := map[int64]bool{}
	castlingTerms(tmp, p, "tmp", "helper", inner, h.Params[pix], nil, n, seen, 1)
	for _, o := range tmp.Obs {
		if o.Verdict != OK {
			return -1, false
		}
	}
	for i := 0; i < n; i++ {
		if !seen[int64(i)] {
			return -1, false
		}
	}
	return pix, true
}

func isNeqZeroOfField(v ssa.Value, field string) bool {
	bo, ok := v.(*ssa.BinOp)
	if !ok || bo.Op != token.NEQ {
		return false
	}
	z, isc := constOf(bo.Y)
	return isc && z == 0 && isFieldLoad(stripConv(bo.X), field)
}

// c04R4: calculateHash and the incremental update use the same tables with
// the same index roles.
func c04R4(c *Ctx, p *Prog, rule string) {
	fn := p.Func("board.(Board).calculateHash")
	if fn == nil {
		c.Anchor(rule, "board.(Board).calculateHash")
		return
	}
	var ret *ssa.Return
	allInstrs(fn, func(in ssa.Instruction) {
		if r, ok := in.(*ssa.Return); ok {
			ret = r
		}
	})
	if ret == nil || len(ret.Results) != 1 {
		c.Undec(rule, "calculateHash#return", fn.Pos(), "single result expected")
		return
	}
	terms := collectXorTerms(ret.Results[0])
	kinds := map[string]int{}
	for _, t := range terms {
		kinds[t.Kind]++
		key := "calculateHash#" + t.Kind
		switch t.Kind {
		case "unknown":
			// a helper that maps the rights / the en-passant square to their keys
			if call, isCall := t.Val.(*ssa.Call); isCall {
				h := call.Call.StaticCallee()
				if h != nil && isOwn(h) {
					if pix, ok := castlingHelper(c, p, h); ok && pix < len(call.Call.Args) {
						kinds["unknown"]--
						kinds["castling"]++
						c.Check(isFieldLoad(stripConv(call.Call.Args[pix]), "Board.Castles"), rule, "calculateHash#castling", t.Val.Pos(), "the castling keys are those of the bits set in Castles (through %s, which pairs key i with bit i)", h.Name())
						continue
					}
					if pix, ok := epHelper(h); ok && pix < len(call.Call.Args) {
						kinds["unknown"]--
						kinds["ep"]++
						c.Check(isFieldLoad(stripConv(call.Call.Args[pix]), "Board.EnPassant"), rule, "calculateHash#ep", t.Val.Pos(), "en-passant key is that of the file of EnPassant, none for 0 (through %s)", h.Name())
						continue
					}
				}
			}
			c.Undec(rule, key, t.Val.Pos(), "unrecognised term %s in the from-scratch hash", t.Val)
		case "pieces":
			// piecesRand[color][SquaresToPiece[sq]][sq] with sq from Colors[color]
			ok := len(t.Idx) == 3
			if ok {
				sq := stripConv(t.Idx[2])
				pc := stripConv(t.Idx[1])
				ld, isLd := pc.(*ssa.UnOp)
				ok = isLd && ld.Op == token.MUL
				if ok {
					ia, isIA := ld.X.(*ssa.IndexAddr)
					ok = isIA && sameValue(stripConv(ia.Index), sq, 0)
					if ok {
						fr, isF := asFieldAddr(ia.X)
						ok = isF && fr.Name() == "Board.SquaresToPiece"
					}
				}
				// sq derives from Colors[color] with the same colour index
				if ok {
					sl := backSlice(sq, sliceOpts{ThroughCalls: true, ThroughLoads: true})
					col := stripConv(t.Idx[0])
					ok = sliceHas(sl, func(v ssa.Value) bool {
						// `for color, occ := range b.Colors`: element of a copy of the array at the loop index
						if ix, isIx := v.(*ssa.Index); isIx {
							if l, isLd := ix.X.(*ssa.UnOp); isLd && l.Op == token.MUL {
								if fr, isF := asFieldAddr(l.X); isF && fr.Name() == "Board.Colors" {
									return sameValue(stripConv(ix.Index), col, 0)
								}
							}
							return false
						}
						ia, isIA := v.(*ssa.IndexAddr)
						if !isIA {
							return false
						}
						fr, isF := asFieldAddr(ia.X)
						return isF && fr.Name() == "Board.Colors" && sameValue(stripConv(ia.Index), col, 0)
					})
				}
			}
			// other enumeration: all squares, the key xor-ed under `Colors[colour] & (1<<sq) != 0`
			if !ok && len(t.Idx) == 3 && t.Xor != nil {
				sq, col := stripConv(t.Idx[2]), stripConv(t.Idx[0])
				okPiece := false
				if ld, isLd := stripConv(t.Idx[1]).(*ssa.UnOp); isLd && ld.Op == token.MUL {
					if ia, isIA := ld.X.(*ssa.IndexAddr); isIA && sameValue(stripConv(ia.Index), sq, 0) {
						if fr, isF := asFieldAddr(ia.X); isF && fr.Name() == "Board.SquaresToPiece" {
							okPiece = true
						}
					}
				}
				// `for sq, piece := range b.SquaresToPiece`: element of a copy of the array at the same index
				if ix, isIx := stripConv(t.Idx[1]).(*ssa.Index); isIx && sameValue(stripConv(ix.Index), sq, 0) {
					if l, isLd := ix.X.(*ssa.UnOp); isLd && l.Op == token.MUL {
						if fr, isF := asFieldAddr(l.X); isF && fr.Name() == "Board.SquaresToPiece" {
							okPiece = true
						}
					}
				}
				member := false
				for _, ce := range controllingConds(t.Xor.Block()) {
					bo, isB := ce.Cond.(*ssa.BinOp)
					if !isB || !((bo.Op == token.NEQ && ce.True) || (bo.Op == token.EQL && !ce.True)) {
						continue
					}
					if z, isc := constOf(bo.Y); !isc || z != 0 {
						continue
					}
					and, isAnd := stripConv(bo.X).(*ssa.BinOp)
					if !isAnd || and.Op != token.AND {
						continue
					}
					for _, pr := range [][2]ssa.Value{{and.X, and.Y}, {and.Y, and.X}} {
						l, isLd := stripConv(pr[0]).(*ssa.UnOp)
						if !isLd || l.Op != token.MUL {
							continue
						}
						ia, isIA := l.X.(*ssa.IndexAddr)
						if !isIA || !sameValue(stripConv(ia.Index), col, 0) {
							continue
						}
						if fr, isF := asFieldAddr(ia.X); !isF || fr.Name() != "Board.Colors" {
							continue
						}
						if isOneShl(pr[1], sq) {
							member = true
						}
					}
				}
				if okPiece && member {
					ok = true
				} else if !okPiece || !member {
					c.Undec(rule, key, t.Val.Pos(), "the (colour, piece, square) triple of a piece key is enumerated in a way this rule does not recognise")
					continue
				}
			}
			c.Check(ok, rule, key, t.Val.Pos(), "piece key is piecesRand[colour][SquaresToPiece[sq]][sq] for sq ranging over Colors[colour] — the same (colour, piece, square) triple addPiece/removePiece return")
		case "stm":
			ok := false
			if t.Xor != nil {
				for _, ce := range controllingConds(t.Xor.Block()) {
					if bo, isB := ce.Cond.(*ssa.BinOp); isB && ce.True && bo.Op == token.EQL && isFieldLoad(stripConv(bo.X), "Board.STM") {
						if v, isc := constOf(bo.Y); isc && v == 1 {
							ok = true
						}
					}
				}
			}
			c.Check(ok, rule, key, t.Val.Pos(), "stmRand is included iff side to move is Black (incremental update toggles it on every flip starting from this convention)")
		case "castling":
			ok := false
			if t.Xor != nil && len(t.Idx) == 1 {
				for _, ce := range controllingConds(t.Xor.Block()) {
					if !ce.True {
						continue
					}
					if w, bit, isBT := bitTest(ce.Cond); isBT && isFieldLoad(stripConv(w), "Board.Castles") && sameIdx(stripConv(bit), stripConv(t.Idx[0])) {
						ok = true
					}
				}
			}
			// branch-free form: key & hashEnable[(Castles>>i)&1]
			if !ok && t.Enable != nil && len(t.Idx) == 1 {
				if w, bit, isBT := bitTest(t.Enable); isBT && isFieldLoad(stripConv(w), "Board.Castles") && sameIdx(stripConv(bit), stripConv(t.Idx[0])) {
					ok = true
				}
			}
			c.Check(ok, rule, key, t.Val.Pos(), "castlingRand[i] is included iff bit i of Castles is set — the same index/bit pairing as the incremental update (C04.R3)")
		case "ep":
			ok := false
			if len(t.Idx) == 1 && t.Xor != nil {
				if x, isFile := fileOf(t.Idx[0]); isFile && isFieldLoad(stripConv(x), "Board.EnPassant") {
					conds := controllingConds(t.Xor.Block())
					common := controllingConds(ret.Block()) // e.g. the exit of a preceding loop: not a restriction
					extra := 0
					for _, ce := range conds {
						shared := false
						for _, cc := range common {
							if cc.Cond == ce.Cond && cc.True == ce.True {
								shared = true
							}
						}
						if ce.True && isNeqZeroOfField(ce.Cond, "Board.EnPassant") {
							ok = true
						} else if !shared {
							extra++
						}
					}
					if ok && extra > 0 {
						c.Fail(rule, key, t.Val.Pos(), "the from-scratch hash includes the en-passant key under an additional condition besides EnPassant != 0, while the incremental update removes the old key whenever EnPassant != 0: after loading such a position the first move xors in a key that was never there")
						continue
					}
				}
			}
			c.Check(ok, rule, key, t.Val.Pos(), "en-passant key is epFileRand[file of EnPassant] iff EnPassant != 0 — keyed by file, as in the incremental update")
		}
	}
	for _, k := range []string{"pieces", "stm", "castling", "ep"} {
		if kinds[k] == 0 {
			c.Fail(rule, "calculateHash#"+k, fn.Pos(), "the from-scratch hash has no %s component although MakeMove maintains one: hashes after FEN load and after play disagree", k)
		}
	}
	// and the incremental side has the same component kinds
	mm := p.Func("board.(*Board).MakeMove")
	if mm != nil {
		if apps := hashAppends(mm); len(apps) == 1 && apps[0].Val != nil {
			mk := map[string]bool{}
			for _, t := range collectXorTerms(apps[0].Val) {
				mk[t.Kind] = true
				// a helper of package board that returns accumulated keys
				if call, ok := t.Val.(*ssa.Call); ok && t.Kind == "unknown" {
					if callee := call.Call.StaticCallee(); callee != nil && isOwn(callee) && callee.Blocks != nil {
						allInstrs(callee, func(in ssa.Instruction) {
							if r, ok := in.(*ssa.Return); ok && len(r.Results) == 1 {
								for _, it := range collectXorTerms(returnedValue(r, 0)) {
									mk[it.Kind] = true
								}
							}
						})
					}
				}
			}
			for _, k := range []string{"pieces", "stm", "castling", "ep"} {
				c.Check(mk[k], rule, "MakeMove#"+k, mm.Pos(), "incremental update maintains the %s component that calculateHash includes", k)
			}
		}
	}
}

func init() {
	addMutants(
		Mutant{Name: "C04.R1-extra-writer-in-board", Prop: "C04", File: "board/board.go", Quick: true,
			Old: "// ResetFifty resets the fifty move counter.", New: "func (b *Board) ClearSquare(sq Square) { b.SquaresToPiece[sq] = NoPiece }\n\n// ResetFifty resets the fifty move counter.",
			Expect: "C04.R1/writer:board.Board.SquaresToPiece@board.(*Board).ClearSquare"},
		Mutant{Name: "C04.R1-writer-in-eval", Prop: "C04", File: "eval/eval.go",
			Old: "\tpw.occ = b.Colors[White] | b.Colors[Black]\n", New: "\tpw.occ = b.Colors[White] | b.Colors[Black]\n\tb.Pieces[NoPiece] = pw.occ\n",
			Expect: "C04.R1/writer:board.Board.Pieces@eval.(*pieceWise).calcOccupancy"},
		Mutant{Name: "C04.R1-remove-leaves-square-map", Prop: "C04", File: "board/board.go", Quick: true,
			Old: "\tb.Pieces[p] &= ^(BitBoard(1) << sq)\n\tb.SquaresToPiece[sq] = NoPiece\n", New: "\tb.Pieces[p] &= ^(BitBoard(1) << sq)\n",
			Expect: "C04.R1/board.(*Board).removePiece#store:SquaresToPiece"},
		Mutant{Name: "C04.R1-add-wrong-colour-index", Prop: "C04", File: "board/board.go",
			Old: "\tb.Colors[c] |= BitBoard(1) << sq\n", New: "\tb.Colors[c^1] |= BitBoard(1) << sq\n",
			Expect: "C04.R1/board.(*Board).addPiece#"},
		Mutant{Name: "C04.R2-dropped-rook-delta", Prop: "C04", File: "board/board.go", Quick: true,
			Old: "\t\t\thash ^= b.removePiece(b.STM, Rook, A8)\n", New: "\t\t\tb.removePiece(b.STM, Rook, A8)\n",
			Expect: "C04.R2/board.(*Board).MakeMove#removePiece"},
		Mutant{Name: "C04.R3-castling-bit-index-mismatch", Prop: "C04", File: "board/board.go", Quick: true,
			Old: "hash ^= castlingRand[1] & hashEnable[(castlingChange>>1)&1]", New: "hash ^= castlingRand[1] & hashEnable[(castlingChange>>2)&1]",
			Expect: "C04.R3/board.(*Board).MakeMove#castlingRand[1]"},
		Mutant{Name: "C04.R3-ep-keyed-by-rank", Prop: "C04", File: "board/board.go",
			Old: "hash ^= epFileRand[newEnPassant.File()]", New: "hash ^= epFileRand[newEnPassant.Rank()]",
			Expect: "C04.R3/board.(*Board).MakeMove#ep"},
		Mutant{Name: "C04.R3-ep-old-not-removed", Prop: "C04", File: "board/board.go",
			Old: "\tif b.EnPassant != 0 {\n\t\thash ^= epFileRand[b.EnPassant.File()] // remove old enPassant\n\t}\n", New: "",
			Expect: "C04.R3/board.(*Board).MakeMove#ep-old"},
		Mutant{Name: "C04.R3-nullmove-forgets-stm-key", Prop: "C04", File: "board/board.go",
			Old: "\tb.STM = b.STM.Flip()\n\thash ^= stmRand\n\n\tb.hashes = append(b.hashes, hash)\n\t// b.consistencyCheck()\n\treturn r\n", New: "\tb.STM = b.STM.Flip()\n\n\tb.hashes = append(b.hashes, hash)\n\t// b.consistencyCheck()\n\treturn r\n",
			Expect: "C04.R3/board.(*Board).MakeNullMove#stm"},
		Mutant{Name: "C04.R3-nullmove-ep-key-after-clear", Prop: "C04", File: "board/board.go",
			Old: "\t\thash ^= epFileRand[b.EnPassant.File()]\n\t\tb.EnPassant = 0\n", New: "\t\tb.EnPassant = 0\n\t\thash ^= epFileRand[b.EnPassant.File()]\n",
			Expect: "C04.R3/board.(*Board).MakeNullMove#ep-old"},
		Mutant{Name: "C04.R4-scratch-ep-by-rank", Prop: "C04", File: "board/zobrist.go", Quick: true,
			Old: "hash ^= epFileRand[b.EnPassant%8]", New: "hash ^= epFileRand[b.EnPassant/8]",
			Expect: "C04.R4/calculateHash#ep"},
		Mutant{Name: "C04.R4-scratch-stm-white", Prop: "C04", File: "board/zobrist.go",
			Old: "if b.STM == Black {", New: "if b.STM == White {",
			Expect: "C04.R4/calculateHash#stm"},
		Mutant{Name: "C04.R4-scratch-castling-shifted", Prop: "C04", File: "board/zobrist.go",
			Old: "if b.Castles&(1<<i) != 0 {", New: "if b.Castles&(2<<i) != 0 {",
			Expect: "C04.R4/calculateHash#castling"},
		Mutant{Name: "C04.R5-reseed-function", Prop: "C04", File: "board/zobrist.go",
			Old: "// CalculateHash calculates", New: "func Reseed(v uint64) { stmRand = Hash(v) }\n\n// CalculateHash calculates",
			Expect: "C04.R5/immutable:board.stmRand"},
	)
}

func init() {
	addMutants(
		Mutant{Name: "C04.R3-castling-keys-only-on-king-or-rook-moves", Prop: "C04", File: "board/board.go",
			Old:    "\thash ^= castlingRand[0] & hashEnable[(castlingChange>>0)&1]\n\thash ^= castlingRand[1] & hashEnable[(castlingChange>>1)&1]\n\thash ^= castlingRand[2] & hashEnable[(castlingChange>>2)&1]\n\thash ^= castlingRand[3] & hashEnable[(castlingChange>>3)&1]\n",
			New:    "\tif piece == King || piece == Rook {\n\t\thash ^= castlingRand[0] & hashEnable[(castlingChange>>0)&1]\n\t\thash ^= castlingRand[1] & hashEnable[(castlingChange>>1)&1]\n\t\thash ^= castlingRand[2] & hashEnable[(castlingChange>>2)&1]\n\t\thash ^= castlingRand[3] & hashEnable[(castlingChange>>3)&1]\n\t}\n",
			Expect: "C04.R3/board.(*Board).MakeMove#castlingRand"},
	)
}

// castlingTerms checks castlingRand terms against the castling delta. Terms may
// use a constant index, or a loop index that visits the whole table; each must
// be gated by the bit of the delta with the SAME index, on every path.
func castlingTerms(c *Ctx, p *Prog, rule, spec string, terms []hashTerm, delta ssa.Value, app ssa.Instruction, n int, seen map[int64]bool, depth int) {
	for _, t := range terms {
		if len(t.Idx) != 1 {
			c.Undec(rule, spec+"#castling-term", t.Val.Pos(), "castlingRand term with %d indices", len(t.Idx))
			continue
		}
		idx := t.Idx[0]
		i, isc := constOf(idx)
		var loopN int64
		if !isc {
			var ok bool
			loopN, ok = fullRangeIndex(idx)
			if !ok {
				c.Undec(rule, spec+"#castling-term", t.Val.Pos(), "castlingRand index is neither constant nor the index of a loop over the whole table")
				continue
			}
		}
		var w, bit ssa.Value
		found := false
		if t.Enable != nil {
			w, bit, found = bitTest(t.Enable)
		} else if t.Xor != nil {
			for _, ce := range controllingConds(t.Xor.Block()) {
				if !ce.True {
					continue
				}
				if ww, bb, ok := bitTest(ce.Cond); ok {
					w, bit, found = ww, bb, true
				}
			}
		}
		key := fmt.Sprintf("%s#castlingRand[%d]", spec, i)
		if !isc {
			key = spec + "#castlingRand[i]"
		}
		if !found {
			c.Fail(rule, key, t.Val.Pos(), "a castlingRand key is xor-ed without a test of a bit of the castling delta")
			continue
		}
		okBit := false
		if isc {
			b, bc := constOf(bit)
			okBit = bc && b == i
		} else {
			okBit = sameValue(stripConv(bit), stripConv(idx), 0)
		}
		// on every path: masked form must run unconditionally (inside its loop); if-form only under its own bit test
		uncond := t.Xor != nil
		if uncond {
			conds := controllingConds(t.Xor.Block())
			extra := 0
			for _, ce := range conds {
				if _, _, isBT := bitTest(ce.Cond); isBT && t.Enable == nil {
					continue
				}
				// the loop condition of a full-range loop is not a restriction
				if bo, ok := ce.Cond.(*ssa.BinOp); ok && !isc && bo.Op == token.LSS && stripConv(bo.X) == stripConv(idx) {
					continue
				}
				extra++
			}
			if app != nil && isc && !blockDomOrSame(t.Xor.Block(), app.Block()) && t.Enable != nil {
				extra++
			}
			uncond = extra == 0
		}
		switch {
		case !sameValue(stripConv(w), stripConv(delta), 0):
			c.Fail(rule, key, t.Val.Pos(), "a castlingRand key is gated by a bit of a value other than the delta applied to Castles")
		case !okBit:
			c.Fail(rule, key, t.Val.Pos(), "a castlingRand key is gated by a different bit of the castling delta than its own index: index and bit must agree")
		case !uncond:
			c.Fail(rule, key, t.Val.Pos(), "a castlingRand key is toggled only on some paths (guarded by a condition other than its own delta bit): a move that changes that right on the other paths leaves a stale key in the hash")
		default:
			if isc {
				c.Ok(rule, key, t.Val.Pos(), "castlingRand[%d] toggled under bit %d of the delta applied to Castles, on every path", i, i)
				seen[i] = true
			} else {
				c.Ok(rule, key, t.Val.Pos(), "castlingRand[i] toggled under bit i of the delta for every i in 0..%d", loopN-1)
				for k := int64(0); k < loopN; k++ {
					seen[k] = true
				}
			}
		}
	}
}

// c04R8: every Zobrist key the hash can use is drawn at start-up. The stores in package board's
// init that fill piecesRand / castlingRand / epFileRand with random numbers must, per dimension,
// range over the whole table (the NoPiece row of piecesRand, never read, may stay zero). A row that
// keeps its zero value makes the pieces of that kind invisible to the hash: positions that differ
// only in where such a piece stands are "repetitions" and share table entries.
func c04R8(c *Ctx, p *Prog, rule string) {
	pk := p.SSAPkg("board")
	if pk == nil {
		c.Anchor(rule, "package board")
		return
	}
	noPiece, _ := p.pkgConstInt("chess.NoPiece")
	type cover struct {
		dims [][]bool
		pos  token.Pos
		seen bool
	}
	tables := map[string]*cover{}
	dimsOf := func(g *ssa.Global) []int {
		var out []int
		t := g.Type().(*types.Pointer).Elem()
		for {
			at, ok := t.Underlying().(*types.Array)
			if !ok {
				break
			}
			out = append(out, int(at.Len()))
			t = at.Elem()
		}
		return out
	}
	for _, name := range []string{"piecesRand", "castlingRand", "epFileRand"} {
		g, _ := pk.Members[name].(*ssa.Global)
		if g == nil {
			c.Anchor(rule, "board."+name)
			continue
		}
		cv := &cover{pos: g.Pos()}
		for _, n := range dimsOf(g) {
			cv.dims = append(cv.dims, make([]bool, n))
		}
		tables[name] = cv
	}
	undec := map[string]string{}
	for _, fn := range p.OwnFuncs() {
		if relPkg(fnPkgPath(fn)) != "board" || !strings.HasPrefix(fn.Name(), "init") {
			continue
		}
		allInstrs(fn, func(in ssa.Instruction) {
			st, ok := in.(*ssa.Store)
			if !ok {
				return
			}
			// address chain
			var idxs []ssa.Value
			a := st.Addr
			for {
				ia, ok := a.(*ssa.IndexAddr)
				if !ok {
					break
				}
				idxs = append([]ssa.Value{ia.Index}, idxs...)
				a = ia.X
			}
			g, ok := a.(*ssa.Global)
			if !ok || tables[g.Name()] == nil {
				return
			}
			if _, isZero := constOf(st.Val); isZero {
				return
			}
			cv := tables[g.Name()]
			if len(idxs) != len(cv.dims) {
				undec[g.Name()] = "a store addresses only part of the index chain"
				return
			}
			cv.seen = true
			for d, ix := range idxs {
				lo, hi, ok := indexRange(ix)
				if !ok {
					undec[g.Name()] = fmt.Sprintf("index %d of a key store is neither a constant nor a counting loop variable with a constant range", d)
					return
				}
				// values excluded by the conditions governing the store
				excl := map[int64]bool{}
				base := stripConv(ix)
				for _, ce := range controllingConds(st.Block()) {
					bo, ok := ce.Cond.(*ssa.BinOp)
					if !ok || (bo.Op != token.EQL && bo.Op != token.NEQ) {
						continue
					}
					k, isc := constOf(bo.Y)
					if !isc || !sameValue(stripConv(bo.X), base, 0) {
						continue
					}
					if ce.True == (bo.Op == token.NEQ) {
						excl[k] = true
					}
				}
				for v := lo; v < hi; v++ {
					if v >= 0 && int(v) < len(cv.dims[d]) && !excl[v] {
						cv.dims[d][v] = true
					}
				}
			}
		})
	}
	for _, name := range []string{"piecesRand", "castlingRand", "epFileRand"} {
		cv := tables[name]
		if cv == nil {
			continue
		}
		key := "drawn:board." + name
		switch {
		case undec[name] != "":
			c.Undec(rule, key, cv.pos, "%s", undec[name])
			continue
		case !cv.seen:
			c.Fail(rule, key, cv.pos, "no random draw is ever stored into %s", name)
			continue
		}
		missing := ""
		for d, row := range cv.dims {
			for v, ok := range row {
				if ok {
					continue
				}
				if name == "piecesRand" && d == 1 && int64(v) == noPiece {
					continue
				}
				missing = fmt.Sprintf("index %d of dimension %d", v, d)
			}
		}
		if missing == "" {
			c.Ok(rule, key, cv.pos, "every key of %s that the hash can use is drawn at start-up", name)
		} else {
			c.Fail(rule, key, cv.pos, "%s: %s is never filled with a random key and stays zero — whatever that index stands for (a piece kind, a castling right, a file) does not show in the hash", name, missing)
		}
	}
}

// indexRange: the half-open range of values an index expression takes: a constant, or a counting
// loop variable over 0..n-1 (n constant, or the length of a constant re-slice of an array) plus a constant.
func indexRange(v ssa.Value) (lo, hi int64, ok bool) {
	v = stripConv(v)
	if k, isc := constOf(v); isc {
		return k, k + 1, true
	}
	off := int64(0)
	if bo, isb := v.(*ssa.BinOp); isb && (bo.Op == token.ADD || bo.Op == token.SUB) {
		if k, isc := constOf(bo.Y); isc {
			if _, isPhi := stripConv(bo.X).(*ssa.Phi); !isPhi || bo.Op == token.SUB {
				// (phi + 1 is the range-index form itself: handled below)
				if n, ok2 := fullRangeIndexAny(bo.X); ok2 {
					if bo.Op == token.SUB {
						k = -k
					}
					return k, n + k, true
				}
			}
			_ = off
		}
	}
	if n, ok2 := fullRangeIndexAny(v); ok2 {
		return 0, n, true
	}
	// classic counting loop from a non-zero constant: `for p := Pawn; p <= King; p++`
	if ph, isPhi := v.(*ssa.Phi); isPhi && len(ph.Edges) == 2 {
		for i, e := range ph.Edges {
			k0, isc := constOf(e)
			if !isc {
				continue
			}
			inc, isInc := stripConv(ph.Edges[1-i]).(*ssa.BinOp)
			if !isInc || inc.Op != token.ADD || stripConv(inc.X) != ssa.Value(ph) {
				continue
			}
			if one, isOne := constOf(inc.Y); !isOne || one != 1 {
				continue
			}
			blk := ph.Block()
			if len(blk.Instrs) == 0 {
				continue
			}
			iff, isIf := blk.Instrs[len(blk.Instrs)-1].(*ssa.If)
			if !isIf {
				continue
			}
			cmp, isCmp := iff.Cond.(*ssa.BinOp)
			if !isCmp || stripConv(cmp.X) != ssa.Value(ph) {
				continue
			}
			n, isN := constOf(cmp.Y)
			if !isN {
				continue
			}
			// the body is entered on the true edge (the increment is reachable from it)
			switch cmp.Op {
			case token.LSS:
				return k0, n, true
			case token.LEQ:
				return k0, n + 1, true
			}
		}
	}
	return 0, 0, false
}

// fullRangeIndexAny: fullRangeIndex, also accepting a bound that is len(array[lo:hi]) with constant lo/hi.
func fullRangeIndexAny(v ssa.Value) (int64, bool) {
	if n, ok := fullRangeIndex(v); ok {
		return n, true
	}
	v = stripConv(v)
	// range-index form over a slice: v = phi+1, phi = [-1, v], cond v < len(slice)
	bo, ok := v.(*ssa.BinOp)
	if !ok || bo.Op != token.ADD {
		return 0, false
	}
	if one, isc := constOf(bo.Y); !isc || one != 1 {
		return 0, false
	}
	ph, ok := stripConv(bo.X).(*ssa.Phi)
	if !ok {
		return 0, false
	}
	okInit := false
	for _, e := range ph.Edges {
		if k, isc := constOf(e); isc && k == -1 {
			okInit = true
		} else if stripConv(e) != ssa.Value(bo) {
			return 0, false
		}
	}
	if !okInit || len(ph.Block().Instrs) == 0 {
		return 0, false
	}
	iff, ok := ph.Block().Instrs[len(ph.Block().Instrs)-1].(*ssa.If)
	if !ok {
		return 0, false
	}
	cmp, ok := iff.Cond.(*ssa.BinOp)
	if !ok || cmp.Op != token.LSS || stripConv(cmp.X) != ssa.Value(bo) {
		return 0, false
	}
	call, ok := stripConv(cmp.Y).(*ssa.Call)
	if !ok {
		return 0, false
	}
	if bi, isB := call.Call.Value.(*ssa.Builtin); !isB || bi.Name() != "len" {
		return 0, false
	}
	sl, ok := call.Call.Args[0].(*ssa.Slice)
	if !ok {
		return 0, false
	}
	pt, ok := sl.X.Type().Underlying().(*types.Pointer)
	if !ok {
		return 0, false
	}
	at, ok := pt.Elem().Underlying().(*types.Array)
	if !ok {
		return 0, false
	}
	lo, hi := int64(0), at.Len()
	if sl.Low != nil {
		k, isc := constOf(sl.Low)
		if !isc {
			return 0, false
		}
		lo = k
	}
	if sl.High != nil {
		k, isc := constOf(sl.High)
		if !isc {
			return 0, false
		}
		hi = k
	}
	return hi - lo, hi > lo
}
