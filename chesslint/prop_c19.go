package main

// C19 — the tuner optimises the same evaluation the engine plays with.
// Rules are split over prop_c19.go sections: generic helpers, R1 (instances and
// type tests), R2 (branch agreement + sigmoid table), R3 (reflect traversals),
// R4 (names/types), R5 (client gradient loop, AST), R6 (sign convention).

import (
	"fmt"
	"go/ast"
	"go/constant"
	"go/token"
	"go/types"
	"hash/fnv"
	"math"
	"sort"
	"strings"
	"sync"

	"golang.org/x/tools/go/ssa"
)

const (
	c19Tun = "tools/tuner/tuning"
	c19Cli = "tools/tuner/client"
)

func init() {
	register(&Property{
		ID: "C19",
		Explain: "Static necessary conditions for 'the tuner optimises the same evaluation the engine plays with'. " +
			"R1: tuning.(*EngineRep).Eval calls the float64 instance and every engine call site the Score instance of the one generic eval.Eval (same origin, same source file), the tuner passing its own receiver and the engine &eval.Coefficients (which nothing outside initialisation writes); in the static call closure of Eval[float64] exactly two dynamic type tests exist (taperedScore, sigmoidal) and no other value is boxed into an interface. " +
			"R2: in both type tests the integer and the float branch compute the same expression after conversions are stripped (SSA trees; on syntactic difference the two trees are compared as rational functions on pseudo-random leaf assignments by the checker); the literal table sigm equals round(c1/(1+exp(-c2(n-c3)))) with c1,c2,c3 read from the float branch, is monotone, indexed with Clamp(n,0,len-1), and clamping stays within rounding at both ends. " +
			"R3: ToVector/SetVector/TunedParams/EngineCoeffs walk the fields of the same struct by ascending index under the same name filter, recurse into arrays by ascending index, treat a Float64 leaf as exactly one element, concatenate/advance/count in step (SSA shape of the reflect loops; reflection itself is not evaluated). " +
			"R4: every DefaultTargets string is a CoeffSet field, every CoeffSet field is T or nested arrays of T, EngineRep is CoeffSet[float64]. " +
			"R5 (AST of tools/tuner/client, which does not fully type-check offline): the gradient index is the iterator's index, the perturbation is restored on every path to the next iteration, one targets value is used throughout. R6: EngineRep.Eval negates iff STM == Black. " +
			"Not decided: the numeric envelope between the integer and float evaluation over positions; the server side of the tuner; rounding when coefficients are saved.",
		Assume: []string{"go/ssa and go/types model the program faithfully", "reflect.Value/Type methods have their documented meaning (Field, Index, NumField, Len, Kind, Float, SetFloat, Addr)", "no dynamic calls inside the evaluation closure (checked: reported if present)"},
		Run:    runC19,
	})
}

func runC19(c *Ctx) {
	if t := c.need("tuner"); t != nil {
		inst := c19R1Tuner(c, t)
		c19R2(c, t, inst)
		c19R3(c, t)
		c19R4(c, t)
		c19R6(c, t)
	}
	if d := c.need("default"); d != nil {
		c19R1Engine(c, d)
		// the tuner parses every training line into one re-used Board through ParseFEN: nothing of the
		// previous line may survive, or the tuner evaluates positions the engine never sees
		parseFENResetRule(c, d, "C19.R7")
	}
	if q := c.need("tuner-client"); q != nil {
		c19R5(c, q)
	}
}

// ---------- generic helpers ----------

func c19Refs(v ssa.Value) []ssa.Instruction {
	if r := v.Referrers(); r != nil {
		return *r
	}
	return nil
}

// c19Strip removes conversions of every kind.
func c19Strip(v ssa.Value) ssa.Value {
	for {
		switch x := v.(type) {
		case *ssa.Convert:
			v = x.X
		case *ssa.ChangeType:
			v = x.X
		case *ssa.MultiConvert:
			v = x.X
		default:
			return v
		}
	}
}

// c19Cell resolves an address through closure free variables to the Alloc it denotes.
func c19Cell(addr ssa.Value) *ssa.Alloc {
	for d := 0; d < 4; d++ {
		switch x := addr.(type) {
		case *ssa.Alloc:
			return x
		case *ssa.FreeVar:
			fn := x.Parent()
			par := fn.Parent()
			if par == nil {
				return nil
			}
			ix := -1
			for i, fv := range fn.FreeVars {
				if fv == x {
					ix = i
				}
			}
			var b ssa.Value
			allInstrs(par, func(in ssa.Instruction) {
				if mc, ok := in.(*ssa.MakeClosure); ok && mc.Fn == fn && ix >= 0 && ix < len(mc.Bindings) {
					b = mc.Bindings[ix]
				}
			})
			if b == nil {
				return nil
			}
			addr = b
		default:
			return nil
		}
	}
	return nil
}

// c19CellStores lists the stores to a local cell, in its function and in closures capturing it.
func c19CellStores(a *ssa.Alloc) []*ssa.Store {
	var out []*ssa.Store
	var scan func(v ssa.Value)
	scan = func(v ssa.Value) {
		for _, r := range c19Refs(v) {
			switch y := r.(type) {
			case *ssa.Store:
				if y.Addr == v {
					out = append(out, y)
				}
			case *ssa.MakeClosure:
				for i, b := range y.Bindings {
					if b == v {
						if f, ok := y.Fn.(*ssa.Function); ok && i < len(f.FreeVars) {
							scan(f.FreeVars[i])
						}
					}
				}
			}
		}
	}
	scan(a)
	return out
}

// c19Res sees through type changes and loads of single-assignment local cells
// (also when captured by a closure).
// c19Binds maps a parameter of a followed helper (e.g. a shared field iterator) to
// the argument of the call site under analysis. Keys are per loaded program, so
// concurrent checks of different programs do not interfere.
var c19Binds sync.Map

func c19Res(v ssa.Value) ssa.Value {
	for d := 0; d < 12; d++ {
		switch x := v.(type) {
		case *ssa.ChangeType:
			v = x.X
			continue
		case *ssa.Parameter:
			if b, ok := c19Binds.Load(x); ok {
				v = b.(ssa.Value)
				continue
			}
		case *ssa.UnOp:
			if x.Op == token.MUL {
				if a := c19Cell(x.X); a != nil {
					if st := c19CellStores(a); len(st) == 1 {
						v = st[0].Val
						continue
					}
				}
			}
		}
		return v
	}
	return v
}

// c19Refl describes v as a call into package reflect: "Value.Field", "Type.NumField", "ValueOf" ...
func c19Refl(v ssa.Value) (name string, recv ssa.Value, args []ssa.Value, ok bool) {
	call, isCall := v.(*ssa.Call)
	if !isCall {
		return
	}
	cc := call.Common()
	if cc.IsInvoke() {
		if cc.Method.Pkg() == nil || cc.Method.Pkg().Path() != "reflect" {
			return
		}
		return "Type." + cc.Method.Name(), cc.Value, cc.Args, true
	}
	f := cc.StaticCallee()
	if f == nil {
		return
	}
	obj, _ := f.Object().(*types.Func)
	if obj == nil || obj.Pkg() == nil || obj.Pkg().Path() != "reflect" {
		return
	}
	if sig := obj.Type().(*types.Signature); sig.Recv() != nil {
		if len(cc.Args) == 0 {
			return
		}
		return "Value." + obj.Name(), cc.Args[0], cc.Args[1:], true
	}
	return obj.Name(), nil, cc.Args, true
}

// c19ReflStatic: the static Go type a reflect.Value / reflect.Type denotes when
// it is ValueOf/TypeOf(x) followed by Elem() calls; nil when unknown.
func c19ReflStatic(v ssa.Value) types.Type {
	v = c19Res(v)
	name, recv, args, ok := c19Refl(v)
	if !ok {
		return nil
	}
	switch name {
	case "ValueOf", "TypeOf":
		if len(args) == 1 {
			if mi, ok := c19Res(args[0]).(*ssa.MakeInterface); ok {
				return mi.X.Type()
			}
		}
	case "Value.Type":
		return c19ReflStatic(recv)
	case "Value.Elem", "Type.Elem":
		if t := c19ReflStatic(recv); t != nil {
			if pt, ok := t.Underlying().(*types.Pointer); ok {
				return pt.Elem()
			}
		}
	}
	return nil
}

// c19CoeffStruct returns the struct underlying the generic eval.CoeffSet.
func c19CoeffStruct(p *Prog) (*types.Named, *types.Struct) {
	pk := p.Pkg("eval")
	if pk == nil || pk.Types == nil {
		return nil, nil
	}
	tn, _ := pk.Types.Scope().Lookup("CoeffSet").(*types.TypeName)
	if tn == nil {
		return nil, nil
	}
	n, _ := tn.Type().(*types.Named)
	if n == nil {
		return nil, nil
	}
	s, _ := n.Underlying().(*types.Struct)
	return n, s
}

// c19CoeffLike: t is a struct with CoeffSet's field names in CoeffSet's order.
func c19CoeffLike(p *Prog, t types.Type) bool {
	_, cs := c19CoeffStruct(p)
	if t == nil || cs == nil {
		return false
	}
	st, ok := t.Underlying().(*types.Struct)
	if !ok || st.NumFields() != cs.NumFields() {
		return false
	}
	for i := 0; i < st.NumFields(); i++ {
		if st.Field(i).Name() != cs.Field(i).Name() {
			return false
		}
	}
	return true
}

func c19ReflKind(p *Prog, name string) (int64, bool) {
	pk := p.All["reflect"]
	if pk == nil || pk.Types == nil {
		return 0, false
	}
	k, _ := pk.Types.Scope().Lookup(name).(*types.Const)
	if k == nil {
		return 0, false
	}
	return constant.Int64Val(constant.ToInt(k.Val()))
}

func c19IsBuiltin(v ssa.Value, name string) (*ssa.Call, bool) {
	call, ok := v.(*ssa.Call)
	if !ok {
		return nil, false
	}
	b, ok := call.Call.Value.(*ssa.Builtin)
	return call, ok && b.Name() == name
}

// c19PhiClosure follows phi edges from v; leaves are the non-phi values reached.
func c19PhiClosure(v ssa.Value) (phis map[*ssa.Phi]bool, leaves []ssa.Value) {
	phis = map[*ssa.Phi]bool{}
	seen := map[ssa.Value]bool{}
	var walk func(ssa.Value)
	walk = func(v ssa.Value) {
		if seen[v] {
			return
		}
		seen[v] = true
		if ph, ok := v.(*ssa.Phi); ok {
			phis[ph] = true
			for _, e := range ph.Edges {
				walk(e)
			}
			return
		}
		leaves = append(leaves, v)
	}
	walk(v)
	return
}

// c19AccOK: acc is a loop-carried accumulator whose only sources are step and values accepted by init.
func c19AccOK(acc, step ssa.Value, init func(ssa.Value) bool) bool {
	if _, ok := acc.(*ssa.Phi); !ok {
		return false
	}
	_, leaves := c19PhiClosure(acc)
	hasStep := false
	for _, l := range leaves {
		if l == step {
			hasStep = true
		} else if !init(l) {
			return false
		}
	}
	return hasStep
}

func c19IsZero(v ssa.Value) bool {
	k, ok := v.(*ssa.Const)
	if !ok {
		return false
	}
	n, isK := constOf(k)
	return isK && n == 0
}

func c19EmptySlice(v ssa.Value) bool {
	switch x := v.(type) {
	case *ssa.Const:
		return x.Value == nil
	case *ssa.Slice:
		if a, ok := x.X.(*ssa.Alloc); ok {
			if arr, ok := a.Type().Underlying().(*types.Pointer).Elem().Underlying().(*types.Array); ok {
				return arr.Len() == 0
			}
		}
	case *ssa.MakeSlice:
		return c19IsZero(x.Len)
	}
	return false
}

// ---------- ascending loops ----------

const (
	c19AscOK = iota
	c19AscOther
	c19AscUnknown
)

type c19Loop struct {
	phi    *ssa.Phi
	next   ssa.Value
	bounds []ssa.Value
}

// c19Asc recognises idx as the variable of a loop 0,1,2,… < bound.
func c19Asc(idx ssa.Value) (*c19Loop, int, string) {
	phi, ok := idx.(*ssa.Phi)
	if !ok {
		return nil, c19AscUnknown, fmt.Sprintf("index %s is not a loop-carried variable", idx.String())
	}
	if len(phi.Edges) != 2 {
		return nil, c19AscUnknown, "loop variable has more than two sources"
	}
	lp := &c19Loop{phi: phi}
	zero := false
	for _, e := range phi.Edges {
		if c19IsZero(e) {
			zero = true
			continue
		}
		if b, ok := e.(*ssa.BinOp); ok && b.Op == token.ADD {
			if k, isK := constOf(b.Y); b.X == phi && isK && k == 1 {
				lp.next = b
				continue
			}
			if k, isK := constOf(b.X); b.Y == phi && isK && k == 1 {
				lp.next = b
				continue
			}
		}
		return nil, c19AscOther, fmt.Sprintf("loop variable takes the value %s, which is neither 0 nor the variable plus one", e.String())
	}
	if !zero || lp.next == nil {
		return nil, c19AscOther, "loop variable does not start at 0 and step by +1"
	}
	for _, v := range []ssa.Value{phi, lp.next} {
		for _, r := range c19Refs(v) {
			if b, ok := r.(*ssa.BinOp); ok && b.Op == token.LSS && b.X == v {
				lp.bounds = append(lp.bounds, b.Y)
			}
		}
	}
	if len(lp.bounds) == 0 {
		return nil, c19AscUnknown, "no loop condition of the form i < bound found"
	}
	return lp, c19AscOK, ""
}

type c19Order struct {
	construct string
	pos       token.Pos
	status    int
	why       string
}

// c19Static lists own functions reachable from root through static calls and nested closures.
func c19Static(root *ssa.Function) (fns []*ssa.Function, dyn []ssa.Instruction) {
	seen := map[*ssa.Function]bool{}
	var visit func(fn *ssa.Function)
	visit = func(fn *ssa.Function) {
		if fn == nil || seen[fn] || !isOwn(fn) || fn.Blocks == nil {
			return
		}
		seen[fn] = true
		fns = append(fns, fn)
		for _, a := range fn.AnonFuncs {
			visit(a)
		}
		allInstrs(fn, func(in ssa.Instruction) {
			ci, ok := in.(ssa.CallInstruction)
			if !ok {
				return
			}
			cc := ci.Common()
			if callee := cc.StaticCallee(); callee != nil {
				visit(callee)
				return
			}
			if _, ok := cc.Value.(*ssa.Builtin); ok {
				return
			}
			dyn = append(dyn, in)
		})
	}
	visit(root)
	sort.Slice(fns, func(i, j int) bool { return fns[i].String() < fns[j].String() })
	return
}

func c19IsScore(t types.Type) bool {
	n, ok := types.Unalias(t).(*types.Named)
	return ok && n.Obj().Name() == "Score" && n.Obj().Pkg() != nil && n.Obj().Pkg().Path() == Mod+"/chess"
}

// ---------- R1 ----------

// c19EvalCalls lists calls in fn to instances of the generic eval.Eval.
func c19EvalCalls(fn, origin *ssa.Function) []*ssa.Call {
	var out []*ssa.Call
	allInstrs(fn, func(in ssa.Instruction) {
		if call, ok := in.(*ssa.Call); ok {
			if sc := call.Call.StaticCallee(); sc != nil && (sc.Origin() == origin || sc == origin) {
				out = append(out, call)
			}
		}
	})
	return out
}

var c19TypeTestHomes = map[string]bool{"eval.sigmoidal": true, "eval.(*scorePair).taperedScore": true}

func c19R1Tuner(c *Ctx, p *Prog) *ssa.Function {
	const rule = "C19.R1"
	spec := c19Tun + ".(*EngineRep).Eval"
	fn, origin := p.Func(spec), p.Func("eval.Eval")
	if fn == nil {
		c.Anchor(rule, spec)
		return nil
	}
	if origin == nil {
		c.Anchor(rule, "eval.Eval")
		return nil
	}
	calls := c19EvalCalls(fn, origin)
	if len(calls) != 1 || len(fn.Params) != 2 {
		c.Undec(rule, spec+"#call", fn.Pos(), "expected exactly one call of an instance of eval.Eval in EngineRep.Eval, found %d", len(calls))
		return nil
	}
	call := calls[0]
	inst := call.Call.StaticCallee()
	ta := inst.TypeArgs()
	isF64 := len(ta) == 1 && types.Identical(ta[0], types.Typ[types.Float64])
	c.Check(isF64, rule, spec+"#instance", call.Pos(), "EngineRep.Eval calls %s, an instance of the generic eval.Eval declared in %s (type argument must be float64)", inst.String(), p.Rel(origin.Pos()))
	okArgs := len(call.Call.Args) == 2 && call.Call.Args[0] == fn.Params[1] && c19Strip(call.Call.Args[1]) == ssa.Value(fn.Params[0])
	c.Check(okArgs, rule, spec+"#args", call.Pos(), "the tuner evaluates its own board argument with its own receiver as coefficient set (a mere type change of e); otherwise the perturbed coefficients are not the ones evaluated")
	if !isF64 {
		return nil
	}
	// type tests in the closure
	fns, dyn := c19Static(inst)
	for i, in := range dyn {
		c.Undec(rule, fmt.Sprintf("dynamic-call:%s#%d", fnOfInstr(in), i), in.Pos(), "dynamic call inside the evaluation closure: shared-body argument does not cover its targets")
	}
	tests := 0
	for _, f := range fns {
		home := objName(fnObj(f))
		allInstrs(f, func(in ssa.Instruction) {
			switch x := in.(type) {
			case *ssa.TypeAssert:
				tests++
				_, boxed := x.X.(*ssa.MakeInterface)
				if x.CommaOk && c19IsScore(x.AssertedType) && boxed && c19TypeTestHomes[home] {
					c.Ok(rule, "typetest:"+home, x.Pos(), "dynamic type test any(x).(Score) in %s: one of the two audited type-dependent places (branches compared by R2)", home)
				} else {
					c.Undec(rule, "typetest:"+home, x.Pos(), "type-dependent code in %s that R2 does not compare: the integer and the float evaluation may diverge here — triage", home)
				}
			case *ssa.MakeInterface:
				for _, r := range c19Refs(x) {
					switch r.(type) {
					case *ssa.TypeAssert, *ssa.DebugRef:
					default:
						c.Undec(rule, "boxed:"+home, x.Pos(), "a value is boxed into an interface in %s and used by %T: behaviour may depend on the instantiation type outside the audited type tests", home, r)
					}
				}
			}
		})
	}
	c.Exact(rule, tests, 2, "dynamic type tests in the static closure of eval.Eval[float64] ("+fmt.Sprint(len(fns))+" functions)")
	return inst
}

func c19R1Engine(c *Ctx, p *Prog) {
	const rule = "C19.R1.engine"
	origin := p.Func("eval.Eval")
	if origin == nil {
		c.Anchor(rule, "eval.Eval")
		return
	}
	var coeff *ssa.Global
	if sp := p.SSAPkg("eval"); sp != nil {
		coeff, _ = sp.Members["Coefficients"].(*ssa.Global)
	}
	if coeff == nil {
		c.Anchor(rule, "eval.Coefficients")
		return
	}
	n := 0
	per := map[string]int{}
	for _, fn := range p.OwnFuncs() {
		if fnPkgPath(fn) == Mod+"/eval" {
			continue
		}
		for _, call := range c19EvalCalls(fn, origin) {
			n++
			name := fnName(fn)
			per[name]++
			cons := fmt.Sprintf("%s#%d", name, per[name])
			ta := call.Call.StaticCallee().TypeArgs()
			if len(ta) != 1 || !c19IsScore(ta[0]) {
				c.Fail(rule, cons, call.Pos(), "engine calls %s: not the Score instance of eval.Eval", call.Call.StaticCallee().String())
				continue
			}
			if len(call.Call.Args) == 2 && call.Call.Args[1] == ssa.Value(coeff) {
				c.Ok(rule, cons, call.Pos(), "%s evaluates with eval.Eval[Score] and &eval.Coefficients, the set tuning.EngineCoeffs loads and Save regenerates", name)
			} else {
				c.Undec(rule, cons, call.Pos(), "%s evaluates with a coefficient set other than &eval.Coefficients: cannot tell whether it is the tuned one", name)
			}
		}
	}
	c.Floor(rule, n, 1, "engine call sites of eval.Eval (today: search x2, uci x1)")
	// eval.Coefficients is never written after initialisation
	bad := 0
	for _, fn := range p.OwnFuncs() {
		allInstrs(fn, func(in ssa.Instruction) {
			for _, op := range in.Operands(nil) {
				if *op != ssa.Value(coeff) {
					continue
				}
				if why := c19ReadOnlyUse(in, coeff, origin, 0); why != "" && !isInitName(fnName(fn)) {
					bad++
					c.Fail(rule, "eval.Coefficients@"+fnName(fn), in.Pos(), "%s %s eval.Coefficients: the engine would play with values the tuner never saw", fnName(fn), why)
				}
			}
		})
	}
	if bad == 0 {
		c.Ok(rule, "eval.Coefficients#immutable", coeff.Pos(), "eval.Coefficients is only loaded, or passed to eval.Eval (which C17.R1 shows store-free), outside package initialisation")
	}
}

// c19ReadOnlyUse: "" when instruction in uses address v only for reading.
func c19ReadOnlyUse(in ssa.Instruction, v ssa.Value, evalOrigin *ssa.Function, depth int) string {
	switch x := in.(type) {
	case *ssa.UnOp:
		if x.Op == token.MUL {
			return ""
		}
	case *ssa.DebugRef:
		return ""
	case *ssa.FieldAddr, *ssa.IndexAddr:
		if depth > 6 {
			return "derives a deep address from"
		}
		for _, r := range c19Refs(x.(ssa.Value)) {
			if why := c19ReadOnlyUse(r, x.(ssa.Value), evalOrigin, depth+1); why != "" {
				return why
			}
		}
		return ""
	case *ssa.Store:
		if x.Addr == v {
			return "stores to"
		}
		return "stores the address of"
	case *ssa.Call:
		if sc := x.Call.StaticCallee(); sc != nil && sc.Origin() == evalOrigin {
			return ""
		}
		return "passes the address to " + x.Call.Value.Name() + " of"
	}
	return fmt.Sprintf("uses (%T) the address of", in)
}

// ---------- R2 ----------

// c19Norm renders an SSA value as an expression in normal form: conversions
// stripped, + and * flattened and sorted, constants by value. opaque is set when
// a node the renderer does not understand is met.
func c19Norm(v ssa.Value, opaque *bool, depth int) string {
	if depth > 60 {
		*opaque = true
		return "…"
	}
	v = c19Strip(v)
	rec := func(x ssa.Value) string { return c19Norm(x, opaque, depth+1) }
	fld := func(t types.Type, i int) string {
		if _, s := structOf(t); s != nil && i < s.NumFields() {
			return s.Field(i).Name()
		}
		return fmt.Sprintf("#%d", i)
	}
	switch x := v.(type) {
	case *ssa.Const:
		if x.Value == nil {
			return "zero"
		}
		val := x.Value
		if val.Kind() == constant.Float {
			if i := constant.ToInt(val); i.Kind() == constant.Int {
				val = i
			}
		}
		return val.ExactString()
	case *ssa.Parameter:
		return x.Name()
	case *ssa.FreeVar:
		return x.Name()
	case *ssa.Global:
		return x.Name()
	case *ssa.UnOp:
		if x.Op == token.MUL {
			return "*" + rec(x.X)
		}
		return x.Op.String() + "(" + rec(x.X) + ")"
	case *ssa.FieldAddr:
		return rec(x.X) + "." + fld(x.X.Type(), x.Field)
	case *ssa.Field:
		return rec(x.X) + "." + fld(x.X.Type(), x.Field)
	case *ssa.IndexAddr:
		return rec(x.X) + "[" + rec(x.Index) + "]"
	case *ssa.Index:
		return rec(x.X) + "[" + rec(x.Index) + "]"
	case *ssa.BinOp:
		if x.Op == token.ADD || x.Op == token.MUL {
			var parts []string
			var flat func(ssa.Value)
			flat = func(y ssa.Value) {
				y = c19Strip(y)
				if b, ok := y.(*ssa.BinOp); ok && b.Op == x.Op {
					flat(b.X)
					flat(b.Y)
					return
				}
				parts = append(parts, rec(y))
			}
			flat(x)
			sort.Strings(parts)
			return "(" + strings.Join(parts, x.Op.String()) + ")"
		}
		return "(" + rec(x.X) + x.Op.String() + rec(x.Y) + ")"
	case *ssa.Call:
		name := "dyn"
		if sc := x.Call.StaticCallee(); sc != nil {
			name = fnName(sc)
			if o := sc.Origin(); o != nil {
				name = fnName(o)
			}
		} else if b, ok := x.Call.Value.(*ssa.Builtin); ok {
			name = b.Name()
		} else {
			*opaque = true
		}
		var args []string
		for _, a := range x.Call.Args {
			args = append(args, rec(a))
		}
		return name + "(" + strings.Join(args, ",") + ")"
	}
	*opaque = true
	return fmt.Sprintf("%T:%s", v, v.Name())
}

// c19Eval evaluates the arithmetic skeleton (+ - * / and negation, conversions
// ignored, i.e. as a rational function) of an SSA expression; every other node
// is a leaf whose value is a deterministic function of its normal form.
func c19Eval(v ssa.Value, probe int, leaves map[string]float64, callLeaves map[string]bool) (float64, bool) {
	return c19EvalEnv(v, probe, leaves, callLeaves, nil, 0)
}

// c19EvalEnv: env binds the parameters of an inlined single-expression chess-3 helper.
func c19EvalEnv(v ssa.Value, probe int, leaves map[string]float64, callLeaves map[string]bool, env map[*ssa.Parameter]float64, depth int) (float64, bool) {
	v = c19Strip(v)
	if pr, ok := v.(*ssa.Parameter); ok && env != nil {
		f, has := env[pr]
		return f, has
	}
	switch x := v.(type) {
	case *ssa.Const:
		if x.Value != nil && (x.Value.Kind() == constant.Int || x.Value.Kind() == constant.Float) {
			f, _ := constant.Float64Val(constant.ToFloat(x.Value))
			return f, true
		}
	case *ssa.BinOp:
		a, ok1 := c19EvalEnv(x.X, probe, leaves, callLeaves, env, depth)
		b, ok2 := c19EvalEnv(x.Y, probe, leaves, callLeaves, env, depth)
		if !ok1 || !ok2 {
			return 0, false
		}
		switch x.Op {
		case token.ADD:
			return a + b, true
		case token.SUB:
			return a - b, true
		case token.MUL:
			return a * b, true
		case token.QUO:
			return a / b, true
		}
		return 0, false
	case *ssa.UnOp:
		if x.Op == token.SUB {
			a, ok := c19EvalEnv(x.X, probe, leaves, callLeaves, env, depth)
			return -a, ok
		}
	case *ssa.Call:
		// min/max (builtin or math) are interpreted
		name := ""
		if b, ok := x.Call.Value.(*ssa.Builtin); ok {
			name = b.Name()
		} else if sc := x.Call.StaticCallee(); sc != nil && (sc.String() == "math.Min" || sc.String() == "math.Max") {
			name = strings.ToLower(sc.Name())
		}
		if (name == "min" || name == "max") && len(x.Call.Args) > 0 {
			res := 0.0
			for i, a := range x.Call.Args {
				f, ok := c19EvalEnv(a, probe, leaves, callLeaves, env, depth)
				if !ok {
					return 0, false
				}
				if i == 0 || (name == "min" && f < res) || (name == "max" && f > res) {
					res = f
				}
			}
			return res, true
		}
		// single-expression chess-3 helper: evaluate its result over the argument values
		if fn := x.Call.StaticCallee(); fn != nil && isOwn(fn) && len(fn.Blocks) == 1 && len(fn.Params) == len(x.Call.Args) && depth < 3 {
			if ret, ok := fn.Blocks[0].Instrs[len(fn.Blocks[0].Instrs)-1].(*ssa.Return); ok && len(ret.Results) == 1 {
				ne := map[*ssa.Parameter]float64{}
				okArgs := true
				for i, a := range x.Call.Args {
					f, ok := c19EvalEnv(a, probe, leaves, callLeaves, env, depth)
					if !ok {
						okArgs = false
					}
					ne[fn.Params[i]] = f
				}
				if okArgs {
					if f, ok := c19EvalEnv(ret.Results[0], probe, leaves, callLeaves, ne, depth+1); ok {
						return f, true
					}
				}
			}
		}
	}
	if env != nil {
		return 0, false // a non-parameter leaf inside an inlined helper has no caller-side name
	}
	op := false
	key := c19Norm(v, &op, 0)
	if op {
		return 0, false
	}
	if _, isCall := v.(*ssa.Call); isCall {
		callLeaves[key] = true
	}
	h := fnv.New64a()
	fmt.Fprintf(h, "%d|%s", probe, key)
	val := 1 + float64(h.Sum64()%9973)/97.0
	leaves[key] = val
	return val, true
}

// c19Branches splits fn at its single any(x).(Score) test.
func c19Branches(fn *ssa.Function) (ta *ssa.TypeAssert, intRets, fltRets []*ssa.Return, why string) {
	allInstrs(fn, func(in ssa.Instruction) {
		if x, ok := in.(*ssa.TypeAssert); ok && x.CommaOk && c19IsScore(x.AssertedType) {
			if ta != nil {
				why = "more than one type test"
			}
			ta = x
		}
	})
	if ta == nil {
		return nil, nil, nil, "no any(x).(Score) test"
	}
	if why != "" {
		return
	}
	var iff *ssa.If
	neg := false
	for _, r := range c19Refs(ta) {
		ex, ok := r.(*ssa.Extract)
		if !ok || ex.Index != 1 {
			continue
		}
		for _, u := range c19Refs(ex) {
			switch y := u.(type) {
			case *ssa.If:
				iff = y
			case *ssa.UnOp:
				if y.Op == token.NOT {
					for _, w := range c19Refs(y) {
						if z, ok := w.(*ssa.If); ok {
							iff, neg = z, true
						}
					}
				}
			}
		}
	}
	if iff == nil {
		return ta, nil, nil, "the ok result does not control a branch"
	}
	ih, fh := iff.Block().Succs[0], iff.Block().Succs[1]
	if neg {
		ih, fh = fh, ih
	}
	for _, b := range fn.Blocks {
		ret, ok := b.Instrs[len(b.Instrs)-1].(*ssa.Return)
		if !ok {
			continue
		}
		switch {
		case len(ih.Preds) == 1 && ih.Dominates(b):
			intRets = append(intRets, ret)
		case len(fh.Preds) == 1 && fh.Dominates(b):
			fltRets = append(fltRets, ret)
		default:
			return ta, nil, nil, "a return is reachable from both branches"
		}
	}
	if len(intRets) != 1 || len(fltRets) != 1 || len(intRets[0].Results) != 1 || len(fltRets[0].Results) != 1 {
		return ta, nil, nil, fmt.Sprintf("expected one return per branch, found %d integer / %d float", len(intRets), len(fltRets))
	}
	return
}

func c19FindInst(fns []*ssa.Function, spec string) *ssa.Function {
	for _, f := range fns {
		if objName(fnObj(f)) == spec && f.Parent() == nil && len(f.TypeArgs()) > 0 && f.Synthetic != "" && strings.HasPrefix(f.Synthetic, "instance of") {
			return f
		}
	}
	return nil
}

func c19R2(c *Ctx, p *Prog, inst *ssa.Function) {
	const rule = "C19.R2"
	if inst == nil {
		c.Anchor(rule, "eval.Eval[float64] (not resolved by R1)")
		return
	}
	fns, _ := c19Static(inst)
	n := 0
	// (a) taperedScore
	tsSpec := "eval.(*scorePair).taperedScore"
	if ts := c19FindInst(fns, tsSpec); ts == nil {
		c.Anchor(rule, tsSpec+"[float64]")
	} else if _, ir, fr, why := c19Branches(ts); why != "" {
		c.Undec(rule, tsSpec+"#branches", ts.Pos(), "cannot split taperedScore into an integer and a float branch: %s", why)
	} else {
		n++
		o1, o2 := false, false
		si, sf := c19Norm(ir[0].Results[0], &o1, 0), c19Norm(fr[0].Results[0], &o2, 0)
		switch {
		case si == sf:
			c.Ok(rule, tsSpec+"#agree", fr[0].Pos(), "integer and float branch of taperedScore are the same expression after stripping conversions: %s", sf)
		default:
			agree, decided := true, true
			var witness, foreign string
			for probe := 0; probe < 8 && decided && agree; probe++ {
				lv, ci, cf := map[string]float64{}, map[string]bool{}, map[string]bool{}
				a, ok1 := c19Eval(ir[0].Results[0], probe, lv, ci)
				b, ok2 := c19Eval(fr[0].Results[0], probe, lv, cf)
				for k := range ci {
					if !cf[k] {
						foreign = k
					}
				}
				for k := range cf {
					if !ci[k] {
						foreign = k
					}
				}
				if !ok1 || !ok2 {
					decided = false
				} else if math.Abs(a-b) > 1e-9*math.Max(1, math.Max(math.Abs(a), math.Abs(b))) {
					agree = false
					var ks []string
					for _, k := range sortedKeys(lv) {
						ks = append(ks, fmt.Sprintf("%s=%.4g", k, lv[k]))
					}
					witness = fmt.Sprintf("with %s the integer formula gives %.6g (before truncation), the float formula %.6g", strings.Join(ks, ", "), a, b)
				}
			}
			if !agree && foreign != "" {
				decided = false // a call the rule does not interpret occurs in one branch only: it may equal what the other branch computes
			}
			switch {
			case !decided:
				c.Undec(rule, tsSpec+"#agree", fr[0].Pos(), "branches of taperedScore differ and contain non-arithmetic structure the rule cannot compare: int %s / float %s", si, sf)
			case agree:
				c.Ok(rule, tsSpec+"#agree", fr[0].Pos(), "branches of taperedScore differ syntactically (int %s / float %s) but are equal as rational functions on 8 pseudo-random leaf assignments", si, sf)
			default:
				c.Fail(rule, tsSpec+"#agree", fr[0].Pos(), "integer and float branch of taperedScore compute different formulas: int %s / float %s; %s — the tuner minimises the error of an evaluation the engine does not play", si, sf, witness)
			}
		}
	}
	// (b) sigmoidal
	sgSpec := "eval.sigmoidal"
	sg := c19FindInst(fns, sgSpec)
	if sg == nil {
		c.Anchor(rule, sgSpec+"[float64]")
		c.Floor(rule, n, 2, "type switches whose branches were compared")
		return
	}
	_, ir, fr, why := c19Branches(sg)
	if why != "" || len(sg.Params) != 1 {
		c.Undec(rule, sgSpec+"#branches", sg.Pos(), "cannot split sigmoidal into an integer and a float branch: %s", why)
		c.Floor(rule, n, 2, "type switches whose branches were compared")
		return
	}
	n++
	nParam := ssa.Value(sg.Params[0])
	// table
	init, pk := p.pkgVarInit("eval.sigm")
	var tab []int64
	if init == nil || pk == nil {
		c.Anchor(rule, "eval.sigm")
	} else if vals, shape, err := literalInts(pk.TypesInfo, init); err != nil || len(shape) != 1 {
		c.Undec(rule, "eval.sigm#literal", init.Pos(), "sigm is not a flat literal of integer constants: %v", err)
	} else {
		for _, u := range vals {
			tab = append(tab, int64(u))
		}
		if w := p.nonInitGlobalWriters("eval.sigm"); len(w) > 0 {
			c.Fail(rule, "eval.sigm#immutable", init.Pos(), "sigm is written or escapes outside initialisation (%v): its literal is not what the engine reads", w)
			tab = nil
		}
	}
	// integer branch: sigm[clamp(n, 0, len-1)], the clamp being chess.Clamp or any min/max nest (helpers inlined)
	okIdx := false
	if ld, ok := c19Strip(ir[0].Results[0]).(*ssa.UnOp); ok && ld.Op == token.MUL && tab != nil {
		if ia, ok := ld.X.(*ssa.IndexAddr); ok {
			if g, isG := ia.X.(*ssa.Global); isG && g.Name() == "sigm" && g.Pkg != nil && g.Pkg.Pkg.Path() == Mod+"/eval" {
				okIdx = true
				r := c19Clamp(ia.Index, nil, 0)
				switch {
				case r.x == nil || c19Strip(r.x) != nParam:
					c.Undec(rule, sgSpec+"#index", ia.Pos(), "the table index is not a clamp (min/max nest or single-expression helper) of the function's argument")
				case r.lo == nil || r.hi == nil:
					c.Undec(rule, sgSpec+"#index", ia.Pos(), "the table index is not clamped to constants on both sides inside sigmoidal (the table has %d entries): cannot tell that king-attack scores outside the table behave like the tuner's closed form, which is defined everywhere", len(tab))
				default:
					c.Check(*r.lo == 0 && *r.hi == int64(len(tab))-1, rule, sgSpec+"#index", ia.Pos(), "integer branch reads sigm[clamp(n, %d, %d)]; the table has %d entries (bounds must be 0 and len-1: a narrower clamp makes the top entries unreachable, a wider one indexes out of range)", *r.lo, *r.hi, len(tab))
				}
			}
		}
	}
	if !okIdx && tab != nil {
		c.Undec(rule, sgSpec+"#index", ir[0].Pos(), "integer branch is not T(sigm[clamp(int(n), lo, hi)])")
	}
	// float branch: c1/(1+exp(-c2*(n-c3)))
	c1, c2, c3, why := c19Sigmoid(fr[0].Results[0], nParam)
	if why != "" {
		c.Undec(rule, sgSpec+"#closed-form", fr[0].Pos(), "float branch is not of the shape c1/(1+exp(-c2*(n-c3))): %s", why)
	} else if tab != nil {
		f := func(x float64) float64 { return c1 / (1 + math.Exp(-c2*(x-c3))) }
		bad, first := 0, ""
		mono := c1 > 0 && c2 > 0
		for i, t := range tab {
			y := f(float64(i))
			r := math.Round(y)
			near := math.Abs(math.Abs(y-math.Floor(y))-0.5) < 1e-9
			if float64(t) != r && !(near && math.Abs(float64(t)-y) <= 0.5+1e-9) {
				if bad == 0 {
					first = fmt.Sprintf("sigm[%d] = %d but round(f(%d)) = %.0f (f = %.4f)", i, t, i, r, y)
				}
				bad++
			}
			if i > 0 && tab[i] < tab[i-1] {
				mono = false
			}
		}
		desc := fmt.Sprintf("f(n) = %g/(1+exp(-%g*(n-%g))) read from the float branch", c1, c2, c3)
		if bad > 0 {
			c.Fail(rule, "eval.sigm#table", init.Pos(), "%d of %d table entries differ from %s: %s — for king-attack score %s the engine adds a bonus the tuner's model does not", bad, len(tab), desc, first, strings.SplitN(strings.TrimPrefix(first, "sigm["), "]", 2)[0])
		} else {
			c.Ok(rule, "eval.sigm#table", init.Pos(), "all %d entries equal round(f(i)), %s", len(tab), desc)
		}
		c.Check(mono, rule, "eval.sigm#monotone", init.Pos(), "closed form has positive amplitude and slope and the table is non-decreasing")
		lo, hi := f(0), f(float64(len(tab)-1))
		c.Check(math.Abs(lo) < 0.5 && math.Abs(c1-hi) < 0.5, rule, "eval.sigm#tails", init.Pos(), "clamping is within rounding: f(0) = %.4f (limit 0 for n<0), f(%d) = %.4f (limit %g for larger n); both must be closer than 0.5 to their limits", lo, len(tab)-1, hi, c1)
	}
	c.Floor(rule, n, 2, "type switches whose branches were compared")
}

// c19Clamped is x limited to [lo, hi] (nil = unbounded); x == nil with lo == hi for a constant.
type c19Clamped struct {
	x      ssa.Value
	lo, hi *int64
}

// c19Clamp evaluates nests of the builtins min/max over one non-constant
// operand, inlining single-expression chess-3 helpers such as chess.Clamp.
func c19Clamp(v ssa.Value, env map[*ssa.Parameter]c19Clamped, depth int) c19Clamped {
	v = c19Strip(v)
	if k, ok := v.(*ssa.Const); ok {
		if n, isK := constOf(k); isK {
			return c19Clamped{lo: &n, hi: &n}
		}
	}
	if p, ok := v.(*ssa.Parameter); ok {
		if r, has := env[p]; has {
			return r
		}
	}
	if ph, ok := v.(*ssa.Phi); ok && depth <= 4 {
		// guarded assignment: x' = phi[x, K] under a comparison
		if len(ph.Edges) == 2 {
			if d := ph.Block().Idom(); d != nil && len(d.Instrs) > 0 {
				if iff, isIf := d.Instrs[len(d.Instrs)-1].(*ssa.If); isIf {
					var vt, vf ssa.Value
					for i, pr := range ph.Block().Preds {
						switch {
						case (pr == d && d.Succs[0] == ph.Block()) || (pr != d && d.Succs[0].Dominates(pr) && len(d.Succs[0].Preds) == 1):
							vt = ph.Edges[i]
						case (pr == d && d.Succs[1] == ph.Block()) || (pr != d && d.Succs[1].Dominates(pr) && len(d.Succs[1].Preds) == 1):
							vf = ph.Edges[i]
						}
					}
					if cond, isC := iff.Cond.(*ssa.BinOp); isC && vt != nil && vf != nil {
						if r, ok := c19Select(cond, c19Clamp(vt, env, depth+1), c19Clamp(vf, env, depth+1), env, depth); ok {
							return r
						}
					}
				}
			}
		}
		return c19Clamped{x: v}
	}
	call, ok := v.(*ssa.Call)
	if !ok || depth > 4 {
		return c19Clamped{x: v}
	}
	if b, isB := call.Call.Value.(*ssa.Builtin); isB && (b.Name() == "min" || b.Name() == "max") {
		var res *c19Clamped
		var k *int64
		for _, a := range call.Call.Args {
			r := c19Clamp(a, env, depth+1)
			switch {
			case r.x == nil && r.lo != nil:
				if k == nil || (b.Name() == "min" && *r.lo < *k) || (b.Name() == "max" && *r.lo > *k) {
					n := *r.lo
					k = &n
				}
			case res == nil:
				res = &r
			default:
				return c19Clamped{x: v}
			}
		}
		if res == nil {
			return c19Clamped{lo: k, hi: k}
		}
		if k != nil && b.Name() == "min" && (res.hi == nil || *k < *res.hi) {
			res.hi = k
		}
		if k != nil && b.Name() == "max" && (res.lo == nil || *k > *res.lo) {
			res.lo = k
		}
		if res.lo != nil && res.hi != nil && *res.lo > *res.hi {
			return c19Clamped{x: v} // min/max do not commute when the bounds cross
		}
		return *res
	}
	if fn := call.Call.StaticCallee(); fn != nil && isOwn(fn) && len(fn.Blocks) == 1 && len(fn.Params) == len(call.Call.Args) {
		if ret, isRet := fn.Blocks[0].Instrs[len(fn.Blocks[0].Instrs)-1].(*ssa.Return); isRet && len(ret.Results) == 1 {
			ne := map[*ssa.Parameter]c19Clamped{}
			for i, p := range fn.Params {
				ne[p] = c19Clamp(call.Call.Args[i], env, depth+1)
			}
			return c19Clamp(ret.Results[0], ne, depth+1)
		}
	}
	// loop-free helper with guarded assignments / early returns
	if fn := call.Call.StaticCallee(); fn != nil && isOwn(fn) && len(fn.Blocks) > 1 && len(fn.Blocks) <= 12 && len(fn.Params) == len(call.Call.Args) {
		ne := map[*ssa.Parameter]c19Clamped{}
		for i, p := range fn.Params {
			ne[p] = c19Clamp(call.Call.Args[i], env, depth+1)
		}
		var from func(b *ssa.BasicBlock, steps int) (c19Clamped, bool)
		from = func(b *ssa.BasicBlock, steps int) (c19Clamped, bool) {
			if steps > 16 || len(b.Instrs) == 0 {
				return c19Clamped{}, false
			}
			switch last := b.Instrs[len(b.Instrs)-1].(type) {
			case *ssa.Return:
				if len(last.Results) != 1 {
					return c19Clamped{}, false
				}
				return c19Clamp(last.Results[0], ne, depth+1), true
			case *ssa.Jump:
				return from(b.Succs[0], steps+1)
			case *ssa.If:
				cond, isC := last.Cond.(*ssa.BinOp)
				t, ok1 := from(b.Succs[0], steps+1)
				f, ok2 := from(b.Succs[1], steps+1)
				if !isC || !ok1 || !ok2 {
					return c19Clamped{}, false
				}
				return c19Select(cond, t, f, ne, depth+1)
			}
			return c19Clamped{}, false
		}
		if r, ok := from(fn.Blocks[0], 0); ok {
			return r
		}
	}
	return c19Clamped{x: v}
}

func (a c19Clamped) isConst() bool { return a.x == nil && a.lo != nil && a.hi != nil && *a.lo == *a.hi }

func c19SameBound(a, b *int64) bool {
	return (a == nil && b == nil) || (a != nil && b != nil && *a == *b)
}

// c19Select: the value "if L rel R then T else F" in the clamp domain. Understood:
// a comparison of the clamped variable C (plain, or identical to the surviving
// branch value E) with a constant K where the guarded branch yields K:
// C < K ? K : E  =  clamp(x; K, hi(E))   and   C > K ? K : E  =  clamp(x; lo(E), K),
// both provided lo(E) <= K <= hi(E) for the bounds that exist.
func c19Select(cond *ssa.BinOp, t, f c19Clamped, env map[*ssa.Parameter]c19Clamped, depth int) (c19Clamped, bool) {
	// both branches yield the same value (the branch only fed a phi evaluated on its own)
	if (t.x != nil || t.isConst()) && ((t.x == nil && f.x == nil) || (t.x != nil && f.x != nil && c19Strip(t.x) == c19Strip(f.x))) && c19SameBound(t.lo, f.lo) && c19SameBound(t.hi, f.hi) {
		if _, opaque := t.x.(*ssa.Phi); !opaque {
			return t, true
		}
	}
	l, r := c19Clamp(cond.X, env, depth+1), c19Clamp(cond.Y, env, depth+1)
	op := cond.Op
	flip := map[token.Token]token.Token{token.LSS: token.GTR, token.GTR: token.LSS, token.LEQ: token.GEQ, token.GEQ: token.LEQ}
	neg := map[token.Token]token.Token{token.LSS: token.GEQ, token.GEQ: token.LSS, token.LEQ: token.GTR, token.GTR: token.LEQ}
	if _, ok := flip[op]; !ok {
		return c19Clamped{}, false
	}
	var cv, kv c19Clamped
	switch {
	case l.isConst() && !r.isConst():
		cv, kv, op = r, l, flip[op]
	case r.isConst() && !l.isConst():
		cv, kv = l, r
	default:
		return c19Clamped{}, false
	}
	var e c19Clamped
	switch {
	case t.isConst() && !f.isConst():
		e = f
		if *t.lo != *kv.lo {
			return c19Clamped{}, false
		}
	case f.isConst() && !t.isConst():
		e, op = t, neg[op]
		if *f.lo != *kv.lo {
			return c19Clamped{}, false
		}
	default:
		return c19Clamped{}, false
	}
	k := *kv.lo
	if cv.x == nil || e.x == nil || c19Strip(cv.x) != c19Strip(e.x) {
		return c19Clamped{}, false
	}
	plain := cv.lo == nil && cv.hi == nil
	if !plain && !(c19SameBound(cv.lo, e.lo) && c19SameBound(cv.hi, e.hi)) {
		return c19Clamped{}, false
	}
	if (e.lo != nil && *e.lo > k) || (e.hi != nil && *e.hi < k) {
		return c19Clamped{}, false
	}
	res := c19Clamped{x: e.x, lo: e.lo, hi: e.hi}
	if op == token.LSS || op == token.LEQ {
		res.lo = &k
	} else {
		res.hi = &k
	}
	return res, true
}

func c19FloatConst(v ssa.Value) (float64, bool) {
	k, ok := c19Strip(v).(*ssa.Const)
	if !ok || k.Value == nil || (k.Value.Kind() != constant.Int && k.Value.Kind() != constant.Float) {
		return 0, false
	}
	f, _ := constant.Float64Val(constant.ToFloat(k.Value))
	return f, true
}

// c19Sigmoid matches c1/(1+exp(-c2*(n-c3))) and returns the constants by role.
func c19Sigmoid(v, n ssa.Value) (c1, c2, c3 float64, why string) {
	// res sees through conversions and inlines single-expression chess-3 helpers (parameters bound to arguments)
	binds := map[*ssa.Parameter]ssa.Value{}
	res := func(v ssa.Value) ssa.Value {
		for d := 0; d < 8; d++ {
			v = c19Strip(v)
			if pr, ok := v.(*ssa.Parameter); ok {
				if b, has := binds[pr]; has {
					v = b
					continue
				}
			}
			if call, ok := v.(*ssa.Call); ok {
				if fn := call.Call.StaticCallee(); fn != nil && isOwn(fn) && len(fn.Blocks) == 1 && len(fn.Params) == len(call.Call.Args) {
					if ret, ok := fn.Blocks[0].Instrs[len(fn.Blocks[0].Instrs)-1].(*ssa.Return); ok && len(ret.Results) == 1 {
						clash := false
						for i, pr := range fn.Params {
							if b, has := binds[pr]; has && b != call.Call.Args[i] {
								clash = true
							}
						}
						if !clash {
							for i, pr := range fn.Params {
								binds[pr] = call.Call.Args[i]
							}
							v = ret.Results[0]
							continue
						}
					}
				}
			}
			return v
		}
		return v
	}
	konst := func(v ssa.Value) (float64, bool) {
		v = res(v)
		if u, ok := v.(*ssa.UnOp); ok && u.Op == token.SUB {
			f, ok := c19FloatConst(res(u.X))
			return -f, ok
		}
		return c19FloatConst(v)
	}
	q, ok := res(v).(*ssa.BinOp)
	if !ok || q.Op != token.QUO {
		return 0, 0, 0, "result is not a quotient"
	}
	if c1, ok = konst(q.X); !ok {
		return 0, 0, 0, "numerator is not a constant"
	}
	d, ok := res(q.Y).(*ssa.BinOp)
	if !ok || d.Op != token.ADD {
		return 0, 0, 0, "denominator is not a sum"
	}
	var ex ssa.Value
	if k, isK := konst(d.X); isK && k == 1 {
		ex = d.Y
	} else if k, isK := konst(d.Y); isK && k == 1 {
		ex = d.X
	} else {
		return 0, 0, 0, "denominator is not 1 + …"
	}
	call, ok := res(ex).(*ssa.Call)
	if !ok || call.Call.StaticCallee() == nil || call.Call.StaticCallee().String() != "math.Exp" || len(call.Call.Args) != 1 {
		return 0, 0, 0, "denominator is not 1 + math.Exp(…)"
	}
	arg := res(call.Call.Args[0])
	sign := 1.0 // exponent = sign * k * (n - c3)
	if u, ok := arg.(*ssa.UnOp); ok && u.Op == token.SUB {
		sign, arg = -1, res(u.X)
	}
	m, ok := arg.(*ssa.BinOp)
	if !ok || m.Op != token.MUL {
		return 0, 0, 0, "exponent is not a product"
	}
	k, isK := konst(m.X)
	diff := m.Y
	if !isK {
		k, isK = konst(m.Y)
		diff = m.X
	}
	if !isK {
		return 0, 0, 0, "exponent has no constant slope"
	}
	s, ok := res(diff).(*ssa.BinOp)
	if !ok || s.Op != token.SUB {
		return 0, 0, 0, "exponent is not slope*(n - midpoint)"
	}
	if res(s.X) == n {
		c3, ok = konst(s.Y)
	} else if res(s.Y) == n {
		c3, ok = konst(s.X)
		sign = -sign
	} else {
		ok = false
	}
	if !ok {
		return 0, 0, 0, "exponent is not slope*(n - midpoint) over the function's argument"
	}
	return c1, -sign * k, c3, ""
}

// ---------- R3 ----------

type c19Trav struct {
	c      *Ctx
	p      *Prog
	rule   string
	name   string // short name used in construct keys
	orders *[]c19Order
	// when the field walk lives in a shared iterator (range-over-func): the
	// iterator's closure and the loop-body function the fields are yielded to
	iter, body *ssa.Function
}

func (t *c19Trav) key(role string) string { return t.name + "#" + role }

// kindGuards: (reflect.Value v, kind) pairs such that Kind(v)==kind holds in block b.
func c19KindGuards(b *ssa.BasicBlock) map[ssa.Value]map[int64]bool {
	out := map[ssa.Value]map[int64]bool{}
	for _, ce := range controllingConds(b) {
		bo, ok := ce.Cond.(*ssa.BinOp)
		if !ok || !((bo.Op == token.EQL && ce.True) || (bo.Op == token.NEQ && !ce.True)) {
			continue
		}
		for _, pr := range [][2]ssa.Value{{bo.X, bo.Y}, {bo.Y, bo.X}} {
			name, recv, _, ok := c19Refl(pr[0])
			k, isK := constOf(pr[1])
			if ok && name == "Value.Kind" && isK {
				if out[recv] == nil {
					out[recv] = map[int64]bool{}
				}
				out[recv][k] = true
			}
		}
	}
	return out
}

func c19Guarded(b *ssa.BasicBlock, v ssa.Value, kind int64) bool { return c19KindGuards(b)[v][kind] }

// fieldSites: calls V.Field(i) in fn and its closures.
func c19FieldSites(fn *ssa.Function) []*ssa.Call {
	var out []*ssa.Call
	for _, f := range withClosures(fn) {
		allInstrs(f, func(in ssa.Instruction) {
			if call, ok := in.(*ssa.Call); ok {
				if name, _, _, ok := c19Refl(call); ok && name == "Value.Field" {
					out = append(out, call)
				}
			}
		})
	}
	return out
}

// top checks one V.Field(i) site of a top-level traversal: struct type, order,
// bound, filter. It returns the helper call the field is handed to and the argument position.
func (t *c19Trav) top(fc *ssa.Call, role string, filtered bool) (*ssa.Call, int) {
	c, p, rule := t.c, t.p, t.rule
	_, recv, args, _ := c19Refl(fc)
	st := c19ReflStatic(recv)
	switch {
	case st == nil:
		c.Undec(rule, t.key(role+".struct"), fc.Pos(), "cannot resolve the static type behind the reflect.Value whose fields are walked")
	case c19CoeffLike(p, st):
		c.Ok(rule, t.key(role+".struct"), fc.Pos(), "walks the fields of %s, which has eval.CoeffSet's fields in CoeffSet's order", types.TypeString(st, c19RelQual))
	default:
		c.Fail(rule, t.key(role+".struct"), fc.Pos(), "walks the fields of %s, not of eval.CoeffSet: vector positions refer to other coefficients than in the sibling traversals", types.TypeString(st, c19RelQual))
	}
	lp, status, why := c19Asc(args[0])
	*t.orders = append(*t.orders, c19Order{t.key(role + ".order"), fc.Pos(), status, why})
	if lp == nil {
		return t.consumer(fc)
	}
	okB := true
	for _, b := range lp.bounds {
		name, r, _, ok := c19Refl(b)
		if !ok || (name != "Type.NumField" && name != "Value.NumField") || !c19CoeffLike(p, c19ReflStatic(r)) {
			okB = false
		}
	}
	if okB {
		c.Ok(rule, t.key(role+".bound"), fc.Pos(), "field loop runs up to NumField() of the CoeffSet-shaped struct")
	} else {
		c.Undec(rule, t.key(role+".bound"), fc.Pos(), "field loop bound is not NumField() of the walked struct: cannot tell that every field is visited")
	}
	// filter
	var sig []string
	for _, ce := range controllingConds(fc.Block()) {
		if bo, ok := ce.Cond.(*ssa.BinOp); ok {
			isB := false
			for _, b := range lp.bounds {
				if bo.Y == b {
					isB = true
				}
			}
			if bo.Op == token.LSS && isB && (bo.X == ssa.Value(lp.phi) || bo.X == lp.next || c19IsZero(bo.X)) {
				continue
			}
			nx, _, _, okx := c19Refl(bo.X)
			ny, _, _, oky := c19Refl(bo.Y)
			if (bo.Op == token.EQL || bo.Op == token.NEQ) && okx && oky && strings.HasSuffix(nx, ".NumField") && strings.HasSuffix(ny, ".NumField") {
				sig = append(sig, "numfield-guard")
				continue
			}
		}
		if a0, a1, ok := c19ContainsArgs(ce.Cond); ok {
			_, isParam := c19Res(a0).(*ssa.Parameter)
			okName := false
			if f, ok := a1.(*ssa.Field); ok {
				if s, ok := f.X.Type().Underlying().(*types.Struct); ok && s.Field(f.Field).Name() == "Name" {
					if name, r, a, ok := c19Refl(f.X); ok && name == "Type.Field" && len(a) == 1 && a[0] == ssa.Value(lp.phi) && c19CoeffLike(p, c19ReflStatic(r)) {
						okName = true
					}
				}
			}
			if isParam && okName {
				sig = append(sig, fmt.Sprintf("Contains(targets, Field(i).Name)=%v", ce.True))
				continue
			}
		}
		sig = append(sig, "unknown:"+ce.Cond.String())
	}
	sort.Strings(sig)
	got := strings.Join(sig, " & ")
	want := "Contains(targets, Field(i).Name)=true"
	if !filtered {
		want = "numfield-guard"
		if got == "" {
			got = want
		}
	}
	switch {
	case got == want:
		c.Ok(rule, t.key(role+".filter"), fc.Pos(), "field is visited under exactly the condition %q", got)
	case strings.Contains(got, "unknown:"):
		c.Undec(rule, t.key(role+".filter"), fc.Pos(), "field is visited under %q; expected exactly %q as in the sibling traversals — cannot tell the selections agree", got, want)
	default:
		c.Fail(rule, t.key(role+".filter"), fc.Pos(), "field is visited under %q, the sibling traversals use %q: the traversals select different fields and vector positions shift", got, want)
	}
	return t.consumer(fc)
}

func c19RelQual(pk *types.Package) string { return relPkg(pk.Path()) }

// c19ContainsArgs: cond is slices.Contains(a, b), directly or through a
// single-expression chess-3 helper whose parameters are passed on unchanged.
func c19ContainsArgs(cond ssa.Value) (a0, a1 ssa.Value, ok bool) {
	call, isCall := cond.(*ssa.Call)
	if !isCall || len(call.Call.Args) != 2 {
		return nil, nil, false
	}
	if objName(calleeObj(call)) == "slices.Contains" {
		return call.Call.Args[0], call.Call.Args[1], true
	}
	fn := call.Call.StaticCallee()
	if fn == nil || !isOwn(fn) || len(fn.Blocks) != 1 || len(fn.Params) != 2 {
		return nil, nil, false
	}
	ret, isRet := fn.Blocks[0].Instrs[len(fn.Blocks[0].Instrs)-1].(*ssa.Return)
	if !isRet || len(ret.Results) != 1 {
		return nil, nil, false
	}
	in, isIn := ret.Results[0].(*ssa.Call)
	if !isIn || objName(calleeObj(in)) != "slices.Contains" || len(in.Call.Args) != 2 {
		return nil, nil, false
	}
	var out [2]ssa.Value
	for i, a := range in.Call.Args {
		for j, p := range fn.Params {
			if a == ssa.Value(p) {
				out[i] = call.Call.Args[j]
			}
		}
	}
	return out[0], out[1], out[0] != nil && out[1] != nil
}

// consumer: the helper call the selected field value reaches — directly, or as
// the parameter of the range-over-func body the shared iterator yields it to.
func (t *c19Trav) consumer(fc *ssa.Call) (*ssa.Call, int) {
	if hc, pos := c19HelperOf(fc); hc != nil {
		return hc, pos
	}
	if t.iter == nil || t.body == nil || len(t.iter.Params) != 1 || len(t.body.Params) != 1 {
		return nil, -1
	}
	n := 0
	for _, r := range c19Refs(fc) {
		if call, ok := r.(*ssa.Call); ok && c19Res(call.Call.Value) == ssa.Value(t.iter.Params[0]) && len(call.Call.Args) == 1 && call.Call.Args[0] == ssa.Value(fc) {
			n++
		}
	}
	if n != 1 {
		return nil, -1
	}
	return c19HelperOf(t.body.Params[0])
}

// c19IterCall recognises, in fn, `it(args…)(body)`: a chess-3 function returning an
// iterator closure that is immediately applied to a (range-over-func) body closure.
func c19IterCall(fn *ssa.Function) (mk *ssa.Call, iter, body *ssa.Function) {
	n := 0
	for _, f := range withClosures(fn) {
		allInstrs(f, func(in ssa.Instruction) {
			app, ok := in.(*ssa.Call)
			if !ok || len(app.Call.Args) != 1 {
				return
			}
			inner, ok := c19Strip(app.Call.Value).(*ssa.Call)
			if !ok {
				return
			}
			it := inner.Call.StaticCallee()
			bc, isMC := c19Strip(app.Call.Args[0]).(*ssa.MakeClosure)
			if it == nil || !isOwn(it) || !isMC || len(it.Params) != len(inner.Call.Args) {
				return
			}
			var cl *ssa.Function
			for _, r := range c19Returns(it.Blocks) {
				if len(r.Results) == 1 {
					if mc, ok := c19Strip(r.Results[0]).(*ssa.MakeClosure); ok {
						cl, _ = mc.Fn.(*ssa.Function)
					}
				}
			}
			if b, ok := bc.Fn.(*ssa.Function); ok && cl != nil {
				mk, iter, body = inner, cl, b
				n++
			}
		})
	}
	if n != 1 {
		return nil, nil, nil
	}
	return
}

// c19HelperOf: the own function the reflect.Value v is handed to.
func c19HelperOf(v ssa.Value) (*ssa.Call, int) {
	var hc *ssa.Call
	pos := -1
	n := 0
	for _, r := range c19Refs(v) {
		if call, ok := r.(*ssa.Call); ok {
			if sc := call.Call.StaticCallee(); sc != nil && isOwn(sc) {
				for i, a := range call.Call.Args {
					if a == v {
						hc, pos = call, i
						n++
					}
				}
			}
		}
	}
	if n != 1 {
		return nil, -1
	}
	return hc, pos
}

// array checks the recursive descent of helper h over the reflect.Value parameters vIdx.
func (t *c19Trav) array(h *ssa.Function, vIdx []int) *ssa.Call {
	c, p, rule := t.c, t.p, t.rule
	kArr, ok := c19ReflKind(p, "Array")
	if !ok {
		c.Anchor(rule, "reflect.Array")
		return nil
	}
	var recs []*ssa.Call
	allInstrs(h, func(in ssa.Instruction) {
		if call, ok := in.(*ssa.Call); ok && call.Call.StaticCallee() == h {
			recs = append(recs, call)
		}
	})
	if len(recs) != 1 {
		c.Undec(rule, t.key("array"), h.Pos(), "%s: expected exactly one recursive call for array elements, found %d", fnName(h), len(recs))
		return nil
	}
	rec := recs[0]
	var idx ssa.Value
	for _, k := range vIdx {
		name, recv, args, ok := c19Refl(rec.Call.Args[k])
		if !ok || name != "Value.Index" || recv != ssa.Value(h.Params[k]) {
			c.Undec(rule, t.key("array"), rec.Pos(), "%s: argument %d of the recursive call is not Index(i) of the corresponding parameter", fnName(h), k)
			return rec
		}
		if idx == nil {
			idx = args[0]
		} else if idx != args[0] {
			c.Fail(rule, t.key("array"), rec.Pos(), "%s: the recursive call pairs element %s of one array with element %s of the other: coefficients are copied to different positions", fnName(h), idx.String(), args[0].String())
			return rec
		}
		if !c19Guarded(rec.Block(), h.Params[k], kArr) {
			c.Undec(rule, t.key("array"), rec.Pos(), "%s: the recursion is not under Kind() == reflect.Array of parameter %s", fnName(h), h.Params[k].Name())
			return rec
		}
	}
	lp, status, why := c19Asc(idx)
	*t.orders = append(*t.orders, c19Order{t.key("array.order"), rec.Pos(), status, why})
	if lp != nil {
		okB := true
		for _, b := range lp.bounds {
			name, r, _, ok := c19Refl(b)
			isP := false
			for _, k := range vIdx {
				if r == ssa.Value(h.Params[k]) {
					isP = true
				}
			}
			if !ok || name != "Value.Len" || !isP {
				okB = false
			}
		}
		if okB {
			c.Ok(rule, t.key("array"), rec.Pos(), "%s recurses into v.Index(i) for i below v.Len(), under Kind()==Array", fnName(h))
		} else {
			c.Undec(rule, t.key("array"), rec.Pos(), "%s: array loop bound is not Len() of the array parameter: cannot tell that every element is visited", fnName(h))
		}
	}
	return rec
}

// leafBlocks: blocks of h in which Kind(param)==kind is known.
func c19LeafBlocks(h *ssa.Function, v ssa.Value, kind int64) []*ssa.BasicBlock {
	var out []*ssa.BasicBlock
	for _, b := range h.Blocks {
		if c19Guarded(b, v, kind) {
			out = append(out, b)
		}
	}
	return out
}

func c19Returns(bs []*ssa.BasicBlock) []*ssa.Return {
	var out []*ssa.Return
	for _, b := range bs {
		if r, ok := b.Instrs[len(b.Instrs)-1].(*ssa.Return); ok {
			out = append(out, r)
		}
	}
	return out
}

func c19R3(c *Ctx, p *Prog) {
	const rule = "C19.R3"
	var orders []c19Order
	kArr, ok1 := c19ReflKind(p, "Array")
	kF64, ok2 := c19ReflKind(p, "Float64")
	kI16, ok3 := c19ReflKind(p, "Int16")
	if !ok1 || !ok2 || !ok3 {
		c.Anchor(rule, "reflect.Array/Float64/Int16")
		return
	}
	done := 0
	mk := func(name string) *c19Trav { return &c19Trav{c: c, p: p, rule: rule, name: name, orders: &orders} }
	var binds []*ssa.Parameter
	unbind := func() {
		for _, pr := range binds {
			c19Binds.Delete(pr)
		}
		binds = nil
	}
	defer unbind()
	single := func(t *c19Trav, spec string, filtered bool) (fn *ssa.Function, hc *ssa.Call, pos int) {
		unbind()
		fn = p.Func(spec)
		if fn == nil {
			c.Anchor(rule, spec)
			return nil, nil, -1
		}
		sites := c19FieldSites(fn)
		if len(sites) == 0 {
			// the walk may live in a shared iterator: for f := range fields(structV, targets) { … }
			if mkc, it, body := c19IterCall(fn); mkc != nil {
				maker := mkc.Call.StaticCallee()
				for i, pr := range maker.Params {
					c19Binds.Store(pr, mkc.Call.Args[i])
					binds = append(binds, pr)
				}
				t.iter, t.body = it, body
				sites = c19FieldSites(maker)
			}
		}
		if len(sites) != 1 {
			c.Undec(rule, t.key("field"), fn.Pos(), "%s: expected exactly one reflect.Value.Field(i) site (in the function or in a field iterator it ranges over), found %d", spec, len(sites))
			return fn, nil, -1
		}
		hc, pos = t.top(sites[0], "field", filtered)
		if hc == nil {
			c.Undec(rule, t.key("helper"), sites[0].Pos(), "%s: the field value is not handed to exactly one chess-3 helper", spec)
		}
		return
	}

	// --- ToVector / getFieldFloats ---
	tv := mk("ToVector")
	if _, hc, pos := single(tv, c19Tun+".(EngineRep).ToVector", true); hc != nil {
		h := hc.Call.StaticCallee()
		rec := tv.array(h, []int{pos})
		v := ssa.Value(h.Params[pos])
		accMode := false
		if len(h.Params) == 2 && len(hc.Call.Args) == 2 && h.Signature.Results().Len() == 1 {
			_, s1 := h.Params[1-pos].Type().Underlying().(*types.Slice)
			_, s2 := h.Signature.Results().At(0).Type().Underlying().(*types.Slice)
			accMode = s1 && s2
		}
		if accMode {
			tv.accumulator(h, hc, rec, pos, kF64, kArr, &done)
		}
		// leaf: one element, the leaf's value
		rets := c19Returns(c19LeafBlocks(h, v, kF64))
		if accMode {
			rets, rec = nil, nil
		}
		if len(rets) == 0 && !accMode {
			c.Undec(rule, tv.key("leaf"), h.Pos(), "%s: no return under Kind()==Float64", fnName(h))
		}
		for _, r := range rets {
			n, val := c19SliceLit(r.Results[0])
			name, recv, _, okc := c19Refl(val)
			switch {
			case n < 0 || val == nil:
				c.Undec(rule, tv.key("leaf"), r.Pos(), "%s: the Float64 case does not return a slice literal", fnName(h))
			case n != 1:
				c.Fail(rule, tv.key("leaf"), r.Pos(), "%s: a Float64 leaf contributes %d vector elements; SetVector and TunedParams count one per leaf, so every later coefficient is shifted", fnName(h), n)
			case okc && name == "Value.Float" && recv == v:
				c.Ok(rule, tv.key("leaf"), r.Pos(), "%s: a Float64 leaf contributes exactly one element, v.Float()", fnName(h))
				done++
			default:
				c.Undec(rule, tv.key("leaf"), r.Pos(), "%s: the single leaf element is not v.Float()", fnName(h))
			}
		}
		// array: concatenation in order
		if rec != nil {
			tv.concat(h, rec, c19Returns(c19LeafBlocks(h, v, kArr)), "concat.helper", &done)
		}
		// top: append in order
		if !accMode {
			tv.appendTop(hc, &done)
		}
	}

	// --- SetVector / setFieldFloats ---
	sv := mk("SetVector")
	if fn, hc, pos := single(sv, c19Tun+".(*EngineRep).SetVector", true); hc != nil && len(hc.Call.Args) != 2 {
		c.Undec(rule, sv.key("helper"), hc.Pos(), "SetVector: the helper is expected to take the field and the remaining vector")
	} else if hc != nil {
		h := hc.Call.StaticCallee()
		fIdx := 1 - pos
		rec := sv.array(h, []int{pos})
		v, fl := ssa.Value(h.Params[pos]), ssa.Value(h.Params[fIdx])
		leaf := c19LeafBlocks(h, v, kF64)
		// leaf: SetFloat(floats[0]); return 1
		var sets []*ssa.Call
		for _, b := range leaf {
			for _, in := range b.Instrs {
				if call, ok := in.(*ssa.Call); ok {
					if name, recv, _, ok := c19Refl(call); ok && name == "Value.SetFloat" && recv == v {
						sets = append(sets, call)
					}
				}
			}
		}
		if len(sets) != 1 {
			c.Undec(rule, sv.key("leaf"), h.Pos(), "%s: expected exactly one v.SetFloat under Kind()==Float64, found %d", fnName(h), len(sets))
		} else {
			arg := sets[0].Call.Args[1]
			okArg, ix := false, int64(-1)
			if ld, ok := arg.(*ssa.UnOp); ok && ld.Op == token.MUL {
				if ia, ok := ld.X.(*ssa.IndexAddr); ok && ia.X == fl {
					if k, isK := constOf(ia.Index); isK {
						okArg, ix = true, k
					}
				}
			}
			switch {
			case !okArg:
				c.Undec(rule, sv.key("leaf"), sets[0].Pos(), "%s: the value set into the leaf is not floats[const] of the slice parameter", fnName(h))
			case ix != 0:
				c.Fail(rule, sv.key("leaf"), sets[0].Pos(), "%s: a leaf takes floats[%d], not the head of the remaining vector: coefficients receive their neighbours' values", fnName(h), ix)
			default:
				c.Ok(rule, sv.key("leaf"), sets[0].Pos(), "%s: a Float64 leaf takes floats[0]", fnName(h))
				done++
			}
		}
		tailMode := false
		if h.Signature.Results().Len() == 1 {
			_, tailMode = h.Signature.Results().At(0).Type().Underlying().(*types.Slice)
		}
		for _, r := range c19Returns(leaf) {
			if tailMode {
				// the helper returns the unconsumed tail: a leaf must return floats[1:]
				sl, isSl := r.Results[0].(*ssa.Slice)
				k, isK := int64(0), false
				if isSl && sl.Low != nil {
					k, isK = constOf(sl.Low)
				}
				switch {
				case !isSl || sl.X != fl || sl.High != nil || sl.Max != nil || !isK:
					c.Undec(rule, sv.key("leaf.count"), r.Pos(), "%s: the Float64 case does not return floats[const:] of its slice parameter", fnName(h))
				default:
					c.Check(k == 1, rule, sv.key("leaf.count"), r.Pos(), "%s: a Float64 leaf returns the tail after %d consumed element(s) (must be 1, as ToVector produces one per leaf)", fnName(h), k)
					done++
				}
				continue
			}
			if k, isK := constOf(r.Results[0]); !isK {
				c.Undec(rule, sv.key("leaf.count"), r.Pos(), "%s: the Float64 case returns a non-constant count", fnName(h))
			} else {
				c.Check(k == 1, rule, sv.key("leaf.count"), r.Pos(), "%s: a Float64 leaf reports %d consumed element(s) (must be 1, as ToVector produces one per leaf)", fnName(h), k)
				done++
			}
		}
		// array: slice advanced by, and count increased by, what the recursion returns
		if rec != nil {
			sv.advance(rec.Call.Args[fIdx], rec, func(x ssa.Value) bool { return x == fl }, "advance.helper", &done)
			for _, r := range c19Returns(c19LeafBlocks(h, v, kArr)) {
				if tailMode {
					// the array case returns the tail left by its last recursive call (or its input for a zero-length array)
					isIn := func(x ssa.Value) bool { return x == fl }
					if r.Results[0] == ssa.Value(rec) || c19AccOK(r.Results[0], rec, isIn) {
						c.Ok(rule, sv.key("count.helper"), r.Pos(), "%s: the array case returns the tail its recursive calls left", fnName(h))
						done++
					} else {
						c.Undec(rule, sv.key("count.helper"), r.Pos(), "%s: the array case does not return the tail threaded through its recursive calls", fnName(h))
					}
					continue
				}
				_, leaves := c19PhiClosure(r.Results[0])
				okSum := len(leaves) > 0
				for _, l := range leaves {
					if c19IsZero(l) {
						continue
					}
					b, isB := l.(*ssa.BinOp)
					if !isB || b.Op != token.ADD || !((b.X == ssa.Value(rec) && c19AccOK(b.Y, b, c19IsZero)) || (b.Y == ssa.Value(rec) && c19AccOK(b.X, b, c19IsZero))) {
						okSum = false
					}
				}
				if okSum {
					c.Ok(rule, sv.key("count.helper"), r.Pos(), "%s: the array case returns the sum of the counts its recursive calls returned", fnName(h))
					done++
				} else {
					c.Undec(rule, sv.key("count.helper"), r.Pos(), "%s: the array case does not return 0 + Σ recursive counts in the shape the rule understands", fnName(h))
				}
			}
		}
		// top: floats advanced by helper's count, starting from the whole vector
		var vecParam ssa.Value
		for _, pr := range fn.Params {
			if n, ok := pr.Type().(*types.Named); ok && n.Obj().Name() == "Vector" {
				vecParam = pr
			}
		}
		sv.advance(hc.Call.Args[fIdx], hc, func(x ssa.Value) bool {
			if _, isSl := x.(*ssa.Slice); isSl || vecParam == nil {
				return false
			}
			return backSlice(x, sliceOpts{ThroughLoads: true})[vecParam]
		}, "advance", &done)
	}

	// --- TunedParams / yieldFields ---
	tp := mk("TunedParams")
	if fn, hc, pos := single(tp, c19Tun+".(*EngineRep).TunedParams", true); hc != nil {
		c19Tuned(tp, fn, hc, pos, kF64, &done)
	}
	unbind()

	// --- EngineCoeffs / convert ---
	ec := mk("EngineCoeffs")
	if fn := p.Func(c19Tun + ".EngineCoeffs"); fn == nil {
		c.Anchor(rule, c19Tun+".EngineCoeffs")
	} else if sites := c19FieldSites(fn); len(sites) != 2 {
		c.Undec(rule, ec.key("field"), fn.Pos(), "EngineCoeffs: expected two reflect.Value.Field(i) sites (destination and source), found %d", len(sites))
	} else {
		hc0, p0 := ec.top(sites[0], "field.a", false)
		hc1, p1 := ec.top(sites[1], "field.b", false)
		if hc0 == nil || hc0 != hc1 || p0 == p1 {
			c.Undec(rule, ec.key("helper"), sites[0].Pos(), "EngineCoeffs: the two field values are not handed to one helper call")
		} else {
			c.Check(sites[0].Call.Args[1] == sites[1].Call.Args[1], rule, ec.key("pair"), hc0.Pos(), "EngineCoeffs pairs destination field i with source field i (same index value)")
			h := hc0.Call.StaticCallee()
			ec.array(h, []int{p0, p1})
			ec.convertLeaf(fn, h, hc0, kF64, kI16, &done)
		}
	}

	// --- orders ---
	nAsc := 0
	for _, o := range orders {
		if o.status == c19AscOK {
			nAsc++
		}
	}
	for _, o := range orders {
		switch {
		case o.status == c19AscOK:
			c.Ok(rule, o.construct, o.pos, "index runs 0,1,2,… (ascending)")
		case o.status == c19AscOther && nAsc > 0:
			c.Fail(rule, o.construct, o.pos, "%s, while %d sibling loops ascend from 0: element k of the vector denotes different coefficients in the two traversals", o.why, nAsc)
		default:
			c.Undec(rule, o.construct, o.pos, "%s: order of this traversal not recognised", o.why)
		}
	}
	c.Floor(rule+".order", nAsc, 4, "ascending loops (today 9: field walks of ToVector, SetVector, TunedParams and both sides of EngineCoeffs, 4 array walks; a shared field iterator is counted per user)")
	c.Floor(rule, done, 8, "leaf / concatenation / advance / counter obligations discharged (today 13)")
}

// accumulator: the accumulator-passing form of the vector builder, h(acc, v) []float64:
// a Float64 leaf returns append(acc, v.Float()) (exactly one element), the array
// case threads acc through its recursive calls in index order and returns it, and
// the top level threads its result vector through the helper field by field.
func (t *c19Trav) accumulator(h *ssa.Function, hc *ssa.Call, rec *ssa.Call, pos int, kF64, kArr int64, done *int) {
	c, rule := t.c, t.rule
	v, acc := ssa.Value(h.Params[pos]), ssa.Value(h.Params[1-pos])
	isAcc := func(x ssa.Value) bool { return x == acc }
	// leaf
	rets := c19Returns(c19LeafBlocks(h, v, kF64))
	if len(rets) == 0 {
		c.Undec(rule, t.key("leaf"), h.Pos(), "%s: no return under Kind()==Float64", fnName(h))
	}
	for _, r := range rets {
		app, isApp := c19IsBuiltin(r.Results[0], "append")
		if !isApp || len(app.Call.Args) != 2 {
			c.Undec(rule, t.key("leaf"), r.Pos(), "%s: the Float64 case does not return append(acc, …)", fnName(h))
			continue
		}
		n, val := c19SliceLit(app.Call.Args[1])
		name, recv, _, okc := c19Refl(val)
		switch {
		case app.Call.Args[0] != acc && n == 1 && app.Call.Args[1] == acc:
			c.Fail(rule, t.key("leaf"), r.Pos(), "%s: the leaf is put in front of the accumulator: elements come out in reverse order relative to SetVector/TunedParams", fnName(h))
		case app.Call.Args[0] != acc || n < 0 || val == nil:
			c.Undec(rule, t.key("leaf"), r.Pos(), "%s: the Float64 case does not append a literal element list to its accumulator parameter", fnName(h))
		case n != 1:
			c.Fail(rule, t.key("leaf"), r.Pos(), "%s: a Float64 leaf contributes %d vector elements; SetVector and TunedParams count one per leaf, so every later coefficient is shifted", fnName(h), n)
		case okc && name == "Value.Float" && recv == v:
			c.Ok(rule, t.key("leaf"), r.Pos(), "%s: a Float64 leaf appends exactly one element, v.Float(), to the accumulator", fnName(h))
			*done++
		default:
			c.Undec(rule, t.key("leaf"), r.Pos(), "%s: the single leaf element is not v.Float()", fnName(h))
		}
	}
	// array: accumulator threaded through the recursion, and returned
	if rec != nil {
		a := rec.Call.Args[1-pos]
		threaded := a == acc || c19AccOK(a, rec, isAcc)
		okRet := true
		arets := c19Returns(c19LeafBlocks(h, v, kArr))
		for _, r := range arets {
			if !(r.Results[0] == ssa.Value(rec) || c19AccOK(r.Results[0], rec, isAcc)) {
				okRet = false
			}
		}
		if _, isPhi := a.(*ssa.Phi); threaded && isPhi && okRet && len(arets) > 0 {
			c.Ok(rule, t.key("concat.helper"), rec.Pos(), "%s: the array case threads the accumulator through its recursive calls in index order and returns it", fnName(h))
			*done++
		} else {
			c.Undec(rule, t.key("concat.helper"), rec.Pos(), "%s: the accumulator is not threaded through the recursive calls (next input = previous result) and returned", fnName(h))
		}
	}
	// top: result vector threaded through the helper
	a := hc.Call.Args[1-pos]
	okTop := c19AccOK(a, hc, func(ssa.Value) bool { return true })
	if ld, isLd := a.(*ssa.UnOp); !okTop && isLd && ld.Op == token.MUL {
		stores := 0
		for _, r := range c19Refs(hc) {
			if st, isSt := r.(*ssa.Store); isSt && st.Val == ssa.Value(hc) {
				stores++
				if c19SameAddr(st.Addr, ld.X) || (c19Cell(st.Addr) != nil && c19Cell(st.Addr) == c19Cell(ld.X)) {
					okTop = true
				}
			}
		}
		if stores != 1 {
			okTop = false
		}
	}
	if okTop {
		c.Ok(rule, t.key("concat"), hc.Pos(), "ToVector threads its result vector through %s field by field, in field order", fnName(h))
		*done++
	} else {
		c.Undec(rule, t.key("concat"), hc.Pos(), "the vector handed to %s is not the result accumulator that also receives the helper's result", fnName(h))
	}
}

// c19SliceLit: v is a slice over a fresh array literal; returns its length and the (single) stored element value.
func c19SliceLit(v ssa.Value) (int64, ssa.Value) {
	sl, ok := v.(*ssa.Slice)
	if !ok || sl.Low != nil || sl.High != nil {
		return -1, nil
	}
	a, ok := sl.X.(*ssa.Alloc)
	if !ok {
		return -1, nil
	}
	arr, ok := a.Type().Underlying().(*types.Pointer).Elem().Underlying().(*types.Array)
	if !ok {
		return -1, nil
	}
	var val ssa.Value
	for _, r := range c19Refs(a) {
		if ia, ok := r.(*ssa.IndexAddr); ok && c19IsZero(ia.Index) {
			for _, u := range c19Refs(ia) {
				if st, ok := u.(*ssa.Store); ok && st.Addr == ssa.Value(ia) {
					val = st.Val
				}
			}
		}
	}
	return arr.Len(), val
}

// concat: rets of the array case return init ++ rec₀ ++ rec₁ … in order.
func (t *c19Trav) concat(h *ssa.Function, rec *ssa.Call, rets []*ssa.Return, role string, done *int) {
	c, rule := t.c, t.rule
	if len(rets) == 0 {
		c.Undec(rule, t.key(role), h.Pos(), "%s: no return under Kind()==Array", fnName(h))
	}
	for _, r := range rets {
		_, leaves := c19PhiClosure(r.Results[0])
		var app *ssa.Call
		clean := true
		for _, l := range leaves {
			if a, ok := c19IsBuiltin(l, "append"); ok && app == nil {
				app = a
			} else if !c19EmptySlice(l) {
				clean = false
			}
		}
		switch {
		case app == nil || !clean || len(app.Call.Args) != 2:
			c.Undec(rule, t.key(role), r.Pos(), "%s: the array case does not return an accumulator built from an empty slice by append", fnName(h))
		case app.Call.Args[0] == ssa.Value(rec):
			c.Fail(rule, t.key(role), app.Pos(), "%s: sub-results are prepended, not appended: array elements come out in reverse order relative to SetVector/TunedParams", fnName(h))
		case app.Call.Args[1] == ssa.Value(rec) && c19AccOK(app.Call.Args[0], app, c19EmptySlice):
			c.Ok(rule, t.key(role), app.Pos(), "%s: the array case returns the in-order concatenation of its elements' vectors", fnName(h))
			*done++
		default:
			c.Undec(rule, t.key(role), app.Pos(), "%s: append does not extend the loop-carried accumulator with the recursive result", fnName(h))
		}
	}
}

func c19SameAddr(a, b ssa.Value) bool {
	if a == b {
		return true
	}
	fa, ok1 := a.(*ssa.FieldAddr)
	fb, ok2 := b.(*ssa.FieldAddr)
	return ok1 && ok2 && fa.Field == fb.Field && c19SameAddr(fa.X, fb.X)
}

// appendTop: the helper's result is appended to the result accumulator.
func (t *c19Trav) appendTop(hc *ssa.Call, done *int) {
	c, rule := t.c, t.rule
	var app *ssa.Call
	for _, r := range c19Refs(hc) {
		if a, ok := c19IsBuiltin(c19ValueOf(r), "append"); ok {
			app = a
		}
	}
	if app == nil || len(app.Call.Args) != 2 {
		c.Undec(rule, t.key("concat"), hc.Pos(), "the helper's result is not appended to the result vector")
		return
	}
	if app.Call.Args[0] == ssa.Value(hc) {
		c.Fail(rule, t.key("concat"), app.Pos(), "ToVector prepends each field's values: fields come out in reverse order relative to SetVector/TunedParams")
		return
	}
	ok := app.Call.Args[1] == ssa.Value(hc) && c19AccOK(app.Call.Args[0], app, func(ssa.Value) bool { return true })
	if ld, isLd := app.Call.Args[0].(*ssa.UnOp); !ok && isLd && ld.Op == token.MUL && app.Call.Args[1] == ssa.Value(hc) {
		for _, r := range c19Refs(app) {
			if st, isSt := r.(*ssa.Store); isSt && st.Val == ssa.Value(app) && c19SameAddr(st.Addr, ld.X) {
				ok = true
			}
		}
	}
	if ok {
		c.Ok(rule, t.key("concat"), app.Pos(), "ToVector appends each selected field's values to the result in field order")
		*done++
	} else {
		c.Undec(rule, t.key("concat"), app.Pos(), "append does not extend the result accumulator with the helper's result")
	}
}

// c19StoreBetween: a store to cell lies between a and b in their common block.
func c19StoreBetween(cell *ssa.Alloc, a, b ssa.Instruction) bool {
	if a.Block() != b.Block() {
		return true
	}
	lo, hi := instrIndex(a), instrIndex(b)
	for _, in := range a.Block().Instrs[lo+1 : hi] {
		if st, ok := in.(*ssa.Store); ok && c19Cell(st.Addr) == cell {
			return true
		}
	}
	return false
}

func c19ValueOf(in ssa.Instruction) ssa.Value {
	v, _ := in.(ssa.Value)
	return v
}

// advance: slice F passed to call is loop-carried and advanced by exactly call's result.
func (t *c19Trav) advance(F ssa.Value, call *ssa.Call, isInit func(ssa.Value) bool, role string, done *int) {
	c, rule := t.c, t.rule
	// tail form: the helper returns the unconsumed tail, which replaces the remaining vector
	if _, isTail := call.Type().Underlying().(*types.Slice); isTail {
		okTail := c19AccOK(F, call, isInit)
		if ld, ok := F.(*ssa.UnOp); ok && !okTail && ld.Op == token.MUL {
			if cell := c19Cell(ld.X); cell != nil {
				repl, inits, other := 0, 0, 0
				for _, st := range c19CellStores(cell) {
					switch {
					case st.Val == ssa.Value(call) && instrDominates(call, st) && !c19StoreBetween(cell, ld, call):
						repl++
					case isInit(st.Val) && st.Parent() != call.Parent():
						inits++
					default:
						other++
					}
				}
				okTail = repl == 1 && inits == 1 && other == 0
			}
		}
		if okTail {
			c.Ok(rule, t.key(role), call.Pos(), "the remaining vector starts as the whole input and is replaced by the unconsumed tail %s returns", call.Call.Value.Name())
			*done++
		} else {
			c.Undec(rule, t.key(role), call.Pos(), "%s returns a slice, but the remaining vector is not threaded through it (next input = previous result)", call.Call.Value.Name())
		}
		return
	}
	// offset form: base[used:] with used = 0 + Σ counts returned
	if sl, ok := F.(*ssa.Slice); ok && sl.High == nil && sl.Max == nil && sl.Low != nil && isInit(sl.X) {
		_, ls := c19PhiClosure(sl.Low)
		okSum := false
		if _, isPhi := sl.Low.(*ssa.Phi); isPhi {
			okSum = true
			for _, l := range ls {
				if c19IsZero(l) {
					continue
				}
				b, isB := l.(*ssa.BinOp)
				if !isB || b.Op != token.ADD || !((b.X == ssa.Value(call) && c19AccOK(b.Y, b, c19IsZero)) || (b.Y == ssa.Value(call) && c19AccOK(b.X, b, c19IsZero))) {
					okSum = false
				}
			}
		}
		if okSum {
			c.Ok(rule, t.key(role), call.Pos(), "each call of %s reads the input from the offset 0 + Σ counts the earlier calls returned", call.Call.Value.Name())
			*done++
		} else {
			c.Undec(rule, t.key(role), call.Pos(), "the slice handed to %s is the input re-sliced at an offset that is not the running sum of the helper's counts", call.Call.Value.Name())
		}
		return
	}
	// cell form: the remaining slice lives in a captured variable (range-over-func body)
	if ld, ok := F.(*ssa.UnOp); ok && ld.Op == token.MUL {
		if cell := c19Cell(ld.X); cell != nil {
			adv, inits := 0, 0
			for _, st := range c19CellStores(cell) {
				if sl, ok := st.Val.(*ssa.Slice); ok {
					if l2, ok := sl.X.(*ssa.UnOp); ok && l2.Op == token.MUL && c19Cell(l2.X) == cell {
						if sl.Low == ssa.Value(call) && sl.High == nil && sl.Max == nil && instrDominates(call, st) && !c19StoreBetween(cell, ld, call) {
							adv++
							continue
						}
						c.Fail(rule, t.key(role), sl.Pos(), "after %s the remaining vector is re-sliced by %v, not by the count the helper returned: following coefficients read from the wrong offset", call.Call.Value.Name(), sl.Low)
						return
					}
				}
				if isInit(st.Val) && st.Parent() != call.Parent() {
					inits++
					continue
				}
				c.Undec(rule, t.key(role), st.Pos(), "the remaining-vector variable is assigned %s, which the rule does not understand", st.Val.String())
				return
			}
			if adv == 1 && inits == 1 {
				c.Ok(rule, t.key(role), call.Pos(), "the remaining vector starts as the whole input and is advanced by exactly the count %s returns", call.Call.Value.Name())
				*done++
			} else {
				c.Undec(rule, t.key(role), call.Pos(), "expected one advancing re-slice and one initial assignment of the remaining-vector variable, found %d / %d", adv, inits)
			}
			return
		}
	}
	phis, leaves := c19PhiClosure(F)
	if _, ok := F.(*ssa.Phi); !ok {
		c.Undec(rule, t.key(role), call.Pos(), "the slice handed to %s is not loop-carried: consecutive calls would read the same elements", call.Call.Value.Name())
		return
	}
	adv, inits := 0, 0
	for _, l := range leaves {
		if sl, ok := l.(*ssa.Slice); ok {
			if ph, isPh := sl.X.(*ssa.Phi); isPh && phis[ph] {
				if sl.Low == ssa.Value(call) && sl.High == nil && sl.Max == nil {
					adv++
					continue
				}
				c.Fail(rule, t.key(role), sl.Pos(), "after %s the remaining vector is re-sliced by %v, not by the count the helper returned: following coefficients read from the wrong offset", call.Call.Value.Name(), sl.Low)
				return
			}
		}
		if isInit(l) {
			inits++
			continue
		}
		c.Undec(rule, t.key(role), call.Pos(), "the slice handed to %s has a source the rule does not understand: %s", call.Call.Value.Name(), l.String())
		return
	}
	if adv == 1 && inits >= 1 {
		c.Ok(rule, t.key(role), call.Pos(), "the remaining vector starts as the whole input and is advanced by exactly the count %s returns", call.Call.Value.Name())
		*done++
	} else {
		c.Undec(rule, t.key(role), call.Pos(), "expected one advancing re-slice and an initial value, found %d / %d", adv, inits)
	}
}

// c19Tuned: the numbering of TunedParams. Either the helper itself counts (yield
// func(int,*float64), cnt *int), or it yields bare pointers to a counting closure
// that wraps the consumer's yield.
func c19Tuned(tp *c19Trav, fn *ssa.Function, hc *ssa.Call, pos int, kF64 int64, done *int) {
	c, rule := tp.c, tp.rule
	h := hc.Call.StaticCallee()
	rec := tp.array(h, []int{pos})
	v := ssa.Value(h.Params[pos])
	yIdx, cIdx := -1, -1
	for i, pr := range h.Params {
		if i == pos {
			continue
		}
		if _, ok := pr.Type().Underlying().(*types.Signature); ok {
			yIdx = i
		} else if _, ok := pr.Type().Underlying().(*types.Pointer); ok {
			cIdx = i
		}
	}
	// the consumer's yield: the func(int, *float64) bool parameter of the iterator closure TunedParams returns
	own := map[*ssa.Function]bool{}
	for _, f := range withClosures(fn) {
		own[f] = true
	}
	isConsumerYield := func(v ssa.Value) bool {
		pr, ok := c19Res(v).(*ssa.Parameter)
		if !ok || !own[pr.Parent()] || pr.Parent() == fn {
			return false
		}
		sig, ok := pr.Type().Underlying().(*types.Signature)
		return ok && sig.Params().Len() == 2 && types.Identical(sig.Params().At(0).Type(), types.Typ[types.Int])
	}
	if yIdx < 0 || len(hc.Call.Args) != len(h.Params) {
		c.Undec(rule, tp.key("leaf"), h.Pos(), "%s: expected a yield function parameter next to the reflect.Value", fnName(h))
		return
	}
	if rec != nil {
		okPass := rec.Call.Args[yIdx] == ssa.Value(h.Params[yIdx]) && (cIdx < 0 || rec.Call.Args[cIdx] == ssa.Value(h.Params[cIdx]))
		c.Check(okPass, rule, tp.key("array.pass"), rec.Pos(), "%s: the recursion passes on the same yield function (and counter)", fnName(h))
	}
	var cntAddr ssa.Value
	var incr *ssa.Store
	var g *ssa.Function
	if cIdx >= 0 {
		// the helper counts
		yc := tp.leafYield(h, v, h.Params[yIdx], 2, kF64, done)
		if yc == nil {
			return
		}
		cntAddr, incr = tp.countLogic(h, yc, done)
		if cntAddr == nil {
			return
		}
		if cntAddr != ssa.Value(h.Params[cIdx]) || !isConsumerYield(hc.Call.Args[yIdx]) {
			c.Undec(rule, tp.key("counter"), hc.Pos(), "the counter read by %s is not its pointer parameter, or the yield handed to it is not the iterator's own parameter", fnName(h))
			return
		}
		cntAddr, g = hc.Call.Args[cIdx], h
	} else {
		// the helper yields bare pointers; a closure around the consumer's yield counts
		yc := tp.leafYield(h, v, h.Params[yIdx], 1, kF64, done)
		if yc == nil {
			return
		}
		for _, r := range c19Returns(c19LeafBlocks(h, v, kF64)) {
			okR := len(r.Results) == 1 && r.Results[0] == ssa.Value(yc)
			if k, isK := constOf(r.Results[0]); !okR && isK && len(r.Results) == 1 {
				for _, ce := range controllingConds(r.Block()) {
					if ce.Cond == ssa.Value(yc) && ce.True == (k != 0) {
						okR = true
					}
				}
			}
			if !okR {
				c.Undec(rule, tp.key("leaf.result"), r.Pos(), "%s: the Float64 case does not return what yield returned: a consumer's stop (or go-on) is not propagated", fnName(h))
				return
			}
		}
		mc, isMC := c19Res(hc.Call.Args[yIdx]).(*ssa.MakeClosure)
		if isMC {
			g, _ = mc.Fn.(*ssa.Function)
		}
		if g == nil || len(g.Params) != 1 {
			c.Undec(rule, tp.key("counter"), hc.Pos(), "the yield handed to %s is neither counting itself nor a local closure with one parameter", fnName(h))
			return
		}
		var ycs []*ssa.Call
		allInstrs(g, func(in ssa.Instruction) {
			if x, ok := in.(*ssa.Call); ok && isConsumerYield(x.Call.Value) {
				ycs = append(ycs, x)
			}
		})
		if len(ycs) != 1 || len(ycs[0].Call.Args) != 2 || ycs[0].Call.Args[1] != ssa.Value(g.Params[0]) {
			c.Undec(rule, tp.key("counter"), g.Pos(), "%s: expected exactly one call yield(counter, param) of the consumer's yield with the closure's own parameter", fnName(g))
			return
		}
		cntAddr, incr = tp.countLogic(g, ycs[0], done)
		if cntAddr == nil {
			return
		}
	}
	// the counter is a variable of TunedParams (or of the iterator closure) initialised once to 0
	cell := c19Cell(cntAddr)
	okCnt := cell != nil
	inits := 0
	if cell != nil {
		for _, st := range c19CellStores(cell) {
			switch {
			case st == incr:
			case c19IsZero(st.Val) && own[st.Parent()] && st.Parent() != g:
				inits++
			default:
				okCnt = false
			}
		}
	}
	if okCnt && inits == 1 {
		c.Ok(rule, tp.key("counter"), hc.Pos(), "TunedParams numbers the leaves from a counter initialised to 0 and hands every leaf to the consumer's yield")
		*done++
	} else {
		c.Undec(rule, tp.key("counter"), hc.Pos(), "the counter of %s is not a local variable assigned only its initial 0 and the increment", fnName(g))
	}
}

// leafYield: under Kind(v)==Float64 helper h calls its yield-like parameter exactly
// once, the last argument being v.Addr().Interface().(*float64), the leaf itself.
func (t *c19Trav) leafYield(h *ssa.Function, v ssa.Value, yield *ssa.Parameter, nargs int, kF64 int64, done *int) *ssa.Call {
	c, rule := t.c, t.rule
	var ycalls []*ssa.Call
	allInstrs(h, func(in ssa.Instruction) {
		if x, ok := in.(*ssa.Call); ok && x.Call.Value == ssa.Value(yield) {
			ycalls = append(ycalls, x)
		}
	})
	if len(ycalls) != 1 || len(ycalls[0].Call.Args) != nargs || !c19Guarded(ycalls[0].Block(), v, kF64) {
		c.Undec(rule, t.key("leaf"), h.Pos(), "%s: expected exactly one call of yield with %d argument(s), under Kind()==Float64, found %d call(s)", fnName(h), nargs, len(ycalls))
		return nil
	}
	yc := ycalls[0]
	okPtr := false
	if ta, ok := yc.Call.Args[nargs-1].(*ssa.TypeAssert); ok {
		if n1, r1, _, ok := c19Refl(ta.X); ok && n1 == "Value.Interface" {
			if n2, r2, _, ok := c19Refl(r1); ok && n2 == "Value.Addr" && r2 == v {
				okPtr = true
			}
		}
	}
	if okPtr {
		c.Ok(rule, t.key("leaf"), yc.Pos(), "%s: a Float64 leaf is yielded exactly once, as the address of the leaf itself", fnName(h))
		*done++
	} else {
		c.Undec(rule, t.key("leaf"), yc.Pos(), "%s: the pointer yielded is not v.Addr().Interface().(*float64) of the leaf", fnName(h))
	}
	return yc
}

func c19AddrEq(a, b ssa.Value) bool {
	if a == b {
		return true
	}
	ca := c19Cell(a)
	return ca != nil && ca == c19Cell(b)
}

// countLogic: in g the consumer's yield is called (yc) with the counter's current
// value; the counter (a *int parameter or a captured variable) is incremented
// exactly once, after that call, on every path that goes on iterating. Returns the counter's address.
func (t *c19Trav) countLogic(g *ssa.Function, yc *ssa.Call, done *int) (ssa.Value, *ssa.Store) {
	c, rule := t.c, t.rule
	ld, isLd := yc.Call.Args[0].(*ssa.UnOp)
	if !isLd || ld.Op != token.MUL {
		c.Undec(rule, t.key("leaf.index"), yc.Pos(), "%s: the index yielded is not the current value of a counter variable", fnName(g))
		return nil, nil
	}
	cnt := ld.X
	_, isParam := cnt.(*ssa.Parameter)
	if !isParam && c19Cell(cnt) == nil {
		c.Undec(rule, t.key("leaf.index"), yc.Pos(), "%s: the index yielded is loaded from %s, neither a pointer parameter nor a local/captured variable", fnName(g), cnt.String())
		return nil, nil
	}
	var stores []*ssa.Store
	allInstrs(g, func(in ssa.Instruction) {
		if x, ok := in.(*ssa.Store); ok && c19AddrEq(x.Addr, cnt) {
			stores = append(stores, x)
		}
	})
	if len(stores) != 1 {
		c.Undec(rule, t.key("leaf.index"), yc.Pos(), "%s: expected exactly one store to the counter, found %d", fnName(g), len(stores))
		return nil, nil
	}
	st := stores[0]
	inc, isInc := st.Val.(*ssa.BinOp)
	okInc := false
	if isInc && inc.Op == token.ADD {
		for _, pr := range [][2]ssa.Value{{inc.X, inc.Y}, {inc.Y, inc.X}} {
			l, isL := pr[0].(*ssa.UnOp)
			k, isK := constOf(pr[1])
			if isL && l.Op == token.MUL && c19AddrEq(l.X, cnt) && isK && k == 1 {
				okInc = true
			}
		}
	}
	if !okInc {
		c.Undec(rule, t.key("leaf.index"), st.Pos(), "%s: the counter is not updated by cnt = cnt + 1", fnName(g))
		return nil, nil
	}
	if !instrDominates(yc, st) {
		c.Fail(rule, t.key("leaf.index"), st.Pos(), "%s: the counter is incremented before (or independently of) the yield that reports it: parameter k is reported with another index than its position in ToVector's vector, so its gradient lands on a neighbour", fnName(g))
		return nil, nil
	}
	// every return reachable from the yield without passing the increment must stop the iteration (return false)
	bad := ""
	seen := map[*ssa.BasicBlock]bool{}
	var dfs func(b *ssa.BasicBlock, from int)
	dfs = func(b *ssa.BasicBlock, from int) {
		for i := from; i < len(b.Instrs); i++ {
			if b.Instrs[i] == ssa.Instruction(st) {
				return
			}
			if r, ok := b.Instrs[i].(*ssa.Return); ok {
				if k, isK := constOf(r.Results[0]); len(r.Results) != 1 || !isK || k != 0 {
					bad = c19Rel(t.p, r.Pos())
				}
				return
			}
		}
		for _, s := range b.Succs {
			if !seen[s] {
				seen[s] = true
				dfs(s, 0)
			}
		}
	}
	dfs(yc.Block(), instrIndex(yc)+1)
	if bad != "" {
		c.Fail(rule, t.key("leaf.index"), st.Pos(), "%s: iteration can continue after a leaf without incrementing the counter (return at %s): the next leaf is reported with the same index", fnName(g), bad)
		return nil, nil
	}
	c.Ok(rule, t.key("leaf.index"), yc.Pos(), "%s: yields the counter's value from before its single increment, and increments on every path that continues the iteration", fnName(g))
	*done++
	return cnt, st
}

func c19Rel(p *Prog, pos token.Pos) string { return p.Rel(pos) }

// convertLeaf: under Kind(src)==Int16 && Kind(dst)==Float64, dst is set to float64(src.Int());
// at the top, dst is rooted at the returned value and src at eval.Coefficients.
func (t *c19Trav) convertLeaf(top, h *ssa.Function, hc *ssa.Call, kF64, kI16 int64, done *int) {
	c, rule := t.c, t.rule
	var sets []*ssa.Call
	allInstrs(h, func(in ssa.Instruction) {
		if call, ok := in.(*ssa.Call); ok {
			if name, _, _, ok := c19Refl(call); ok && (name == "Value.Set" || name == "Value.SetFloat") {
				sets = append(sets, call)
			}
		}
	})
	if len(sets) != 1 {
		c.Undec(rule, t.key("leaf"), h.Pos(), "%s: expected exactly one reflect Set, found %d", fnName(h), len(sets))
		return
	}
	set := sets[0]
	dst := set.Call.Args[0]
	val := set.Call.Args[1]
	if name, _, args, ok := c19Refl(val); ok && name == "ValueOf" && len(args) == 1 {
		if mi, ok := args[0].(*ssa.MakeInterface); ok {
			val = mi.X
		}
	}
	name, src, _, ok := c19Refl(c19Strip(val))
	dIdx, sIdx := -1, -1
	for i, pr := range h.Params {
		if ssa.Value(pr) == dst {
			dIdx = i
		}
		if ok && ssa.Value(pr) == src {
			sIdx = i
		}
	}
	if !ok || name != "Value.Int" || dIdx < 0 || sIdx < 0 || dIdx == sIdx || !types.Identical(val.Type(), types.Typ[types.Float64]) {
		c.Undec(rule, t.key("leaf"), set.Pos(), "%s: the leaf is not dst.Set(float64(src.Int())) over the two parameters", fnName(h))
		return
	}
	if !c19Guarded(set.Block(), src, kI16) || !c19Guarded(set.Block(), dst, kF64) {
		c.Undec(rule, t.key("leaf"), set.Pos(), "%s: the leaf conversion is not under Kind(src)==Int16 && Kind(dst)==Float64", fnName(h))
		return
	}
	c.Ok(rule, t.key("leaf"), set.Pos(), "%s: a leaf is converted value-for-value, dst = float64(src.Int()), no scaling", fnName(h))
	*done++
	// roots at the top
	_, dRecv, _, _ := c19Refl(hc.Call.Args[dIdx])
	_, sRecv, _, _ := c19Refl(hc.Call.Args[sIdx])
	rootOf := func(v ssa.Value) ssa.Value {
		for d := 0; d < 6 && v != nil; d++ {
			v = c19Res(v)
			name, recv, args, ok := c19Refl(v)
			switch {
			case ok && name == "Value.Elem":
				v = recv
			case ok && name == "ValueOf" && len(args) == 1:
				if mi, ok := c19Res(args[0]).(*ssa.MakeInterface); ok {
					return c19Res(mi.X)
				}
				return nil
			default:
				return nil
			}
		}
		return nil
	}
	dRoot, sRoot := rootOf(dRecv), rootOf(sRecv)
	okSrc := false
	if ld, ok := sRoot.(*ssa.UnOp); ok && ld.Op == token.MUL {
		if g, ok := ld.X.(*ssa.Global); ok && g.Name() == "Coefficients" && g.Pkg != nil && g.Pkg.Pkg.Path() == Mod+"/eval" {
			okSrc = true
		}
	}
	okDst := false
	if a, ok := dRoot.(*ssa.Alloc); ok {
		okDst = true
		for _, r := range c19Returns(top.Blocks) {
			ld, isLd := r.Results[0].(*ssa.UnOp)
			if !isLd || ld.Op != token.MUL || ld.X != ssa.Value(a) {
				okDst = false
			}
		}
	}
	if okSrc && okDst {
		c.Ok(rule, t.key("roots"), hc.Pos(), "EngineCoeffs copies from eval.Coefficients (the set the engine plays with) into the value it returns")
		*done++
	} else {
		c.Undec(rule, t.key("roots"), hc.Pos(), "EngineCoeffs: source is not a copy of eval.Coefficients or destination is not the returned value (src ok: %v, dst ok: %v)", okSrc, okDst)
	}
}

// ---------- R4 ----------

func c19R4(c *Ctx, p *Prog) {
	const rule = "C19.R4"
	named, cs := c19CoeffStruct(p)
	if named == nil || cs == nil {
		c.Anchor(rule, "eval.CoeffSet")
		return
	}
	fields := map[string]bool{}
	for i := 0; i < cs.NumFields(); i++ {
		fields[cs.Field(i).Name()] = true
	}
	// (a) DefaultTargets name fields
	init, pk := p.pkgVarInit(c19Tun + ".DefaultTargets")
	n := 0
	if cl, ok := init.(*ast.CompositeLit); !ok || pk == nil {
		c.Anchor(rule, c19Tun+".DefaultTargets (composite literal)")
	} else {
		for i, el := range cl.Elts {
			tv, ok := pk.TypesInfo.Types[el]
			if !ok || tv.Value == nil || tv.Value.Kind() != constant.String {
				c.Undec(rule, fmt.Sprintf("DefaultTargets[%d]", i), el.Pos(), "element is not a constant string")
				continue
			}
			name := constant.StringVal(tv.Value)
			n++
			if fields[name] {
				c.Ok(rule, "target:"+name, el.Pos(), "target %q is a field of eval.CoeffSet", name)
			} else {
				c.Fail(rule, "target:"+name, el.Pos(), "target %q is not a field of eval.CoeffSet: slices.Contains never matches it, the coefficient it was meant to select is silently left untuned", name)
			}
		}
		if w := p.nonInitGlobalWriters(c19Tun + ".DefaultTargets"); len(w) > 0 {
			c.Fail(rule, "DefaultTargets#immutable", init.Pos(), "DefaultTargets is written or its address escapes outside initialisation (%v): traversals at different times may select different fields", w)
		}
	}
	c.Floor(rule+".targets", n, 17, "constant target names")
	// (b) every field is T or nested arrays of T
	m := 0
	if named.TypeParams().Len() != 1 {
		c.Undec(rule, "CoeffSet#typeparams", named.Obj().Pos(), "CoeffSet is expected to have exactly one type parameter")
	} else {
		tp := named.TypeParams().At(0)
		for i := 0; i < cs.NumFields(); i++ {
			f := cs.Field(i)
			t := f.Type()
			for {
				arr, ok := t.Underlying().(*types.Array)
				if !ok {
					break
				}
				t = arr.Elem()
			}
			m++
			if x, ok := t.(*types.TypeParam); ok && x == tp {
				c.OkTrivial(rule, "field:"+f.Name(), f.Pos(), "CoeffSet.%s is %s: arrays of T down to T", f.Name(), f.Type())
			} else {
				c.Fail(rule, "field:"+f.Name(), f.Pos(), "CoeffSet.%s has type %s, not T or nested arrays of T: convert/getFieldFloats/setFieldFloats/yieldFields panic on it (or, if skipped, the tuner's and engine's sets differ)", f.Name(), f.Type())
			}
		}
	}
	c.Floor(rule+".fields", m, 17, "CoeffSet fields")
	// (c) EngineRep is defined as eval.CoeffSet[float64]
	tpk := p.Pkg(c19Tun)
	found := false
	if tpk != nil {
		for _, f := range tpk.Syntax {
			for _, d := range f.Decls {
				gd, ok := d.(*ast.GenDecl)
				if !ok || gd.Tok != token.TYPE {
					continue
				}
				for _, s := range gd.Specs {
					ts := s.(*ast.TypeSpec)
					if ts.Name.Name != "EngineRep" {
						continue
					}
					found = true
					rhs, _ := types.Unalias(tpk.TypesInfo.TypeOf(ts.Type)).(*types.Named)
					ok := rhs != nil && rhs.Origin() == named && rhs.TypeArgs().Len() == 1 && types.Identical(rhs.TypeArgs().At(0), types.Typ[types.Float64])
					c.Check(ok, rule, "EngineRep#definition", ts.Pos(), "tuning.EngineRep is defined as eval.CoeffSet[float64]: same fields, same order, same array shapes as the engine's CoeffSet[Score]")
				}
			}
		}
	}
	if !found {
		c.Anchor(rule, c19Tun+".EngineRep")
	}
	// eval.Coefficients is a CoeffSet[Score]
	if epk := p.Pkg("eval"); epk != nil {
		if v, ok := epk.Types.Scope().Lookup("Coefficients").(*types.Var); ok {
			n, _ := types.Unalias(v.Type()).(*types.Named)
			c.Check(n != nil && n.Origin() == named && n.TypeArgs().Len() == 1 && c19IsScore(n.TypeArgs().At(0)), rule, "Coefficients#type", v.Pos(), "eval.Coefficients is a CoeffSet[Score]")
		} else {
			c.Anchor(rule, "eval.Coefficients")
		}
	}
}

// ---------- R6 ----------

func c19R6(c *Ctx, p *Prog) {
	const rule = "C19.R6"
	spec := c19Tun + ".(*EngineRep).Eval"
	fn, origin := p.Func(spec), p.Func("eval.Eval")
	black, okB := p.pkgConstInt("chess.Black")
	white, okW := p.pkgConstInt("chess.White")
	if fn == nil || origin == nil || !okB {
		c.Anchor(rule, spec+" / eval.Eval / chess.Black")
		return
	}
	calls := c19EvalCalls(fn, origin)
	if len(calls) != 1 || len(fn.Params) != 2 {
		c.Undec(rule, spec+"#sign", fn.Pos(), "expected exactly one call of eval.Eval")
		c.Floor(rule, 0, 1, "sign conventions checked")
		return
	}
	score := ssa.Value(calls[0])
	// isBlack: cond is (b.STM == Black) [+1] or (b.STM != Black) [-1] over the evaluated board
	isBlack := func(cond ssa.Value) int {
		bo, ok := cond.(*ssa.BinOp)
		if !ok || (bo.Op != token.EQL && bo.Op != token.NEQ) {
			return 0
		}
		for _, pr := range [][2]ssa.Value{{bo.X, bo.Y}, {bo.Y, bo.X}} {
			k, isK := constOf(pr[1])
			if ld, ok := pr[0].(*ssa.UnOp); ok && isK && (k == black || (okW && k == white)) && isFieldLoad(ld, "Board.STM") {
				if fa := ld.X.(*ssa.FieldAddr); fa.X == ssa.Value(fn.Params[1]) && calls[0].Call.Args[0] == ssa.Value(fn.Params[1]) {
					s := 1
					if bo.Op == token.NEQ {
						s = -s
					}
					if k != black { // STM is two-valued: != White is == Black
						s = -s
					}
					return s
				}
			}
		}
		return 0
	}
	// sense of control-flow edge from -> to: +1 STM==Black known, -1 STM!=Black known, 0 unknown
	sense := func(from, to *ssa.BasicBlock) int {
		s, cnt := 0, 0
		if iff, ok := from.Instrs[len(from.Instrs)-1].(*ssa.If); ok && from.Succs[0] != from.Succs[1] {
			if k := isBlack(iff.Cond); k != 0 {
				cnt++
				if from.Succs[0] == to {
					s = k
				} else {
					s = -k
				}
			} else {
				return 0
			}
		}
		for _, ce := range controllingConds(from) {
			k := isBlack(ce.Cond)
			if k == 0 {
				return 0
			}
			cnt++
			if !ce.True {
				k = -k
			}
			if s != 0 && s != k {
				return 0
			}
			s = k
		}
		if cnt == 0 {
			return 0
		}
		return s
	}
	type out struct {
		v    ssa.Value
		s    int
		pos  token.Pos
		desc string
	}
	var outs []out
	for _, r := range c19Returns(fn.Blocks) {
		if ph, ok := r.Results[0].(*ssa.Phi); ok {
			for i, e := range ph.Edges {
				outs = append(outs, out{e, sense(ph.Block().Preds[i], ph.Block()), r.Pos(), "merge"})
			}
		} else {
			s, first := 0, true
			for _, ce := range controllingConds(r.Block()) {
				k := isBlack(ce.Cond)
				if !ce.True {
					k = -k
				}
				if k == 0 || (!first && k != s) {
					s = 0
					break
				}
				s, first = k, false
			}
			outs = append(outs, out{r.Results[0], s, r.Pos(), "return"})
		}
	}
	n := 0
	// sign-multiplier form: score * sign with sign ∈ {1, -1} merged from the two cases
	var outs2 []out
	for _, o := range outs {
		m, ok := o.v.(*ssa.BinOp)
		if !ok || m.Op != token.MUL {
			outs2 = append(outs2, o)
			continue
		}
		sgn := m.Y
		if m.Y == score {
			sgn = m.X
		} else if m.X != score {
			outs2 = append(outs2, o)
			continue
		}
		// table form: score * [2]float64{1, -1}[b.STM] (a local literal indexed by the side to move)
		if ld, isLd := sgn.(*ssa.UnOp); isLd && ld.Op == token.MUL {
			if ia, ok := ld.X.(*ssa.IndexAddr); ok {
				tab, isTab := ia.X.(*ssa.Alloc)
				idx, isIdx := c19Strip(ia.Index).(*ssa.UnOp)
				if isTab && isIdx && okW && isFieldLoad(idx, "Board.STM") && idx.X.(*ssa.FieldAddr).X == ssa.Value(fn.Params[1]) && calls[0].Call.Args[0] == ssa.Value(fn.Params[1]) {
					vals, clean := c19ArrayLit(tab, 0)
					fb, hb := vals[black]
					fw, hw := vals[white]
					if clean && hb && hw && math.Abs(fb) == 1 && math.Abs(fw) == 1 {
						for _, e := range []struct {
							f float64
							s int
						}{{fb, 1}, {fw, -1}} {
							d := "sign"
							if e.f < 0 {
								d = "sign-neg"
							}
							outs2 = append(outs2, out{score, e.s, o.pos, d})
						}
						continue
					}
				}
			}
		}
		ph, isPhi := sgn.(*ssa.Phi)
		if !isPhi {
			outs2 = append(outs2, o)
			continue
		}
		for i, e := range ph.Edges {
			k, isK := c19FloatConst(e)
			switch {
			case isK && k == 1:
				outs2 = append(outs2, out{score, sense(ph.Block().Preds[i], ph.Block()), o.pos, "sign"})
			case isK && k == -1:
				outs2 = append(outs2, out{score, sense(ph.Block().Preds[i], ph.Block()), o.pos, "sign-neg"})
			default:
				outs2 = append(outs2, out{e, 0, o.pos, "sign"})
			}
		}
	}
	outs = outs2
	for _, o := range outs {
		neg := o.desc == "sign-neg"
		v := o.v
		if u, ok := v.(*ssa.UnOp); ok && u.Op == token.SUB {
			neg, v = !neg, u.X
		}
		cons := spec + "#plain"
		if neg {
			cons = spec + "#negated"
		}
		switch {
		case v != score || o.s == 0:
			c.Undec(rule, cons, o.pos, "EngineRep.Eval returns %s under a condition the rule cannot relate to b.STM == Black", o.v.String())
		case neg == (o.s > 0):
			n++
			c.Ok(rule, cons, o.pos, "EngineRep.Eval returns %sscore exactly when STM %s Black: side-relative evaluation is turned into a White-relative one, as the game results in the EPD are", map[bool]string{true: "-", false: "+"}[neg], map[bool]string{true: "==", false: "!="}[o.s > 0])
		default:
			c.Fail(rule, cons, o.pos, "EngineRep.Eval returns %sscore when STM %s Black: for Black-to-move positions the loss gradient has the wrong sign", map[bool]string{true: "-", false: "+"}[neg], map[bool]string{true: "==", false: "!="}[o.s > 0])
		}
	}
	c.Floor(rule, n, 2, "sign cases (negated for Black, plain otherwise)")
}

// c19ArrayLit: the constant elements of a local array that is only ever
// initialised (element-wise or by a copy of a literal) and read.
func c19ArrayLit(tab *ssa.Alloc, depth int) (map[int64]float64, bool) {
	vals := map[int64]float64{}
	clean := depth < 3
	for _, r := range c19Refs(tab) {
		switch y := r.(type) {
		case *ssa.IndexAddr:
			k, isK := constOf(y.Index)
			for _, u := range c19Refs(y) {
				if st, isSt := u.(*ssa.Store); isSt && st.Addr == ssa.Value(y) {
					f, isF := c19FloatConst(st.Val)
					if _, dup := vals[k]; dup || !isK || !isF {
						clean = false
					}
					vals[k] = f
				}
			}
		case *ssa.Store:
			src, isLd := y.Val.(*ssa.UnOp)
			if y.Addr != ssa.Value(tab) || !isLd || src.Op != token.MUL || len(vals) > 0 {
				clean = false
				break
			}
			lit, isA := src.X.(*ssa.Alloc)
			if !isA {
				clean = false
				break
			}
			v2, ok := c19ArrayLit(lit, depth+1)
			if !ok {
				clean = false
			}
			vals = v2
		case *ssa.UnOp, *ssa.DebugRef:
		default:
			clean = false
		}
	}
	return vals, clean
}

// ---------- R5 (AST over tools/tuner/client) ----------

func c19R5(c *Ctx, q *Prog) {
	const rule = "C19.R5"
	pk := q.Pkg(c19Cli)
	if pk == nil || pk.TypesInfo == nil {
		c.Anchor(rule, c19Cli)
		return
	}
	info := pk.TypesInfo
	callName := func(call *ast.CallExpr) string {
		if f := astCallee(info, call); f != nil {
			return objName(f)
		}
		return ""
	}
	loops := 0
	for _, file := range pk.Syntax {
		for _, d := range file.Decls {
			fd, ok := d.(*ast.FuncDecl)
			if !ok || fd.Body == nil {
				continue
			}
			ast.Inspect(fd.Body, func(n ast.Node) bool {
				rs, ok := n.(*ast.RangeStmt)
				if !ok {
					return true
				}
				call, ok := ast.Unparen(rs.X).(*ast.CallExpr)
				if !ok || callName(call) != c19Tun+".(*EngineRep).TunedParams" {
					return true
				}
				loops++
				c19GradLoop(c, q, rule, info, pk.Syntax, fd, rs, call)
				return true
			})
		}
	}
	c.Floor(rule, loops, 1, "range loops over EngineRep.TunedParams in tools/tuner/client")
}

// c19AST follows calls inside the client package at AST level: helper
// functions (FuncDecl of the same package) and local closures (x := func…),
// with parameters substituted by the caller's argument expressions.
type c19AST struct {
	q      *Prog
	info   *types.Info
	pkg    *types.Package
	locals map[types.Object]*ast.FuncLit // single-definition local closures of the analysed function
	copies map[types.Object]ast.Expr     // single-definition locals that are plain copies: x := y, x := &y, x := pkg.V
}

type c19Env map[types.Object]ast.Expr

type c19Use struct {
	what   string // SetVector | Eval | TunedParams | NullVector | ModifyElem
	recv   types.Object
	arg    ast.Expr // targets / index argument in the caller's terms
	argObj types.Object
	pos    token.Pos
}

// subst rewrites e into the outermost caller's terms when it is (an address/deref of) a bound parameter.
func (a *c19AST) subst(e ast.Expr, env c19Env, depth int) ast.Expr {
	for d := 0; d < 6+depth; d++ {
		id, ok := ast.Unparen(e).(*ast.Ident)
		if !ok {
			return e
		}
		b, ok := env[a.info.ObjectOf(id)]
		if !ok {
			return e
		}
		e = b
	}
	return e
}

// objOf resolves an expression to the variable it denotes, through parens, & and *, selectors and bound parameters.
func (a *c19AST) objOf(e ast.Expr, env c19Env) types.Object {
	for d := 0; d < 12; d++ {
		switch x := ast.Unparen(e).(type) {
		case *ast.UnaryExpr:
			if x.Op != token.AND {
				return nil
			}
			e = x.X
		case *ast.StarExpr:
			e = x.X
		case *ast.Ident:
			o := a.info.ObjectOf(x)
			if b, ok := env[o]; ok {
				e = b
				continue
			}
			if b, ok := a.copies[o]; ok {
				e = b
				continue
			}
			return o
		case *ast.SelectorExpr:
			return a.info.ObjectOf(x.Sel)
		default:
			return nil
		}
	}
	return nil
}

func (a *c19AST) callName(call *ast.CallExpr) string {
	if f := astCallee(a.info, call); f != nil {
		return objName(f)
	}
	return ""
}

// body returns the body and parameter objects of a followed callee (same-package function or local closure).
func (a *c19AST) body(call *ast.CallExpr) (*ast.BlockStmt, []types.Object) {
	var ft *ast.FuncType
	var body *ast.BlockStmt
	if f := astCallee(a.info, call); f != nil && f.Pkg() == a.pkg {
		if sig, _ := f.Type().(*types.Signature); sig != nil && sig.Recv() == nil {
			if fd := a.q.DeclOf(f); fd != nil && fd.Body != nil {
				ft, body = fd.Type, fd.Body
			}
		}
	} else if id, ok := ast.Unparen(call.Fun).(*ast.Ident); ok {
		if fl := a.locals[a.info.ObjectOf(id)]; fl != nil {
			ft, body = fl.Type, fl.Body
		}
	}
	if body == nil || ft.Params == nil {
		return body, nil
	}
	var ps []types.Object
	for _, f := range ft.Params.List {
		for _, n := range f.Names {
			ps = append(ps, a.info.ObjectOf(n))
		}
	}
	return body, ps
}

// bind builds the callee environment; nil when arguments and parameters do not line up (variadic, unnamed).
func (a *c19AST) bind(call *ast.CallExpr, ps []types.Object, env c19Env, depth int) c19Env {
	if len(ps) != len(call.Args) {
		return nil
	}
	ne := c19Env{}
	for i, p := range ps {
		ne[p] = a.subst(call.Args[i], env, depth)
		if u, ok := ast.Unparen(call.Args[i]).(*ast.UnaryExpr); ok && u.Op == token.AND {
			ne[p] = &ast.UnaryExpr{Op: token.AND, X: a.subst(u.X, env, depth), OpPos: u.OpPos}
		}
	}
	return ne
}

// collect lists the tuning API uses under n, following helpers.
func (a *c19AST) collect(n ast.Node, env c19Env, depth int, out *[]c19Use) {
	ast.Inspect(n, func(x ast.Node) bool {
		call, ok := x.(*ast.CallExpr)
		if !ok {
			return true
		}
		name := a.callName(call)
		var recv types.Object
		if sel, ok := ast.Unparen(call.Fun).(*ast.SelectorExpr); ok {
			recv = a.objOf(sel.X, env)
		}
		mk := func(what string, arg ast.Expr) {
			u := c19Use{what: what, recv: recv, pos: call.Pos()}
			if arg != nil {
				u.arg = a.subst(arg, env, depth)
				u.argObj = a.objOf(arg, env)
			}
			*out = append(*out, u)
		}
		switch {
		case name == c19Tun+".(*EngineRep).SetVector" && len(call.Args) == 2:
			mk("SetVector", call.Args[1])
		case name == c19Tun+".(*EngineRep).TunedParams" && len(call.Args) == 1:
			mk("TunedParams", call.Args[0])
		case name == c19Tun+".NullVector" && len(call.Args) == 1:
			recv = nil
			mk("NullVector", call.Args[0])
		case name == c19Tun+".(*EngineRep).Eval":
			mk("Eval", nil)
		case name == c19Tun+".(*Vector).ModifyElem" && len(call.Args) == 2:
			mk("ModifyElem", call.Args[0])
		default:
			if depth < 3 {
				if body, ps := a.body(call); body != nil {
					if ne := a.bind(call, ps, env, depth); ne != nil {
						a.collect(body, ne, depth+1, out)
					}
				}
			}
		}
		return true
	})
}

func c19GradLoop(c *Ctx, q *Prog, rule string, info *types.Info, files []*ast.File, fd *ast.FuncDecl, rs *ast.RangeStmt, tpCall *ast.CallExpr) {
	fname := "client." + fd.Name.Name
	a := &c19AST{q: q, info: info, locals: map[types.Object]*ast.FuncLit{}, copies: map[types.Object]ast.Expr{}}
	if o := info.ObjectOf(fd.Name); o != nil {
		a.pkg = o.Pkg()
	}
	defs := map[types.Object]int{}
	var decls []*ast.FuncDecl
	for _, f := range files {
		for _, d := range f.Decls {
			if g, ok := d.(*ast.FuncDecl); ok && g.Body != nil {
				decls = append(decls, g)
			}
		}
	}
	for _, g := range decls {
		ast.Inspect(g.Body, func(n ast.Node) bool {
			if as, ok := n.(*ast.AssignStmt); ok {
				for i, l := range as.Lhs {
					if id, ok := l.(*ast.Ident); ok && i < len(as.Rhs) {
						o := info.ObjectOf(id)
						defs[o]++
						if len(as.Lhs) != len(as.Rhs) || as.Tok != token.DEFINE {
							continue
						}
						switch r := ast.Unparen(as.Rhs[i]).(type) {
						case *ast.FuncLit:
							a.locals[o] = r
						case *ast.Ident, *ast.SelectorExpr:
							a.copies[o] = r
						case *ast.UnaryExpr:
							if _, isId := ast.Unparen(r.X).(*ast.Ident); isId && r.Op == token.AND {
								a.copies[o] = r
							}
						}
					}
				}
			}
			return true
		})
		ast.Inspect(g.Body, func(n ast.Node) bool {
			if inc, ok := n.(*ast.IncDecStmt); ok {
				if id, ok := ast.Unparen(inc.X).(*ast.Ident); ok {
					defs[info.ObjectOf(id)]++
				}
			}
			return true
		})
	}
	for o := range a.locals {
		if defs[o] != 1 {
			delete(a.locals, o)
		}
	}
	for o := range a.copies {
		if defs[o] != 1 {
			delete(a.copies, o)
		}
	}
	var keyObj, ptrObj types.Object
	if id, ok := rs.Key.(*ast.Ident); ok {
		keyObj = info.ObjectOf(id)
	}
	if id, ok := rs.Value.(*ast.Ident); ok {
		ptrObj = info.ObjectOf(id)
	}
	if keyObj == nil || ptrObj == nil || rs.Tok != token.DEFINE {
		c.Undec(rule, fname+"#range", rs.Pos(), "the TunedParams loop does not define both an index and a pointer variable")
		return
	}
	var eObj types.Object
	if sel, ok := ast.Unparen(tpCall.Fun).(*ast.SelectorExpr); ok {
		eObj = a.objOf(sel.X, nil)
	}

	// (a) gradient index: every ModifyElem reached from the body (through helpers) is indexed by the range key
	var inBody []c19Use
	a.collect(rs.Body, nil, 0, &inBody)
	nMod := 0
	var gradsObj types.Object
	for _, u := range inBody {
		if u.what != "ModifyElem" {
			continue
		}
		nMod++
		gradsObj = u.recv
		_, plain := ast.Unparen(u.arg).(*ast.Ident)
		// a variable declared in this function outside the loop and never assigned inside it cannot carry the key's value
		outer := false
		if v, ok := u.argObj.(*types.Var); ok && plain && v.Pos() >= fd.Pos() && v.Pos() < fd.End() && !(v.Pos() >= rs.Pos() && v.Pos() < rs.End()) {
			outer = true
			ast.Inspect(rs.Body, func(n ast.Node) bool {
				switch y := n.(type) {
				case *ast.AssignStmt:
					for _, l := range y.Lhs {
						if id, ok := ast.Unparen(l).(*ast.Ident); ok && info.ObjectOf(id) == u.argObj {
							outer = false
						}
					}
				case *ast.IncDecStmt:
					if id, ok := ast.Unparen(y.X).(*ast.Ident); ok && info.ObjectOf(id) == u.argObj {
						outer = false
					}
				case *ast.UnaryExpr:
					if id, ok := ast.Unparen(y.X).(*ast.Ident); ok && y.Op == token.AND && info.ObjectOf(id) == u.argObj {
						outer = false
					}
				}
				return true
			})
		}
		switch {
		case plain && u.argObj == keyObj:
			c.Ok(rule, fname+"#grad-index", u.pos, "the gradient element updated is the iterator's own index variable %s", keyObj.Name())
		case outer:
			c.Fail(rule, fname+"#grad-index", u.pos, "the gradient element updated is %s, a variable of the enclosing function that is never assigned inside the loop, not the index %s yielded with the perturbed parameter: the finite difference of one coefficient is credited to another", types.ExprString(u.arg), keyObj.Name())
		default:
			c.Undec(rule, fname+"#grad-index", u.pos, "the gradient element updated is %s: cannot tell that it equals the yielded index %s", types.ExprString(u.arg), keyObj.Name())
		}
	}
	if nMod == 0 {
		c.Undec(rule, fname+"#grad-index", rs.Pos(), "no Vector.ModifyElem call reachable from the TunedParams loop body")
	}

	// (b) perturb / restore: in the body, or in a helper the pointer is handed to
	list, pObj, env := rs.Body.List, ptrObj, c19Env(nil)
	for depth := 0; depth < 3; depth++ {
		if c19FindPerturb(info, list, pObj) >= 0 {
			break
		}
		moved := false
		for _, s := range list {
			var call *ast.CallExpr
			switch y := s.(type) {
			case *ast.ExprStmt:
				call, _ = ast.Unparen(y.X).(*ast.CallExpr)
			case *ast.AssignStmt:
				if len(y.Rhs) == 1 {
					call, _ = ast.Unparen(y.Rhs[0]).(*ast.CallExpr)
				}
			}
			if call == nil {
				continue
			}
			body, ps := a.body(call)
			if body == nil || len(ps) != len(call.Args) {
				continue
			}
			for i, arg := range call.Args {
				if id, ok := ast.Unparen(arg).(*ast.Ident); ok && info.ObjectOf(id) == pObj && !moved {
					ne := a.bind(call, ps, env, depth)
					list, pObj, env, moved = body.List, ps[i], ne, true
				}
			}
		}
		if !moved {
			break
		}
	}
	c19Restore(c, a, rule, fname, rs, list, pObj, env, eObj)

	// (c) one targets value, one coefficient object, grads from NullVector
	// when the loop was extracted into a helper, the vectors are set up in its caller: analyse from there
	var all []c19Use
	a.collect(fd.Body, nil, 0, &all)
	root := fd
	has := func(us []c19Use, what string) bool {
		for _, u := range us {
			if u.what == what {
				return true
			}
		}
		return false
	}
	if !has(all, "SetVector") || !has(all, "NullVector") {
		for _, g := range decls {
			var us []c19Use
			if g != fd {
				a.collect(g.Body, nil, 0, &us)
			}
			direct := map[string]bool{}
			ast.Inspect(g.Body, func(n ast.Node) bool {
				if call, ok := n.(*ast.CallExpr); ok {
					direct[a.callName(call)] = true
				}
				return true
			})
			if has(us, "TunedParams") && direct[c19Tun+".(*EngineRep).SetVector"] && direct[c19Tun+".NullVector"] {
				root, all = g, us
				break
			}
		}
	}
	eObj, gradsObj = nil, nil
	for _, u := range all {
		switch u.what {
		case "TunedParams":
			eObj = u.recv
		case "ModifyElem":
			gradsObj = u.recv
		}
	}
	var nullDef types.Object
	ast.Inspect(root.Body, func(n ast.Node) bool {
		if as, ok := n.(*ast.AssignStmt); ok && len(as.Lhs) == 1 && len(as.Rhs) == 1 {
			if call, ok := ast.Unparen(as.Rhs[0]).(*ast.CallExpr); ok && a.callName(call) == c19Tun+".NullVector" {
				nullDef = a.objOf(as.Lhs[0], nil)
			}
		}
		return true
	})
	var tObj types.Object
	okT := true
	seen := map[string]bool{}
	var desc []string
	for _, u := range all {
		if u.arg == nil || u.what == "ModifyElem" {
			continue
		}
		seen[u.what] = true
		_, isVar := u.argObj.(*types.Var)
		_, plain := ast.Unparen(u.arg).(*ast.Ident)
		_, sel := ast.Unparen(u.arg).(*ast.SelectorExpr)
		switch {
		case !isVar || !(plain || sel):
			okT = false
		case tObj == nil:
			tObj = u.argObj
		case u.argObj != tObj:
			okT = false
		}
		desc = append(desc, u.what+"("+types.ExprString(u.arg)+")")
	}
	if okT && seen["SetVector"] && seen["NullVector"] && seen["TunedParams"] {
		c.Ok(rule, fname+"#targets", tpCall.Pos(), "SetVector, NullVector and TunedParams all receive the variable %s: %s", tObj.Name(), strings.Join(desc, ", "))
	} else {
		c.Undec(rule, fname+"#targets", tpCall.Pos(), "SetVector, NullVector and TunedParams are not all given one and the same variable (%s): cannot tell that the coefficient vector, the gradient vector and the iterator index the same parameters", strings.Join(desc, ", "))
	}
	nEval, other := 0, ""
	for _, u := range all {
		switch u.what {
		case "Eval", "SetVector", "TunedParams":
			if u.what == "Eval" {
				nEval++
			}
			if u.recv == nil || u.recv != eObj {
				other = fmt.Sprintf("%s at %s acts on another (or an unresolved) object", u.what, q.Rel(u.pos))
			}
		}
	}
	switch {
	case eObj == nil || other != "" || !seen["SetVector"] || nEval == 0:
		c.Undec(rule, fname+"#objects", rs.Pos(), "SetVector/Eval/TunedParams do not provably act on one coefficient object: %s", other)
	case gradsObj == nil || gradsObj != nullDef:
		c.Undec(rule, fname+"#objects", rs.Pos(), "the vector updated by ModifyElem is not provably the one created by NullVector")
	default:
		c.Ok(rule, fname+"#objects", rs.Pos(), "SetVector, Eval (%d call sites, helpers followed) and TunedParams act on the one coefficient object %s; the gradients updated are the NullVector %s", nEval, eObj.Name(), gradsObj.Name())
	}
}

func c19Mentions(info *types.Info, e ast.Expr, o types.Object) bool {
	found := false
	ast.Inspect(e, func(n ast.Node) bool {
		if id, ok := n.(*ast.Ident); ok && info.ObjectOf(id) == o {
			found = true
		}
		return true
	})
	return found
}

func c19IsDeref(info *types.Info, e ast.Expr, ptr types.Object) bool {
	st, ok := ast.Unparen(e).(*ast.StarExpr)
	if !ok {
		return false
	}
	id, ok := ast.Unparen(st.X).(*ast.Ident)
	return ok && info.ObjectOf(id) == ptr
}

// c19FindPerturb: index of the first statement of list that assigns through ptr.
func c19FindPerturb(info *types.Info, list []ast.Stmt, ptr types.Object) int {
	for i, s := range list {
		if as, ok := s.(*ast.AssignStmt); ok && len(as.Lhs) == 1 && c19IsDeref(info, as.Lhs[0], ptr) {
			return i
		}
		if inc, ok := s.(*ast.IncDecStmt); ok && c19IsDeref(info, inc.X, ptr) {
			return i
		}
	}
	return -1
}

// c19Restore: in list, old := *ptr precedes the perturbation, *ptr = old follows it,
// nothing in between can leave for the next iteration, and the perturbed object is evaluated in between.
func c19Restore(c *Ctx, a *c19AST, rule, fname string, rs *ast.RangeStmt, list []ast.Stmt, ptrObj types.Object, env c19Env, eObj types.Object) {
	info, q := a.info, a.q
	cons := fname + "#restore"
	iPert := c19FindPerturb(info, list, ptrObj)
	if iPert < 0 {
		c.Undec(rule, cons, rs.Pos(), "no perturbation *%s += ε found as a statement of the loop body or of a helper the pointer is handed to", ptrObj.Name())
		return
	}
	iOld, iRest := -1, -1
	var oldObj types.Object
	for i := 0; i < iPert; i++ {
		if as, ok := list[i].(*ast.AssignStmt); ok && len(as.Lhs) == 1 && len(as.Rhs) == 1 && c19IsDeref(info, as.Rhs[0], ptrObj) {
			if id, ok := as.Lhs[0].(*ast.Ident); ok {
				iOld, oldObj = i, info.ObjectOf(id)
			}
		}
	}
	extra := ""
	for i := iPert + 1; i < len(list); i++ {
		as, ok := list[i].(*ast.AssignStmt)
		if !ok || len(as.Lhs) != 1 || len(as.Rhs) != 1 || !c19IsDeref(info, as.Lhs[0], ptrObj) {
			continue
		}
		if id, ok := ast.Unparen(as.Rhs[0]).(*ast.Ident); ok && as.Tok == token.ASSIGN && oldObj != nil && info.ObjectOf(id) == oldObj {
			if iRest < 0 {
				iRest = i
			}
		} else if iRest < 0 {
			extra = "the parameter is assigned " + types.ExprString(as.Rhs[0]) + " after the perturbation"
		}
	}
	switch {
	case iOld < 0:
		c.Undec(rule, cons, list[iPert].Pos(), "the parameter's value is not saved (old := *%s) before the perturbation in the same statement list", ptrObj.Name())
		return
	case iRest < 0 && extra == "" && !c19HasDeferOrGo(list):
		c.Fail(rule, cons, list[iPert].Pos(), "the perturbation of *%s is never undone with the saved value %s: every later finite difference (and every later position) is evaluated with all earlier parameters shifted by ε", ptrObj.Name(), oldObj.Name())
		return
	case iRest < 0 || extra != "":
		c.Undec(rule, cons, list[iPert].Pos(), "%s: cannot tell the perturbation is undone", map[bool]string{true: extra, false: "no plain restore statement (deferred or indirect restore?)"}[extra != ""])
		return
	}
	bad, undec := "", ""
	for j := iOld + 1; j < iRest; j++ {
		after := j > iPert
		ast.Inspect(list[j], func(n ast.Node) bool {
			switch x := n.(type) {
			case *ast.FuncLit:
				return false
			case *ast.ForStmt, *ast.RangeStmt, *ast.SwitchStmt, *ast.TypeSwitchStmt, *ast.SelectStmt:
				ast.Inspect(x, func(m ast.Node) bool {
					if b, ok := m.(*ast.BranchStmt); ok && after && (b.Tok == token.CONTINUE || b.Label != nil || b.Tok == token.GOTO) {
						undec = "a " + b.Tok.String() + " inside a nested statement between perturbation and restore"
					}
					if _, ok := m.(*ast.ReturnStmt); ok && after {
						undec = "a return between perturbation and restore"
					}
					return true
				})
				return false
			case *ast.BranchStmt:
				if !after {
					break
				}
				if x.Tok == token.CONTINUE && x.Label == nil {
					bad = q.Rel(x.Pos())
				} else {
					undec = "a " + x.Tok.String() + " between perturbation and restore"
				}
			case *ast.ReturnStmt:
				if after {
					undec = "a return between perturbation and restore"
				}
			case *ast.AssignStmt:
				for _, l := range x.Lhs {
					if id, ok := ast.Unparen(l).(*ast.Ident); ok && (info.ObjectOf(id) == oldObj || info.ObjectOf(id) == ptrObj) {
						undec = "the saved value or the pointer is reassigned between save and restore"
					}
				}
			}
			return true
		})
	}
	switch {
	case bad != "":
		c.Fail(rule, cons, list[iPert].Pos(), "the loop continues at %s without restoring *%s: the parameter keeps its +ε for all later evaluations", bad, ptrObj.Name())
		return
	case undec != "":
		c.Undec(rule, cons, list[iPert].Pos(), "%s: cannot tell the perturbation is undone on every path", undec)
		return
	}
	c.Ok(rule, cons, list[iRest].Pos(), "%s := *%s is saved before the perturbation and *%s = %s follows it in the same statement list with no continue/break/return/goto in between", oldObj.Name(), ptrObj.Name(), ptrObj.Name(), oldObj.Name())
	// the perturbed object is evaluated while perturbed
	var win []c19Use
	for _, s := range list[iPert+1 : iRest] {
		a.collect(s, env, 0, &win)
	}
	n := 0
	for _, u := range win {
		if u.what == "Eval" && u.recv != nil && u.recv == eObj {
			n++
		}
	}
	if n > 0 {
		c.Ok(rule, fname+"#perturbed-eval", list[iPert].Pos(), "between perturbation and restore the perturbed object %s is evaluated (%d Eval call site(s), helpers followed)", eObj.Name(), n)
	} else {
		c.Undec(rule, fname+"#perturbed-eval", list[iPert].Pos(), "no Eval on the perturbed coefficient object found between perturbation and restore: cannot tell that the finite difference measures this parameter")
	}
}

func c19HasDeferOrGo(list []ast.Stmt) bool {
	for _, s := range list {
		switch s.(type) {
		case *ast.DeferStmt, *ast.GoStmt:
			return true
		}
	}
	return false
}

// ---------- mutants ----------

func init() {
	vec := "tools/tuner/tuning/vector.go"
	addMutants(
		Mutant{Name: "C19.R1-third-type-test", Prop: "C19", File: "eval/eval.go", Quick: true,
			Old: "\tsp.eg[b.STM] += c.TempoBonus[1]\n", New: "\tsp.eg[b.STM] += c.TempoBonus[1]\n\tif _, ok := any(c.TempoBonus[1]).(float64); ok {\n\t\tsp.eg[b.STM] += 1\n\t}\n",
			Expect: "C19.R1/"},
		Mutant{Name: "C19.R1-tuner-evaluates-engine-set", Prop: "C19", File: vec,
			Old: "score := eval.Eval(b, (*eval.CoeffSet[float64])(e))", New: "score := float64(eval.Eval(b, &eval.Coefficients))",
			Expect: "C19.R1/" + c19Tun + ".(*EngineRep).Eval#instance"},
		Mutant{Name: "C19.R1-engine-mutates-coefficients", Prop: "C19", File: "eval/eval.go",
			Old: "func insufficientMat(b *board.Board) bool {\n", New: "func SetTempo(v Score) { Coefficients.TempoBonus[0] = v }\n\nfunc insufficientMat(b *board.Board) bool {\n",
			Expect: "C19.R1.engine/eval.Coefficients@"},
		Mutant{Name: "C19.R2-float-divisor", Prop: "C19", File: "eval/eval.go", Quick: true,
			Old: "\treturn v / MaxPhase / 100\n", New: "\treturn v / MaxPhase / 128\n",
			Expect: "C19.R2/eval.(*scorePair).taperedScore#agree"},
		Mutant{Name: "C19.R2-int-branch-drops-fifty", Prop: "C19", File: "eval/eval.go",
			Old: "v *= int(100 - fifty)", New: "v *= 100",
			Expect: "C19.R2/eval.(*scorePair).taperedScore#agree"},
		Mutant{Name: "C19.R2-table-entry", Prop: "C19", File: "eval/eval.go",
			Old: "300, 330, 359, 387, 414, 439, 461, 481, 499, 515,", New: "300, 330, 359, 387, 414, 439, 461, 481, 499, 525,",
			Expect: "C19.R2/eval.sigm#table"},
		Mutant{Name: "C19.R2-float-steepness", Prop: "C19", File: "eval/eval.go", Quick: true,
			Old: "math.Exp(-0.2*(float64(n)-50.0))", New: "math.Exp(-0.25*(float64(n)-50.0))",
			Expect: "C19.R2/eval.sigm#table"},
		Mutant{Name: "C19.R2-clamp-upper", Prop: "C19", File: "eval/eval.go",
			Old: "Clamp(int(n), 0, len(sigm)-1)", New: "Clamp(int(n), 0, len(sigm)-2)",
			Expect: "C19.R2/eval.sigmoidal#index"},
		Mutant{Name: "C19.R2-table-truncated-tail", Prop: "C19", File: "eval/eval.go",
			Old: "\t599, 599, 599, 599, 599, 599, 600, 600, 600, 600,\n\t600, 600, 600, 600, 600, 600, 600, 600, 600, 600,\n}", New: "}",
			Expect: "C19.R2/eval.sigm#tails"},
		Mutant{Name: "C19.R3-count-before-yield", Prop: "C19", File: vec, Quick: true,
			Old: "\t\tif !yield(*cnt, v.Addr().Interface().(*float64)) {\n\t\t\treturn false\n\t\t}\n\t\t*cnt++\n", New: "\t\t*cnt++\n\t\tif !yield(*cnt, v.Addr().Interface().(*float64)) {\n\t\t\treturn false\n\t\t}\n",
			Expect: "C19.R3/TunedParams#leaf.index"},
		Mutant{Name: "C19.R3-setvector-reversed-array-walk", Prop: "C19", File: vec,
			Old: "\t\tfor i := range dst.Len() {\n\t\t\trec := setFieldFloats(dst.Index(i), floats)", New: "\t\tfor i := dst.Len() - 1; i >= 0; i-- {\n\t\t\trec := setFieldFloats(dst.Index(i), floats)",
			Expect: "C19.R3/SetVector#array.order"},
		Mutant{Name: "C19.R3-tovector-extra-filter", Prop: "C19", File: vec,
			Old: "\t\tif slices.Contains(targets, structT.Field(i).Name) {\n\t\t\tfloats := getFieldFloats", New: "\t\tif slices.Contains(targets, structT.Field(i).Name) && structT.Field(i).Name != \"BishopPair\" {\n\t\t\tfloats := getFieldFloats",
			Expect: "C19.R3/ToVector#field.filter"},
		Mutant{Name: "C19.R3-setvector-advance-by-one", Prop: "C19", File: vec,
			Old: "\t\t\tfloats = floats[numUsed:]\n", New: "\t\t\tfloats = floats[min(numUsed, 1):]\n",
			Expect: "C19.R3/SetVector#advance"},
		Mutant{Name: "C19.R3-getfieldfloats-prepends", Prop: "C19", File: vec,
			Old: "floats = append(floats, sub...)", New: "floats = append(sub, floats...)",
			Expect: "C19.R3/ToVector#concat.helper"},
		Mutant{Name: "C19.R3-convert-mirrored-source", Prop: "C19", File: vec,
			Old: "convert(dst.Index(i), src.Index(i))", New: "convert(dst.Index(i), src.Index(src.Len()-1-i))",
			Expect: "C19.R3/EngineCoeffs#array"},
		Mutant{Name: "C19.R3-leaf-two-elements", Prop: "C19", File: vec,
			Old: "return []float64{v.Float()}", New: "return []float64{v.Float(), 0}",
			Expect: "C19.R3/ToVector#leaf"},
		Mutant{Name: "C19.R3-tunedparams-skips-first-field", Prop: "C19", File: vec,
			Old: "\t\tfor i := range structT.NumField() {\n\t\t\tif slices.Contains(targets, structT.Field(i).Name) {\n\t\t\t\tif !yieldFields", New: "\t\tfor i := structT.NumField() - 1; i >= 0; i-- {\n\t\t\tif slices.Contains(targets, structT.Field(i).Name) {\n\t\t\t\tif !yieldFields",
			Expect: "C19.R3/TunedParams#field.order"},
		Mutant{Name: "C19.R3-counting-closure-counts-early", Prop: "C19", File: vec,
			Old:   "\t\tfor i := range structT.NumField() {\n\t\t\tif slices.Contains(targets, structT.Field(i).Name) {\n\t\t\t\tif !yieldFields(yield, &cnt, structV.Field(i)) {\n",
			New:   "\t\tnumbered := func(param *float64) bool {\n\t\t\tcnt++\n\t\t\tif !yield(cnt, param) {\n\t\t\t\treturn false\n\t\t\t}\n\t\t\treturn true\n\t\t}\n\n\t\tfor i := range structT.NumField() {\n\t\t\tif slices.Contains(targets, structT.Field(i).Name) {\n\t\t\t\tif !yieldFields(numbered, structV.Field(i)) {\n",
			File2: vec, Old2: "func yieldFields(yield func(int, *float64) bool, cnt *int, v reflect.Value) bool {\n\tswitch v.Kind() {\n\tcase reflect.Array:\n\t\tfor i := 0; i < v.Len(); i++ {\n\t\t\tif !yieldFields(yield, cnt, v.Index(i)) {\n\t\t\t\treturn false\n\t\t\t}\n\t\t}\n\n\tcase reflect.Float64:\n\t\tif !yield(*cnt, v.Addr().Interface().(*float64)) {\n\t\t\treturn false\n\t\t}\n\t\t*cnt++\n\n\tdefault:\n\t\tpanic(\"unexpected kind \" + v.Kind().String())\n\t}\n\treturn true\n}\n",
			New2:   "func yieldFields(yield func(*float64) bool, v reflect.Value) bool {\n\tswitch v.Kind() {\n\tcase reflect.Array:\n\t\tfor i := range v.Len() {\n\t\t\tif !yieldFields(yield, v.Index(i)) {\n\t\t\t\treturn false\n\t\t\t}\n\t\t}\n\t\treturn true\n\n\tcase reflect.Float64:\n\t\treturn yield(v.Addr().Interface().(*float64))\n\n\tdefault:\n\t\tpanic(\"unexpected kind \" + v.Kind().String())\n\t}\n}\n",
			Expect: "C19.R3/TunedParams#leaf.index"},
		Mutant{Name: "C19.R3-shared-iterator-descending", Prop: "C19", File: vec,
			Old:   "\tstructV := reflect.ValueOf(unWrap)\n\tstructT := reflect.TypeOf(unWrap)\n\n\tfor i := range structT.NumField() {\n\t\tif slices.Contains(targets, structT.Field(i).Name) {\n\t\t\tfloats := getFieldFloats(structV.Field(i))\n\n\t\t\tresult.data = append(result.data, floats...)\n\t\t}\n\t}\n",
			New:   "\tfor field := range targetFields(reflect.ValueOf(unWrap), targets) {\n\t\tfloats := getFieldFloats(field)\n\n\t\tresult.data = append(result.data, floats...)\n\t}\n",
			File2: vec, Old2: "func getFieldFloats(", New2: "func targetFields(structV reflect.Value, targets []string) iter.Seq[reflect.Value] {\n\tstructT := structV.Type()\n\n\treturn func(yield func(reflect.Value) bool) {\n\t\tfor i := structT.NumField() - 1; i >= 0; i-- {\n\t\t\tif !slices.Contains(targets, structT.Field(i).Name) {\n\t\t\t\tcontinue\n\t\t\t}\n\t\t\tif !yield(structV.Field(i)) {\n\t\t\t\treturn\n\t\t\t}\n\t\t}\n\t}\n}\n\nfunc getFieldFloats(",
			Expect: "C19.R3/ToVector#field.order"},
		Mutant{Name: "C19.R3-tail-returning-leaf-skips-one", Prop: "C19", File: vec,
			Old:   "\t\t\tnumUsed := setFieldFloats(structV.Field(i), floats)\n\n\t\t\tfloats = floats[numUsed:]\n",
			New:   "\t\t\tfloats = setFieldFloats(structV.Field(i), floats)\n",
			File2: vec, Old2: "func setFieldFloats(dst reflect.Value, floats []float64) int {\n\tswitch dst.Kind() {\n\tcase reflect.Array:\n\t\tif dst.Len() > len(floats) {\n\t\t\tpanic(fmt.Sprintf(\"array length mismatch %d != %d\", len(floats), dst.Len()))\n\t\t}\n\n\t\tnumUsed := 0\n\t\tfor i := range dst.Len() {\n\t\t\trec := setFieldFloats(dst.Index(i), floats)\n\n\t\t\tfloats = floats[rec:]\n\t\t\tnumUsed += rec\n\t\t}\n\t\treturn numUsed\n\n\tcase reflect.Float64:\n\t\tif len(floats) < 1 {\n\t\t\tpanic(\"array empty\")\n\t\t}\n\t\tdst.SetFloat(floats[0])\n\n\t\treturn 1\n\n\tdefault:\n\t\tpanic(fmt.Sprintf(\"invalid kind %v\", dst.Kind()))\n\t}\n}\n",
			New2:   "func setFieldFloats(dst reflect.Value, floats []float64) []float64 {\n\tswitch dst.Kind() {\n\tcase reflect.Array:\n\t\tif dst.Len() > len(floats) {\n\t\t\tpanic(fmt.Sprintf(\"array length mismatch %d != %d\", len(floats), dst.Len()))\n\t\t}\n\n\t\tfor i := range dst.Len() {\n\t\t\tfloats = setFieldFloats(dst.Index(i), floats)\n\t\t}\n\t\treturn floats\n\n\tcase reflect.Float64:\n\t\tif len(floats) < 2 {\n\t\t\tpanic(\"array empty\")\n\t\t}\n\t\tdst.SetFloat(floats[0])\n\n\t\treturn floats[2:]\n\n\tdefault:\n\t\tpanic(fmt.Sprintf(\"invalid kind %v\", dst.Kind()))\n\t}\n}\n",
			Expect: "C19.R3/SetVector#leaf.count"},
		Mutant{Name: "C19.R3-accumulator-leaf-appends-twice", Prop: "C19", File: vec,
			Old:   "\t\t\tfloats := getFieldFloats(structV.Field(i))\n\n\t\t\tresult.data = append(result.data, floats...)\n",
			New:   "\t\t\tresult.data = getFieldFloats(result.data, structV.Field(i))\n",
			File2: vec, Old2: "func getFieldFloats(v reflect.Value) []float64 {\n\tswitch v.Kind() {\n\n\tcase reflect.Float64:\n\t\treturn []float64{v.Float()}\n\n\tcase reflect.Array:\n\t\tfloats := make([]float64, 0)\n\t\tfor i := range v.Len() {\n\t\t\tsub := getFieldFloats(v.Index(i))\n\t\t\tfloats = append(floats, sub...)\n\t\t}\n\n\t\treturn floats\n\n\tdefault:\n\t\tpanic(fmt.Sprintf(\"invalid kind %v\", v.Kind()))\n\t}\n}\n",
			New2:   "func getFieldFloats(acc []float64, v reflect.Value) []float64 {\n\tswitch v.Kind() {\n\n\tcase reflect.Float64:\n\t\treturn append(acc, v.Float(), v.Float())\n\n\tcase reflect.Array:\n\t\tfor i := range v.Len() {\n\t\t\tacc = getFieldFloats(acc, v.Index(i))\n\t\t}\n\n\t\treturn acc\n\n\tdefault:\n\t\tpanic(fmt.Sprintf(\"invalid kind %v\", v.Kind()))\n\t}\n}\n",
			Expect: "C19.R3/ToVector#leaf"},
		Mutant{Name: "C19.R2-ifchain-clamp-narrow-upper", Prop: "C19", File: "chess/math.go",
			Old: "\treturn min(b, max(x, a))\n", New: "\tif x < a {\n\t\tx = a\n\t}\n\tif x > b {\n\t\tx = b\n\t}\n\treturn x\n",
			File2: "eval/eval.go", Old2: "Clamp(int(n), 0, len(sigm)-1)", New2: "Clamp(int(n), 0, len(sigm)-2)",
			Expect: "C19.R2/eval.sigmoidal#index"},
		Mutant{Name: "C19.R4-target-typo", Prop: "C19", File: "tools/tuner/tuning/tuning.go", Quick: true,
			Old: "\"MobilityKnight\", \"MobilityBishop\", \"MobilityRook\",", New: "\"MobilityKnight\", \"MobilityBishops\", \"MobilityRook\",",
			Expect: "C19.R4/target:MobilityBishops"},
		Mutant{Name: "C19.R4-non-coefficient-field", Prop: "C19", File: "eval/coeff.go",
			Old: "\tIsolatedPawns [2]T\n}", New: "\tIsolatedPawns [2]T\n\t// Scale is a global divisor.\n\tScale int\n}",
			Expect: "C19.R4/field:Scale"},
		Mutant{Name: "C19.R5-restore-dropped", Prop: "C19", File: "tools/tuner/client/client.go", Quick: true,
			Old: "\t\t\t\t*ptr = old\n", New: "\t\t\t\t_ = old\n",
			Expect: "C19.R5/client.clientWorker#restore"},
		Mutant{Name: "C19.R5-continue-skips-restore", Prop: "C19", File: "tools/tuner/client/client.go",
			Old: "\t\t\t\tloss2 := (res - sigm2) * (res - sigm2)\n", New: "\t\t\t\tloss2 := (res - sigm2) * (res - sigm2)\n\t\t\t\tif loss2 == loss {\n\t\t\t\t\tcontinue\n\t\t\t\t}\n",
			Expect: "C19.R5/client.clientWorker#restore"},
		Mutant{Name: "C19.R5-gradient-index-shifted", Prop: "C19", File: "tools/tuner/client/client.go",
			Old: "grads.ModifyElem(i, func", New: "grads.ModifyElem(cnt, func",
			Expect: "C19.R5/client.clientWorker#grad-index"},
		Mutant{Name: "C19.R5-other-targets", Prop: "C19", File: "tools/tuner/client/client.go",
			Old: "range eCoeffs.TunedParams(tuning.DefaultTargets)", New: "range eCoeffs.TunedParams(tuning.DefaultTargets[1:])",
			Expect: "C19.R5/client.clientWorker#targets"},
		Mutant{Name: "C19.R5-perturbed-eval-on-fresh-coeffs", Prop: "C19", File: "tools/tuner/client/client.go",
			Old: "\t\t\t\tscore2 := eCoeffs.Eval(&b)\n", New: "\t\t\t\tfresh := tuning.EngineCoeffs()\n\t\t\t\tscore2 := fresh.Eval(&b)\n",
			Expect: "C19.R5/client.clientWorker#perturbed-eval"},
		Mutant{Name: "C19.R2-unclamped-index", Prop: "C19", File: "eval/eval.go",
			Old: "return T(sigm[Clamp(int(n), 0, len(sigm)-1)])", New: "return T(sigm[int(n)])",
			Expect: "C19.R2/eval.sigmoidal#index"},
		Mutant{Name: "C19.R6-negates-for-white", Prop: "C19", File: vec, Quick: true,
			Old: "\tif b.STM == Black {\n\t\tscore = -score", New: "\tif b.STM == White {\n\t\tscore = -score",
			Expect: "C19.R6/"},
		Mutant{Name: "C19.R6-negation-dropped", Prop: "C19", File: vec,
			Old: "\t\tscore = -score // convert to side relative\n", New: "\t\tscore = +score // convert to side relative\n",
			Expect: "C19.R6/"},
	)
}
