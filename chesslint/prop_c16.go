package main

// C16 — the staged move picker yields every pseudo-legal move exactly once, hash move first.
//
// R2 proves the per-table saturation bound of the three history stores from the
// shape of their Add methods; R1 evaluates RankNoisy/RankQuiet with a small
// interval evaluator over SSA (table loads bounded by R2) and orders the
// resulting bands against the constants picker.Next really uses (sentinel, hash
// weight, the two yield thresholds); R3 model-checks the stage machine of Next;
// R4 checks both ranking loops (coverage of the generated tail, duplicate
// suppression, stage ranker); R5 checks the selection loops, the swap and the
// one-step cursor discipline of every exit of Next.

import (
	"fmt"
	"go/ast"
	"go/token"
	"go/types"
	"math"
	"sort"
	"strings"

	"golang.org/x/tools/go/ssa"
)

const (
	c16Next   = "picker.(*Picker).Next"
	c16fIx    = "picker.Picker.ix"
	c16fState = "picker.Picker.state"
	c16fHash  = "picker.Picker.hashMove"
	c16Frame  = "move.(*Store).Frame"
	c16Alloc  = "move.(*Store).Alloc"
	c16GenN   = "movegen.GenNoisy"
	c16GenQ   = "movegen.GenNotNoisy"
	c16RankN  = "heur.(*MoveRanker).RankNoisy"
	c16RankQ  = "heur.(*MoveRanker).RankQuiet"
)

func init() {
	register(&Property{
		ID: "C16",
		Explain: "Static necessary conditions for 'the staged picker yields every pseudo-legal move exactly once, hash move first; history-derived weights stay in their band'. " +
			"R2: each history store's Add has the gravity shape e += cb - e*|cb|/D with cb clamped to [-C,C], C <= D <= MaxHistory, product formed in a type that holds C*D, and is the only non-zero writer of its table; hence |e| <= D for every update sequence (e=+-D, cb=+-C are the extreme cases of a map monotone in e; argument recorded, not mechanised). " +
			"R1: an interval evaluation of RankNoisy/RankQuiet over SSA (table loads bounded by R2, Piece loads by the declared Piece constants, promotion code by its bit mask, spsa tunables by their [min,max]) yields the good/bad/quiet bands; they are strictly ordered against the sentinel, the hash weight and the two yield thresholds that picker.Next actually uses, without int16 wrap-around. " +
			"R3: a path-exact exploration of Next per entry state plus a model check over successive calls shows GenNoisy, GenNotNoisy and the hash-move Alloc each run at most once, the hash move is yielded before any generation, and Next returns false only after both generators ran and the final selection scan found nothing. " +
			"R4: each ranking loop runs over the frame taken after its generator from the pre-generation length (or the cursor) to len, assigns a weight to every element, compares the full hash move with the generated move, stores the sentinel on equality and the stage's ranker otherwise. " +
			"R5: each selection loop is an argmax over [p.ix,len) with a constant threshold; every 'return true' follows exactly one p.ix++ and a swap of the selected element into p.ix (or the hash-move Alloc behind the IsPseudoLegal gate); 'return false' follows none; Move reads p.ix-1, YieldedMoves the prefix [:p.ix]. " +
			"R6: every use of a picker is dominated by a Push on its own move store in the creating function, and every Push is popped on all paths. " +
			"A deviation is reported as a violation only when the deviating construct itself is recognised; an unrecognised shape is undecided. " +
			"Not decided: multiset equality of yielded and generated moves for concrete positions; that IsPseudoLegal rejects only moves the generators never emit (C05) - the duplicate test is unconditional, so a rejected hash move that a generator does emit would be dropped.",
		Assume: []string{
			"C05: board.IsPseudoLegal(m) is false only for encodings the generators never emit (otherwise the unconditional duplicate suppression would drop a move that was never yielded)",
			"C06.R1: the picker starts on an empty frame (Push before New), so frame length == p.ix before the first generation",
			"board.SquaresToPiece holds only declared chess.Piece constants",
			"movegen.GenNoisy/GenNotNoisy append through Store.Alloc and emit no duplicates (C01)",
			"params.Set keeps spsa tunables inside [min,max] of params.tunables (C06.R5)",
		},
		Run: runC16,
	})
}

func runC16(c *Ctx) {
	p := c.need("default")
	if p == nil {
		return
	}
	ev := c16R2(c, p, nil)
	pk := c16Scan(c, p)
	if pk != nil {
		c16R3(c, p, pk)
		c16R4(c, p, pk)
		c16R5(c, p, pk)
	}
	c16R6(c, p)
	c16R1(c, p, ev, pk)
	// "every pseudo-legal move exactly once": the hash move is yielded on IsPseudoLegal's word and skipped
	// later by comparing with the generated moves, so acceptor and generator must describe the same set
	c.As("C05.R", "C16.R7.acceptor-vs-generator:R", func() { c05R1R4(c, p); c05R2(c, p); c05R7(c, p) })
	if c.Tier == "thorough" {
		if sp := c.need("spsa"); sp != nil {
			tun := c16Tunables(c, sp)
			ev2 := c16R2(c, sp, tun)
			c16R1(c, sp, ev2, c16Scan(c, sp))
		}
		c.Use(p)
	}
}

// ---------------------------------------------------------------- intervals

type c16Iv struct {
	lo, hi int64
	exact  bool // both endpoints are attained by some reachable state
}

func (a c16Iv) String() string { return fmt.Sprintf("[%d,%d]", a.lo, a.hi) }

func c16Union(a, b c16Iv) c16Iv {
	return c16Iv{min(a.lo, b.lo), max(a.hi, b.hi), a.exact && b.exact}
}

type c16Err struct {
	msg   string
	exact bool
	pos   token.Pos
}

var c16Ranges = map[types.BasicKind]c16Iv{
	types.Int8: {lo: math.MinInt8, hi: math.MaxInt8}, types.Int16: {lo: math.MinInt16, hi: math.MaxInt16}, types.Int32: {lo: math.MinInt32, hi: math.MaxInt32},
	types.Int: {lo: math.MinInt64, hi: math.MaxInt64}, types.Int64: {lo: math.MinInt64, hi: math.MaxInt64},
	types.Uint8: {hi: math.MaxUint8}, types.Uint16: {hi: math.MaxUint16}, types.Uint32: {hi: math.MaxUint32},
}

// c16TypeRange: value range of a (named) basic integer type; uint/uint64/uintptr are not supported.
func c16TypeRange(t types.Type) (c16Iv, bool) {
	if b, ok := t.Underlying().(*types.Basic); ok {
		r, ok := c16Ranges[b.Kind()]
		return r, ok
	}
	return c16Iv{}, false
}

// c16Acc accumulates the union of intervals.
type c16Acc struct {
	iv c16Iv
	n  int
}

func (a *c16Acc) add(iv c16Iv) {
	if a.n == 0 {
		a.iv = iv
	} else {
		a.iv = c16Union(a.iv, iv)
	}
	a.n++
}

func c16AddOv(a, b int64) (int64, bool) {
	s := a + b
	if (a > 0 && b > 0 && s < 0) || (a < 0 && b < 0 && s >= 0) {
		return 0, false
	}
	return s, true
}

func c16MulOv(a, b int64) (int64, bool) {
	if a == 0 || b == 0 {
		return 0, true
	}
	if (a == -1 && b == math.MinInt64) || (b == -1 && a == math.MinInt64) {
		return 0, false
	}
	p := a * b
	if p/b != a {
		return 0, false
	}
	return p, true
}

// c16Eval is a sound interval evaluator for integer SSA values. Unknown integer
// values get the range of their type; every arithmetic result must fit its type
// (otherwise it may wrap and the evaluation fails).
type c16Eval struct {
	tables map[string]int64    // table field (QName) -> D with |entry| <= D (from R2)
	tun    map[string][2]int64 // spsa tunables "params.X" -> [min,max]
	domain map[string]c16Iv    // assumed value domains of struct fields
	hits   map[string]int      // table / domain / tunable loads met (distinct call path + load)
	seen   map[string]bool
	path   []ssa.Value // call sites being evaluated
}

func (e *c16Eval) hit(name string, v ssa.Value) {
	key := fmt.Sprintf("%s/%p/%p", name, v, e.path)
	if len(e.path) > 0 {
		key = fmt.Sprintf("%s/%p/%p", name, v, e.path[0])
	}
	if e.seen == nil {
		e.seen = map[string]bool{}
	}
	if !e.seen[key] {
		e.seen[key] = true
		e.hits[name]++
	}
}

func (e *c16Eval) fit(iv c16Iv, v ssa.Value, what string) (c16Iv, *c16Err) {
	r, ok := c16TypeRange(v.Type())
	if !ok {
		return iv, &c16Err{fmt.Sprintf("%s has non-integer or unsupported type %s", what, v.Type()), false, v.Pos()}
	}
	if iv.lo < r.lo || iv.hi > r.hi {
		return iv, &c16Err{fmt.Sprintf("%s can take values in %s, outside the range of %s: the result wraps around", what, iv, v.Type()), iv.exact, v.Pos()}
	}
	return iv, nil
}

// refine narrows the range of v by the branch conditions under which it is used:
// comparisons of v with a constant or with another value whose range is known
// (so `if x < a { x = a }; if b < x { return b }; return x` evaluates as a clamp).
func (e *c16Eval) refine(iv c16Iv, v ssa.Value, conds []condEdge, env map[*ssa.Parameter]c16Iv, busy map[ssa.Value]bool, depth int) c16Iv {
	out := iv
	for _, ce := range conds {
		b, ok := ce.Cond.(*ssa.BinOp)
		if !ok {
			continue
		}
		op, other := b.Op, ssa.Value(nil)
		if _, isCmp := c16Flip[op]; !isCmp {
			continue
		}
		if b.X == v {
			other = b.Y
		} else if b.Y == v {
			other, op = b.X, c16Flip[op]
		} else {
			continue
		}
		if !ce.True {
			op = c16Not[op]
		}
		o, err := e.base(other, env, busy, depth) // the unrefined range of the other operand is sound
		if err != nil || o.lo == math.MinInt64 || o.hi == math.MaxInt64 {
			continue
		}
		switch op {
		case token.EQL:
			out.lo, out.hi = max(out.lo, o.lo), min(out.hi, o.hi)
		case token.NEQ:
			if o.lo == o.hi && out.lo == o.lo {
				out.lo++
			}
			if o.lo == o.hi && out.hi == o.lo {
				out.hi--
			}
		case token.LSS:
			out.hi = min(out.hi, o.hi-1)
		case token.LEQ:
			out.hi = min(out.hi, o.hi)
		case token.GTR:
			out.lo = max(out.lo, o.lo+1)
		case token.GEQ:
			out.lo = max(out.lo, o.lo)
		}
	}
	if out.lo > out.hi {
		return iv // unreachable use: keep the unrefined (sound) range
	}
	if out != iv {
		out.exact = false
	}
	return out
}

// evalOn evaluates v as it flows along the edge from -> to (phi operand): the
// conditions controlling from, plus from's own branch when to is one distinct successor.
func (e *c16Eval) evalOn(v ssa.Value, from, to *ssa.BasicBlock, env map[*ssa.Parameter]c16Iv, busy map[ssa.Value]bool, depth int) (c16Iv, *c16Err) {
	iv, err := e.base(v, env, busy, depth)
	if err != nil {
		return iv, err
	}
	conds := controllingConds(from)
	if iff, ok := from.Instrs[len(from.Instrs)-1].(*ssa.If); ok && len(from.Succs) == 2 && from.Succs[0] != from.Succs[1] {
		conds = append(conds, condEdge{iff.Cond, from.Succs[0] == to, iff})
	}
	return e.refine(iv, v, conds, env, busy, depth), nil
}

func (e *c16Eval) eval(v ssa.Value, at *ssa.BasicBlock, env map[*ssa.Parameter]c16Iv, busy map[ssa.Value]bool, depth int) (c16Iv, *c16Err) {
	iv, err := e.base(v, env, busy, depth)
	if err != nil || at == nil {
		return iv, err
	}
	return e.refine(iv, v, controllingConds(at), env, busy, depth), nil
}

func (e *c16Eval) unknown(v ssa.Value) (c16Iv, *c16Err) {
	if r, ok := c16TypeRange(v.Type()); ok {
		return r, nil
	}
	return c16Iv{}, &c16Err{fmt.Sprintf("value %s of type %s is not a bounded integer", v.Name(), v.Type()), false, v.Pos()}
}

func (e *c16Eval) base(v ssa.Value, env map[*ssa.Parameter]c16Iv, busy map[ssa.Value]bool, depth int) (c16Iv, *c16Err) {
	if busy[v] {
		return c16Iv{}, &c16Err{fmt.Sprintf("value %s depends on itself through a loop; no bound derived", v.Name()), false, v.Pos()}
	}
	busy[v] = true
	defer delete(busy, v)
	blk := func(in ssa.Instruction) *ssa.BasicBlock { return in.Block() }
	switch x := v.(type) {
	case *ssa.Const:
		if n, ok := constOf(x); ok && x.Value != nil {
			return c16Iv{n, n, true}, nil
		}
		return e.unknown(v)
	case *ssa.Parameter:
		if iv, ok := env[x]; ok {
			return iv, nil
		}
		return e.unknown(v)
	case *ssa.Convert:
		iv, err := e.eval(x.X, blk(x), env, busy, depth)
		if err != nil {
			return iv, err
		}
		return e.fit(iv, x, "conversion to "+x.Type().String())
	case *ssa.ChangeType:
		return e.eval(x.X, blk(x), env, busy, depth)
	case *ssa.Phi:
		var out c16Acc
		for i, ed := range x.Edges {
			iv, err := e.evalOn(ed, x.Block().Preds[i], x.Block(), env, busy, depth)
			if err != nil {
				return iv, err
			}
			out.add(iv)
		}
		return out.iv, nil
	case *ssa.UnOp:
		switch x.Op {
		case token.SUB:
			iv, err := e.eval(x.X, blk(x), env, busy, depth)
			if err != nil {
				return iv, err
			}
			if iv.lo == math.MinInt64 {
				return e.unknown(v)
			}
			return e.fit(c16Iv{-iv.hi, -iv.lo, iv.exact}, x, "negation")
		case token.MUL:
			if g, ok := x.X.(*ssa.Global); ok {
				if r, ok := e.tun[globalName(g)]; ok {
					e.hit("tunable "+globalName(g), x)
					return c16Iv{r[0], r[1], true}, nil
				}
			}
			if fr, ok := asFieldAddr(x.X); ok {
				q := fr.QName()
				if d, ok := e.tables[q]; ok && fr.Field.Type() != x.Type() { // an element, not the table itself
					e.hit(q, x)
					return c16Iv{-d, d, true}, nil
				}
				if dom, ok := e.domain[q]; ok && fr.Field.Type() != x.Type() {
					e.hit(q, x)
					return dom, nil
				}
			}
		}
		return e.unknown(v)
	case *ssa.BinOp:
		a, err := e.eval(x.X, blk(x), env, busy, depth)
		if err != nil {
			return a, err
		}
		b, err := e.eval(x.Y, blk(x), env, busy, depth)
		if err != nil {
			return b, err
		}
		what := fmt.Sprintf("'%s' at %s", x.Op, x.Name())
		cands := func(f func(p, q int64) (int64, bool)) (c16Iv, bool) {
			var out c16Acc
			for _, pr := range [][2]int64{{a.lo, b.lo}, {a.lo, b.hi}, {a.hi, b.lo}, {a.hi, b.hi}} {
				r, ok := f(pr[0], pr[1])
				if !ok {
					return out.iv, false
				}
				out.add(c16Iv{r, r, false})
			}
			return out.iv, true
		}
		switch x.Op {
		case token.ADD:
			if r, ok := cands(c16AddOv); ok {
				r.exact = a.exact && b.exact
				return e.fit(r, x, what)
			}
		case token.SUB:
			if r, ok := cands(func(p, q int64) (int64, bool) {
				if q == math.MinInt64 {
					return 0, false
				}
				return c16AddOv(p, -q)
			}); ok {
				r.exact = a.exact && b.exact
				return e.fit(r, x, what)
			}
		case token.MUL:
			if r, ok := cands(c16MulOv); ok {
				r.exact = a.exact && b.exact && (a.lo == a.hi || b.lo == b.hi)
				return e.fit(r, x, what)
			}
		case token.QUO:
			if b.lo == b.hi && b.lo > 0 {
				return c16Iv{a.lo / b.lo, a.hi / b.lo, false}, nil
			}
		case token.AND:
			for _, s := range []c16Iv{a, b} {
				if s.lo == s.hi && s.lo >= 0 {
					return c16Iv{0, s.lo, false}, nil
				}
			}
		case token.SHR:
			if b.lo == b.hi && b.lo >= 0 && b.lo < 63 && a.lo >= 0 {
				return c16Iv{a.lo >> uint(b.lo), a.hi >> uint(b.lo), false}, nil
			}
		}
		return e.unknown(v)
	case *ssa.Call:
		if bi, ok := x.Call.Value.(*ssa.Builtin); ok && (bi.Name() == "min" || bi.Name() == "max") && len(x.Call.Args) > 0 {
			var out c16Iv
			for i, a := range x.Call.Args {
				iv, err := e.eval(a, blk(x), env, busy, depth)
				if err != nil {
					return e.unknown(v)
				}
				switch {
				case i == 0:
					out = iv
				case bi.Name() == "min":
					out = c16Iv{min(out.lo, iv.lo), min(out.hi, iv.hi), false}
				default:
					out = c16Iv{max(out.lo, iv.lo), max(out.hi, iv.hi), false}
				}
			}
			return out, nil
		}
		callee := x.Call.StaticCallee()
		if callee == nil || !isOwn(callee) || callee.Blocks == nil || depth >= 5 || callee.Signature.Results().Len() != 1 {
			return e.unknown(v)
		}
		nenv := map[*ssa.Parameter]c16Iv{}
		for i, prm := range callee.Params {
			if _, ok := c16TypeRange(prm.Type()); ok && i < len(x.Call.Args) {
				if iv, err := e.eval(x.Call.Args[i], blk(x), env, busy, depth); err == nil {
					nenv[prm] = iv
				}
			}
		}
		var out c16Acc
		e.path = append(e.path, x)
		defer func() { e.path = e.path[:len(e.path)-1] }()
		for _, ret := range c16Rets(callee) {
			iv, err := e.eval(ret.Results[0], ret.Block(), nenv, map[ssa.Value]bool{}, depth+1)
			if err != nil {
				return iv, err
			}
			out.add(iv)
		}
		if out.n == 0 {
			return e.unknown(v)
		}
		return out.iv, nil
	}
	return e.unknown(v)
}

// evalReturns evaluates every return of fn (parameters unconstrained).
func (e *c16Eval) evalReturns(fn *ssa.Function) ([]c16Iv, []*ssa.Return, *c16Err) {
	var out []c16Iv
	var rets []*ssa.Return
	for _, ret := range c16Rets(fn) {
		if len(ret.Results) != 1 {
			continue
		}
		iv, err := e.eval(ret.Results[0], ret.Block(), nil, map[ssa.Value]bool{}, 0)
		if err != nil {
			return nil, nil, err
		}
		out = append(out, iv)
		rets = append(rets, ret)
	}
	return out, rets, nil
}

// c16EnumRange: the span of the declared constants of a named integer type.
func c16EnumRange(t types.Type) (c16Iv, bool) {
	n, ok := types.Unalias(t).(*types.Named)
	if !ok || n.Obj().Pkg() == nil {
		return c16Iv{}, false
	}
	var out c16Acc
	sc := n.Obj().Pkg().Scope()
	for _, name := range sc.Names() {
		if k, ok := sc.Lookup(name).(*types.Const); ok && types.Identical(k.Type(), n) {
			if v, ok := c16ConstToInt(k); ok {
				out.add(c16Iv{v, v, false})
			}
		}
	}
	return out.iv, out.n >= 2
}

func c16ConstToInt(k *types.Const) (int64, bool) {
	c := ssa.NewConst(k.Val(), k.Type())
	return constOf(c)
}

// c16Tunables reads params.tunables (spsa build): variable -> [min,max].
func c16Tunables(c *Ctx, p *Prog) map[string][2]int64 {
	const rule = "C16.R1"
	expr, pk := p.pkgVarInit("params.tunables")
	if expr == nil || pk == nil {
		c.Anchor(rule, "params.tunables")
		return nil
	}
	out := map[string][2]int64{}
	cl, ok := ast.Unparen(expr).(*ast.CompositeLit)
	if !ok {
		c.Undec(rule, "params.tunables#shape", expr.Pos(), "initialiser of params.tunables is not a composite literal")
		return nil
	}
	for _, el := range cl.Elts {
		row, ok := el.(*ast.CompositeLit)
		if !ok || len(row.Elts) != 4 {
			c.Undec(rule, "params.tunables#shape", el.Pos(), "row of params.tunables is not {&var, name, min, max}")
			return nil
		}
		u, ok := ast.Unparen(row.Elts[0]).(*ast.UnaryExpr)
		var obj types.Object
		if ok && u.Op == token.AND {
			if id, ok := ast.Unparen(u.X).(*ast.Ident); ok {
				obj = pk.TypesInfo.ObjectOf(id)
			}
		}
		mn, ok1 := constInt(pk.TypesInfo, row.Elts[2])
		mx, ok2 := constInt(pk.TypesInfo, row.Elts[3])
		if obj == nil || !ok1 || !ok2 || mn > mx {
			c.Undec(rule, "params.tunables#shape", el.Pos(), "row of params.tunables is not {&var, name, min, max} with constant min <= max")
			return nil
		}
		out["params."+obj.Name()] = [2]int64{mn, mx}
	}
	c.Floor(rule+".tunables", len(out), 13, "spsa tunables with [min,max]")
	return out
}

// ---------------------------------------------------------------- small SSA matchers

// c16Tri: discharged when ok; a violation only when the deviation itself was recognised
// (real); an unrecognised shape is reported as undecided, never as a violation.
func c16Tri(c *Ctx, ok, real bool, rule, key string, pos token.Pos, f string, a ...any) {
	switch {
	case ok:
		c.Ok(rule, key, pos, f, a...)
	case real:
		c.Fail(rule, key, pos, f, a...)
	default:
		c.Undec(rule, key, pos, "shape not recognised, cannot decide: "+f, a...)
	}
}

// c16IsDupTest: v is true (neg: false) exactly when p.hashMove == x[i].Move — the
// comparison itself, or a chess-3 function that returns such a comparison of its parameters.
func c16IsDupTest(v ssa.Value, x, i ssa.Value) (neg, ok bool) {
	isHash := func(o ssa.Value) bool { return c16LoadOfField(o, c16fHash) }
	isMove := func(o ssa.Value) bool {
		mx, mi, ok := c16LoadElem(o, "Move")
		return ok && mx == x && mi == i
	}
	if call, isCall := v.(*ssa.Call); isCall {
		callee := call.Call.StaticCallee()
		if callee == nil || !isOwn(callee) || callee.Blocks == nil || len(c16Rets(callee)) != 1 || len(c16Rets(callee)[0].Results) != 1 {
			return false, false
		}
		arg := func(o ssa.Value) ssa.Value {
			for k, prm := range callee.Params {
				if o == ssa.Value(prm) && k < len(call.Call.Args) {
					return call.Call.Args[k]
				}
			}
			return nil
		}
		h, m := isHash, isMove
		isHash = func(o ssa.Value) bool { a := arg(o); return a != nil && h(a) }
		isMove = func(o ssa.Value) bool {
			if a := arg(o); a != nil {
				return m(a)
			}
			if addr, ok := c16Load(o); ok { // *(&param.Move) with param = &x[i]
				if base, ok := c16FieldAddr(addr, "move.Weighted.Move"); ok {
					if a := arg(base); a != nil {
						ex, ei, ok := c16Elem(a, "")
						return ok && ex == x && ei == i
					}
				}
			}
			return false
		}
		v = c16Rets(callee)[0].Results[0]
	}
	cmp, isB := v.(*ssa.BinOp)
	if !isB || (cmp.Op != token.EQL && cmp.Op != token.NEQ) {
		return false, false
	}
	if (isHash(cmp.X) && isMove(cmp.Y)) || (isHash(cmp.Y) && isMove(cmp.X)) {
		return cmp.Op == token.NEQ, true
	}
	return false, false
}

// c16SameFrame: a and b denote the picker's frame: the same value, or two Store.Frame()
// calls on p.ms (the frame only changes in the generating stages, which R3/R4 cover).
func c16SameFrame(a, b ssa.Value) bool {
	if a == b {
		return true
	}
	onMs := func(v ssa.Value) bool {
		call, ok := v.(*ssa.Call)
		return ok && isCallValueTo(v, c16Frame) && len(call.Call.Args) == 1 && c16LoadOfField(call.Call.Args[0], "picker.Picker.ms")
	}
	return onMs(a) && onMs(b)
}

// c16K: v is a constant operand (no conversions looked through).
func c16K(v ssa.Value) (int64, bool) {
	if _, ok := v.(*ssa.Const); !ok {
		return 0, false
	}
	return constOf(v)
}

func c16Rets(fn *ssa.Function) (out []*ssa.Return) {
	for _, b := range fn.Blocks {
		if ret, ok := b.Instrs[len(b.Instrs)-1].(*ssa.Return); ok {
			out = append(out, ret)
		}
	}
	return out
}

var (
	c16Flip = map[token.Token]token.Token{token.LSS: token.GTR, token.GTR: token.LSS, token.LEQ: token.GEQ, token.GEQ: token.LEQ, token.EQL: token.EQL, token.NEQ: token.NEQ}
	c16Not  = map[token.Token]token.Token{token.LSS: token.GEQ, token.GEQ: token.LSS, token.GTR: token.LEQ, token.LEQ: token.GTR, token.EQL: token.NEQ, token.NEQ: token.EQL}
)

func c16FieldAddr(addr ssa.Value, qname string) (ssa.Value, bool) {
	fa, ok := addr.(*ssa.FieldAddr)
	if !ok {
		return nil, false
	}
	fr, ok := asFieldAddr(fa)
	if !ok || fr.QName() != qname {
		return nil, false
	}
	return fa.X, true
}

func c16Load(v ssa.Value) (ssa.Value, bool) {
	if u, ok := v.(*ssa.UnOp); ok && u.Op == token.MUL {
		return u.X, true
	}
	return nil, false
}

func c16LoadOfField(v ssa.Value, qname string) bool {
	a, ok := c16Load(v)
	if !ok {
		return false
	}
	_, ok = c16FieldAddr(a, qname)
	return ok
}

// c16Elem: addr is &X[i].<field> of a move.Weighted element ("" = the element itself).
func c16Elem(addr ssa.Value, field string) (x, i ssa.Value, ok bool) {
	if field != "" {
		base, ok := c16FieldAddr(addr, "move.Weighted."+field)
		if !ok {
			return nil, nil, false
		}
		addr = base
	}
	ia, ok := addr.(*ssa.IndexAddr)
	if !ok {
		return nil, nil, false
	}
	return ia.X, ia.Index, true
}

func c16LoadElem(v ssa.Value, field string) (x, i ssa.Value, ok bool) {
	a, ok := c16Load(v)
	if !ok {
		return nil, nil, false
	}
	return c16Elem(a, field)
}

func c16LenOf(v ssa.Value) (ssa.Value, bool) {
	call, ok := v.(*ssa.Call)
	if !ok || len(call.Call.Args) != 1 {
		return nil, false
	}
	if b, ok := call.Call.Value.(*ssa.Builtin); !ok || b.Name() != "len" {
		return nil, false
	}
	return call.Call.Args[0], true
}

// c16Counter: i is a loop-header phi {init from outside, i+1 from inside}.
func c16Counter(i ssa.Value) (init ssa.Value, inc *ssa.BinOp, ok bool) {
	ph, isPhi := i.(*ssa.Phi)
	if !isPhi || len(ph.Edges) != 2 {
		return nil, nil, false
	}
	for k, e := range ph.Edges {
		if b, isb := e.(*ssa.BinOp); isb && b.Op == token.ADD && b.X == ph {
			if n, okc := constOf(b.Y); okc && n == 1 {
				inc, init = b, ph.Edges[1-k]
				if !ph.Block().Dominates(ph.Block().Preds[k]) || ph.Block().Dominates(ph.Block().Preds[1-k]) {
					return nil, nil, false
				}
			}
		}
	}
	return init, inc, inc != nil
}

// c16Guard: block b executes only under `i < len(x)`.
func c16Guard(b *ssa.BasicBlock, i, x ssa.Value) *ssa.If {
	for _, ce := range controllingConds(b) {
		cmp, ok := ce.Cond.(*ssa.BinOp)
		if !ok || !ce.True {
			continue
		}
		l, r, op := cmp.X, cmp.Y, cmp.Op
		if op == token.GTR {
			l, r, op = r, l, token.LSS
		}
		if op != token.LSS || l != i {
			continue
		}
		if a, ok := c16LenOf(r); ok && a == x {
			return ce.If
		}
	}
	return nil
}

// ---------------------------------------------------------------- picker structure

type c16RankLoop struct {
	store        *ssa.Store
	call         *ssa.Call
	ranker       string
	x, i, init   ssa.Value
	inc          *ssa.BinOp
	guard        *ssa.If
	gen          ssa.CallInstruction
	genName, key string
	problems     []string
	dupCmp       ssa.Value // the p.hashMove == moves[i].Move test (possibly inside a callee)
	dupOK, simOK bool
	hasS         bool
	S            int64
}

type c16SelLoop struct {
	cmp       *ssa.BinOp
	x, i      ssa.Value // slice scanned, loop index (x bound to the caller's argument when the loop lives in a callee)
	init, thr ssa.Value // first index, threshold (bound likewise)
	T         int64     // constant threshold
	strict    bool
	best      ssa.Value // the selected index as Next sees it: the header phi, or the call that returns it
	bestPhi   *ssa.Phi
	none      int64
	guarded   bool
	anchor    ssa.Instruction
	exit      *ssa.If
	foundTrue bool
	final     bool
	key       string
	ycall     *ssa.Call // set when the whole yield step (scan, swap, p.ix++) lives in a helper: the call's bool result is 'found'
}

func (l *c16SelLoop) yieldMin() int64 {
	if l.strict {
		return l.T + 1
	}
	return l.T
}

func (l *c16SelLoop) foundBlock() *ssa.BasicBlock {
	if l.foundTrue {
		return l.exit.Block().Succs[0]
	}
	return l.exit.Block().Succs[1]
}

func (l *c16SelLoop) missBlock() *ssa.BasicBlock {
	if l.foundTrue {
		return l.exit.Block().Succs[1]
	}
	return l.exit.Block().Succs[0]
}

// resolveExit finds the branch on best != none (the selection's found / not-found exit).
func (l *c16SelLoop) resolveExit() bool {
	if l.best == nil || l.best.Referrers() == nil {
		return false
	}
	for _, r := range *l.best.Referrers() {
		if t, ok := r.(*ssa.BinOp); ok && (t.Op == token.NEQ || t.Op == token.EQL) && t.Referrers() != nil {
			other := t.Y
			if other == l.best {
				other = t.X
			}
			if n, isC := c16K(other); isC && n == l.none {
				for _, tr := range *t.Referrers() {
					if iff, ok := tr.(*ssa.If); ok {
						l.exit, l.foundTrue = iff, t.Op == token.NEQ
					}
				}
			}
		}
	}
	return l.exit != nil
}

// c16YH is a helper method of the picker that performs a whole yield step: scan
// [p.ix,len) for the best weight above a floor, swap it to p.ix, advance, and
// return whether something was found. Its discipline is checked by R5 inside it.
type c16YH struct {
	fn  *ssa.Function
	sel *c16SelLoop // the scan inside the helper (threshold possibly a parameter)
}

type c16Picker struct {
	fn      *ssa.Function
	recv    ssa.Value
	ranks   []*c16RankLoop
	sels    []*c16SelLoop
	gens    []ssa.CallInstruction // GenNoisy / GenNotNoisy calls in Next
	allocs  []ssa.CallInstruction
	hasH    bool
	H       int64
	states  map[int64]string
	stateTy types.Type
	yh      map[*ssa.Function]*c16YH
}

func c16Scan(c *Ctx, p *Prog) *c16Picker {
	const rule = "C16.scan"
	fn := p.Func(c16Next)
	if fn == nil {
		c.Anchor(rule, c16Next)
		return nil
	}
	for _, spec := range []string{c16Frame, c16Alloc, c16GenN, c16GenQ, c16RankN, c16RankQ} {
		if p.FuncObj(spec) == nil {
			c.Anchor(rule, spec)
			return nil
		}
	}
	pk := &c16Picker{fn: fn, states: map[int64]string{}, yh: map[*ssa.Function]*c16YH{}}
	if len(fn.Params) > 0 {
		pk.recv = fn.Params[0]
	}
	// the receiver may be handed to chess-3 functions as long as nothing they reach writes the cursor or the state
	helper := ""
	allInstrs(fn, func(in ssa.Instruction) {
		ci, ok := in.(ssa.CallInstruction)
		if !ok || pk.recv == nil {
			return
		}
		for _, a := range ci.Common().Args {
			if a != pk.recv {
				continue
			}
			callee := ci.Common().StaticCallee()
			if callee == nil || !isOwn(callee) || callee == fn {
				helper = "a dynamic, foreign or recursive call"
				continue
			}
			cl := p.closure([]*ssa.Function{callee}, nil)
			eff := unionEffects(cl)
			writes := ""
			for _, f := range []string{c16fIx, c16fState, "picker.Picker.*"} {
				if len(eff.FieldWrites[f]) > 0 || len(eff.Escapes[f]) > 0 {
					writes = f
				}
			}
			if pk.yh[callee] != nil {
				continue
			}
			// a helper that advances the cursor (or scans for the best move and reports success) is followed when it is a self-contained yield step
			if why := c16YieldHelper(pk, callee, cl, eff); why != "" && writes != "" {
				helper = fnName(callee) + ", which writes " + writes + " (" + why + ")"
			}
		}
	})
	if helper != "" || pk.recv == nil {
		c.Undec(rule, c16Next+"#receiver-passed-on", fn.Pos(), "Next hands its receiver to %s; cursor and state updates outside Next are not followed by these rules", helper)
		return nil
	}
	pk.gens = append(callsIn(fn, c16GenN), callsIn(fn, c16GenQ)...)
	pk.allocs = callsIn(fn, c16Alloc)
	// state constants
	if tn, ok := p.Pkg("picker").Types.Scope().Lookup("Picker").(*types.TypeName); ok {
		if st, ok := tn.Type().Underlying().(*types.Struct); ok {
			for i := 0; i < st.NumFields(); i++ {
				if st.Field(i).Name() == "state" {
					pk.stateTy = st.Field(i).Type()
				}
			}
		}
	}
	if pk.stateTy == nil {
		c.Anchor(rule, c16fState)
		return nil
	}
	sc := p.Pkg("picker").Types.Scope()
	for _, name := range sc.Names() {
		if k, ok := sc.Lookup(name).(*types.Const); ok && types.Identical(k.Type(), pk.stateTy) {
			if v, ok := c16ConstToInt(k); ok {
				pk.states[v] = name
			}
		}
	}
	c16ScanRanks(pk)
	c16ScanSels(pk)
	// hash weight: constant stored to the Weight of the Alloc'ed element
	allInstrs(fn, func(in ssa.Instruction) {
		st, ok := in.(*ssa.Store)
		if !ok {
			return
		}
		if base, ok := c16FieldAddr(st.Addr, "move.Weighted.Weight"); ok && isCallValueTo(base, c16Alloc) {
			if n, ok := constOf(st.Val); ok {
				pk.H, pk.hasH = n, true
			}
		}
	})
	return pk
}

// c16YieldHelper registers callee as a yield helper of the picker, or says why it is not one.
func c16YieldHelper(pk *c16Picker, callee *ssa.Function, cl []*ssa.Function, eff *effects) string {
	if len(eff.FieldWrites[c16fState]) > 0 || len(eff.FieldWrites["picker.Picker.*"]) > 0 || len(eff.Escapes[c16fIx]) > 0 || len(eff.Escapes[c16fState]) > 0 {
		return "it also writes the state or lets a field address escape"
	}
	for _, f := range cl {
		if f != callee && len(directEffects(f).FieldWrites[c16fIx]) > 0 {
			return "the cursor is advanced deeper than one call below Next"
		}
		for _, spec := range []string{c16GenN, c16GenQ, c16Alloc} {
			if len(callsIn(f, spec)) > 0 {
				return "it allocates or generates moves"
			}
		}
	}
	if len(callee.Params) == 0 || callee.Signature.Results().Len() != 1 || !types.Identical(callee.Signature.Results().At(0).Type().Underlying(), types.Typ[types.Bool]) {
		return "it is not a method with one bool result"
	}
	var sel *c16SelLoop
	for _, l := range c16SelsIn(callee) {
		if l.resolveExit() {
			if sel != nil {
				return "it contains more than one selection scan"
			}
			sel = l
		}
	}
	if sel == nil {
		return "no selection scan recognised in it"
	}
	sel.key = "Next#select-via:" + callee.Name()
	pk.yh[callee] = &c16YH{fn: callee, sel: sel}
	return ""
}

func c16ScanRanks(pk *c16Picker) {
	allInstrs(pk.fn, func(in ssa.Instruction) {
		st, ok := in.(*ssa.Store)
		if !ok {
			return
		}
		call, ok := st.Val.(*ssa.Call)
		if !ok {
			return
		}
		name := objName(calleeObj(call))
		if name != c16RankN && name != c16RankQ {
			return
		}
		l := &c16RankLoop{store: st, call: call, ranker: name}
		pk.ranks = append(pk.ranks, l)
		bad := func(f string, a ...any) { l.problems = append(l.problems, fmt.Sprintf(f, a...)) }
		x, i, ok := c16Elem(st.Addr, "Weight")
		if !ok {
			bad("the ranker's result is not stored to moves[i].Weight")
			return
		}
		l.x, l.i = x, i
		xc, isFrame := x.(*ssa.Call)
		if !isFrame || !isCallValueTo(x, c16Frame) {
			bad("the ranked slice is not a direct result of Store.Frame()")
			return
		}
		for _, g := range pk.gens {
			if instrDominates(g, xc) {
				if l.gen != nil {
					bad("more than one generator call dominates the ranked frame")
				}
				l.gen, l.genName = g, objName(calleeObj(g))
			}
		}
		if l.gen == nil {
			bad("the ranked frame is not taken after a generator call: freshly generated moves are outside the slice")
		}
		l.init, l.inc, ok = c16Counter(i)
		if !ok {
			bad("the index is not a counter i = init; i++")
			return
		}
		if l.guard = c16Guard(st.Block(), i, x); l.guard == nil {
			bad("the loop is not guarded by i < len(frame)")
		}
		// ranker ranks the element it weights
		if len(call.Call.Args) < 2 {
			bad("ranker call without a move argument")
		} else if mx, mi, ok := c16LoadElem(call.Call.Args[1], "Move"); !ok || mx != x || mi != i {
			bad("the ranker is not given moves[i].Move of the element it weights")
		}
		// duplicate test, decided path-sensitively: with 'eq' = (p.hashMove == moves[i].Move),
		// the ranker's store must not execute when eq holds and a constant (sentinel) store must execute only then
		classify := func(v ssa.Value) (string, bool, bool) {
			if neg, ok := c16IsDupTest(v, x, i); ok {
				l.dupCmp = v
				return "eq", neg, true
			}
			return "", false, false
		}
		// one exploration: for the ranker's store and every constant store to moves[i].Weight, under which values of eq can it execute?
		type seenEq struct{ onEq, onNeq bool }
		at := map[ssa.Instruction]*seenEq{}
		sm := &simulator{fn: pk.fn, classify: classify, maxVisit: 1}
		sm.interest = func(in ssa.Instruction) bool {
			s2, ok := in.(*ssa.Store)
			if !ok {
				return false
			}
			sx, si, ok := c16Elem(s2.Addr, "Weight")
			_, isC := c16K(s2.Val)
			return ok && sx == x && si == i && (s2 == st || isC)
		}
		sm.visit = func(in ssa.Instruction, asg map[string]bool) {
			if at[in] == nil {
				at[in] = &seenEq{}
			}
			eq, decided := asg["eq"]
			at[in].onEq = at[in].onEq || !decided || eq
			at[in].onNeq = at[in].onNeq || !decided || !eq
		}
		sm.run()
		l.simOK = !sm.aborted
		if l.dupCmp == nil || at[st] == nil {
			return
		}
		l.dupOK = l.simOK && !at[st].onEq
		for in, se := range at {
			if in == ssa.Instruction(st) {
				continue
			}
			if se.onNeq || !se.onEq {
				l.dupOK = false // a constant weight for a move that is not the duplicate
				continue
			}
			if n, _ := c16K(in.(*ssa.Store).Val); !l.hasS || n > l.S {
				l.S = n
			}
			l.hasS = true
		}
	})
	for _, l := range pk.ranks {
		l.key = "Next#rank:" + strings.TrimPrefix(l.genName, "movegen.")
		if l.gen == nil {
			l.key = "Next#rank:" + l.ranker[strings.LastIndex(l.ranker, ".")+1:]
		}
	}
}

// c16SelsIn recognises argmax selection loops in fn. x, init and the threshold
// are values of fn (possibly its parameters); best is the header phi.
func c16SelsIn(fn *ssa.Function) (out []*c16SelLoop) {
	allInstrs(fn, func(in ssa.Instruction) {
		cmp, ok := in.(*ssa.BinOp)
		if !ok {
			return
		}
		op := cmp.Op
		if op != token.LSS && op != token.LEQ && op != token.GTR && op != token.GEQ {
			return
		}
		m, w := cmp.X, cmp.Y
		if _, _, isW := c16LoadElem(w, "Weight"); !isW {
			m, w, op = w, m, c16Flip[op]
		}
		x, i, isW := c16LoadElem(w, "Weight")
		mp, isPhi := m.(*ssa.Phi)
		if !isW || !isPhi || (op != token.LSS && op != token.LEQ) || len(mp.Edges) != 2 {
			return
		}
		l := &c16SelLoop{cmp: cmp, x: x, i: i, strict: op == token.LSS}
		hdr := mp.Block()
		var back ssa.Value
		for k, e := range mp.Edges {
			if hdr.Dominates(hdr.Preds[k]) {
				back = e
			} else {
				l.thr = e
			}
		}
		bp, ok := back.(*ssa.Phi)
		if !ok || l.thr == nil {
			return
		}
		// back-edge value: maxim kept, or the weight of moves[i] taken under the comparison
		takeIdx := -1
		for k, e := range bp.Edges {
			if e == ssa.Value(mp) {
				continue
			}
			wx, wi, ok := c16LoadElem(e, "Weight")
			if !ok || wx != x || wi != i || takeIdx != -1 {
				return
			}
			under := false
			for _, ce := range controllingConds(bp.Block().Preds[k]) {
				if ce.Cond == ssa.Value(cmp) && ce.True {
					under = true
				}
			}
			if !under {
				return
			}
			takeIdx = k
		}
		if takeIdx == -1 {
			return
		}
		// best: a header phi updated in parallel (i when the weight is taken, itself otherwise)
		for _, hin := range hdr.Instrs {
			hp, ok := hin.(*ssa.Phi)
			if !ok || hp == mp || len(hp.Edges) != 2 {
				continue
			}
			var hb ssa.Value
			var none int64
			okInit := false
			for k, e := range hp.Edges {
				if hdr.Dominates(hdr.Preds[k]) {
					hb = e
				} else {
					none, okInit = c16K(e)
				}
			}
			hbp, ok := hb.(*ssa.Phi)
			if !ok || !okInit || hbp.Block() != bp.Block() || len(hbp.Edges) != len(bp.Edges) {
				continue
			}
			par := true
			for k, e := range hbp.Edges {
				if (k == takeIdx && e != i) || (k != takeIdx && e != ssa.Value(hp)) {
					par = false
				}
			}
			if par {
				l.best, l.bestPhi, l.none = hp, hp, none
			}
		}
		if l.best == nil {
			return
		}
		l.init, _, _ = c16Counter(i)
		l.guarded = c16Guard(cmp.Block(), i, x) != nil
		l.anchor = mp
		out = append(out, l)
	})
	return out
}

// c16ScanSels finds the selection scans of Next: loops written in Next itself, and
// loops in chess-3 functions Next calls that return the selected index (parameters
// bound to the call's arguments, the call's value standing for 'best').
func c16ScanSels(pk *c16Picker) {
	cands := c16SelsIn(pk.fn)
	allInstrs(pk.fn, func(in ssa.Instruction) {
		call, ok := in.(*ssa.Call)
		if !ok {
			return
		}
		callee := call.Call.StaticCallee()
		if callee == nil || !isOwn(callee) || callee.Blocks == nil || callee == pk.fn {
			return
		}
		bind := func(v ssa.Value) ssa.Value {
			for k, prm := range callee.Params {
				if v == ssa.Value(prm) && k < len(call.Call.Args) {
					return call.Call.Args[k]
				}
			}
			return v
		}
		if yh := pk.yh[callee]; yh != nil && len(call.Call.Args) > 0 && call.Call.Args[0] == pk.recv {
			l := *yh.sel // the helper's scan as seen from this call site
			l.thr, l.ycall, l.anchor, l.exit, l.best = bind(l.thr), call, call, nil, nil
			cands = append(cands, &l)
			return
		}
		for _, l := range c16SelsIn(callee) {
			rets := c16Rets(callee)
			if len(rets) != 1 || len(rets[0].Results) != 1 || rets[0].Results[0] != ssa.Value(l.bestPhi) || !l.bestPhi.Block().Dominates(rets[0].Block()) {
				continue // the callee does not simply return the selected index
			}
			l.x, l.init, l.thr, l.best, l.anchor = bind(l.x), bind(l.init), bind(l.thr), call, call
			cands = append(cands, l)
		}
	})
	for _, l := range cands {
		var ok bool
		if l.T, ok = c16K(l.thr); !ok || (l.ycall == nil && !l.resolveExit()) {
			continue
		}
		l.final = true
		for _, g := range pk.gens {
			if objName(calleeObj(g)) == c16GenQ {
				if ok, _ := reachAvoiding(l.anchor, g.(ssa.Instruction), nil); ok {
					l.final = false
				}
			}
		}
		l.key = "Next#select-good-noisy"
		if l.final {
			l.key = "Next#select-rest"
		}
		pk.sels = append(pk.sels, l)
	}
}

// ---------------------------------------------------------------- R2 history saturation

type c16Term struct {
	v   ssa.Value
	neg bool
}

func c16Sum(v ssa.Value, neg bool, out *[]c16Term) {
	if b, ok := v.(*ssa.BinOp); ok && (b.Op == token.ADD || b.Op == token.SUB) {
		c16Sum(b.X, neg, out)
		c16Sum(b.Y, neg != (b.Op == token.SUB), out)
		return
	}
	*out = append(*out, c16Term{v, neg})
}

// c16AbsOK: fn returns -x under x<0 and x otherwise.
func c16AbsOK(fn *ssa.Function) bool {
	if fn == nil || len(fn.Params) != 1 || fn.Blocks == nil {
		return false
	}
	x := fn.Params[0]
	n := 0
	for _, ret := range c16Rets(fn) {
		b := ret.Block()
		n++
		neg, found := false, false
		for _, ce := range controllingConds(b) {
			if cmp, ok := ce.Cond.(*ssa.BinOp); ok && cmp.Op == token.LSS && cmp.X == ssa.Value(x) {
				if k, isC := constOf(cmp.Y); isC && k == 0 {
					neg, found = ce.True, true
				}
			}
		}
		if !found || len(ret.Results) != 1 {
			return false
		}
		if neg {
			u, ok := ret.Results[0].(*ssa.UnOp)
			if !ok || u.Op != token.SUB || u.X != ssa.Value(x) {
				return false
			}
		} else if ret.Results[0] != ssa.Value(x) {
			return false
		}
	}
	return n == 2
}

func c16R2(c *Ctx, p *Prog, tun map[string][2]int64) *c16Eval {
	const rule = "C16.R2"
	ev := &c16Eval{tables: map[string]int64{}, tun: tun, domain: map[string]c16Iv{}, hits: map[string]int{}}
	if pc := p.Pkg("chess"); pc != nil {
		if tn, ok := pc.Types.Scope().Lookup("Piece").(*types.TypeName); ok {
			if dom, ok := c16EnumRange(tn.Type()); ok {
				ev.domain["board.Board.SquaresToPiece"] = dom
			}
		}
	}
	maxH, okH := p.pkgConstInt("heur.MaxHistory")
	if !okH {
		c.Anchor(rule, "heur.MaxHistory")
		return ev
	}
	n := 0
	for _, field := range []string{"heur.History.data", "heur.Continuation.data", "heur.CaptHist.data"} {
		// every place that can write an element: direct stores, and element addresses handed to chess-3 functions
		ws := p.writersOf(field)
		bound, grav, open := int64(0), 0, false
		for _, w := range sortedKeys(ws) {
			for k, s := range ws[w] {
				base := strings.TrimSuffix(w, "#escape")
				key := base
				if k > 0 {
					key = fmt.Sprintf("%s@%d", base, k)
				}
				if o, ok := s.In.(*ssa.Store); ok && !strings.HasSuffix(w, "#escape") {
					if z, isZ := c16K(o.Val); isZ && z == 0 {
						c.Ok(rule, field+"#writer:"+key, s.Pos, "%s stores the zero value into %s (inside the bound)", w, field)
						continue
					}
				}
				ups, why := c16Updates(s.In, field, 0)
				if why != "" || len(ups) == 0 {
					c.Undec(rule, field+"#writer:"+key, s.Pos, "%s writes %s (%s) in a way the rule cannot follow (%s): the bound no longer follows from the gravity updates alone", w, field, s.What, why)
					open = true
					continue
				}
				for _, st := range ups {
					d, cb, prodT, why := c16Gravity(st, ev)
					if why != "" {
						c.Undec(rule, key+"#shape", st.Pos(), "update of %s (in %s) is not of the form e += cb - e*|cb|/D with a clamped cb: %s", field, fnName(st.Parent()), why)
						open = true
						continue
					}
					grav++
					cMax := max(-max(cb.lo, -math.MaxInt64), cb.hi)
					elemR, _ := c16TypeRange(st.Val.Type())
					prodR, okP := c16TypeRange(prodT)
					prod, okM := c16MulOv(cMax, max(d, cMax))
					c.Check(cMax <= d, rule, key+"#clamp<=divisor", st.Pos(),
						"range of the bonus entering the update (added value and decay factor) %s vs divisor %d: with |cb| <= C <= D the map e -> e + cb - e*|cb|/D keeps |e| <= D (e=D,cb=C gives D - (D-D)(D-C)/D = D; monotone in e); with C > D an entry at D receiving cb=-C lands at -C - D*C/D < -D", cb, d)
					c.Check(okP && okM && prod <= prodR.hi, rule, key+"#product-width", st.Pos(),
						"e*|cb| passes through %s before the division; it can reach %d*%d = %d, which must not wrap (int16 would wrap at 32767 and break the gravity term)", prodT, max(d, cMax), cMax, prod)
					c.Check(d <= elemR.hi && -d >= elemR.lo && cMax <= elemR.hi, rule, key+"#fits-element", st.Pos(),
						"bound %d and clamp %d fit the element type %s", d, cMax, st.Val.Type())
					c.Check(d <= maxH, rule, key+"#bound<=MaxHistory", st.Pos(),
						"saturation bound D = %d of %s vs heur.MaxHistory = %d (the per-store bound the band layout and its init-time assertion are written against)", d, field, maxH)
					if cMax <= d && okP && okM && prod <= prodR.hi && d <= elemR.hi {
						bound = max(bound, d)
					} else {
						open = true
					}
				}
			}
		}
		if grav > 0 {
			n++
			if !open {
				ev.tables[field] = bound
			}
		}
	}
	c.Floor(rule, n, 3, "history stores updated through the gravity shape")
	return ev
}

// c16Updates resolves a write site of a table element — a direct store, or the
// element's address handed to a chess-3 function — to the stores that update it.
func c16Updates(in ssa.Instruction, field string, depth int) ([]*ssa.Store, string) {
	if st, ok := in.(*ssa.Store); ok {
		if fr, ok := asFieldAddr(st.Addr); ok && fr.QName() == field {
			return []*ssa.Store{st}, ""
		}
		return nil, "the element's address is stored"
	}
	ci, ok := in.(ssa.CallInstruction)
	if !ok {
		return nil, "not a store or call"
	}
	callee := ci.Common().StaticCallee()
	if callee == nil || !isOwn(callee) || callee.Blocks == nil {
		return nil, "address passed to a function that is not a static chess-3 callee"
	}
	var out []*ssa.Store
	for i, a := range ci.Common().Args {
		if _, isPtr := a.Type().Underlying().(*types.Pointer); !isPtr || i >= len(callee.Params) {
			continue
		}
		if fr, ok := asFieldAddr(a); ok && fr.QName() == field {
			ups, why := c16ViaParam(callee.Params[i], depth)
			if why != "" {
				return nil, why
			}
			out = append(out, ups...)
		}
	}
	return out, ""
}

// c16ViaParam: the stores through pointer parameter prm, provided prm is only loaded, stored through, or passed on to chess-3 callees.
func c16ViaParam(prm *ssa.Parameter, depth int) ([]*ssa.Store, string) {
	var out []*ssa.Store
	if prm.Referrers() == nil || depth > 3 {
		return nil, "pointer passed through too many calls"
	}
	for _, r := range *prm.Referrers() {
		switch x := r.(type) {
		case *ssa.DebugRef:
		case *ssa.UnOp:
			if x.Op != token.MUL {
				return nil, "pointer used in " + x.String()
			}
		case *ssa.Store:
			if x.Addr != ssa.Value(prm) {
				return nil, "the element's address is stored in " + fnName(x.Parent())
			}
			out = append(out, x)
		case ssa.CallInstruction:
			callee := x.Common().StaticCallee()
			if callee == nil || !isOwn(callee) || callee.Blocks == nil {
				return nil, "address passed on to a function that is not a static chess-3 callee"
			}
			for i, a := range x.Common().Args {
				if a == ssa.Value(prm) && i < len(callee.Params) {
					ups, why := c16ViaParam(callee.Params[i], depth+1)
					if why != "" {
						return nil, why
					}
					out = append(out, ups...)
				}
			}
		default:
			return nil, fmt.Sprintf("pointer used in a %T in %s", r, fnName(prm.Parent()))
		}
	}
	return out, ""
}

// c16Gravity matches st = "e = e + cb - conv(conv(e)*conv(Abs(cb)) / D)"; the
// new value may also be computed by a chess-3 function that receives the old entry.
func c16Gravity(st *ssa.Store, ev *c16Eval) (d int64, cb c16Iv, prodT types.Type, why string) {
	isE := func(v ssa.Value) bool {
		a, ok := c16Load(v)
		return ok && sameValue(a, st.Addr, 0) && v.(*ssa.UnOp).Block() == st.Block()
	}
	val, blk := st.Val, st.Block()
	for depth := 0; depth < 3; depth++ {
		call, isCall := stripConv(val).(*ssa.Call)
		if !isCall {
			break
		}
		callee := call.Call.StaticCallee()
		if callee == nil || !isOwn(callee) || callee.Blocks == nil || len(c16Rets(callee)) != 1 || len(c16Rets(callee)[0].Results) != 1 {
			break
		}
		var prm *ssa.Parameter
		for i, a := range call.Call.Args {
			if isE(stripConv(a)) && i < len(callee.Params) {
				if prm != nil {
					return 0, cb, nil, "the old entry is passed twice to " + fnName(callee)
				}
				prm = callee.Params[i]
			}
		}
		if prm == nil {
			break
		}
		ret := c16Rets(callee)[0]
		val, blk = ret.Results[0], ret.Block()
		isE = func(v ssa.Value) bool { return v == ssa.Value(prm) }
	}
	return c16GravityVal(val, isE, blk, ev)
}

func c16GravityVal(val ssa.Value, isE func(ssa.Value) bool, blk *ssa.BasicBlock, ev *c16Eval) (d int64, cb c16Iv, prodT types.Type, why string) {
	var terms []c16Term
	c16Sum(val, false, &terms)
	var e, cbv, q ssa.Value
	for _, t := range terms {
		switch {
		case !t.neg && isE(t.v) && e == nil:
			e = t.v
		case !t.neg && cbv == nil:
			cbv = t.v
		case t.neg && q == nil:
			q = t.v
		default:
			return 0, cb, nil, "the stored value is not a sum of exactly {+entry, +bonus, -gravity}"
		}
	}
	if e == nil || cbv == nil || q == nil {
		return 0, cb, nil, "the stored value is not a sum of exactly {+entry, +bonus, -gravity}"
	}
	quo, ok := stripConv(q).(*ssa.BinOp)
	if !ok || quo.Op != token.QUO {
		return 0, cb, nil, "the subtracted term is not a quotient"
	}
	if d, ok = c16K(quo.Y); !ok || d <= 0 {
		return 0, cb, nil, "the divisor is not a positive constant"
	}
	mul, ok := stripConv(quo.X).(*ssa.BinOp)
	if !ok || mul.Op != token.MUL {
		return 0, cb, nil, "the dividend is not a product"
	}
	// the product must survive until the division: the narrowest type it passes through counts
	narrow := mul.Type()
	for v := quo.X; ; {
		cv, isConv := v.(*ssa.Convert)
		if !isConv {
			if ct, isCT := v.(*ssa.ChangeType); isCT {
				v = ct.X
				continue
			}
			break
		}
		if types.SizesFor("gc", "amd64").Sizeof(cv.Type()) < types.SizesFor("gc", "amd64").Sizeof(narrow) {
			narrow = cv.Type()
		}
		v = cv.X
	}
	a, b := stripConv(mul.X), stripConv(mul.Y)
	if !isE(a) {
		a, b = b, a
	}
	abs, isCall := b.(*ssa.Call)
	if !isE(a) || !isCall || len(abs.Call.Args) != 1 {
		return 0, cb, nil, "the product is not entry * abs(bonus term)"
	}
	// the decay must use the same (clamped) bonus that is added; if it uses the value the added
	// bonus was clamped from, the recognised deviation is judged with that wider range
	raw := abs.Call.Args[0]
	if raw != cbv && !backSlice(cbv, sliceOpts{ThroughCalls: true})[raw] {
		return 0, cb, nil, "the product is not entry * abs(bonus term) with the bonus term that is added (or the value it was clamped from)"
	}
	if !c16AbsOK(abs.Call.StaticCallee()) {
		return 0, cb, nil, "the function applied to the bonus term is not 'if x < 0 { return -x }; return x'"
	}
	iv, err := ev.eval(cbv, blk, nil, map[ssa.Value]bool{}, 0)
	if err != nil {
		return 0, cb, nil, "range of the clamped bonus: " + err.msg
	}
	r, _ := c16TypeRange(cbv.Type())
	if iv.lo <= r.lo || iv.hi >= r.hi {
		return 0, cb, nil, fmt.Sprintf("the clamped bonus is not bounded (range %s)", iv)
	}
	if raw != cbv {
		rv, err := ev.eval(raw, blk, nil, map[ssa.Value]bool{}, 0)
		if err != nil {
			return 0, cb, nil, "range of the unclamped bonus used in the decay: " + err.msg
		}
		iv = c16Union(iv, rv) // |bonus| in the decay ranges over the unclamped value
	}
	return d, iv, narrow, ""
}

// ---------------------------------------------------------------- R1 bands

func c16R1(c *Ctx, p *Prog, ev *c16Eval, pk *c16Picker) {
	const rule = "C16.R1"
	rn, rq := p.Func(c16RankN), p.Func(c16RankQ)
	if rn == nil || rq == nil || ev == nil {
		c.Anchor(rule, c16RankN+" / "+c16RankQ)
		return
	}
	report := func(key string, pos token.Pos, err *c16Err) {
		if err.exact {
			c.Fail(rule, key, err.pos, "%s", err.msg)
		} else {
			c.Undec(rule, key, err.pos, "cannot bound the weight: %s", err.msg)
		}
	}
	ev.hits, ev.seen = map[string]int{}, nil
	qs, _, err := ev.evalReturns(rq)
	if err != nil || len(qs) == 0 {
		if err == nil {
			err = &c16Err{"RankQuiet has no integer result", false, rq.Pos()}
		}
		report("RankQuiet#range", rq.Pos(), err)
		return
	}
	var qa c16Acc
	for _, q := range qs {
		qa.add(q)
	}
	Q := qa.iv
	tabLoads := 0
	for k, n := range ev.hits {
		if _, ok := ev.tables[k]; ok {
			tabLoads += n
		}
	}
	c.Ok(rule, "RankQuiet#range", rq.Pos(), "quiet weights lie in %s (%d bounded history loads summed, no int16 wrap; loads: %v)", Q, tabLoads, sortedKeys(ev.hits))
	c.Floor(rule+".quiet-terms", tabLoads, 3, "history/continuation loads bounded by R2 that RankQuiet sums")
	ev.hits, ev.seen = map[string]int{}, nil
	ns, rets, err := ev.evalReturns(rn)
	if err != nil || len(ns) == 0 {
		if err == nil {
			err = &c16Err{"RankNoisy has no integer result", false, rn.Pos()}
		}
		report("RankNoisy#range", rn.Pos(), err)
		return
	}
	var goodA, badA c16Acc
	for k, iv := range ns {
		switch {
		case iv.lo > Q.hi:
			goodA.add(iv)
		case iv.hi < Q.lo:
			badA.add(iv)
		default:
			key := fmt.Sprintf("RankNoisy#return@%d-disjoint-from-quiet", k+1)
			if Q.exact && (iv.exact || (iv.lo >= Q.lo && iv.hi <= Q.hi)) { // every value of an exact quiet band is attained (0 + cb = cb)
				c.Fail(rule, key, rets[k].Pos(), "a noisy weight in %s overlaps the quiet band %s: a saturated quiet move and a capture become indistinguishable by weight", iv, Q)
			} else {
				c.Undec(rule, key, rets[k].Pos(), "cannot separate the noisy weight range %s (an over-approximation: promotion code <= 7 from its mask, victim/attacker within the Piece constants) from the quiet band %s", iv, Q)
			}
		}
	}
	c.Ok(rule, "RankNoisy#range", rn.Pos(), "noisy weights: %d return sites, ranges %v (domains used: %v)", len(ns), ns, sortedKeys(ev.hits))
	good, bad := goodA.iv, badA.iv
	if goodA.n == 0 || badA.n == 0 || pk == nil {
		c.Floor(rule, 0, 8, "band inequalities (no good band, no bad band or picker.Next not analysable)")
		return
	}
	var selGood, selRest *c16SelLoop
	for _, l := range pk.sels {
		if l.final {
			selRest = l
		} else {
			selGood = l
		}
	}
	if len(pk.sels) != 2 || selGood == nil || selRest == nil || !pk.hasH {
		c.Undec(rule, "Next#thresholds", pk.fn.Pos(), "expected one selection loop before and one after GenNotNoisy and a constant hash weight; found %d selection loops, hash weight constant: %v", len(pk.sels), pk.hasH)
		return
	}
	nIneq := 0
	ineq := func(name string, ok, exact bool, pos token.Pos, f string, a ...any) {
		nIneq++
		switch {
		case ok:
			c.Ok(rule, name, pos, f, a...)
		case exact:
			c.Fail(rule, name, pos, f, a...)
		default:
			c.Undec(rule, name, pos, "not provable from the derived bounds (which over-approximate the capture score): "+f, a...)
		}
	}
	gm, rm := selGood.yieldMin(), selRest.yieldMin()
	for _, l := range pk.ranks {
		if !l.hasS {
			continue
		}
		ineq("sentinel<rest-yield-min@"+l.key, l.S < rm, true, l.store.Pos(), "sentinel %d vs smallest weight the final scan yields (%d): a larger sentinel would be yielded a second time", l.S, rm)
		ineq("sentinel<good-yield-min@"+l.key, l.S < gm, true, l.store.Pos(), "sentinel %d vs smallest weight the good-noisy scan yields (%d)", l.S, gm)
	}
	ineq("rest-yield-min<=bad.lo", rm <= bad.lo, bad.exact, selRest.cmp.Pos(), "final scan yields weights >= %d, bad captures start at %d: anything below the threshold is never yielded", rm, bad.lo)
	ineq("rest-yield-min<=quiet.lo", rm <= Q.lo, Q.exact, selRest.cmp.Pos(), "final scan yields weights >= %d, quiets start at %d", rm, Q.lo)
	ineq("bad.hi<quiet.lo", bad.hi < Q.lo, bad.exact && Q.exact, rn.Pos(), "bad captures end at %d, quiets start at %d", bad.hi, Q.lo)
	ineq("quiet.hi<good.lo", Q.hi < good.lo, good.exact && Q.exact, rn.Pos(), "quiets end at %d, good captures start at %d", Q.hi, good.lo)
	ineq("good-yield-min<=good.lo", gm <= good.lo, good.exact, selGood.cmp.Pos(), "good-noisy scan yields weights >= %d, good captures start at %d", gm, good.lo)
	ineq("bad.hi<good-yield-min", bad.hi < gm, bad.exact, selGood.cmp.Pos(), "bad captures end at %d, below what the good-noisy scan yields (%d): they wait for the final scan", bad.hi, gm)
	ineq("good.hi<hash-weight", good.hi < pk.H, good.exact, rn.Pos(), "good captures end at %d, hash move weight is %d", good.hi, pk.H)
	ineq("quiet.hi<hash-weight", Q.hi < pk.H, Q.exact, rq.Pos(), "quiets end at %d, hash move weight is %d", Q.hi, pk.H)
	c.Floor(rule, nIneq, 8, "band inequalities")
}

// ---------------------------------------------------------------- R3 stage machine

type c16St struct {
	cur            int64    // p.state now (-1 unknown)
	tag            [6]int64 // value seen by the k-th load of p.state (-1 unknown, -2 not loaded)
	gN, gQ, hA     int
	exGood, exRest bool
	yv             [4]int8 // result of the k-th yield-helper call on this path (0 not yet, 1 found, 2 nothing found)
}

type c16Run struct {
	st  c16St
	ret int // 1 true, 0 false, -1 unknown
	pos token.Pos
}

// c16CmpInt evaluates 'a op b'.
func c16CmpInt(op token.Token, a, b int64) bool {
	switch op {
	case token.EQL:
		return a == b
	case token.NEQ:
		return a != b
	case token.LSS:
		return a < b
	case token.LEQ:
		return a <= b
	case token.GTR:
		return a > b
	}
	return a >= b
}

// c16TagCmp: cond compares a load of p.state with a constant; returns the load's index, the operator (load on the left) and the constant.
func c16TagCmp(cond ssa.Value, tagLoads []ssa.Value) (k int, op token.Token, n int64, ok bool) {
	cmp, isB := cond.(*ssa.BinOp)
	if !isB {
		return 0, 0, 0, false
	}
	if _, isCmp := c16Flip[cmp.Op]; !isCmp {
		return 0, 0, 0, false
	}
	for k, t := range tagLoads {
		if cmp.X == t {
			n, ok = c16K(cmp.Y)
			return k, cmp.Op, n, ok
		}
		if cmp.Y == t {
			n, ok = c16K(cmp.X)
			return k, c16Flip[cmp.Op], n, ok
		}
	}
	return 0, 0, 0, false
}

func c16Explore(pk *c16Picker, s int64, tagLoads []ssa.Value) []c16Run {
	type item struct {
		b    *ssa.BasicBlock
		from int
		st   c16St
	}
	var ycalls []*c16SelLoop
	for _, l := range pk.sels {
		if l.ycall != nil && len(ycalls) < 4 {
			ycalls = append(ycalls, l)
		}
	}
	// boolOf: the value of a bool on this path, when it is (the negation of) a yield helper's result
	var boolOf func(v ssa.Value, st c16St) (val, known bool)
	boolOf = func(v ssa.Value, st c16St) (bool, bool) {
		if u, ok := v.(*ssa.UnOp); ok && u.Op == token.NOT {
			b, k := boolOf(u.X, st)
			return !b, k
		}
		if n, ok := c16K(v); ok {
			return n != 0, true
		}
		for k, l := range ycalls {
			if v == ssa.Value(l.ycall) && st.yv[k] != 0 {
				return st.yv[k] == 1, true
			}
		}
		return false, false
	}
	seen := map[item]bool{}
	var runs []c16Run
	seenRun := map[c16Run]bool{}
	work := []item{{pk.fn.Blocks[0], 0, c16St{cur: s, tag: [6]int64{-2, -2, -2, -2, -2, -2}}}}
	bump := func(n int) int { return min(n+1, 2) }
	for len(work) > 0 {
		it := work[len(work)-1]
		work = work[:len(work)-1]
		if seen[it] {
			continue
		}
		seen[it] = true
		st := it.st
		push := func(b *ssa.BasicBlock, s c16St) { work = append(work, item{b, 0, s}) }
	instrs:
		for idx := it.from; idx < len(it.b.Instrs); idx++ {
			switch x := it.b.Instrs[idx].(type) {
			case *ssa.UnOp:
				for k, t := range tagLoads {
					if ssa.Value(x) == t {
						st.tag[k] = st.cur
					}
				}
			case *ssa.Store:
				if _, ok := c16FieldAddr(x.Addr, c16fState); ok {
					if st.cur, ok = c16K(x.Val); !ok {
						st.cur = -1
					}
				}
			case *ssa.Call:
				for k, l := range ycalls {
					if l.ycall == x { // fork on the helper's result: found (it yielded), or its scan is exhausted
						sT, sF := st, st
						sT.yv[k], sF.yv[k] = 1, 2
						if l.final {
							sF.exRest = true
						} else {
							sF.exGood = true
						}
						work = append(work, item{it.b, idx + 1, sT}, item{it.b, idx + 1, sF})
						break instrs
					}
				}
				switch objName(calleeObj(x)) {
				case c16GenN:
					st.gN = bump(st.gN)
				case c16GenQ:
					st.gQ = bump(st.gQ)
				case c16Alloc:
					st.hA = bump(st.hA)
				}
			case *ssa.Return:
				r := c16Run{st: st, ret: -1, pos: x.Pos()}
				if len(x.Results) == 1 {
					if v, ok := boolOf(x.Results[0], st); ok {
						r.ret = 0
						if v {
							r.ret = 1
						}
					}
				}
				r.st.tag, r.st.yv = [6]int64{}, [4]int8{}
				if !seenRun[r] {
					seenRun[r] = true
					runs = append(runs, r)
				}
			case *ssa.Jump:
				push(it.b.Succs[0], st)
			case *ssa.If:
				takeT, takeF := true, true
				if k, op, n, ok := c16TagCmp(x.Cond, tagLoads); ok && st.tag[k] >= 0 {
					takeT = c16CmpInt(op, st.tag[k], n)
					takeF = !takeT
				} else if v, ok := boolOf(x.Cond, st); ok {
					takeT, takeF = v, !v
				}
				sT, sF := st, st
				for _, l := range pk.sels {
					if l.exit != nil && l.exit == x {
						miss := &sF
						if !l.foundTrue {
							miss = &sT
						}
						if l.final {
							miss.exRest = true
						} else {
							miss.exGood = true
						}
					}
				}
				if takeT {
					push(it.b.Succs[0], sT)
				}
				if takeF {
					push(it.b.Succs[1], sF)
				}
			}
		}
	}
	sort.Slice(runs, func(i, j int) bool { return fmt.Sprint(runs[i]) < fmt.Sprint(runs[j]) })
	return runs
}

func c16R3(c *Ctx, p *Prog, pk *c16Picker) {
	const rule = "C16.R3"
	const cons = "Next#stage-machine"
	fn := pk.fn
	c.Floor(rule+".states", len(pk.states), 5, "constants of the picker's state type")
	var tagLoads []ssa.Value
	allInstrs(fn, func(in ssa.Instruction) {
		if u, ok := in.(*ssa.UnOp); ok && c16LoadOfField(u, c16fState) {
			tagLoads = append(tagLoads, u)
		}
	})
	if len(tagLoads) == 0 || len(tagLoads) > 6 || len(callsIn(fn, c16GenN)) == 0 || len(callsIn(fn, c16GenQ)) == 0 || len(pk.allocs) == 0 {
		c.Undec(rule, cons+"#shape", fn.Pos(), "Next must dispatch on loads of p.state (1..6) and call GenNoisy, GenNotNoisy and Store.Alloc itself; found %d loads, %d/%d/%d calls", len(tagLoads), len(callsIn(fn, c16GenN)), len(callsIn(fn, c16GenQ)), len(pk.allocs))
		return
	}
	// every branch that depends on p.state must be a comparison the exploration can evaluate; otherwise it would fork into infeasible paths
	for _, b := range fn.Blocks {
		iff, ok := b.Instrs[len(b.Instrs)-1].(*ssa.If)
		if !ok {
			continue
		}
		if _, _, _, ok := c16TagCmp(iff.Cond, tagLoads); ok {
			continue
		}
		sl := backSlice(iff.Cond, sliceOpts{})
		for _, t := range tagLoads {
			if sl[t] {
				c.Undec(rule, cons+"#shape", iff.Pos(), "a branch of Next depends on p.state through something other than a comparison with a constant; the stage machine cannot be explored exactly")
				return
			}
		}
	}
	var selRest *c16SelLoop
	for _, l := range pk.sels {
		if l.final {
			selRest = l
		}
	}
	if selRest == nil {
		c.Undec(rule, cons+"#shape", fn.Pos(), "no final selection scan (argmax loop after GenNotNoisy) recognised in Next")
		return
	}
	// initial state: zero value unless picker.New stores one
	s0 := int64(0)
	if nw := p.Func("picker.New"); nw != nil {
		allInstrs(nw, func(in ssa.Instruction) {
			if st, ok := in.(*ssa.Store); ok {
				if _, ok := c16FieldAddr(st.Addr, c16fState); ok {
					if n, isC := constOf(st.Val); isC {
						s0 = n
					} else {
						s0 = -1
					}
				}
			}
		})
	}
	name := func(s int64) string {
		if n, ok := pk.states[s]; ok {
			return n
		}
		return fmt.Sprintf("state(%d)", s)
	}
	runs := map[int64][]c16Run{}
	type cfg struct {
		s          int64
		gN, gQ, hA int
	}
	seen := map[cfg]bool{}
	work := []cfg{{s: s0}}
	failed := map[string]bool{}
	fail := func(key string, pos token.Pos, f string, a ...any) {
		if !failed[key] {
			failed[key] = true
			c.Fail(rule, cons+"#"+key, pos, f, a...)
		}
	}
	visited := map[int64]bool{}
	terminals := 0
	for len(work) > 0 {
		k := work[len(work)-1]
		work = work[:len(work)-1]
		if seen[k] {
			continue
		}
		seen[k] = true
		visited[k.s] = true
		if _, ok := pk.states[k.s]; !ok {
			c.Undec(rule, cons+"#unknown-state", fn.Pos(), "p.state can hold %d, which is not a declared state constant (or is not a constant)", k.s)
			continue
		}
		if _, ok := runs[k.s]; !ok {
			runs[k.s] = c16Explore(pk, k.s, tagLoads)
		}
		for _, r := range runs[k.s] {
			n := cfg{r.st.cur, min(k.gN+r.st.gN, 2), min(k.gQ+r.st.gQ, 2), min(k.hA+r.st.hA, 2)}
			if r.ret < 0 {
				c.Undec(rule, cons+"#result", r.pos, "Next returns a non-constant result on a path entered in %s", name(k.s))
				continue
			}
			if n.gN > 1 {
				fail("GenNoisy-once", r.pos, "entered in %s, GenNoisy can run a second time for the same picker (state not advanced past the generating stage): every noisy move would be yielded twice", name(k.s))
			}
			if n.gQ > 1 {
				fail("GenNotNoisy-once", r.pos, "entered in %s, GenNotNoisy can run a second time for the same picker: every quiet move would be yielded twice", name(k.s))
			}
			if n.hA > 1 {
				fail("hash-once", r.pos, "entered in %s, the hash move can be allocated and yielded a second time", name(k.s))
			}
			if r.st.hA > 0 && (k.gN+k.gQ+r.st.gN+r.st.gQ > 0 || r.ret != 1) {
				fail("hash-first", r.pos, "the hash move is allocated on a path that also generated moves or does not yield: it is not the first move yielded / not at index p.ix of the frame")
			}
			if r.ret == 0 {
				terminals++
				if !(n.gN == 1 && n.gQ == 1 && r.st.exRest) {
					fail("exhaustion", r.pos, "Next can return false when entered in %s with GenNoisy run %d time(s), GenNotNoisy %d time(s), final scan exhausted on this path: %v — iteration ends with moves never yielded", name(k.s), n.gN, n.gQ, r.st.exRest)
				}
				continue
			}
			if n.gN > 1 || n.gQ > 1 || n.hA > 1 {
				continue
			}
			work = append(work, n)
		}
	}
	var all []int64
	for s := range pk.states {
		all = append(all, s)
	}
	sort.Slice(all, func(i, j int) bool { return all[i] < all[j] })
	for _, s := range all {
		if !visited[s] {
			c.Note("C16.R3: state %s is never reached from the initial state", name(s))
			continue
		}
		var succ []string
		for _, r := range runs[s] {
			succ = append(succ, fmt.Sprintf("%s/ret=%d/gen=%d+%d/hash=%d", name(r.st.cur), r.ret, r.st.gN, r.st.gQ, r.st.hA))
		}
		c.Ok(rule, cons+"#from:"+name(s), fn.Pos(), "paths of Next entered in %s end in: %s", name(s), strings.Join(succ, ", "))
	}
	if len(failed) == 0 {
		c.Ok(rule, cons+"#model", fn.Pos(), "over all call sequences from %s: each generator and the hash Alloc run at most once, the hash move precedes all generation, and all %d ways to return false happen after both generators ran and the final scan found nothing (%d configurations explored)", name(s0), terminals, len(seen))
	}
	c.Floor(rule, len(visited), 4, "states in which Next can be entered (genQuiet is transient: it is overwritten before Next returns)")
}

// ---------------------------------------------------------------- R4 ranking loops

func c16R4(c *Ctx, p *Prog, pk *c16Picker) {
	const rule = "C16.R4"
	fn := pk.fn
	n := 0
	covered := map[ssa.CallInstruction]bool{}
	for _, l := range pk.ranks {
		if len(l.problems) > 0 {
			c.Undec(rule, l.key+"#shape", l.store.Pos(), "ranking loop not in the understood shape: %s", strings.Join(l.problems, "; "))
			continue
		}
		n++
		covered[l.gen] = true
		want := c16RankN
		if l.genName == c16GenQ {
			want = c16RankQ
		}
		c.Check(l.ranker == want, rule, l.key+"#stage-ranker", l.call.Pos(), "moves produced by %s are weighted by %s (expected %s: the other ranker puts them into the wrong band)", l.genName, l.ranker, want)
		// lower bound of the loop
		genI := l.gen.(ssa.Instruction)
		initOK, real, how := false, false, ""
		if c16LoadOfField(l.init, c16fIx) {
			if l.genName == c16GenN {
				initOK, how = true, "p.ix (everything before the cursor was yielded, nothing unyielded precedes the first generation)"
			} else {
				real, how = true, "p.ix: the unyielded bad captures between the cursor and the old frame end are re-ranked by the quiet ranker"
			}
		} else if a, ok := c16LenOf(l.init); ok && isCallValueTo(a, c16Frame) {
			lenI, fr := l.init.(ssa.Instruction), a.(*ssa.Call)
			clean := fr.Block() == genI.Block() && lenI.Block() == genI.Block() && instrIndex(fr) < instrIndex(lenI) && instrIndex(lenI) < instrIndex(genI)
			if clean {
				for _, in := range genI.Block().Instrs[instrIndex(fr):instrIndex(genI)] {
					if _, ok := in.(ssa.CallInstruction); ok && in != ssa.Instruction(fr) && in != lenI {
						clean = false
					}
				}
			}
			initOK, how = clean, "len(Frame()) taken immediately before the generator call"
		} else {
			how = "neither p.ix nor the frame length before generation"
		}
		if k, isC := c16K(l.init); isC {
			real, how = true, fmt.Sprintf("the constant %d", k)
		}
		c16Tri(c, initOK, real, rule, l.key+"#from-old-end", l.init.Pos(), "ranking after %s starts at %s", l.genName, how)
		// every element of the tail gets a weight
		isW := func(in ssa.Instruction) bool {
			if ci, isCall := in.(ssa.CallInstruction); isCall {
				for _, a := range ci.Common().Args { // a callee handed &moves[i] (or its Weight) may assign it
					for _, f := range []string{"", "Weight"} {
						if x, i, ok := c16Elem(a, f); ok && x == l.x && i == l.i {
							return true
						}
					}
				}
			}
			st, ok := in.(*ssa.Store)
			if !ok {
				return false
			}
			x, i, ok := c16Elem(st.Addr, "Weight")
			return ok && x == l.x && i == l.i
		}
		if l.guard == nil {
			c.Undec(rule, l.key+"#covers-tail", l.store.Pos(), "loop guard i < len(frame) not found")
		} else if ok, path := reachAvoiding(l.guard, l.inc, isW); ok {
			c.Fail(rule, l.key+"#covers-tail", l.store.Pos(), "an iteration can reach i++ without assigning moves[i].Weight (blocks %v): the element keeps weight 0 and is neither ranked nor recognised as the hash move's duplicate", path)
		} else {
			c.Ok(rule, l.key+"#covers-tail", l.store.Pos(), "i runs to len(frame after %s) and every iteration assigns moves[i].Weight", l.genName)
		}
		// duplicate suppression
		switch {
		case l.dupCmp == nil:
			// a definite violation only if the ranker's store is unconditional inside the loop
			uncond := l.guard != nil && newPostDom(fn).PostDominates(l.store.Block(), l.guard.Block().Succs[0])
			c16Tri(c, false, uncond, rule, l.key+"#hash-duplicate-test", l.store.Pos(), "the ranker's weight is stored without comparing p.hashMove with moves[i].Move (whole move): the hash move, already yielded first, would be yielded a second time (or another move suppressed in its place)")
		case !l.dupOK || !l.hasS || !l.simOK:
			c.Undec(rule, l.key+"#hash-duplicate-test", l.dupCmp.Pos(), "p.hashMove == moves[i].Move is tested, but not on every path: the ranker's weight can still be stored for the duplicate, or the constant (sentinel) weight is not stored exactly on equality (sentinel found: %v, exploration complete: %v); the rule cannot tell whether the extra conditions are equivalent to 'the hash move was yielded'", l.hasS, l.simOK)
		default:
			c.Ok(rule, l.key+"#hash-duplicate-test", l.dupCmp.Pos(), "on every path p.hashMove == moves[i].Move stores sentinel %d and nothing else does; otherwise %s(moves[i].Move) is stored", l.S, l.ranker)
		}
	}
	for _, g := range pk.gens {
		if !covered[g] {
			c.Undec(rule, "Next#rank:"+strings.TrimPrefix(objName(calleeObj(g)), "movegen.")+"#missing", g.Pos(), "no ranking loop recognised in Next for the moves produced by this %s call", objName(calleeObj(g)))
		}
	}
	nr := len(callsIn(fn, c16RankN)) + len(callsIn(fn, c16RankQ))
	c.Exact(rule+".rankers", nr, len(pk.ranks), "ranker calls in Next whose result is stored to a move weight")
	c.Floor(rule, n, 2, "ranking loops")
}

// c16CursorUnit checks the cursor discipline of one function that works on the
// picker recv: fn is Next itself or a yield helper. sels are selection scans
// written in fn, via are yield-helper calls in fn (their result is 'found' and a
// true result includes exactly one step), allocs the hash-move allocations.
// Every 'return true' must follow exactly one p.ix++ and the placement of the
// yielded element at the cursor; 'return false' must follow no step (and, in a
// helper, only the scan's not-found exit). Returns the number of yield exits.
func c16CursorUnit(c *Ctx, rule, name string, fn *ssa.Function, recv ssa.Value, sels, via []*c16SelLoop, allocs []ssa.CallInstruction, isHelper bool) int {
	viaOf := func(v ssa.Value) *c16SelLoop {
		for _, l := range via {
			if v == ssa.Value(l.ycall) {
				return l
			}
		}
		return nil
	}
	var ixStores []*ssa.Store
	allInstrs(fn, func(in ssa.Instruction) {
		if st, ok := in.(*ssa.Store); ok {
			if base, ok := c16FieldAddr(st.Addr, c16fIx); ok {
				ixStores = append(ixStores, st)
				add, isAdd := st.Val.(*ssa.BinOp)
				okInc := isAdd && add.Op == token.ADD && c16LoadOfField(add.X, c16fIx) && base == recv
				if okInc {
					k, isC := constOf(add.Y)
					okInc = isC && k == 1
				}
				if !okInc {
					c.Undec(rule, fmt.Sprintf("%s#cursor-store@%d", name, len(ixStores)), st.Pos(), "p.ix is assigned something other than p.ix + 1; the one-step rule only understands increments")
				}
			}
		}
	})
	// dataflow: number of cursor stores on paths from entry (0,1,2+ as bits)
	in := make([]uint8, len(fn.Blocks))
	in[0] = 1
	for changed := true; changed; {
		changed = false
		for _, b := range fn.Blocks {
			out := in[b.Index]
			for _, ins := range b.Instrs {
				if st, ok := ins.(*ssa.Store); ok {
					if _, ok := c16FieldAddr(st.Addr, c16fIx); ok {
						out = (out<<1)&7 | (out & 4)
					}
				}
			}
			for k, s := range b.Succs {
				o := out
				if iff, ok := b.Instrs[len(b.Instrs)-1].(*ssa.If); ok && k == 0 && viaOf(iff.Cond) != nil {
					o = (o<<1)&7 | (o & 4) // the helper found something: it stepped once
				}
				if in[s.Index]|o != in[s.Index] {
					in[s.Index] |= o
					changed = true
				}
			}
		}
	}
	countAt := func(ret *ssa.Return) uint8 {
		out := in[ret.Block().Index]
		for _, ins := range ret.Block().Instrs {
			if st, ok := ins.(*ssa.Store); ok {
				if _, ok := c16FieldAddr(st.Addr, c16fIx); ok {
					out = (out<<1)&7 | (out & 4)
				}
			}
		}
		return out
	}
	nYield := 0
	for _, ret := range c16Rets(fn) {
		b := ret.Block()
		if len(ret.Results) != 1 {
			continue
		}
		v, isC := c16K(ret.Results[0])
		cnt := countAt(ret)
		if l := viaOf(ret.Results[0]); !isC && l != nil {
			// 'return p.helper(..)': found => the helper stepped once and we report a yield, otherwise neither
			nYield++
			c.Check(cnt == 1, rule, strings.Replace(l.key, "select", "yield", 1)+"#one-step", ret.Pos(), "the helper's result is returned directly and p.ix was not advanced before the call on any path (count set %03b): a yield makes exactly the helper's one step, exhaustion none", cnt)
			continue
		}
		if !isC {
			c.Undec(rule, name+"#return-nonconstant", ret.Pos(), "%s returns a computed value; yields cannot be told from exhaustion", name)
			continue
		}
		if v == 0 {
			c.Check(cnt == 1, rule, fmt.Sprintf("%s#return-false@b%d#cursor-unchanged", name, b.Index), ret.Pos(), "'return false' is reached with p.ix advanced on no path (count set %03b): an advance without a yield skips the element at the cursor", cnt)
			if isHelper {
				onMiss := false
				for _, l := range sels {
					onMiss = onMiss || (len(l.missBlock().Preds) == 1 && l.missBlock().Dominates(b))
				}
				if !onMiss {
					c.Undec(rule, fmt.Sprintf("%s#return-false@b%d#only-when-exhausted", name, b.Index), ret.Pos(), "the yield helper can return false on a path that is not the not-found exit of its scan: Next would take that for exhaustion")
				}
			}
			continue
		}
		nYield++
		// which yield is this?
		kind, key := "", ""
		var sel *c16SelLoop
		for _, l := range sels {
			if l.foundBlock().Dominates(b) && len(l.foundBlock().Preds) == 1 {
				sel, kind, key = l, "swap", strings.Replace(l.key, "select", "yield", 1)
			}
		}
		var alloc ssa.CallInstruction
		for _, a := range allocs {
			if instrDominates(a, ret) {
				alloc = a
			}
		}
		if sel == nil && alloc != nil {
			kind, key = "alloc", "Next#yield-hash"
		}
		if kind == "" {
			for _, ce := range controllingConds(b) {
				if l := viaOf(ce.Cond); l != nil && ce.True {
					kind, key = "helper", strings.Replace(l.key, "select", "yield", 1)
				}
			}
		}
		if kind == "" {
			c.Undec(rule, fmt.Sprintf("%s#return-true@b%d", name, b.Index), ret.Pos(), "'return true' is behind neither a recognised selection scan nor the hash-move Alloc: cannot tell what was placed at the cursor")
			continue
		}
		c.Check(cnt == 2, rule, key+"#one-step", ret.Pos(), "'return true' is reached with exactly one p.ix++ on every path (count set %03b; 010 = exactly one): Move() reads p.ix-1, so no step re-yields the previous move and two steps skip one", cnt)
		if kind == "helper" {
			continue // the element was placed by the helper, whose own exits are checked as a unit
		}
		if kind == "alloc" {
			hw := false
			allInstrs(fn, func(in ssa.Instruction) {
				if st, ok := in.(*ssa.Store); ok {
					if base, ok := c16FieldAddr(st.Addr, "move.Weighted.Weight"); ok && base == alloc.Value() {
						if _, isC := c16K(st.Val); isC && instrDominates(st, ret) {
							hw = true
						}
					}
				}
			})
			gated := false
			for _, ce := range controllingConds(alloc.Block()) {
				if g, ok := ce.Cond.(*ssa.Call); ok && ce.True && objName(calleeObj(g)) == "board.(*Board).IsPseudoLegal" && c16LoadOfField(g.Call.Args[1], c16fHash) {
					gated = true
				}
			}
			c16Tri(c, hw && gated && c16LoadOfField(alloc.Common().Args[1], c16fHash), !gated, rule, key+"#element", ret.Pos(), "the hash yield happens only on the true edge of board.IsPseudoLegal(p.hashMove), allocates p.hashMove at the frame end (== p.ix on the empty frame) and gives it a constant weight")
			continue
		}
		// swap: X[ix] = old X[best]; X[best] = old X[ix]; all loads before both stores, all before p.ix++
		var toIx, toBest *ssa.Store
		for _, bb := range fn.Blocks {
			if !(sel.foundBlock().Dominates(bb) && bb.Dominates(b)) {
				continue
			}
			for _, ins := range bb.Instrs {
				st, ok := ins.(*ssa.Store)
				if !ok {
					continue
				}
				x, idx, ok := c16Elem(st.Addr, "")
				if !ok || !c16SameFrame(x, sel.x) {
					continue
				}
				vx, vidx, isElem := c16LoadElem(st.Val, "")
				if !isElem || !c16SameFrame(vx, sel.x) {
					continue
				}
				if c16LoadOfField(idx, c16fIx) && vidx == sel.best {
					toIx = st
				}
				if idx == sel.best && c16LoadOfField(vidx, c16fIx) {
					toBest = st
				}
			}
		}
		okSwap := toIx != nil && toBest != nil
		if okSwap {
			for _, st := range []*ssa.Store{toIx, toBest} {
				ld := st.Val.(ssa.Instruction)
				okSwap = okSwap && instrDominates(ld, toIx) && instrDominates(ld, toBest)
				for _, is := range ixStores {
					if is.Block().Dominates(b) || is.Block() == b {
						okSwap = okSwap && instrDominates(st, is)
					}
				}
			}
		}
		c16Tri(c, okSwap, toIx != nil || toBest != nil, rule, key+"#swap", ret.Pos(), "before the step, moves[p.ix] and moves[best] are exchanged (both read before either is written, with the pre-increment cursor): a plain overwrite would lose the displaced move and duplicate the selected one")
	}
	return nYield
}

// ---------------------------------------------------------------- R5 selection, swap, cursor

func c16R5(c *Ctx, p *Prog, pk *c16Picker) {
	const rule = "C16.R5"
	fn := pk.fn
	// (a) selection loops
	for _, l := range pk.sels {
		_, constInit := c16K(l.init)
		c16Tri(c, isCallValueTo(l.x, c16Frame) && c16LoadOfField(l.init, c16fIx) && l.guarded && l.none < 0, constInit || l.none >= 0, rule, l.key+"#argmax-over-unyielded", l.cmp.Pos(),
			"selection is an argmax of Weight over i in [p.ix, len(Frame())) with threshold %d (strict: %v) and 'none' marker %d: starting before p.ix would re-yield, starting after would skip", l.T, l.strict, l.none)
	}
	c.Floor(rule+".selections", len(pk.sels), 2, "selection loops")
	// (b) cursor discipline of Next and of every yield helper it calls
	var local, viaHelper []*c16SelLoop
	for _, l := range pk.sels {
		if l.ycall != nil {
			viaHelper = append(viaHelper, l)
		} else {
			local = append(local, l)
		}
	}
	nYield := c16CursorUnit(c, rule, "Next", fn, pk.recv, local, viaHelper, pk.allocs, false)
	var hs []*c16YH
	for _, h := range pk.yh {
		hs = append(hs, h)
	}
	sort.Slice(hs, func(i, j int) bool { return hs[i].fn.Name() < hs[j].fn.Name() })
	for _, h := range hs {
		c16CursorUnit(c, rule, h.fn.Name(), h.fn, h.fn.Params[0], []*c16SelLoop{h.sel}, nil, nil, true)
	}
	c.Floor(rule, nYield, 3, "'return true' sites of Next")
	// (c) Move / YieldedMoves
	if mv := p.Func("picker.(*Picker).Move"); mv == nil {
		c.Anchor(rule, "picker.(*Picker).Move")
	} else {
		ok, real := false, false
		for _, ret := range c16Rets(mv) {
			if x, idx, isElem := c16Elem(ret.Results[0], ""); isElem && isCallValueTo(x, c16Frame) {
				real = c16LoadOfField(idx, c16fIx) // the cursor itself: the next, not yet yielded element
				if sub, isSub := idx.(*ssa.BinOp); isSub && (sub.Op == token.SUB || sub.Op == token.ADD) && c16LoadOfField(sub.X, c16fIx) {
					k, isC := c16K(sub.Y)
					ok, real = isC && k == 1 && sub.Op == token.SUB, isC
				}
			}
		}
		c16Tri(c, ok, real, rule, "Move#reads-ix-1", mv.Pos(), "Move() returns &Frame()[p.ix-1], the element the last successful Next placed at the cursor")
	}
	if ym := p.Func("picker.(*Picker).YieldedMoves"); ym == nil {
		c.Anchor(rule, "picker.(*Picker).YieldedMoves")
	} else {
		ok, real := false, false
		for _, ret := range c16Rets(ym) {
			if sl, isSl := ret.Results[0].(*ssa.Slice); isSl && isCallValueTo(sl.X, c16Frame) && sl.High != nil {
				ok = sl.Low == nil && c16LoadOfField(sl.High, c16fIx)
				if b, isB := sl.High.(*ssa.BinOp); isB && c16LoadOfField(b.X, c16fIx) {
					_, real = c16K(b.Y)
				}
			}
		}
		c16Tri(c, ok, real, rule, "YieldedMoves#prefix", ym.Pos(), "YieldedMoves() returns Frame()[:p.ix], exactly the yielded prefix (consumed by FailHigh)")
	}
}

// ---------------------------------------------------------------- R6 the picker owns a fresh frame

func c16R6(c *Ctx, p *Prog) {
	const rule = "C16.R6"
	n := 0
	for _, fn := range p.OwnFuncs() {
		for _, nw := range callsIn(fn, "picker.New") {
			n++
			key := fnName(fn) + "#picker-frame"
			var uses []ssa.CallInstruction
			for _, m := range []string{c16Next, "picker.(*Picker).Move", "picker.(*Picker).YieldedMoves"} {
				uses = append(uses, callsIn(fn, m)...)
			}
			direct := len(callsIn(fn, c16Alloc)) + len(callsIn(fn, c16GenN)) + len(callsIn(fn, c16GenQ))
			if len(uses) == 0 || direct > 0 || len(nw.Common().Args) < 3 {
				c.Undec(rule, key, nw.Pos(), "%s creates a picker but %d uses of it and %d direct allocations into the move store are in this function; the rule expects Next/Move in the creating function and no direct allocation", fnName(fn), len(uses), direct)
				continue
			}
			bad := ""
			for _, u := range uses {
				ok := false
				for _, push := range callsIn(fn, "move.(*Store).Push") {
					if sameValue(push.Common().Args[0], nw.Common().Args[2], 0) && instrDominates(push, u) {
						ok = true
					}
				}
				if !ok {
					bad = p.Rel(u.Pos())
				}
			}
			c16Tri(c, bad == "", false, rule, key, nw.Pos(), "every Next/Move/YieldedMoves of the picker created in %s runs after a Push on the picker's own move store (first offender: %q): p.ix counts from the frame start, on the caller's frame the picker would re-yield the caller's moves", fnName(fn), bad)
		}
	}
	c.Floor(rule, n, 1, "picker.New call sites")
	if sp := pairSpecs(rule); len(sp) > 2 {
		c.Floor(sp[2].Rule, checkPair(c, p, sp[2]), 4, "move.Store.Push sites paired with Pop on every path")
	}
}

func init() {
	const pf, hf = "picker/picker.go", "heur/heur.go"
	dupN := "if p.hashMove == moves[i].Move {\n\t\t\t\t// hash move was already yielded\n\t\t\t\tmoves[i].Weight = -heur.HashMove\n\t\t\t} else {\n\t\t\t\tmoves[i].Weight = p.ranker.RankNoisy(moves[i].Move, p.board, p.hstack)\n\t\t\t}"
	dupQ := strings.Replace(dupN, "RankNoisy", "RankQuiet", 1)
	swapGood := "moves[p.ix], moves[best] = moves[best], moves[p.ix]\n\t\t\tp.ix++\n\t\t\treturn true\n\t\t}\n\n\t\tp.state = genQuiet"
	addMutants(
		// R1
		Mutant{Name: "C16.R1-captures-below-3-maxhistory-assert-relaxed", Prop: "C16", File: hf, Quick: true,
			Old: "Captures     = 7 * k", New: "Captures     = 2 * k",
			File2: hf, Old2: "if Captures < 3*MaxHistory {", New2: "if Captures < MaxHistory {",
			Expect: "C16.R1/"},
		Mutant{Name: "C16.R1-quiet-sentinel-inside-bad-band", Prop: "C16", File: pf,
			Old: dupQ, New: strings.Replace(dupQ, "-heur.HashMove", "-heur.Captures - heur.CaptureRange", 1),
			Expect: "C16.R1/sentinel<rest-yield-min@Next#rank:GenNotNoisy"},
		Mutant{Name: "C16.R1-rest-threshold-below-sentinel", Prop: "C16", File: pf,
			Old: "maxim := -heur.HashMove + 1", New: "maxim := -heur.HashMove - 1",
			Expect: "C16.R1/sentinel<rest-yield-min"},
		Mutant{Name: "C16.R1-continuation-weight-x5", Prop: "C16", File: hf,
			Old: "score += mr.continuations[0].LookUp(", New: "score += 5 * mr.continuations[0].LookUp(",
			Expect: "C16.R1/"},
		Mutant{Name: "C16.R1-promo-coefficient-reaches-hash-weight", Prop: "C16", File: hf,
			Old: "score := Score(promo)*6*7 +", New: "score := Score(promo)*6*7*32 +",
			Expect: "C16.R1/"},
		Mutant{Name: "C16.R1-capthist-added-to-noisy-score-unscaled", Prop: "C16", File: hf,
			Old: "\t\treturn Captures + score\n", New: "\t\treturn Captures + score + 9*captHist\n",
			Expect: "C16.R1/"},
		// R2
		Mutant{Name: "C16.R2-continuation-divisor-halved", Prop: "C16", File: "heur/cont.go", Quick: true,
			Old: "/int(MaxHistory))", New: "/int(MaxHistory/2))",
			Expect: "C16.R2/heur.(*Continuation).Add#clamp<=divisor"},
		Mutant{Name: "C16.R2-continuation-divisor-doubled", Prop: "C16", File: "heur/cont.go",
			Old: "/int(MaxHistory))", New: "/int(2*MaxHistory))",
			Expect: "C16.R2/heur.(*Continuation).Add#bound<=MaxHistory"},
		Mutant{Name: "C16.R2-history-product-truncated-before-division", Prop: "C16", File: "heur/hist.go",
			Old: "Score(int(h.data[stm][from][to])*int(Abs(clampedBonus))/int(MaxHistory))", New: "Score(int(h.data[stm][from][to])*int(Abs(clampedBonus)))/MaxHistory",
			Expect: "C16.R2/heur.(*History).Add#product-width"},
		Mutant{Name: "C16.R2-history-product-in-int16", Prop: "C16", File: "heur/hist.go",
			Old: "Score(int(h.data[stm][from][to])*int(Abs(clampedBonus))/int(MaxHistory))", New: "h.data[stm][from][to]*Abs(clampedBonus)/MaxHistory",
			Expect: "C16.R2/heur.(*History).Add#product-width"},
		Mutant{Name: "C16.R2-capthist-clamp-widened", Prop: "C16", File: "heur/capthist.go",
			Old: "Clamp(bonus, -MaxHistory, MaxHistory)", New: "Clamp(bonus, -2*MaxHistory, 2*MaxHistory)",
			Expect: "C16.R2/heur.(*CaptHist).Add#clamp<=divisor"},
		Mutant{Name: "C16.R2-continuation-decay-from-unclamped-bonus", Prop: "C16", File: "heur/cont.go",
			Old: "int(Abs(clampedBonus))", New: "int(Abs(bonus))",
			Expect: "C16.R2/heur.(*Continuation).Add#clamp<=divisor"},
		Mutant{Name: "C16.R2-history-clamp-dropped", Prop: "C16", File: "heur/hist.go",
			Old: "clampedBonus := Clamp(bonus, -MaxHistory, MaxHistory)", New: "clampedBonus := bonus",
			Expect: "C16.R2/heur.(*History).Add"},
		Mutant{Name: "C16.R2-history-second-writer", Prop: "C16", File: "heur/hist.go",
			Old: "// LookUp returns the history heuristics entry for the move.", New: "// Age halves... no: doubles every entry.\nfunc (h *History) Age() {\n\tfor c := range Colors {\n\t\tfor f := range Squares {\n\t\t\tfor t := range Squares {\n\t\t\t\th.data[c][f][t] *= 2\n\t\t\t}\n\t\t}\n\t}\n}\n\n// LookUp returns the history heuristics entry for the move.",
			Expect: "C16.R2/heur.(*History).Age#shape"},
		// R3
		Mutant{Name: "C16.R3-genquiet-state-not-advanced", Prop: "C16", File: pf, Quick: true,
			Old: "\t\tp.state = yieldRest\n", New: "",
			Expect: "C16.R3/Next#stage-machine#GenNotNoisy-once"},
		Mutant{Name: "C16.R3-pickhash-state-not-advanced", Prop: "C16", File: pf,
			Old: "\t\tp.state = genNoisy\n", New: "",
			Expect: "C16.R3/Next#stage-machine#hash-once"},
		Mutant{Name: "C16.R3-gennoisy-state-not-advanced", Prop: "C16", File: pf,
			Old: "\t\tp.state = yieldGoodNoisy\n", New: "",
			Expect: "C16.R3/Next#stage-machine#GenNoisy-once"},
		Mutant{Name: "C16.R3-early-out-before-quiets-generated", Prop: "C16", File: pf,
			Old: "\t\tp.state = genQuiet\n\t\tfallthrough\n", New: "\t\tif p.ix == len(moves) {\n\t\t\treturn false // nothing left\n\t\t}\n\t\tp.state = genQuiet\n\t\tfallthrough\n",
			Expect: "C16.R3/Next#stage-machine#exhaustion"},
		// R4
		Mutant{Name: "C16.R4-quiet-duplicate-test-deleted", Prop: "C16", File: pf, Quick: true,
			Old: dupQ, New: "moves[i].Weight = p.ranker.RankQuiet(moves[i].Move, p.board, p.hstack)",
			Expect: "C16.R4/Next#rank:GenNotNoisy#hash-duplicate-test"},
		Mutant{Name: "C16.R4-noisy-duplicate-test-on-target-square-only", Prop: "C16", File: pf,
			Old: dupN, New: strings.Replace(dupN, "p.hashMove == moves[i].Move", "p.hashMove.To() == moves[i].Move.To()", 1),
			Expect: "C16.R4/Next#rank:GenNoisy#hash-duplicate-test"},
		Mutant{Name: "C16.R4-duplicate-test-skipped-for-hash-moves-classified-quiet", Prop: "C16", File: pf,
			Old: dupN, New: strings.Replace(dupN, "p.hashMove == moves[i].Move", "p.board.SquaresToPiece[p.hashMove.To()] != NoPiece && p.hashMove == moves[i].Move", 1),
			Expect: "C16.R4/Next#rank:GenNoisy#hash-duplicate-test"},
		Mutant{Name: "C16.R4-noisy-stage-uses-quiet-ranker", Prop: "C16", File: pf,
			Old: "p.ranker.RankNoisy(", New: "p.ranker.RankQuiet(",
			Expect: "C16.R4/Next#rank:GenNoisy#stage-ranker"},
		Mutant{Name: "C16.R4-noisy-frame-taken-before-generation", Prop: "C16", File: pf,
			Old: "movegen.GenNoisy(p.ms, p.board)\n\t\tmoves := p.ms.Frame()\n", New: "moves := p.ms.Frame()\n\t\tmovegen.GenNoisy(p.ms, p.board)\n",
			Expect: "C16.R4/"},
		Mutant{Name: "C16.R4-quiet-ranking-from-cursor", Prop: "C16", File: pf,
			Old: "\t\tquietStart := len(p.ms.Frame())\n", New: "",
			File2: pf, Old2: "for i := quietStart; i < len(moves); i++ {", New2: "for i := p.ix; i < len(moves); i++ {",
			Expect: "C16.R4/Next#rank:GenNotNoisy#from-old-end"},
		Mutant{Name: "C16.R4-quiet-ranking-skips-checks", Prop: "C16", File: pf,
			Old: "for i := quietStart; i < len(moves); i++ {\n", New: "for i := quietStart; i < len(moves); i++ {\n\t\t\tif moves[i].Promo() != NoPiece {\n\t\t\t\tcontinue\n\t\t\t}\n",
			Expect: "C16.R4/Next#rank:GenNotNoisy#covers-tail"},
		// R5
		Mutant{Name: "C16.R5-hash-yield-without-step", Prop: "C16", File: pf,
			Old: "m.Weight = heur.HashMove\n\t\t\tp.ix++\n", New: "m.Weight = heur.HashMove\n",
			Expect: "C16.R5/Next#yield-hash#one-step"},
		Mutant{Name: "C16.R5-good-noisy-overwrite-instead-of-swap", Prop: "C16", File: pf,
			Old: swapGood, New: strings.Replace(swapGood, "moves[p.ix], moves[best] = moves[best], moves[p.ix]", "moves[p.ix] = moves[best]", 1),
			Expect: "C16.R5/Next#yield-good-noisy#swap"},
		Mutant{Name: "C16.R5-step-before-swap", Prop: "C16", File: pf,
			Old: swapGood, New: strings.Replace(swapGood, "moves[p.ix], moves[best] = moves[best], moves[p.ix]\n\t\t\tp.ix++", "p.ix++\n\t\t\tmoves[p.ix], moves[best] = moves[best], moves[p.ix]", 1),
			Expect: "C16.R5/Next#yield-good-noisy#swap"},
		Mutant{Name: "C16.R5-rest-scan-from-zero", Prop: "C16", File: pf,
			Old: "maxim := -heur.HashMove + 1\n\t\tbest := -1\n\t\tfor i := p.ix;", New: "maxim := -heur.HashMove + 1\n\t\tbest := -1\n\t\tfor i := 0;",
			Expect: "C16.R5/Next#select-rest#argmax-over-unyielded"},
		Mutant{Name: "C16.R5-step-on-exhaustion", Prop: "C16", File: pf,
			Old: "\t\tp.state = genQuiet\n\t\tfallthrough\n", New: "\t\tp.ix++\n\t\tp.state = genQuiet\n\t\tfallthrough\n",
			Expect: "C16.R5/"},
		Mutant{Name: "C16.R5-hash-gate-negated", Prop: "C16", File: pf,
			Old: "if p.board.IsPseudoLegal(p.hashMove) {", New: "if !p.board.IsPseudoLegal(p.hashMove) {",
			Expect: "C16.R5/Next#yield-hash#element"},
		Mutant{Name: "C16.R6-picker-on-callers-frame", Prop: "C16", File: "search/search.go",
			Old: "\ts.ms.Push()\n\tdefer s.ms.Pop()\n\n\t// iir", New: "\t// iir",
			Expect: "C16.R6/search.(*Search).alphaBeta#picker-frame"},
		Mutant{Name: "C16.R5-move-reads-cursor", Prop: "C16", File: pf,
			Old: "return &p.ms.Frame()[p.ix-1]", New: "return &p.ms.Frame()[p.ix]",
			Expect: "C16.R5/Move#reads-ix-1"},
	)
}
