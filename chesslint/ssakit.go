package main

// SSA toolkit: callee resolution, field access classification, dominators /
// post-dominators, path reachability, backward slices.

import (
	"go/constant"
	"go/token"
	"go/types"

	"golang.org/x/tools/go/ssa"
)

// calleeObj returns the function object called by a call instruction (static
// call, method call through interface, or bound closure of a named function),
// with generic instantiations mapped to their origin. nil when unknown.
func calleeObj(ci ssa.CallInstruction) *types.Func {
	cc := ci.Common()
	if cc.IsInvoke() {
		return cc.Method
	}
	if fn := cc.StaticCallee(); fn != nil {
		return fnObj(fn)
	}
	return nil
}

func fnObj(fn *ssa.Function) *types.Func {
	if fn == nil {
		return nil
	}
	if o := fn.Origin(); o != nil {
		fn = o
	}
	if obj, ok := fn.Object().(*types.Func); ok {
		return obj.Origin()
	}
	return nil
}

// objName renders "pkg.(*T).Name" / "pkg.(T).Name" / "pkg.Name" for a function object.
func objName(f *types.Func) string {
	if f == nil {
		return "<nil>"
	}
	pkg := ""
	if f.Pkg() != nil {
		pkg = relPkg(f.Pkg().Path())
	}
	sig, _ := f.Type().(*types.Signature)
	if sig != nil && sig.Recv() != nil {
		t := sig.Recv().Type()
		ptr := false
		if p, ok := t.(*types.Pointer); ok {
			t = p.Elem()
			ptr = true
		}
		name := "?"
		if n, ok := types.Unalias(t).(*types.Named); ok {
			name = n.Obj().Name()
		}
		if ptr {
			return pkg + ".(*" + name + ")." + f.Name()
		}
		return pkg + ".(" + name + ")." + f.Name()
	}
	return pkg + "." + f.Name()
}

// isCallTo reports whether instr is a call (call/defer/go) to the function named spec.
func isCallTo(instr ssa.Instruction, spec string) bool {
	ci, ok := instr.(ssa.CallInstruction)
	if !ok {
		return false
	}
	return objName(calleeObj(ci)) == spec
}

// callsIn lists the call instructions in fn (not nested closures) whose callee is spec.
func callsIn(fn *ssa.Function, spec string) []ssa.CallInstruction {
	var out []ssa.CallInstruction
	for _, b := range fn.Blocks {
		for _, in := range b.Instrs {
			if isCallTo(in, spec) {
				out = append(out, in.(ssa.CallInstruction))
			}
		}
	}
	return out
}

// allInstrs iterates over all instructions of fn.
func allInstrs(fn *ssa.Function, f func(ssa.Instruction)) {
	for _, b := range fn.Blocks {
		for _, in := range b.Instrs {
			f(in)
		}
	}
}

// withClosures returns fn and all anonymous functions nested in it.
func withClosures(fn *ssa.Function) []*ssa.Function {
	out := []*ssa.Function{fn}
	for _, a := range fn.AnonFuncs {
		out = append(out, withClosures(a)...)
	}
	return out
}

// constOf returns the constant int64 value of v (through conversions).
func constOf(v ssa.Value) (int64, bool) {
	for {
		switch x := v.(type) {
		case *ssa.Const:
			if x.Value == nil {
				return 0, true // zero value
			}
			if x.Value.Kind() == constant.Int {
				if i, ok := constant.Int64Val(x.Value); ok {
					return i, true
				}
				if u, ok := constant.Uint64Val(x.Value); ok {
					return int64(u), true
				}
			}
			if x.Value.Kind() == constant.Bool {
				if constant.BoolVal(x.Value) {
					return 1, true
				}
				return 0, true
			}
			return 0, false
		case *ssa.Convert:
			v = x.X
		case *ssa.ChangeType:
			v = x.X
		default:
			return 0, false
		}
	}
}

// stripConv removes Convert/ChangeType wrappers.
func stripConv(v ssa.Value) ssa.Value {
	for {
		switch x := v.(type) {
		case *ssa.Convert:
			v = x.X
		case *ssa.ChangeType:
			v = x.X
		default:
			return v
		}
	}
}

// fieldRef describes an address or value that denotes a struct field.
type fieldRef struct {
	Struct *types.Named // named struct type, may be nil for anonymous structs
	Field  *types.Var
	Base   ssa.Value
}

func structOf(t types.Type) (*types.Named, *types.Struct) {
	if p, ok := t.Underlying().(*types.Pointer); ok {
		t = p.Elem()
	}
	n, _ := types.Unalias(t).(*types.Named)
	s, _ := t.Underlying().(*types.Struct)
	return n, s
}

// asFieldAddr resolves v (a FieldAddr, or an IndexAddr/Slice chain rooted at a
// FieldAddr) to the struct field whose storage it addresses.
func asFieldAddr(v ssa.Value) (fieldRef, bool) {
	for {
		switch x := v.(type) {
		case *ssa.FieldAddr:
			n, s := structOf(x.X.Type())
			if s == nil {
				return fieldRef{}, false
			}
			return fieldRef{Struct: n, Field: s.Field(x.Field), Base: x.X}, true
		case *ssa.IndexAddr:
			// only arrays are storage of the field itself; a slice element is
			// storage reachable from the field (treated as the field's too).
			v = x.X
		case *ssa.Slice:
			v = x.X
		case *ssa.UnOp:
			if x.Op == token.MUL {
				// load of a slice header from a field, then indexing into it
				if _, ok := x.X.Type().Underlying().(*types.Pointer).Elem().Underlying().(*types.Slice); ok {
					v = x.X
					continue
				}
			}
			return fieldRef{}, false
		case *ssa.ChangeType:
			v = x.X
		default:
			return fieldRef{}, false
		}
	}
}

// fieldName is "Type.field".
func (f fieldRef) Name() string {
	if f.Struct != nil {
		return f.Struct.Obj().Name() + "." + f.Field.Name()
	}
	return "?." + f.Field.Name()
}

func (f fieldRef) QName() string {
	if f.Struct != nil && f.Struct.Obj().Pkg() != nil {
		return relPkg(f.Struct.Obj().Pkg().Path()) + "." + f.Name()
	}
	return f.Name()
}

// ---- dominance ----

// postDom computes post-dominator sets for fn (exit = virtual node joining all
// Return blocks; panicking blocks are ignored). pd[b] is the set of block
// indices that post-dominate b (including b).
type postDom struct {
	fn  *ssa.Function
	set [][]bool
}

func newPostDom(fn *ssa.Function) *postDom {
	n := len(fn.Blocks)
	pd := &postDom{fn: fn, set: make([][]bool, n)}
	isExit := make([]bool, n)
	isPanic := make([]bool, n)
	for i, b := range fn.Blocks {
		if len(b.Instrs) > 0 {
			switch b.Instrs[len(b.Instrs)-1].(type) {
			case *ssa.Return:
				isExit[i] = true
			case *ssa.Panic:
				isPanic[i] = true
			}
		}
	}
	for i := range fn.Blocks {
		pd.set[i] = make([]bool, n)
		if isExit[i] {
			pd.set[i][i] = true
		} else {
			for j := range pd.set[i] {
				pd.set[i][j] = true
			}
		}
	}
	changed := true
	for changed {
		changed = false
		for i := n - 1; i >= 0; i-- {
			b := fn.Blocks[i]
			if isExit[i] {
				continue
			}
			nw := make([]bool, n)
			first := true
			for _, s := range b.Succs {
				if isPanic[s.Index] {
					continue
				}
				if first {
					copy(nw, pd.set[s.Index])
					first = false
				} else {
					for j := range nw {
						nw[j] = nw[j] && pd.set[s.Index][j]
					}
				}
			}
			if first {
				// no non-panicking successor (panic block or infinite loop)
				for j := range nw {
					nw[j] = true
				}
			}
			nw[i] = true
			for j := range nw {
				if nw[j] != pd.set[i][j] {
					changed = true
				}
			}
			pd.set[i] = nw
		}
	}
	return pd
}

// PostDominates reports whether a post-dominates b.
func (pd *postDom) PostDominates(a, b *ssa.BasicBlock) bool { return pd.set[b.Index][a.Index] }

// instrIndex returns the index of in within its block.
func instrIndex(in ssa.Instruction) int {
	for i, x := range in.Block().Instrs {
		if x == in {
			return i
		}
	}
	return -1
}

// instrDominates: a executes before b on every path reaching b.
func instrDominates(a, b ssa.Instruction) bool {
	if a.Block() == b.Block() {
		return instrIndex(a) < instrIndex(b)
	}
	return a.Block().Dominates(b.Block())
}

// reachAvoiding reports whether there is a CFG path from just after `from` to
// `to` (or to any function exit when to == nil) that does not execute any
// instruction for which stop returns true. Returns the witness block path.
func reachAvoiding(from ssa.Instruction, to ssa.Instruction, stop func(ssa.Instruction) bool) (bool, []int) {
	type item struct {
		b    *ssa.BasicBlock
		from int
	}
	seen := map[int]bool{}
	var path []int
	var dfs func(b *ssa.BasicBlock, start int) bool
	dfs = func(b *ssa.BasicBlock, start int) bool {
		path = append(path, b.Index)
		for i := start; i < len(b.Instrs); i++ {
			in := b.Instrs[i]
			if to != nil && in == to {
				return true
			}
			if stop != nil && stop(in) {
				path = path[:len(path)-1]
				return false
			}
			if to == nil {
				if _, ok := in.(*ssa.Return); ok {
					return true
				}
			}
		}
		for _, s := range b.Succs {
			if seen[s.Index] {
				continue
			}
			seen[s.Index] = true
			if dfs(s, 0) {
				return true
			}
		}
		path = path[:len(path)-1]
		return false
	}
	ok := dfs(from.Block(), instrIndex(from)+1)
	return ok, path
}

// ---- slices ----

// sliceOpts controls backward slicing.
type sliceOpts struct {
	// ThroughCalls: follow arguments of calls (treat calls as pure functions of their args).
	ThroughCalls bool
	// ThroughLoads: follow the address operand of loads.
	ThroughLoads bool
	// Stop: do not expand this value.
	Stop func(ssa.Value) bool
}

// backSlice returns the set of values v transitively depends on.
func backSlice(v ssa.Value, o sliceOpts) map[ssa.Value]bool {
	seen := map[ssa.Value]bool{}
	var walk func(ssa.Value)
	walk = func(v ssa.Value) {
		if v == nil || seen[v] {
			return
		}
		seen[v] = true
		if o.Stop != nil && o.Stop(v) {
			return
		}
		switch x := v.(type) {
		case *ssa.Phi:
			for _, e := range x.Edges {
				walk(e)
			}
		case *ssa.BinOp:
			walk(x.X)
			walk(x.Y)
		case *ssa.UnOp:
			if x.Op == token.MUL && !o.ThroughLoads {
				return
			}
			walk(x.X)
		case *ssa.Convert:
			walk(x.X)
		case *ssa.ChangeType:
			walk(x.X)
		case *ssa.Call:
			if o.ThroughCalls {
				for _, a := range x.Call.Args {
					walk(a)
				}
				if x.Call.IsInvoke() {
					walk(x.Call.Value)
				}
			}
		case *ssa.FieldAddr:
			walk(x.X)
		case *ssa.Field:
			walk(x.X)
		case *ssa.IndexAddr:
			walk(x.X)
			walk(x.Index)
		case *ssa.Index:
			walk(x.X)
			walk(x.Index)
		case *ssa.Extract:
			walk(x.Tuple)
		case *ssa.Slice:
			walk(x.X)
		case *ssa.MakeInterface:
			walk(x.X)
		case *ssa.TypeAssert:
			walk(x.X)
		case *ssa.Lookup:
			walk(x.X)
			walk(x.Index)
		case *ssa.Alloc:
			// a local variable: follow every value stored into it (or into a part of it)
			if o.ThroughLoads {
				var stores func(addr ssa.Value, depth int)
				stores = func(addr ssa.Value, depth int) {
					if addr.Referrers() == nil || depth > 3 {
						return
					}
					for _, r := range *addr.Referrers() {
						switch y := r.(type) {
						case *ssa.Store:
							if y.Addr == addr {
								walk(y.Val)
							}
						case *ssa.FieldAddr:
							stores(y, depth+1)
						case *ssa.IndexAddr:
							if y.X == addr {
								stores(y, depth+1)
							}
						}
					}
				}
				stores(x, 0)
			}
		}
	}
	walk(v)
	return seen
}

// loadsOfField reports whether v is a load (*FieldAddr) of the field named
// "Type.field"; returns the base.
func isFieldLoad(v ssa.Value, name string) bool {
	u, ok := v.(*ssa.UnOp)
	if !ok || u.Op != token.MUL {
		return false
	}
	fa, ok := u.X.(*ssa.FieldAddr)
	if !ok {
		return false
	}
	fr, ok := asFieldAddr(fa)
	return ok && fr.Name() == name
}

// sliceHas reports whether any value in the slice satisfies pred.
func sliceHas(s map[ssa.Value]bool, pred func(ssa.Value) bool) bool {
	for v := range s {
		if pred(v) {
			return true
		}
	}
	return false
}

// isCallValueTo reports whether v is a *ssa.Call to spec.
func isCallValueTo(v ssa.Value, spec string) bool {
	c, ok := v.(*ssa.Call)
	return ok && objName(calleeObj(c)) == spec
}

// controllingConds returns, for block b, the list of (cond value, branch taken)
// pairs of If instructions whose taken successor dominates b.
type condEdge struct {
	Cond ssa.Value
	True bool
	If   *ssa.If
}

func controllingConds(b *ssa.BasicBlock) []condEdge {
	var out []condEdge
	fn := b.Parent()
	for _, d := range fn.Blocks {
		if len(d.Instrs) == 0 {
			continue
		}
		iff, ok := d.Instrs[len(d.Instrs)-1].(*ssa.If)
		if !ok {
			continue
		}
		t, f := d.Succs[0], d.Succs[1]
		// the edge d->t "dominates" b when t dominates b and t's only predecessor is d
		if t != f {
			if len(t.Preds) == 1 && t.Dominates(b) {
				out = append(out, condEdge{iff.Cond, true, iff})
			}
			if len(f.Preds) == 1 && f.Dominates(b) {
				out = append(out, condEdge{iff.Cond, false, iff})
			}
		}
	}
	return out
}

// fnOfInstr names the function containing in.
func fnOfInstr(in ssa.Instruction) string { return fnName(in.Parent()) }

// returnedValue undoes go/ssa's defer spill: in functions with defers a
// `return v` becomes `*res = v; rundefers; t = *res; return t`. Given the i-th
// result of ret it returns v.
func returnedValue(ret *ssa.Return, i int) ssa.Value {
	r := ret.Results[i]
	ld, ok := r.(*ssa.UnOp)
	if !ok || ld.Op != token.MUL {
		return r
	}
	al, ok := ld.X.(*ssa.Alloc)
	if !ok {
		return r
	}
	var last ssa.Value
	for _, in := range ret.Block().Instrs {
		if in == ssa.Instruction(ld) {
			break
		}
		if st, ok := in.(*ssa.Store); ok && st.Addr == ssa.Value(al) {
			last = st.Val
		}
	}
	if last != nil {
		return last
	}
	return r
}
