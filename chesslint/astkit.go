package main

// AST toolkit: resolved callees, constants, literal tables, normalised
// expression strings for sibling comparison.

import (
	"fmt"
	"go/ast"
	"go/constant"
	"go/token"
	"go/types"
	"sort"
	"strings"

	"golang.org/x/tools/go/packages"
	"golang.org/x/tools/go/ssa"
	"golang.org/x/tools/go/types/typeutil"
)

// astCallee resolves the function called by call (nil for builtins, conversions, dynamic calls).
func astCallee(info *types.Info, call *ast.CallExpr) *types.Func {
	if f, ok := typeutil.Callee(info, call).(*types.Func); ok {
		return f.Origin()
	}
	return nil
}

// isConversion reports whether call is a type conversion T(x).
func isConversion(info *types.Info, call *ast.CallExpr) bool {
	if tv, ok := info.Types[call.Fun]; ok && tv.IsType() {
		return true
	}
	return false
}

// constInt returns the integer constant value of e, if it is one.
func constInt(info *types.Info, e ast.Expr) (int64, bool) {
	tv, ok := info.Types[e]
	if !ok || tv.Value == nil {
		return 0, false
	}
	v := constant.ToInt(tv.Value)
	if v.Kind() != constant.Int {
		return 0, false
	}
	if i, ok := constant.Int64Val(v); ok {
		return i, true
	}
	if u, ok := constant.Uint64Val(v); ok {
		return int64(u), true
	}
	return 0, false
}

// constUint returns the unsigned constant value of e.
func constUint(info *types.Info, e ast.Expr) (uint64, bool) {
	tv, ok := info.Types[e]
	if !ok || tv.Value == nil {
		return 0, false
	}
	v := constant.ToInt(tv.Value)
	if v.Kind() != constant.Int {
		return 0, false
	}
	if u, ok := constant.Uint64Val(v); ok {
		return u, true
	}
	if i, ok := constant.Int64Val(v); ok {
		return uint64(i), true
	}
	return 0, false
}

// pkgConst returns the value of a package-level constant "pkg.Name".
func (p *Prog) pkgConst(name string) (constant.Value, bool) {
	i := strings.LastIndex(name, ".")
	pk := p.Pkg(name[:i])
	if pk == nil || pk.Types == nil {
		return nil, false
	}
	c, ok := pk.Types.Scope().Lookup(name[i+1:]).(*types.Const)
	if !ok {
		return nil, false
	}
	return c.Val(), true
}

func (p *Prog) pkgConstInt(name string) (int64, bool) {
	v, ok := p.pkgConst(name)
	if !ok {
		return 0, false
	}
	v = constant.ToInt(v)
	if i, ok := constant.Int64Val(v); ok {
		return i, true
	}
	if u, ok := constant.Uint64Val(v); ok {
		return int64(u), true
	}
	return 0, false
}

// pkgVarInit returns the initialiser expression of the package-level variable
// "pkg.name" together with its package (nil if none).
func (p *Prog) pkgVarInit(name string) (ast.Expr, *packages.Package) {
	i := strings.LastIndex(name, ".")
	pk := p.Pkg(name[:i])
	if pk == nil {
		return nil, nil
	}
	want := name[i+1:]
	for _, f := range pk.Syntax {
		for _, d := range f.Decls {
			gd, ok := d.(*ast.GenDecl)
			if !ok || gd.Tok != token.VAR {
				continue
			}
			for _, s := range gd.Specs {
				vs := s.(*ast.ValueSpec)
				for j, n := range vs.Names {
					if n.Name == want && j < len(vs.Values) {
						return vs.Values[j], pk
					}
				}
			}
		}
	}
	return nil, pk
}

// literalInts evaluates a (possibly nested) array/slice composite literal of
// integer constants into a flat list plus its shape (outermost first).
// Keyed elements and non-constant elements make it fail.
func literalInts(info *types.Info, e ast.Expr) (vals []uint64, shape []int, err error) {
	cl, ok := ast.Unparen(e).(*ast.CompositeLit)
	if !ok {
		if u, ok := constUint(info, e); ok {
			return []uint64{u}, nil, nil
		}
		return nil, nil, fmt.Errorf("not a constant or composite literal: %T", e)
	}
	var sub []int
	for i, el := range cl.Elts {
		if _, ok := el.(*ast.KeyValueExpr); ok {
			return nil, nil, fmt.Errorf("keyed element in literal")
		}
		v, sh, err := literalInts(info, el)
		if err != nil {
			return nil, nil, err
		}
		if i == 0 {
			sub = sh
		} else if fmt.Sprint(sub) != fmt.Sprint(sh) {
			return nil, nil, fmt.Errorf("ragged literal")
		}
		vals = append(vals, v...)
	}
	return vals, append([]int{len(cl.Elts)}, sub...), nil
}

// normOpts controls expression normalisation.
type normOpts struct {
	// Rename maps object -> role name (locals renamed by role).
	Rename map[types.Object]string
	// KeepConv keeps conversions (default: stripped).
	KeepConv bool
	// Subst rewrites identifiers by name after resolution (e.g. White<->Black mirroring).
	Subst func(name string) string
	// Leaf, when set, may return a replacement string for a sub-expression.
	Leaf func(e ast.Expr) (string, bool)
}

var commutative = map[token.Token]bool{token.ADD: true, token.MUL: true, token.AND: true, token.OR: true, token.XOR: true, token.EQL: true, token.NEQ: true, token.LAND: true, token.LOR: true}

// normExpr renders e in a normal form: parentheses and numeric conversions
// stripped, constants folded to their values, operands of commutative
// (associative) operators flattened and sorted.
func normExpr(info *types.Info, e ast.Expr, o normOpts) string {
	e = ast.Unparen(e)
	if o.Leaf != nil {
		if s, ok := o.Leaf(e); ok {
			return s
		}
	}
	if tv, ok := info.Types[e]; ok && tv.Value != nil {
		// named constants keep their name when Subst is in play (mirroring), else fold
		if id, ok := e.(*ast.Ident); ok && o.Subst != nil {
			return o.Subst(id.Name)
		}
		if sel, ok := e.(*ast.SelectorExpr); ok && o.Subst != nil {
			return o.Subst(sel.Sel.Name)
		}
		return tv.Value.ExactString()
	}
	switch x := e.(type) {
	case *ast.Ident:
		if obj := info.ObjectOf(x); obj != nil {
			if r, ok := o.Rename[obj]; ok {
				return r
			}
		}
		if o.Subst != nil {
			return o.Subst(x.Name)
		}
		return x.Name
	case *ast.BasicLit:
		return x.Value
	case *ast.SelectorExpr:
		if o.Subst != nil {
			return normExpr(info, x.X, o) + "." + o.Subst(x.Sel.Name)
		}
		// package-qualified identifier
		if id, ok := x.X.(*ast.Ident); ok {
			if _, isPkg := info.ObjectOf(id).(*types.PkgName); isPkg {
				return id.Name + "." + x.Sel.Name
			}
		}
		return normExpr(info, x.X, o) + "." + x.Sel.Name
	case *ast.CallExpr:
		if isConversion(info, x) && !o.KeepConv && len(x.Args) == 1 {
			return normExpr(info, x.Args[0], o)
		}
		var args []string
		for _, a := range x.Args {
			args = append(args, normExpr(info, a, o))
		}
		fn := normExpr(info, x.Fun, o)
		if isConversion(info, x) {
			fn = types.ExprString(x.Fun)
		}
		return fn + "(" + strings.Join(args, ",") + ")"
	case *ast.IndexExpr:
		return normExpr(info, x.X, o) + "[" + normExpr(info, x.Index, o) + "]"
	case *ast.IndexListExpr:
		return normExpr(info, x.X, o)
	case *ast.StarExpr:
		return "*" + normExpr(info, x.X, o)
	case *ast.UnaryExpr:
		return x.Op.String() + "(" + normExpr(info, x.X, o) + ")"
	case *ast.BinaryExpr:
		if x.Op == token.AND_NOT {
			// a &^ b == a & ^b
			return normBin(info, token.AND, []ast.Expr{x.X}, o, []string{"^(" + normExpr(info, x.Y, o) + ")"})
		}
		if commutative[x.Op] {
			var ops []ast.Expr
			flatten(x, x.Op, &ops)
			return normBin(info, x.Op, ops, o, nil)
		}
		return "(" + normExpr(info, x.X, o) + x.Op.String() + normExpr(info, x.Y, o) + ")"
	case *ast.SliceExpr:
		s := normExpr(info, x.X, o) + "["
		if x.Low != nil {
			s += normExpr(info, x.Low, o)
		}
		s += ":"
		if x.High != nil {
			s += normExpr(info, x.High, o)
		}
		return s + "]"
	case *ast.TypeAssertExpr:
		return normExpr(info, x.X, o) + ".(" + types.ExprString(x.Type) + ")"
	case *ast.CompositeLit:
		var els []string
		for _, el := range x.Elts {
			els = append(els, normExpr(info, el, o))
		}
		return "{" + strings.Join(els, ",") + "}"
	case *ast.KeyValueExpr:
		return normExpr(info, x.Key, o) + ":" + normExpr(info, x.Value, o)
	case *ast.FuncLit:
		return "func"
	}
	return types.ExprString(e)
}

func flatten(e ast.Expr, op token.Token, out *[]ast.Expr) {
	e = ast.Unparen(e)
	if b, ok := e.(*ast.BinaryExpr); ok && b.Op == op {
		flatten(b.X, op, out)
		flatten(b.Y, op, out)
		return
	}
	*out = append(*out, e)
}

func normBin(info *types.Info, op token.Token, ops []ast.Expr, o normOpts, extra []string) string {
	var parts []string
	for _, x := range ops {
		x = ast.Unparen(x)
		if b, ok := x.(*ast.BinaryExpr); ok && b.Op == token.AND_NOT && op == token.AND {
			parts = append(parts, normExpr(info, b.X, o), "^("+normExpr(info, b.Y, o)+")")
			continue
		}
		parts = append(parts, normExpr(info, x, o))
	}
	parts = append(parts, extra...)
	sort.Strings(parts)
	return "(" + strings.Join(parts, op.String()) + ")"
}

// callsInNode lists calls to the function named spec (objName format) under n.
func callsInNode(info *types.Info, n ast.Node, spec string) []*ast.CallExpr {
	var out []*ast.CallExpr
	ast.Inspect(n, func(x ast.Node) bool {
		if call, ok := x.(*ast.CallExpr); ok {
			if f := astCallee(info, call); f != nil && objName(f) == spec {
				out = append(out, call)
			}
		}
		return true
	})
	return out
}

// enclosingPath returns the chain of nodes from root to target (inclusive).
func enclosingPath(root ast.Node, target ast.Node) []ast.Node {
	var path, found []ast.Node
	ast.Inspect(root, func(n ast.Node) bool {
		if found != nil {
			return false
		}
		if n == nil {
			path = path[:len(path)-1]
			return true
		}
		path = append(path, n)
		if n == target {
			found = append([]ast.Node{}, path...)
			return false
		}
		return true
	})
	return found
}

// infoOf returns the types.Info for the package "rel".
func (p *Prog) infoOf(rel string) *types.Info {
	if pk := p.Pkg(rel); pk != nil {
		return pk.TypesInfo
	}
	return nil
}

// globalArrayInts reads the initialiser of a package-level one-dimensional array (or slice) of
// integer constants: index -> value, keyed (`A1: LongWhite`) or positional; elements not
// mentioned are zero. ok=false when the initialiser is not such a literal.
func (p *Prog) globalArrayInts(g *ssa.Global) (map[int64]int64, bool) {
	if g == nil || g.Pkg == nil {
		return nil, false
	}
	init, pk := p.pkgVarInit(relPkg(g.Pkg.Pkg.Path()) + "." + g.Name())
	if init == nil || pk == nil {
		return nil, false
	}
	cl, ok := ast.Unparen(init).(*ast.CompositeLit)
	if !ok {
		return nil, false
	}
	out := map[int64]int64{}
	next := int64(0)
	for _, el := range cl.Elts {
		val := el
		if kv, ok := el.(*ast.KeyValueExpr); ok {
			k, ok := constInt(pk.TypesInfo, kv.Key)
			if !ok {
				return nil, false
			}
			next = k
			val = kv.Value
		}
		v, ok := constInt(pk.TypesInfo, val)
		if !ok {
			return nil, false
		}
		out[next] = v
		next++
	}
	return out, true
}
