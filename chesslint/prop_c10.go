package main

import (
	"fmt"
	"go/token"

	"golang.org/x/tools/go/ssa"
)

func init() {
	register(&Property{
		ID: "C10",
		Explain: "Static necessary conditions for 'repetition count equals true recurrences'. The count is a function of the run-time history; what is decided is whether the scan can see every place a recurrence can sit. " +
			"R1: Threefold is recognised as a backward arithmetic-progression scan over the hash history comparing each visited element with the last one; start offset s (from the end, current entry = offset 1) and stride d are read from the loop; a position can recur only at offsets 5, 7, 9, ... so the visited set must contain all of those and not offset 1 (accepted: d=2 with s in {3,5}; d=1 with s in {2..5}); the scan runs down to index 0. " +
			"R2: the counter starts at 1, is incremented exactly once per equal element, the function returns as soon as it reaches 3 and otherwise the final count. " +
			"R3: the history it scans is the game's: one push per make, one pop per undo, reset only on FEN load (C03.R4), single writer of the encodings (C04.R1), hash is a function of the position (C04.R2-R4) under the en-passant convention (C02.R2), UCI move lists extend the persistent board (C02.R5) — re-evaluated here. " +
			"Not decided: 64-bit collisions, the count for any concrete history.",
		Assume: []string{"equal hashes mean equal positions (collisions not considered)"},
		Run:    runC10,
	})
}

func runC10(c *Ctx) {
	p := c.need("default")
	if p == nil {
		return
	}
	c10R1R2(c, p)
	c03R4(c, p, "C10.R3.history")
	c04R1(c, p, "C10.R3.single-writer")
	c04R2(c, p, "C10.R3.no-dropped-delta")
	c04R3(c, p, "C10.R3.toggles")
	c04R4(c, p, "C10.R3.scratch-vs-incremental")
	c04R8(c, p, "C10.R3.keys-drawn")
	c02R2(c, p, "C10.R3.ep-convention")
	c02R7(c, p, "C10.R3.ep-capturable")
	c02R5(c, p, "C10.R3.uci-history")
	boardCopyRule(c, p, "C10.R3.no-shared-history")
	c10R4(c, p)
}

func isLenOfHashes(v ssa.Value) bool {
	call, ok := stripConv(v).(*ssa.Call)
	if !ok {
		return false
	}
	bi, ok := call.Call.Value.(*ssa.Builtin)
	return ok && bi.Name() == "len" && isFieldLoad(call.Call.Args[0], "Board.hashes")
}

// lenMinus: v == len(hashes) - k, through any chain of +/- constants (last := len-1; ix := last-4)
func lenMinus(v ssa.Value) (int64, bool) {
	v = stripConv(v)
	if isLenOfHashes(v) {
		return 0, true
	}
	bo, ok := v.(*ssa.BinOp)
	if !ok {
		return 0, false
	}
	k, isc := constOf(bo.Y)
	if !isc {
		return 0, false
	}
	base, ok := lenMinus(bo.X)
	if !ok {
		return 0, false
	}
	switch bo.Op {
	case token.SUB:
		return base + k, true
	case token.ADD:
		return base - k, true
	}
	return 0, false
}

func hashesElem(v ssa.Value) (ssa.Value, bool) {
	u, ok := stripConv(v).(*ssa.UnOp)
	if !ok || u.Op != token.MUL {
		return nil, false
	}
	ia, ok := u.X.(*ssa.IndexAddr)
	if !ok || !isFieldLoad(ia.X, "Board.hashes") {
		return nil, false
	}
	return ia.Index, true
}

// lastHistoryEntry: v is hashes[len(hashes)-1], spelled out or through an accessor that returns just that (Hash()).
func lastHistoryEntry(v ssa.Value) bool {
	if ix, ok := hashesElem(v); ok {
		k, ok := lenMinus(ix)
		return ok && k == 1
	}
	call, ok := stripConv(v).(*ssa.Call)
	if !ok {
		return false
	}
	h := call.Call.StaticCallee()
	if h == nil || !isOwn(h) || h.Blocks == nil || relPkg(fnPkgPath(h)) != "board" || len(h.Params) != 1 {
		return false
	}
	as := resultAssignments(h, 0)
	if len(as) != 1 || h.Signature.Results().Len() != 1 {
		return false
	}
	ix, ok := hashesElem(as[0].Val)
	if !ok {
		return false
	}
	k, ok := lenMinus(ix)
	return ok && k == 1
}

func c10R1R2(c *Ctx, p *Prog) {
	const r1, r2 = "C10.R1", "C10.R2"
	fn := p.Func("board.(*Board).Threefold")
	if fn == nil {
		c.Anchor(r1, "board.(*Board).Threefold")
		return
	}
	// the comparison hashes[ix] == hashes[len-1]
	var cmp *ssa.BinOp
	var ixPhi *ssa.Phi
	allInstrs(fn, func(in ssa.Instruction) {
		bo, ok := in.(*ssa.BinOp)
		if !ok || (bo.Op != token.EQL && bo.Op != token.NEQ) {
			return
		}
		for _, pr := range [][2]ssa.Value{{bo.X, bo.Y}, {bo.Y, bo.X}} {
			i1, ok1 := hashesElem(pr[0])
			if !ok1 {
				continue
			}
			if lastHistoryEntry(pr[1]) {
				if ph, ok := stripConv(i1).(*ssa.Phi); ok {
					cmp, ixPhi = bo, ph
				}
			}
		}
	})
	if cmp == nil {
		c.Undec(r1, "Threefold#scan", fn.Pos(), "no comparison of hashes[ix] (ix a loop variable) with the last history entry hashes[len-1] found: the scan is not of the recognised shape")
		return
	}
	// the scan index: start value and signed step
	var step int64
	var initV ssa.Value
	var stepInstr *ssa.BinOp
	if len(ixPhi.Edges) == 2 {
		for i, e := range ixPhi.Edges {
			if bo, ok := stripConv(e).(*ssa.BinOp); ok && stripConv(bo.X) == ssa.Value(ixPhi) {
				if dd, isc := constOf(bo.Y); isc {
					switch bo.Op {
					case token.SUB:
						step, stepInstr, initV = -dd, bo, ixPhi.Edges[1-i]
					case token.ADD:
						step, stepInstr, initV = dd, bo, ixPhi.Edges[1-i]
					}
				}
			}
		}
	}
	if stepInstr == nil || step == 0 {
		c.Undec(r1, "Threefold#scan", cmp.Pos(), "the scan index does not advance by a constant step")
		return
	}
	// the loop test: ix compared with a constant or with len(hashes)-k, normalised to "the body runs while ix OP bound"
	var testOp token.Token
	var boundConst, boundLen int64 // bound = boundConst, or len - boundLen
	boundKind := ""
	if iff, ok := ixPhi.Block().Instrs[len(ixPhi.Block().Instrs)-1].(*ssa.If); ok {
		if bo, ok := iff.Cond.(*ssa.BinOp); ok {
			x, y, op := stripConv(bo.X), stripConv(bo.Y), bo.Op
			if y == ssa.Value(ixPhi) {
				x, y, op = y, x, swapCmp(op)
			}
			bodyTrue := ixPhi.Block().Succs[0].Dominates(cmp.Block()) || ixPhi.Block().Succs[0] == cmp.Block()
			if !bodyTrue {
				op = negCmp(op)
			}
			if x == ssa.Value(ixPhi) {
				if k, isc := constOf(y); isc {
					testOp, boundConst, boundKind = op, k, "const"
				} else if k, ok := lenMinus(y); ok {
					testOp, boundLen, boundKind = op, k, "len"
				}
			}
		}
	}
	if step < 0 {
		// ---- descending: ix := len - s; ix -= d; while ix >= 0
		d := -step
		s, okInit := lenMinus(initV)
		if !okInit {
			c.Undec(r1, "Threefold#scan", cmp.Pos(), "a descending scan must start at len(hashes)-s")
			return
		}
		lowest, lowKnown := int64(0), false
		if boundKind == "const" {
			switch testOp {
			case token.GEQ:
				lowest, lowKnown = boundConst, true
			case token.GTR:
				lowest, lowKnown = boundConst+1, true
			}
		}
		switch {
		case !lowKnown:
			c.Undec(r1, "Threefold#lower-bound", cmp.Pos(), "the loop test is not a comparison of the scan index with a constant lower bound")
		case lowest == 0:
			c.Ok(r1, "Threefold#lower-bound", cmp.Pos(), "the scan runs down to index 0: the whole history since the last reset is visited")
		case lowest > 0:
			c.Fail(r1, "Threefold#lower-bound", cmp.Pos(), "the scan stops at index %d: the oldest %d entries of the history are never compared (an occurrence there is missed)", lowest, lowest)
		default:
			c.Undec(r1, "Threefold#lower-bound", cmp.Pos(), "the loop admits a negative index (%d)", lowest)
		}
		okCover := (d == 2 && (s == 3 || s == 5)) || (d == 1 && s >= 2 && s <= 5)
		why := fmt.Sprintf("start offset %d from the end, stride %d", s, d)
		switch {
		case s <= 1:
			why += ": the current entry (offset 1) is compared with itself and counted"
		case d == 2 && s%2 == 0:
			why += ": only offsets of the wrong parity are visited (the side to move differs there: never a match)"
		case d > 2:
			why += fmt.Sprintf(": candidate offsets 5,7,9,... are skipped (every %dth entry only)", d)
		case s > 5:
			why += ": a recurrence 4 plies back (offset 5) is never seen"
		}
		c.Check(okCover, r1, "Threefold#coverage", stepInstr.Pos(), "visited offsets {s, s+d, ...} contain every offset at which the position can recur (5,7,9,...) and not the current entry — %s", why)
	} else {
		// ---- ascending: ix := parity of the last index (or 0); ix += d; while ix <= len-k
		d := step
		// start: (len-1)&1 / (len-1)%2 — the lowest index with the parity of the current entry — or a constant
		startParity, startConst, startKnown := false, int64(0), false
		if k, isc := constOf(initV); isc {
			startConst, startKnown = k, true
		} else if bo, ok := stripConv(initV).(*ssa.BinOp); ok {
			k, isc := constOf(bo.Y)
			if isc && ((bo.Op == token.AND && k == 1) || (bo.Op == token.REM && k == 2)) {
				if m, ok := lenMinus(bo.X); ok && m%2 == 1 {
					startParity, startKnown = true, true
				}
			}
		}
		var top int64 // highest index admitted: len - top
		topKnown := false
		if boundKind == "len" {
			switch testOp {
			case token.LEQ:
				top, topKnown = boundLen, true
			case token.LSS:
				top, topKnown = boundLen+1, true
			}
		}
		switch {
		case !startKnown:
			c.Undec(r1, "Threefold#lower-bound", cmp.Pos(), "the start of the ascending scan is neither a constant nor the parity of the last index")
		case startParity && d == 2, !startParity && startConst == 0 && d == 1:
			c.Ok(r1, "Threefold#lower-bound", cmp.Pos(), "the ascending scan starts at the oldest entry that can match: the whole history since the last reset is visited")
		case !startParity && startConst > 1:
			c.Fail(r1, "Threefold#lower-bound", cmp.Pos(), "the scan starts at index %d: the oldest entries of the history are never compared", startConst)
		case !startParity && d == 2:
			c.Fail(r1, "Threefold#lower-bound", cmp.Pos(), "the scan starts at the constant index %d with stride 2: for histories of the other parity only entries with the opponent to move are visited (never a match)", startConst)
		default:
			c.Undec(r1, "Threefold#lower-bound", cmp.Pos(), "start/stride combination of the ascending scan not recognised")
		}
		switch {
		case !topKnown:
			c.Undec(r1, "Threefold#coverage", stepInstr.Pos(), "the loop test of the ascending scan is not a comparison of the index with len(hashes)-k")
		case d > 2:
			c.Fail(r1, "Threefold#coverage", stepInstr.Pos(), "stride %d: candidate entries are skipped", d)
		case top <= 1:
			c.Fail(r1, "Threefold#coverage", stepInstr.Pos(), "the scan reaches the current entry (index len-%d): it is compared with itself and counted", top)
		case top > 5 || (d == 2 && top > 5):
			c.Fail(r1, "Threefold#coverage", stepInstr.Pos(), "the scan stops at index len-%d: a recurrence 4 plies back (index len-5) is never seen", top)
		default:
			c.Ok(r1, "Threefold#coverage", stepInstr.Pos(), "the ascending scan visits every candidate entry up to index len-%d (4 plies back is len-5) and never the current entry", top)
		}
	}

	// R2 counting
	// the increment in the block where the comparison is true
	var inc *ssa.BinOp
	allInstrs(fn, func(in ssa.Instruction) {
		bo, ok := in.(*ssa.BinOp)
		if !ok || bo.Op != token.ADD {
			return
		}
		if k, isc := constOf(bo.Y); !isc || k != 1 {
			return
		}
		if _, isPhi := stripConv(bo.X).(*ssa.Phi); !isPhi || stripConv(bo.X) == ssa.Value(ixPhi) {
			return
		}
		inc = bo
	})
	if inc == nil {
		c.Undec(r2, "Threefold#counter", fn.Pos(), "no counter increment found")
		return
	}
	cnt := stripConv(inc.X).(*ssa.Phi)
	hdr := ixPhi.Block()
	if cnt.Block() != hdr {
		c.Undec(r2, "Threefold#counter", cnt.Pos(), "the counter is not carried by the scan loop")
		return
	}
	// init 1: every constant flowing into the counter, and every return that the loop cannot reach
	var inits []int64
	seen := map[ssa.Value]bool{}
	var walk func(v ssa.Value)
	walk = func(v ssa.Value) {
		if seen[v] {
			return
		}
		seen[v] = true
		switch x := v.(type) {
		case *ssa.Phi:
			for _, e := range x.Edges {
				walk(e)
			}
		case *ssa.Const:
			k, _ := constOf(x)
			inits = append(inits, k)
		}
	}
	walk(cnt)
	init1 := len(inits) >= 1
	for _, k := range inits {
		if k != 1 {
			init1 = false
		}
	}
	c.Check(init1, r2, "Threefold#counter-starts-at-1", cnt.Pos(), "the count starts at 1 (the current occurrence) %v", inits)

	// one iteration of the loop, path by path
	type verdict struct {
		bad string
		n   int
	}
	vs := map[string]*verdict{"Threefold#increment-per-match": {}, "Threefold#returns-at-three": {}, "Threefold#returns-count": {}}
	fail := func(k, why string) {
		if vs[k].bad == "" {
			vs[k].bad = why
		}
	}
	und := ""
	// `for …; ix >= 0 && cnt < 3; …`: the cap is part of the loop test — every path from the loop header to the
	// comparison of the next entry knows the running count is below 3
	capTestedByLoopTest := true
	nToBody := 0
	enumBlockPaths(hdr, func(from, to *ssa.BasicBlock) bool { return to == cmp.Block() || to == hdr }, 20000, func(bp *bpath) {
		if bp.End != "arrive" || bp.Arrive != cmp.Block() {
			return
		}
		nToBody++
		u := int64(1 << 30)
		for _, pc := range bp.Conds {
			bo, ok := pc.V.(*ssa.BinOp)
			if !ok {
				continue
			}
			x, y, op := stripConv(bo.X), stripConv(bo.Y), bo.Op
			if y == ssa.Value(cnt) {
				x, y, op = y, x, swapCmp(op)
			}
			k, isc := constOf(y)
			if x != ssa.Value(cnt) || !isc {
				continue
			}
			if !pc.True {
				op = negCmp(op)
			}
			switch op {
			case token.LSS:
				u = min(u, k-1)
			case token.LEQ:
				u = min(u, k)
			case token.NEQ:
				if k == 3 {
					u = min(u, 2)
				}
			}
		}
		if u > 2 {
			capTestedByLoopTest = false
		}
	})
	if nToBody == 0 || cmp.Block() == hdr {
		capTestedByLoopTest = false
	}
	complete := enumBlockPaths(hdr, func(from, to *ssa.BasicBlock) bool { return to == hdr }, 20000, func(bp *bpath) {
		if bp.End == "panic" {
			return
		}
		incOn, cmpTruth, cmpOn := false, false, false
		for _, b := range bp.Blocks {
			if b == inc.Block() {
				incOn = true
			}
		}
		lb, ub := int64(-1<<30), int64(1<<30)
		lbP, ubP := int64(-1<<30), int64(1<<30)
		exitPath := false
		for i, pc := range bp.Conds {
			if pc.V == ssa.Value(cmp) {
				cmpOn, cmpTruth = true, pc.True == (cmp.Op == token.EQL)
			}
			if i == 0 && pc.At == 0 {
				// the loop test: body on the edge towards the comparison
				bodyTrue := hdr.Succs[0].Dominates(cmp.Block()) || hdr.Succs[0] == cmp.Block()
				exitPath = pc.True != bodyTrue
			}
			bo, ok := pc.V.(*ssa.BinOp)
			if !ok {
				continue
			}
			x, y, op := stripConv(bo.X), stripConv(bo.Y), bo.Op
			if y == ssa.Value(inc) || y == ssa.Value(cnt) {
				x, y, op = y, x, swapCmp(op)
			}
			if x != ssa.Value(inc) && x != ssa.Value(cnt) {
				continue
			}
			k, isc := constOf(y)
			if !isc {
				continue
			}
			if !pc.True {
				op = negCmp(op)
			}
			l, u := &lb, &ub
			if x == ssa.Value(cnt) {
				l, u = &lbP, &ubP // the running count at the top of this iteration
			}
			switch op {
			case token.GEQ:
				*l = max(*l, k)
			case token.GTR:
				*l = max(*l, k+1)
			case token.EQL:
				*l, *u = max(*l, k), min(*u, k)
			case token.LSS:
				*u = min(*u, k-1)
			case token.LEQ:
				*u = min(*u, k)
			case token.NEQ:
				if k == 3 {
					*u = min(*u, 2) // counts by one from below
				}
			}
		}
		vs["Threefold#increment-per-match"].n++
		if incOn != (cmpOn && cmpTruth) {
			if incOn {
				fail("Threefold#increment-per-match", "the count is incremented on a path where the visited hash was not found equal to the current one")
			} else {
				fail("Threefold#increment-per-match", "a visited hash equal to the current one is not counted on some path")
			}
		}
		var out ssa.Value
		if bp.End == "return" {
			last := bp.Blocks[len(bp.Blocks)-1]
			ret := last.Instrs[len(last.Instrs)-1].(*ssa.Return)
			if len(ret.Results) != 1 {
				return
			}
			out = stripConv(bp.resolve(returnedValue(ret, 0)))
		} else if bp.Arrive == hdr {
			out = stripConv(bp.edgeValue(cnt))
		} else {
			return
		}
		switch {
		case incOn && out != ssa.Value(inc):
			fail("Threefold#returns-count", "after counting a match the incremented count is not what is carried on/returned")
		case !incOn && out != ssa.Value(cnt):
			fail("Threefold#returns-count", "without a match the running count is not what is carried on/returned")
		}
		vs["Threefold#returns-count"].n++
		if bp.End == "return" {
			if incOn {
				vs["Threefold#returns-at-three"].n++
				if lb < 3 {
					fail("Threefold#returns-at-three", fmt.Sprintf("the scan stops after a match although the count is only known to be >= %d: a third occurrence further back is never counted", max(lb, 2)))
				}
			} else if !exitPath && lbP < 3 {
				fail("Threefold#returns-count", "the scan is abandoned before index 0 on a path without a match")
			}
		} else if incOn {
			vs["Threefold#returns-at-three"].n++
			if ub > 2 && !capTestedByLoopTest {
				fail("Threefold#returns-at-three", "the scan continues after a match without knowing the count is below 3: the result is not capped at three")
			}
		}
	})
	if !complete {
		und = "path enumeration exceeded its budget"
	}
	for _, k := range []string{"Threefold#increment-per-match", "Threefold#returns-at-three", "Threefold#returns-count"} {
		v := vs[k]
		switch {
		case und != "":
			c.Undec(r2, k, inc.Pos(), "%s", und)
		case v.bad != "":
			c.Fail(r2, k, inc.Pos(), "%s", v.bad)
		case v.n == 0:
			c.Undec(r2, k, inc.Pos(), "no path through the scan loop exercises this obligation")
		default:
			c.Ok(r2, k, inc.Pos(), "holds on all %d paths through one iteration of the scan", v.n)
		}
	}
}

func init() {
	addMutants(
		Mutant{Name: "C10.R4-history-reset-on-zero-clock", Prop: "C10", File: "uci/uci.go", Quick: true,
			Old: "\t\tb.MakeMove(m)\n", New: "\t\tb.MakeMove(m)\n\t\tif b.FiftyCnt == 0 {\n\t\t\tb.ResetHash()\n\t\t}\n",
			Expect: "C10.R4/uci.(*Driver).applyMoves#history-reset"},
		Mutant{Name: "C10.R3-king-keys-never-drawn", Prop: "C10", File: "board/zobrist.go",
			Old: "\t\tfor j := range piecesRand[i] {\n\t\t\tfor k := range piecesRand[i][j] {\n\t\t\t\tif j == int(NoPiece) {\n\t\t\t\t\tpiecesRand[i][j][k] = 0\n\t\t\t\t} else {\n\t\t\t\t\tpiecesRand[i][j][k] = Hash(r.Uint64())\n\t\t\t\t}\n\t\t\t}\n\t\t}\n", New: "\t\tfor j := range piecesRand[i][Pawn:] {\n\t\t\tfor k := range piecesRand[i][j] {\n\t\t\t\tpiecesRand[i][j][k] = Hash(r.Uint64())\n\t\t\t}\n\t\t}\n",
			Expect: "C10.R3.keys-drawn/drawn:board.piecesRand"},
		Mutant{Name: "C10.R1-stride-four", Prop: "C10", File: "board/board.go", Quick: true,
			Old: "for ix := len(b.hashes) - 5; ix >= 0; ix -= 2 {", New: "for ix := len(b.hashes) - 5; ix >= 0; ix -= 4 {",
			Expect: "C10.R1/Threefold#coverage"},
		Mutant{Name: "C10.R1-wrong-parity", Prop: "C10", File: "board/board.go", Quick: true,
			Old: "for ix := len(b.hashes) - 5; ix >= 0; ix -= 2 {", New: "for ix := len(b.hashes) - 4; ix >= 0; ix -= 2 {",
			Expect: "C10.R1/Threefold#coverage"},
		Mutant{Name: "C10.R1-counts-itself", Prop: "C10", File: "board/board.go",
			Old: "for ix := len(b.hashes) - 5; ix >= 0; ix -= 2 {", New: "for ix := len(b.hashes) - 1; ix >= 0; ix -= 2 {",
			Expect: "C10.R1/Threefold#coverage"},
		Mutant{Name: "C10.R1-starts-too-far-back", Prop: "C10", File: "board/board.go",
			Old: "for ix := len(b.hashes) - 5; ix >= 0; ix -= 2 {", New: "for ix := len(b.hashes) - 7; ix >= 0; ix -= 2 {",
			Expect: "C10.R1/Threefold#coverage"},
		Mutant{Name: "C10.R1-oldest-entry-skipped", Prop: "C10", File: "board/board.go",
			Old: "for ix := len(b.hashes) - 5; ix >= 0; ix -= 2 {", New: "for ix := len(b.hashes) - 5; ix > 0; ix -= 2 {",
			Expect: "C10.R1/Threefold#lower-bound"},
		Mutant{Name: "C10.R2-counter-from-zero", Prop: "C10", File: "board/board.go", Quick: true,
			Old: "\tcnt := Depth(1)\n\tif len(b.hashes) > 0 {", New: "\tcnt := Depth(0)\n\tif len(b.hashes) > 0 {",
			Expect: "C10.R2/Threefold#counter-starts-at-1"},
		Mutant{Name: "C10.R2-early-exit-at-two", Prop: "C10", File: "board/board.go",
			Old: "\t\t\t\tif cnt >= 3 {\n\t\t\t\t\treturn cnt", New: "\t\t\t\tif cnt >= 2 {\n\t\t\t\t\treturn cnt",
			Expect: "C10.R2/Threefold#returns-at-three"},
		Mutant{Name: "C10.R3-null-move-skips-history", Prop: "C10", File: "board/board.go",
			Old: "\tb.hashes = append(b.hashes, hash)\n\t// b.consistencyCheck()\n\treturn r\n", New: "\tif r != 0 {\n\t\tb.hashes = append(b.hashes, hash)\n\t}\n\t// b.consistencyCheck()\n\treturn r\n",
			Expect: "C10.R3.history/board.(*Board).MakeNullMove#push"},
		Mutant{Name: "C10.R3-ep-flag-without-capturability", Prop: "C10", File: "board/board.go",
			Old: "canEnPassant := piece == Pawn && Abs(m.From()-m.To()) == 16 && b.CanEnPassant(m.To())", New: "canEnPassant := piece == Pawn && Abs(m.From()-m.To()) == 16",
			Expect: "C10.R3.ep-convention/MakeMove#ep-flag#capturable"},
		Mutant{Name: "C10.R3-uci-moves-on-copy", Prop: "C10", File: "uci/uci.go",
			Old: "\tb := d.board\n\tfor _, ms := range moves {", New: "\tcp := *d.board\n\tb := &cp\n\tfor _, ms := range moves {",
			Expect: "C10.R3.uci-history/applyMoves#persistent-board"},
	)
}

// c10R4: the repetition count is a function of the whole history since the position was set up.
// The history may be emptied only together with loading a new position: every call of a function
// that truncates Board.hashes to a constant length (today: ResetHash) is dominated, in its caller,
// by a ParseFEN of the same board (or the caller is itself only such a loader). A reset anywhere
// else (e.g. "nothing before an irreversible move can repeat") forgets occurrences as soon as its
// trigger misfires.
func c10R4(c *Ctx, p *Prog) {
	const rule = "C10.R4"
	// resetters: functions storing a constant-length re-slice or a fresh slice into Board.hashes
	resetters := map[*ssa.Function]bool{}
	for _, fn := range p.OwnFuncs() {
		if relPkg(fnPkgPath(fn)) != "board" {
			continue
		}
		for _, st := range fieldStores(fn, "Board.hashes") {
			v := stripConv(st.Val)
			switch x := v.(type) {
			case *ssa.MakeSlice:
				resetters[fn] = true
			case *ssa.Slice:
				if x.High != nil {
					if _, isc := constOf(x.High); isc {
						resetters[fn] = true
					}
				}
			}
		}
	}
	if len(resetters) == 0 {
		c.Undec(rule, "history-reset#resetters", 0, "no function that empties the hash history found")
		return
	}
	n := 0
	for _, caller := range p.OwnFuncs() {
		if resetters[caller] {
			continue
		}
		ord := 0
		allInstrs(caller, func(in ssa.Instruction) {
			ci, ok := in.(ssa.CallInstruction)
			if !ok || ci.Common().StaticCallee() == nil || !resetters[ci.Common().StaticCallee()] {
				return
			}
			ord++
			n++
			key := fmt.Sprintf("%s#history-reset@%d", fnName(caller), ord)
			recv := ci.Common().Args[0]
			loaded := false
			for _, pc := range callsIn(caller, "board.ParseFEN") {
				if instrDominates(pc.(ssa.Instruction), in) && sameValue(pc.Common().Args[0], recv, 0) {
					loaded = true
				}
			}
			for _, pc := range callsIn(caller, "board.FromFEN") {
				if instrDominates(pc.(ssa.Instruction), in) {
					for v := range backSlice(recv, sliceOpts{}) {
						if v == pc.Value() {
							loaded = true
						}
					}
				}
			}
			if loaded {
				c.Ok(rule, key, in.Pos(), "the history is emptied right after a new position was loaded into the same board")
			} else {
				c.Fail(rule, key, in.Pos(), "the hash history is emptied although no new position was loaded: earlier occurrences of the positions still on the board are forgotten and the repetition count restarts")
			}
		})
	}
	c.Floor(rule, n, 1, "history resets")
}
