package main

import (
	"fmt"
	"go/constant"
	"go/token"
	"go/types"
	"strings"

	"golang.org/x/tools/go/ssa"
)

func init() {
	register(&Property{
		ID: "C07",
		Explain: "Static necessary conditions for 'reported variations are legal lines and agree with the move played'. " +
			"R1: alphaBeta clears its PV slot (setNull(ply)) before any return and before any descent. " +
			"R2: pv.insert(ply, m) is called only with the move whose child search just returned, after that move has been undone, only on the value > alpha ∧ value < beta path; insert writes the move at bufIx(ply), copies the child's line from bufIx(ply+1) with the child's length and records length+1; the buffers have the triangular size. " +
			"R3: in iterativeDeepen the adopted move/ponder and the printed pv both come from pv.active() with no search call in between, only after the aspiration loop exited with a score strictly inside the window; ponder is cleared whenever the line is shorter than two moves and on the abort fallback. " +
			"R4: the depth printed is the outer loop variable, and every cycle through the report passes the depth increment (at most one report per depth). " +
			"Not decided: legality of PV moves (depends on run-time table contents), bufIx arithmetic.",
		Assume: []string{"go/ssa models the program faithfully"},
		Run:    runC07,
	})
}

func runC07(c *Ctx) {
	p := c.need("default")
	if p == nil {
		return
	}
	c07R1R2(c, p)
	c07Insert(c, p)
	c07R3R4(c, p)
	// a line is only legal from the root if the search leaves the board as it found it
	rulePairs(c, p, "C07.R5")
}

// varargValues returns the values packed into the variadic slice argument v.
func varargValues(v ssa.Value) []ssa.Value {
	sl, ok := v.(*ssa.Slice)
	if !ok {
		return nil
	}
	al, ok := sl.X.(*ssa.Alloc)
	if !ok || al.Referrers() == nil {
		return nil
	}
	var out []ssa.Value
	for _, r := range *al.Referrers() {
		if ia, ok := r.(*ssa.IndexAddr); ok && ia.Referrers() != nil {
			for _, rr := range *ia.Referrers() {
				if st, ok := rr.(*ssa.Store); ok && st.Addr == ia {
					x := st.Val
					if mi, ok := x.(*ssa.MakeInterface); ok {
						x = mi.X
					}
					out = append(out, x)
				}
			}
		}
	}
	return out
}

// plyParam: the parameter P of alphaBeta such that recursive calls pass P+1 in its position.
func plyParam(fn *ssa.Function) *ssa.Parameter {
	for _, ci := range callsIn(fn, "search.(*Search).alphaBeta") {
		for i, a := range ci.Common().Args {
			if bo, ok := stripConv(a).(*ssa.BinOp); ok && bo.Op == token.ADD {
				if k, isc := constOf(bo.Y); isc && k == 1 {
					if pr, ok := stripConv(bo.X).(*ssa.Parameter); ok && i < len(fn.Params) && fn.Params[i] == pr {
						return pr
					}
				}
			}
		}
	}
	return nil
}

func c07R1R2(c *Ctx, p *Prog) {
	const r1, r2 = "C07.R1", "C07.R2"
	fn := p.Func("search.(*Search).alphaBeta")
	if fn == nil {
		c.Anchor(r1, "search.(*Search).alphaBeta")
		return
	}
	ply := plyParam(fn)
	if ply == nil {
		c.Undec(r1, "alphaBeta#ply", fn.Pos(), "cannot identify the ply parameter (recursive calls passing p+1 in p's position)")
		return
	}
	// R1
	sets := callsIn(fn, "search.(*pv).setNull")
	var clear ssa.Instruction
	for _, s := range sets {
		if stripConv(s.Common().Args[1]) == ssa.Value(ply) {
			clear = s.(ssa.Instruction)
		}
	}
	if clear == nil {
		c.Fail(r1, "alphaBeta#entry-clear", fn.Pos(), "alphaBeta never clears the PV slot of its own ply: a line left there by a sibling subtree is spliced behind a different move")
	} else {
		bad := ""
		live := reachableBlocks(fn)
		allInstrs(fn, func(in ssa.Instruction) {
			if bad != "" || !live[in.Block().Index] {
				return // (the synthetic recover block of a function with defers is not a normal path)
			}
			_, isRet := in.(*ssa.Return)
			desc := isCallTo(in, "search.(*Search).alphaBeta") || isCallTo(in, "search.(*Search).quiescence")
			if (isRet || desc) && !instrDominates(clear, in) {
				bad = p.Rel(in.Pos())
			}
		})
		c.Check(bad == "", r1, "alphaBeta#entry-clear", clear.Pos(), "setNull(ply) dominates every return and every descent %s", bad)
	}
	// R2: splice site
	ins := callsIn(fn, "search.(*pv).insert")
	for _, in := range ins {
		a := in.Common().Args
		okPly := stripConv(a[1]) == ssa.Value(ply)
		// the move is the one made and undone
		var mk ssa.CallInstruction
		for _, m := range callsIn(fn, "board.(*Board).MakeMove") {
			if sameValue(m.Common().Args[1], a[2], 0) {
				mk = m
			}
		}
		c.Check(okPly && mk != nil, r2, "alphaBeta#insert-args", in.Pos(), "insert(ply, m) is given the node's own ply and the move that was played at this node")
		if mk != nil {
			open, _ := reachAvoiding(mk.(ssa.Instruction), in.(ssa.Instruction), func(x ssa.Instruction) bool { return isCallTo(x, "board.(*Board).UndoMove") })
			c.Check(!open, r2, "alphaBeta#insert-after-undo", in.Pos(), "the splice happens after the move has been undone (never between make and undo)")
			// after the child search returned: some descent call dominates... at least reaches it
			child := false
			for _, d := range callsIn(fn, "search.(*Search).alphaBeta") {
				if r, _ := reachAvoiding(d.(ssa.Instruction), in.(ssa.Instruction), nil); r {
					child = true
				}
			}
			c.Check(child, r2, "alphaBeta#insert-after-child", in.Pos(), "the splice follows the child search of that move")
		}
		// value > alpha and value < beta
		var gtAlpha, ltBeta bool
		var val ssa.Value
		for _, ce := range controllingConds(in.Block()) {
			bo, ok := ce.Cond.(*ssa.BinOp)
			if !ok {
				continue
			}
			switch {
			case (bo.Op == token.GTR && ce.True) || (bo.Op == token.LEQ && !ce.True):
				if rootsAtParam(bo.Y, fn, scoreParam(fn, 0)) {
					gtAlpha, val = true, bo.X
				}
			}
		}
		for _, ce := range controllingConds(in.Block()) {
			bo, ok := ce.Cond.(*ssa.BinOp)
			if !ok || val == nil || bo.X != val {
				continue
			}
			if ((bo.Op == token.GEQ && !ce.True) || (bo.Op == token.LSS && ce.True)) && rootsAtParam(bo.Y, fn, scoreParam(fn, 1)) {
				ltBeta = true
			}
		}
		c.Check(gtAlpha && ltBeta, r2, "alphaBeta#insert-window", in.Pos(), "the splice happens only when the child's value raised alpha and stayed below beta (value > alpha: %v, value < beta: %v)", gtAlpha, ltBeta)
	}
	c.Floor(r2, len(ins), 1, "pv.insert call sites in alphaBeta")
	// no other caller of insert
	for _, f := range p.OwnFuncs() {
		if f != fn && len(callsIn(f, "search.(*pv).insert")) > 0 {
			c.Fail(r2, fnName(f)+"#insert", f.Pos(), "pv.insert is called outside alphaBeta")
		}
	}
}

// rootsAtParam: v is the parameter named name or a phi chain rooted at it / at values derived in the loop.
func rootsAtParam(v ssa.Value, fn *ssa.Function, name string) bool {
	for x := range backSlice(v, sliceOpts{}) {
		if pr, ok := x.(*ssa.Parameter); ok && pr.Name() == name {
			return true
		}
	}
	return false
}

func c07Insert(c *Ctx, p *Prog) {
	const rule = "C07.R2"
	fn := p.Func("search.(*pv).insert")
	if fn == nil {
		c.Anchor(rule, "search.(*pv).insert")
		return
	}
	if len(fn.Params) != 3 {
		c.Undec(rule, "insert#params", fn.Pos(), "expected (pv, ply, m)")
		return
	}
	ply, m := fn.Params[1], fn.Params[2]
	isBufIx := func(v ssa.Value, plus int64) bool {
		call, ok := stripConv(v).(*ssa.Call)
		if !ok || objName(calleeObj(call)) != "search.bufIx" {
			return false
		}
		a := stripConv(call.Call.Args[0])
		if plus == 0 {
			return a == ssa.Value(ply)
		}
		bo, ok := a.(*ssa.BinOp)
		if !ok || bo.Op != token.ADD || stripConv(bo.X) != ssa.Value(ply) {
			return false
		}
		k, isc := constOf(bo.Y)
		return isc && k == plus
	}
	var okMove, okCopy, okLen bool
	allInstrs(fn, func(in ssa.Instruction) {
		switch x := in.(type) {
		case *ssa.Store:
			ia, ok := x.Addr.(*ssa.IndexAddr)
			if !ok {
				return
			}
			fr, ok := asFieldAddr(ia.X)
			if !ok {
				return
			}
			switch fr.Name() {
			case "pv.moves":
				if isBufIx(ia.Index, 0) && x.Val == ssa.Value(m) {
					okMove = true
				}
			case "pv.depth":
				if stripConv(ia.Index) == ssa.Value(ply) {
					if bo, ok := stripConv(x.Val).(*ssa.BinOp); ok && bo.Op == token.ADD {
						if k, isc := constOf(bo.Y); isc && k == 1 {
							if l, ok := stripConv(bo.X).(*ssa.UnOp); ok && l.Op == token.MUL {
								if ia2, ok := l.X.(*ssa.IndexAddr); ok {
									if b2, ok := stripConv(ia2.Index).(*ssa.BinOp); ok && b2.Op == token.ADD && stripConv(b2.X) == ssa.Value(ply) {
										if k2, isc := constOf(b2.Y); isc && k2 == 1 {
											okLen = true
										}
									}
								}
							}
						}
					}
				}
			}
		case *ssa.Call:
			if bi, ok := x.Call.Value.(*ssa.Builtin); ok && bi.Name() == "copy" {
				dst, ok1 := x.Call.Args[0].(*ssa.Slice)
				src, ok2 := x.Call.Args[1].(*ssa.Slice)
				if ok1 && ok2 && dst.Low != nil && src.Low != nil {
					dl, okd := stripConv(dst.Low).(*ssa.BinOp)
					okDst := okd && dl.Op == token.ADD && isBufIx(dl.X, 0)
					if okDst {
						k, isc := constOf(dl.Y)
						okDst = isc && k == 1
					}
					okCopy = okDst && isBufIx(src.Low, 1)
				}
			}
		}
	})
	c.Check(okMove, rule, "insert#move-at-own-slot", fn.Pos(), "insert stores m at moves[bufIx(ply)]")
	c.Check(okCopy, rule, "insert#copy-child-line", fn.Pos(), "insert copies the child's line from bufIx(ply+1) to bufIx(ply)+1")
	c.Check(okLen, rule, "insert#length", fn.Pos(), "insert records depth[ply] = depth[ply+1] + 1")
	// buffer sizes
	pk := p.Pkg("search")
	mp, ok := p.pkgConstInt("chess.MaxPlies")
	if pk != nil && ok {
		if tn, ok := pk.Types.Scope().Lookup("pv").(*types.TypeName); ok {
			if st, ok := tn.Type().Underlying().(*types.Struct); ok {
				for i := 0; i < st.NumFields(); i++ {
					f := st.Field(i)
					at, ok := f.Type().Underlying().(*types.Array)
					if !ok {
						continue
					}
					switch f.Name() {
					case "moves":
						c.Check(at.Len() == mp*(mp+1)/2, rule, "pv#moves-size", f.Pos(), "moves buffer holds the triangular %d*(%d+1)/2 = %d entries (has %d)", mp, mp, mp*(mp+1)/2, at.Len())
					case "depth":
						c.Check(at.Len() == mp, rule, "pv#depth-size", f.Pos(), "depth buffer has MaxPlies = %d entries (has %d)", mp, at.Len())
					}
				}
			}
		}
	}
}

func c07R3R4(c *Ctx, p *Prog) {
	const r3, r4 = "C07.R3", "C07.R4"
	fn := p.Func("search.(*Search).iterativeDeepen")
	if fn == nil {
		c.Anchor(r3, "search.(*Search).iterativeDeepen")
		return
	}
	// result allocs by name
	mv, pd := namedResult(fn, 1), namedResult(fn, 2)
	if mv == nil || pd == nil {
		c.Undec(r3, "iterativeDeepen#results", fn.Pos(), "named results move/ponder not found as locals")
		return
	}
	fromActive := func(v ssa.Value) (idx int64, ok bool) {
		l, isLd := stripConv(v).(*ssa.UnOp)
		if !isLd || l.Op != token.MUL {
			return 0, false
		}
		ia, isIA := l.X.(*ssa.IndexAddr)
		if !isIA || !isCallValueTo(ia.X, "search.(*pv).active") {
			return 0, false
		}
		k, isc := constOf(ia.Index)
		return k, isc
	}
	// the PV report
	var report *ssa.Call
	var reports []*ssa.Call
	allInstrs(fn, func(in ssa.Instruction) {
		call, ok := in.(*ssa.Call)
		if !ok {
			return
		}
		if f := calleeObj(call); f == nil || f.Pkg() == nil || f.Pkg().Path() != "fmt" {
			return
		}
		for _, v := range varargValues(call.Call.Args[len(call.Call.Args)-1]) {
			if isCallValueTo(v, "search.pvInfo") {
				report = call
				reports = append(reports, call)
			}
		}
	})
	if report == nil {
		c.Undec(r3, "iterativeDeepen#report", fn.Pos(), "no fmt print of pvInfo(...) found")
		return
	}
	// report reads pv.active()
	okSrc := false
	for _, v := range varargValues(report.Call.Args[len(report.Call.Args)-1]) {
		if call, ok := v.(*ssa.Call); ok && objName(calleeObj(call)) == "search.pvInfo" {
			okSrc = isCallValueTo(call.Call.Args[0], "search.(*pv).active")
		}
	}
	c.Check(okSrc, r3, "iterativeDeepen#report-source", report.Pos(), "the reported variation is pv.active()")
	// the iteration boundary: increment of the loop counter printed by the report
	isDepthIncr := func(x ssa.Instruction) bool {
		bo, ok := x.(*ssa.BinOp)
		if !ok || bo.Op != token.ADD {
			return false
		}
		if k, isc := constOf(bo.Y); !isc || k != 1 {
			return false
		}
		ph, ok := stripConv(bo.X).(*ssa.Phi)
		if !ok {
			return false
		}
		for _, v := range varargValues(report.Call.Args[len(report.Call.Args)-1]) {
			if stripConv(v) == ssa.Value(ph) {
				return true
			}
		}
		return false
	}
	nAdopt := 0
	var sampleVal ssa.Value
	for _, ci := range callsIn(fn, "search.(*Search).alphaBeta") {
		sampleVal, _ = ci.(ssa.Value)
	}
	for _, r := range *mv.Referrers() {
		st, ok := r.(*ssa.Store)
		if !ok || st.Addr != ssa.Value(mv) {
			continue
		}
		if k, isc := constOf(st.Val); isc && k == 0 {
			continue
		}
		idx, isAct := fromActive(st.Val)
		if !isAct {
			// fallback adoption: must come from the generated frame, with ponder cleared before
			bad := moveOrigin(st.Val, []string{"move.(*Store).Frame"}, map[ssa.Value]bool{}, 0)
			cleared := false
			for _, r2 := range *pd.Referrers() {
				if s2, ok := r2.(*ssa.Store); ok && s2.Addr == ssa.Value(pd) {
					if k, isc := constOf(s2.Val); isc && k == 0 && instrDominates(s2, st) {
						cleared = true
					}
				}
			}
			c.Check(bad == nil && cleared, r3, "iterativeDeepen#fallback-adoption", st.Pos(), "a move adopted outside the PV comes from the generated frame and the ponder move is cleared first (origin ok: %v, ponder cleared: %v)", bad == nil, cleared)
			continue
		}
		nAdopt++
		key := "iterativeDeepen#adoption"
		c.Check(idx == 0, r3, key+"#first-move", st.Pos(), "the adopted move is pv.active()[0]")
		// no search between adoption and report
		searched := ""
		for _, spec := range []string{"search.(*Search).alphaBeta", "search.(*Search).quiescence"} {
			for _, d := range callsIn(fn, spec) {
				if r, _ := reachAvoiding(st, d.(ssa.Instruction), func(x ssa.Instruction) bool { return x == ssa.Instruction(report) || isDepthIncr(x) }); r {
					searched = p.Rel(d.Pos())
				}
			}
		}
		c.Check(searched == "", r3, key+"#no-search-before-report", st.Pos(), "no search call can run between adopting the move and reporting the variation %s", searched)
		c.Check(instrDominates(st, report) || st.Block() == report.Block() || reaches(st, report), r3, key+"#reported", st.Pos(), "the iteration's report follows the adoption")
		// ponder in the same block: 0, or active()[1] when the line has at least two moves
		okPonder := false
		for _, r2 := range *pd.Referrers() {
			s2, ok := r2.(*ssa.Store)
			if !ok || s2.Addr != ssa.Value(pd) || s2.Block() != st.Block() {
				continue
			}
			if k, isc := constOf(s2.Val); isc && k == 0 {
				okPonder = true
			} else if i2, ok := fromActive(s2.Val); ok && i2 == 1 {
				// block excluded from len==0 and len==1
				ex0, ex1 := false, false
				for _, ce := range controllingConds(st.Block()) {
					if bo, ok := ce.Cond.(*ssa.BinOp); ok && bo.Op == token.EQL && !ce.True {
						if lc, ok := stripConv(bo.X).(*ssa.Call); ok {
							if bi, ok := lc.Call.Value.(*ssa.Builtin); ok && bi.Name() == "len" && isCallValueTo(lc.Call.Args[0], "search.(*pv).active") {
								if k, isc := constOf(bo.Y); isc && k == 0 {
									ex0 = true
								} else if isc && k == 1 {
									ex1 = true
								}
							}
						}
					}
				}
				okPonder = ex0 && ex1
			}
		}
		c.Check(okPonder, r3, key+"#ponder", st.Pos(), "together with the move, ponder is set to pv.active()[1] only when the line has at least two moves, else cleared")
		// only with awOk
		okAw := false
		for _, ce := range controllingConds(st.Block()) {
			if ph, ok := ce.Cond.(*ssa.Phi); ok && ce.True {
				if windowOK(ph, sampleVal, map[ssa.Value]bool{}) {
					okAw = true
				}
			}
		}
		c.Check(okAw, r3, key+"#inside-window", st.Pos(), "the result is adopted only after the aspiration loop ended with alpha < score < beta")
	}
	c.Floor(r3, nAdopt, 2, "PV adoptions in iterativeDeepen")

	// R4
	for i, rp := range reports {
		c07R4(c, p, fn, rp, i+1)
	}
}

func c07R4(c *Ctx, p *Prog, fn *ssa.Function, report *ssa.Call, ord int) {
	r4 := "C07.R4"
	vals := varargValues(report.Call.Args[len(report.Call.Args)-1])
	key := fmt.Sprintf("iterativeDeepen#report@%d", ord)
	var depthPhi *ssa.Phi
	var incr ssa.Instruction
	for _, v := range vals {
		if ph, ok := stripConv(v).(*ssa.Phi); ok && len(ph.Edges) == 2 {
			for i, e := range ph.Edges {
				if k, isc := constOf(e); isc && k == 0 {
					if bo, ok := stripConv(ph.Edges[1-i]).(*ssa.BinOp); ok && bo.Op == token.ADD && stripConv(bo.X) == ssa.Value(ph) {
						if one, isc := constOf(bo.Y); isc && one == 1 {
							depthPhi, incr = ph, bo
						}
					}
				}
			}
		}
	}
	if depthPhi == nil {
		c.Fail(r4, key+"#report-depth", report.Pos(), "the report does not print a loop counter that starts at 0 and grows by one per iteration")
		return
	}
	c.Ok(r4, key+"#report-depth", report.Pos(), "printed depth is the outer loop variable (0, +1 per iteration)")
	again, _ := reachAvoiding(report, report, func(x ssa.Instruction) bool { return x == incr })
	c.Check(!again, r4, key+"#one-report-per-depth", report.Pos(), "every cycle through the report passes the depth increment: reported depths strictly increase")
	// the alphaBeta depth argument is the same variable
	okD := false
	for _, ci := range callsIn(fn, "search.(*Search).alphaBeta") {
		for _, a := range ci.Common().Args {
			if stripConv(a) == ssa.Value(depthPhi) {
				okD = true
			}
		}
	}
	c.Check(okD, r4, key+"#searched-depth", report.Pos(), "the depth searched is the depth reported")
	_ = constant.MakeBool
	_ = strings.Contains
}

func reaches(a, b ssa.Instruction) bool {
	r, _ := reachAvoiding(a, b, nil)
	return r
}

// windowOK: bool phi ph can become true only on edges controlled by
// sample > alpha (¬ sample <= alpha) and sample < beta (¬ sample >= beta).
func windowOK(ph *ssa.Phi, sample ssa.Value, seen map[ssa.Value]bool) bool {
	if seen[ph] {
		return true
	}
	seen[ph] = true
	found := false
	for i, e := range ph.Edges {
		if k, isc := constOf(e); isc {
			if k == 0 {
				continue
			}
			pred := ph.Block().Preds[i]
			var notLow, notHigh bool
			for _, ce := range append(controllingConds(pred), edgeCond(pred, ph.Block())...) {
				bo, ok := ce.Cond.(*ssa.BinOp)
				if !ok || bo.X != sample {
					continue
				}
				if (bo.Op == token.LEQ && !ce.True) || (bo.Op == token.GTR && ce.True) {
					notLow = true
				}
				if (bo.Op == token.GEQ && !ce.True) || (bo.Op == token.LSS && ce.True) {
					notHigh = true
				}
			}
			if !notLow || !notHigh {
				return false
			}
			found = true
			continue
		}
		if p2, ok := e.(*ssa.Phi); ok {
			if !windowOK(p2, sample, seen) {
				return false
			}
			found = true
			continue
		}
		return false
	}
	return found
}

func init() {
	addMutants(
		Mutant{Name: "C07.R1-clear-after-quiescence-handoff", Prop: "C07", File: "search/search.go", Quick: true,
			Old: "\ts.pv.setNull(ply)\n\n\tif d == 0 || ply >= MaxPlies-1 {\n\t\treturn s.quiescence(b, alpha, beta, ply, opts)\n\t}\n", New: "\tif d == 0 || ply >= MaxPlies-1 {\n\t\treturn s.quiescence(b, alpha, beta, ply, opts)\n\t}\n\n\ts.pv.setNull(ply)\n",
			Expect: "C07.R1/alphaBeta#entry-clear"},
		Mutant{Name: "C07.R2-insert-before-undo", Prop: "C07", File: "search/search.go",
			Old: "\tFin:\n\n\t\tb.UndoMove(m, r)\n\t\ts.hstack.Pop()\n", New: "\tFin:\n\t\tif value > alpha && value < beta {\n\t\t\ts.pv.insert(ply, m)\n\t\t}\n\n\t\tb.UndoMove(m, r)\n\t\ts.hstack.Pop()\n",
			Expect: "C07.R2/alphaBeta#insert-after-undo"},
		Mutant{Name: "C07.R2-insert-on-fail-high-too", Prop: "C07", File: "search/search.go", Quick: true,
			Old: "\t\tif value > alpha {\n\t\t\tif value >= beta {", New: "\t\tif value > alpha {\n\t\t\ts.pv.insert(ply, m)\n\t\t\tif value >= beta {",
			Expect: "C07.R2/alphaBeta#insert-window"},
		Mutant{Name: "C07.R2-insert-wrong-ply", Prop: "C07", File: "search/search.go",
			Old: "\t\t\ts.pv.insert(ply, m)\n\t\t} else {", New: "\t\t\ts.pv.insert(ply+1, m)\n\t\t} else {",
			Expect: "C07.R2/alphaBeta#insert-args"},
		Mutant{Name: "C07.R2-copy-from-own-slot", Prop: "C07", File: "search/pv.go",
			Old: "\tj := bufIx(ply + 1)\n", New: "\tj := bufIx(ply) + 1\n",
			Expect: "C07.R2/insert#copy-child-line"},
		Mutant{Name: "C07.R2-length-not-extended", Prop: "C07", File: "search/pv.go",
			Old: "\tpv.depth[ply] = l + 1\n", New: "\tpv.depth[ply] = l\n",
			Expect: "C07.R2/insert#length"},
		Mutant{Name: "C07.R3-ponder-kept-on-short-line", Prop: "C07", File: "search/search.go", Quick: true,
			Old: "\t\t\tmove = s.pv.active()[0]\n\t\t\t// in case we have a short PV, clear ponder from previous iteration, as\n\t\t\t// there is no guarantee the ponder move is still legal after move.\n\t\t\tponder = 0\n", New: "\t\t\tmove = s.pv.active()[0]\n",
			Expect: "C07.R3/iterativeDeepen#adoption#ponder"},
		Mutant{Name: "C07.R3-adopt-inside-aspiration-loop", Prop: "C07", File: "search/search.go",
			Old: "\t\t\tscoreSample = s.alphaBeta(b, alpha, beta, idD, 0, PVNode, opts)\n", New: "\t\t\tscoreSample = s.alphaBeta(b, alpha, beta, idD, 0, PVNode, opts)\n\t\t\tif len(s.pv.active()) > 0 {\n\t\t\t\tmove = s.pv.active()[0]\n\t\t\t\tponder = 0\n\t\t\t}\n",
			Expect: "C07.R3/iterativeDeepen#adoption"},
		Mutant{Name: "C07.R3-window-accepts-beta", Prop: "C07", File: "search/search.go",
			Old: "\t\t\tcase scoreSample >= beta:\n", New: "\t\t\tcase scoreSample > beta:\n",
			Expect: "C07.R3/iterativeDeepen#adoption#inside-window"},
		Mutant{Name: "C07.R4-report-inside-aspiration-loop", Prop: "C07", File: "search/search.go",
			Old: "\t\t\tscoreSample = s.alphaBeta(b, alpha, beta, idD, 0, PVNode, opts)\n", New: "\t\t\tscoreSample = s.alphaBeta(b, alpha, beta, idD, 0, PVNode, opts)\n\t\t\tif opts.Output != nil {\n\t\t\t\tfmt.Fprintf(opts.Output, \"info depth %d score %s pv %s\\n\", idD, scoreSample, pvInfo(s.pv.active()))\n\t\t\t}\n",
			Expect: "C07.R"},
	)
}

func reachableBlocks(fn *ssa.Function) map[int]bool {
	seen := map[int]bool{}
	var walk func(b *ssa.BasicBlock)
	walk = func(b *ssa.BasicBlock) {
		if seen[b.Index] {
			return
		}
		seen[b.Index] = true
		for _, s := range b.Succs {
			walk(s)
		}
	}
	walk(fn.Blocks[0])
	return seen
}

// scoreParam names the i-th parameter of type Score (alpha is the first, beta the second).
func scoreParam(fn *ssa.Function, i int) string {
	k := 0
	for _, pr := range fn.Params {
		if n, ok := types.Unalias(pr.Type()).(*types.Named); ok && n.Obj().Name() == "Score" {
			if k == i {
				return pr.Name()
			}
			k++
		}
	}
	return "?"
}
