package main

// C11.R6: acceptance of a parsed position by piece counts is decided per colour. The chess
// bound (8 pawns + promotions per side) is a per-side budget: nothing but the loop variable may
// be carried from the White iteration of the count loop to the Black one, or valid positions
// in which both sides promoted are rejected by `position fen` (the printer's own output would
// not load).

import (
	"go/types"

	"golang.org/x/tools/go/ssa"
)

func c11R6(c *Ctx, p *Prog) {
	const rule = "C11.R6"
	fn := p.Func("board.(Board).InvalidPieceCount")
	if fn == nil {
		fn = p.Func("board.(*Board).InvalidPieceCount")
	}
	if fn == nil {
		c.Anchor(rule, "board.(Board).InvalidPieceCount")
		return
	}
	isColour := func(t types.Type) bool {
		n, ok := types.Unalias(t).(*types.Named)
		return ok && n.Obj().Name() == "Color"
	}
	n := 0
	for _, b := range fn.Blocks {
		var colourPhi *ssa.Phi
		var others []*ssa.Phi
		for _, in := range b.Instrs {
			ph, ok := in.(*ssa.Phi)
			if !ok {
				break
			}
			if isColour(ph.Type()) {
				colourPhi = ph
			} else {
				others = append(others, ph)
			}
		}
		if colourPhi == nil {
			continue
		}
		n++
		bad := ""
		for _, ph := range others {
			// carried around the loop: an edge from a block the header dominates that is not the phi itself
			for i, e := range ph.Edges {
				if b.Dominates(b.Preds[i]) && e != ssa.Value(ph) {
					bad = ph.Comment
					if bad == "" {
						bad = ph.Name()
					}
				}
			}
		}
		if bad == "" {
			c.Ok(rule, "InvalidPieceCount#per-colour", colourPhi.Pos(), "the loop over the colours carries nothing but the colour from one side to the other")
		} else {
			c.Fail(rule, "InvalidPieceCount#per-colour", colourPhi.Pos(), "the value %q is carried from the White iteration of the piece-count loop into the Black one: one side's promoted pieces are charged against the other side's budget, so valid positions are rejected", bad)
		}
	}
	if n == 0 {
		// written without a loop (two spelled-out halves): nothing is carried between iterations
		c.OkTrivial(rule, "InvalidPieceCount#per-colour", fn.Pos(), "no loop over the two colours: nothing can be carried from one side to the other")
	}
}

func init() {
	addMutants(
		Mutant{Name: "C11.R6-promoted-tally-shared-between-colours", Prop: "C11", File: "board/board.go", Quick: true,
			Old: "func (b Board) InvalidPieceCount() bool {\n\tfor color := White; color <= Black; color++ {", New: "func (b Board) InvalidPieceCount() bool {\n\tpromoted := 0\n\tfor color := White; color <= Black; color++ {",
			Old2: "\t\tpromoted := pknights + pbishops + prooks + pqueens\n", New2: "\t\tpromoted += pknights + pbishops + prooks + pqueens\n", File2: "board/board.go",
			Expect: "C11.R6/InvalidPieceCount#per-colour"},
	)
}
