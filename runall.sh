#!/bin/sh
# developer aid: run every registered quick (or $1) check, print one line each, exit 1 if any fails
cd "$(dirname "$0")"; t=${1:-quick}; rc=0
for p in $(./bin/chesslint list); do
  out=$(./check.sh $p $t 2>&1); r=$?
  echo "$p rc=$r $(echo "$out" | tail -1)"
  [ $r -ne 0 ] && { rc=1; echo "$out" | grep -v '^VIOLATION' | head -5 | cut -c1-300; }
done
exit $rc
