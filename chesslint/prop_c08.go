package main

import (
	"fmt"
	"go/token"
	"go/types"
	"strings"

	"golang.org/x/tools/go/ssa"
)

func init() {
	register(&Property{
		ID: "C08",
		Explain: "Static necessary conditions for 'search is reproducible and never overspends its node budget'. " +
			"R1 (nondeterminism audit): in the call-graph closure of Search.Go the only nondeterminism sources are the wall clock in iterativeDeepen — whose values flow only into the info line, Counters.Time and softAbort's elapsed argument —, the poll of the stop channel in abort, the poll of the ponder-hit channel, and the output sink's channel hand-off; no goroutine, map iteration, random source or address-derived integer. " +
			"R2 (budget guard): every store to Counters.Nodes in the program is a +1 entered only through `Nodes == -1` or `Counters.Nodes < Nodes` (strict). " +
			"R3: the soft limits are read only in softAbort, which is called only from iterativeDeepen, after the iteration's result has been adopted, outside the aspiration loop. " +
			"Not decided: equality of two runs. Note (not a finding): quiescence stores a bound computed from an aborted child before testing abort; the property as stated still holds.",
		Assume: []string{"VTA call graph over-approximates dynamic calls", "std library callees outside time/rand/runtime/os are deterministic functions of their arguments"},
		Run:    runC08,
	})
}

func runC08(c *Ctx) {
	p := c.need("default")
	if p == nil {
		return
	}
	c08R1(c, p)
	c08R2(c, p)
	c08R3(c, p)
	boardCopyRule(c, p, "C08.R4")
	c08R5(c, p)
	// "replaying with the node count as a hard budget reproduces the result": what Go returns is decided by the
	// completed iterations alone, never by the way the search was cut short
	c.As("C07.R3", "C08.R6.result", func() { c07R3R4(c, p, true) })
	// what is reported must be what was computed: the output line is not recycled while it is being written
	poolUseAfterPut(c, p, "C08.R7.output-buffer", map[string]bool{"uci": true, "search": true})
}

// allowed nondeterminism sites inside the closure of Search.Go: function -> kinds
var c08Allowed = map[string]map[string]string{
	"search.(*Search).iterativeDeepen": {
		"call time.Now":   "wall clock for reporting and the soft limit only (flow checked)",
		"call time.Since": "wall clock for reporting and the soft limit only (flow checked)",
		"select":          "non-blocking poll of the ponder-hit channel",
	},
	"search.(*Search).abort": {
		"select": "non-blocking poll of the stop channel: the one sanctioned way to interrupt",
	},
	"uci.(*output).Write": {
		"channel send": "output sink hand-off; nothing flows back into the search",
	},
}

func c08R1(c *Ctx, p *Prog) {
	const rule = "C08.R1"
	goFn := p.Func("search.(*Search).Go")
	if goFn == nil {
		c.Anchor(rule, "search.(*Search).Go")
		return
	}
	fns := p.closure([]*ssa.Function{goFn}, nil)
	eff := unionEffects(fns)
	c.Note("C08.R1: closure of Search.Go has %d functions; external callees: %s", len(fns), strings.Join(sortedKeys(eff.Extern), ", "))
	okCount := 0
	perFn := map[string]int{}
	for _, s := range eff.Nondet {
		fn := fnName(s.Fn)
		perFn[fn+"|"+s.What]++
		key := fmt.Sprintf("%s#%s@%d", fn, strings.ReplaceAll(s.What, " ", "-"), perFn[fn+"|"+s.What])
		if why, ok := c08Allowed[fn][s.What]; ok {
			c.Ok(rule, key, s.Pos, "allowed: %s", why)
			okCount++
			continue
		}
		c.Fail(rule, key, s.Pos, "nondeterminism source inside the search: %s in %s — results would depend on timing/scheduling rather than on state, position and limits", s.What, fn)
	}
	c.Floor(rule+".sites", okCount, 4, "sanctioned nondeterminism sites")
	// unsafe / reflect / os environment / sync.Pool-style sources by extern name
	for _, k := range sortedKeys(eff.Extern) {
		if strings.HasPrefix(k, "reflect.") || strings.HasPrefix(k, "math/rand") || strings.HasPrefix(k, "crypto/rand") || k == "os.Getenv" {
			s := eff.Extern[k][0]
			c.Fail(rule, "extern:"+k, s.Pos, "search closure calls %s in %s", k, fnName(s.Fn))
		}
	}
	// package-level variables written inside the closure (state outside the engine instance)
	for _, g := range sortedKeys(eff.GlobalWrites) {
		s := eff.GlobalWrites[g][0]
		c.Fail(rule, "gwrite:"+g, s.Pos, "search writes package-level variable %s in %s: state that is not part of the engine instance influences later searches", g, fnName(s.Fn))
	}
	c.OkTrivial(rule, "no-global-writes", goFn.Pos(), "%d package-level variables written in the closure", len(eff.GlobalWrites))
	// mutable globals read must be init-only
	for _, g := range sortedKeys(eff.GlobalReads) {
		if out := p.nonInitGlobalWriters(g); len(out) > 0 {
			// params in spsa builds are set through uci setoption: part of "stored state"; default build: constants
			if strings.HasPrefix(g, "params.") {
				continue
			}
			if g == "eval.Coefficients" || g == "os.Stdout" {
				continue
			}
			s := eff.GlobalReads[g][0]
			c.Fail(rule, "gread:"+g, s.Pos, "search reads package-level %s which is written outside initialisation by %v", g, out)
		}
	}
	// time values flow only into: fmt print arguments, Counters.Time, softAbort's first argument
	it := p.Func("search.(*Search).iterativeDeepen")
	if it == nil {
		c.Anchor(rule, "search.(*Search).iterativeDeepen")
		return
	}
	bad := timeFlowEscapes(it)
	c.Check(bad == "", rule, "iterativeDeepen#time-flow", it.Pos(), "wall-clock values reach only the info line, Counters.Time and softAbort's elapsed argument %s", bad)
}

// timeFlowEscapes follows values derived from time.Now/time.Since forward and
// returns a description of the first use outside the sanctioned sinks.
func timeFlowEscapes(fn *ssa.Function) string { return timeFlowEscapesFrom(fn, nil, 0) }

// timeFlowEscapesFrom: as timeFlowEscapes; with seeds (parameters of a helper that receive a clock value) the
// clock reads of fn itself are not looked for again and a tainted return value is reported to the caller as "returned".
func timeFlowEscapesFrom(fn *ssa.Function, seeds []ssa.Value, depth int) string {
	tainted := map[ssa.Value]bool{}
	var work []ssa.Value
	add := func(v ssa.Value) {
		if v != nil && !tainted[v] {
			tainted[v] = true
			work = append(work, v)
		}
	}
	for _, sd := range seeds {
		add(sd)
	}
	allInstrs(fn, func(in ssa.Instruction) {
		if seeds != nil {
			return
		}
		if call, ok := in.(*ssa.Call); ok {
			if f := calleeObj(call); f != nil && f.Pkg() != nil && f.Pkg().Path() == "time" && (f.Name() == "Now" || f.Name() == "Since") {
				add(call)
			}
		}
		// a value received from the ponder-hit channel is a time stamp too
		if sel, ok := in.(*ssa.Select); ok {
			add(sel)
		}
	})
	for len(work) > 0 {
		v := work[len(work)-1]
		work = work[:len(work)-1]
		if v.Referrers() == nil {
			continue
		}
		for _, r := range *v.Referrers() {
			switch x := r.(type) {
			case *ssa.Phi, *ssa.Convert, *ssa.ChangeType, *ssa.MakeInterface, *ssa.Extract:
				add(x.(ssa.Value))
			case *ssa.DebugRef:
			case *ssa.BinOp:
				// comparisons on the select index / ok flag are control, arithmetic keeps the taint
				if _, fromSel := v.(*ssa.Extract); fromSel && (x.Op == token.EQL || x.Op == token.NEQ) {
					continue
				}
				add(x)
			case *ssa.If:
				// branching on the select outcome (which case fired) is the sanctioned poll;
				// any other branch on a clock-derived value makes the search depend on time
				if ex, ok := v.(*ssa.Extract); ok {
					if _, isSel := ex.Tuple.(*ssa.Select); isSel {
						continue
					}
				}
				return fmt.Sprintf("(branch on a time-derived value at %s)", fn.Prog.Fset.Position(x.Cond.Pos()))
			case *ssa.Call:
				f := calleeObj(x)
				switch {
				case f != nil && f.Pkg() != nil && f.Pkg().Path() == "time":
					add(x) // Since(t), d.Milliseconds()
				case f != nil && f.Pkg() != nil && f.Pkg().Path() == "fmt":
					// info line
				case objName(f) == "search.(*Options).softAbort":
					if len(x.Call.Args) >= 2 && x.Call.Args[1] == v {
						continue
					}
					return fmt.Sprintf("(time-derived value passed to softAbort in a position other than elapsed at %s)", fn.Prog.Fset.Position(x.Pos()))
				default:
					// a helper of package search: the value may only go where it may go here
					h := x.Call.StaticCallee()
					if h != nil && isOwn(h) && h.Blocks != nil && relPkg(fnPkgPath(h)) == "search" && depth < 3 {
						var sd []ssa.Value
						for i, a := range x.Call.Args {
							if a == v && i < len(h.Params) {
								sd = append(sd, h.Params[i])
							}
						}
						switch esc := timeFlowEscapesFrom(h, sd, depth+1); esc {
						case "":
							continue
						case "(time-derived value returned)":
							add(x)
							continue
						default:
							return esc
						}
					}
					return fmt.Sprintf("(time-derived value passed to %s at %s)", objName(f), fn.Prog.Fset.Position(x.Pos()))
				}
			case *ssa.Store:
				if x.Val != v {
					continue
				}
				// Counters.Time, or a vararg slot of a fmt call, or a local
				if fr, ok := asFieldAddr(x.Addr); ok {
					if fr.QName() == "search.Counters.Time" {
						continue
					}
					return fmt.Sprintf("(time-derived value stored to %s)", fr.QName())
				}
				if ia, ok := x.Addr.(*ssa.IndexAddr); ok {
					if al, ok := ia.X.(*ssa.Alloc); ok && allUsesAreFmt(al) {
						continue
					}
				}
				if al, ok := x.Addr.(*ssa.Alloc); ok {
					// local variable: its loads are tainted
					for _, rr := range *al.Referrers() {
						if ld, ok := rr.(*ssa.UnOp); ok && ld.Op == token.MUL {
							add(ld)
						}
					}
					continue
				}
				return "(time-derived value stored to memory)"
			case *ssa.Return:
				return "(time-derived value returned)"
			default:
				return fmt.Sprintf("(time-derived value used by %T)", r)
			}
		}
	}
	return ""
}

func allUsesAreFmt(al *ssa.Alloc) bool {
	for _, r := range *al.Referrers() {
		if sl, ok := r.(*ssa.Slice); ok {
			for _, rr := range *sl.Referrers() {
				call, ok := rr.(*ssa.Call)
				if !ok {
					return false
				}
				if f := calleeObj(call); f == nil || f.Pkg() == nil || f.Pkg().Path() != "fmt" {
					return false
				}
			}
		}
	}
	return true
}

func c08R2(c *Ctx, p *Prog) {
	const rule = "C08.R2"
	ws := p.writersOf("search.Counters.Nodes")
	n := 0
	for _, w := range sortedKeys(ws) {
		if strings.HasSuffix(w, "#escape") {
			c.Fail(rule, "writer:"+w, ws[w][0].Pos, "address of Counters.Nodes escapes in %s", w)
			continue
		}
		for _, s := range ws[w] {
			if s.What == "whole-struct store" {
				continue // fresh Counters{} construction
			}
			st, ok := s.In.(*ssa.Store)
			if !ok {
				continue
			}
			n++
			key := w + "#Nodes-store"
			bo, ok := stripConv(st.Val).(*ssa.BinOp)
			okInc := ok && bo.Op == token.ADD
			if okInc {
				k, isc := constOf(bo.Y)
				fr, isF := directFieldLoadAny(stripConv(bo.X))
				okInc = isc && k == 1 && isF && fr == "search.Counters.Nodes"
			}
			if !okInc {
				c.Fail(rule, key+"#plus-one", st.Pos(), "Counters.Nodes is changed other than by +1: reported node counts can decrease or jump")
				continue
			}
			// the increment may execute only when `Nodes == -1` or `Counters.Nodes < Nodes` (strict):
			// decided by simulating every path to it over these two atoms, whatever the arrangement
			// of the conditions (De Morgan, early returns, named booleans).
			classify := func(v ssa.Value) (string, bool, bool) {
				cb, ok := v.(*ssa.BinOp)
				if !ok {
					return "", false, false
				}
				x, xf := directFieldLoadAny(stripConv(cb.X))
				y, yf := directFieldLoadAny(stripConv(cb.Y))
				kx, xc := constOf(cb.X)
				ky, yc := constOf(cb.Y)
				switch {
				case xf && x == "search.Options.Nodes" && yc && ky == -1 && cb.Op == token.EQL,
					yf && y == "search.Options.Nodes" && xc && kx == -1 && cb.Op == token.EQL:
					return "unlimited", false, true
				case xf && x == "search.Options.Nodes" && yc && ky == -1 && cb.Op == token.NEQ,
					yf && y == "search.Options.Nodes" && xc && kx == -1 && cb.Op == token.NEQ:
					return "unlimited", true, true
				case xf && yf && x == "search.Counters.Nodes" && y == "search.Options.Nodes":
					switch cb.Op {
					case token.LSS:
						return "below", false, true
					case token.GEQ:
						return "below", true, true
					}
				case xf && yf && x == "search.Options.Nodes" && y == "search.Counters.Nodes":
					switch cb.Op {
					case token.GTR:
						return "below", false, true
					case token.LEQ:
						return "below", true, true
					}
				}
				return "", false, false
			}
			over, done := canExecuteUnder(st.Parent(), classify, nil, func(in ssa.Instruction) bool { return in == ssa.Instruction(st) }, map[string]bool{"unlimited": false, "below": false}, 1)
			reach, _ := canExecuteUnder(st.Parent(), classify, nil, func(in ssa.Instruction) bool { return in == ssa.Instruction(st) }, map[string]bool{"unlimited": false, "below": true}, 1)
			switch {
			case !done:
				c.Undec(rule, key+"#guard", st.Pos(), "too many paths to simulate")
			case over:
				c.Fail(rule, key+"#guard", st.Pos(), "the node counter can be incremented although the budget is limited (Nodes != -1) and Counters.Nodes < Nodes does not hold: a hard budget of N can be exceeded")
			case !reach:
				c.Undec(rule, key+"#guard", st.Pos(), "the increment is never reached under `Nodes != -1 && Counters.Nodes < Nodes`: the budget test is not the one the rule understands")
			default:
				c.Ok(rule, key+"#guard", st.Pos(), "on every path the increment executes only if `Nodes == -1` or `Counters.Nodes < Nodes` (strict): a budget of N is never exceeded")
			}
		}
	}
	c.Floor(rule, n, 1, "stores to Counters.Nodes")
	// on the other edge the flag is raised
	if fn := p.Func("search.(*Search).incrementNodes"); fn != nil {
		sets := 0
		for _, st := range fieldStores(fn, "Search.aborted") {
			if k, isc := constOf(st.Val); isc && k == 1 {
				sets++
			}
		}
		c.Check(sets >= 1, rule, "incrementNodes#raises-abort", fn.Pos(), "when the budget is exhausted the sticky abort flag is raised")
	}
}

func directFieldLoadAny(v ssa.Value) (string, bool) {
	u, ok := v.(*ssa.UnOp)
	if !ok || u.Op != token.MUL {
		return "", false
	}
	fa, ok := u.X.(*ssa.FieldAddr)
	if !ok {
		return "", false
	}
	fr, ok := asFieldAddr(fa)
	if !ok {
		return "", false
	}
	return fr.QName(), true
}

func c08R3(c *Ctx, p *Prog) {
	const rule = "C08.R3"
	// readers of SoftTime / SoftNodes
	for _, f := range []string{"search.Options.SoftTime", "search.Options.SoftNodes"} {
		var readers []string
		for _, fn := range p.OwnFuncs() {
			if len(directEffects(fn).FieldReads[f]) > 0 {
				readers = append(readers, fnName(fn))
			}
		}
		ok := len(readers) == 1 && readers[0] == "search.(*Options).softAbort"
		c.Check(ok, rule, "readers:"+f, token.NoPos, "%s is consulted only in softAbort (readers: %v)", f, readers)
	}
	n := 0
	for _, fn := range p.OwnFuncs() {
		for _, ci := range callsIn(fn, "search.(*Options).softAbort") {
			n++
			name := fnName(fn)
			if name != "search.(*Search).iterativeDeepen" {
				// a helper that only iterativeDeepen calls: the rule moves to its call sites there
				it := p.Func("search.(*Search).iterativeDeepen")
				private := it != nil && relPkg(fnPkgPath(fn)) == "search"
				var sites []ssa.CallInstruction
				if private {
					for _, caller := range p.OwnFuncs() {
						cs := callsInFn(caller, fn)
						if len(cs) > 0 && caller != it {
							private = false
						}
						if caller == it {
							sites = cs
						}
					}
				}
				if !private || len(sites) == 0 {
					c.Fail(rule, name+"#softAbort", ci.Pos(), "softAbort is consulted in %s: soft limits must only act between iterations", name)
					continue
				}
				c08SoftHelper(c, p, it, fn, ci, sites)
				continue
			}
			c08BetweenIterations(c, p, fn, ci, name)
			// nodes argument is Counters.Nodes
			okArg := false
			if len(ci.Common().Args) == 3 {
				if q, ok := directFieldLoadAny(stripConv(ci.Common().Args[2])); ok && q == "search.Counters.Nodes" {
					okArg = true
				}
			}
			c.Check(okArg, rule, name+"#softAbort-nodes", ci.Pos(), "the soft node limit is compared with Counters.Nodes")
			c08SoftNeedsMove(c, p, fn, ci)
		}
	}
	c.Floor(rule, n, 1, "softAbort call sites")
}

func isDepthTyped(v ssa.Value) bool {
	n, ok := types.Unalias(v.Type()).(*types.Named)
	return ok && n.Obj().Name() == "Depth"
}

func init() {
	addMutants(
		Mutant{Name: "C08.R3-soft-stop-without-a-move", Prop: "C08", File: "search/search.go", Quick: true,
			Old: "if move != 0 && opts.softAbort(", New: "if opts.softAbort(",
			Expect: "C08.R3/search.(*Search).iterativeDeepen#softAbort-needs-move"},
		Mutant{Name: "C08.R6-ponder-cleared-on-every-abort", Prop: "C08", File: "search/search.go", Quick: true,
			Old: "\t\t\t\tif move == 0 {\n\t\t\t\t\ts.ms.Push()\n\t\t\t\t\tdefer s.ms.Pop()\n\n\t\t\t\t\t// give up on ponder\n\t\t\t\t\tponder = 0\n", New: "\t\t\t\t// give up on ponder\n\t\t\t\tponder = 0\n\t\t\t\tif move == 0 {\n\t\t\t\t\ts.ms.Push()\n\t\t\t\t\tdefer s.ms.Pop()\n\n",
			Expect: "C08.R6.result/iterativeDeepen#result-of-last-iteration"},
		Mutant{Name: "C08.R5-soft-time-compared-when-unset", Prop: "C08", File: "search/state.go", Quick: true,
			Old: "(o.SoftTime > 0 && elapsed > o.SoftTime)", New: "(elapsed > o.SoftTime)",
			Expect: "C08.R5/softAbort#disabled-limit-inert:SoftTime"},
		Mutant{Name: "C08.R5-soft-nodes-compared-when-unset", Prop: "C08", File: "search/state.go",
			Old: "(o.SoftNodes > 0 && nodes > o.SoftNodes)", New: "(nodes > o.SoftNodes)",
			Expect: "C08.R5/softAbort#disabled-limit-inert:SoftNodes"},
		Mutant{Name: "C08.R1-time-dependent-reduction", Prop: "C08", File: "search/search.go", Quick: true,
			Old: "\t\tsinceStart := time.Since(start).Milliseconds()\n", New: "\t\tsinceStart := time.Since(start).Milliseconds()\n\t\tif sinceStart > 5000 {\n\t\t\tfactor = 4\n\t\t}\n",
			File2: "search/search.go", Old2: "\t\tawOk := false // aspiration window succeeded\n\t\tfactor := Score(1)\n", New2: "\t\tawOk := false // aspiration window succeeded\n\t\tfactor := Score(1)\n\t\t_ = factor\n",
			Expect: "C08.R1/iterativeDeepen#time-flow"},
		Mutant{Name: "C08.R1-map-ordered-killers", Prop: "C08", File: "heur/heur.go",
			Old: "func (mr *MoveRanker) RankQuiet(m move.Move, b *board.Board, stack *stack.Stack[StackMove]) Score {\n\tscore := mr.history.LookUp(b.STM, m.From(), m.To())\n", New: "var killerBonus = map[move.Move]Score{}\n\nfunc (mr *MoveRanker) RankQuiet(m move.Move, b *board.Board, stack *stack.Stack[StackMove]) Score {\n\tscore := mr.history.LookUp(b.STM, m.From(), m.To())\n\tfor k, v := range killerBonus {\n\t\tif k == m {\n\t\t\tscore += v\n\t\t\tbreak\n\t\t}\n\t}\n",
			Expect: "C08.R1/heur.(*MoveRanker).RankQuiet#range-over-map"},
		Mutant{Name: "C08.R1-clock-polled-in-alphabeta", Prop: "C08", File: "search/search.go",
			Old: "\tif s.abort(opts) {\n\t\treturn Inv\n\t}\n\n\ttfCnt := b.Threefold()", New: "\tif s.abort(opts) || (opts.SoftTime > 0 && time.Now().UnixMilli()%1000 == 999) {\n\t\treturn Inv\n\t}\n\n\ttfCnt := b.Threefold()",
			Expect: "C08.R1/search.(*Search).alphaBeta#call-time.Now"},
		Mutant{Name: "C08.R1-global-node-counter", Prop: "C08", File: "search/search.go",
			Old: "func (s *Search) incrementNodes(opts *Options) {\n", New: "var TotalNodes int\n\nfunc (s *Search) incrementNodes(opts *Options) {\n\tTotalNodes++\n",
			Expect: "C08.R1/gwrite:search.TotalNodes"},
		Mutant{Name: "C08.R2-budget-off-by-one", Prop: "C08", File: "search/search.go", Quick: true,
			Old: "if opts.Nodes == -1 || opts.Counters.Nodes < opts.Nodes {", New: "if opts.Nodes == -1 || opts.Counters.Nodes <= opts.Nodes {",
			Expect: "C08.R2/search.(*Search).incrementNodes#Nodes-store#guard"},
		Mutant{Name: "C08.R2-quiescence-counts-unguarded", Prop: "C08", File: "search/search.go",
			Old: "\ts.incrementNodes(opts)\n\n\tif s.abort(opts) {\n\t\treturn Inv\n\t}\n\n\tif b.FiftyCnt >= 100 || b.Threefold() >= 3 {", New: "\topts.Counters.Nodes++\n\n\tif s.abort(opts) {\n\t\treturn Inv\n\t}\n\n\tif b.FiftyCnt >= 100 || b.Threefold() >= 3 {",
			Expect: "C08.R2/search.(*Search).quiescence#Nodes-store"},
		Mutant{Name: "C08.R3-soft-limit-inside-alphabeta", Prop: "C08", File: "search/search.go", Quick: true,
			Old: "\tif s.abort(opts) {\n\t\treturn Inv\n\t}\n\n\ttfCnt := b.Threefold()", New: "\tif s.abort(opts) || opts.softAbort(0, opts.Counters.Nodes) {\n\t\treturn Inv\n\t}\n\n\ttfCnt := b.Threefold()",
			Expect: "C08.R3/search.(*Search).alphaBeta#softAbort"},
		Mutant{Name: "C08.R3-soft-nodes-read-in-increment", Prop: "C08", File: "search/search.go",
			Old: "\t} else if opts.PonderHit == nil {\n\t\ts.aborted = true\n\t}\n", New: "\t} else if opts.PonderHit == nil {\n\t\ts.aborted = true\n\t}\n\tif opts.SoftNodes > 0 && opts.Counters.Nodes > 2*opts.SoftNodes {\n\t\ts.aborted = true\n\t}\n",
			Expect: "C08.R3/readers:search.Options.SoftNodes"},
	)
}

// c08R5: a soft limit that is not set (<= 0, the documented "no limit") must not be able to end
// the search. softAbort may answer true only through a limit whose own "enabled" test
// (limit > 0) holds: in particular a search given node or depth limits and no soft time must never
// consult the wall clock, or its result depends on machine speed.
func c08R5(c *Ctx, p *Prog) {
	const rule = "C08.R5"
	fn := p.Func("search.(*Options).softAbort")
	if fn == nil {
		c.Anchor(rule, "search.(*Options).softAbort")
		return
	}
	if len(fn.Params) < 3 {
		c.Undec(rule, "softAbort#params", fn.Pos(), "expected (o, elapsed, nodes)")
		return
	}
	fieldOf := func(v ssa.Value) string {
		l, ok := stripConv(v).(*ssa.UnOp)
		if !ok || l.Op != token.MUL {
			return ""
		}
		fr, ok := asFieldAddr(l.X)
		if !ok {
			return ""
		}
		return fr.Field.Name()
	}
	paramIx := func(v ssa.Value) int {
		v = stripConv(v)
		for i, q := range fn.Params {
			if v == ssa.Value(q) {
				return i
			}
		}
		return -1
	}
	limits := map[string]int{"SoftTime": 1, "SoftNodes": 2} // limit field -> index of the measured parameter
	classify := func(v ssa.Value) (string, bool, bool) {
		bo, ok := v.(*ssa.BinOp)
		if !ok {
			return "", false, false
		}
		x, y, op := bo.X, bo.Y, bo.Op
		// enabled test: limit > 0
		for i := 0; i < 2; i++ {
			if f := fieldOf(x); limits[f] != 0 {
				if k, isc := constOf(y); isc {
					switch {
					case (op == token.GTR && k == 0) || (op == token.GEQ && k == 1):
						return "enabled:" + f, false, true
					case (op == token.LEQ && k == 0) || (op == token.LSS && k == 1):
						return "enabled:" + f, true, true
					}
				}
				if paramIx(y) == limits[f] {
					return "over:" + f, false, true // polarity does not matter for this rule
				}
			}
			x, y, op = y, x, swapCmp(op)
		}
		return "", false, false
	}
	for lim := range limits {
		other := "SoftNodes"
		if lim == "SoftNodes" {
			other = "SoftTime"
		}
		// can the function answer true while `lim` is disabled and the other limit is not exceeded?
		bad, badPos := false, fn.Pos()
		sm := &simulator{fn: fn, classify: classify, maxVisit: 1}
		sm.atExit = func(ret *ssa.Return, asg map[string]bool) {
			if en, ok := asg["enabled:"+lim]; ok && en {
				return
			}
			if ov, ok := asg["over:"+other]; ok && ov {
				if en, ok := asg["enabled:"+other]; !ok || en {
					return // legitimately true through the other limit
				}
			}
			// was this path decided by the measured value of the disabled limit?
			if _, used := asg["over:"+lim]; !used {
				return
			}
			if len(ret.Results) != 1 {
				return
			}
			val, known := true, false
			switch r := ret.Results[0].(type) {
			case *ssa.Const:
				k, _ := constOf(r)
				val, known = k != 0, true
			case *ssa.Phi:
				if b, ok := asg["φ"+r.Name()]; ok {
					val, known = b, true
				}
			default:
				if name, neg, ok := classify(r); ok {
					if b, ok := asg[name]; ok {
						val, known = b != neg, true
					}
				}
			}
			if !known || val {
				if _, tested := asg["enabled:"+lim]; !tested || !asg["enabled:"+lim] {
					bad, badPos = true, ret.Pos()
				}
			}
		}
		sm.run()
		key := "softAbort#disabled-limit-inert:" + lim
		switch {
		case sm.aborted:
			c.Undec(rule, key, fn.Pos(), "path simulation exceeded its budget")
		case bad:
			c.Fail(rule, key, badPos, "softAbort can answer true from comparing against %s on a path where %s > 0 does not hold: a search that sets no such limit (documented: <= 0 means none) is ended by it — for the time limit that makes node/depth-limited searches depend on the wall clock", lim, lim)
		default:
			c.Ok(rule, key, fn.Pos(), "%s can end the search only where %s > 0 holds", lim, lim)
		}
	}
}

// c08SoftNeedsMove: a search stopped by a soft limit hands over the move of the iteration just finished; the
// hard-budget replay with the same node count aborts inside the next iteration and, with no move adopted so far,
// takes the first-legal-move fallback. The two agree only when the soft stop is taken with a move in hand: every
// path from the soft-limit test to a return on which the limit was hit knows `move != 0`.
func c08SoftNeedsMove(c *Ctx, p *Prog, fn *ssa.Function, ci ssa.CallInstruction) {
	const rule = "C08.R3"
	key := fnName(fn) + "#softAbort-needs-move"
	callV, _ := ci.(ssa.Value)
	if callV == nil {
		c.Undec(rule, key, ci.Pos(), "the soft-limit test is not an ordinary call")
		return
	}
	_, mvPhis, mvAlloc := resultWeb(fn, 1)
	if len(mvPhis) == 0 && mvAlloc == nil {
		c.Undec(rule, key, ci.Pos(), "the move result of %s is not tracked through a local or phis", fnName(fn))
		return
	}
	isMove := func(v ssa.Value) bool {
		v = stripConv(v)
		if ph, ok := v.(*ssa.Phi); ok && mvPhis[ph] {
			return true
		}
		if ld, ok := v.(*ssa.UnOp); ok && ld.Op == token.MUL && mvAlloc != nil && ld.X == ssa.Value(mvAlloc) {
			return true
		}
		return false
	}
	// fact: (is a test of the move against 0, move known non-zero)
	fact := func(v ssa.Value, truth bool) (bool, bool) {
		for {
			if u, ok := v.(*ssa.UnOp); ok && u.Op == token.NOT {
				v, truth = u.X, !truth
				continue
			}
			break
		}
		bo, ok := v.(*ssa.BinOp)
		if !ok || (bo.Op != token.EQL && bo.Op != token.NEQ) {
			return false, false
		}
		for _, pr := range [][2]ssa.Value{{bo.X, bo.Y}, {bo.Y, bo.X}} {
			if k, isc := constOf(pr[1]); isc && k == 0 && isMove(pr[0]) {
				return true, (bo.Op == token.NEQ) == truth
			}
		}
		return false, false
	}
	pre := false
	for _, ce := range controllingConds(ci.Block()) {
		if is, nz := fact(ce.Cond, ce.True); is && nz {
			pre = true
		}
	}
	isSearch := func(in ssa.Instruction) bool {
		call, ok := in.(*ssa.Call)
		if !ok {
			return false
		}
		switch objName(calleeObj(call)) {
		case "search.(*Search).alphaBeta", "search.(*Search).quiescence":
			return true
		}
		return false
	}
	hasSearch := func(b *ssa.BasicBlock) bool {
		for _, in := range b.Instrs {
			if isSearch(in) {
				return true
			}
		}
		return false
	}
	hits, bad := 0, token.NoPos
	complete := enumBlockPaths(ci.Block(), func(_, to *ssa.BasicBlock) bool { return hasSearch(to) }, 100000, func(bp *bpath) {
		if bp.End != "return" {
			return
		}
		hit, known := false, pre
		for _, pc := range bp.Conds {
			if pc.V == callV && pc.True {
				hit = true
			}
			if is, nz := fact(pc.V, pc.True); is && nz {
				known = true
			}
		}
		if !hit {
			return
		}
		// a return reached through the next iteration's depth increment (the depth limit ends the loop) is not a soft stop
		nextIter := false
		bp.instrsOnPath(ci.(ssa.Instruction), func(in ssa.Instruction, _ int) {
			if bo, ok := in.(*ssa.BinOp); ok && bo.Op == token.ADD && isDepthTyped(bo) {
				k, isc := constOf(bo.Y)
				if _, isPhi := stripConv(bo.X).(*ssa.Phi); isc && k == 1 && isPhi {
					nextIter = true
				}
			}
		})
		if nextIter {
			return
		}
		hits++
		if !known && !bad.IsValid() {
			last := bp.Blocks[len(bp.Blocks)-1]
			bad = last.Instrs[len(last.Instrs)-1].Pos()
			if !bad.IsValid() {
				bad = ci.Pos()
			}
		}
	})
	switch {
	case !complete:
		c.Undec(rule, key, ci.Pos(), "path enumeration from the soft-limit test exceeded its budget")
	case hits == 0:
		c.Undec(rule, key, ci.Pos(), "no path from the soft-limit test to a return on which the limit was hit was recognised")
	case bad.IsValid():
		c.Fail(rule, key, bad, "the search can stop at a soft limit without a move in hand (no `move != 0` on the path from softAbort to this return): after N nodes it returns the null move, while the hard-budget replay with N nodes aborts inside the next iteration and takes the first-legal-move fallback, so the two disagree")
	default:
		c.Ok(rule, key, ci.Pos(), "every soft stop (%d paths) is taken with move != 0, as the hard-budget replay's fallback presumes", hits)
	}
}

// c08BetweenIterations: outside the aspiration loop — after the soft limit was consulted at ci no root search call
// can follow without passing the depth increment.
func c08BetweenIterations(c *Ctx, p *Prog, fn *ssa.Function, ci ssa.CallInstruction, name string) {
	const rule = "C08.R3"
	again := ""
	for _, d := range callsIn(fn, "search.(*Search).alphaBeta") {
		if r, _ := reachAvoiding(ci.(ssa.Instruction), d.(ssa.Instruction), func(x ssa.Instruction) bool {
			bo, ok := x.(*ssa.BinOp)
			if !ok || bo.Op != token.ADD {
				return false
			}
			k, isc := constOf(bo.Y)
			_, isPhi := stripConv(bo.X).(*ssa.Phi)
			return isc && k == 1 && isPhi && isDepthTyped(bo)
		}); r {
			again = p.Rel(d.Pos())
		}
	}
	c.Check(again == "", rule, name+"#softAbort-between-iterations", ci.Pos(), "after consulting the soft limit the search continues only into the next depth %s", again)
}

// c08SoftHelper: softAbort is consulted inside helper h (call ci), which only iterativeDeepen calls (sites).
func c08SoftHelper(c *Ctx, p *Prog, it, h *ssa.Function, ci ssa.CallInstruction, sites []ssa.CallInstruction) {
	const rule = "C08.R3"
	name := fnName(it)
	_, mvPhis, mvAlloc := resultWeb(it, 1)
	isMove := func(v ssa.Value) bool {
		v = stripConv(v)
		if ph, ok := v.(*ssa.Phi); ok && mvPhis[ph] {
			return true
		}
		if ld, ok := v.(*ssa.UnOp); ok && ld.Op == token.MUL && mvAlloc != nil && ld.X == ssa.Value(mvAlloc) {
			return true
		}
		return false
	}
	// nodes argument: Counters.Nodes, read in the helper or handed in
	okArg := false
	if args := ci.Common().Args; len(args) == 3 {
		a := stripConv(args[2])
		if q, ok := directFieldLoadAny(a); ok && q == "search.Counters.Nodes" {
			okArg = true
		}
		if par, ok := a.(*ssa.Parameter); ok {
			okArg = true
			for pi, hp := range h.Params {
				if hp != par {
					continue
				}
				for _, s := range sites {
					if pi >= len(s.Common().Args) {
						okArg = false
						continue
					}
					if q, ok := directFieldLoadAny(stripConv(s.Common().Args[pi])); !ok || q != "search.Counters.Nodes" {
						okArg = false
					}
				}
			}
		}
	}
	c.Check(okArg, rule, name+"#softAbort-nodes", ci.Pos(), "the soft node limit is compared with Counters.Nodes")
	// does the helper promise `true ⇒ move != 0` for a move parameter bound to the result move at every site?
	movePar := map[ssa.Value]bool{}
	for pi, hp := range h.Params {
		all := len(sites) > 0
		for _, s := range sites {
			if pi >= len(s.Common().Args) || !isMove(s.Common().Args[pi]) {
				all = false
			}
		}
		if all {
			movePar[hp] = true
		}
	}
	parFact := func(v ssa.Value, truth bool) bool {
		for {
			if u, ok := v.(*ssa.UnOp); ok && u.Op == token.NOT {
				v, truth = u.X, !truth
				continue
			}
			break
		}
		bo, ok := v.(*ssa.BinOp)
		if !ok || (bo.Op != token.EQL && bo.Op != token.NEQ) {
			return false
		}
		for _, pr := range [][2]ssa.Value{{bo.X, bo.Y}, {bo.Y, bo.X}} {
			if k, isc := constOf(pr[1]); isc && k == 0 && movePar[stripConv(pr[0])] {
				return (bo.Op == token.NEQ) == truth
			}
		}
		return false
	}
	callV, _ := ci.(ssa.Value)
	promises, decided := true, h.Signature.Results().Len() == 1 && callV != nil
	if decided {
		pre := false
		for _, ce := range controllingConds(ci.Block()) {
			if parFact(ce.Cond, ce.True) {
				pre = true
			}
		}
		complete := enumBlockPaths(ci.Block(), nil, 20000, func(bp *bpath) {
			if bp.End != "return" {
				return
			}
			last := bp.Blocks[len(bp.Blocks)-1]
			ret := last.Instrs[len(last.Instrs)-1].(*ssa.Return)
			rv := bp.resolve(returnedValue(ret, 0))
			if k, isc := rv.(*ssa.Const); isc {
				if kv, _ := constOf(k); kv == 0 {
					return
				}
			}
			known := pre
			for _, pc := range bp.Conds {
				if parFact(pc.V, pc.True) {
					known = true
				}
				if pc.V == callV && !pc.True && rv == callV {
					return // returns the (false) answer of softAbort
				}
			}
			// `return best != 0 && softAbort(..)`: the returned value itself may be the conjunction's phi resolved to the call
			if !known {
				promises = false
			}
		})
		if !complete {
			decided = false
		}
	}
	for _, s := range sites {
		c08BetweenIterations(c, p, it, s, name)
		switch {
		case decided && promises:
			// the stop decision carries the guarantee; the call site only has to return on it
			c.Ok(rule, name+"#softAbort-needs-move", s.Pos(), "%s answers true only with a non-null move (bound to the result move here): a soft stop is taken with a move in hand", h.Name())
		default:
			c08SoftNeedsMove(c, p, it, s)
		}
	}
}
