package main

// Engine A (PAIR): open/close typestate on every path of a function's SSA CFG.

import (
	"fmt"
	"go/token"
	"sort"

	"golang.org/x/tools/go/ssa"
)

type pairSpec struct {
	Rule  string
	Open  string // callee spec of the open call
	Close string // callee spec of the close call
	// ArgPairs: (open arg index, close arg index) that must denote the same value; index 0 is the receiver.
	ArgPairs [][2]int
	// TokenArg: close argument index that must be the value returned by the open call (-1: none).
	TokenArg int
	// Exempt: function name -> reason (make without undo is the point there).
	Exempt map[string]string
	// Only: restrict to functions in these packages (relative paths); empty = all own packages.
	Only []string
}

// sameValue: do a and b denote the same run-time value, as far as SSA shape shows?
func sameValue(a, b ssa.Value, depth int) bool {
	if a == b {
		return true
	}
	if depth > 6 {
		return false
	}
	a, b = stripConv(a), stripConv(b)
	if a == b {
		return true
	}
	switch x := a.(type) {
	case *ssa.Const:
		if y, ok := b.(*ssa.Const); ok {
			return x.Value != nil && y.Value != nil && x.Value.ExactString() == y.Value.ExactString() || x.Value == nil && y.Value == nil
		}
	case *ssa.UnOp:
		if y, ok := b.(*ssa.UnOp); ok && x.Op == y.Op {
			return sameValue(x.X, y.X, depth+1)
		}
	case *ssa.FieldAddr:
		if y, ok := b.(*ssa.FieldAddr); ok && x.Field == y.Field {
			return sameValue(x.X, y.X, depth+1)
		}
	case *ssa.Field:
		if y, ok := b.(*ssa.Field); ok && x.Field == y.Field {
			return sameValue(x.X, y.X, depth+1)
		}
	case *ssa.IndexAddr:
		if y, ok := b.(*ssa.IndexAddr); ok {
			return sameValue(x.X, y.X, depth+1) && sameValue(x.Index, y.Index, depth+1)
		}
	case *ssa.Call:
		// pure accessor calls on the same receiver (e.g. b.STM.Flip(), m.To())
		if y, ok := b.(*ssa.Call); ok {
			fx, fy := calleeObj(x), calleeObj(y)
			if fx == nil || fx != fy || len(x.Call.Args) != len(y.Call.Args) {
				return false
			}
			for i := range x.Call.Args {
				if !sameValue(x.Call.Args[i], y.Call.Args[i], depth+1) {
					return false
				}
			}
			return true
		}
	}
	return false
}

type pairState struct {
	known    bool
	open     ssa.CallInstruction
	deferred bool
	conflict bool
}

func (s pairState) eq(t pairState) bool {
	return s.known == t.known && s.open == t.open && s.deferred == t.deferred && s.conflict == t.conflict
}

func argOf(ci ssa.CallInstruction, i int) ssa.Value {
	cc := ci.Common()
	if cc.IsInvoke() {
		if i == 0 {
			return cc.Value
		}
		i--
	}
	if i < len(cc.Args) {
		return cc.Args[i]
	}
	return nil
}

// checkPair analyses every own function containing an Open call. Returns the
// number of open sites analysed.
func checkPair(c *Ctx, p *Prog, spec pairSpec) int {
	sites := 0
	for _, fn := range p.OwnFuncs() {
		if len(spec.Only) > 0 {
			ok := false
			for _, o := range spec.Only {
				if relPkg(fnPkgPath(fn)) == o {
					ok = true
				}
			}
			if !ok {
				continue
			}
		}
		opens := callsIn(fn, spec.Open)
		closes := callsIn(fn, spec.Close)
		if len(opens) == 0 && len(closes) == 0 {
			continue
		}
		name := fnName(fn)
		if why, ok := spec.Exempt[name]; ok {
			c.OkTrivial(spec.Rule, name+"#exempt", fn.Pos(), "exempt: %s", why)
			continue
		}
		// the UCI driver sets positions up: it plays the moves of a `position` command for good. Those makes are
		// never undone by design, under whatever name the helper goes (C02.R5/R8 and C05.R6 own them).
		if _, listed := spec.Exempt["uci.(*Driver).applyMoves"]; listed && relPkg(fnPkgPath(fn)) == "uci" && len(closes) == 0 {
			c.OkTrivial(spec.Rule, name+"#exempt", fn.Pos(), "exempt: the UCI driver applies the moves of a position command permanently")
			continue
		}
		sites += len(opens)
		pairFunc(c, spec, fn, name)
	}
	return sites
}

func pairFunc(c *Ctx, spec pairSpec, fn *ssa.Function, name string) {
	n := len(fn.Blocks)
	in := make([]pairState, n)
	out := make([]pairState, n)
	type viol struct {
		pos  token.Pos
		what string
		key  string
	}
	var viols []viol
	report := func(pos token.Pos, key, format string, args ...any) {
		viols = append(viols, viol{pos, fmt.Sprintf(format, args...), key})
	}
	ordinal := map[ssa.Instruction]int{}
	{
		k := 0
		allInstrs(fn, func(i ssa.Instruction) {
			if isCallTo(i, spec.Open) {
				k++
				ordinal[i] = k
			}
		})
	}
	transfer := func(b *ssa.BasicBlock, st pairState, emit bool) pairState {
		for _, ins := range b.Instrs {
			switch x := ins.(type) {
			case *ssa.Defer:
				if isCallTo(x, spec.Close) {
					if st.open == nil || st.conflict {
						if emit {
							report(x.Pos(), "defer-close", "deferred %s without an open %s on every path to it", spec.Close, spec.Open)
						}
					} else {
						if emit {
							pairMatch(spec, st.open, x, report, ordinal)
						}
						// the close is now guaranteed at function exit: discharged
						st = pairState{known: true}
					}
					continue
				}
				if isCallTo(x, spec.Open) && emit {
					report(x.Pos(), "defer-open", "deferred %s is not analysable", spec.Open)
				}
			case *ssa.Call:
				if isCallTo(x, spec.Open) {
					if st.open != nil || st.conflict {
						if emit {
							report(x.Pos(), fmt.Sprintf("open%d", ordinal[x]), "%s while a previous %s is still open (missing %s on some path)", spec.Open, spec.Open, spec.Close)
						}
					}
					st = pairState{known: true, open: x}
				} else if isCallTo(x, spec.Close) {
					if st.open == nil {
						if emit {
							report(x.Pos(), "close", "%s without a matching open %s on some path to it", spec.Close, spec.Open)
						}
					} else if st.deferred {
						if emit {
							report(x.Pos(), "close", "%s although a deferred %s is already registered (double close)", spec.Close, spec.Close)
						}
					} else if emit {
						pairMatch(spec, st.open, x, report, ordinal)
					}
					st = pairState{known: true}
				}
			case *ssa.Return:
				if (st.open != nil || st.conflict) && !st.deferred && emit {
					o := 0
					if st.open != nil {
						o = ordinal[st.open]
					}
					report(x.Pos(), fmt.Sprintf("open%d-exit", o), "function can return with %s still open: exit at %s is reachable without %s", spec.Open, c.pos(x.Pos()), spec.Close)
				}
			}
		}
		return st
	}
	merge := func(b *ssa.BasicBlock) pairState {
		if len(b.Preds) == 0 {
			return pairState{known: true}
		}
		var st pairState
		for _, pr := range b.Preds {
			o := out[pr.Index]
			if !o.known {
				continue
			}
			if !st.known {
				st = o
				continue
			}
			if st.open != o.open || st.deferred != o.deferred {
				st.conflict = true
				if st.open == nil {
					st.open = o.open
				}
			}
			if o.conflict {
				st.conflict = true
			}
		}
		return st
	}
	for iter := 0; iter < 4*n+8; iter++ {
		changed := false
		for _, b := range fn.Blocks {
			st := merge(b)
			in[b.Index] = st
			if !st.known {
				continue
			}
			o := transfer(b, st, false)
			if !o.eq(out[b.Index]) {
				out[b.Index] = o
				changed = true
			}
		}
		if !changed {
			break
		}
	}
	for _, b := range fn.Blocks {
		if !in[b.Index].known {
			continue
		}
		fresh := in[b.Index].conflict
		for _, pr := range b.Preds {
			if out[pr.Index].conflict {
				fresh = false // cascaded from an earlier join, already reported there
			}
		}
		if fresh {
			// report at the join itself once
			report(b.Instrs[0].Pos(), fmt.Sprintf("join@b%d", b.Index), "paths join with different %s/%s states (open on one path, closed on another)", spec.Open, spec.Close)
		}
		transfer(b, in[b.Index], true)
	}
	if len(viols) == 0 {
		c.Ok(spec.Rule, name, fn.Pos(), "%s/%s balanced on every path (%d blocks), tokens match", spec.Open, spec.Close, n)
		return
	}
	sort.Slice(viols, func(i, j int) bool { return viols[i].pos < viols[j].pos })
	seen := map[string]bool{}
	for _, v := range viols {
		k := name + "#" + v.key
		if seen[k] {
			continue
		}
		seen[k] = true
		c.Fail(spec.Rule, k, v.pos, "%s", v.what)
	}
}

func pairMatch(spec pairSpec, open, cl ssa.CallInstruction, report func(token.Pos, string, string, ...any), ordinal map[ssa.Instruction]int) {
	for _, ap := range spec.ArgPairs {
		a, b := argOf(open, ap[0]), argOf(cl, ap[1])
		if a == nil || b == nil || !sameValue(a, b, 0) {
			report(cl.Pos(), fmt.Sprintf("open%d-arg%d", ordinal[open.(ssa.Instruction)], ap[1]), "%s argument %d is not the value given to the matching %s (argument %d)", spec.Close, ap[1], spec.Open, ap[0])
		}
	}
	if spec.TokenArg >= 0 {
		t := argOf(cl, spec.TokenArg)
		ov, _ := open.(ssa.Value)
		if t == nil || ov == nil || stripConv(t) != ov {
			report(cl.Pos(), fmt.Sprintf("open%d-token", ordinal[open.(ssa.Instruction)]), "%s is not given the token returned by the matching %s", spec.Close, spec.Open)
		}
	}
}
